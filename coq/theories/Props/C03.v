(* Props/C03.v — property C03: the compiled circuit computes what the MPCL
   program means.  Only statements closed by [exact], each followed by
   Print Assumptions.

   WHAT IS AND IS NOT PROVED.  The property quantifies over the programs the Go
   compiler /repo/compiler accepts; the Go compiler is not an object of these
   theorems.  Proved here: the reference semantics (Lang/Mini.v, [exec_mini])
   is implemented by the LOWERING SCHEME modelled in Lang/Lower.v (bindings,
   merge by branch condition, return decision tree, dead/alive branches, loop
   unrolling, call inlining, mov/smov and operand typing) under the
   instruction semantics of Lang/Ssa.v.  Checked on every run (not proved):
   the Go compiler agrees with [exec_mini] on the generated programs
   (source-level tie), the SSA listing the Go compiler prints evaluates under
   [eval_ssa] to what the real circuit computes (SSA tie, which is what
   connects circuitgen.go and the builders to Lang/Ssa.v), and [lower] itself
   agrees with both on the same programs.  DESIGN's C03_circuit_of_ssa (gates
   of every instruction = its arithmetic meaning) is NOT proved here. *)
From Coq Require Import ZArith NArith List Bool.
From Mpc Require Import Gen.Consts Gen.Thresholds Lang.Mini Lang.Ssa Lang.Lower Lang.LowerProof
     Lang.RunC03 Lang.RunC03Proof Lang.CircGen Lang.CircGenProof Lang.CircGenCompose
     Lang.CircEmbed Lang.CircEmbedProof.
Import ListNotations.
From Mpc Require Gen.State Base.StateExpected Base.StateCheck Base.StatePkgs.

(* FULL statement for the model.  For every Mini program p (any number of
   functions; expressions over bool/intN/uintN of any width N with + - * / %
   & | ^ &^ comparisons && || ! unary minus, constant shifts, casts, constant
   and run-time array indexing, struct fields; statements: declarations with
   Go scoping and shadowing, assignments, element/field stores, if/else with
   early return at any depth, for loops with compile-time bounds and returns
   inside them, calls with several results) that is typed (width-consistent,
   calls go to earlier functions, every path returns) and for every input
   vector: evaluating the lowered SSA program yields exactly the outputs of
   the reference interpreter.  Unbounded: induction over expressions,
   statements, iteration counts and the list of functions. *)
Theorem C03_lower_correct :
  forall p inp, typed p -> eval_ssa (lower p) inp = exec_mini p inp.
Proof. exact lower_correct. Qed.
Print Assumptions C03_lower_correct.

(* Expression level, all widths, all environments: the instructions emitted
   for an expression extend the value list and define an operand whose value
   is the value of the expression and whose width is its static width. *)
Theorem C03_lower_expr_correct : forall e ce en G vs wd c o,
  env_ok vs ce en G -> wt_expr G e = Some wd ->
  lower_expr ce e (length vs) = (c, o) ->
  exists tail, run_code c vs = vs ++ tail /\ length tail = length c /\
     ok (vs ++ tail) o (eval e en) /\ opnd_bits o = wd.
Proof. exact lower_expr_ok. Qed.
Print Assumptions C03_lower_expr_correct.

(* The same statement is FALSE for the binding discipline the Go compiler
   actually uses (one flat scope per function: Codegen.Scope() is constant,
   Bindings.Merge keeps names declared in a branch) — [lower_flat]: a
   declaration in a nested block that re-uses an outer name overwrites the
   outer variable.  Witness by computation; the harness replays the same
   program on the real compiler (finding C03-F1). *)
Theorem C03_lower_flat_refuted :
  exists p inp, typed p /\ eval_ssa (lower_flat p) inp <> exec_mini p inp.
Proof. exact lower_flat_refuted. Qed.
Print Assumptions C03_lower_flat_refuted.

(* Instruction-level witness of finding C03-F2: with the literal left in its
   32-bit container (as the compiler emits it) `a > 5` on a = -1 : int8
   evaluates to true under the instruction semantics, to false under the
   reference semantics. *)
Theorem C03_literal_container_witness :
  eval_ssa (mkSprog [8%nat] [mkInstr Oigt [OVar 0 (mkSty true 8); OConst 32 5 (mkSty true 32)] (mkSty false 1) 0]
                    [OVar 1 (mkSty false 1)]) [255%N] = [1%N]
  /\ exec_mini [mkFunc [(0%nat, TInt 8)] [TBool] (SReturn [EBin Gt (TInt 8) (EVar 0) (ELit (TInt 8) 5)])] [255%N] = [0%N].
Proof. exact literal_container_witness. Qed.
Print Assumptions C03_literal_container_witness.

(* The opcode numbers by which the harness's SSA listings are decoded are the
   ssa.Operand values regenerated from compiler/ssa/instructions.go. *)
Theorem C03_opcode_enum :
  map dec_opcode
      [compiler_ssa_Iadd; compiler_ssa_Uadd; compiler_ssa_Isub; compiler_ssa_Usub;
       compiler_ssa_Imult; compiler_ssa_Umult; compiler_ssa_Idiv; compiler_ssa_Udiv;
       compiler_ssa_Imod; compiler_ssa_Umod; compiler_ssa_Band; compiler_ssa_Bor;
       compiler_ssa_Bxor; compiler_ssa_Bclr; compiler_ssa_Ilt; compiler_ssa_Ult;
       compiler_ssa_Ile; compiler_ssa_Ule; compiler_ssa_Igt; compiler_ssa_Ugt;
       compiler_ssa_Ige; compiler_ssa_Uge; compiler_ssa_Eq; compiler_ssa_Neq;
       compiler_ssa_And; compiler_ssa_Or; compiler_ssa_Not; compiler_ssa_Mov;
       compiler_ssa_Smov; compiler_ssa_Lshift; compiler_ssa_Rshift; compiler_ssa_Srshift;
       compiler_ssa_Slice; compiler_ssa_Amov; compiler_ssa_Index; compiler_ssa_Phi;
       compiler_ssa_Concat; compiler_ssa_Bts; compiler_ssa_Btc; compiler_ssa_Circ;
       compiler_ssa_Builtin; compiler_ssa_Ret; compiler_ssa_GC]
  = [Oiadd; Ouadd; Oisub; Ousub; Oimult; Oumult; Oidiv; Oudiv; Oimod; Oumod;
     Oband; Obor; Obxor; Obclr; Oilt; Oult; Oile; Oule; Oigt; Ougt; Oige; Ouge;
     Oeq; Oneq; Oand; Oor; Onot; Omov; Osmov; Olshift; Orshift; Osrshift;
     Oslice; Oamov; Oindex; Ophi;
     Oconcat; Obts; Obtc; Ounsupported; Ohamming;
     Ounsupported; Ounsupported].
Proof. exact opcode_enum_ok. Qed.
Print Assumptions C03_opcode_enum.

(* Frame property of a store  arr[from:to] = v  (opcode amov, Assign.SSA on an
   element or field, copy()): for every value list, every value operand ov of
   ANY width (a literal in its 32/64-bit container, a source array longer than
   the destination range), every array operand and all bounds from <= to <=
   width of the result: every bit of the result outside [from,to) is the bit of
   the array operand (cut / zero-padded to the result width) ... *)
Theorem C03_amov_frame : forall vs ov oa from to out aux i,
  (from <= to)%nat -> (to <= s_bits out)%nat ->
  (i < N.of_nat from \/ N.of_nat to <= i)%N ->
  N.testbit (eval_instr vs (mkInstr Oamov [ov; oa; kconst from; kconst to] out aux)) i
  = N.testbit (norm (s_bits out) (opnd_val vs oa)) i.
Proof. exact amov_instr_frame. Qed.
Print Assumptions C03_amov_frame.

(* ... and the bits [from,to) are the low to-from bits of the value. *)
Theorem C03_amov_slot : forall vs ov oa from to out aux,
  (from <= to)%nat -> (to <= s_bits out)%nat ->
  slice_sem from (to - from) (eval_instr vs (mkInstr Oamov [ov; oa; kconst from; kconst to] out aux))
  = norm (to - from) (opnd_val vs ov).
Proof. exact amov_instr_slot. Qed.
Print Assumptions C03_amov_slot.

(* The same at the source level (Mini.store_sem, the meaning of x[k] = e and
   x.f = e): bits outside the slot keep the value of x. *)
Theorem C03_store_frame : forall tw off w a v i, (off + w <= tw)%nat ->
  (i < N.of_nat off \/ N.of_nat (off + w) <= i)%N ->
  N.testbit (store_sem tw off w a v) i = N.testbit (norm tw a) i.
Proof. exact store_sem_frame. Qed.
Print Assumptions C03_store_frame.

(* ---------------------------------------------------------------------------
   The SSA -> circuit step (compiler/ssa/circuitgen.go).  WHAT IS AND IS NOT PROVED.  Lang/CircGen.v is a Gallina model of
   ssa.Program.CompileCircuit up to and including prog.Circuit(cc)
   (compiler/ssa/circuitgen.go: operand wires from the wire allocator with the
   constant cast, the switch over the opcodes, Ret; program.go: input wires and
   DefineConstants) on top of the builder transcriptions of C07.  Proved here,
   for the model: gate-by-gate evaluation of the generated gate list returns
   exactly eval_ssa — for every program satisfying the executable side
   conditions cg_wf, all widths, all inputs; composed with C03_lower_correct:
   exactly exec_mini.  The model is tied to the Go code on every run
   (harness/c03cg.go, modes 4/5 of run_c03): for the REAL SSA listing of every
   generated program the model's gate list equals, gate for gate after canonical
   wire renumbering, Compiler.Gates as it stands after prog.Circuit(cc) (before
   the optimisation passes of C09 and Compiler.Compile), and its evaluation
   equals the outputs of the real circuit; the value of cg_wf on the real
   program is part of the compared observable.
   COVERED: every opcode for which Program.Circuit has a case and that can
   occur without native circuit files — the arithmetic, bitwise, comparison,
   logical, move / shift / slice / amov / index / phi opcodes, concat, bts, btc
   (peephole.go), builtin (circuits.Hamming), circ (the embedding of a parsed
   native circuit file, Lang/CircEmbed.v: argument flattening and zero padding,
   allocation of result and intermediate wires, renumbering of the sub-circuit's
   gates — for EVERY sub-circuit meeting circ_ok), ret; the four divisions with a
   zero divisor, operands of any two widths and (unsigned) a narrower result
   (Lang/CircGenDivProof.v re-proves NewUDivider / NewIDivider for circuitgen's
   calling convention: nil quotient or remainder).  cg_wf's side conditions are
   the width relations of a typed listing (result no wider than the operands of
   an adder / subtractor / multiplier / bitwise operation, 1-bit results of
   comparisons, ...) and the conditions under which the Go code itself returns
   an error or indexes out of range (slice / amov bounds, NewMUX widths, ...).
   circ: an instruction of Lang/Ssa.v defines one value, the listing line
   "circ a.. r0 .. rm" several: Ocirc defines the concatenation of all results
   (the wires circOut of Program.Circuit) and the harness lets one slice
   instruction per r_j follow (slice emits no gate).  The sub-circuit is
   instr.Circ as it stands in memory after the real circuit.Parse.
   NOT modelled: the floating point opcodes and builtins other than Hamming
   (decode to Ounsupported, which cg_wf rejects).  Targets: Yao (utils.NewParams) everything; GMW everything but
   division (the Goldschmidt divider is not exact: C07 findings F31-F33).
   The passes after circuitgen are C09's. *)

(* For every SSA program p (any number of inputs and instructions, any widths)
   that satisfies the executable predicate cg_wf (at least one input wire; per
   instruction the operand count of its opcode and the width relations listed in
   Lang/CircGen.v) and every input vector: evaluating the gates that
   circuit_of_ssa emits for p, one by one in emission order, from the input
   bits, yields on the output wires exactly the values eval_ssa p inp.
   Unbounded: induction over the instruction list with the invariant "the wires
   registered for every value defined so far carry its value", per opcode the
   C07 builder theorem for every width; the emitted list is proved single
   assignment and defined-before-use, so gate-by-gate evaluation is the unique
   consistent valuation.  Opcodes covered: iadd uadd isub usub imult umult idiv
   udiv imod umod (zero divisor included) band bor bxor bclr ilt ult ile ule igt
   ugt ige uge eq neq and or not mov smov lshift rshift srshift slice amov index
   phi concat bts btc builtin(hamming), circ (any number of circ steps, every
   sub-circuit meeting circ_ok, any number and widths of arguments and results;
   its meaning is Circuit.eval_plain of the sub-circuit — the model of
   circuit.Circuit.Compute that C01 is stated about — on the concatenated zero
   padded arguments: C03_circ_meaning), and ret. *)
Theorem C03_circuitgen_correct : forall p inp,
  cg_wf p = true ->
  eval_circuit (circuit_of_ssa p) (input_bits (sp_inputs p) inp) = eval_ssa p inp.
Proof. exact circuitgen_correct. Qed.
Print Assumptions C03_circuitgen_correct.

(* GMW target (Params.Target = utils.TargetGMW: Kogge-Stone adders and
   subtractors, Wallace multiplier), every program without a division
   (cg_wf_tg true p = cg_wf p and no idiv udiv imod umod), every threshold. *)
Theorem C03_circuitgen_correct_gmw : forall thr p inp,
  cg_wf_tg true p = true ->
  eval_circuit (circuit_of_ssa_gen multiplierArrayTresholds thr true p) (input_bits (sp_inputs p) inp)
  = eval_ssa p inp.
Proof. exact circuitgen_correct_gmw. Qed.
Print Assumptions C03_circuitgen_correct_gmw.

(* The hypotheses are honest about the ORDER of the gates: eval_circuit evaluates
   the list gate by gate in emission order, which is meaningful because for
   every program meeting cg_wf_tg (either target, every threshold) the
   generated list is single assignment (wfc_b) and defined before use (dbu) —
   proved, not assumed.  (Real lists that are not defined-before-use exist —
   GMW target, a division with a result narrower than its operands: the
   Goldschmidt divider leaves the result wires undriven — and there cg_wf_tg is
   false on both sides of the correspondence.) *)
Theorem C03_circuitgen_structure : forall tg thr p, cg_wf_tg tg p = true ->
  let c := circuit_of_ssa_gen multiplierArrayTresholds thr tg p in
  Mpc.Builders.Emit.wfc_b (N.of_nat (cc_ninp c)) (cc_gates c) = true /\
  Mpc.Builders.StructProof.dbu (N.of_nat (cc_ninp c)) (cc_gates c).
Proof. exact circuitgen_structure. Qed.
Print Assumptions C03_circuitgen_structure.

(* The same for every value of Params.CircMultArrayTreshold (the Karatsuba /
   array switch of NewMultiplier), with the threshold table regenerated from
   circ_multiplier_params.go. *)
Theorem C03_circuitgen_correct_any_threshold : forall thr p inp,
  cg_wf p = true ->
  eval_circuit (circuit_of_ssa_gen multiplierArrayTresholds thr false p) (input_bits (sp_inputs p) inp)
  = eval_ssa p inp.
Proof. exact circuitgen_correct_gen. Qed.
Print Assumptions C03_circuitgen_correct_any_threshold.

(* Source to gates: for every typed Mini program p whose lowering satisfies
   cg_wf and every input vector, the generated circuit computes the outputs of
   the reference interpreter.  (Mini, the documented core of MPCL, has no native
   call, so the lowering never emits circ; programs with circ steps are covered
   by C03_circuitgen_correct and the C03_circ_* theorems below.) *)
Theorem C03_compile_correct : forall p inp,
  typed p -> cg_wf (lower p) = true ->
  eval_circuit (circuit_of_ssa (lower p)) (input_bits (sp_inputs (lower p)) inp) = exec_mini p inp.
Proof. exact compile_correct. Qed.
Print Assumptions C03_compile_correct.

(* What cg_wf leaves out, as a statement: only the opcodes without a model
   (a builtin other than Hamming, floating point: they decode to Ounsupported). *)
Theorem C03_cg_wf_excludes : forall i, cg_wf_instr i = true -> i_op i <> Ounsupported.
Proof. exact cg_wf_instr_opcodes. Qed.
Print Assumptions C03_cg_wf_excludes.

(* Non-vacuity: a concrete program (signed compare, subtract, multiply, xor,
   arithmetic shift, cast, run-time index, conditional early return; 24 SSA
   instructions, 519 gates) meets both hypotheses ... *)
Theorem C03_cg_example_hypotheses : typed ex_prog /\ cg_wf (lower ex_prog) = true.
Proof. exact ex_hypotheses. Qed.
Print Assumptions C03_cg_example_hypotheses.

(* ... and its generated circuit, evaluated in the kernel, returns the reference
   outputs on an input of either branch. *)
Theorem C03_cg_example_runs :
  (20 <= length (sp_code (lower ex_prog)))%nat /\
  (300 <= length (cc_gates (circuit_of_ssa (lower ex_prog))))%nat /\
  eval_circuit (circuit_of_ssa (lower ex_prog)) (input_bits [8; 8]%nat [100; 7]%N) = exec_mini ex_prog [100; 7]%N /\
  exec_mini ex_prog [100; 7]%N = [93; 6; 0]%N /\
  eval_circuit (circuit_of_ssa (lower ex_prog)) (input_bits [8; 8]%nat [200; 77]%N) = exec_mini ex_prog [200; 77]%N /\
  exec_mini ex_prog [200; 77]%N = [208; 8; 1]%N.
Proof. exact ex_runs. Qed.
Print Assumptions C03_cg_example_runs.

(* Non-vacuity for the opcodes the lowering never emits and for GMW: an SSA
   program with concat, bts, btc, hamming, udiv / umod with a literal divisor
   in a wider container and a narrower result, idiv with operands of different widths, imod
   satisfies cg_wf, and its circuit evaluated in the kernel returns eval_ssa;
   a division-free variant satisfies cg_wf_tg true and its GMW circuit does. *)
Theorem C03_cg_example_new_opcodes :
  cg_wf ex_ssa = true /\
  eval_circuit (circuit_of_ssa ex_ssa) (input_bits [8; 8; 8]%nat [200; 249; 0x5a]%N)
  = eval_ssa ex_ssa [200; 249; 0x5a]%N /\
  eval_ssa ex_ssa [200; 249; 0x5a]%N = [51290; 1; 1; 6; 40; 83; 4; 0]%N.
Proof. exact (conj ex_ssa_wf (conj (proj1 ex_ssa_runs) (proj1 (proj2 ex_ssa_runs)))). Qed.
Print Assumptions C03_cg_example_new_opcodes.

Theorem C03_cg_example_gmw :
  cg_wf_tg true ex_ssa_gmw = true /\ cg_wf_tg true ex_ssa = false /\
  eval_circuit (circuit_of_ssa_gen multiplierArrayTresholds 0 true ex_ssa_gmw)
               (input_bits [8; 8; 8]%nat [200; 249; 0x5a]%N)
  = eval_ssa ex_ssa_gmw [200; 249; 0x5a]%N.
Proof. exact (conj (proj1 ex_ssa_gmw_wf) (conj (proj2 ex_ssa_gmw_wf) (proj1 ex_ssa_gmw_runs))). Qed.
Print Assumptions C03_cg_example_gmw.

(* ---------------------------------------------------------------------------
   circ — native circuit files (compiler/ssa/circuitgen.go "case Circ:").
   The meaning Lang/Ssa.v gives the instruction, for every value list, every
   sub-circuit, every argument list: the sub-circuit evaluated as by
   Circuit.Compute (Circuit.eval_plain) on the bits of argument k (brought to its
   declared width like every operand) zero padded to the width of the circuit's
   input k, all concatenated; the result wires read as one number. *)
Theorem C03_circ_meaning : forall vs ins c args out aux,
  eval_instr vs (mkInstr (Ocirc ins c) args out aux)
  = bits_val (Mpc.Circuit.Circuit.eval_plain c (circ_input vs args ins)).
Proof. exact circ_instr_meaning. Qed.
Print Assumptions C03_circ_meaning.

(* What cg_wf demands of a circ instruction, for every instruction: one argument
   per input of the sub-circuit and none wider than it, the input widths add up
   to the sub-circuit's input wires, the result has its output wires, and
   circ_ok: Circuit.wf (ids in range, gate inputs assigned before use, outputs
   assigned, no gate writes an input wire) + no wire written twice (the Go
   compiler panics there) + no output wire that is an input wire. *)
Theorem C03_cg_wf_circ : forall ins c args out aux,
  cg_wf_instr (mkInstr (Ocirc ins c) args out aux) = true <->
  args_fit args ins = true /\ tot ins = Mpc.Circuit.Circuit.ninputs c /\
  s_bits out = Mpc.Circuit.Circuit.noutputs c /\ circ_ok c = true.
Proof. exact cg_wf_circ. Qed.
Print Assumptions C03_cg_wf_circ.

(* The embedding by itself, in the vocabulary of the builder theorems of C07: for
   EVERY sub-circuit c meeting circ_ok, every list ws of argument wire vectors
   that fit the input widths ins, either target: from every well-formed compiler
   state the embedding returns ob = noutputs c result wires and only appends
   gates, and in EVERY wire valuation consistent with the gate list the result
   wires carry Circuit.eval_plain c of the values of the argument wires, each
   argument followed by zeros up to its input width.  Unbounded: induction over
   the sub-circuit's gate list. *)
Theorem C03_circ_embed_semantics : forall t ins ob c ws,
  circ_ok c = true -> Forall2 (fun w n => (length w <= n)%nat) ws ins ->
  tot ins = Mpc.Circuit.Circuit.ninputs c -> ob = Mpc.Circuit.Circuit.noutputs c ->
  Mpc.Builders.EmitProof.okp t (embed_circ ins ob c ws) (fun o => length o = ob)
      (fun o e => map e o = Mpc.Circuit.Circuit.eval_plain c (flat_bits e ws ins)).
Proof. exact okp_embed_circ. Qed.
Print Assumptions C03_circ_embed_semantics.

(* ... and it keeps the enclosing gate list single assignment and defined before
   use (wfst), defines every result wire, and leaves every wire defined before
   defined: for every compiler state, every sub-circuit meeting circ_ok, every
   list of defined argument wires that fit. *)
Theorem C03_circ_embed_structure : forall ninp ins ob c ws s,
  Mpc.Builders.StructProof.wfst ninp s -> circ_ok c = true ->
  Forall2 (fun w n => Forall (Mpc.Builders.StructProof.defd ninp s) w /\ (length w <= n)%nat) ws ins ->
  tot ins = Mpc.Circuit.Circuit.ninputs c -> ob = Mpc.Circuit.Circuit.noutputs c ->
  Mpc.Builders.StructProof.oks (ninp := ninp) (embed_circ ins ob c ws) s
    (fun o s' => after ninp s s' /\ Forall (Mpc.Builders.StructProof.defd ninp s') o).
Proof. exact embed_circ_s. Qed.
Print Assumptions C03_circ_embed_structure.

(* End to end for a call by itself: for EVERY sub-circuit c meeting circ_ok with
   at least one input wire, every split ins of its input wires into arguments
   and every input vector, the program "return native(c, x0, .., xk)" compiles
   to a circuit that computes exactly Circuit.eval_plain c on the input bits. *)
Theorem C03_circ_call_correct : forall ins c inp,
  circ_ok c = true -> tot ins = Mpc.Circuit.Circuit.ninputs c -> (1 <= Mpc.Circuit.Circuit.ninputs c)%nat ->
  eval_circuit (circuit_of_ssa (circ_call ins c)) (input_bits ins inp)
  = [bits_val (Mpc.Circuit.Circuit.eval_plain c (input_bits ins inp))].
Proof. exact circ_call_correct. Qed.
Print Assumptions C03_circ_call_correct.

(* Non-vacuity: a 2-bit adder with carry (all five gate kinds) meets circ_ok; a
   program calling it with a one-wire constant for its 2-bit input (zero
   padding), taking its two results apart and adding to one of them meets cg_wf
   for both targets ... *)
Theorem C03_circ_example_hypotheses :
  circ_ok ex_adder2 = true /\ cg_wf ex_circ = true /\ cg_wf_tg true ex_circ = true.
Proof. exact ex_circ_wf. Qed.
Print Assumptions C03_circ_example_hypotheses.

(* ... and on ALL its 8 inputs the generated circuits (Yao and GMW), evaluated in
   the kernel, return eval_ssa, which is a + 1 + c, its carry, (a + 1 + c) + a. *)
Theorem C03_circ_example_runs :
  map (fun v => eval_circuit (circuit_of_ssa ex_circ) (input_bits [2; 1]%nat v)) ex_circ_inputs
  = map (eval_ssa ex_circ) ex_circ_inputs /\
  map (fun v => eval_circuit (circuit_of_ssa_gen multiplierArrayTresholds 0 true ex_circ)
                             (input_bits [2; 1]%nat v)) ex_circ_inputs
  = map (eval_ssa ex_circ) ex_circ_inputs /\
  map (eval_ssa ex_circ) ex_circ_inputs
  = [[1; 0; 1; 1]; [2; 0; 3; 2]; [3; 0; 1; 3]; [0; 1; 3; 4];
     [2; 0; 2; 2]; [3; 0; 0; 3]; [0; 1; 2; 4]; [1; 1; 0; 5]]%N.
Proof. exact ex_circ_runs. Qed.
Print Assumptions C03_circ_example_runs.

(* circ_ok is strictly stronger than Circuit.wf (C01's hypothesis): a second
   write to an intermediate wire and an output wire that is an input wire are wf
   but not circ_ok. *)
Theorem C03_circ_ok_excludes :
  Mpc.Circuit.Circuit.wf ex_overwrite = true /\ circ_ok ex_overwrite = false /\
  Mpc.Circuit.Circuit.wf ex_passthrough = true /\ circ_ok ex_passthrough = false.
Proof. exact ex_circ_ok_excludes. Qed.
Print Assumptions C03_circ_ok_excludes.

(* The decoder of the harness's listings builds Ocirc from the exported
   instr.Circ; gate operations by the regenerated circuit.Operation values. *)
Theorem C03_circ_decode :
  (forall s, Mpc.Base.Sx.getZ (Mpc.Base.Sx.nthx 0 s) = compiler_ssa_Circ ->
     i_op (dec_instr s)
     = Ocirc (Mpc.Base.Sx.getLnat (Mpc.Base.Sx.nthx 5 s))
             (dec_circuit (Mpc.Base.Sx.nthx 6 s) (Mpc.Base.Sx.nthx 7 s))) /\
  map cop_of_Z [circuit_XOR; circuit_XNOR; circuit_AND; circuit_OR; circuit_INV]
  = [Mpc.Circuit.Circuit.XOR; Mpc.Circuit.Circuit.XNOR; Mpc.Circuit.Circuit.AND;
     Mpc.Circuit.Circuit.OR; Mpc.Circuit.Circuit.INV].
Proof. exact circ_decode_ok. Qed.
Print Assumptions C03_circ_decode.

(* STATE INVENTORY (finite obligation on the model regenerated from the source, checked by
   computation).  The struct fields and package-level variables of the Go packages this
   property is anchored in — compiler, compiler/ast, compiler/circuits, compiler/ssa — as emitted from /repo's current
   source by harness/gen_state.go (Gen/State.v) are exactly those the models above were written
   against (Base/StateExpected.v).  A new field or variable (a cache, a memo, a pool, a counter,
   a changed field type) is state the models do not have: this obligation then breaks and the
   property is no longer shown to hold until the change has been reviewed against the model. *)
Theorem C03_state_inventory :
  Mpc.Base.StateCheck.state_unchanged Mpc.Gen.State.state_inventory Mpc.Base.StateExpected.expected_state
    Mpc.Base.StatePkgs.pkgs_C03 = true.
Proof. vm_compute. reflexivity. Qed.
Print Assumptions C03_state_inventory.
