(* Props/C11.v — property C11: the connection layer (p2p.Conn) is a faithful,
   ordered, typed byte stream.  Only statements closed by [exact], each
   followed by Print Assumptions.  Model: Proto/Conn.v; proofs: Proto/ConnProof.v.
   The buffer sizes are universally quantified (>= 16 bytes, the largest
   fixed-size value); C11_real_sizes instantiates them with the constants
   regenerated from /repo/p2p/protocol.go. *)
From Coq Require Import ZArith NArith List Bool.
From Mpc Require Import Gen.Consts Base.Codec Proto.Conn Proto.ConnProof Proto.RunC11.
Import ListNotations.
From Mpc Require Gen.State Base.StateExpected Base.StateCheck Base.StatePkgs.

(* For every number of ring buffers, every write-buffer size, every sequence
   of send ops (any values, any payload sizes, Flush placed anywhere) in which
   Close, if present, is last: the chunks handed to the writer followed by
   the bytes still in the buffer are the concatenation of the encodings of
   the sent values, in order.  Flushes and buffer boundaries only change the
   chunking. *)
Theorem C11_stream_is_concat :
  forall (nbuf wcap : N), (0 < wcap)%N -> forall (ops : list op), close_only_last ops ->
    wire_bytes (run_sender nbuf wcap ops) ++ s_buf (run_sender nbuf wcap ops)
    = concat (map encode (values_of ops)).
Proof. exact stream_is_concat. Qed.
Print Assumptions C11_stream_is_concat.

(* ... and when the sequence ends with Flush or Close nothing stays behind:
   the transport carries exactly that concatenation (Close delivers
   everything still buffered). *)
Theorem C11_flushed_stream_is_concat :
  forall (nbuf wcap : N), (0 < wcap)%N -> forall (ops : list op), close_only_last ops -> ends_flushed ops ->
    wire_bytes (run_sender nbuf wcap ops) = concat (map encode (values_of ops)).
Proof. exact wire_is_concat. Qed.
Print Assumptions C11_flushed_stream_is_concat.

(* Round trip.  For all buffer sizes >= 16, every op sequence ending in Flush
   or Close (Close only last) whose data/string/size-list lengths fit the
   uint32 length prefix, every placement of Flushes, and EVERY segmentation
   [frags] of the byte stream by the transport (each underlying Read returns
   at most the rest of the current segment and at most the slice offered),
   whether the transport reports io.EOF together with its final bytes
   ([eofdata] = true) or only on the following Read:
   the matching typed receives return exactly the sent values, in order;
   nothing is left in window or transport; Stats.Recvd = Stats.Sent = the
   number of bytes on the wire.  The sent value of an integer op is its
   uint16/uint32 truncation ([value_of]); C11_domain says the truncation is
   the identity inside the width. *)
Theorem C11_roundtrip :
  forall (nbuf wcap rcap : N) (ops : list op) (frags : list N) (eofdata : bool),
    (16 <= wcap)%N -> (16 <= rcap)%N ->
    close_only_last ops -> ends_flushed ops -> Forall op_in_domain ops ->
    Forall (ty_fits rcap) (types_of ops) ->
    let s := run_sender nbuf wcap ops in
    let out := recv_all rcap (types_of ops) (r_init (mkT (wire_bytes s) frags eofdata 0)) in
    snd out = Some (values_of ops) /\
    all (fst out) = [] /\
    r_recvd (fst out) = s_sent s /\ s_sent s = nlen (wire_bytes s).
Proof. exact roundtrip. Qed.
Print Assumptions C11_roundtrip.

(* bytes, 16- and 32-bit integers, labels and size lists inside their width
   are transmitted as themselves *)
Theorem C11_domain :
  (forall b, (b < 256)%N -> value_of (OByte b) = Some (VByte b)) /\
  (forall v, (0 <= v < 65536)%Z -> value_of (OU16 v) = Some (VU16 (Z.to_N v))) /\
  (forall v, (0 <= v < 4294967296)%Z -> value_of (OU32 v) = Some (VU32 (Z.to_N v))) /\
  (forall l, (l < 2 ^ 128)%N -> value_of (OLabel l) = Some (VLabel l)) /\
  (forall l, Forall (fun v => 0 <= v < 4294967296)%Z l -> value_of (OSizes l) = Some (VSizes (map Z.to_N l))).
Proof. exact value_of_in_range. Qed.
Print Assumptions C11_domain.

(* Receiver refinement.  For every read-buffer size >= 16, every receiver
   state satisfying the window invariant (ReadEnd = ReadStart + |window| <=
   readBufSize), every transport state (any remaining stream, any
   segmentation, EOF delivered with the final bytes or after them — the
   transport is a component of the receiver state [r]) and every receive type: the typed receive computes the
   abstract parser on (window ++ rest of the stream): when the parser yields
   (v, rest') the receive returns v and leaves exactly rest' (invariant kept,
   Recvd advanced by the bytes pulled from the transport); when the parser
   fails (the stream ends first) the receive returns io.EOF.  Includes
   ReceiveData of any length (Fill is asked for min(need, readBufSize)). *)
Theorem C11_recv_refines :
  forall (rcap : N), (16 <= rcap)%N -> forall (t : ty) (r : receiver), ty_fits rcap t -> RInv rcap r ->
    refines rcap r (recv_ty rcap t r) (parse_ty t (all r)).
Proof. exact recv_ty_refines. Qed.
Print Assumptions C11_recv_refines.

(* ... and for whole receive sequences (any types, matching the sender or not) *)
Theorem C11_recv_all_refines :
  forall (rcap : N), (16 <= rcap)%N -> forall (tys : list ty) (r : receiver), Forall (ty_fits rcap) tys -> RInv rcap r ->
    let out := recv_all rcap tys r in
    RInv rcap (fst out) /\ pulled r (fst out) /\
    match parse_all tys (all r) with
    | Some (vs, rest) => snd out = Some vs /\ all (fst out) = rest
    | None => snd out = None
    end.
Proof. exact recv_all_refines. Qed.
Print Assumptions C11_recv_all_refines.

(* Fill bound.  Under the window invariant the only error a typed receive can
   return is EOF: never ESpin (= Fill called with more than the buffer can
   hold, where the Go read loop would not terminate), never fuel exhaustion. *)
Theorem C11_fill_bound :
  forall (rcap : N), (16 <= rcap)%N -> forall t r r' e, ty_fits rcap t -> RInv rcap r ->
    recv_ty rcap t r = (r', inr e) -> e = EEOF.
Proof. exact recv_ty_only_eof. Qed.
Print Assumptions C11_fill_bound.

(* Stats, sender side: after any op sequence Sent = bytes handed to the writer,
   Flushed = number of chunks, every chunk is non-empty and at most one
   buffer long. *)
Theorem C11_stats_sender :
  forall (nbuf wcap : N), (0 < wcap)%N -> (16 <= wcap)%N -> forall ops, Forall (raw_fits wcap) ops ->
    let s := run_sender nbuf wcap ops in
    s_sent s = nlen (wire_bytes s) /\ s_flushed s = nlen (s_chunks s) /\
    Forall (fun c => (0 < nlen (snd c) <= wcap)%N) (s_chunks s).
Proof. exact sender_counters. Qed.
Print Assumptions C11_stats_sender.

(* Counters after ANY op sequence over the whole op vocabulary — the Send*
   methods, Flush, Close AND the in-place write API (NeedSpace(n) followed by a
   store at WriteBuf[WritePos:], op [ORaw], whose buffer rollover happens
   inside NeedSpace) — for all buffer sizes, without any size hypothesis:
   Sent = number of bytes handed to the writer, Flushed = number of chunks,
   no chunk is empty.  (C11_stats_sender adds the chunk-size bound under the
   domain [raw_fits]: the caller stores at most the n bytes it asked for and
   n fits a buffer.)  The round-trip, refinement and stats theorems range over
   the same vocabulary; the in-place read (Fill(k), ReadBuf[ReadStart:..],
   type [TRaw k]) is in the domain when k <= readBufSize ([ty_fits]). *)
Theorem C11_stats_counters :
  forall (nbuf wcap : N) (ops : list op), KInv (run_sender nbuf wcap ops).
Proof. exact KInv_run. Qed.
Print Assumptions C11_stats_counters.

(* Stats agree with the bytes moved.  For all buffer sizes >= 16, every op
   sequence, every segmentation, EOF with or after the final bytes, and ANY
   sequence of typed receives (matching or not, complete or not, failing or
   not): Sent = number of bytes handed to the transport; Recvd + what the
   transport still holds = that number (Recvd = bytes pulled from the
   transport, including payloads larger than the read buffer, whose bytes all
   pass through Fill); if the receiver has consumed the stream exactly then
   Recvd = Sent; and for a script ending in Flush/Close received by the
   matching sequence this is the case (with the values of C11_roundtrip). *)
Theorem C11_stats_agree :
  forall (nbuf wcap rcap : N) (ops : list op) (frags : list N) (eofdata : bool) (tys : list ty),
    (16 <= wcap)%N -> (16 <= rcap)%N -> Forall (ty_fits rcap) tys ->
    let s := run_sender nbuf wcap ops in
    let out := recv_all rcap tys (r_init (mkT (wire_bytes s) frags eofdata 0)) in
    s_sent s = nlen (wire_bytes s) /\
    (r_recvd (fst out) + nlen (t_stream (r_t (fst out))))%N = nlen (wire_bytes s) /\
    (all (fst out) = [] -> r_recvd (fst out) = s_sent s) /\
    (close_only_last ops -> ends_flushed ops -> Forall op_in_domain ops -> tys = types_of ops ->
     snd out = Some (values_of ops) /\ r_recvd (fst out) = s_sent s).
Proof. exact stats_agree. Qed.
Print Assumptions C11_stats_agree.

(* Ring ownership.  In every state reachable by ANY interleaving of the main
   thread (NewConn, stores into the write buffer, Flush = send + receive,
   Close = close + drain) and the writer goroutine (allocate, take, Write,
   return, finish) over the two bounded channels, for every number of
   buffers and arbitrary buffer contents: the buffer main may store into is
   not queued on toWriter, not held by the writer, not in fromWriter, and all
   buffers in the system are pairwise distinct. *)
Theorem C11_ring_ownership :
  forall (nb : nat) (mem0 : nat -> list N) (g : ring) (b : nat),
    reachable nb mem0 g -> g_cur g = Some b ->
    ~ In b (map fst (g_toW g)) /\ ~ In b (hand (g_w g)) /\ ~ In b (g_fromW g) /\ NoDup (order nb g).
Proof. exact ring_ownership. Qed.
Print Assumptions C11_ring_ownership.

(* Write order = flush order, with aliasing: the conn.Write calls so far, the
   slice in the writer's hand and the queued slices, read from the shared
   buffers as they are NOW, equal the contents recorded when Flush sent them. *)
Theorem C11_ring_write_order :
  forall (nb : nat) (mem0 : nat -> list N) (g : ring), reachable nb mem0 g ->
    g_written g ++ in_hand g ++ map (content (g_mem g)) (g_toW g) = g_flushed g.
Proof. exact ring_write_order. Qed.
Print Assumptions C11_ring_write_order.

(* Close delivers everything: once Close has returned every flushed chunk has
   been written, in flush order. *)
Theorem C11_ring_close_delivers_all :
  forall (nb : nat) (mem0 : nat -> list N) (g : ring), reachable nb mem0 g ->
    g_main g = MClosed -> g_written g = g_flushed g.
Proof. exact ring_close_delivers_all. Qed.
Print Assumptions C11_ring_close_delivers_all.

(* The channel sends never block (the channels have one slot per buffer). *)
Theorem C11_ring_sends_never_block :
  forall (nb : nat) (mem0 : nat -> list N) (g : ring), reachable nb mem0 g ->
    (forall b, g_main g = MFill -> g_cur g = Some b -> (length (g_toW g) < nb)%nat) /\
    (forall b, g_w g = WWrote b -> (length (g_fromW g) < nb)%nat) /\
    (forall k, g_w g = WAlloc k -> (k < nb)%nat -> (length (g_fromW g) < nb)%nat).
Proof. exact ring_sends_never_block. Qed.
Print Assumptions C11_ring_sends_never_block.

(* The ring rotates: the k-th buffer main obtains is buffer (k-1) mod nb —
   the buffer identity [flush_buf] of the sender model computes. *)
Theorem C11_ring_rotation :
  forall (nb : nat) (mem0 : nat -> list N) (g : ring) (b : nat), reachable nb mem0 g ->
    g_main g = MFill -> g_cur g = Some b -> (0 < g_acq g)%nat /\ b = ((g_acq g - 1) mod nb)%nat.
Proof. exact ring_rotation. Qed.
Print Assumptions C11_ring_rotation.

(* Every Flush sends buffer (number of earlier Flushes) mod nb: in every
   reachable state of the ring system in which main is between two Flushes. *)
Theorem C11_ring_flush_buffer :
  forall (nb : nat) (mem0 : nat -> list N) (g : ring) (b : nat), reachable nb mem0 g ->
    g_main g = MFill -> g_cur g = Some b -> b = (length (g_flushed g) mod nb)%nat.
Proof. exact ring_flush_buffer. Qed.
Print Assumptions C11_ring_flush_buffer.

(* The functional sender model and the ring system agree.  For every number
   of buffers > 0, every buffer size, every op sequence, and ANY reachable
   state of the ring system (any interleaving of main and writer) in which
   main is between two Flushes and has flushed the chunks the functional
   sender computes: main's write buffer is the buffer the functional model
   names (its "(cur+1) mod numBuffers" is what the channels deliver), the
   i-th chunk of the functional model is in buffer i mod numBuffers (the
   buffer the ring's main held at its i-th Flush, C11_ring_flush_buffer), and
   the conn.Write calls made so far are a prefix of the model's chunks. *)
Theorem C11_sender_ring_agree :
  forall (nbuf wcap : N), (0 < nbuf)%N -> forall (ops : list op) (mem0 : nat -> list N) (g : ring),
    let s := run_sender nbuf wcap ops in
    reachable (N.to_nat nbuf) mem0 g -> g_main g = MFill ->
    g_flushed g = wire_chunks s ->
    g_cur g = Some (N.to_nat (s_cur s)) /\
    map fst (s_chunks s) = ids nbuf (length (s_chunks s)) /\
    (exists rest, wire_chunks s = g_written g ++ rest).
Proof. exact sender_ring_agree. Qed.
Print Assumptions C11_sender_ring_agree.

(* ... and such executions exist for every op sequence (the hypothesis above is
   not vacuous): an execution whose main flushes exactly the functional
   model's chunks and whose writer has written all of them. *)
Theorem C11_sender_ring_exists :
  forall (nbuf wcap : N) (ops : list op) (mem0 : nat -> list N), (0 < nbuf)%N -> (16 <= wcap)%N ->
    exists g, reachable (N.to_nat nbuf) mem0 g /\ g_main g = MFill /\
              g_flushed g = wire_chunks (run_sender nbuf wcap ops) /\
              g_written g = wire_chunks (run_sender nbuf wcap ops).
Proof. exact sender_ring_exists. Qed.
Print Assumptions C11_sender_ring_exists.

(* The constants of /repo/p2p/protocol.go (regenerated into Gen/Consts.v on
   every run) satisfy the size hypotheses of the theorems above. *)
Theorem C11_real_sizes :
  (16 <= c_wcap)%N /\ (16 <= c_rcap)%N /\ (0 < c_nbuf)%N /\
  c_nbuf = Z.to_N p2p_numBuffers /\ c_wcap = Z.to_N p2p_writeBufSize /\ c_rcap = Z.to_N p2p_readBufSize.
Proof. exact real_sizes_ok. Qed.
Print Assumptions C11_real_sizes.

(* STATE INVENTORY (finite obligation on the model regenerated from the source, checked by
   computation).  The struct fields and package-level variables of the Go packages this
   property is anchored in — p2p — as emitted from /repo's current
   source by harness/gen_state.go (Gen/State.v) are exactly those the models above were written
   against (Base/StateExpected.v).  A new field or variable (a cache, a memo, a pool, a counter,
   a changed field type) is state the models do not have: this obligation then breaks and the
   property is no longer shown to hold until the change has been reviewed against the model. *)
Theorem C11_state_inventory :
  Mpc.Base.StateCheck.state_unchanged Mpc.Gen.State.state_inventory Mpc.Base.StateExpected.expected_state
    Mpc.Base.StatePkgs.pkgs_C11 = true.
Proof. vm_compute. reflexivity. Qed.
Print Assumptions C11_state_inventory.
