(* Props/C11.v — property C11: the connection layer (p2p.Conn) is a faithful,
   ordered, typed byte stream.  Only statements closed by [exact], each
   followed by Print Assumptions.  Model: Proto/Conn.v; proofs: Proto/ConnProof.v.
   The buffer sizes are universally quantified (>= 16 bytes, the largest
   fixed-size value); C11_real_sizes instantiates them with the constants
   regenerated from /repo/p2p/protocol.go. *)
From Coq Require Import ZArith NArith List Bool.
From Mpc Require Import Gen.Consts Base.Codec Proto.Conn Proto.ConnProof Proto.ConnErr Proto.ConnErrProof Proto.RunC11.
Import ListNotations.
From Mpc Require Gen.State Base.StateExpected Base.StateCheck Base.StatePkgs.

(* For every number of ring buffers, every write-buffer size, every sequence
   of send ops (any values, any payload sizes, Flush placed anywhere) in which
   Close, if present, is last: the chunks handed to the writer followed by
   the bytes still in the buffer are the concatenation of the encodings of
   the sent values, in order.  Flushes and buffer boundaries only change the
   chunking. *)
Theorem C11_stream_is_concat :
  forall (nbuf wcap : N), (0 < wcap)%N -> forall (ops : list op), close_only_last ops ->
    wire_bytes (run_sender nbuf wcap ops) ++ s_buf (run_sender nbuf wcap ops)
    = concat (map encode (values_of ops)).
Proof. exact stream_is_concat. Qed.
Print Assumptions C11_stream_is_concat.

(* ... and when the sequence ends with Flush or Close nothing stays behind:
   the transport carries exactly that concatenation (Close delivers
   everything still buffered). *)
Theorem C11_flushed_stream_is_concat :
  forall (nbuf wcap : N), (0 < wcap)%N -> forall (ops : list op), close_only_last ops -> ends_flushed ops ->
    wire_bytes (run_sender nbuf wcap ops) = concat (map encode (values_of ops)).
Proof. exact wire_is_concat. Qed.
Print Assumptions C11_flushed_stream_is_concat.

(* Round trip.  For all buffer sizes >= 16, every op sequence ending in Flush
   or Close (Close only last) whose data/string/size-list lengths fit the
   uint32 length prefix, every placement of Flushes, and EVERY segmentation
   [frags] of the byte stream by the transport (each underlying Read returns
   at most the rest of the current segment and at most the slice offered),
   whether the transport reports io.EOF together with its final bytes
   ([eofdata] = true) or only on the following Read:
   the matching typed receives return exactly the sent values, in order;
   nothing is left in window or transport; Stats.Recvd = Stats.Sent = the
   number of bytes on the wire.  The sent value of an integer op is its
   uint16/uint32 truncation ([value_of]); C11_domain says the truncation is
   the identity inside the width. *)
Theorem C11_roundtrip :
  forall (nbuf wcap rcap : N) (ops : list op) (frags : list N) (eofdata : bool),
    (16 <= wcap)%N -> (16 <= rcap)%N ->
    close_only_last ops -> ends_flushed ops -> Forall op_in_domain ops ->
    Forall (ty_fits rcap) (types_of ops) ->
    let s := run_sender nbuf wcap ops in
    let out := recv_all rcap (types_of ops) (r_init (mkT (wire_bytes s) frags eofdata 0)) in
    snd out = Some (values_of ops) /\
    all (fst out) = [] /\
    r_recvd (fst out) = s_sent s /\ s_sent s = nlen (wire_bytes s).
Proof. exact roundtrip. Qed.
Print Assumptions C11_roundtrip.

(* bytes, 16- and 32-bit integers, labels and size lists inside their width
   are transmitted as themselves *)
Theorem C11_domain :
  (forall b, (b < 256)%N -> value_of (OByte b) = Some (VByte b)) /\
  (forall v, (0 <= v < 65536)%Z -> value_of (OU16 v) = Some (VU16 (Z.to_N v))) /\
  (forall v, (0 <= v < 4294967296)%Z -> value_of (OU32 v) = Some (VU32 (Z.to_N v))) /\
  (forall l, (l < 2 ^ 128)%N -> value_of (OLabel l) = Some (VLabel l)) /\
  (forall l, Forall (fun v => 0 <= v < 4294967296)%Z l -> value_of (OSizes l) = Some (VSizes (map Z.to_N l))).
Proof. exact value_of_in_range. Qed.
Print Assumptions C11_domain.

(* Receiver refinement.  For every read-buffer size >= 16, every receiver
   state satisfying the window invariant (ReadEnd = ReadStart + |window| <=
   readBufSize), every transport state (any remaining stream, any
   segmentation, EOF delivered with the final bytes or after them — the
   transport is a component of the receiver state [r]) and every receive type: the typed receive computes the
   abstract parser on (window ++ rest of the stream): when the parser yields
   (v, rest') the receive returns v and leaves exactly rest' (invariant kept,
   Recvd advanced by the bytes pulled from the transport); when the parser
   fails (the stream ends first) the receive returns io.EOF.  Includes
   ReceiveData of any length (Fill is asked for min(need, readBufSize)). *)
Theorem C11_recv_refines :
  forall (rcap : N), (16 <= rcap)%N -> forall (t : ty) (r : receiver), ty_fits rcap t -> RInv rcap r ->
    refines rcap r (recv_ty rcap t r) (parse_ty t (all r)).
Proof. exact recv_ty_refines. Qed.
Print Assumptions C11_recv_refines.

(* ... and for whole receive sequences (any types, matching the sender or not) *)
Theorem C11_recv_all_refines :
  forall (rcap : N), (16 <= rcap)%N -> forall (tys : list ty) (r : receiver), Forall (ty_fits rcap) tys -> RInv rcap r ->
    let out := recv_all rcap tys r in
    RInv rcap (fst out) /\ pulled r (fst out) /\
    match parse_all tys (all r) with
    | Some (vs, rest) => snd out = Some vs /\ all (fst out) = rest
    | None => snd out = None
    end.
Proof. exact recv_all_refines. Qed.
Print Assumptions C11_recv_all_refines.

(* Fill bound.  Under the window invariant the only error a typed receive can
   return is EOF: never ESpin (= Fill called with more than the buffer can
   hold, where the Go read loop would not terminate), never fuel exhaustion. *)
Theorem C11_fill_bound :
  forall (rcap : N), (16 <= rcap)%N -> forall t r r' e, ty_fits rcap t -> RInv rcap r ->
    recv_ty rcap t r = (r', inr e) -> e = EEOF.
Proof. exact recv_ty_only_eof. Qed.
Print Assumptions C11_fill_bound.

(* Stats, sender side: after any op sequence Sent = bytes handed to the writer,
   Flushed = number of chunks, every chunk is non-empty and at most one
   buffer long. *)
Theorem C11_stats_sender :
  forall (nbuf wcap : N), (0 < wcap)%N -> (16 <= wcap)%N -> forall ops, Forall (raw_fits wcap) ops ->
    let s := run_sender nbuf wcap ops in
    s_sent s = nlen (wire_bytes s) /\ s_flushed s = nlen (s_chunks s) /\
    Forall (fun c => (0 < nlen (snd c) <= wcap)%N) (s_chunks s).
Proof. exact sender_counters. Qed.
Print Assumptions C11_stats_sender.

(* Counters after ANY op sequence over the whole op vocabulary — the Send*
   methods, Flush, Close AND the in-place write API (NeedSpace(n) followed by a
   store at WriteBuf[WritePos:], op [ORaw], whose buffer rollover happens
   inside NeedSpace) — for all buffer sizes, without any size hypothesis:
   Sent = number of bytes handed to the writer, Flushed = number of chunks,
   no chunk is empty.  (C11_stats_sender adds the chunk-size bound under the
   domain [raw_fits]: the caller stores at most the n bytes it asked for and
   n fits a buffer.)  The round-trip, refinement and stats theorems range over
   the same vocabulary; the in-place read (Fill(k), ReadBuf[ReadStart:..],
   type [TRaw k]) is in the domain when k <= readBufSize ([ty_fits]). *)
Theorem C11_stats_counters :
  forall (nbuf wcap : N) (ops : list op), KInv (run_sender nbuf wcap ops).
Proof. exact KInv_run. Qed.
Print Assumptions C11_stats_counters.

(* Stats agree with the bytes moved.  For all buffer sizes >= 16, every op
   sequence, every segmentation, EOF with or after the final bytes, and ANY
   sequence of typed receives (matching or not, complete or not, failing or
   not): Sent = number of bytes handed to the transport; Recvd + what the
   transport still holds = that number (Recvd = bytes pulled from the
   transport, including payloads larger than the read buffer, whose bytes all
   pass through Fill); if the receiver has consumed the stream exactly then
   Recvd = Sent; and for a script ending in Flush/Close received by the
   matching sequence this is the case (with the values of C11_roundtrip). *)
Theorem C11_stats_agree :
  forall (nbuf wcap rcap : N) (ops : list op) (frags : list N) (eofdata : bool) (tys : list ty),
    (16 <= wcap)%N -> (16 <= rcap)%N -> Forall (ty_fits rcap) tys ->
    let s := run_sender nbuf wcap ops in
    let out := recv_all rcap tys (r_init (mkT (wire_bytes s) frags eofdata 0)) in
    s_sent s = nlen (wire_bytes s) /\
    (r_recvd (fst out) + nlen (t_stream (r_t (fst out))))%N = nlen (wire_bytes s) /\
    (all (fst out) = [] -> r_recvd (fst out) = s_sent s) /\
    (close_only_last ops -> ends_flushed ops -> Forall op_in_domain ops -> tys = types_of ops ->
     snd out = Some (values_of ops) /\ r_recvd (fst out) = s_sent s).
Proof. exact stats_agree. Qed.
Print Assumptions C11_stats_agree.

(* Ring ownership.  In every state reachable by ANY interleaving of the main
   thread (NewConn, stores into the write buffer, Flush = send + receive,
   Close = close + drain) and the writer goroutine (allocate, take, Write,
   return, finish) over the two bounded channels, for every number of
   buffers and arbitrary buffer contents: the buffer main may store into is
   not queued on toWriter, not held by the writer, not in fromWriter, and all
   buffers in the system are pairwise distinct. *)
Theorem C11_ring_ownership :
  forall (nb : nat) (mem0 : nat -> list N) (g : ring) (b : nat),
    reachable nb mem0 g -> g_cur g = Some b ->
    ~ In b (map fst (g_toW g)) /\ ~ In b (hand (g_w g)) /\ ~ In b (g_fromW g) /\ NoDup (order nb g).
Proof. exact ring_ownership. Qed.
Print Assumptions C11_ring_ownership.

(* Write order = flush order, with aliasing: the conn.Write calls so far, the
   slice in the writer's hand and the queued slices, read from the shared
   buffers as they are NOW, equal the contents recorded when Flush sent them. *)
Theorem C11_ring_write_order :
  forall (nb : nat) (mem0 : nat -> list N) (g : ring), reachable nb mem0 g ->
    g_written g ++ in_hand g ++ map (content (g_mem g)) (g_toW g) = g_flushed g.
Proof. exact ring_write_order. Qed.
Print Assumptions C11_ring_write_order.

(* Close delivers everything: once Close has returned every flushed chunk has
   been written, in flush order. *)
Theorem C11_ring_close_delivers_all :
  forall (nb : nat) (mem0 : nat -> list N) (g : ring), reachable nb mem0 g ->
    g_main g = MClosed -> g_written g = g_flushed g.
Proof. exact ring_close_delivers_all. Qed.
Print Assumptions C11_ring_close_delivers_all.

(* The channel sends never block (the channels have one slot per buffer). *)
Theorem C11_ring_sends_never_block :
  forall (nb : nat) (mem0 : nat -> list N) (g : ring), reachable nb mem0 g ->
    (forall b, g_main g = MFill -> g_cur g = Some b -> (length (g_toW g) < nb)%nat) /\
    (forall b, g_w g = WWrote b -> (length (g_fromW g) < nb)%nat) /\
    (forall k, g_w g = WAlloc k -> (k < nb)%nat -> (length (g_fromW g) < nb)%nat).
Proof. exact ring_sends_never_block. Qed.
Print Assumptions C11_ring_sends_never_block.

(* The ring rotates: the k-th buffer main obtains is buffer (k-1) mod nb —
   the buffer identity [flush_buf] of the sender model computes. *)
Theorem C11_ring_rotation :
  forall (nb : nat) (mem0 : nat -> list N) (g : ring) (b : nat), reachable nb mem0 g ->
    g_main g = MFill -> g_cur g = Some b -> (0 < g_acq g)%nat /\ b = ((g_acq g - 1) mod nb)%nat.
Proof. exact ring_rotation. Qed.
Print Assumptions C11_ring_rotation.

(* Every Flush sends buffer (number of earlier Flushes) mod nb: in every
   reachable state of the ring system in which main is between two Flushes. *)
Theorem C11_ring_flush_buffer :
  forall (nb : nat) (mem0 : nat -> list N) (g : ring) (b : nat), reachable nb mem0 g ->
    g_main g = MFill -> g_cur g = Some b -> b = (length (g_flushed g) mod nb)%nat.
Proof. exact ring_flush_buffer. Qed.
Print Assumptions C11_ring_flush_buffer.

(* The functional sender model and the ring system agree.  For every number
   of buffers > 0, every buffer size, every op sequence, and ANY reachable
   state of the ring system (any interleaving of main and writer) in which
   main is between two Flushes and has flushed the chunks the functional
   sender computes: main's write buffer is the buffer the functional model
   names (its "(cur+1) mod numBuffers" is what the channels deliver), the
   i-th chunk of the functional model is in buffer i mod numBuffers (the
   buffer the ring's main held at its i-th Flush, C11_ring_flush_buffer), and
   the conn.Write calls made so far are a prefix of the model's chunks. *)
Theorem C11_sender_ring_agree :
  forall (nbuf wcap : N), (0 < nbuf)%N -> forall (ops : list op) (mem0 : nat -> list N) (g : ring),
    let s := run_sender nbuf wcap ops in
    reachable (N.to_nat nbuf) mem0 g -> g_main g = MFill ->
    g_flushed g = wire_chunks s ->
    g_cur g = Some (N.to_nat (s_cur s)) /\
    map fst (s_chunks s) = ids nbuf (length (s_chunks s)) /\
    (exists rest, wire_chunks s = g_written g ++ rest).
Proof. exact sender_ring_agree. Qed.
Print Assumptions C11_sender_ring_agree.

(* ... and such executions exist for every op sequence (the hypothesis above is
   not vacuous): an execution whose main flushes exactly the functional
   model's chunks and whose writer has written all of them. *)
Theorem C11_sender_ring_exists :
  forall (nbuf wcap : N) (ops : list op) (mem0 : nat -> list N), (0 < nbuf)%N -> (16 <= wcap)%N ->
    exists g, reachable (N.to_nat nbuf) mem0 g /\ g_main g = MFill /\
              g_flushed g = wire_chunks (run_sender nbuf wcap ops) /\
              g_written g = wire_chunks (run_sender nbuf wcap ops).
Proof. exact sender_ring_exists. Qed.
Print Assumptions C11_sender_ring_exists.

(* ======================= TRANSPORT FAULTS (model Proto/ConnErr.v, proofs Proto/ConnErrProof.v)

   Write side, small-step system over ALL interleavings of the main thread (NewConn, Flush =
   send + receive + read of c.writerErr, Close = Flush + close + drain + read) and the writer
   goroutine (allocate, take, conn.Write — which may FAIL, any Write, any number of them —,
   record the error, give the buffer back, finish), for EVERY number of buffers.
   [e_out] = outcome of every conn.Write so far, [e_res] = what every completed flush attempt
   returned, [e_att] = slices handed to the writer, [e_close] = result of Close's second phase. *)

(* Latest detection.  A flush attempt j that returned nil is ordered after the Writes
   0 .. j+1-nb: they have been made and none of them failed. *)
Theorem C11_ring_err_flush_nil_means :
  forall (nb : nat) (e : ering) (j i : nat), ereach nb e ->
    nth_error (e_res e) j = Some false -> (i + nb <= j + 1)%nat -> nth_error (e_out e) i = Some false.
Proof. exact ering_flush_nil_means. Qed.
Print Assumptions C11_ring_err_flush_nil_means.

(* ... the other way round: once Write i has failed, flush attempt i+nb-1 and every later
   one return the error (with three buffers: at most two more Flushes succeed). *)
Theorem C11_ring_err_failed_write_reported :
  forall (nb : nat) (e : ering) (i j : nat) (b : bool), ereach nb e ->
    nth_error (e_out e) i = Some true -> (i + nb <= j + 1)%nat -> nth_error (e_res e) j = Some b -> b = true.
Proof. exact ering_failed_write_reported. Qed.
Print Assumptions C11_ring_err_failed_write_reported.

(* No spurious error: flush attempt j returns the error only if the Write of one of the
   chunks 0..j has failed. *)
Theorem C11_ring_err_no_spurious_error :
  forall (nb : nat) (e : ering) (j : nat), ereach nb e ->
    nth_error (e_res e) j = Some true -> exists i, (i <= j)%nat /\ nth_error (e_out e) i = Some true.
Proof. exact ering_error_means_failed_write. Qed.
Print Assumptions C11_ring_err_no_spurious_error.

(* Sticky: after a flush attempt returned the error every later one (of Flush, of a Send*
   that needs room, of Close) returns it. *)
Theorem C11_ring_err_sticky :
  forall (nb : nat) (e : ering) (j k : nat) (b : bool), ereach nb e -> (j <= k)%nat ->
    nth_error (e_res e) j = Some true -> nth_error (e_res e) k = Some b -> b = true.
Proof. exact ering_error_sticky. Qed.
Print Assumptions C11_ring_err_sticky.

(* Close.  When Close has come back from its second phase (its Flush returned nil, toWriter
   closed, fromWriter drained) every slice handed to the writer has been offered to the
   transport, and Close returned the error exactly when one of these Writes failed. *)
Theorem C11_ring_err_close_reports :
  forall (nb : nat) (e : ering) (r : bool), ereach nb e -> e_close e = Some r ->
    length (e_out e) = e_att e /\ r = anyb (e_out e).
Proof. exact ering_close_reports. Qed.
Print Assumptions C11_ring_err_close_reports.

(* The channel operations never block on a full channel — also after Flushes that returned
   the error, where c.WriteBuf keeps aliasing a buffer the writer owns, the buffer taken from
   fromWriter is dropped and the same slice is handed to the writer again. *)
Theorem C11_ring_err_sends_never_block :
  forall (nb : nat) (e : ering), ereach nb e ->
    (e_main e = EIdle -> (e_toW e < nb)%nat) /\
    (e_w e = XRet -> (e_fromW e < nb)%nat) /\
    (forall k, e_w e = XAlloc k -> (k < nb)%nat -> (e_fromW e < nb)%nat).
Proof. exact ering_sends_never_block. Qed.
Print Assumptions C11_ring_err_sends_never_block.

(* No deadlock: in every reachable state in which main is inside NewConn, Flush or Close some
   step is enabled (main's receive, or a step of the writer; conn.Write itself is assumed to
   return), whatever Writes failed before. *)
Theorem C11_ring_err_no_deadlock :
  forall (nb : nat) (e : ering), (0 < nb)%nat -> ereach nb e ->
    e_main e <> EIdle -> e_main e <> EClosed -> exists e', estep nb e e'.
Proof. exact ering_no_deadlock. Qed.
Print Assumptions C11_ring_err_no_deadlock.

(* "No chunk after the failed one reaches the transport" is FALSE of the code (the writer
   goroutine records the error and goes on with the queued slices): an execution in which
   Write 0 fails and Write 1 is made and succeeds ... *)
Theorem C11_ring_err_no_write_after_failure_refuted :
  exists e, ereach 3 e /\ e_out e = [true; false].
Proof. exact ering_write_after_failed_write. Qed.
Print Assumptions C11_ring_err_no_write_after_failure_refuted.

(* ... what holds instead: as long as no flush attempt has returned the error, at most nb-1
   slices have been handed to the writer after the chunk whose Write failed. *)
Theorem C11_ring_err_chunks_after_failure_partial :
  forall (nb : nat) (e : ering) (i : nat), (0 < nb)%nat -> ereach nb e ->
    nth_error (e_out e) i = Some true -> anyb (e_res e) = false -> (e_att e <= i + nb)%nat.
Proof. exact ering_chunks_after_failure_bounded. Qed.
Print Assumptions C11_ring_err_chunks_after_failure_partial.

(* Write side, functional model: [fl i] = None | Some n says whether the i-th conn.Write fails
   (after accepting n bytes); [lag] fixes the schedule (flush attempt j sees the failures of the
   Writes i with i + lag <= j; the correspondence cases run lag = numBuffers-1, which by the
   theorems above is the latest any interleaving reports).  For all buffer sizes, fault
   functions, schedules and scripts: *)

(* without faults the model IS the sender of Conn.v and every call returns nil — all the
   fault-free theorems above speak about the same function *)
Theorem C11_werr_conservative :
  forall (nbuf wcap : N) (lag : nat) (ops : list op),
    frun nbuf wcap (fun _ => None) lag s_init ops = (run_sender nbuf wcap ops, map (fun _ => false) ops).
Proof. exact werr_conservative. Qed.
Print Assumptions C11_werr_conservative.

(* as long as no call has returned the error, state, chunks and counters are those of the
   fault-free sender (whatever Writes have failed unnoticed) *)
Theorem C11_werr_until_reported :
  forall (nbuf wcap : N) (fl : nat -> option N) (lag : nat) (ops : list op) (s : sender),
    anyb (snd (frun nbuf wcap fl lag s ops)) = false ->
    fst (frun nbuf wcap fl lag s ops) = fold_left (step nbuf wcap) ops s.
Proof. exact werr_until_reported. Qed.
Print Assumptions C11_werr_until_reported.

(* once a call has returned the error and the Conn is still open, EVERY later Flush and
   EVERY later Close returns it, whatever is called in between (any ops, any state) *)
Theorem C11_werr_sticky :
  forall (nbuf wcap : N) (fl : nat -> option N) (lag : nat), (0 < wcap)%N ->
  forall (ops : list op) (s : sender) (o : op) (s1 : sender),
    fstep nbuf wcap fl lag s o = (s1, true) -> s_closed s1 = false ->
    Forall2 (fun o st => o = OFlush \/ o = OClose -> st = true) ops (snd (frun nbuf wcap fl lag s1 ops)).
Proof. exact werr_sticky. Qed.
Print Assumptions C11_werr_sticky.

(* a script ending in Close all of whose calls returned nil: no Write failed and the transport
   accepted exactly the concatenation of the encodings of the values sent *)
Theorem C11_werr_close_nil_delivers :
  forall (nbuf wcap : N) (fl : nat -> option N) (lag : nat) (ops : list op), (0 < wcap)%N ->
    close_only_last (ops ++ [OClose]) ->
    anyb (snd (frun nbuf wcap fl lag s_init (ops ++ [OClose]))) = false ->
    let s := fst (frun nbuf wcap fl lag s_init (ops ++ [OClose])) in
    s = run_sender nbuf wcap (ops ++ [OClose]) /\
    wire_accepted fl s = concat (map encode (values_of (ops ++ [OClose]))) /\
    any_fail fl (attempts s) = false.
Proof. exact werr_close_nil_delivers. Qed.
Print Assumptions C11_werr_close_nil_delivers.

(* "no byte reaches the transport after a failed Write" is FALSE: a Write that fails once
   leaves a hole in the stream the transport accepts (values 1, 2 sent; 2 alone arrives) while
   all four calls return nil *)
Theorem C11_werr_no_bytes_after_failure_refuted :
  exists (fl : nat -> option N) (ops : list op),
    let '(s, st) := frun 3 16 fl 2 s_init ops in
    failing fl 0 = true /\ st = [false; false; false; false] /\
    wire_accepted fl s = [0; 0; 0; 2]%N /\ concat (map encode (values_of ops)) = [0; 0; 0; 1; 0; 0; 0; 2]%N.
Proof. exact werr_bytes_after_failed_write. Qed.
Print Assumptions C11_werr_no_bytes_after_failure_refuted.

(* Read side.  For every read-buffer size >= 16, every stream (ANY bytes, not only a
   sender's), every segmentation, every point [p] after which the transport fails (None:
   never), the error coming with the last bytes or on the following Read, and every sequence
   of typed receives: each value returned as a success is the value the WHOLE stream carries
   at that place (never a partially filled one); the receive that fails is the first whose
   value is not complete before [p], and it returns the transport's error. *)
Theorem C11_rfault_no_partial_value :
  forall (rcap : N), (16 <= rcap)%N ->
  forall (tys : list ty) (stream frags : list N) (eofdata : bool) (p : option N)
         (r' : receiver) (vs : list val) (e : option rerr), Forall (ty_fits rcap) tys ->
    recv_upto rcap tys (r_init (cut_transport p stream frags eofdata)) = (r', vs, e) ->
    (exists rest, parse_all (firstn (length vs) tys) stream = Some (vs, rest)) /\
    (e = None -> length vs = length tys) /\
    (forall e', e = Some e' -> e' = EEOF /\ (length vs < length tys)%nat /\
       exists rest', parse_all (firstn (length vs) tys) (t_stream (cut_transport p stream frags eofdata)) = Some (vs, rest') /\
                     parse_ty (nth (length vs) tys TByte) rest' = None).
Proof. exact rfault_no_partial_value. Qed.
Print Assumptions C11_rfault_no_partial_value.

(* ... with the sender: the stream of any script of the domain cut ANYWHERE: what the matching
   receives return is a prefix of the values sent, all of them iff no receive failed. *)
Theorem C11_rfault_roundtrip_prefix :
  forall (nbuf wcap rcap : N) (ops : list op) (frags : list N) (eofdata : bool) (p : option N)
         (r' : receiver) (vs : list val) (e : option rerr),
    (16 <= wcap)%N -> (16 <= rcap)%N ->
    close_only_last ops -> ends_flushed ops -> Forall op_in_domain ops ->
    Forall (ty_fits rcap) (types_of ops) ->
    recv_upto rcap (types_of ops)
      (r_init (cut_transport p (wire_bytes (run_sender nbuf wcap ops)) frags eofdata)) = (r', vs, e) ->
    vs = firstn (length vs) (values_of ops) /\
    (e = None -> vs = values_of ops) /\
    (forall e', e = Some e' -> e' = EEOF /\ (length vs < length (values_of ops))%nat).
Proof. exact rfault_roundtrip_prefix. Qed.
Print Assumptions C11_rfault_roundtrip_prefix.

(* The constants of /repo/p2p/protocol.go (regenerated into Gen/Consts.v on
   every run) satisfy the size hypotheses of the theorems above. *)
Theorem C11_real_sizes :
  (16 <= c_wcap)%N /\ (16 <= c_rcap)%N /\ (0 < c_nbuf)%N /\
  c_nbuf = Z.to_N p2p_numBuffers /\ c_wcap = Z.to_N p2p_writeBufSize /\ c_rcap = Z.to_N p2p_readBufSize.
Proof. exact real_sizes_ok. Qed.
Print Assumptions C11_real_sizes.

(* STATE INVENTORY (finite obligation on the model regenerated from the source, checked by
   computation).  The struct fields and package-level variables of the Go packages this
   property is anchored in — p2p — as emitted from /repo's current
   source by harness/gen_state.go (Gen/State.v) are exactly those the models above were written
   against (Base/StateExpected.v).  A new field or variable (a cache, a memo, a pool, a counter,
   a changed field type) is state the models do not have: this obligation then breaks and the
   property is no longer shown to hold until the change has been reviewed against the model. *)
Theorem C11_state_inventory :
  Mpc.Base.StateCheck.state_unchanged Mpc.Gen.State.state_inventory Mpc.Base.StateExpected.expected_state
    Mpc.Base.StatePkgs.pkgs_C11 = true.
Proof. vm_compute. reflexivity. Qed.
Print Assumptions C11_state_inventory.
