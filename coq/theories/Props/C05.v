(* Props/C05.v — property C05: streaming mode agrees with whole-circuit mode.
   Only statements closed by [exact], each followed by Print Assumptions. *)
From Coq Require Import NArith ZArith List Bool FMapPositive.
From Mpc Require Import Gen.Consts Base.Label Circuit.Circuit Circuit.Garble Circuit.GarbleProof Lang.Gc Lang.GcProof Lang.Hashtab Lang.HashtabProof Proto.Stream Proto.StreamProof Proto.StreamGcProof Proto.StreamSimProof Proto.StreamCircProof.
Import ListNotations.
From Mpc Require Gen.State Base.StateExpected Base.StateCheck Base.StatePkgs.
Local Open Scope nat_scope.

(* For every streamed gate whose wire indices fit 32 bits, whose rows are
   128-bit values and as many as its kind transmits (every operation, every
   combination of the three tmp flags, both id widths): the evaluator's gate
   reader applied to the garbler's gate encoding, followed by anything,
   returns exactly that gate and the untouched rest of the stream. *)
Theorem C05_gate_codec :
  forall (g : sgate) (rest : list N), sgate_ok g ->
    decode_gate (encode_gate g ++ rest) = Some (g, rest).
Proof. exact gate_codec. Qed.
Print Assumptions C05_gate_codec.

(* ... and for every sequence of such gates (a whole streamed circuit). *)
Theorem C05_gates_codec :
  forall (gs : list sgate) (rest : list N), Forall sgate_ok gs ->
    decode_gates (length gs) (concat (map encode_gate gs) ++ rest) = Some (gs, rest).
Proof. exact gates_codec. Qed.
Print Assumptions C05_gates_codec.

(* Simulation, circuit step.  For every well-formed circuit c whose output
   wires are not input wires, every persistent wire store cs (any content,
   including stale values on recycled ids and in the tmp array), every list
   [ins] of global ids the circuit reads and every list [outs] of pairwise
   distinct global ids it writes, none of which is read: walking the circuit
   through Streaming.Get/Set leaves on [outs] exactly eval_plain of the values
   found on [ins] (what evaluation with fresh storage gives), and changes no
   global wire outside [outs]. *)
Theorem C05_stream_sim_circuit :
  forall (c : circuit) (ins outs : list N),
    length ins = ninputs c -> length outs = noutputs c ->
    NoDup outs -> (forall o, In o outs -> ~ In o ins) ->
    wf c = true -> ninputs c + noutputs c <= nwires c ->
    forall cs : cstate bool,
      let x := map (sfind false (cs_wires cs)) ins in
      let cs' := fst (fst (garble_circ bool false unit bit_gatef cs tt c ins outs)) in
      map (sfind false (cs_wires cs')) outs = eval_plain c x /\
      (forall id, ~ In id outs -> sfind false (cs_wires cs') id = sfind false (cs_wires cs) id).
Proof. exact stream_sim_circuit. Qed.
Print Assumptions C05_stream_sim_circuit.

(* Simulation, alias steps.  For every alias operator (concat, shifts, slice,
   mov, smov, amov), all operands, constants and widths: reading a store
   through the rewired id list equals rewiring the values read — the rewiring
   code commutes with any function applied to what is rewired; the same holds
   for the operand padding / sign extension at the top of the step loop. *)
Theorem C05_stream_sim_alias :
  forall (A B : Type) (f : A -> B) (z : A) (o : opc) (ins : list (list A)) (cs : list Z)
         (old : list A) (obits : nat),
    option_map (map f) (alias_ids A z o ins cs old obits)
    = alias_ids B (f z) o (map (map f) ins) cs (map f old) obits.
Proof. exact alias_ids_map. Qed.
Print Assumptions C05_stream_sim_alias.

Theorem C05_stream_sim_operand :
  forall (A B : Type) (f : A -> B) (z : A) (sg : bool) (bits : nat) (w : list A),
    map f (pad_operand A z sg bits w) = pad_operand B (f z) sg bits (map f w).
Proof. exact pad_operand_map. Qed.
Print Assumptions C05_stream_sim_operand.

(* Program.GC (as it is and with the patch) only inserts gc instructions: the
   other steps and their order are unchanged, so the reference meaning of the
   step list (which ignores gc) is unchanged. *)
Theorem C05_gc_only_inserts :
  forall (concat deep : bool) (steps g : list instr),
    forallb not_gc steps = true -> gc_gen concat deep steps = Some g ->
    filter not_gc g = steps.
Proof. exact gc_only_inserts. Qed.
Print Assumptions C05_gc_only_inserts.

(* GC SOUNDNESS, static part (FULL, about Program.GC as it is now: Concat is
   an alias operator and alias chains are followed).  For every well-formed
   SSA step list (single assignment, definition before use, last step ret)
   and every position of a gc instruction in the list Program.GC returns:
   no value derived from the freed value by any chain of alias instructions
   (concat, shifts, slice, mov, smov, amov) — the freed value included — is an
   operand of any later step.  (The pre-fix Program.GC violates this: see
   gc_sound_refuted / gc_sound_refuted_witness in Proto/StreamProof.v, kept
   as a regression record.) *)
Theorem C05_gc_sound_static :
  forall (args : list N) (steps g : list instr),
    wf_ssa args steps = true -> gc_fixed steps = Some g ->
    forall A i B, g = A ++ gc_instr i :: B ->
      forall w, derived steps (vid i) w -> ~ In w (ncops_l B).
Proof. exact gc_fixed_static. Qed.
Print Assumptions C05_gc_sound_static.

(* the model entry that follows the current code is the one the theorems are about *)
Theorem C05_gc_now_is_fixed : gc_now = gc_fixed.
Proof. exact eq_refl. Qed.
Print Assumptions C05_gc_now_is_fixed.

(* GC SOUNDNESS (FULL, about Program.GC and WireAllocator as they are now).
   For every program description p and every step list that is well-formed
   (wf_prog: single static assignment with definition before use, last step
   ret, distinct keys for arguments / {zero} / {one} / table constants, constant
   and value keys disjoint, argument operands as wide as the argument, slices
   fill their result, step circuits well-formed and as wide as their operands
   and result; a native-circuit instruction (case Circ of the streamer) has a
   well-formed circuit with one input per operand — of ANY width: narrower or
   wider operands are padded with the zero wire / truncated in place — and
   outputs exactly as wide as its result values — evaluated on every generated
   program of every check run: always true): executing the step list that
   Program.GC returns through the wire allocator (AssignedIDs, free lists,
   GCWires, the in-place rewiring of alias results) never makes a circuit step
   write a wire id that is the zero/one wire or that the id list of any value
   which is an operand of this or a later step mentions, every non-constant
   operand is allocated when it is used, and no gc instruction frees an
   unknown value.  Proof: the ownership invariant [ginv] of the allocator
   (StreamGcProof.v) along the gc'd list, using C05_gc_sound_static. *)
Theorem C05_gc_sound :
  forall (p : sprog) (steps g : list instr),
    wf_prog p steps = true -> gc_fixed steps = Some g -> no_premature_reuse p g = true.
Proof. exact gc_sound. Qed.
Print Assumptions C05_gc_sound.

(* What C05_gc_sound is about is what Program.Stream does: for every step and
   every state (any values on the wires), the wire allocator after the step
   loop's step [stream_step] is [wstep] of the allocator before it — the
   function no_premature_reuse runs — and the zero wire id does not change;
   likewise for whole runs. *)
Theorem C05_wstep_is_stream_step :
  forall (circs : list ccirc) (steps : list instr) (idx : nat) (st : sstate),
    match stream_steps circs idx steps st with
    | Some st' => wsteps circs (ss_zero st) steps (ss_w st) = Some (ss_w st')
    | None => wsteps circs (ss_zero st) steps (ss_w st) = None
    end.
Proof. exact stream_steps_w. Qed.
Print Assumptions C05_wstep_is_stream_step.

(* The reference meaning of a step list (ssa_eval: every value has its own
   storage, = Program.Circuit read as an evaluator) ignores gc instructions:
   for both GC variants, evaluating the list Program.GC returns equals
   evaluating the original list. *)
Theorem C05_ssa_ignores_gc :
  forall (p : sprog) (concat deep : bool) (steps g : list instr) (xy : list bool),
    forallb not_gc steps = true -> gc_gen concat deep steps = Some g ->
    ssa_eval p g xy = ssa_eval p steps xy.
Proof. exact ssa_ignores_gc. Qed.
Print Assumptions C05_ssa_ignores_gc.

(* Circuit.Compute does not depend on input wires no gate reads.  For every
   circuit whose output wires are not input wires and every two input vectors
   of one length that agree on every input wire which is an operand of some
   gate: the same outputs.  (What makes the unread offset operand of index
   harmless: its wires may carry anything.) *)
Theorem C05_eval_ignores_unread_inputs :
  forall (c : circuit) (x x' : list bool),
    length x = length x' -> ninputs c + noutputs c <= nwires c ->
    (forall k, k < ninputs c -> wire_read c k = true -> nth k x false = nth k x' false) ->
    eval_plain c x = eval_plain c x'.
Proof. exact eval_plain_unread. Qed.
Print Assumptions C05_eval_ignores_unread_inputs.

(* consts_read_tabled (the hypothesis below) is weaker than "every constant
   operand in a value position is in prog.Constants" *)
Theorem C05_consts_tabled_read :
  forall (p : sprog) (steps : list instr), consts_tabled p steps = true -> consts_read_tabled p steps = true.
Proof. exact consts_tabled_read. Qed.
Print Assumptions C05_consts_tabled_read.

(* STREAMING = WHOLE CIRCUIT (FULL).  For every program description p, every
   step list that is well-formed (wf_prog — native-circuit instructions
   included), in which every constant operand in a value position is a constant
   of prog.Constants or an operand of a builder step whose circuit has no gate
   reading that operand's input wires (consts_read_tabled) and whose ret
   instruction returns as many bits as prog.Outputs declares (outbits_ok), and
   for every pair of inputs xy: executing the list Program.GC returns in
   streaming mode — wire ids handed out by the WireAllocator, recycled through
   the free lists after gc instructions, alias results rewired in place,
   circuits walked gate by gate on the persistent store through the in/out/tmp
   indirection, native circuits with their operands padded / truncated in place
   to the circuit's inputs and every result value on its own fresh ids —
   returns exactly the bits that evaluating the original step list with
   separate storage for every value returns (ssa_eval: the reading of
   Program.Circuit as an evaluator, i.e. the whole-circuit result), including
   agreement on error returns.
   wf_prog && outbits_ok and consts_read_tabled are evaluated on every generated
   program of every run and are true on ALL of them (the programs with
   native("add64.circ", ...) and the index instructions with their untabled
   offset operand included).
   Proof: one induction along the gc'd list carrying the allocator's ownership
   invariant and "the bits on the wire ids of every value that is still an
   operand equal its reference bits" (StreamGcProof.v: step_sim, gcs_sim,
   run_sim, init_sinv, circ_out_ids_inv), using C05_stream_sim_circuit / _alias /
   _operand, C05_eval_ignores_unread_inputs, C05_gc_sound_static and
   C05_ssa_ignores_gc.  Non-vacuity: circ_and_unread_nonvacuous (StreamGcProof.v). *)
Theorem C05_stream_eq_whole :
  forall (p : sprog) (steps g : list instr) (xy : list bool),
    wf_prog p steps = true -> consts_read_tabled p steps = true -> outbits_ok p steps = true ->
    gc_fixed steps = Some g ->
    stream_eval p g xy = ssa_eval p steps xy.
Proof. exact stream_eq_whole. Qed.
Print Assumptions C05_stream_eq_whole.

(* the simulation on the streamed list itself, together with the fact that
   this list satisfies no_premature_reuse.  (The simulation is proved for the
   lists Program.GC produces — the only ones that are streamed — by carrying
   the allocator invariant; the variant for an arbitrary list under the bare
   hypothesis no_premature_reuse is not proved.) *)
Theorem C05_stream_sim :
  forall (p : sprog) (steps g : list instr) (xy : list bool),
    wf_prog p steps = true -> consts_read_tabled p steps = true -> outbits_ok p steps = true ->
    gc_fixed steps = Some g ->
    no_premature_reuse p g = true /\ stream_eval p g xy = ssa_eval p g xy.
Proof. exact stream_sim_gc. Qed.
Print Assumptions C05_stream_sim.

(* REGRESSION RECORD: aliasLive with ONE visited set per step.  program.go
   calls aliasLive with a fresh visited set for every queried input; the
   variant that clears one shared set per step is unsound: a successful query
   leaves the values on its path marked, and the query for the step's next dead
   input stops at them.  Witness: concat a b -> n, slice n -> l (live, returned),
   both a and b at their last use in one instruction, a fresh value of b's
   width next: no_premature_reuse fails and the streamed result differs from the
   reference.  On the same program the code as it is (gc_visited: the visited
   set written out, fresh per query) agrees with gc_fixed, the model the
   theorems are about, and everything is fine; that agreement is also checked
   on every generated program of every run (first flag of the observable). *)
Theorem C05_gc_shared_visited_set_refuted :
  ~ (forall p steps g, wf_prog p steps = true -> gc_shared_seen steps = Some g ->
       no_premature_reuse p g = true).
Proof. exact gc_shared_seen_refuted. Qed.
Print Assumptions C05_gc_shared_visited_set_refuted.

(* THE ALLOCATOR'S VALUE TABLE.  Lang/Gc.v keeps WireAllocator's table of
   allocated values as a finite map ([whash], an association list).  The Go code
   keeps it as 10240 hash buckets of chained headers, where lookup moves a hit
   at chain position 3 or deeper to the front and remove unlinks the first
   match (Lang/Hashtab.v).  Refinement: for EVERY hash function — collisions
   arbitrary — every value type and every sequence of operations (Allocated =
   lookup; AssignedIDs/AssignedWires/Wires = lookup and insert at the head when
   absent; assignment to the fields of a found header; GCWires = remove),
   starting from the empty table: the chained table answers every operation
   exactly as the finite map does, and afterwards, for every key, the chain of
   the key's bucket holds exactly what the finite map holds (in particular gc
   removes exactly the named value and no other). *)
Theorem C05_walloc_hashtab_refines :
  forall (V : Type) (hash : N -> nat) (ops : list (hop V)),
    fst (chain_run V hash ops []) = fst (map_run V ops []) /\
    forall k, lookup k (bucket V (snd (chain_run V hash ops [])) (hash k)) = lookup k (snd (map_run V ops [])).
Proof. exact hashtab_refines_map. Qed.
Print Assumptions C05_walloc_hashtab_refines.

(* sendArgument / receiveArgument: for every argument description (name, type
   string, size, nested members to any depth within the fuel) whose lengths
   fit 32 bits, the receiver reconstructs exactly what was sent and leaves the
   rest of the stream untouched. *)
Theorem C05_io_types :
  forall (fuel : nat) (a : ioarg) (rest : list N),
    arg_depth a <= fuel -> arg_ok a ->
    receive_argument fuel (send_argument a ++ rest) = Some (a, rest).
Proof. exact io_args_roundtrip. Qed.
Print Assumptions C05_io_types.

(* One streamed gate at the label level.  For every block function pi, every
   offset r with its S bit set, every pair of operand wires with L1 = L0 xor r,
   every operand values va vb, every value of the (session-wide) tweak counter
   and every gate kind: from the rows the garbler's garbleGate transmits, the
   evaluator's gate evaluation computes the label of the output wire that
   encodes gate(va, vb), both sides advance the tweak counter alike, and the
   output wire again has L1 = L0 xor r. *)
Theorem C05_stream_gate_labels :
  forall (pi : N -> N) (r : N) (a b : wire) (va vb : bool) (id : N) (o : op) (x : N),
    sbit r = true -> wire_ok r a -> (o = INV \/ wire_ok r b) ->
    let '(c, id', rows) := label_gatef pi r a b o id in
    geval_gate pi [pick a va; match o with INV => x | _ => pick b vb end] id (mkGate 0 1 0 o) rows
    = Some (pick c (gate_fn o va vb), id') /\ wire_ok r c.
Proof. exact stream_gate_labels. Qed.
Print Assumptions C05_stream_gate_labels.

(* THE CIRCUIT CACHE IS A MEMO.  Program.Stream keeps the circuits it compiles
   for the steps in a cache keyed by Instr.StringTyped().  For every circuit
   generator (any function of the step's shape: opcode, operand bit sizes —
   slice lengths included —, result size, index offset) and every list of (cache
   key, shape) pairs that passes the executable check memo_ok (two steps with one
   key have one shape): the circuits the cached streamer uses are, step by
   step, those the generator yields without a cache.  memo_ok is evaluated by
   run_c05 on the keys the Go code computed for every generated program (fourth
   flag of the observable, must be true) — the former assumption "the cache is
   a pure memo" is this hypothesis with its check. *)
Theorem C05_cache_is_memo :
  forall (C : Type) (gen : shape -> C) (l : list (N * shape)),
    memo_ok shape shape_eqb l [] = true ->
    cached_run shape C gen l [] = map (fun q => gen (snd q)) l.
Proof. exact cache_is_memo. Qed.
Print Assumptions C05_cache_is_memo.

(* STATE INVENTORY (finite obligation on the model regenerated from the source, checked by
   computation).  The struct fields and package-level variables of the Go packages this
   property is anchored in — circuit, compiler, compiler/ssa — as emitted from /repo's current
   source by harness/gen_state.go (Gen/State.v) are exactly those the models above were written
   against (Base/StateExpected.v).  A new field or variable (a cache, a memo, a pool, a counter,
   a changed field type) is state the models do not have: this obligation then breaks and the
   property is no longer shown to hold until the change has been reviewed against the model. *)
Theorem C05_state_inventory :
  Mpc.Base.StateCheck.state_unchanged Mpc.Gen.State.state_inventory Mpc.Base.StateExpected.expected_state
    Mpc.Base.StatePkgs.pkgs_C05 = true.
Proof. vm_compute. reflexivity. Qed.
Print Assumptions C05_state_inventory.
