(* Props/C19.v — property C19: the peer-to-peer mesh always forms completely
   and consistently.  Model: Proto/Mesh.v (threads = main + accept goroutine
   per party, one atomic step per lock-delimited region of p2p/network.go,
   schedule = list of thread ids).  [true] = the code as it is now (acceptConn
   stores the connection and decrements need[c] in ONE critical section, /repo
   commit 753a572); [false] = the acceptConn before that commit, kept as a
   regression record of finding F11 (notes/C19-findings.md). *)
From Coq Require Import NArith Arith List Bool.
From Mpc Require Import Proto.Mesh Proto.MeshProof Proto.MeshFixedProof Proto.MeshLive.
From Mpc Require Proto.MeshWire Proto.MeshWireProof.
Import ListNotations.
From Mpc Require Gen.State Base.StateExpected Base.StateCheck Base.StatePkgs.

(* REGRESSION RECORD (finding F11, fixed in /repo by commit 753a572): with the
   old three-step acceptConn the property is REFUTED.  There are a number of
   parties (2), a number of connections (1) and a FAIR schedule (it can be
   cut into more rounds, each scheduling every thread, than the run has
   steps) on which mesh formation does not complete: the leader's Connect
   returns with the peer table [0] because need[0] reached 0 before addPeer
   ran, the network info is sent to nobody, and party 1 waits for it for
   ever — whatever is appended to the schedule.  It was replayed on the real
   code of that time through the verifYield hook; the same hook-driven
   schedules now pass (harness c19, freeze cases). *)
Theorem C19_old_acceptConn_refuted :
  exists n k sched,
    n = 2 /\ k = 1 /\ fair n k sched /\
    (exists st, run_mesh false n k sched = Stuck st) /\
    (forall ext, exists st, run_mesh false n k (sched ++ ext) = Stuck st /\
                            p_main (g_party st 1) = MRecvInfo /\
                            (exists t, p_ret (g_party st 0) = Some ([0], t))).
Proof. exact complete_refuted. Qed.
Print Assumptions C19_old_acceptConn_refuted.

(* C19_complete.  The code as it is now: for every number of parties n >= 2,
   every number of connections 1 <= k <= 256 and EVERY FAIR schedule (one that
   can be cut into at least round_bound n k consecutive segments each of which
   schedules every one of the 2n threads at least once; round_bound exceeds the
   number of non-stuttering steps any run can make) the run ends in the final
   state: every Connect has returned nil, every accept thread is idle with an
   empty backlog, every party's table — now and at the moment its Connect
   returned — has Peers = 0..n-1 with all k connections stored, and for every
   pair i, j and every c the c-th connection to j at i is the very link that
   is the c-th connection to i at j ([complete], i.e. run_mesh = Final).
   Proof (MeshLive.v): a global invariant, deadlock freedom (in a reachable
   state in which no thread is enabled the mesh is complete) and a measure
   (3 x program-counter rank + 2 x backlog length + accept-thread bit, summed
   over the parties) that every non-stuttering step strictly decreases.
   THREAD CREATION ORDER: in Proto/Mesh.v the accept thread of a joining party
   is created by the step MRecvInfo — the step that processes the leader's peer
   list and sets need[] (connectPeerToLeader), i.e. AFTER the sync with the
   leader; before that step connections dialled to the party wait in its
   listener backlog.  C19_complete is proved for THAT order: an accept loop
   started before need[] is set would meet need[c] = 0 ("too many connections")
   and is not the model.  Harness c19 freezes the statement order (go nw.accept
   after connectPeerToLeader in connectPeer; key
   c19:thread-creation-order:unmodelled:...) and runs slow-leader-link scenarios
   (one party's data from the leader delayed by 100..400 ms).
   USABLE FROM THE MOMENT CONNECT RETURNS: the theorem speaks about the tables.
   That the byte stream of a link is continuous across the handshake — the
   accepting side consumes exactly the hello and loses no byte the dialler
   queued behind it (no read-ahead into a discarded buffer) — is NOT part of
   the model (a link carries one hello and the leader's info, nothing else); it
   is tied by harness c19: in every scenario each party sends a tagged message
   on every connection immediately after its own Connect returns, and it must
   be the first thing the other end receives on the matching (peer, index)
   (key c19:early-data-lost:party<i>-><j>:conn<k>).
   TIME IS NOT MODELLED: a schedule is just an interleaving, so the theorem
   holds whatever real-time delay lies between two steps — in particular
   between a party's Join and its Connect, between an accept and the arrival of
   the hello, between any two parties' starts ("every order and timing in which
   the parties start").  Conversely, any real-time bound in the implementation
   that can fire between two steps of a fair schedule (a read deadline on an
   accepted connection, a dial or hello timeout, a context deadline) is
   behaviour OUTSIDE this model: an implementation with such a timer on the
   mesh-formation path does NOT refine the model and the theorem says nothing
   about it.  The tie therefore includes (harness c19) late-start scenarios
   (one party calls Connect 1.2 .. 6 s after the others) and a source inventory
   of every timer / deadline / use of package time or context in p2p/network.go
   and p2p/peer.go, which must equal the list the model was written against
   (today: empty); key c19:timing-inventory:unmodelled:<site>. *)
Theorem C19_complete :
  forall n k, 2 <= n -> 1 <= k -> k <= 256 ->
  forall sched, fair n k sched ->
    run_mesh true n k sched = Final (run_from true n k (init n) sched).
Proof. exact mesh_complete. Qed.
Print Assumptions C19_complete.

(* Safety half, for ALL schedules (fair or not) and all prefixes: if party
   i's Connect has returned nil, the peer table the caller saw at that moment,
   and the table now, are complete. *)
Theorem C19_complete_at_return :
  forall n k, 2 <= n -> 1 <= k -> k <= 256 ->
  forall (sched : list nat) (i : nat), i < n ->
    let st := run_from true n k (init n) sched in
    p_main (g_party st i) = MDone ->
    (exists ps t, p_ret (g_party st i) = Some (ps, t) /\ tab_complete n k i ps t = true) /\
    tab_complete n k i (p_peers (g_party st i)) (p_conns (g_party st i)) = true.
Proof. exact fixed_return_complete. Qed.
Print Assumptions C19_complete_at_return.

(* The invariant whose failure was F11, proved for the code as it is now for
   all n, k, schedules: while the accept goroutine of party i runs, need[c] = 0
   implies that every party whose connection c party i accepts (everybody for
   the leader, 1..i-1 for party i) is in Peers with Conns[c] stored. *)
Theorem C19_need_zero_means_stored :
  forall n k, 2 <= n -> 1 <= k -> k <= 256 ->
  forall (sched : list nat) (i c : nat), i < n -> c < k ->
    let st := run_from true n k (init n) sched in
    running (p_acc (g_party st i)) -> p_need (g_party st i) c = 0 ->
    forall j, In j (aside n i) ->
      In j (p_peers (g_party st i)) /\ exists l, p_conns (g_party st i) j c = Some l.
Proof. exact fixed_need_zero_stored. Qed.
Print Assumptions C19_need_zero_means_stored.

(* C19_no_dup_cross.  For all n >= 2, 1 <= k <= 256, ALL schedules and all
   prefixes: (1) no error state is ever reached — no Connect fails and no accept
   thread dies; in particular Peer.SetConn never finds a slot already set (no
   (i,j,c) is written twice: a second write is an error in the model) and
   acceptConn never reports "too many connections"; (2) whenever both ends of a
   pair have stored their c-th connection, it is the SAME link, and a link
   stored at both ends is stored under the same index (the connection id
   carried in the hello on the accepting side = the dial index on the dialling
   side).  (3) below: every stored connection joins the right two parties. *)
(* "Data sent on the k-th connection arrives there; nothing lost, duplicated": the mesh model
   ends when Connect returns; what travels on an established link afterwards is the byte
   stream of one p2p.Conn pair, and that part of the statement is discharged by COMPOSING the
   theorems here (the k-th connection at one end is the very link that is the k-th at the
   other end: C19_complete, C19_no_dup_cross) with C11 (C11_roundtrip: over any fragmentation
   of the transport, the values received on a Conn are the values sent, in order).  The
   composition is tied to the real sockets by harness c19: after the mesh has formed, some
   scenarios of every run stream a few hundred thousand tagged, numbered records (Uint32 and
   Label mix) over every connection in both directions with the receivers starting late, and
   check order and content end to end (key c19:post-connect-stream:<i><->j#k:...). *)
Theorem C19_no_dup_cross :
  forall n k, 2 <= n -> 1 <= k -> k <= 256 ->
  forall sched, let st := run_from true n k (init n) sched in
    (forall i, i < n ->
       (forall code, p_main (g_party st i) <> MErr code) /\
       (forall code, p_acc (g_party st i) <> ADead code) /\ p_ldone (g_party st i) = false) /\
    (forall i j c c' l l', i < n -> j < n -> i <> j ->
       p_conns (g_party st i) j c = Some l -> p_conns (g_party st j) i c' = Some l' ->
       (c = c' -> l = l') /\ (l = l' -> c = c')).
Proof. exact mesh_no_dup_cross. Qed.
Print Assumptions C19_no_dup_cross.

(* (3) whatever is stored as Conns[c] of peer j in party i's table is a link
   whose two ends are exactly i and j *)
Theorem C19_no_cross_party :
  forall n k, 2 <= n -> 1 <= k -> k <= 256 ->
  forall (sched : list nat) (i j c l : nat), i < n ->
    let st := run_from true n k (init n) sched in
    p_conns (g_party st i) j c = Some l ->
    l < g_nlinks st /\
    ((l_from (g_link st l) = i /\ l_to (g_link st l) = j) \/
     (l_from (g_link st l) = j /\ l_to (g_link st l) = i)).
Proof. exact fixed_conn_endpoints. Qed.
Print Assumptions C19_no_cross_party.

(* STATE INVENTORY (finite obligation on the model regenerated from the source, checked by
   computation).  The struct fields and package-level variables of the Go packages this
   property is anchored in — p2p — as emitted from /repo's current
   source by harness/gen_state.go (Gen/State.v) are exactly those the models above were written
   against (Base/StateExpected.v).  A new field or variable (a cache, a memo, a pool, a counter,
   a changed field type) is state the models do not have: this obligation then breaks and the
   property is no longer shown to hold until the change has been reviewed against the model. *)
Theorem C19_state_inventory :
  Mpc.Base.StateCheck.state_unchanged Mpc.Gen.State.state_inventory Mpc.Base.StateExpected.expected_state
    Mpc.Base.StatePkgs.pkgs_C19 = true.
Proof. vm_compute. reflexivity. Qed.
Print Assumptions C19_state_inventory.

(* ---- the wire side of mesh formation (Proto/MeshWire.v: hello format of
   dial / connectPeerToLeader / acceptConn, dial rule of Join / connectPeer) ---- *)

(* For EVERY number of connections k <= 256, every connection id c < k, every
   party id and every address (both below 2^32 in value resp. length) and every
   byte string that follows: acceptConn's parse of the bytes dial writes
   (magic = connMagic | (c & 0xff), id, address) yields exactly (c, id, address)
   and leaves exactly the bytes that follow. *)
Theorem C19_hello_roundtrip : forall k c id addr rest,
  c < k -> k <= 256 -> (N.of_nat id < 4294967296)%N -> (N.of_nat (length addr) < 4294967296)%N ->
  MeshWire.dec_hello k (MeshWire.enc_hello c id addr ++ rest) = MeshWire.HOk c id addr rest.
Proof. exact MeshWireProof.hello_roundtrip. Qed.
Print Assumptions C19_hello_roundtrip.

(* For EVERY byte string whatsoever: if acceptConn's parse accepts it as
   (c, id, addr) then c < numConns, the first word has connMagic in its upper 24
   bits and c is its low byte. *)
Theorem C19_hello_accept_sound : forall k bs c id addr rest,
  MeshWire.dec_hello k bs = MeshWire.HOk c id addr rest ->
  c < k /\ exists magic r1, MeshWire.rd32 bs = Some (magic, r1) /\
                            N.land magic MeshWire.connMagicMask = MeshWire.connMagic /\
                            c = N.to_nat (magic mod 256)%N.
Proof. exact MeshWireProof.hello_accept_sound. Qed.
Print Assumptions C19_hello_accept_sound.

(* For every first word m whose upper 24 bits are not connMagic (as sent:
   reduced to 32 bits), every id, address and trailing bytes: never accepted. *)
Theorem C19_hello_wrong_magic_rejected : forall k m id addr rest c i a r,
  N.land (m mod 4294967296)%N MeshWire.connMagicMask <> MeshWire.connMagic ->
  MeshWire.dec_hello k (MeshWire.be32 m ++ MeshWire.be32 id ++ MeshWire.enc_str addr ++ rest)
  <> MeshWire.HOk c i a r.
Proof. exact MeshWireProof.hello_wrong_magic_rejected. Qed.
Print Assumptions C19_hello_wrong_magic_rejected.

(* For every numConns k and every connection id k <= c < 256: the hello dial
   would write for c is rejected as "invalid connection ID c from peer id". *)
Theorem C19_hello_bad_connid_rejected : forall k c id addr rest,
  k <= c -> c < 256 -> (N.of_nat id < 4294967296)%N -> (N.of_nat (length addr) < 4294967296)%N ->
  MeshWire.dec_hello k (MeshWire.enc_hello c id addr ++ rest) = MeshWire.HBadConnID c id.
Proof. exact MeshWireProof.hello_bad_connid. Qed.
Print Assumptions C19_hello_bad_connid_rejected.

(* For EVERY number of parties n, every two different parties i, j < n and every
   connection id c: exactly one of them dials the other (p2p.Join's dial of the
   leader = connection 0, connectPeer's loop otherwise); no party dials the same
   (peer, c) twice. *)
Theorem C19_dial_exactly_one : forall n i j c, i < n -> j < n -> i <> j ->
  (In j (MeshWire.all_dials n i c) <-> ~ In i (MeshWire.all_dials n j c)).
Proof. exact MeshWireProof.dial_exactly_one. Qed.
Print Assumptions C19_dial_exactly_one.

Theorem C19_dial_nodup : forall n i c, NoDup (MeshWire.all_dials n i c).
Proof. exact MeshWireProof.all_dials_nodup. Qed.
Print Assumptions C19_dial_nodup.

(* For every n, every party j < n and every connection id c: the parties that
   dial j for c are exactly in_dialers n j (1..n-1 for the leader, 1..j-1
   otherwise), without repetition, and their number is the value need[c] is
   initialised to (Connect: NumParties - 1; connectPeerToLeader: numAccept). *)
Theorem C19_in_dialers_spec : forall n j i c, j < n ->
  (In i (MeshWire.in_dialers n j) <-> i < n /\ In j (MeshWire.all_dials n i c)).
Proof. exact MeshWireProof.in_dialers_spec. Qed.
Print Assumptions C19_in_dialers_spec.

Theorem C19_need_counts_inbound : forall n j, j < n ->
  MeshWire.need_init n j = length (MeshWire.in_dialers n j) /\ NoDup (MeshWire.in_dialers n j).
Proof. exact MeshWireProof.need_counts_inbound. Qed.
Print Assumptions C19_need_counts_inbound.
