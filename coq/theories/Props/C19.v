(* Props/C19.v — property C19: the peer-to-peer mesh always forms completely
   and consistently.  Model: Proto/Mesh.v (threads = main + accept goroutine
   per party, one atomic step per lock-delimited region of p2p/network.go,
   schedule = list of thread ids).  [true] = the code as it is now (acceptConn
   stores the connection and decrements need[c] in ONE critical section, /repo
   commit 753a572); [false] = the acceptConn before that commit, kept as a
   regression record of finding F11 (notes/C19-findings.md). *)
From Coq Require Import Arith List Bool.
From Mpc Require Import Proto.Mesh Proto.MeshProof Proto.MeshFixedProof.
Import ListNotations.

(* REGRESSION RECORD (finding F11, fixed in /repo by commit 753a572): with the
   old three-step acceptConn the property is REFUTED.  There are a number of
   parties (2), a number of connections (1) and a FAIR schedule (it can be
   cut into more rounds, each scheduling every thread, than the run has
   steps) on which mesh formation does not complete: the leader's Connect
   returns with the peer table [0] because need[0] reached 0 before addPeer
   ran, the network info is sent to nobody, and party 1 waits for it for
   ever — whatever is appended to the schedule.  It was replayed on the real
   code of that time through the verifYield hook; the same hook-driven
   schedules now pass (harness c19, freeze cases). *)
Theorem C19_old_acceptConn_refuted :
  exists n k sched,
    n = 2 /\ k = 1 /\ fair n k sched /\
    (exists st, run_mesh false n k sched = Stuck st) /\
    (forall ext, exists st, run_mesh false n k (sched ++ ext) = Stuck st /\
                            p_main (g_party st 1) = MRecvInfo /\
                            (exists t, p_ret (g_party st 0) = Some ([0], t))).
Proof. exact complete_refuted. Qed.
Print Assumptions C19_old_acceptConn_refuted.

(* The code as it is now: for every number of parties n >= 2, every number
   of connections 1 <= k <= 256, EVERY schedule (any list of thread ids, fair
   or not, any prefix of any run) and every party i: if i's Connect has
   returned nil, then the peer table the caller saw at that moment, and the
   table now, are complete — Peers is exactly 0..n-1 and all k connections to
   every other party are stored.  PARTIAL: that every fair schedule makes
   every Connect return (termination) is not proved; it is exercised by the
   correspondence runs and the canonical/hook-driven schedules evaluated in
   MeshProof.v. *)
Theorem C19_complete_partial :
  forall n k, 2 <= n -> 1 <= k -> k <= 256 ->
  forall (sched : list nat) (i : nat), i < n ->
    let st := run_from true n k (init n) sched in
    p_main (g_party st i) = MDone ->
    (exists ps t, p_ret (g_party st i) = Some (ps, t) /\ tab_complete n k i ps t = true) /\
    tab_complete n k i (p_peers (g_party st i)) (p_conns (g_party st i)) = true.
Proof. exact fixed_return_complete. Qed.
Print Assumptions C19_complete_partial.

(* The invariant whose failure was F11, proved for the code as it is now for
   all n, k, schedules: while the accept goroutine of party i runs, need[c] = 0
   implies that every party whose connection c party i accepts (everybody for
   the leader, 1..i-1 for party i) is in Peers with Conns[c] stored. *)
Theorem C19_need_zero_means_stored :
  forall n k, 2 <= n -> 1 <= k -> k <= 256 ->
  forall (sched : list nat) (i c : nat), i < n -> c < k ->
    let st := run_from true n k (init n) sched in
    running (p_acc (g_party st i)) -> p_need (g_party st i) c = 0 ->
    forall j, In j (aside n i) ->
      In j (p_peers (g_party st i)) /\ exists l, p_conns (g_party st i) j c = Some l.
Proof. exact fixed_need_zero_stored. Qed.
Print Assumptions C19_need_zero_means_stored.

(* No cross-wiring of parties (all n, k, schedules): whatever is stored as
   Conns[c] of peer j in party i's table is a link whose two ends are exactly
   i and j.  PARTIAL with respect to "no (i,j,c) set twice, the c-th at one
   end is the c-th at the other": a slot is written only when it is empty
   (Peer.SetConn refuses otherwise, which the model turns into an error state
   that C19_complete_partial excludes for returned Connects), but that the two
   ends of a pair store the SAME link under the same c is checked by the ping
   matrix of the harness, not proved. *)
Theorem C19_no_dup_cross_partial :
  forall n k, 2 <= n -> 1 <= k -> k <= 256 ->
  forall (sched : list nat) (i j c l : nat), i < n ->
    let st := run_from true n k (init n) sched in
    p_conns (g_party st i) j c = Some l ->
    l < g_nlinks st /\
    ((l_from (g_link st l) = i /\ l_to (g_link st l) = j) \/
     (l_from (g_link st l) = j /\ l_to (g_link st l) = i)).
Proof. exact fixed_conn_endpoints. Qed.
Print Assumptions C19_no_dup_cross_partial.
