(* Props/C20.v — property C20: OT-based multiplication gadgets return shares
   of the product.  Only statements closed by [exact], each followed by
   Print Assumptions.  Models: OT/Vole.v (vole/vole.go, vole/prg.go),
   OT/Fx.v (bmr/fx.go, bmr/wire.go).  The IKNP extension (ot/iknp.go) enters
   as the hypothesis [iknp_cot] (its own model is the subject of C06); the
   1-out-of-2 OT under Fx/Fxk enters as the hypothesis [ot w c = pick w c]. *)
From Coq Require Import ZArith NArith List Bool.
From Mpc Require Import Gen.Consts Base.Codec Base.Label OT.Vole OT.VoleProof OT.Fx OT.FxProof OT.RunC20.
From Mpc Require Import OT.Iknp OT.VoleHist OT.VoleHistProof.
Import ListNotations.
From Mpc Require Gen.State Base.StateExpected Base.StateCheck Base.StatePkgs.
Open Scope Z_scope.

(* ---- vector OLE ---- *)

(* Note on the modulus: in the model every reduction is [gomod x p = x mod |p|]
   over Z (math/big semantics); there is NO case split on the size of p, of
   x or of any intermediate value (no machine-word path), and the theorems
   below hold uniformly for every 0 < p (<= 2^256 where bytes32 is involved).
   An implementation that treats word-sized moduli specially is therefore
   tied to these theorems only through the correspondence and the
   implementation-side oracle: harness c20 runs, in every tier, a modulus
   sweep with bit lengths 31, 32, 33, 63, 64 (2^64-59, 2^64-2^32+1, 2^63+9,
   2^63, 2^64-1, random 64-bit odd numbers and primes), 65, 127, 128, 129,
   191, 192, 193, 255, 256, small and random bit lengths, with x, y over
   {0, 1, 2, p-1, p-2, (p-1)/2, 2^(k-1), random}; each of these Mul calls is
   a correspondence case (the model recomputes u from the recorded labels,
   x, y, p and must equal the u-vector bytes on the wire and Receiver.Mul's
   result) and the share relation is evaluated on every element. *)

(* Every modulus p > 0, every vector length (induction on the list), every
   mask vector rs the sender keeps, every integer x_i (sender's input) and
   y_i (receiver's input, reduced mod p by the sender as the code does): the
   u_i the sender computes and the receiver ends with satisfy
   (u_i - r_i) mod p = (x_i * y_i) mod p at every position. *)
Theorem C20_vole :
  forall p xs ys rs,
    0 < p -> length rs = length xs -> length ys = length xs ->
    Forall3 (fun u r xy => (u - r) mod p = (fst xy * snd xy) mod p)
            (sender_us p rs xs (map (fun y => gomod y p) ys)) rs (combine xs ys).
Proof. exact vole_shares. Qed.
Print Assumptions C20_vole.

(* The complete exchange Sender.Mul(xs,p) / Receiver.Mul(ys,p) as coded, for
   every label expansion function (hence every AES key / PRG), every Delta,
   every pair of label vectors related by the IKNP correlation with all-false
   choices, every vector length (0 included), every modulus 0 < p <= 2^256,
   every integer x_i and every y_i in [0, 2^256): the exchange succeeds;
   Sender.Mul returns r_i = expand(label_i) mod p; both results have the
   vectors' length and lie in [0,p); (u_i - r_i) mod p = (x_i*y_i) mod p at
   every position; and the two messages consist of one 32-byte block per
   element that SetBytes reads back as y_i resp. u_i. *)
Theorem C20_vole_session :
  forall (expand : N -> N) delta slabels rlabels xs ys p,
    0 < p <= 2 ^ 256 ->
    length ys = length xs ->
    iknp_cot delta (repeat false (length xs)) slabels rlabels ->
    Forall (fun y => 0 <= y < 2 ^ 256) ys ->
    exists o, vole_session expand slabels rlabels xs ys p = VOk o /\
      vo_rs o = map (fun l => Z.of_N (expand l) mod p) slabels /\
      length (vo_rs o) = length xs /\ length (vo_us o) = length xs /\
      Forall (fun r => 0 <= r < p) (vo_rs o) /\ Forall (fun u => 0 <= u < p) (vo_us o) /\
      Forall3 (fun u r xy => (u - r) mod p = (fst xy * snd xy) mod p)
              (vo_us o) (vo_rs o) (combine xs ys) /\
      length (vo_yb o) = (length xs * 32)%nat /\ length (vo_ub o) = (length xs * 32)%nat /\
      map set_bytes (blocks32 (length xs) (vo_yb o)) = ys /\
      map set_bytes (blocks32 (length xs) (vo_ub o)) = vo_us o.
Proof. exact vole_session_correct. Qed.
Print Assumptions C20_vole_session.

(* Every modulus p <= 2^256 and every element v of [0,p): bytes32 does not
   panic, writes exactly 32 bytes, and SetBytes of them is v again. *)
Theorem C20_vole_bytes :
  forall p v, p <= 2 ^ 256 -> 0 <= v < p ->
    exists bs, bytes32 v = Some bs /\ length bs = 32%nat /\ set_bytes bs = v.
Proof. exact bytes32_roundtrip_field. Qed.
Print Assumptions C20_vole_bytes.

(* The hypotheses of C20_vole_session cannot be dropped (witnesses, by
   computation): a negative y is transmitted as |y| and the relation fails; a
   y >= 2^256 makes Receiver.Mul panic in bytes32; with a modulus above 2^256
   a share >= 2^256 makes Sender.Mul panic.  All three are outside the
   property's domain (field elements of a modulus of at most 256 bits). *)
Theorem C20_vole_session_y_nonneg_needed :
  exists o, vole_session (fun l => l) [1%N] [1%N] [5] [-3] 65537 = VOk o /\
            (nth 0 (vo_us o) 0 - nth 0 (vo_rs o) 0) mod 65537 <> (5 * -3) mod 65537.
Proof. exact vole_negative_y_wrong. Qed.
Print Assumptions C20_vole_session_y_nonneg_needed.

Theorem C20_vole_session_y_bound_needed :
  vole_session (fun l => l) [1%N] [1%N] [5] [2 ^ 256] 65537 = VErr 2.
Proof. exact vole_oversized_y_panics. Qed.
Print Assumptions C20_vole_session_y_bound_needed.

Theorem C20_vole_session_p_bound_needed :
  vole_session (fun _ => (2 ^ 256)%N) [1%N] [1%N] [0] [0] (2 ^ 257) = VErr 2.
Proof. exact vole_large_p_panics. Qed.
Print Assumptions C20_vole_session_p_bound_needed.

(* The receiver's IKNP labels take no part in the result beyond their count:
   for all inputs, two label vectors of the same length give the same
   exchange (so no property of Delta or of the choice flags is used). *)
Theorem C20_vole_receiver_labels_unused :
  forall (expand : N -> N) slabels rl1 rl2 xs ys p,
    length rl1 = length rl2 ->
    vole_session expand slabels rl1 xs ys p = vole_session expand slabels rl2 xs ys p.
Proof. exact vole_receiver_labels_unused. Qed.
Print Assumptions C20_vole_receiver_labels_unused.

(* Chunking by vector length: for every n >= 0 the IKNP extension of n rows
   is cut into chunks of 1..chunkByteRows byte rows whose total is ceil(n/8)
   (so row r always is bit r mod 8 of byte r/8 of each column stream). *)
Theorem C20_iknp_chunks_total :
  forall fuel n, 0 <= n -> (Z.to_nat n <= fuel)%nat ->
    zsum (iknp_chunks fuel n) = (n + 7) / 8 /\
    Forall (fun br => 0 < br <= ot_chunkByteRows) (iknp_chunks fuel n).
Proof. exact iknp_chunks_total. Qed.
Print Assumptions C20_iknp_chunks_total.

(* ---- a Sender/Receiver pair reused for a whole history of Mul calls ---- *)

(* OT/VoleHist.v composes the executable IKNP model of ot/iknp.go (OT/Iknp.v,
   property C06: column streams, createLabels, chunking, per-party stream
   offsets that persist from call to call) with the exchange above; the IKNP
   correlation is no longer a hypothesis.  Every pair of column stream
   families g0 g1 (hence every base-OT outcome / AES key), every 128-bit
   Delta, every label expansion, every common starting offset, EVERY HISTORY
   of calls (any number; each call with its own vector length, 0 included,
   its own modulus 0 < p <= 2^256, any integers x_i, y_i in [0, 2^256)): no
   call fails, and every call returns vectors of the call's length with
   entries in [0,p) such that (u_i - r_i) mod p = (x_i*y_i) mod p at every
   position, the two messages being the 32-byte blocks of y resp. u. *)
Theorem C20_vole_history :
  forall (g0 g1 : nat -> nat -> N) (Delta : N) (expand : N -> N),
    (Delta < 2 ^ 128)%N ->
  forall (calls : list vcall) (p0 : nat),
    Forall (fun c : vcall => let '(xs, ys, p) := c in
              0 < p <= 2 ^ 256 /\ length ys = length xs /\ Forall (fun y => 0 <= y < 2 ^ 256) ys) calls ->
    exists outs, vole_history g0 g1 Delta expand (p0, p0) calls = map VOk outs /\
      Forall2 (fun (c : vcall) o => let '(xs, ys, p) := c in
                 length (vo_rs o) = length xs /\ length (vo_us o) = length xs /\
                 Forall (fun r => 0 <= r < p) (vo_rs o) /\ Forall (fun u => 0 <= u < p) (vo_us o) /\
                 Forall3 (fun u r xy => (u - r) mod p = (fst xy * snd xy) mod p)
                         (vo_us o) (vo_rs o) (combine xs ys) /\
                 map set_bytes (blocks32 (length xs) (vo_yb o)) = ys /\
                 map set_bytes (blocks32 (length xs) (vo_ub o)) = vo_us o) calls outs.
Proof. exact vole_history_correct. Qed.
Print Assumptions C20_vole_history.

(* Same quantifiers: before every call of the history the sender's and the
   receiver's key-stream offsets are equal (the pair never loses sync,
   whatever the lengths of the earlier calls). *)
Theorem C20_vole_history_lockstep :
  forall (g0 g1 : nat -> nat -> N) (Delta : N) (expand : N -> N),
    (Delta < 2 ^ 128)%N ->
  forall (calls : list vcall) (p0 : nat),
    Forall vcall_ok calls ->
    Forall (fun st => fst st = snd st) (vole_offsets g0 g1 Delta expand (p0, p0) calls).
Proof. exact vole_offsets_lockstep. Qed.
Print Assumptions C20_vole_history_lockstep.

(* ---- bit and string multiplication of the BMR player ---- *)

(* Note on the OT: the gadget theorems below are over an IDEAL 1-out-of-2 OT
   (hypothesis [ot w c = pick w c]: every transfer delivers the chosen label
   of the offered wire, independently of all earlier transfers).  Which ot.OT
   implementation runs below FxSend/FxReceive/FxkSend/FxkReceive, and any
   per-session state it keeps, is outside the model.  The tie is made by the
   harness call by call: c20 runs histories of >= 35 transfers on ONE
   initialised pair (Fx and Fxk interleaved, single-wire as bmr.Player does,
   with plain transfers of 1, 3, 8, 9, 17 wires in between) over every
   chosen-message ot.OT the module exports — CO, RSA, COT semi-honest, COT
   malicious, COT shared (ot.ROT is a random OT whose Send overwrites the
   wires; the gadgets do not apply to it) — records the offered wire, flag
   and delivered label of every call, checks delivered = pick wire flag and
   the share relation on the real outputs of every call, and gives every
   call to the model as a correspondence case.
   Concurrency: in the model a gadget session is a pure function of its own
   inputs (own random label, own operands, own OT): sessions share no state,
   so any number of simultaneous sessions satisfy C20_fx / C20_fxk /
   C20_vole_session independently.  Whether the Go functions share state
   between simultaneous calls (package-level variables, reused buffers) is
   outside the model; C20_state_inventory (below) flags new package-level
   state statically, and harness c20 runs concurrent-session families over
   every OT implementation above, oracle-only: (a) two independent sessions
   whose receivers are BOTH made to wait for their senders (signalling IO)
   with b = 0 / 1 in all four combinations, a in {0,1}, before either sender
   speaks; (b) four free-running sessions x 50 rounds with independent random
   operands; four vole Sender/Receiver pairs running their Mul calls at the
   same time (these are also correspondence cases).
   Other ways in (notes/C20-findings.md, table "Doors"): the model's vectors
   are immutable lists of integers, so argument aliasing, in-place changes of
   arguments, result buffers reused by later calls, nil elements, the
   transport, the runtime configuration and the real caller bmr.Player do
   not exist in it; each of them is driven by harness c20 in every run with
   the same share relation as oracle (and as correspondence cases wherever
   the observable is one the model has). *)

(* Every OT that delivers the chosen label, every 4-byte random label rl of
   the sender, a, b in {0,1}: FxSend returns r, FxReceive returns xb, both
   bits, with r xor xb = a*b. *)
Theorem C20_fx :
  forall (ot : wire -> bool -> N), (forall w c, ot w c = pick w c) ->
  forall rl a b,
    length rl = klen -> Forall is_byte rl -> 0 <= a < 2 -> 0 <= b < 2 ->
    let '(_, _, r, xb) := fx ot rl a b in
    0 <= r < 2 /\ 0 <= xb < 2 /\ Z.lxor r xb = a * b.
Proof. exact fx_correct. Qed.
Print Assumptions C20_fx.

(* The same for all uint operands: r xor xb = a mod 2 if b = 1, else 0
   (byte(a) and the test b == 1 of the code). *)
Theorem C20_fx_all_operands :
  forall (ot : wire -> bool -> N), (forall w c, ot w c = pick w c) ->
  forall rl a b,
    length rl = klen -> Forall is_byte rl -> 0 <= a ->
    let '(_, _, r, xb) := fx ot rl a b in
    0 <= r < 2 /\ 0 <= xb < 2 /\ Z.lxor r xb = if b =? 1 then a mod 2 else 0.
Proof. exact fx_general. Qed.
Print Assumptions C20_fx_all_operands.

(* Every OT that delivers the chosen label, every random label rl, every
   string s (k/8 bytes each), every b: FxkSend returns rl itself, FxkReceive
   returns a k/8-byte label xb, and rl xor xb = s if b = 1, else the zero
   label (ToOT / FromOT round trip included). *)
Theorem C20_fxk :
  forall (ot : wire -> bool -> N), (forall w c, ot w c = pick w c) ->
  forall rl s b,
    length rl = klen -> length s = klen -> Forall is_byte rl -> Forall is_byte s ->
    let '(_, _, r, xb) := fxk ot rl s b in
    r = rl /\ length xb = klen /\ Forall is_byte xb /\
    bxor r xb = if b =? 1 then s else bzero.
Proof. exact fxk_correct. Qed.
Print Assumptions C20_fxk.

(* b*s as bmr.Label.Mul computes it is that right-hand side for b in {0,1} *)
Theorem C20_fxk_product :
  forall s b, Forall is_byte s -> length s = klen -> 0 <= b < 2 ->
    bmul s b = if b =? 1 then s else bzero.
Proof. exact bmul_bit. Qed.
Print Assumptions C20_fxk_product.

(* Every bmr label (k/8 bytes): FromOT(ToOT(l)) = l, whatever the previous
   content of the destination. *)
Theorem C20_label_toot_fromot :
  forall l0 l, length l0 = klen -> length l = klen -> Forall is_byte l ->
    from_ot l0 (to_ot l) = l.
Proof. exact from_ot_to_ot. Qed.
Print Assumptions C20_label_toot_fromot.

(* the label width these conversions are correct for is the regenerated bmr.k *)
Theorem C20_bmr_k : bmr_k = 32 /\ klen = 4%nat.
Proof. exact (conj bmr_k_is_32 klen_is_4). Qed.
Print Assumptions C20_bmr_k.

(* the OT used when the model is executed satisfies the hypothesis of C20_fx/C20_fxk *)
Theorem C20_ot_ideal : forall w c, ot_ideal w c = pick w c.
Proof. exact ot_ideal_spec. Qed.
Print Assumptions C20_ot_ideal.

(* STATE INVENTORY (finite obligation on the model regenerated from the source, checked by
   computation).  The struct fields and package-level variables of the Go packages this
   property is anchored in — bmr, ot, vole — as emitted from /repo's current
   source by harness/gen_state.go (Gen/State.v) are exactly those the models above were written
   against (Base/StateExpected.v).  A new field or variable (a cache, a memo, a pool, a counter,
   a changed field type) is state the models do not have: this obligation then breaks and the
   property is no longer shown to hold until the change has been reviewed against the model. *)
Theorem C20_state_inventory :
  Mpc.Base.StateCheck.state_unchanged Mpc.Gen.State.state_inventory Mpc.Base.StateExpected.expected_state
    Mpc.Base.StatePkgs.pkgs_C20 = true.
Proof. vm_compute. reflexivity. Qed.
Print Assumptions C20_state_inventory.
