(* Props/C13.v — property C13: input and output value encoding is lossless
   and consistent.  Only statements closed by [exact], each followed by
   Print Assumptions.  All theorems are about the model of the code as it is
   in /repo now: [parse], [set], [sizes], [input_sizes], [instantiate],
   [split], [result] are the definitions the executable entry point run_c13
   (the correspondence) runs.  The refutations/partial statements about the
   code before the fix commits 8d9a986 / 19f0a68 / a0b0be5 are kept in
   IO/IOArgProof.v as a regression record (lemmas with "old" in the name).  The two
   [_refuted] theorems below concern defects that are still in the code
   (known findings: signed inferred sizes, nested-struct sizes overlap); the
   restricted statements that do hold are proved beside them. *)
From Coq Require Import ZArith NArith List Bool.
From Mpc Require Import Gen.Consts IO.IOArg IO.IOArgProof IO.IOResults IO.IOResultsProof IO.IOTypes IO.IOTypesProof IO.RunC13.
Import ListNotations.
From Mpc Require Gen.State Base.StateExpected Base.StateCheck Base.StatePkgs.
Open Scope Z_scope.

(* The executed model follows the repaired code: setInt writes exactly
   Type.Bits bits with sign extension, Result works on a copy, bitLen tests
   bit 1.  (Reverting one of the three [_now] switches of IO/IOArg.v breaks
   this statement and the proofs below.) *)
Theorem C13_now_is :
  set = set_fixed /\ result = result_fixed /\ sizes = sizes_fixed /\
  set_int_now = set_int_fixed /\ result_tint_now = result_tint_fixed /\ bit_len_now = bit_len_fixed.
Proof. exact (conj eq_refl (conj eq_refl (conj eq_refl (conj eq_refl (conj eq_refl eq_refl))))). Qed.
Print Assumptions C13_now_is.

(* ---- (1) Parse: little-endian two's complement, declaration order ---- *)

(* every width b, signed or not, every string s that SetString(s,0) reads as z
   (decimal, 0x, 0b, 0o, sign, separators): the wires are bit i of z for i < b,
   which as an unsigned number is z mod 2^b *)
Theorem C13_parse_int_bits :
  forall (signed : bool) (b : nat) (s : list N) (z : Z),
    set_string s = Some z ->
    exists r, parse (leaf_arg (if signed then TyInt b else TyUint b)) [s] = Ok r /\
      wires r b = wires z b /\ from_bits (wires r b) = z mod 2 ^ Z.of_nat b.
Proof. exact parse_int_bits. Qed.
Print Assumptions C13_parse_int_bits.

(* every string: accepted exactly as one of the six bool spellings, one wire *)
Theorem C13_parse_bool_bits :
  forall s r, parse (leaf_arg TyBool) [s] = Ok r ->
    (mem_str s bool_false_spellings = true /\ wires r 1 = [false]) \/
    (mem_str s bool_true_spellings = true /\ wires r 1 = [true]).
Proof. exact parse_bool_bits. Qed.
Print Assumptions C13_parse_bool_bits.

(* every element type of non-zero width, every length n > 0, every literal:
   it is read as k = ceil(bitlen/e) big-endian e-bit elements (bitlen = digit
   count * 4 for 0x literals, BitLen otherwise), accepted iff k <= n, element
   i < k on wires [i*e, (i+1)*e) little-endian, zero elements after it *)
Theorem C13_parse_array_bits :
  forall el n s val r,
    (0 < bits_of el)%nat -> (0 < n)%nat -> set_string s = Some val ->
    parse (leaf_arg (TyArray el n)) [s] = Ok r ->
    let e := bits_of el in let k := literal_elems s val e in
    (k <= n)%nat /\ 0 <= r < 2 ^ Z.of_nat (n * e) /\
    wires r (n * e) = concat (map (array_elem_wires val k e) (seq 0 n)).
Proof. exact parse_array_bits. Qed.
Print Assumptions C13_parse_array_bits.

Theorem C13_parse_slice_bits :
  forall el n s val r,
    (0 < bits_of el)%nat -> set_string s = Some val ->
    parse (leaf_arg (TySlice el n)) [s] = Ok r ->
    let e := bits_of el in let k := literal_elems s val e in
    0 <= r < 2 ^ Z.of_nat (k * e) /\
    wires r (k * e) = concat (map (array_elem_wires val k e) (seq 0 k)).
Proof. exact parse_slice_bits. Qed.
Print Assumptions C13_parse_slice_bits.

(* every element list l (elements < 2^e): element i of the literal whose value
   spells l first-element-most-significant is l[i] *)
Theorem C13_array_literal_elements :
  forall e l i,
    Forall (fun x => 0 <= x < 2 ^ Z.of_nat e) l -> (i < length l)%nat ->
    wires (chunk (be_value e l) (length l) e i) e = wires (nth i l 0) e.
Proof. exact chunk_be_value. Qed.
Print Assumptions C13_array_literal_elements.

(* every compound argument (any members, nested or ill-formed included), every
   input list Parse accepts: one input per member, and the argument's wires
   are the members' own Type.Bits wires concatenated in declaration order *)
Theorem C13_parse_compound_order :
  forall t c cs ins r,
    parse (IOArg t (c :: cs)) ins = Ok r ->
    length ins = length (c :: cs) /\
    exists rs, member_values parse (c :: cs) ins = Some rs /\ length rs = length (c :: cs) /\
      wires r (total_bits (c :: cs)) = member_wires (c :: cs) rs.
Proof. exact parse_compound_wires. Qed.
Print Assumptions C13_parse_compound_order.

(* ---- (2) Set (Go values) and Parse (text) put the same bits on the wires ---- *)

(* Every list of leaf member types (bool, intN/uintN of any width, arrays and
   slices of integer elements >= 8 bits, any length incl. 0), every Go value
   in its domain (negative, min, max; short, empty or nil byte arrays), every
   spelling of it: Set and Parse both succeed and both put the canonical wires
   of the members, in declaration order, on the argument's wires *)
Theorem C13_set_eq_parse :
  forall t m ms ss vs,
    members_spelled (m :: ms) ss vs ->
    exists rs rp,
      set (IOArg t (map leaf_arg (m :: ms))) vs = Ok rs /\
      parse (IOArg t (map leaf_arg (m :: ms))) ss = Ok rp /\
      wires rs (sum_bits (m :: ms)) = gins_wires (m :: ms) vs /\
      wires rp (sum_bits (m :: ms)) = gins_wires (m :: ms) vs.
Proof. exact set_eq_parse_fixed_compound. Qed.
Print Assumptions C13_set_eq_parse.

(* the same for a single (non-compound) argument *)
Theorem C13_set_eq_parse_single :
  forall m s v, gin_domain m v -> spells m s v ->
    exists rs rp, set (leaf_arg m) [v] = Ok rs /\ parse (leaf_arg m) [s] = Ok rp /\
      wires rs (bits_of m) = wires rp (bits_of m).
Proof. exact set_eq_parse_fixed_single. Qed.
Print Assumptions C13_set_eq_parse_single.

(* ---- (3) no member's value disturbs the bits of another member ---- *)

(* Parse: every compound argument whatsoever (nested, ill-formed), any two
   accepted input lists that agree on member j: member j's wires are equal *)
Theorem C13_parse_independent :
  forall t c cs ins ins' r r' j a s,
    parse (IOArg t (c :: cs)) ins = Ok r -> parse (IOArg t (c :: cs)) ins' = Ok r' ->
    nth_error (c :: cs) j = Some a -> nth_error ins j = Some s -> nth_error ins' j = Some s ->
    segment (wires r (total_bits (c :: cs))) (offset_of (c :: cs) j) (i_bits (a_type a))
    = segment (wires r' (total_bits (c :: cs))) (offset_of (c :: cs) j) (i_bits (a_type a)).
Proof. exact parse_independent. Qed.
Print Assumptions C13_parse_independent.

(* Set: all leaf member lists, any two in-domain value lists that agree on
   member j: member j's wires are equal *)
Theorem C13_set_independent :
  forall t m ms vs vs' j mj vj,
    Forall2 gin_domain (m :: ms) vs -> Forall2 gin_domain (m :: ms) vs' ->
    nth_error (m :: ms) j = Some mj -> nth_error vs j = Some vj -> nth_error vs' j = Some vj ->
    exists r r', set (IOArg t (map leaf_arg (m :: ms))) vs = Ok r /\
                 set (IOArg t (map leaf_arg (m :: ms))) vs' = Ok r' /\
      segment (wires r (sum_bits (m :: ms))) (sum_bits (firstn j (m :: ms))) (bits_of mj)
      = segment (wires r' (sum_bits (m :: ms))) (sum_bits (firstn j (m :: ms))) (bits_of mj).
Proof. exact set_fixed_independent. Qed.
Print Assumptions C13_set_independent.

(* Set with a caller-supplied destination: every previous content of the
   destination (nil, zero, all ones, an earlier encoding of other values),
   every argument (ill-formed included), every input list: the outcome —
   value, error or panic — is that of Set on a fresh destination; so the wires
   of a short / nil array or of a shorter slice never keep earlier bits, and
   with C13_set_eq_parse the reused form equals Parse of the text as well *)
Theorem C13_set_ignores_previous_content :
  forall prev io inputs, set_into prev io inputs = set io inputs.
Proof. exact set_into_now_ignores_prev. Qed.
Print Assumptions C13_set_ignores_previous_content.

(* Set on EVERY argument (nested, ill-formed Infos, any Go values, any start
   offset): it only writes at or above its offset, so nothing written later
   disturbs the wires below *)
Theorem C13_set_keeps_lower_wires :
  forall io result inputs ofs r' ofs',
    set_at set_int_now io result inputs ofs = Ok (r', ofs') ->
    (ofs <= ofs')%nat /\ keeps_below result r' ofs.
Proof. exact set_at_fixed_keeps. Qed.
Print Assumptions C13_set_keeps_lower_wires.

(* IO.Split: every argument list, every value (negative included): part j is
   a non-negative number below 2^Bits_j with the value's wires at offset j *)
Theorem C13_split_member :
  forall io inp j a, nth_error io j = Some a ->
    exists x, nth_error (split io inp) j = Some x /\
      0 <= x < 2 ^ Z.of_nat (i_bits (a_type a)) /\
      wires x (i_bits (a_type a)) = wires (Z.shiftr inp (Z.of_nat (offset_of io j))) (i_bits (a_type a)).
Proof. exact split_member. Qed.
Print Assumptions C13_split_member.

(* … and Split undoes the packing of Parse, for every compound argument *)
Theorem C13_parse_split_roundtrip :
  forall t c cs ins r j a s,
    parse (IOArg t (c :: cs)) ins = Ok r ->
    nth_error (c :: cs) j = Some a -> nth_error ins j = Some s ->
    exists x p, parse a [s] = Ok x /\ nth_error (split (c :: cs) r) j = Some p /\
      0 <= p < 2 ^ Z.of_nat (i_bits (a_type a)) /\
      wires p (i_bits (a_type a)) = wires x (i_bits (a_type a)).
Proof. exact parse_split_roundtrip. Qed.
Print Assumptions C13_parse_split_roundtrip.

(* ---- (4) the inferred sizes match what is written ---- *)

(* Sizes: every Go integer value: the inferred width holds uint64(v) *)
Theorem C13_sizes_int :
  forall z, go_int_range z ->
    sizes [GInt z] = Ok [bit_len_now (uint64_conv z)] /\
    uint64_conv z < 2 ^ Z.of_nat (bit_len_now (uint64_conv z)).
Proof. exact sizes_fixed_int. Qed.
Print Assumptions C13_sizes_int.

(* Go value versus text: every uint64 value z INCLUDING 0, every spelling of
   it SetString reads (not a 0x literal, not the <n>x<hex> form; 0 written
   "0"): circuit.Sizes of the Go value and circuit.InputSizes of the text
   infer the same, non-zero, size — for 0 one bit (bitLen(0) = 1, "0" -> 1),
   so an unsized argument gets the same type and at least one wire from
   either form *)
Theorem C13_sizes_value_eq_text :
  forall s z,
    0 <= z < 2 ^ 64 -> set_string s = Some z ->
    match_hex_input s = None -> has_prefix s_0x s = false ->
    (z = 0 -> s = s_0) ->
    exists n, sizes [GInt z] = Ok [n] /\ input_sizes [s] = Ok [n] /\ (0 < n)%nat.
Proof. exact sizes_eq_input_sizes. Qed.
Print Assumptions C13_sizes_value_eq_text.

(* every byte slice: Sizes is the number of bits Set writes for it *)
Theorem C13_sizes_bytes :
  forall l, sizes [GBytes l] = Ok [(length l * 8)%nat].
Proof. exact (sizes_bytes bit_len_now). Qed.
Print Assumptions C13_sizes_bytes.

(* InputSizes: every string SetString reads (other than the bool spellings and
   the <n>x<hex> repeat form): the size is the bit length Parse itself assigns
   to the literal *)
Theorem C13_input_size_literal :
  forall s z,
    set_string s = Some z ->
    mem_str s bool_false_spellings = false -> mem_str s bool_true_spellings = false ->
    match_hex_input s = None ->
    input_size s = Ok (literal_bit_len s z).
Proof. exact input_size_literal. Qed.
Print Assumptions C13_input_size_literal.

(* InstantiateWithSizes on whole FLAT struct templates: every list of leaf
   templates (bool, int, uint, []T / [n]T with non-struct T of non-zero
   width), every size list at least as long: member i is instantiated from
   size i, Bits is the sum *)
Theorem C13_instantiate_flat_struct :
  forall ms szs,
    ms <> [] -> Forall leaf_template_ok ms -> (length ms <= length szs)%nat ->
    instantiate (template_of (TyStruct ms)) szs
    = Ok (Info types_TStruct (sum_bits (resize_all ms szs)) 0 None
               (map info_of (resize_all ms szs)) true).
Proof. exact instantiate_flat_struct. Qed.
Print Assumptions C13_instantiate_flat_struct.

(* structs that MIX declared-width members (bool, intN, uintN, [n]T) with
   unsized ones (int, uint, []T), in every order, every size list at least as
   long (so also sizes below / equal to / above the declared widths): every
   declared member comes out exactly as declared, every unsized member i takes
   size i, Bits is the sum *)
Theorem C13_instantiate_mixed_struct :
  forall ms szs b0 a0,
    ms <> [] -> Forall member_ok_mixed ms -> (length ms <= length szs)%nat ->
    instantiate (Info types_TStruct b0 a0 None (map mtemplate ms) false) szs
    = Ok (Info types_TStruct (sum_bits (mresize_all ms szs)) a0 None
               (map info_of (mresize_all ms szs)) true).
Proof. exact instantiate_mixed_struct. Qed.
Print Assumptions C13_instantiate_mixed_struct.

(* the frame statement on its own: a concrete type is left exactly as it is
   by InstantiateWithSizes, whatever size is inferred for its value *)
Theorem C13_instantiate_declared_frame :
  forall t sz rest, declared_ok t -> instantiate (info_of t) (sz :: rest) = Ok (info_of t).
Proof. exact instantiate_declared_frame. Qed.
Print Assumptions C13_instantiate_declared_frame.

(* … NESTED struct templates: false (known finding): struct{struct{uint,uint},uint}
   with sizes [10,1,3] gives the last member size 1 *)
Theorem C13_instantiate_nested_refuted :
  exists t szs t',
    instantiate (template_of t) szs = Ok t' /\ length szs = length (leaves t) /\
    Forall leaf_template_ok (leaves t) /\
    (fix flat (i : info) : list info :=
       match i with Info _ _ _ _ fs _ =>
         if kind_is i types_TStruct then flat_map flat fs else [i] end) t'
    <> map info_of (resize_all (leaves t) szs).
Proof. exact instantiate_nested_refuted. Qed.
Print Assumptions C13_instantiate_nested_refuted.

(* end to end, unsized uint argument, text form: every spelling of z >= 0
   (not a bool spelling / 0x literal): InputSizes -> InstantiateWithSizes ->
   Parse loses nothing *)
Theorem C13_unsized_uint_lossless :
  forall s z,
    set_string s = Some z -> 0 <= z ->
    mem_str s bool_false_spellings = false -> mem_str s bool_true_spellings = false ->
    match_hex_input s = None -> has_prefix s_0x s = false ->
    exists n r,
      input_sizes [s] = Ok [n] /\
      instantiate (template_of (TyUint 0)) [n] = Ok (info_of (TyUint n)) /\
      parse (leaf_arg (TyUint n)) [s] = Ok r /\ from_bits (wires r n) = z.
Proof. exact unsized_uint_lossless. Qed.
Print Assumptions C13_unsized_uint_lossless.

(* end to end, a whole flat struct of unsized uint members, text form: every
   non-empty list of spellings of non-negative integers (not bool spellings /
   0x literals): InputSizes, InstantiateWithSizes of the struct template and
   Parse of the instantiated compound argument all succeed; member i has the
   width inferred from input i, that width holds value i, and the wires are
   the values in declaration order *)
Theorem C13_unsized_uint_struct_lossless :
  forall s0 ss z0 zs,
    Forall2 plain_spelling (s0 :: ss) (z0 :: zs) ->
    exists szs t r,
      input_sizes (s0 :: ss) = Ok szs /\ length szs = length (s0 :: ss) /\
      instantiate (template_of (TyStruct (map (fun _ => TyUint 0) (s0 :: ss)))) szs = Ok t /\
      t = Info types_TStruct (sum_bits (map TyUint szs)) 0 None (map info_of (map TyUint szs)) true /\
      parse (IOArg t (map leaf_arg (map TyUint szs))) (s0 :: ss) = Ok r /\
      wires r (sum_bits (map TyUint szs)) = uint_wires (z0 :: zs) szs /\
      Forall2 (fun z n => z < 2 ^ Z.of_nat n) (z0 :: zs) szs.
Proof. exact unsized_uint_struct_lossless. Qed.
Print Assumptions C13_unsized_uint_struct_lossless.

(* end to end, unsized uint argument, Go-value form: Sizes ->
   InstantiateWithSizes -> Set loses nothing, every uint64 value *)
Theorem C13_unsized_uint_sizes_lossless :
  forall z, 0 <= z < 2 ^ 64 ->
    exists n r,
      sizes [GInt z] = Ok [n] /\
      instantiate (template_of (TyUint 0)) [n] = Ok (info_of (TyUint n)) /\
      set (leaf_arg (TyUint n)) [GInt z] = Ok r /\ from_bits (wires r n) = z.
Proof. exact unsized_uint_sizes_lossless. Qed.
Print Assumptions C13_unsized_uint_sizes_lossless.

(* end to end, unsized array/slice argument: every literal, every non-struct
   element type of non-zero width: the instantiated slice has exactly the k
   elements Parse reads from the literal and Parse puts them on its wires *)
Theorem C13_unsized_slice_lossless :
  forall el s val,
    is_struct el = false -> (0 < bits_of el)%nat ->
    set_string s = Some val ->
    mem_str s bool_false_spellings = false -> mem_str s bool_true_spellings = false ->
    match_hex_input s = None ->
    let e := bits_of el in let k := literal_elems s val e in
    exists sz r,
      input_sizes [s] = Ok [sz] /\
      instantiate (template_of (TySlice el 0)) [sz] = Ok (info_of (TySlice el k)) /\
      parse (leaf_arg (TySlice el k)) [s] = Ok r /\
      0 <= r < 2 ^ Z.of_nat (k * e) /\
      wires r (k * e) = concat (map (array_elem_wires val k e) (seq 0 k)).
Proof. exact unsized_slice_lossless. Qed.
Print Assumptions C13_unsized_slice_lossless.

(* for SIGNED unsized integers the inferred width has no room for the sign
   (known finding): "128" -> 8 bits *)
Theorem C13_input_size_signed_refuted :
  exists s z n, set_string s = Some z /\ input_size s = Ok n /\
    ~ (- 2 ^ (Z.of_nat n - 1) <= z < 2 ^ (Z.of_nat n - 1)).
Proof. exact input_size_signed_refuted. Qed.
Print Assumptions C13_input_size_signed_refuted.

(* ---- (5) Result inverts the encoding, is repeatable, leaves its argument ---- *)

(* every type (well-formed or not), every big.Int value: the argument after
   the call is the argument *)
Theorem C13_result_pure :
  forall t r o r', result t r = Ok (o, r') -> r' = r.
Proof. exact result_fixed_arg_unchanged. Qed.
Print Assumptions C13_result_pure.

(* … and decoding the value that is left decodes the same Go value again *)
Theorem C13_result_repeatable :
  forall t r o r', result t r = Ok (o, r') -> result t r' = Ok (o, r').
Proof. exact result_fixed_repeatable. Qed.
Print Assumptions C13_result_repeatable.

(* every width b >= 1, every signed value of that width: the wire value
   z mod 2^b decodes to z (as intN for b <= 64, *big.Int above) *)
Theorem C13_result_inverse_int :
  forall b z, (0 < b)%nat -> - 2 ^ (Z.of_nat b - 1) <= z < 2 ^ (Z.of_nat b - 1) ->
    result (info_of (TyInt b)) (z mod 2 ^ Z.of_nat b)
    = Ok (go_int true b z, z mod 2 ^ Z.of_nat b).
Proof. exact result_fixed_int_inverse. Qed.
Print Assumptions C13_result_inverse_int.

Theorem C13_result_inverse_uint :
  forall b z, 0 <= z < 2 ^ Z.of_nat b ->
    result (info_of (TyUint b)) z = Ok (go_int false b z, z).
Proof. exact (result_uint_inverse result_tint_now). Qed.
Print Assumptions C13_result_inverse_uint.

Theorem C13_result_inverse_bool :
  forall v : bool, result (info_of TyBool) (Z.b2z v) = Ok (OBool v, Z.b2z v).
Proof. exact (result_bool_inverse result_tint_now). Qed.
Print Assumptions C13_result_inverse_bool.

(* arrays and slices: every supported element type, every length, every
   element list: element i of the Go slice is Result of element i's wire
   value; argument unchanged *)
Theorem C13_result_inverse_array :
  forall (slice : bool) el n ek ew (us : list Z),
    elem_go_type (info_of el) = Some (ek, ew) ->
    Forall (fun x => 0 <= x < 2 ^ Z.of_nat (bits_of el)) us -> length us = n ->
    (forall u, In u us -> exists o a, result_scalar result_tint_now (info_of el) u = Ok (o, a)) ->
    result (info_of (if slice then TySlice el n else TyArray el n)) (le_value (bits_of el) us)
    = Ok (OSlice ek ew (map (scalar_out result_tint_now (info_of el)) us), le_value (bits_of el) us).
Proof. exact (result_array_inverse result_tint_now). Qed.
Print Assumptions C13_result_inverse_array.

(* signed elements: every width, every length, every in-range element list *)
Theorem C13_result_inverse_int_array :
  forall (slice : bool) b n (zs : list Z),
    (0 < b)%nat -> length zs = n ->
    Forall (fun z => - 2 ^ (Z.of_nat b - 1) <= z < 2 ^ (Z.of_nat b - 1)) zs ->
    let r := le_value b (map (fun z => z mod 2 ^ Z.of_nat b) zs) in
    exists ek ew,
      result (info_of (if slice then TySlice (TyInt b) n else TyArray (TyInt b) n)) r
      = Ok (OSlice ek ew (map (go_int true b) zs), r).
Proof. exact result_fixed_int_array_inverse. Qed.
Print Assumptions C13_result_inverse_int_array.

(* ---- (6) whole output lists: mpc.Results, Outputs.Split -> Results, round trips ---- *)

(* mpc.Results with an outputs list, every outputs list (ill-formed types
   included), every value list (negative / oversized values included): it
   returns exactly when there is an output for every value and Result returns
   on every (value, output) pair, and then item i is Result(values[i], outputs[i]) *)
Theorem C13_results_per_output :
  forall rs outs l,
    results (Some outs) rs = Ok l <->
    (length rs <= length outs)%nat /\
    Forall2 (fun ro x => result (a_type (snd ro)) (fst ro) = Ok x) (combine rs outs) l.
Proof. exact results_per_output. Qed.
Print Assumptions C13_results_per_output.

(* … and with fewer outputs than values it panics (outputs[idx]), whatever the values *)
Theorem C13_results_short_outputs_panic :
  forall rs outs, (length outs < length rs)%nat -> results (Some outs) rs = Panic.
Proof. exact results_short_outputs. Qed.
Print Assumptions C13_results_short_outputs_panic.

(* nil outputs: every value list: every value comes back as the *big.Int it is *)
Theorem C13_results_nil_outputs :
  forall rs, results None rs = Ok (map (fun r => (OBig r, r)) rs).
Proof. exact results_nil_outputs. Qed.
Print Assumptions C13_results_nil_outputs.

(* every outputs list (nil included), every value list: the values after the
   call are the values, and a second call on them returns the same Go values *)
Theorem C13_results_pure :
  forall outputs rs l, results outputs rs = Ok l -> map snd l = rs.
Proof. exact results_arg_unchanged. Qed.
Print Assumptions C13_results_pure.

Theorem C13_results_repeatable :
  forall outputs rs l, results outputs rs = Ok l -> results outputs (map snd l) = Ok l.
Proof. exact results_repeatable. Qed.
Print Assumptions C13_results_repeatable.

(* one member of any leaf type (bool, intN/uintN of any width, arrays and
   slices of integer elements of any length, given short / nil included),
   every in-domain Go value: the number its canonical wires spell decodes to
   exactly that value (arrays: the bytes, two's complement per element, then
   zeros), argument unchanged *)
Theorem C13_result_inverse_member :
  forall m v, gin_domain m v -> out_ok m ->
    result (info_of m) (from_bits (gin_wires m v)) = Ok (decoded m v, from_bits (gin_wires m v)).
Proof. exact decode_member. Qed.
Print Assumptions C13_result_inverse_member.

(* THE OUTPUT PIPELINE of every runner, Outputs.Split(raw) then Results: every
   list of leaf output types, every in-domain value list, every raw value
   whose output wires carry the canonical wires of the values (whatever is
   above them; negative raw values included): exactly the values come out,
   output by output *)
Theorem C13_output_pipeline :
  forall ms vs raw,
    Forall2 gin_domain ms vs -> Forall out_ok ms ->
    wires raw (sum_bits ms) = gins_wires ms vs ->
    output_values (map leaf_arg ms) raw = Ok (decoded_all ms vs).
Proof. exact output_values_canonical. Qed.
Print Assumptions C13_output_pipeline.

(* … output j is the value of member j alone (no other member's value reaches it) *)
Theorem C13_output_independent :
  forall ms vs j mj vj,
    nth_error ms j = Some mj -> nth_error vs j = Some vj ->
    nth_error (decoded_all ms vs) j = Some (decoded mj vj, from_bits (gin_wires mj vj)).
Proof. exact decoded_all_nth. Qed.
Print Assumptions C13_output_independent.

(* ROUND TRIP, text form: every non-empty list of leaf member types, every
   in-domain value list, every spelling list of it: Parse accepts, and the
   parsed value handed through Split and Results is the value list *)
Theorem C13_roundtrip_text :
  forall t m ms ss vs,
    members_spelled (m :: ms) ss vs -> Forall out_ok (m :: ms) ->
    exists rp, parse (IOArg t (map leaf_arg (m :: ms))) ss = Ok rp /\
      output_values (map leaf_arg (m :: ms)) rp = Ok (decoded_all (m :: ms) vs).
Proof. exact roundtrip_text. Qed.
Print Assumptions C13_roundtrip_text.

(* ROUND TRIP, Go-value form *)
Theorem C13_roundtrip_value :
  forall t m ms vs,
    Forall2 gin_domain (m :: ms) vs -> Forall out_ok (m :: ms) ->
    exists rs, set (IOArg t (map leaf_arg (m :: ms))) vs = Ok rs /\
      output_values (map leaf_arg (m :: ms)) rs = Ok (decoded_all (m :: ms) vs).
Proof. exact roundtrip_value. Qed.
Print Assumptions C13_roundtrip_value.

(* the same for a single, non-compound argument (Parse returns a NEGATIVE
   big.Int for a negative literal; its two's-complement wires decode to the value) *)
Theorem C13_roundtrip_text_single :
  forall m s v, gin_domain m v -> spells m s v -> out_ok m ->
    exists rp, parse (leaf_arg m) [s] = Ok rp /\
      output_values [leaf_arg m] rp = Ok [(decoded m v, from_bits (gin_wires m v))].
Proof. exact roundtrip_text_single. Qed.
Print Assumptions C13_roundtrip_text_single.

Theorem C13_roundtrip_value_single :
  forall m v, gin_domain m v -> out_ok m ->
    exists rs, set (leaf_arg m) [v] = Ok rs /\
      output_values [leaf_arg m] rs = Ok [(decoded m v, from_bits (gin_wires m v))].
Proof. exact roundtrip_value_single. Qed.
Print Assumptions C13_roundtrip_value_single.

(* array literals of EVERY element type Result decodes (bool, intN / uintN of
   any width also above 64 bits, stringN), every length n > 0, every literal in
   every spelling Parse accepts (0x with odd digit counts, decimal, binary,
   separators, short literals): element i of the Go slice Result returns for
   the parsed value is Result of the literal's i-th e-bit group (first group
   most significant), zero elements after a short literal *)
Theorem C13_parse_array_result :
  forall el n s val r,
    elem_ok el -> (0 < bits_of el)%nat -> (0 < n)%nat -> set_string s = Some val ->
    parse (leaf_arg (TyArray el n)) [s] = Ok r ->
    let e := bits_of el in let k := literal_elems s val e in
    result (info_of (TyArray el n)) r
    = Ok (OSlice (fst (elem_tag el)) (snd (elem_tag el))
                 (map (fun i => scalar_out result_tint_now (info_of el) (literal_elem val k e i)) (seq 0 n)), r).
Proof. exact parse_array_result. Qed.
Print Assumptions C13_parse_array_result.

Theorem C13_parse_slice_result :
  forall el s val r,
    elem_ok el -> (0 < bits_of el)%nat -> set_string s = Some val ->
    let e := bits_of el in let k := literal_elems s val e in
    parse (leaf_arg (TySlice el k)) [s] = Ok r ->
    result (info_of (TySlice el k)) r
    = Ok (OSlice (fst (elem_tag el)) (snd (elem_tag el))
                 (map (fun i => scalar_out result_tint_now (info_of el) (literal_elem val k e i)) (seq 0 k)), r).
Proof. exact parse_slice_result. Qed.
Print Assumptions C13_parse_slice_result.

(* IO.Size of every argument list is the number of wires Split / Parse walk over *)
Theorem C13_io_size :
  forall io, io_size io = total_bits io.
Proof. exact io_size_total. Qed.
Print Assumptions C13_io_size.

Theorem C13_io_size_leaves :
  forall ms, io_size (map leaf_arg ms) = sum_bits ms.
Proof. exact io_size_leaves. Qed.
Print Assumptions C13_io_size_leaves.

(* ---- (7) the text mpc.PrintResults prints reads back as the value ---- *)

(* every Go-integer output (intN / uintN, N <= 64), EVERY value: the text
   printed without -base is accepted by big.Int.SetString(s, 0) as the value *)
Theorem C13_print_int_reparse :
  forall signed w z, set_string (print_value 0 (OInt signed w z)) = Some z.
Proof. exact print_int_reparse. Qed.
Print Assumptions C13_print_int_reparse.

(* every *big.Int output (N > 64), every non-negative value ("0x…") *)
Theorem C13_print_big_reparse :
  forall z, 0 <= z -> set_string (print_value 0 (OBig z)) = Some z.
Proof. exact print_big_reparse. Qed.
Print Assumptions C13_print_big_reparse.

(* … false for negative *big.Int values: -1 is printed "0x-1", which SetString rejects *)
Theorem C13_print_big_negative_refuted :
  exists z, z < 0 /\ set_string (print_value 0 (OBig z)) = None.
Proof. exact print_big_negative_refuted. Qed.
Print Assumptions C13_print_big_negative_refuted.

(* with -base 10 every integer output of every width and sign reads back *)
Theorem C13_print_base10_reparse :
  forall o z, (exists signed w, o = OInt signed w z) \/ o = OBig z ->
    set_string (print_value 10 o) = Some z.
Proof. exact print_base10_reparse. Qed.
Print Assumptions C13_print_base10_reparse.

(* in terms of argument types: every width b, signed or not, every value
   (non-negative when b > 64): IOArg.Parse for that type on the text
   PrintResults prints for the value returns the value *)
Theorem C13_print_parse_roundtrip :
  forall (signed : bool) b z, (b <= 64)%nat \/ 0 <= z ->
    parse (leaf_arg (if signed then TyInt b else TyUint b)) [print_value 0 (go_int signed b z)] = Ok z.
Proof. exact print_parse_roundtrip. Qed.
Print Assumptions C13_print_parse_roundtrip.

(* every non-empty byte-array output: it is printed as two hex digits per
   byte, first element first, and "0x" + that text parsed for the same array
   type puts the same bytes on the wires *)
Theorem C13_print_bytes_reparse :
  forall l, l <> [] -> Forall (fun x => (x < 256)%N) l ->
    let m := TyArray (TyUint 8) (length l) in
    print_value 0 (decoded m (GBytes l)) = hex_bytes l /\
    exists r, parse (leaf_arg m) [[48; 120]%N ++ hex_bytes l] = Ok r /\
      wires r (bits_of m) = gin_wires m (GBytes l).
Proof. exact print_bytes_reparse. Qed.
Print Assumptions C13_print_bytes_reparse.

(* ---- (8) sizes of whole argument lists ---- *)

(* InputSizes / Sizes of every list: accepted exactly when every member is,
   size i depends on member i alone *)
Theorem C13_input_sizes_pointwise :
  forall ss ns, input_sizes ss = Ok ns <-> Forall2 (fun s n => input_size s = Ok n) ss ns.
Proof. exact input_sizes_iff. Qed.
Print Assumptions C13_input_sizes_pointwise.

Theorem C13_sizes_pointwise :
  forall vs ns, sizes vs = Ok ns <-> Forall2 (fun v n => sizes [v] = Ok [n]) vs ns.
Proof. exact sizes_iff. Qed.
Print Assumptions C13_sizes_pointwise.

(* Go values versus text for whole argument lists: every list of uint64
   (incl. 0), bool, []byte (any length) and nil values, every list of
   spellings of them (plain integer spellings, the six bool spellings, 0x
   byte literals, "_"): circuit.Sizes and circuit.InputSizes infer the same
   size list, one size per argument *)
Theorem C13_sizes_value_eq_text_list :
  forall vs ss, Forall2 size_spelled vs ss ->
    exists ns, sizes vs = Ok ns /\ input_sizes ss = Ok ns /\ length ns = length vs.
Proof. exact sizes_eq_input_sizes_list. Qed.
Print Assumptions C13_sizes_value_eq_text_list.

(* ---- (9) string outputs ---- *)

(* every stringN output (N = 8 * length), every byte content (NUL bytes
   anywhere, bytes >= 0x80): Result renders exactly one rune per byte, byte 0
   first (printable as itself in UTF-8, anything else \u00XX); argument unchanged *)
Theorem C13_result_string :
  forall l, Forall (fun x => (x < 256)%N) l ->
    result (info_of (TyString (length l * 8))) (str_value l) = Ok (OStr (render l), str_value l).
Proof. exact result_string. Qed.
Print Assumptions C13_result_string.

(* decoding a string output is LOSSLESS: every two byte contents (any bytes,
   NUL and the backslash included; F44 repaired: the backslash is escaped as
   \, so every '\' of the Go string starts a 6-character escape) that
   give the same Go string are equal *)
Theorem C13_result_string_lossless :
  forall l1 l2,
    Forall (fun x => (x < 256)%N) l1 -> Forall (fun x => (x < 256)%N) l2 ->
    map_fst (result (info_of (TyString (length l1 * 8))) (str_value l1))
    = map_fst (result (info_of (TyString (length l2 * 8))) (str_value l2)) ->
    l1 = l2.
Proof. exact result_string_lossless. Qed.
Print Assumptions C13_result_string_lossless.

(* ---- (10) the text form of argument types ---- *)

(* every type without struct members (bool, intN / uintN / stringN, arrays and
   slices of those, arrays of arrays), widths within int32: types.Parse of the
   text Info.String prints for it is the type again, a slice without its length *)
Theorem C13_types_parse_text :
  forall t, text_ok t -> types_parse (info_text (info_of t)) = Ok (info_of (reparsed t)).
Proof. exact types_parse_text. Qed.
Print Assumptions C13_types_parse_text.

(* … for scalar and array types exactly the Info the codec theorems above are about *)
Theorem C13_types_parse_text_exact :
  forall t, text_ok t -> slice_free t -> types_parse (info_text (info_of t)) = Ok (info_of t).
Proof. exact types_parse_text_exact. Qed.
Print Assumptions C13_types_parse_text_exact.

(* STATE INVENTORY (finite obligation on the model regenerated from the source, checked by
   computation).  The struct fields and package-level variables of the Go packages this
   property is anchored in — ., circuit, types — as emitted from /repo's current
   source by harness/gen_state.go (Gen/State.v) are exactly those the models above were written
   against (Base/StateExpected.v).  A new field or variable (a cache, a memo, a pool, a counter,
   a changed field type) is state the models do not have: this obligation then breaks and the
   property is no longer shown to hold until the change has been reviewed against the model. *)
Theorem C13_state_inventory :
  Mpc.Base.StateCheck.state_unchanged Mpc.Gen.State.state_inventory Mpc.Base.StateExpected.expected_state
    Mpc.Base.StatePkgs.pkgs_C13 = true.
Proof. vm_compute. reflexivity. Qed.
Print Assumptions C13_state_inventory.
