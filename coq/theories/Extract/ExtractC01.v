From Coq Require Import ExtrOcamlBasic.
From Mpc Require Import Base.Sx Circuit.RunC01.
Definition run := run_c01.
Extraction "model.ml" run.
