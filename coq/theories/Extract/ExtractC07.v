From Coq Require Import ExtrOcamlBasic.
From Mpc Require Import Base.Sx Builders.RunC07.
Definition run := run_c07.
Extraction "model.ml" run.
