From Coq Require Import ExtrOcamlBasic.
From Mpc Require Import Base.Sx IO.RunC14.
Definition run := run_c14.
Extraction "model.ml" run.
