From Coq Require Import ExtrOcamlBasic.
From Mpc Require Import Base.Sx Lang.RunC12.
Definition run := run_c12.
Extraction "model.ml" run.
