From Coq Require Import ExtrOcamlBasic.
From Mpc Require Import Base.Sx Circuit.RunC09.
Definition run := run_c09.
Extraction "model.ml" run.
