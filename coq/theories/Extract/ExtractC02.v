From Coq Require Import ExtrOcamlBasic.
From Mpc Require Import Base.Sx Proto.RunC02.
Definition run := run_c02.
Extraction "model.ml" run.
