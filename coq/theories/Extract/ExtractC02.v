From Coq Require Import ExtrOcamlBasic.
From Mpc Require Import Base.Sx Proto.RunC02Live.
Definition run := run_c02x.
Extraction "model.ml" run.
