From Coq Require Import ExtrOcamlBasic.
From Mpc Require Import Base.Sx Proto.RunC05.
Definition run := run_c05.
Extraction "model.ml" run.
