From Coq Require Import ExtrOcamlBasic.
From Mpc Require Import Base.Sx OT.RunC06.
Definition run := run_c06.
Extraction "model.ml" run.
