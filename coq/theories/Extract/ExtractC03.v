From Coq Require Import ExtrOcamlBasic.
From Mpc Require Import Base.Sx Lang.RunC03.
Definition run := run_c03.
Extraction "model.ml" run.
