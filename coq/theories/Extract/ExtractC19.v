From Coq Require Import ExtrOcamlBasic.
From Mpc Require Import Base.Sx Proto.RunC19.
Definition run := run_c19.
Extraction "model.ml" run.
