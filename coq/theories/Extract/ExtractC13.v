From Coq Require Import ExtrOcamlBasic.
From Mpc Require Import Base.Sx IO.RunC13.
Definition run := run_c13.
Extraction "model.ml" run.
