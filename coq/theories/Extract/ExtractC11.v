From Coq Require Import ExtrOcamlBasic.
From Mpc Require Import Base.Sx Proto.RunC11.
Definition run := run_c11.
Extraction "model.ml" run.
