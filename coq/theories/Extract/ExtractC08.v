From Coq Require Import ExtrOcamlBasic.
From Mpc Require Import Base.Sx Lang.RunC08.
Definition run := run_c08.
Extraction "model.ml" run.
