From Coq Require Import ExtrOcamlBasic.
From Mpc Require Import Base.Sx IO.RunC18.
Definition run := run_c18.
Extraction "model.ml" run.
