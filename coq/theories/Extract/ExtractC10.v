From Coq Require Import ExtrOcamlBasic.
From Mpc Require Import Base.Sx Gmw.RunC10.
Definition run := run_c10.
Extraction "model.ml" run.
