From Coq Require Import ExtrOcamlBasic.
From Mpc Require Import Base.Sx Circuit.RunC17.
Definition run := run_c17.
Extraction "model.ml" run.
