From Coq Require Import ExtrOcamlBasic.
From Mpc Require Import Base.Sx OT.RunC15.
Definition run := run_c15.
Extraction "model.ml" run.
