From Coq Require Import ExtrOcamlBasic.
From Mpc Require Import Base.Sx OT.RunC20.
Definition run := run_c20.
Extraction "model.ml" run.
