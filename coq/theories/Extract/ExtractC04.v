From Coq Require Import ExtrOcamlBasic.
From Mpc Require Import Base.Sx Circuit.RunC04.
Definition run := run_c04.
Extraction "model.ml" run.
