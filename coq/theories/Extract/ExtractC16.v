From Coq Require Import ExtrOcamlBasic.
From Mpc Require Import Base.Sx Proto.RunC16.
Definition run := run_c16.
Extraction "model.ml" run.
