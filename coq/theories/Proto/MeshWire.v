(* MeshWire.v — the WIRE side of p2p mesh formation (p2p/network.go,
   p2p/protocol.go), which Proto/Mesh.v abstracts to "a hello carrying
   (from, connID)": executable model, no proofs (MeshWireProof.v).

     be32 / rd32            Conn.SendUint32 / Conn.ReceiveUint32 (big endian)
     enc_str / rd_str       Conn.SendString / Conn.ReceiveString (length + bytes)
     enc_hello              the first bytes a party writes on a connection:
                            connectPeerToLeader (connID 0 to the leader) and dial
                            (magic = connMagic | (connID & 0xff), self.ID, self.Addr)
     dec_hello              acceptConn up to "peer.SetConn(connID, conn)": the three
                            reads, the magic test and the connID < len(nw.need) test
     enc_netinfo/dec_netinfo  the network info of connectLeader / connectPeerToLeader
     connect_dials          the dial loop of connectPeer ("lower ids dial higher ids",
                            everybody but the leader dials the leader for connID > 0)
     join_dials             the dial of p2p.Join (connection 0 to the leader)
     need_init              the value written into need[c] (Connect for the leader,
                            numAccept of connectPeerToLeader for the others)
     wire_party             ONE party among scripted peers: what it writes first on
                            the leader link, whom it dials for which connID with which
                            bytes, what network info it sends, Connect's status.

   Bytes and 32-bit words are N; party ids and connection ids are nat. *)
From Coq Require Import NArith ZArith Arith List Bool.
From Mpc Require Import Gen.Consts.
Import ListNotations.
Open Scope nat_scope.

Definition connMagic : N := Z.to_N p2p_connMagic.          (* 0x474d5700 *)
Definition connMagicMask : N := Z.to_N p2p_connMagicMask.  (* 0xffffff00 *)

(* ---- protocol.go: SendUint32 / ReceiveUint32 / SendData / ReceiveData ---- *)

(* uint32(val) of SendUint32 is the reduction mod 2^32 *)
Definition be32 (v : N) : list N :=
  let w := (v mod 4294967296)%N in
  [ ((w / 16777216) mod 256)%N; ((w / 65536) mod 256)%N; ((w / 256) mod 256)%N; (w mod 256)%N ].

Definition rd32 (bs : list N) : option (N * list N) :=
  match bs with
  | b0 :: b1 :: b2 :: b3 :: rest => Some ((((b0 * 256 + b1) * 256 + b2) * 256 + b3)%N, rest)
  | _ => None
  end.

Definition enc_str (s : list N) : list N := be32 (N.of_nat (length s)) ++ s.

Definition rd_str (bs : list N) : option (list N * list N) :=
  match rd32 bs with
  | None => None
  | Some (len, rest) =>
      let l := N.to_nat len in
      if length rest <? l then None else Some (firstn l rest, skipn l rest)
  end.

(* ---- hello ---- *)

(* dial: magic := connMagic | (connID & 0xff); connectPeerToLeader: connMagic *)
Definition hello_magic (c : nat) : N := N.lor connMagic (N.land (N.of_nat c) 255).

Definition enc_hello (c id : nat) (addr : list N) : list N :=
  be32 (hello_magic c) ++ be32 (N.of_nat id) ++ enc_str addr.

Inductive hello_res :=
| HOk (c id : nat) (addr rest : list N)
| HShort                       (* a read failed: the connection ended early *)
| HBadMagic (magic : N) (id : nat)
| HBadConnID (c id : nat).

(* acceptConn: all three reads come first, then the two tests *)
Definition dec_hello (numConns : nat) (bs : list N) : hello_res :=
  match rd32 bs with
  | None => HShort
  | Some (magic, r1) =>
      match rd32 r1 with
      | None => HShort
      | Some (id, r2) =>
          match rd_str r2 with
          | None => HShort
          | Some (addr, rest) =>
              if negb (N.land magic connMagicMask =? connMagic)%N then HBadMagic magic (N.to_nat id)
              else
                let c := N.to_nat (magic mod 256) in      (* int(byte(magic)) *)
                if numConns <=? c then HBadConnID c (N.to_nat id)
                else HOk c (N.to_nat id) addr rest
          end
      end
  end.

(* ---- network info ---- *)

(* connectLeader, one receiving peer: len(nw.need), len(nw.Peers) - 2, then (ID, Addr)
   of every peer other than the leader and the receiver, in table order *)
Definition enc_netinfo (numConns : nat) (others : list (nat * list N)) : list N :=
  be32 (N.of_nat numConns) ++ be32 (N.of_nat (length others)) ++
  flat_map (fun p => be32 (N.of_nat (fst p)) ++ enc_str (snd p)) others.

Fixpoint rd_entries (cnt : nat) (bs : list N) : option (list (nat * list N) * list N) :=
  match cnt with
  | O => Some ([], bs)
  | S cnt' =>
      match rd32 bs with
      | None => None
      | Some (id, r1) =>
          match rd_str r1 with
          | None => None
          | Some (addr, r2) =>
              match rd_entries cnt' r2 with
              | None => None
              | Some (es, rest) => Some ((N.to_nat id, addr) :: es, rest)
              end
          end
      end
  end.

(* connectPeerToLeader's reads (the numConns comparison is made by the caller) *)
Definition dec_netinfo (bs : list N) : option (nat * list (nat * list N) * list N) :=
  match rd32 bs with
  | None => None
  | Some (nc, r1) =>
      match rd32 r1 with
      | None => None
      | Some (cnt, r2) =>
          match rd_entries (N.to_nat cnt) r2 with
          | None => None
          | Some (es, rest) => Some (N.to_nat nc, es, rest)
          end
      end
  end.

(* ---- who dials whom ---- *)

(* connectPeer's loop over the (sorted) peer table for connection id c *)
Definition dial_test (self c p : nat) : bool :=
  if p =? 0 then negb (c =? 0) else self <? p.

Definition connect_dials (peers : list nat) (self c : nat) : list nat :=
  if self =? 0 then [] else filter (dial_test self c) peers.

(* p2p.Join: every non-leader dials the leader once; that link is connection 0 *)
Definition join_dials (self c : nat) : list nat :=
  if negb (self =? 0) && (c =? 0) then [0] else [].

(* every dial party [self] of an n-party mesh makes for connection id c *)
Definition all_dials (n self c : nat) : list nat :=
  join_dials self c ++ connect_dials (seq 0 n) self c.

(* the parties that dial j: 1..n-1 dial the leader, 1..j-1 dial j >= 1 *)
Definition in_dialers (n j : nat) : list nat :=
  if j =? 0 then seq 1 (n - 1) else seq 1 (j - 1).

(* need[c] as initialised: Connect (leader) resp. numAccept (connectPeerToLeader:
   the entries of the network info with a smaller id) *)
Definition need_init (n j : nat) : nat :=
  if j =? 0 then n - 1 else length (filter (fun i => i <? j) (filter (fun i => negb (i =? 0) && negb (i =? j)) (seq 0 n))).

(* ---- one party among scripted peers ---- *)

(* the peer table: (ID, Addr, connection ids stored), kept sorted by ID
   (addPeerLocked: append + sort.Slice) *)
Definition ptab := list (nat * (list N * list nat)).

Fixpoint tab_insert (e : nat * (list N * list nat)) (t : ptab) : ptab :=
  match t with
  | [] => [e]
  | x :: t' => if fst e <? fst x then e :: t else x :: tab_insert e t'
  end.

Fixpoint list_eqb (a b : list N) : bool :=
  match a, b with
  | [], [] => true
  | x :: a', y :: b' => (x =? y)%N && list_eqb a' b'
  | _, _ => false
  end.

(* addPeerLocked with a peer that carries (at most) one connection *)
Definition add_peer (numParties : nat) (t : ptab) (id : nat) (addr : list N) (cs : list nat) : option ptab :=
  if numParties <=? id then None else
  match find (fun x => fst x =? id) t with
  | Some (_, (oaddr, ocs)) =>
      if negb (list_eqb oaddr addr) then None
      else if existsb (fun c => existsb (Nat.eqb c) ocs) cs then None      (* SetConn: already set *)
      else Some (map (fun x => if fst x =? id then (fst x, (fst (snd x), snd (snd x) ++ cs)) else x) t)
  | None => Some (tab_insert (id, (addr, cs)) t)
  end.

Definition upd_need (need : list nat) (c v : nat) : list nat :=
  map (fun ic => if fst ic =? c then v else snd ic) (combine (seq 0 (length need)) need).

(* the accept loop over the scripted inbound connections, in arrival order:
   acceptConn = dec_hello, need[c] = 0 test, addPeerLocked, need[c]--.
   Result: table, need, and whether the loop ended with an error. *)
Fixpoint accept_all (numParties numConns : nat) (t : ptab) (need : list nat) (ins : list (list N))
  : ptab * list nat * bool :=
  match ins with
  | [] => (t, need, false)
  | bs :: ins' =>
      match dec_hello numConns bs with
      | HOk c id addr _ =>
          if nth c need 0 =? 0 then (t, need, true) else
          match add_peer numParties t id addr [c] with
          | None => (t, need, true)
          | Some t' => accept_all numParties numConns t' (upd_need need c (nth c need 0 - 1)) ins'
          end
      | _ => (t, need, true)
      end
  end.

(* Connect's loop over c = from .. numConns-1 after the accept loop has consumed the
   script: dial, then the wait on need[c] (0: go on; > 0 and the accept loop has
   failed: return its error = status 1; > 0 otherwise: blocked = status 2).
   Returns (status, dials made) with dial = (c, target, bytes written). *)
Fixpoint connect_loop (fuel c : nat) (peers : list nat) (self : nat) (addr : list N)
         (need : list nat) (failed : bool) : nat * list (nat * nat * list N) :=
  match fuel with
  | O => (0, [])
  | S fuel' =>
      let ds := map (fun p => (c, p, enc_hello c self addr)) (connect_dials peers self c) in
      if (nth c need 0 =? 0) && negb failed then
        let '(st, ds') := connect_loop fuel' (S c) peers self addr need failed in (st, ds ++ ds')
      else ((if failed then 1 else 2), ds)
  end.

Record wire_out := {
  w_status : nat;                                  (* 0 nil | 1 error | 2 blocked *)
  w_hello0 : list N;                               (* first bytes on the Join link *)
  w_dials : list (nat * nat * list N);
  w_infos : list (nat * list N)                    (* leader: (peer, network info) *)
}.

(* party [self] (own address addrs[self]) with [numConns] connections;
   n is the leader's numParties (ignored by the others: Join sets id+1, the
   network info then 2 + count);
   netinfo: what the (scripted) leader answers; ins: the scripted inbound hellos. *)
Definition wire_party (n numConns self : nat) (addr : list N) (netinfo : list N)
           (ins : list (list N)) : wire_out :=
  if self =? 0 then
    let t0 : ptab := [(0, (addr, []))] in
    let '(t, need, failed) := accept_all n numConns t0 (repeat (n - 1) numConns) ins in
    let '(st, _) := connect_loop numConns 0 (map fst t) 0 addr need failed in
    (* the network info goes out once the wait for connection 0 has succeeded *)
    let sent := (nth 0 need 0 =? 0) && negb failed in
    {| w_status := st; w_hello0 := []; w_dials := [];
       w_infos := if sent then
                    map (fun p => (fst p, enc_netinfo numConns
                                     (map (fun q => (fst q, fst (snd q)))
                                          (filter (fun q => negb (fst q =? 0) && negb (fst q =? fst p)) t))))
                        (filter (fun p => negb (fst p =? 0)) t)
                  else [] |}
  else
    let h0 := enc_hello 0 self addr in
    match dec_netinfo netinfo with
    | None => {| w_status := 1; w_hello0 := h0; w_dials := []; w_infos := [] |}
    | Some (nc, es, _) =>
        if negb (nc =? numConns) then {| w_status := 1; w_hello0 := h0; w_dials := []; w_infos := [] |} else
        let np := 2 + length es in
        (* Join: table = self and the leader (connection 0 stored) *)
        let t0 : ptab := tab_insert (0, ([], [0])) [(self, (addr, []))] in
        let add := fold_left (fun (acc : option ptab) e =>
                                match acc with
                                | None => None
                                | Some t => add_peer np t (fst e) (snd e) []
                                end) es (Some t0) in
        match add with
        | None => {| w_status := 1; w_hello0 := h0; w_dials := []; w_infos := [] |}
        | Some t1 =>
            let na := length (filter (fun e => fst e <? self) es) in
            let '(t, need, failed) := accept_all np numConns t1 (repeat na numConns) ins in
            let '(st, ds) := connect_loop numConns 0 (map fst t1) self addr need failed in
            {| w_status := st; w_hello0 := h0; w_dials := ds; w_infos := [] |}
        end
    end.
