(* RunC16.v — executable entry for C16: the garbler's outcome as a function
   of the labels that actually came back.
   input = C02 input ++ [(returned labels...)];  output = (0 (results...)) | (-1) *)
From Coq Require Import ZArith NArith List Bool.
From Mpc Require Import Base.Sx Base.Label Base.Aes Base.Codec Circuit.Circuit Circuit.Garble
     Circuit.RunC01 Proto.Session Proto.RunC02.
Import ListNotations.

Definition run_c16 (inp : sx) : sx :=
  let key := getLN (nthx 0 inp) in
  let c := circ2_of_sx inp in
  let rl := getLN (nthx 5 inp) in
  let rnd := fun i => nth i rl 0%N in
  let returned := getLN (nthx 8 inp) in
  let g := garble (pi_aes key) rnd [] (cc c) in
  match garbler_finish c g returned with
  | Some bits => SL [SZ 0; ofLN (garbler_result c bits)]
  | None => SL [SZ (-1)]
  end.
