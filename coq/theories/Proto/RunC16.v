(* RunC16.v — executable entry for C16: the garbler's outcome as a function
   of the BYTES that actually came back after the OT (the returned output
   labels as they were delivered, corrupted or not), read through the p2p.Conn
   model (Proto/Conn.v) with the regenerated buffer size and the read
   fragmentation the harness used.
   input = C02 input ++ [(returned labels...); (tail bytes...); (read fragments...)]
   output = (0 (results...)) | (-1); both paths (label list / byte stream) must agree:
   a disagreement between them is reported as (-2).
   SPAN case (first element an atom): (16 dims gates (x bits) (perm bits))
   -> (nvalues rank R-in-span ((honest-in-span forgery-in-span) per output wire)):
   the GF(2) rank / span test of Proto/SpanView.v on the symbolic view of the
   circuit, compared with the same test on the real 128-bit labels and rows. *)
From Coq Require Import ZArith NArith List Bool.
From Mpc Require Import Gen.Consts Base.Sx Base.Label Base.Aes Base.Codec Circuit.Circuit Circuit.Garble
     Circuit.RunC01 Proto.Session Proto.RunC02 Proto.Conn Proto.SessionRx
     Circuit.GGarble Proto.SpanView.
Import ListNotations.

Definition run_c16_span (inp : sx) : sx :=
  let c := circuit_of_sx (nthx 1 inp) (nthx 2 inp) in
  let pl := getLB (nthx 4 inp) in
  let perm := fun n => nth n pl (Nat.odd n) in
  let '(n, rk, rin, outs) := span_report perm c (getLB (nthx 3 inp)) in
  SL [ofnat n; ofnat rk; ofB rin; SL (map (fun p => SL [ofB (fst p); ofB (snd p)]) outs)].

Definition run_c16 (inp : sx) : sx :=
  match nthx 0 inp with SZ _ => run_c16_span inp | SL _ =>
  let key := getLN (nthx 0 inp) in
  let c := circ2_of_sx inp in
  let rl := getLN (nthx 5 inp) in
  let rnd := fun i => nth i rl 0%N in
  let returned := getLN (nthx 8 inp) in
  let bytes := getLN (nthx 9 inp) in
  let frags := getLN (nthx 10 inp) in
  let g := garble (pi_aes key) rnd [] (cc c) in
  let by_labels := garbler_finish c g returned in
  let by_bytes := snd (garbler_rx_result (Z.to_N p2p_readBufSize) c g
                         (r_init (mkT bytes frags false 0))) in
  let same := match by_labels, by_bytes with
              | Some a, Some b => forallb (fun p => Bool.eqb (fst p) (snd p)) (combine a b)
                                  && Nat.eqb (length a) (length b)
              | None, None => true
              | _, _ => false
              end in
  if negb same then SL [SZ (-2)] else
  match by_bytes with
  | Some bits => SL [SZ 0; ofLN (garbler_result c bits)]
  | None => SL [SZ (-1)]
  end
  end.
