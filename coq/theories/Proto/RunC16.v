(* RunC16.v — executable entry for C16: the garbler's outcome as a function
   of the BYTES that actually came back after the OT (the returned output
   labels as they were delivered, corrupted or not), read through the p2p.Conn
   model (Proto/Conn.v) with the regenerated buffer size and the read
   fragmentation the harness used.
   input = C02 input ++ [(returned labels...); (tail bytes...); (read fragments...)]
   output = (0 (results...)) | (-1); both paths (label list / byte stream) must agree:
   a disagreement between them is reported as (-2). *)
From Coq Require Import ZArith NArith List Bool.
From Mpc Require Import Gen.Consts Base.Sx Base.Label Base.Aes Base.Codec Circuit.Circuit Circuit.Garble
     Circuit.RunC01 Proto.Session Proto.RunC02 Proto.Conn Proto.SessionRx.
Import ListNotations.

Definition run_c16 (inp : sx) : sx :=
  let key := getLN (nthx 0 inp) in
  let c := circ2_of_sx inp in
  let rl := getLN (nthx 5 inp) in
  let rnd := fun i => nth i rl 0%N in
  let returned := getLN (nthx 8 inp) in
  let bytes := getLN (nthx 9 inp) in
  let frags := getLN (nthx 10 inp) in
  let g := garble (pi_aes key) rnd [] (cc c) in
  let by_labels := garbler_finish c g returned in
  let by_bytes := snd (garbler_rx_result (Z.to_N p2p_readBufSize) c g
                         (r_init (mkT bytes frags false 0))) in
  let same := match by_labels, by_bytes with
              | Some a, Some b => forallb (fun p => Bool.eqb (fst p) (snd p)) (combine a b)
                                  && Nat.eqb (length a) (length b)
              | None, None => true
              | _, _ => false
              end in
  if negb same then SL [SZ (-2)] else
  match by_bytes with
  | Some bits => SL [SZ 0; ofLN (garbler_result c bits)]
  | None => SL [SZ (-1)]
  end.
