(* MeshFixedProof.v — the inductive invariant of the mesh model of the code as
   it is now ([fixed = true] in Mesh.v: acceptConn stores the connection and
   decrements need[c] in one critical section): all n >= 2, all 1 <= k <= 256,
   all schedules, all prefixes. *)
From Coq Require Import Arith List Bool PeanoNat Lia Sorted.
From Mpc Require Import Proto.Mesh.
Import ListNotations.

(* ---------------- list helpers *)
Lemma upd_same {A} (f : nat -> A) i v : upd f i v i = v.
Proof. unfold upd. now rewrite Nat.eqb_refl. Qed.
Lemma upd_other {A} (f : nat -> A) i j v : j <> i -> upd f i v j = f j.
Proof. unfold upd. intros H. apply Nat.eqb_neq in H. now rewrite H. Qed.

Definition sorted := StronglySorted lt.

Lemma memb_In x l : memb x l = true <-> In x l.
Proof.
  unfold memb. rewrite existsb_exists. split.
  - intros (y & Hy & E). apply Nat.eqb_eq in E. now subst.
  - intros H. exists x. split; [assumption|apply Nat.eqb_refl].
Qed.

Lemma insert_sorted_in x y l : In x (insert_sorted y l) <-> x = y \/ In x l.
Proof.
  induction l as [|z r IH]; simpl.
  - intuition.
  - destruct (y <? z) eqn:E1; simpl; [intuition|].
    destruct (y =? z) eqn:E2; simpl.
    + apply Nat.eqb_eq in E2. subst. intuition.
    + rewrite IH. intuition.
Qed.

Lemma insert_sorted_sorted y l : sorted l -> sorted (insert_sorted y l).
Proof.
  unfold sorted. induction l as [|z r IH]; simpl; intros S.
  - constructor; constructor.
  - destruct (y <? z) eqn:E1.
    + apply Nat.ltb_lt in E1. constructor; [assumption|].
      inversion S; subst. constructor; [assumption|].
      eapply Forall_impl; [|eassumption]. simpl. intros; lia.
    + destruct (y =? z) eqn:E2; [assumption|].
      apply Nat.ltb_ge in E1. apply Nat.eqb_neq in E2.
      inversion S; subst. constructor; [now apply IH|].
      apply Forall_forall. intros x Hx. apply insert_sorted_in in Hx. destruct Hx as [->|Hx]; [lia|].
      rewrite Forall_forall in H2. now apply H2.
Qed.

Lemma sorted_ext l1 : forall l2, sorted l1 -> sorted l2 -> (forall x, In x l1 <-> In x l2) -> l1 = l2.
Proof.
  unfold sorted. induction l1 as [|a r1 IH]; intros [|b r2] S1 S2 H.
  - reflexivity.
  - exfalso. apply (proj2 (H b)). now left.
  - exfalso. apply (proj1 (H a)). now left.
  - inversion S1 as [|? ? S1' F1]; subst. inversion S2 as [|? ? S2' F2]; subst.
    rewrite Forall_forall in F1, F2.
    assert (a = b).
    { destruct (proj1 (H a) (or_introl eq_refl)) as [->|Ha]; [reflexivity|].
      destruct (proj2 (H b) (or_introl eq_refl)) as [->|Hb]; [reflexivity|].
      specialize (F1 _ Hb). specialize (F2 _ Ha). lia. }
    subst b. f_equal. apply IH; try assumption.
    intros x. split; intros Hx.
    + destruct (proj1 (H x) (or_intror Hx)) as [->|]; [|assumption]. specialize (F1 _ Hx). lia.
    + destruct (proj2 (H x) (or_intror Hx)) as [->|]; [|assumption]. specialize (F2 _ Hx). lia.
Qed.

Lemma seq_sorted s n : sorted (seq s n).
Proof.
  unfold sorted. revert s. induction n as [|n IH]; intros s; simpl; constructor.
  - apply IH.
  - apply Forall_forall. intros x Hx. apply in_seq in Hx. lia.
Qed.

Lemma filter_sorted f l : sorted l -> sorted (filter f l).
Proof.
  unfold sorted. induction l as [|a r IH]; simpl; intros S; [constructor|].
  inversion S; subst. destruct (f a).
  - constructor; [now apply IH|]. apply Forall_forall. intros x Hx.
    apply filter_In in Hx. rewrite Forall_forall in H2. now apply H2.
  - now apply IH.
Qed.

Lemma sorted_NoDup l : sorted l -> NoDup l.
Proof.
  unfold sorted. induction l as [|a r IH]; intros S; constructor; inversion S; subst.
  - intros Hin. rewrite Forall_forall in H2. specialize (H2 _ Hin). lia.
  - now apply IH.
Qed.

Lemma filter_len_le {A} (f : A -> bool) l : length (filter f l) <= length l.
Proof. induction l as [|a r IH]; simpl; [lia|]. destruct (f a); simpl; lia. Qed.

Lemma filter_len_full {A} (f : A -> bool) l :
  length (filter f l) = length l -> forall x, In x l -> f x = true.
Proof.
  induction l as [|a r IH]; simpl; intros H x Hx; [contradiction|].
  destruct (f a) eqn:E; simpl in H.
  - destruct Hx as [->|Hx]; [assumption|]. apply IH; [lia|assumption].
  - pose proof (filter_len_le f r). lia.
Qed.

Lemma filter_len_flip (f g : nat -> bool) l id :
  NoDup l -> In id l -> f id = false -> g id = true -> (forall x, x <> id -> g x = f x) ->
  length (filter g l) = S (length (filter f l)).
Proof.
  induction l as [|a r IH]; simpl; intros ND Hin Hf Hg Hext; [contradiction|].
  inversion ND; subst. destruct Hin as [->|Hin].
  - rewrite Hf, Hg. simpl. f_equal. f_equal. apply filter_ext_in.
    intros x Hx. apply Hext. intros ->. contradiction.
  - assert (a <> id) by (intros ->; contradiction).
    rewrite (Hext a H). destruct (f a); simpl; rewrite IH; auto.
Qed.

Lemma filter_len_same (f g : nat -> bool) l :
  (forall x, In x l -> g x = f x) -> length (filter g l) = length (filter f l).
Proof. intros H. f_equal. now apply filter_ext_in. Qed.

(* ---------------- the invariant *)
Section Inv.
Variables n k : nat.
Hypothesis Hn : 2 <= n.
Hypothesis Hk : 1 <= k.

(* number of inbound connections per connection id party i expects: the
   leader from everybody, party i > 0 from the parties 1..i-1 *)
Definition E i := if i =? 0 then n - 1 else i - 1.
Definition aside i := seq 1 (E i).
Definition stored (t : table) c j := match t j c with Some _ => true | None => false end.
Definition cnt t i c := length (filter (stored t c) (aside i)).
Definition others j := filter (fun x => negb (x =? 0) && negb (x =? j)) (seq 0 n).
Definition full t i c := forall j, In j (aside i) -> stored t c j = true.
Definition dialed t i c := forall j, In j (targets i c (seq 0 n)) -> stored t c j = true.
Definition running a := match a with AOff | ADead _ => False | _ => True end.
Definition tab_le (t t' : table) := forall j c, stored t c j = true -> stored t' c j = true.

Definition link_ok (r : linkrec) :=
  1 <= l_from r /\ l_from r < n /\ l_to r < n /\ (l_to r = 0 \/ l_from r < l_to r) /\
  (forall c id, l_hello r = Some (c, id) -> id = l_from r /\ c < k) /\
  (forall ids, l_info r = Some ids -> ids = others (l_from r)).

Definition main_ok i (p : party) : Prop :=
  let t := p_conns p in
  match p_main p with
  | MStart => p_acc p = AOff /\ (forall j c, t j c = None) /\ (i = 0 -> p_peers p = [0])
  | MHello | MRecvInfo =>
      i <> 0 /\ p_acc p = AOff /\ (forall j c, (j = 0 /\ c = 0) \/ t j c = None) /\
      stored t 0 0 = true /\ p_peers p = [0; i]
  | MDial c ts =>
      i <> 0 /\ p_acc p <> AOff /\ p_peers p = seq 0 n /\ stored t 0 0 = true /\ c < k /\
      (forall c', c' < c -> full t i c' /\ dialed t i c') /\
      (forall j, In j (targets i c (seq 0 n)) -> ~ In j ts -> stored t c j = true) /\
      (forall j, In j ts -> In j (targets i c (seq 0 n)))
  | MWait c =>
      p_acc p <> AOff /\ c < k /\ (forall c', c' < c -> full t i c') /\
      (i <> 0 -> p_peers p = seq 0 n /\ stored t 0 0 = true /\ forall c', c' <= c -> dialed t i c')
  | MInfo => i = 0 /\ p_acc p <> AOff /\ full t i 0
  | MDone =>
      (forall c, c < k -> full t i c) /\
      (i <> 0 -> p_peers p = seq 0 n /\ stored t 0 0 = true /\ forall c, c < k -> dialed t i c)
  | MErr _ => True
  end.

Record PInv (nl : nat) (lk : nat -> linkrec) (i : nat) (p : party) : Prop := {
  pi_queue : forall l, In l (p_queue p) -> l < nl /\ l_to (lk l) = i;
  pi_sorted : sorted (p_peers p);
  pi_bound : forall x, In x (p_peers p) -> x < n;
  pi_zero : i = 0 -> In 0 (p_peers p) /\ p_np p = n;
  pi_p3 : forall j c, ~ In j (p_peers p) -> p_conns p j c = None;
  pi_conn : forall j c l, p_conns p j c = Some l ->
      l < nl /\ ((l_from (lk l) = i /\ l_to (lk l) = j) \/ (l_from (lk l) = j /\ l_to (lk l) = i));
  pi_acc : match p_acc p with
           | ASet l c id =>
               In id (aside i) /\ c < k /\ l < nl /\ l_from (lk l) = id /\ l_to (lk l) = i
           | AAdd _ _ _ => False
           | _ => True end;
  pi_need : running (p_acc p) -> forall c, c < k ->
      p_need p c + cnt (p_conns p) i c = E i;
  pi_dead : match p_acc p with ADead _ => p_ldone p = true | _ => True end;
  pi_main : main_ok i p;
  pi_ret : forall ps t, p_ret p = Some (ps, t) -> tab_complete n k i ps t = true;
  pi_done : p_main p = MDone -> p_ret p <> None
}.

Definition Inv (st : state) : Prop :=
  (forall l, l < g_nlinks st -> link_ok (g_link st l)) /\
  (forall i, i < n -> PInv (g_nlinks st) (g_link st) i (g_party st i)).

(* ---- small facts *)
Lemma in_aside i j : In j (aside i) <-> 1 <= j /\ j < 1 + E i.
Proof. unfold aside. rewrite in_seq. lia. Qed.

Lemma aside_len i : length (aside i) = E i.
Proof. unfold aside. apply seq_length. Qed.

Lemma aside_lt i j : i < n -> In j (aside i) -> 1 <= j /\ j < n /\ (i <> 0 -> j < i).
Proof.
  intros Hi H. apply in_aside in H. unfold E in H. destruct (i =? 0) eqn:E0.
  - apply Nat.eqb_eq in E0. lia.
  - apply Nat.eqb_neq in E0. lia.
Qed.

Lemma in_targets i c j ps : In j (targets i c ps) <-> In j ps /\ (if j =? 0 then c <> 0 else i < j).
Proof.
  unfold targets. rewrite filter_In. destruct (j =? 0).
  - rewrite negb_true_iff, Nat.eqb_neq. tauto.
  - rewrite Nat.ltb_lt. tauto.
Qed.

Lemma cnt_le t i c : cnt t i c <= E i.
Proof. unfold cnt. rewrite <- (aside_len i). apply filter_len_le. Qed.

Lemma cnt_full t i c : cnt t i c = E i -> full t i c.
Proof. unfold cnt, full. intros H. apply filter_len_full. now rewrite aside_len. Qed.

Lemma filter_none {A} (f : A -> bool) l : (forall x, In x l -> f x = false) -> filter f l = [].
Proof.
  induction l as [|a r IH]; simpl; intros H; [reflexivity|].
  rewrite (H a (or_introl eq_refl)). apply IH. intros x Hx. apply H. now right.
Qed.

Lemma cnt_zero t i c : (forall j, In j (aside i) -> t j c = None) -> cnt t i c = 0.
Proof.
  intros H. unfold cnt. rewrite filter_none; [reflexivity|].
  intros j Hj. unfold stored. now rewrite H.
Qed.

Lemma tab_le_refl t : tab_le t t.
Proof. intros j c H; exact H. Qed.

Lemma stored_set_conn t id c l c' j :
  stored (set_conn t id c l) c' j = if (j =? id) && (c' =? c) then true else stored t c' j.
Proof.
  unfold stored, set_conn, upd. destruct (j =? id) eqn:E1; simpl; [|reflexivity].
  apply Nat.eqb_eq in E1. subst. destruct (c' =? c); reflexivity.
Qed.

Lemma tab_le_set_conn t id c l : tab_le t (set_conn t id c l).
Proof. intros j c' H. rewrite stored_set_conn. destruct ((j =? id) && (c' =? c)); auto. Qed.

Lemma main_ok_mono i p p' :
  p_main p' = p_main p -> p_acc p <> AOff -> p_acc p' <> AOff ->
  tab_le (p_conns p) (p_conns p') -> (p_peers p = seq 0 n -> p_peers p' = seq 0 n) ->
  main_ok i p -> main_ok i p'.
Proof.
  intros Hm Ha Ha' Hle Hps. unfold main_ok. rewrite Hm.
  assert (F : forall c, full (p_conns p) i c -> full (p_conns p') i c)
    by (intros c H j Hj; apply Hle; now apply H).
  assert (D : forall c, dialed (p_conns p) i c -> dialed (p_conns p') i c)
    by (intros c H j Hj; apply Hle; now apply H).
  destruct (p_main p); try tauto.
  - intros (H1 & H2 & H3 & H4 & H5 & H6 & H7 & H8).
    split; [assumption|]. split; [assumption|]. split; [now apply Hps|]. split; [now apply Hle|].
    split; [assumption|]. split; [|split].
    + intros c' Hc'. destruct (H6 c' Hc'). split; [now apply F|now apply D].
    + intros j Hj Hnj. apply Hle. now apply H7.
    + assumption.
  - intros (H1 & H2 & H3 & H4). split; [assumption|]. split; [assumption|]. split.
    + intros c' Hc'. apply F. now apply H3.
    + intros Hi. destruct (H4 Hi) as (A & B & C). split; [now apply Hps|]. split; [now apply Hle|].
      intros c' Hc'. apply D. now apply C.
  - intros (H1 & H2 & H3). split; [assumption|]. split; [assumption|]. now apply F.
  - intros (H1 & H2). split.
    + intros c Hc. apply F. now apply H1.
    + intros Hi. destruct (H2 Hi) as (A & B & C). split; [now apply Hps|]. split; [now apply Hle|].
      intros c' Hc'. apply D. now apply C.
Qed.

Lemma tab_complete_intro i ps t :
  ps = seq 0 n -> (forall j c, j < n -> j <> i -> c < k -> stored t c j = true) ->
  tab_complete n k i ps t = true.
Proof.
  intros -> H. unfold tab_complete. apply andb_true_iff. split.
  - destruct (list_eq_dec Nat.eq_dec (seq 0 n) (seq 0 n)); [reflexivity|contradiction].
  - apply forallb_forall. intros j Hj. apply in_seq in Hj.
    destruct (j =? i) eqn:Eji; [reflexivity|]. simpl. apply Nat.eqb_neq in Eji.
    apply forallb_forall. intros c Hc. apply in_seq in Hc.
    specialize (H j c). unfold stored in H. destruct (t j c); [reflexivity|]. apply H; lia.
Qed.

(* ---- frame lemmas *)
Lemma PInv_frame nl lk nl' lk' i p :
  PInv nl lk i p -> nl <= nl' ->
  (forall l, l < nl -> l_from (lk' l) = l_from (lk l) /\ l_to (lk' l) = l_to (lk l)) ->
  PInv nl' lk' i p.
Proof.
  intros [] Hle Hsame. constructor; auto.
  - intros l Hl. destruct (pi_queue0 l Hl) as (A & B). split; [lia|]. now rewrite (proj2 (Hsame l A)).
  - intros j c l Hl. destruct (pi_conn0 j c l Hl) as (A & B). split; [lia|].
    destruct (Hsame l A) as (-> & ->). exact B.
  - destruct (p_acc p); auto. destruct pi_acc0 as (A & B & C & D & F).
    destruct (Hsame _ C) as (R1 & R2). rewrite R1, R2. repeat split; auto; lia.
Qed.

Lemma PInv_enqueue nl lk i p l :
  PInv nl lk i p -> l < nl -> l_to (lk l) = i -> PInv nl lk i (set_queue p (p_queue p ++ [l])).
Proof.
  intros [] Hl Ht. constructor; simpl; auto.
  intros l' Hin. apply in_app_or in Hin. destruct Hin as [Hin|[<-|[]]]; auto.
Qed.

Lemma Inv_intro st st' i :
  Inv st -> i < n ->
  g_nlinks st <= g_nlinks st' ->
  (forall l, l < g_nlinks st ->
     l_from (g_link st' l) = l_from (g_link st l) /\ l_to (g_link st' l) = l_to (g_link st l)) ->
  (forall l, l < g_nlinks st' -> link_ok (g_link st' l)) ->
  (forall i', i' < n -> i' <> i ->
     g_party st' i' = g_party st i' \/
     exists l, g_party st' i' = set_queue (g_party st i') (p_queue (g_party st i') ++ [l]) /\
               l < g_nlinks st' /\ l_to (g_link st' l) = i') ->
  PInv (g_nlinks st') (g_link st') i (g_party st' i) ->
  Inv st'.
Proof.
  intros (HL & HP) Hi Hle Hsame HL' Hoth Hme. split; [exact HL'|].
  intros i' Hi'. destruct (Nat.eq_dec i' i) as [->|Hne]; [exact Hme|].
  destruct (Hoth i' Hi' Hne) as [->|(l & -> & A & B)].
  - eapply PInv_frame; eauto.
  - apply PInv_enqueue; auto. eapply PInv_frame; eauto.
Qed.

(* only party i's record changes *)
Lemma Inv_local st i p' :
  Inv st -> i < n -> PInv (g_nlinks st) (g_link st) i p' -> Inv (set_party st i p').
Proof.
  intros HI Hi Hp.
  apply (Inv_intro st (set_party st i p') i); simpl;
    [assumption|assumption|lia|intros; split; reflexivity|apply HI| |].
  - intros i' _ Hne. left. now apply upd_other.
  - now rewrite upd_same.
Qed.

Lemma PInv_err nl lk i p code : PInv nl lk i p -> PInv nl lk i (set_main p (MErr code)).
Proof.
  intros []. constructor; simpl; auto.
  - unfold main_ok. simpl. exact I.
  - discriminate.
Qed.

Lemma PInv_np_err nl lk i p np code : i <> 0 -> PInv nl lk i p -> PInv nl lk i (set_main (set_np p np) (MErr code)).
Proof.
  intros Hi []. constructor; simpl; auto.
  - intros ->. contradiction.
  - unfold main_ok. simpl. exact I.
  - discriminate.
Qed.


(* ---------------- the accept thread (patched order) preserves the invariant *)
Lemma seq_NoDup' s m : NoDup (seq s m).
Proof. apply sorted_NoDup, seq_sorted. Qed.

Lemma acc_step_inv i st st' : i < n -> Inv st -> acc_step true k i st = Some st' -> Inv st'.
Proof.
  intros Hi HI. pose proof HI as (HL & HP). pose proof (HP i Hi) as P.
  unfold acc_step. set (p := g_party st i) in *.
  destruct (p_acc p) eqn:Ha; try discriminate.
  - (* AIdle: Accept + hello + goroutine-local SetConn *)
    destruct (p_queue p) as [|l q] eqn:Hq; [discriminate|].
    assert (Hl : l < g_nlinks st /\ l_to (g_link st l) = i)
      by (apply (pi_queue _ _ _ _ P); rewrite Hq; now left).
    destruct Hl as (Hl & Hto). pose proof (HL l Hl) as (L1 & L2 & L3 & L4 & L5 & L6).
    destruct (l_hello (g_link st l)) as [[c id]|] eqn:Hh; [|discriminate].
    destruct (L5 c id eq_refl) as (-> & Hc).
    assert (Hq' : forall l', In l' q -> l' < g_nlinks st /\ l_to (g_link st l') = i)
      by (intros l' Hl'; apply (pi_queue _ _ _ _ P); rewrite Hq; now right).
    destruct (k <=? c).
    { intros [= <-]. apply Inv_local; auto. destruct P. constructor; simpl; auto.
      - intros [].
      - eapply main_ok_mono; try eassumption; simpl; auto.
        + rewrite Ha. discriminate.
        + discriminate.
        + apply tab_le_refl. }
    intros [= <-]. apply Inv_local; auto. destruct P. constructor; simpl; auto.
    + split; [|auto]. apply in_aside. unfold E. destruct (i =? 0) eqn:E0.
      * apply Nat.eqb_eq in E0. lia.
      * apply Nat.eqb_neq in E0. lia.
    + intros _ c' Hc'. rewrite Ha in pi_need0. simpl in pi_need0. now apply pi_need0.
    + eapply main_ok_mono; try eassumption; simpl; auto.
      * rewrite Ha. discriminate.
      * discriminate.
      * apply tab_le_refl.
  - (* ASet: the one critical section: need[c] != 0, addPeerLocked, need[c]--, Broadcast *)
    assert (Hdead : forall code, Inv (set_party st i (acc_dead p code))).
    { intros code. apply Inv_local; auto. destruct P. constructor; simpl; auto.
      - intros [].
      - eapply main_ok_mono; try eassumption; simpl; auto.
        + rewrite Ha. discriminate.
        + discriminate.
        + apply tab_le_refl. }
    pose proof (pi_acc _ _ _ _ P) as PA. rewrite Ha in PA. destruct PA as (Hid & Hc & Hl & Hfrom & Hto).
    pose proof (aside_lt i id Hi Hid) as (Id1 & Id2 & Id3).
    destruct (p_need p c =? 0) eqn:Hnz; [intros [= <-]; apply Hdead|]. apply Nat.eqb_neq in Hnz.
    unfold add_peer. destruct (p_np p <=? id); [intros [= <-]; apply Hdead|].
    destruct (memb id (p_peers p)) eqn:Hmem.
    + (* known peer: old.SetConn *)
      destruct (p_conns p id c) eqn:Hslot; [intros [= <-]; apply Hdead|].
      intros [= <-]. apply Inv_local; auto. destruct P. rewrite Ha in *. constructor; simpl; auto.
      * intros j c' Hj. unfold set_conn, upd. destruct (j =? id) eqn:Ej.
        -- apply Nat.eqb_eq in Ej. subst. apply memb_In in Hmem. contradiction.
        -- now apply pi_p4.
      * intros j c' l0. unfold set_conn, upd. destruct (j =? id) eqn:Ej.
        -- apply Nat.eqb_eq in Ej. subst j. destruct (c' =? c) eqn:Ec.
           ++ intros [= <-]. split; [assumption|]. right. split; assumption.
           ++ apply pi_conn0.
        -- apply pi_conn0.
      * intros _ c' Hc'. simpl in pi_need0. specialize (pi_need0 I c' Hc'). unfold upd at 1.
        destruct (c' =? c) eqn:Ec.
        -- apply Nat.eqb_eq in Ec. subst c'. unfold cnt in *.
           rewrite (filter_len_flip (stored (p_conns p) c) (stored (set_conn (p_conns p) id c l) c) (aside i) id).
           ++ lia.
           ++ apply seq_NoDup'.
           ++ assumption.
           ++ unfold stored. now rewrite Hslot.
           ++ rewrite stored_set_conn. now rewrite !Nat.eqb_refl.
           ++ intros x Hx. rewrite stored_set_conn. apply Nat.eqb_neq in Hx. now rewrite Hx.
        -- unfold cnt in *. rewrite (filter_len_same (stored (p_conns p) c') (stored (set_conn (p_conns p) id c l) c')).
           ++ lia.
           ++ intros x _. rewrite stored_set_conn. rewrite Ec. now rewrite andb_false_r.
      * eapply main_ok_mono; try eassumption; simpl; auto.
        -- rewrite Ha. discriminate.
        -- discriminate.
        -- apply tab_le_set_conn.
    + (* new peer: append + sort *)
      assert (Hnin : ~ In id (p_peers p)) by (intros H; apply memb_In in H; congruence).
      intros [= <-]. apply Inv_local; auto. destruct P. rewrite Ha in *.
      assert (Hnone : forall c', p_conns p id c' = None) by (intros c'; now apply pi_p4).
      assert (Hst : forall c' j, stored (upd (p_conns p) id (upd (fun _ => None) c (Some l))) c' j
                    = if (j =? id) && (c' =? c) then true else stored (p_conns p) c' j).
      { intros c' j. unfold stored, upd. destruct (j =? id) eqn:Ej; simpl; [|reflexivity].
        apply Nat.eqb_eq in Ej. subst j. rewrite Hnone. destruct (c' =? c); reflexivity. }
      constructor; simpl; auto.
      * now apply insert_sorted_sorted.
      * intros x Hx. apply insert_sorted_in in Hx. destruct Hx as [->|Hx]; auto.
      * intros H0. destruct (pi_zero0 H0). split; [|assumption]. apply insert_sorted_in. now right.
      * intros j c' Hj. unfold upd. destruct (j =? id) eqn:Ej.
        -- apply Nat.eqb_eq in Ej. subst. exfalso. apply Hj. apply insert_sorted_in. now left.
        -- apply pi_p4. intros H. apply Hj. apply insert_sorted_in. now right.
      * intros j c' l0. unfold upd. destruct (j =? id) eqn:Ej.
        -- apply Nat.eqb_eq in Ej. subst j. destruct (c' =? c) eqn:Ec.
           ++ intros [= <-]. split; [assumption|]. right. split; assumption.
           ++ discriminate.
        -- apply pi_conn0.
      * intros _ c' Hc'. simpl in pi_need0. specialize (pi_need0 I c' Hc'). unfold upd at 1.
        destruct (c' =? c) eqn:Ec.
        -- apply Nat.eqb_eq in Ec. subst c'. unfold cnt in *.
           rewrite (filter_len_flip (stored (p_conns p) c) (stored (upd (p_conns p) id (upd (fun _ => None) c (Some l))) c) (aside i) id).
           ++ lia.
           ++ apply seq_NoDup'.
           ++ assumption.
           ++ unfold stored. now rewrite Hnone.
           ++ rewrite Hst. now rewrite !Nat.eqb_refl.
           ++ intros x Hx. rewrite Hst. apply Nat.eqb_neq in Hx. now rewrite Hx.
        -- unfold cnt in *. rewrite (filter_len_same (stored (p_conns p) c') (stored (upd (p_conns p) id (upd (fun _ => None) c (Some l))) c')).
           ++ lia.
           ++ intros x _. rewrite Hst. rewrite Ec. now rewrite andb_false_r.
      * eapply main_ok_mono; try eassumption; simpl; auto.
        -- rewrite Ha. discriminate.
        -- discriminate.
        -- intros j c' H. rewrite Hst. destruct ((j =? id) && (c' =? c)); auto.
        -- intros Hps. exfalso. apply Hnin. rewrite Hps. apply in_seq. lia.
  - (* AAdd: not reachable in this variant *)
    exfalso. pose proof (pi_acc _ _ _ _ P) as PA. rewrite Ha in PA. exact PA.
Qed.

(* ---------------- the main thread preserves the invariant *)
Ltac psimpl := cbn [p_queue p_peers p_conns p_main p_acc p_need p_np p_ldone p_ret
                    set_main set_acc set_queue set_need set_tab set_np main_done acc_dead
                    g_party g_link g_nlinks set_party set_hello set_info l_from l_to l_hello l_info].

Ltac psimpl_all := cbn [p_queue p_peers p_conns p_main p_acc p_need p_np p_ldone p_ret
                    set_main set_acc set_queue set_need set_tab set_np main_done acc_dead
                    g_party g_link g_nlinks set_party set_hello set_info l_from l_to l_hello l_info] in *.

Lemma others_spec j x : In x (others j) <-> x < n /\ x <> 0 /\ x <> j.
Proof.
  unfold others. rewrite filter_In, in_seq, andb_true_iff, !negb_true_iff, !Nat.eqb_neq. lia.
Qed.

Lemma add_ids_spec np ids : forall ps ps', add_ids np ids ps = Some ps' ->
  (forall x, In x ps' <-> In x ids \/ In x ps) /\ (sorted ps -> sorted ps').
Proof.
  induction ids as [|a r IH]; simpl; intros ps ps' H.
  - injection H as <-. split; [intuition|auto].
  - destruct (np <=? a); [discriminate|]. destruct (IH _ _ H) as (A & B). split.
    + intros x. rewrite A, insert_sorted_in. intuition.
    + intros S. apply B. now apply insert_sorted_sorted.
Qed.

Lemma num_accept i : i < n -> i <> 0 -> length (filter (fun id => id <? i) (others i)) = E i.
Proof.
  intros Hi H0. rewrite <- (aside_len i). f_equal. apply sorted_ext.
  - apply filter_sorted. unfold others. apply filter_sorted, seq_sorted.
  - apply seq_sorted.
  - intros x. rewrite filter_In, others_spec, Nat.ltb_lt, in_aside. unfold E.
    apply Nat.eqb_neq in H0. rewrite H0. apply Nat.eqb_neq in H0. lia.
Qed.

(* the table is complete once every inbound and every dialled connection is stored *)
Lemma done_complete nl lk i p :
  i < n -> PInv nl lk i p ->
  (forall c, c < k -> full (p_conns p) i c) ->
  (i <> 0 -> p_peers p = seq 0 n /\ stored (p_conns p) 0 0 = true /\ forall c, c < k -> dialed (p_conns p) i c) ->
  tab_complete n k i (p_peers p) (p_conns p) = true.
Proof.
  intros Hi P HF HD. apply tab_complete_intro.
  - destruct (Nat.eq_dec i 0) as [->|Hne]; [|now apply HD].
    apply sorted_ext; [apply (pi_sorted _ _ _ _ P)|apply seq_sorted|].
    intros x. rewrite in_seq. split; [intros Hx; pose proof (pi_bound _ _ _ _ P x Hx); lia|].
    intros Hx. destruct (Nat.eq_dec x 0) as [->|Hx0]; [now apply (pi_zero _ _ _ _ P)|].
    destruct (in_dec Nat.eq_dec x (p_peers p)) as [|Hnx]; [assumption|exfalso].
    assert (Hs : stored (p_conns p) 0 x = true).
    { apply (HF 0); [lia|]. apply in_aside. unfold E. simpl. lia. }
    unfold stored in Hs. rewrite (pi_p3 _ _ _ _ P x 0 Hnx) in Hs. discriminate.
  - intros j c Hj Hji Hc. destruct (Nat.lt_ge_cases j i) as [Hlt|Hge].
    + destruct (Nat.eq_dec j 0) as [->|Hj0].
      * assert (Hi0 : i <> 0) by lia. destruct (HD Hi0) as (_ & S0 & D).
        destruct (Nat.eq_dec c 0) as [->|Hc0]; [assumption|].
        apply (D c Hc). apply in_targets. split; [apply in_seq; lia|]. simpl. assumption.
      * apply (HF c Hc). apply in_aside. unfold E. destruct (i =? 0) eqn:E0.
        -- apply Nat.eqb_eq in E0. lia.
        -- lia.
    + destruct (Nat.eq_dec i 0) as [->|Hi0].
      * apply (HF c Hc). apply in_aside. unfold E. simpl. lia.
      * destruct (HD Hi0) as (_ & _ & D). apply (D c Hc). apply in_targets.
        split; [apply in_seq; lia|]. destruct (j =? 0) eqn:Ej; [apply Nat.eqb_eq in Ej; lia|lia].
Qed.

(* the step taken when the wait for connection id c has succeeded *)
Lemma next_conn_inv nl lk i p c :
  i < n -> PInv nl lk i p -> p_acc p <> AOff -> c < k ->
  (forall c', c' <= c -> full (p_conns p) i c') ->
  (i <> 0 -> p_peers p = seq 0 n /\ stored (p_conns p) 0 0 = true /\ forall c', c' <= c -> dialed (p_conns p) i c') ->
  PInv nl lk i (next_conn k i c p).
Proof.
  intros Hi P Ha Hc HF HD. unfold next_conn. destruct (S c <? k) eqn:Ek.
  - apply Nat.ltb_lt in Ek. destruct (i =? 0) eqn:E0.
    + apply Nat.eqb_eq in E0. destruct P as [Q1 Q2 Q3 Q4 Q5 Q6 Q7 Q8 Q9 Q10 Q11 Q12]. constructor; psimpl; auto.
      * unfold main_ok. psimpl. split; [assumption|]. split; [assumption|]. split.
        -- intros c' Hc'. apply HF. lia.
        -- intros H. contradiction.
      * discriminate.
    + apply Nat.eqb_neq in E0. destruct (HD E0) as (D1 & D2 & D3).
      destruct P as [Q1 Q2 Q3 Q4 Q5 Q6 Q7 Q8 Q9 Q10 Q11 Q12]. constructor; psimpl; auto.
      * unfold main_ok. psimpl. split; [assumption|]. split; [assumption|]. split; [assumption|].
        split; [assumption|]. split; [assumption|]. split; [|split].
        -- intros c' Hc'. split; [apply HF; lia|apply D3; lia].
        -- intros j Hj Hnj. exfalso. apply Hnj. now rewrite D1.
        -- intros j Hj. now rewrite D1 in Hj.
      * discriminate.
  - apply Nat.ltb_ge in Ek.
    assert (TC : tab_complete n k i (p_peers p) (p_conns p) = true).
    { eapply done_complete; eauto.
      - intros c' Hc'. apply HF. lia.
      - intros H. destruct (HD H) as (D1 & D2 & D3). repeat split; auto. intros c' Hc'. apply D3. lia. }
    destruct P as [Q1 Q2 Q3 Q4 Q5 Q6 Q7 Q8 Q9 Q10 Q11 Q12]. constructor; psimpl; auto.
    + unfold main_ok. psimpl. split.
      * intros c' Hc'. apply HF. lia.
      * intros H. destruct (HD H) as (D1 & D2 & D3). repeat split; auto. intros c' Hc'. apply D3. lia.
    + intros ps t [= <- <-]. exact TC.
    + discriminate.
Qed.

Hypothesis Hk256 : k <= 256.

Lemma send_infos_spec (tab : table) nl : forall ps st st1,
  g_nlinks st = nl ->
  (forall l, l < nl -> link_ok (g_link st l)) ->
  (forall j l, In j ps -> tab j 0 = Some l -> l < nl /\ l_from (g_link st l) = j) ->
  send_infos st tab (seq 0 n) ps = Some st1 ->
  g_party st1 = g_party st /\ g_nlinks st1 = nl /\
  (forall l, l_from (g_link st1 l) = l_from (g_link st l) /\ l_to (g_link st1 l) = l_to (g_link st l)) /\
  (forall l, l < nl -> link_ok (g_link st1 l)).
Proof.
  induction ps as [|j r IH]; simpl; intros st st1 Hnl HL HT H.
  - injection H as <-. split; [reflexivity|]. split; [assumption|].
    split; [intros; split; reflexivity|assumption].
  - destruct (j =? 0).
    + apply IH in H; auto.
    + destruct (tab j 0) as [l|] eqn:Hl; [|discriminate].
      destruct (HT j l (or_introl eq_refl) Hl) as (A & B).
      apply IH in H.
      * destruct H as (H1 & H2 & H3 & H4). psimpl_all.
        split; [assumption|]. split; [assumption|]. split; [|assumption].
        intros l0. destruct (H3 l0) as (R1 & R2). rewrite R1, R2. unfold upd.
        destruct (l0 =? l) eqn:El; [apply Nat.eqb_eq in El; subst|]; psimpl; split; reflexivity.
      * assumption.
      * intros l0 Hl0. unfold set_info, upd. psimpl.
        destruct (l0 =? l) eqn:El; [|now apply HL]. apply Nat.eqb_eq in El. subst l0.
        destruct (HL l A) as (L1 & L2 & L3 & L4 & L5 & L6). unfold link_ok. psimpl.
        split; [assumption|]. split; [assumption|]. split; [assumption|]. split; [assumption|].
        split; [assumption|]. intros ids [= <-]. rewrite B. reflexivity.
      * intros j' l0 Hj' Hl0. destruct (HT j' l0 (or_intror Hj') Hl0) as (A' & B'). split; [assumption|].
        unfold set_info, upd. psimpl. destruct (l0 =? l) eqn:El; psimpl; [apply Nat.eqb_eq in El; subst l0|assumption].
        exact B'.
Qed.

Lemma main_step_inv i st st' : i < n -> Inv st -> main_step n k i st = Some st' -> Inv st'.
Proof.
  intros Hi HI. pose proof HI as (HL & HP). pose proof (HP i Hi) as P.
  pose proof (pi_main _ _ _ _ P) as PM. unfold main_ok in PM.
  unfold main_step. destruct (p_main (g_party st i)) eqn:Hm.
  - (* MStart *)
    destruct PM as (PA & PN & PP). destruct (i =? 0) eqn:E0.
    + (* leader: Connect *)
      apply Nat.eqb_eq in E0. intros [= <-]. apply Inv_local; auto.
      destruct P as [Q1 Q2 Q3 Q4 Q5 Q6 Q7 Q8 Q9 Q10 Q11 Q12]. constructor; psimpl; auto.
      * intros _ c Hc. apply Nat.ltb_lt in Hc. rewrite Hc. destruct (Q4 E0) as (_ & ->).
        rewrite cnt_zero by (intros; apply PN). unfold E. rewrite E0. simpl. lia.
      * unfold main_ok. psimpl. split; [discriminate|]. split; [lia|]. split; [intros; lia|].
        intros H. contradiction.
      * discriminate.
    + (* Join *)
      apply Nat.eqb_neq in E0. unfold new_link. cbv beta iota zeta. intros [= <-].
      assert (Hlt : 0 <? i = true) by (apply Nat.ltb_lt; lia). rewrite Hlt.
      apply (Inv_intro st _ i); try assumption; psimpl.
      * lia.
      * intros l Hl. rewrite upd_other by lia. split; reflexivity.
      * intros l Hl. destruct (Nat.eq_dec l (g_nlinks st)) as [->|Hne].
        -- rewrite upd_same. unfold link_ok. psimpl. repeat split; try lia; try discriminate.
        -- rewrite upd_other by assumption. apply HL. lia.
      * intros i' Hi' Hne. rewrite (upd_other _ i i') by assumption.
        destruct (Nat.eq_dec i' 0) as [->|Hne0].
        -- right. exists (g_nlinks st). rewrite !upd_same. psimpl. split; [reflexivity|]. split; [lia|reflexivity].
        -- left. now apply upd_other.
      * rewrite upd_same. rewrite (upd_other _ 0 i) by assumption.
        destruct P as [Q1 Q2 Q3 Q4 Q5 Q6 Q7 Q8 Q9 Q10 Q11 Q12]. constructor; psimpl.
        -- intros l Hl. destruct (Q1 l Hl) as (A & B). split; [lia|]. rewrite upd_other by lia. assumption.
        -- unfold sorted. repeat constructor. lia.
        -- intros x [<-|[<-|[]]]; lia.
        -- intros H. contradiction.
        -- intros j c Hj. unfold set_conn, upd, no_conns. destruct (j =? 0) eqn:Ej; [|reflexivity].
           exfalso. apply Hj. left. symmetry. now apply Nat.eqb_eq.
        -- intros j c l. unfold set_conn, no_conns. unfold upd at 1. destruct (j =? 0) eqn:Ej; [|discriminate].
           unfold upd at 1. destruct (c =? 0); [|discriminate]. intros [= <-]. split; [lia|]. left.
           rewrite upd_same. psimpl. split; [reflexivity|]. symmetry. now apply Nat.eqb_eq.
        -- rewrite PA. exact I.
        -- rewrite PA. intros [].
        -- rewrite PA. exact I.
        -- unfold main_ok. psimpl. split; [assumption|]. split; [assumption|]. split; [|split].
           ++ intros j c. unfold set_conn, upd, no_conns. destruct (j =? 0) eqn:Ej; [|now right].
              destruct (c =? 0) eqn:Ec; [|now right]. left. split; now apply Nat.eqb_eq.
           ++ reflexivity.
           ++ reflexivity.
        -- exact Q11.
        -- discriminate.
  - (* MHello *)
    destruct PM as (P0 & PA & PN & PS & PP).
    destruct (p_conns (g_party st i) 0 0) as [l|] eqn:Hl.
    2:{ intros [= <-]. apply Inv_local; auto. now apply PInv_err. }
    destruct (pi_conn _ _ _ _ P 0 0 l Hl) as (Hln & Hends).
    pose proof (HL l Hln) as (L1 & L2 & L3 & L4 & L5 & L6).
    assert (Hfrom : l_from (g_link st l) = i) by (destruct Hends as [[A _]|[A _]]; [assumption|lia]).
    intros [= <-]. apply (Inv_intro st _ i); try assumption; psimpl.
    + lia.
    + intros l0 Hl0. unfold upd. destruct (l0 =? l) eqn:El; psimpl; [apply Nat.eqb_eq in El; subst|]; split; reflexivity.
    + intros l0 Hl0. unfold upd. destruct (l0 =? l) eqn:El; [|now apply HL].
      unfold link_ok. psimpl. repeat split; auto.
      * injection H as <- <-. now symmetry.
      * injection H as <- <-. lia.
    + intros i' Hi' Hne. left. now apply upd_other.
    + rewrite upd_same. eapply PInv_frame with (nl := g_nlinks st) (lk := g_link st); [|lia|].
      * destruct P as [Q1 Q2 Q3 Q4 Q5 Q6 Q7 Q8 Q9 Q10 Q11 Q12]. constructor; psimpl; auto.
        -- unfold main_ok. psimpl. repeat split; auto.
        -- discriminate.
      * intros l0 Hl0. unfold upd. destruct (l0 =? l) eqn:El; psimpl; [apply Nat.eqb_eq in El; subst|]; split; reflexivity.
  - (* MRecvInfo *)
    destruct PM as (P0 & PA & PN & PS & PP).
    destruct (p_conns (g_party st i) 0 0) as [l|] eqn:Hl.
    2:{ intros [= <-]. apply Inv_local; auto. now apply PInv_err. }
    destruct (pi_conn _ _ _ _ P 0 0 l Hl) as (Hln & Hends).
    pose proof (HL l Hln) as (L1 & L2 & L3 & L4 & L5 & L6).
    assert (Hfrom : l_from (g_link st l) = i) by (destruct Hends as [[A _]|[A _]]; [assumption|lia]).
    destruct (l_info (g_link st l)) as [ids|] eqn:Hinfo; [|discriminate].
    rewrite (L6 ids eq_refl), Hfrom.
    destruct (add_ids _ _ _) as [ps|] eqn:Hadd.
    2:{ intros [= <-]. apply Inv_local; auto. now apply PInv_np_err. }
    intros [= <-]. apply Inv_local; auto.
    destruct (add_ids_spec _ _ _ _ Hadd) as (A1 & A2).
    assert (Hps : ps = seq 0 n).
    { apply sorted_ext; [apply A2; rewrite PP; repeat constructor; lia|apply seq_sorted|].
      intros x. rewrite A1, others_spec, PP, in_seq. simpl. lia. }
    subst ps. rewrite num_accept by assumption.
    assert (Hnone : forall j c, j <> 0 -> p_conns (g_party st i) j c = None).
    { intros j c Hj. destruct (PN j c) as [[-> _]|]; [contradiction|assumption]. }
    destruct P as [Q1 Q2 Q3 Q4 Q5 Q6 Q7 Q8 Q9 Q10 Q11 Q12]. constructor; psimpl; auto.
    + intros x Hx. apply in_seq in Hx. lia.
    + intros H. contradiction.
    + intros j c Hj. apply Hnone. intros ->. apply Hj. apply in_seq. lia.
    + intros _ c Hc. apply Nat.ltb_lt in Hc. rewrite Hc. rewrite cnt_zero; [simpl; lia|].
      intros j Hj. apply Hnone. apply in_aside in Hj. lia.
    + unfold main_ok. psimpl. split; [assumption|]. split; [discriminate|]. split; [reflexivity|].
      split; [assumption|]. split; [lia|]. split; [intros; lia|]. split.
      * intros j Hj Hnj. contradiction.
      * auto.
    + discriminate.
  - (* MDial *)
    destruct PM as (P0 & PA & PP & PS & PC & PF & PD & PT).
    destruct targets as [|t ts].
    + (* loop finished *)
      intros [= <-]. apply Inv_local; auto.
      destruct P as [Q1 Q2 Q3 Q4 Q5 Q6 Q7 Q8 Q9 Q10 Q11 Q12]. constructor; psimpl; auto.
      * unfold main_ok. psimpl. split; [assumption|]. split; [assumption|]. split.
        -- intros c' Hc'. now apply PF.
        -- intros _. split; [assumption|]. split; [assumption|]. intros c' Hc'.
           destruct (Nat.eq_dec c' c) as [->|Hne].
           ++ intros j Hj. apply PD; auto.
           ++ apply PF. lia.
      * discriminate.
    + (* dial(t, c) *)
      destruct (255 <? c). { intros [= <-]. apply Inv_local; auto. now apply PInv_err. }
      destruct (n <=? t) eqn:Hnt. { intros [= <-]. apply Inv_local; auto. now apply PInv_err. }
      apply Nat.leb_gt in Hnt.
      assert (Ht : In t (targets i c (seq 0 n))) by (apply PT; now left).
      apply in_targets in Ht. destruct Ht as (_ & Ht).
      assert (Hti : t <> i) by (destruct (t =? 0) eqn:E0; [apply Nat.eqb_eq in E0; lia|lia]).
      unfold new_link. cbv beta iota zeta. psimpl. rewrite (upd_other _ t i) by auto.
      set (p := g_party st i) in *.
      assert (PF' : PInv (S (g_nlinks st)) (upd (g_link st) (g_nlinks st) (mkLink i t (Some (c, i)) None)) i p).
      { eapply PInv_frame; [exact P|lia|]. intros l Hl. rewrite upd_other by lia. split; reflexivity. }
      assert (Frame : forall p', PInv (S (g_nlinks st)) (upd (g_link st) (g_nlinks st) (mkLink i t (Some (c, i)) None)) i p' ->
                Inv (set_party (mkState (upd (g_party st) t (set_queue (g_party st t) (p_queue (g_party st t) ++ [g_nlinks st])))
                                        (upd (g_link st) (g_nlinks st) (mkLink i t (Some (c, i)) None)) (S (g_nlinks st))) i p')).
      { intros p' Hp'. apply (Inv_intro st _ i); try assumption; psimpl.
        - lia.
        - intros l Hl. rewrite upd_other by lia. split; reflexivity.
        - intros l Hl. destruct (Nat.eq_dec l (g_nlinks st)) as [->|Hne].
          + rewrite upd_same. unfold link_ok. psimpl. repeat split; try lia; try discriminate.
            * destruct (t =? 0) eqn:E0; [left; now apply Nat.eqb_eq|right; assumption].
            * injection H as <- <-. reflexivity.
            * injection H as <- <-. assumption.
          + rewrite upd_other by assumption. apply HL. lia.
        - intros i' Hi' Hne. rewrite (upd_other _ i i') by assumption.
          destruct (Nat.eq_dec i' t) as [->|Hne0].
          + right. exists (g_nlinks st). rewrite !upd_same. psimpl. split; [reflexivity|]. split; [lia|reflexivity].
          + left. now apply upd_other.
        - now rewrite upd_same. }
      destruct (p_conns p t c) eqn:Hslot.
      { intros [= <-]. apply Frame. now apply PInv_err. }
      intros [= <-]. apply Frame.
      destruct PF' as [Q1 Q2 Q3 Q4 Q5 Q6 Q7 Q8 Q9 Q10 Q11 Q12]. constructor; psimpl; auto.
      * intros j c' Hj. unfold set_conn, upd. destruct (j =? t) eqn:Ej; [|now apply Q5].
        exfalso. apply Hj. apply Nat.eqb_eq in Ej. subst j. rewrite PP. apply in_seq. lia.
      * intros j c' l0. unfold set_conn. unfold upd at 1. destruct (j =? t) eqn:Ej; [|apply Q6].
        apply Nat.eqb_eq in Ej. subst j. unfold upd at 1. destruct (c' =? c) eqn:Ec; [|apply Q6].
        intros [= <-]. split; [lia|]. left. rewrite upd_same. psimpl. split; reflexivity.
      * intros R c' Hc'. rewrite <- (Q8 R c' Hc'). f_equal. unfold cnt. apply filter_len_same.
        intros x Hx. rewrite stored_set_conn. destruct (x =? t) eqn:Ex; [|reflexivity].
        exfalso. apply Nat.eqb_eq in Ex. subst x. pose proof (aside_lt i t Hi Hx) as (X1 & X2 & X3).
        destruct (t =? 0) eqn:E0; [apply Nat.eqb_eq in E0; lia|]. specialize (X3 P0). lia.
      * unfold main_ok. psimpl. split; [assumption|]. split; [assumption|]. split; [assumption|].
        split; [now apply tab_le_set_conn|]. split; [assumption|]. split; [|split].
        -- intros c' Hc'. destruct (PF c' Hc') as (F1 & F2). split; intros j Hj; apply tab_le_set_conn; auto.
        -- intros j Hj Hnj. rewrite stored_set_conn. destruct (j =? t) eqn:Ej.
           ++ now rewrite Nat.eqb_refl.
           ++ simpl. apply PD; auto. intros [->|H]; [now rewrite Nat.eqb_refl in Ej|contradiction].
        -- intros j Hj. apply PT. now right.
      * discriminate.
  - (* MWait *)
    destruct PM as (PA & PC & PF & PD).
    destruct ((p_need (g_party st i) c =? 0) || p_ldone (g_party st i)); [|discriminate].
    destruct ((p_need (g_party st i) c =? 0) && negb (p_ldone (g_party st i))) eqn:Hok.
    2:{ intros [= <-]. apply Inv_local; auto. now apply PInv_err. }
    apply andb_true_iff in Hok. destruct Hok as (Hz & Hld). apply Nat.eqb_eq in Hz. apply negb_true_iff in Hld.
    assert (Hrun : running (p_acc (g_party st i))).
    { pose proof (pi_dead _ _ _ _ P) as D. destruct (p_acc (g_party st i)); simpl; auto; congruence. }
    pose proof (pi_need _ _ _ _ P Hrun c PC) as Hneed. rewrite Hz in Hneed.
    pose proof (cnt_le (p_conns (g_party st i)) i c) as Hle.
    assert (Hfull : full (p_conns (g_party st i)) i c) by (apply cnt_full; lia).
    assert (HF : forall c', c' <= c -> full (p_conns (g_party st i)) i c').
    { intros c' Hc'. destruct (Nat.eq_dec c' c) as [->|Hne]; [assumption|apply PF; lia]. }
    destruct ((i =? 0) && (c =? 0)) eqn:Hic.
    + apply andb_true_iff in Hic. destruct Hic as (Hi0 & Hc0). apply Nat.eqb_eq in Hi0, Hc0. subst c.
      intros [= <-]. apply Inv_local; auto.
      destruct P as [Q1 Q2 Q3 Q4 Q5 Q6 Q7 Q8 Q9 Q10 Q11 Q12]. constructor; psimpl; auto.
      * unfold main_ok. psimpl. repeat split; auto.
      * discriminate.
    + intros [= <-]. apply Inv_local; auto. apply next_conn_inv; auto.
  - (* MInfo *)
    destruct PM as (Pi0 & PA & PF). subst i.
    destruct (send_infos _ _ _ _) as [st1|] eqn:Hsend.
    2:{ intros [= <-]. apply Inv_local; auto. now apply PInv_err. }
    assert (Hpeers : p_peers (g_party st 0) = seq 0 n).
    { apply sorted_ext; [apply (pi_sorted _ _ _ _ P)|apply seq_sorted|].
      intros x. rewrite in_seq. split; [intros Hx; pose proof (pi_bound _ _ _ _ P x Hx); lia|].
      intros Hx. destruct (Nat.eq_dec x 0) as [->|Hx0]; [now apply (pi_zero _ _ _ _ P)|].
      destruct (in_dec Nat.eq_dec x (p_peers (g_party st 0))) as [|Hnx]; [assumption|exfalso].
      assert (Hs : stored (p_conns (g_party st 0)) 0 x = true).
      { apply PF. apply in_aside. unfold E. simpl. lia. }
      unfold stored in Hs. rewrite (pi_p3 _ _ _ _ P x 0 Hnx) in Hs. discriminate. }
    rewrite Hpeers in Hsend.
    apply (send_infos_spec _ (g_nlinks st)) in Hsend; auto.
    2:{ intros j l Hj Hl. destruct (pi_conn _ _ _ _ P j 0 l Hl) as (A & B). split; [assumption|].
        pose proof (HL l A) as (L1 & _). destruct B as [[B _]|[B _]]; [lia|assumption]. }
    destruct Hsend as (S1 & S2 & S3 & S4).
    intros [= <-]. apply (Inv_intro st _ 0); try assumption; psimpl.
    + lia.
    + intros l _. apply S3.
    + rewrite S2. assumption.
    + intros i' Hi' Hne. left. rewrite upd_other by assumption. now rewrite S1.
    + rewrite upd_same. rewrite S1, S2. apply next_conn_inv; auto.
      * eapply PInv_frame; [exact P|lia|]. intros l _. apply S3.
      * intros c' Hc'. assert (c' = 0) by lia. subst c'. assumption.
      * intros H. contradiction.
  - discriminate.
  - discriminate.
Qed.

(* ---------------- reachable states *)
Lemma init_inv : Inv (init n).
Proof.
  split; [simpl; intros; lia|]. intros i Hi. unfold init. psimpl. unfold init_party.
  destruct (i =? 0) eqn:E0.
  - constructor; psimpl; try (intros; contradiction); try discriminate; auto.
    + unfold sorted. repeat constructor.
    + intros x [<-|[]]. lia.
    + intros _. split; [now left|reflexivity].
    + unfold main_ok. psimpl. repeat split; auto.
  - apply Nat.eqb_neq in E0. constructor; psimpl; try (intros; contradiction); try discriminate; auto.
    + unfold sorted. constructor.
    + unfold main_ok. psimpl. repeat split; auto. intros; contradiction.
Qed.

Lemma step_inv t st st' : Inv st -> step true n k t st = Some st' -> Inv st'.
Proof.
  intros HI. unfold step. destruct (n <=? Nat.div2 t) eqn:El; [discriminate|].
  apply Nat.leb_gt in El. destruct (Nat.even t).
  - now apply main_step_inv.
  - now apply acc_step_inv.
Qed.

Lemma run_inv sched : forall st, Inv st -> Inv (run_from true n k st sched).
Proof.
  induction sched as [|t r IH]; intros st HI; [exact HI|].
  unfold run_from in *. simpl. apply IH. unfold exec.
  destruct (step true n k t st) eqn:Hs; [eapply step_inv; eauto|exact HI].
Qed.

Lemma reachable_inv sched : Inv (run_from true n k (init n) sched).
Proof. apply run_inv, init_inv. Qed.

(* Whenever Connect has returned nil at party i, the table the caller sees at
   that moment — and from then on — is complete. *)
Lemma fixed_return_complete sched i :
  i < n -> let st := run_from true n k (init n) sched in
  p_main (g_party st i) = MDone ->
  (exists ps t, p_ret (g_party st i) = Some (ps, t) /\ tab_complete n k i ps t = true) /\
  tab_complete n k i (p_peers (g_party st i)) (p_conns (g_party st i)) = true.
Proof.
  intros Hi st Hm. destruct (reachable_inv sched) as (_ & HP). specialize (HP i Hi). fold st in HP.
  split.
  - destruct (p_ret (g_party st i)) as [[ps t]|] eqn:Hr.
    + exists ps, t. split; [reflexivity|]. now apply (pi_ret _ _ _ _ HP).
    + exfalso. now apply (pi_done _ _ _ _ HP).
  - pose proof (pi_main _ _ _ _ HP) as PM. unfold main_ok in PM. rewrite Hm in PM. destruct PM as (F & D).
    eapply done_complete; eauto.
Qed.

(* The invariant F11 is about: as long as the accept goroutine runs,
   need[c] = 0 implies that every expected inbound peer is in Peers and has
   Conns[c] stored. *)
Lemma fixed_need_zero_stored sched i c :
  i < n -> c < k -> let st := run_from true n k (init n) sched in
  running (p_acc (g_party st i)) -> p_need (g_party st i) c = 0 ->
  forall j, In j (aside i) ->
    In j (p_peers (g_party st i)) /\ exists l, p_conns (g_party st i) j c = Some l.
Proof.
  intros Hi Hc st Hrun Hz j Hj. destruct (reachable_inv sched) as (_ & HP). specialize (HP i Hi). fold st in HP.
  pose proof (pi_need _ _ _ _ HP Hrun c Hc) as Hneed. rewrite Hz in Hneed.
  pose proof (cnt_le (p_conns (g_party st i)) i c) as Hle.
  assert (Hfull : full (p_conns (g_party st i)) i c) by (apply cnt_full; lia).
  specialize (Hfull j Hj). unfold stored in Hfull.
  destruct (p_conns (g_party st i) j c) as [l|] eqn:Hs; [|discriminate]. split; [|now exists l].
  destruct (in_dec Nat.eq_dec j (p_peers (g_party st i))) as [|Hnj]; [assumption|].
  rewrite (pi_p3 _ _ _ _ HP j c Hnj) in Hs. discriminate.
Qed.

(* every stored connection joins the right two parties; no accept thread ever
   dies and no wait ever returns listenerError because of one *)
Lemma fixed_conn_endpoints sched i j c l :
  i < n -> let st := run_from true n k (init n) sched in
  p_conns (g_party st i) j c = Some l ->
  l < g_nlinks st /\
  ((l_from (g_link st l) = i /\ l_to (g_link st l) = j) \/ (l_from (g_link st l) = j /\ l_to (g_link st l) = i)).
Proof.
  intros Hi st Hs. destruct (reachable_inv sched) as (_ & HP). specialize (HP i Hi). fold st in HP.
  exact (pi_conn _ _ _ _ HP j c l Hs).
Qed.

End Inv.
