(* StreamProof.v — theorems about Proto/Stream.v (property C05). *)
From Coq Require Import NArith ZArith List Bool Arith Lia FMapPositive.
From Mpc Require Import Gen.Consts Base.Label Base.Codec Base.CodecProof Circuit.Circuit Circuit.Garble
     Circuit.GGarble Lang.Gc Proto.Stream.
Import ListNotations.
Local Open Scope nat_scope.

(* ------------------------------------------------------------------ *)
(** * The gate wire format round-trips *)

Lemma take_app k (a b : list N) : length a = k -> take k (a ++ b) = Some (a, b).
Proof.
  intros H. unfold take. rewrite app_length.
  destruct (length a + length b <? k) eqn:E.
  - apply Nat.ltb_lt in E. lia.
  - f_equal. f_equal.
    + rewrite firstn_app, <- H, Nat.sub_diag, firstn_all. simpl. apply app_nil_r.
    + rewrite skipn_app, <- H, Nat.sub_diag, skipn_all. reflexivity.
Qed.

Lemma recv_int_be k x rest : (x < 256 ^ N.of_nat k)%N -> recv_int k (be k x ++ rest) = Some (x, rest).
Proof.
  intros H. unfold recv_int. rewrite take_app by apply be_length.
  rewrite of_be_be, N.mod_small by exact H. reflexivity.
Qed.

Lemma recv_labels_be rows rest :
  Forall (fun r => (r < 2 ^ 128)%N) rows ->
  recv_labels (length rows) (concat (map (be 16) rows) ++ rest) = Some (rows, rest).
Proof.
  induction 1 as [|r rows Hr _ IH]; [reflexivity|].
  cbn [length map concat recv_labels].
  rewrite <- app_assoc, recv_int_be by (exact Hr). rewrite IH. reflexivity.
Qed.

Lemma flags_roundtrip o aT bT cT w :
  let b := (op_code o + b2n aT 128 + b2n bT 64 + b2n cT 32 + b2n w 16)%N in
  N.testbit b 7 = aT /\ N.testbit b 6 = bT /\ N.testbit b 5 = cT /\ N.testbit b 4 = w /\
  op_of_code (N.land b 15) = Some o.
Proof. destruct o, aT, bT, cT, w; vm_compute; repeat split. Qed.

Lemma lt_2_32_256 x : (x < 2 ^ 32)%N -> (x < 256 ^ N.of_nat 4)%N.
Proof. intros H. exact H. Qed.

Lemma le_65535_256 x : (x <=? 65535)%N = true -> (x < 256 ^ N.of_nat 2)%N.
Proof. intros H. apply N.leb_le in H. change (256 ^ N.of_nat 2)%N with 65536%N. lia. Qed.

Theorem gate_codec g rest :
  sgate_ok g -> decode_gate (encode_gate g ++ rest) = Some (g, rest).
Proof.
  intros (Ha & Hb & Hc & Hlen & Hrows & Hinv).
  destruct g as [o aT bT cT a b c rows]. simpl in *.
  unfold encode_gate, decode_gate. simpl.
  pose proof (flags_roundtrip o aT bT cT (short_ids (mkSgate o aT bT cT a b c rows))) as F.
  cbv zeta in F. unfold op_byte. simpl.
  destruct F as (F7 & F6 & F5 & F4 & Fo). rewrite F7, F6, F5, F4, Fo.
  assert (Hw : forall x, (x < 2 ^ 32)%N ->
            (short_ids (mkSgate o aT bT cT a b c rows) = true -> (x <=? 65535)%N = true) ->
            (x < 256 ^ N.of_nat (if short_ids (mkSgate o aT bT cT a b c rows) then 2 else 4))%N).
  { intros x Hx Hs. destruct (short_ids _); [apply le_65535_256; auto | exact Hx]. }
  assert (Sa : short_ids (mkSgate o aT bT cT a b c rows) = true -> (a <=? 65535)%N = true).
  { unfold short_ids; simpl. intros H. apply andb_prop in H as [H _]. apply andb_prop in H as [H _]. exact H. }
  assert (Sb : short_ids (mkSgate o aT bT cT a b c rows) = true -> (b <=? 65535)%N = true).
  { unfold short_ids; simpl. intros H. apply andb_prop in H as [H _]. apply andb_prop in H as [_ H]. exact H. }
  assert (Sc : short_ids (mkSgate o aT bT cT a b c rows) = true -> (c <=? 65535)%N = true).
  { unfold short_ids; simpl. intros H. apply andb_prop in H as [_ H]. exact H. }
  rewrite <- Hlen.
  destruct o; repeat rewrite <- app_assoc;
    repeat (rewrite recv_int_be by (apply Hw; auto));
    rewrite recv_labels_be by exact Hrows; try reflexivity.
  rewrite (Hinv eq_refl). reflexivity.
Qed.

Lemma gates_codec gs rest :
  Forall sgate_ok gs ->
  decode_gates (length gs) (concat (map encode_gate gs) ++ rest) = Some (gs, rest).
Proof.
  induction 1 as [|g gs Hg _ IH]; [reflexivity|].
  cbn [length map concat decode_gates].
  rewrite <- app_assoc, gate_codec by exact Hg. rewrite IH. reflexivity.
Qed.

(* both id widths and every flag combination occur: non-vacuity *)
Example gate_codec_ex16 :
  decode_gate (encode_gate (mkSgate AND true false true 7 65535 9 [1; 2]%N)) =
  Some (mkSgate AND true false true 7 65535 9 [1; 2]%N, []).
Proof. vm_compute. reflexivity. Qed.
Example gate_codec_ex32 :
  decode_gate (encode_gate (mkSgate INV false false false 65536 0 4294967295 [5]%N)) =
  Some (mkSgate INV false false false 65536 0 4294967295 [5]%N, []).
Proof. vm_compute. reflexivity. Qed.

(* ------------------------------------------------------------------ *)
(** * Program.GC as it is now does not guarantee no_premature_reuse

   Witness (the shape of finding F3 with 1-bit values):
     b := mov a ; c := mov b ; t := a xor x ; u := t xnor x ; r := c xor u ; ret r
   Program.GC frees a after its last direct use (t := a xor x): the only
   recorded alias of a is b, which is dead; c — an alias of the alias b — is
   still going to be read.  u then receives a's recycled wire id, and
   c's id list still points at it. *)
Definition wv (id : N) : val := mkVal id false 1 false 0.
Definition xor_c : ccirc := mkCcirc (mkCircuit 3 2 1 [mkGate 0 1 2 XOR]) [] [].
Definition xnor_c : ccirc := mkCcirc (mkCircuit 3 2 1 [mkGate 0 1 2 XNOR]) [] [].
(* values: a=0 x=1 b=2 c=3 t=4 u=5 r=6 ; {zero}=100 {one}=101 *)
Definition wit_prog : sprog := mkSprog [(0%N, 1); (1%N, 1)] 100 101 [] [xor_c; xnor_c] [1].
Definition wit_steps : list instr :=
  [ mkInstr OMov [wv 0] (Some (wv 2)) [] None 0;
    mkInstr OMov [wv 2] (Some (wv 3)) [] None 0;
    mkInstr OGen [wv 0; wv 1] (Some (wv 4)) [] None 0;
    mkInstr OGen [wv 4; wv 1] (Some (wv 5)) [] None 1;
    mkInstr OGen [wv 3; wv 5] (Some (wv 6)) [] None 0;
    mkInstr ORet [wv 6] None [] None 0 ].

(* a chain of direct aliases only: c := mov a instead of mov b *)
Definition wit_steps_1level : list instr :=
  [ mkInstr OMov [wv 0] (Some (wv 2)) [] None 0;
    mkInstr OMov [wv 0] (Some (wv 3)) [] None 0;
    mkInstr OGen [wv 0; wv 1] (Some (wv 4)) [] None 0;
    mkInstr OGen [wv 4; wv 1] (Some (wv 5)) [] None 1;
    mkInstr OGen [wv 3; wv 5] (Some (wv 6)) [] None 0;
    mkInstr ORet [wv 6] None [] None 0 ].

Definition gc_sound_statement (gcf : list instr -> option (list instr)) : Prop :=
  forall (p : sprog) (steps g : list instr),
    wf_ssa (map fst (sp_args p)) steps = true -> gcf steps = Some g ->
    no_premature_reuse p g = true.

Lemma gc_sound_refuted_witness :
  wf_ssa (map fst (sp_args wit_prog)) wit_steps = true /\
  exists g, gc_old wit_steps = Some g /\
    no_premature_reuse wit_prog g = false /\
    (* and the values differ: inputs a = 0, x = 0 give 1 on fresh wires, 0 streamed *)
    ssa_eval wit_prog wit_steps [false; false] = Some [true] /\
    stream_eval wit_prog g [false; false] = Some [false].
Proof.
  split; [vm_compute; reflexivity|].
  eexists. split; [vm_compute; reflexivity|].
  split; [vm_compute; reflexivity|].
  split; vm_compute; reflexivity.
Qed.

Theorem gc_sound_refuted : ~ gc_sound_statement gc_old.
Proof.
  intros H. destruct gc_sound_refuted_witness as (Hwf & g & Hg & Hn & _).
  specialize (H wit_prog wit_steps g Hwf Hg). rewrite Hn in H. discriminate.
Qed.

(* the same programs are fine with the proposed patch, and the one-level
   variant is fine with the code as it is: the refutation is about alias
   chains, not about the witness being ill-formed *)
Example gc_fixed_on_witness :
  exists g, gc_fixed wit_steps = Some g /\ no_premature_reuse wit_prog g = true /\
    stream_eval wit_prog g [false; false] = ssa_eval wit_prog wit_steps [false; false].
Proof. eexists. split; [vm_compute; reflexivity|]. split; vm_compute; reflexivity. Qed.

Example gc_old_on_1level :
  exists g, gc_old wit_steps_1level = Some g /\ no_premature_reuse wit_prog g = true /\
    stream_eval wit_prog g [false; false] = ssa_eval wit_prog wit_steps_1level [false; false].
Proof. eexists. split; [vm_compute; reflexivity|]. split; vm_compute; reflexivity. Qed.

(* ------------------------------------------------------------------ *)
(** * One streamed circuit at the value level = plain evaluation

   The circuit is walked gate by gate on the persistent store through the
   in/out indirection (Streaming.Get/Set) and the tmp array.  If the ids the
   circuit writes (outs) are pairwise distinct and none of them is among the
   ids it reads (ins) — which is what no_premature_reuse provides — the
   values left on outs are eval_plain of the values found on ins, and no
   other global wire changes.  Stale content of tmp and of the outs wires
   (recycled ids) is irrelevant: a well-formed circuit assigns before it
   reads. *)

Lemma key_of_inj a b : key_of a = key_of b -> a = b.
Proof.
  unfold key_of. intros H. rewrite <- (N.pos_pred_succ a), <- (N.pos_pred_succ b), H. reflexivity.
Qed.

Lemma sfind_sadd_eq {T} (d : T) m id x : sfind d (sadd m id x) id = x.
Proof. unfold sfind, sadd. rewrite PositiveMap.gss. reflexivity. Qed.

Lemma sfind_sadd_neq {T} (d : T) m id id' x : id <> id' -> sfind d (sadd m id x) id' = sfind d m id'.
Proof.
  intros H. unfold sfind, sadd. rewrite PositiveMap.gso; [reflexivity|].
  intros E. apply H. symmetry. apply key_of_inj. exact E.
Qed.

Section CircSim.
  Variable c : circuit.
  Variables ins outs : list N.
  Hypothesis Hni : length ins = ninputs c.
  Hypothesis Hno : length outs = noutputs c.
  Hypothesis Hle : noutputs c <= nwires c.
  Hypothesis Hnd : NoDup outs.
  Hypothesis Hdisj : forall o, In o outs -> ~ In o ins.

  Let n := nwires c.
  Let ft := length ins.
  Let fo := nwires c - length outs.

  Definition rd (cs : cstate bool) (w : nat) : bool :=
    fst (fst (sget bool false ins outs ft fo cs w)).

  Definition agree (asg ws : list bool) (cs : cstate bool) : Prop :=
    forall w, w < n -> nth w asg false = true -> rd cs w = nth w ws false.

  Definition frame (cs cs' : cstate bool) : Prop :=
    forall id, ~ In id outs -> sfind false (cs_wires cs') id = sfind false (cs_wires cs) id.

  Lemma outs_nth_in k : k < length outs -> In (nth k outs 0%N) outs.
  Proof. intros H. apply nth_In. exact H. Qed.

  (* reading wire w' after writing wire w (w is not an input wire) *)
  Lemma rd_sset cs w v w' :
    ft <= w -> w < n -> w' < n ->
    let cs' := fst (fst (sset bool ins outs ft fo cs w v)) in
    rd cs' w' = if Nat.eqb w w' then v else rd cs w'.
  Proof.
    intros Hw Hwn Hw'n. unfold rd, sget, sset. cbv zeta.
    destruct (w <? ft) eqn:E1; [apply Nat.ltb_lt in E1; lia|].
    destruct (fo <=? w) eqn:E2.
    - (* w is an output wire *)
      apply Nat.leb_le in E2. cbn [fst cs_wires cs_tmp].
      assert (Hk : w - fo < length outs) by (unfold fo in *; unfold n in *; lia).
      destruct (w' <? ft) eqn:F1.
      + (* w' input *)
        apply Nat.ltb_lt in F1.
        destruct (Nat.eqb w w') eqn:EQ; [apply Nat.eqb_eq in EQ; lia|].
        cbn [fst]. apply sfind_sadd_neq. intros E.
        apply (Hdisj (nth (w - fo) outs 0%N)); [apply outs_nth_in, Hk|].
        rewrite E. apply nth_In. exact F1.
      + destruct (fo <=? w') eqn:F2.
        * apply Nat.leb_le in F2. cbn [fst].
          destruct (Nat.eqb w w') eqn:EQ.
          { apply Nat.eqb_eq in EQ. subst w'. apply sfind_sadd_eq. }
          apply Nat.eqb_neq in EQ. apply sfind_sadd_neq. intros E.
          assert (Hk' : w' - fo < length outs) by (unfold fo in *; unfold n in *; lia).
          apply (proj1 (NoDup_nth outs 0%N) Hnd _ _ Hk Hk') in E. lia.
        * apply Nat.leb_gt in F2. cbn [fst].
          destruct (Nat.eqb w w') eqn:EQ; [apply Nat.eqb_eq in EQ; lia|]. reflexivity.
    - (* w is a tmp wire *)
      apply Nat.leb_gt in E2. cbn [fst cs_wires cs_tmp].
      destruct (w' <? ft) eqn:F1.
      + apply Nat.ltb_lt in F1. destruct (Nat.eqb w w') eqn:EQ; [apply Nat.eqb_eq in EQ; lia|]. reflexivity.
      + destruct (fo <=? w') eqn:F2.
        * apply Nat.leb_le in F2. destruct (Nat.eqb w w') eqn:EQ; [apply Nat.eqb_eq in EQ; lia|]. reflexivity.
        * cbn [fst]. destruct (Nat.eqb w w') eqn:EQ.
          { apply Nat.eqb_eq in EQ. subst w'. apply sfind_sadd_eq. }
          apply Nat.eqb_neq in EQ. apply sfind_sadd_neq. lia.
  Qed.

  Lemma frame_sset cs w v : ft <= w -> w < n -> frame cs (fst (fst (sset bool ins outs ft fo cs w v))).
  Proof.
    intros Hw Hwn id Hid. unfold sset.
    destruct (w <? ft) eqn:E1; [apply Nat.ltb_lt in E1; lia|].
    destruct (fo <=? w) eqn:E2; cbn [fst cs_wires]; [|reflexivity].
    apply Nat.leb_le in E2. apply sfind_sadd_neq. intros E. apply Hid. rewrite <- E.
    apply outs_nth_in. unfold fo, n in *. lia.
  Qed.

  Lemma gate_step_sim asg ws cs g :
    gate_ok n (ninputs c) asg g = true -> length ws = n -> agree asg ws cs ->
    let cs' := fst (fst (sgate_step bool false unit bit_gatef ins outs ft fo cs tt g)) in
    agree (upd asg (gout g) true) (eval_gate ws g) cs' /\ frame cs cs'.
  Proof.
    intros Hok Hlw Hag. unfold gate_ok in Hok.
    repeat (apply andb_prop in Hok as [Hok ?]).
    apply Nat.ltb_lt in Hok. apply Nat.ltb_lt in H2. apply Nat.leb_le in H1.
    assert (Ha : rd cs (gin0 g) = nth (gin0 g) ws false) by (apply Hag; assumption).
    unfold sgate_step.
    assert (Hb : match gop g with INV => True | _ => rd cs (gin1 g) = nth (gin1 g) ws false end).
    { destruct (gop g); try exact I; apply andb_prop in H as [Hb1 Hb2];
        apply Nat.ltb_lt in Hb1; apply Hag; assumption. }
    set (bt := match gop g with INV => (false, 0%N, false) | _ => sget bool false ins outs ft fo cs (gin1 g) end).
    assert (Hbv : gate_fn (gop g) (rd cs (gin0 g)) (fst (fst bt))
                  = gate_fn (gop g) (nth (gin0 g) ws false) (nth (gin1 g) ws false)).
    { rewrite Ha. subst bt. destruct (gop g); try (unfold rd in Hb; rewrite Hb); reflexivity. }
    destruct bt as [[b bI] bT].
    unfold rd in Hbv at 1.
    destruct (sget bool false ins outs ft fo cs (gin0 g)) as [[a aI] aT].
    unfold bit_gatef. cbn [fst] in Hbv.
    destruct (sset bool ins outs ft fo cs (gout g) (gate_fn (gop g) a b)) as [[cs1 cI] cT] eqn:Es.
    cbn [fst].
    assert (Hcs1 : cs1 = fst (fst (sset bool ins outs ft fo cs (gout g) (gate_fn (gop g) a b)))) by (rewrite Es; reflexivity).
    rewrite <- Hni in H1. fold ft in H1.
    split.
    - intros w Hw Hasg. rewrite Hcs1, rd_sset by assumption.
      unfold eval_gate.
      destruct (Nat.eqb (gout g) w) eqn:EQ.
      + apply Nat.eqb_eq in EQ. subst w.
        rewrite nth_upd_eq by (rewrite Hlw; exact H2). exact Hbv.
      + apply Nat.eqb_neq in EQ. rewrite nth_upd_neq by exact EQ.
        apply Hag; [exact Hw|]. rewrite nth_upd_neq in Hasg by exact EQ. exact Hasg.
    - rewrite Hcs1. apply frame_sset; assumption.
  Qed.

  Lemma frame_trans a b d : frame a b -> frame b d -> frame a d.
  Proof. intros H1 H2 id Hid. rewrite H2, H1 by exact Hid. reflexivity. Qed.

  Lemma eval_gate_length ws g : length (eval_gate ws g) = length ws.
  Proof. unfold eval_gate. apply upd_length. Qed.

  Lemma gates_sim : forall gs asg ws cs (st : unit),
    wf_gates n (ninputs c) asg gs = true -> length ws = n -> agree asg ws cs ->
    let cs' := fst (fst (sgates bool false unit bit_gatef ins outs ft fo cs st gs)) in
    agree (final_asg asg gs) (fold_left eval_gate gs ws) cs' /\ frame cs cs'.
  Proof.
    induction gs as [|g gs IH]; intros asg ws cs st Hwf Hlw Hag.
    - simpl. split; [exact Hag | intros id _; reflexivity].
    - cbn [wf_gates] in Hwf. apply andb_prop in Hwf as [Hg Hrest].
      destruct st.
      pose proof (gate_step_sim asg ws cs g Hg Hlw Hag) as [Hag1 Hfr1].
      cbn [sgates final_asg fold_left].
      destruct (sgate_step bool false unit bit_gatef ins outs ft fo cs tt g) as [[cs1 st1] sg] eqn:E1.
      cbn [fst] in Hag1, Hfr1.
      specialize (IH (upd asg (gout g) true) (eval_gate ws g) cs1 st1 Hrest).
      rewrite eval_gate_length in IH. specialize (IH Hlw Hag1).
      destruct (sgates bool false unit bit_gatef ins outs ft fo cs1 st1 gs) as [[cs2 st2] sgs] eqn:E2.
      cbn [fst] in IH |- *. destruct IH as [IHa IHf].
      split; [exact IHa | eapply frame_trans; eauto].
  Qed.

  Hypothesis Hwfc : wf c = true.
  Hypothesis Hsep : ninputs c + noutputs c <= nwires c.

  Lemma nth_firstn_lt' {A} (l : list A) d : forall k m, k < m -> nth k (firstn m l) d = nth k l d.
  Proof.
    induction l as [|h t IH]; intros k m H; [destruct m; destruct k; reflexivity|].
    destruct m; [lia|]. destruct k; [reflexivity|]. simpl. apply IH. lia.
  Qed.

  Lemma map_seq_shift {B} (g : nat -> B) : forall len a,
    map g (seq a len) = map (fun k => g (a + k)) (seq 0 len).
  Proof.
    induction len as [|len IH]; intros a; [reflexivity|].
    cbn [seq map]. rewrite Nat.add_0_r. f_equal.
    rewrite (IH (S a)), <- seq_shift, map_map. apply map_ext. intros k. f_equal. lia.
  Qed.

  Lemma nth_map_seq {A} (l : list A) d : l = map (fun k => nth k l d) (seq 0 (length l)).
  Proof.
    apply (nth_ext _ _ d d).
    - rewrite map_length, seq_length. reflexivity.
    - intros k Hk. symmetry.
      rewrite (nth_indep _ d ((fun j => nth j l d) 0)) by (rewrite map_length, seq_length; exact Hk).
      rewrite (map_nth (fun j => nth j l d)), seq_nth by exact Hk. reflexivity.
  Qed.

  Theorem circ_sim (cs : cstate bool) :
    let x := map (sfind false (cs_wires cs)) ins in
    let cs' := fst (fst (garble_circ bool false unit bit_gatef cs tt c ins outs)) in
    map (sfind false (cs_wires cs')) outs = eval_plain c x /\
    (forall id, ~ In id outs -> sfind false (cs_wires cs') id = sfind false (cs_wires cs) id).
  Proof.
    intros x cs'. unfold wf in Hwfc.
    apply andb_prop in Hwfc as [Hw Hfin]. apply andb_prop in Hw as [Hw Hgs].
    set (cs0 := init_circuit bool cs (nwires c)).
    assert (Hw0 : cs_wires cs0 = cs_wires cs) by (unfold cs0, init_circuit; destruct (_ <? _); reflexivity).
    assert (Hinit : agree (init_asg c) (init_wires c x) cs0).
    { intros w Hw' Hasg. unfold init_asg in Hasg.
      assert (Hwi : w < ninputs c).
      { destruct (Nat.lt_ge_cases w (ninputs c)) as [L|L]; [exact L|].
        rewrite app_nth2 in Hasg by (rewrite repeat_length; exact L).
        rewrite repeat_length in Hasg.
        destruct (Nat.lt_ge_cases (w - ninputs c) (nwires c - ninputs c)) as [L2|L2].
        - rewrite nth_repeat in Hasg. discriminate.
        - rewrite nth_overflow in Hasg by (rewrite repeat_length; exact L2). discriminate. }
      unfold rd, sget. fold ft. rewrite <- Hni in Hwi. fold ft in Hwi.
      apply Nat.ltb_lt in Hwi. rewrite Hwi. cbn [fst]. apply Nat.ltb_lt in Hwi.
      unfold init_wires. rewrite app_nth1.
      2:{ rewrite firstn_length. unfold x. rewrite map_length. unfold ft in Hwi. lia. }
      rewrite nth_firstn_lt' by (unfold ft in Hwi; lia).
      unfold x. rewrite Hw0.
      rewrite (nth_indep _ false (sfind false (cs_wires cs) 0%N)) by (rewrite map_length; exact Hwi).
      rewrite map_nth. reflexivity. }
    assert (Hlw : length (init_wires c x) = n).
    { unfold init_wires. rewrite app_length, firstn_length, repeat_length. unfold x. rewrite map_length.
      apply andb_prop in Hw as [Hw1 Hw2]. apply Nat.leb_le in Hw1. unfold n. lia. }
    pose proof (gates_sim (gates c) (init_asg c) (init_wires c x) cs0 tt Hgs Hlw Hinit) as [Hag Hfr].
    unfold garble_circ in cs'. fold ft fo cs0 in cs'.
    fold cs' in Hag, Hfr.
    split.
    - unfold eval_plain, output_wires, eval_plain_wires.
      rewrite (nth_map_seq outs 0%N) at 1. rewrite map_map, Hno.
      rewrite (map_seq_shift (fun w => nth w (fold_left eval_gate (gates c) (init_wires c x)) false)).
      apply map_ext_in. intros k Hk. apply in_seq in Hk.
      assert (Hwk : nwires c - noutputs c + k < n) by (unfold n; lia).
      rewrite forallb_forall in Hfin.
      assert (Hasg : nth (nwires c - noutputs c + k) (final_asg (init_asg c) (gates c)) false = true).
      { apply Hfin. unfold output_wires. apply in_seq. lia. }
      specialize (Hag _ Hwk Hasg). rewrite <- Hag. unfold rd, sget.
      replace (nwires c - noutputs c + k <? ft) with false
        by (symmetry; apply Nat.ltb_ge; unfold ft; lia).
      replace (fo <=? nwires c - noutputs c + k) with true
        by (symmetry; apply Nat.leb_le; unfold fo; lia).
      cbn [fst]. f_equal. f_equal. unfold fo. lia.
    - intros id Hid. rewrite (Hfr id Hid), Hw0. reflexivity.
  Qed.
End CircSim.

(* ------------------------------------------------------------------ *)
(** * sendArgument / receiveArgument: the framing round-trips *)

Fixpoint arg_depth (a : ioarg) : nat :=
  match a with
  | IOA _ _ _ comp => S ((fix mx (l : list ioarg) : nat :=
                            match l with [] => 0 | x :: t => Nat.max (arg_depth x) (mx t) end) comp)
  end.

Fixpoint arg_ok (a : ioarg) : Prop :=
  match a with
  | IOA name t bits comp =>
      (N.of_nat (length name) < 2 ^ 32)%N /\ (N.of_nat (length t) < 2 ^ 32)%N /\ (bits < 2 ^ 32)%N /\
      (N.of_nat (length comp) < 2 ^ 32)%N /\
      (fix all (l : list ioarg) : Prop := match l with [] => True | x :: t => arg_ok x /\ all t end) comp
  end.

Lemma recv_u32 x rest : (x < 2 ^ 32)%N -> recv_int 4 (u32 x ++ rest) = Some (x, rest).
Proof. intros H. unfold u32. apply recv_int_be. exact H. Qed.

Lemma recv_send_data bs rest :
  (N.of_nat (length bs) < 2 ^ 32)%N -> recv_data (send_data bs ++ rest) = Some (bs, rest).
Proof.
  intros H. unfold recv_data, send_data. rewrite <- app_assoc, recv_u32 by exact H.
  rewrite Nat2N.id. apply take_app. reflexivity.
Qed.

Theorem io_args_roundtrip : forall fuel a rest,
  arg_depth a <= fuel -> arg_ok a ->
  receive_argument fuel (send_argument a ++ rest) = Some (a, rest).
Proof.
  induction fuel as [|f IH]; intros a rest Hd Hok.
  - destruct a; simpl in Hd; lia.
  - destruct a as [name t bits comp]. cbn [arg_depth] in Hd. cbn [arg_ok] in Hok.
    destruct Hok as (Hn & Ht & Hb & Hc & Hall).
    cbn [receive_argument send_argument].
    repeat rewrite <- app_assoc.
    rewrite recv_send_data by exact Hn. rewrite recv_send_data by exact Ht.
    rewrite recv_u32 by exact Hb. rewrite recv_u32 by exact Hc. rewrite Nat2N.id.
    assert (Hm : forall l r,
              (fix mx (l : list ioarg) : nat :=
                 match l with [] => 0 | x :: t => Nat.max (arg_depth x) (mx t) end) l <= f ->
              (fix all (l : list ioarg) : Prop := match l with [] => True | x :: t => arg_ok x /\ all t end) l ->
              (fix members (k : nat) (bs : list N) {struct k} : option (list ioarg * list N) :=
                 match k with
                 | 0 => Some ([], bs)
                 | S k' =>
                     match receive_argument f bs with
                     | Some (a, bs') =>
                         match members k' bs' with
                         | Some (l, r) => Some (a :: l, r)
                         | None => None
                         end
                     | None => None
                     end
                 end) (length l) (concat (map send_argument l) ++ r) = Some (l, r)).
    { induction l as [|x l IHl]; intros r Hmx Hal; [reflexivity|].
      cbn [length map concat]. rewrite <- app_assoc.
      destruct Hal as [Hx Hl].
      rewrite (IH x _ (Nat.le_trans _ _ _ (Nat.le_max_l _ _) Hmx) Hx).
      rewrite (IHl r (Nat.le_trans _ _ _ (Nat.le_max_r _ _) Hmx) Hl). reflexivity. }
    rewrite (Hm comp rest) by (lia || exact Hall). reflexivity.
Qed.

Theorem stream_sim_circuit :
  forall (c : circuit) (ins outs : list N),
    length ins = ninputs c -> length outs = noutputs c ->
    NoDup outs -> (forall o, In o outs -> ~ In o ins) ->
    wf c = true -> ninputs c + noutputs c <= nwires c ->
    forall cs : cstate bool,
      let x := map (sfind false (cs_wires cs)) ins in
      let cs' := fst (fst (garble_circ bool false unit bit_gatef cs tt c ins outs)) in
      map (sfind false (cs_wires cs')) outs = eval_plain c x /\
      (forall id, ~ In id outs -> sfind false (cs_wires cs') id = sfind false (cs_wires cs) id).
Proof.
  intros c ins outs Hni Hno Hnd Hdisj Hwf Hsep cs.
  assert (Hle : noutputs c <= nwires c) by lia.
  exact (circ_sim c ins outs Hni Hno Hle Hnd Hdisj Hwf Hsep cs).
Qed.

(* ------------------------------------------------------------------ *)
(** * One streamed gate at the label level: what the evaluator computes from
      the transmitted rows is the label that encodes the plain gate value, and
      both sides advance the (session-wide) tweak counter alike.  The crypto is
      the C01 model's (ggate_concrete + GarbleProof.gate_sim); any block
      function, any tweak. *)
From Mpc Require Import Circuit.GarbleProof Circuit.GGarbleProof.

Theorem stream_gate_labels (pi : N -> N) (r : N) (a b : wire) (va vb : bool) (id : N) (o : op) (x : N) :
  sbit r = true -> wire_ok r a -> (o = INV \/ wire_ok r b) ->
  let '(c, id', rows) := label_gatef pi r a b o id in
  geval_gate pi [pick a va; match o with INV => x | _ => pick b vb end] id (mkGate 0 1 0 o) rows
  = Some (pick c (gate_fn o va vb), id') /\ wire_ok r c.
Proof.
  intros Hr Wa Wb. unfold label_gatef.
  pose proof (ggate_concrete pi r [a; b] id (mkGate 0 1 0 o)) as Hc. cbn [gin0 gin1 gop nth] in Hc.
  rewrite Hc.
  pose proof (gate_sim pi r a b va vb id o 0 1 0 [a; b]
                [pick a va; match o with INV => x | _ => pick b vb end]
                Hr eq_refl eq_refl Wa Wb eq_refl) as G.
  cbv zeta in G.
  destruct (garble_gate pi r [a; b] id (mkGate 0 1 0 o)) as [[c id'] rows].
  apply G. destruct o; (right; reflexivity) || (left; reflexivity).
Qed.

(* ------------------------------------------------------------------ *)
(** * The reference meaning ignores gc instructions *)
From Mpc Require Import Lang.GcProof.
Lemma ssa_steps_filter circs : forall l st,
  ssa_steps circs l st = ssa_steps circs (filter not_gc l) st.
Proof.
  induction l as [|s l IH]; intros st; [reflexivity|]. cbn [filter].
  destruct (not_gc s) eqn:E.
  - cbn [ssa_steps]. destruct (ssa_step circs s st); [apply IH | reflexivity].
  - cbn [ssa_steps]. unfold not_gc in E. destruct st as [e ret]. unfold ssa_step.
    destruct (iop s); try discriminate. apply IH.
Qed.

Theorem ssa_ignores_gc p concat deep steps g xy :
  forallb not_gc steps = true -> gc_gen concat deep steps = Some g ->
  ssa_eval p g xy = ssa_eval p steps xy.
Proof.
  intros Hn Hg. unfold ssa_eval. rewrite ssa_steps_filter.
  rewrite (gc_only_inserts concat deep steps g Hn Hg). reflexivity.
Qed.


(* ------------------------------------------------------------------ *)
(** * Regression record: ONE visited set per step in aliasLive is unsound

   Witness (1-bit values): n := concat a b ; l := slice n [0:2] ; q := a xor b ;
   s := q xnor q ; ret l s.  At q := a xor b both a and b are at their last use.
   The query for a succeeds (a -> n -> l, l is live) and leaves a and n marked;
   with a visited set shared by the step's queries the query for b stops at the
   marked n and answers "no live alias": gc b, although l still reads b's wire.
   s then receives b's recycled id. *)
Definition cv (id : N) (c : Z) : val := mkVal id true 32%nat true c.
(* values: a=0 b=1 n=2 l=3 q=4 s=5 ; constants $0=50 $2=51 ; {zero}=100 {one}=101 *)
Definition wit2_prog : sprog := mkSprog [(0%N, 1%nat); (1%N, 1%nat)] 100%N 101%N [] [xor_c; xnor_c] [2%nat; 1%nat].
Definition wit2_steps : list instr :=
  [ mkInstr OConcat [wv 0; wv 1] (Some (mkVal 2%N false 2%nat false 0%Z)) [] None 0%nat;
    mkInstr OSlice [mkVal 2%N false 2%nat false 0%Z; cv 50 0; cv 51 2] (Some (mkVal 3%N false 2%nat false 0%Z)) [] None 0%nat;
    mkInstr OGen [wv 0; wv 1] (Some (wv 4)) [] None 0%nat;
    mkInstr OGen [wv 4; wv 4] (Some (wv 5)) [] None 1%nat;
    mkInstr ORet [mkVal 3%N false 2%nat false 0%Z; wv 5] None [] None 0%nat ].

Lemma gc_shared_seen_refuted_witness :
  wf_prog wit2_prog wit2_steps = true /\
  (exists g, gc_shared_seen wit2_steps = Some g /\
     no_premature_reuse wit2_prog g = false /\
     ssa_eval wit2_prog wit2_steps [false; false] = Some [false; false; true] /\
     stream_eval wit2_prog g [false; false] = Some [false; true; true]) /\
  (* the code as it is (fresh visited set per query) and the model of the theorems agree and are fine *)
  gc_visited wit2_steps = gc_fixed wit2_steps /\
  (exists g, gc_fixed wit2_steps = Some g /\ no_premature_reuse wit2_prog g = true /\
     stream_eval wit2_prog g [false; false] = ssa_eval wit2_prog wit2_steps [false; false]).
Proof.
  split; [vm_compute; reflexivity|]. split.
  - eexists. split; [vm_compute; reflexivity|]. split; [vm_compute; reflexivity|].
    split; vm_compute; reflexivity.
  - split; [vm_compute; reflexivity|]. eexists. split; [vm_compute; reflexivity|]. split; vm_compute; reflexivity.
Qed.

Theorem gc_shared_seen_refuted : ~ (forall p steps g, wf_prog p steps = true -> gc_shared_seen steps = Some g ->
                                      no_premature_reuse p g = true).
Proof.
  intros H. destruct gc_shared_seen_refuted_witness as (Hwf & (g & Hg & Hn & _) & _).
  specialize (H _ _ _ Hwf Hg). rewrite Hn in H. discriminate.
Qed.
