(* LiveInst.v — the session skeletons per OT kind, built from the GENERATED
   Gen/Skel.v (harness/gen_skel.go, regenerated from /repo on every run).
   The four kinds are the ones the C02 harness runs: ot.NewCO, ot.NewRSA,
   ot.NewCOT(ot.NewCO(..), .., malicious=false|true, shared=false).
   Definitions only. *)
From Coq Require Import List Bool.
From Mpc Require Import Proto.Live Gen.Skel.
Import ListNotations.
Open Scope nm_scope.

Inductive otkind := KCo | KRsa | KCot | KCotMalicious.

Definition cot_over_co (malicious : bool) : otimpl :=
  specialize_ot "malicious" malicious (over_base skel_CO skel_COT).

Definition impl_of (k : otkind) : otimpl :=
  match k with
  | KCo => skel_CO
  | KRsa => skel_RSA
  | KCot => cot_over_co false
  | KCotMalicious => cot_over_co true
  end.

Definition garbler_skel (k : otkind) : prog := resolve false (impl_of k) skel_garbler.
Definition evaluator_skel (k : otkind) : prog := resolve false (impl_of k) skel_evaluator.
