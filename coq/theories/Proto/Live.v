(* Live.v — model for the TERMINATION half of property C02 ("both parties
   terminate without error"): two communication skeletons running concurrently
   over p2p.Conn's buffered connections (p2p/protocol.go).

   A skeleton ([prog]) is what harness/gen_skel.go extracts from the current
   source of circuit.Garbler, circuit.Evaluator and the OT implementations
   (Gen/Skel.v, regenerated on every check run): typed sends and receives,
   Flush, loops with symbolic bounds, branches, calls of OT operations.

   Conn semantics: Send appends to the sender's write buffer; Flush moves the
   buffer to the channel; a Send MAY flush on its own (NeedSpace: the buffer is
   full) — a schedule choice, so that theorems hold whether or not that
   happens; Receive blocks until the channel holds a message and fails on a
   message of another kind.  No proofs in this file. *)
From Coq Require Import List Bool Arith NArith.
From Coq Require Strings.Byte.
Import ListNotations.

(* names (message kinds, loop/branch labels, translator messages): a list of
   character codes, written as string literals in scope nm.  (Not Coq's
   [string]: the extracted model is linked with a driver that uses OCaml's.) *)
Inductive name := Nm (cs : list N).
Definition name_of_bytes (bs : list Byte.byte) : name := Nm (map Byte.to_N bs).
Definition bytes_of_name (n : name) : option (list Byte.byte) :=
  match n with
  | Nm cs => fold_right (fun c acc => match Byte.of_N c, acc with
                                      | Some b, Some l => Some (b :: l)
                                      | _, _ => None
                                      end) (Some []) cs
  end.
Declare Scope nm_scope.
Delimit Scope nm_scope with nm.
String Notation name name_of_bytes bytes_of_name : nm_scope.

Fixpoint lN_eqb (a b : list N) : bool :=
  match a, b with
  | [], [] => true
  | x :: a', y :: b' => N.eqb x y && lN_eqb a' b'
  | _, _ => false
  end.
Definition name_eqb (a b : name) : bool := match a, b with Nm x, Nm y => lN_eqb x y end.
Definition nm_cat (l : list name) : name := Nm (flat_map (fun n => match n with Nm cs => cs end) l).

Definition kind := name.
Definition label := name.

Inductive otop := OInitSender | OInitReceiver | OSend | OReceive.

(* a program is a sequence with the continuation built in *)
Inductive prog :=
| PEnd
| PSend (k : kind) (r : prog)
| PRecv (k : kind) (r : prog)
| PFlush (r : prog)
| PLoop (l : label) (body r : prog)
| PBranch (l : label) (a b r : prog)
| PCall (base : bool) (op : otop) (n : label) (r : prog)
| PUnknown (msg : name) (r : prog).

(* the generated file writes sequences as [mk [PSend "Data"; PFlush; ...]] *)
Definition mk (xs : list (prog -> prog)) : prog := fold_right (fun f r => f r) PEnd xs.

Fixpoint pseq (p q : prog) : prog :=
  match p with
  | PEnd => q
  | PSend k r => PSend k (pseq r q)
  | PRecv k r => PRecv k (pseq r q)
  | PFlush r => PFlush (pseq r q)
  | PLoop l b r => PLoop l b (pseq r q)
  | PBranch l a b r => PBranch l a b (pseq r q)
  | PCall bs op n r => PCall bs op n (pseq r q)
  | PUnknown m r => PUnknown m (pseq r q)
  end.

Fixpoint psize (p : prog) : nat :=
  match p with
  | PEnd => 1
  | PSend _ r | PRecv _ r | PFlush r | PCall _ _ _ r | PUnknown _ r => S (psize r)
  | PLoop _ b r => S (psize b + psize r)
  | PBranch _ a b r => S (psize a + psize b + psize r)
  end.

(* ---- OT implementations: the four operations of ot.OT; Send/Receive are
   parametric in the label of the number of transfers *)
Record otimpl := mkOT { o_is : prog; o_ir : prog; o_send : label -> prog; o_recv : label -> prog }.

Definition ot_pick (o : otimpl) (op : otop) (n : label) : prog :=
  match op with
  | OInitSender => o_is o
  | OInitReceiver => o_ir o
  | OSend => o_send o n
  | OReceive => o_recv o n
  end.

(* replace the calls on the base OT ([which] = true) or on the session's OT
   ([which] = false) by the implementation's skeleton *)
Fixpoint resolve (which : bool) (o : otimpl) (p : prog) : prog :=
  match p with
  | PEnd => PEnd
  | PSend k r => PSend k (resolve which o r)
  | PRecv k r => PRecv k (resolve which o r)
  | PFlush r => PFlush (resolve which o r)
  | PLoop l b r => PLoop l (resolve which o b) (resolve which o r)
  | PBranch l a b r => PBranch l (resolve which o a) (resolve which o b) (resolve which o r)
  | PCall bs op n r =>
      if Bool.eqb bs which then pseq (ot_pick o op n) (resolve which o r)
      else PCall bs op n (resolve which o r)
  | PUnknown m r => PUnknown m (resolve which o r)
  end.

Definition over_base (base : otimpl) (o : otimpl) : otimpl :=
  mkOT (resolve true base (o_is o)) (resolve true base (o_ir o))
       (fun n => resolve true base (o_send o n)) (fun n => resolve true base (o_recv o n)).

(* fix a configuration flag (COT's [malicious]) *)
Fixpoint specialize (l : label) (v : bool) (p : prog) : prog :=
  match p with
  | PEnd => PEnd
  | PSend k r => PSend k (specialize l v r)
  | PRecv k r => PRecv k (specialize l v r)
  | PFlush r => PFlush (specialize l v r)
  | PLoop l' b r => PLoop l' (specialize l v b) (specialize l v r)
  | PBranch l' a b r =>
      if name_eqb l l' then pseq (specialize l v (if v then a else b)) (specialize l v r)
      else PBranch l' (specialize l v a) (specialize l v b) (specialize l v r)
  | PCall bs op n r => PCall bs op n (specialize l v r)
  | PUnknown m r => PUnknown m (specialize l v r)
  end.

Definition specialize_ot (l : label) (v : bool) (o : otimpl) : otimpl :=
  mkOT (specialize l v (o_is o)) (specialize l v (o_ir o))
       (fun n => specialize l v (o_send o n)) (fun n => specialize l v (o_recv o n)).

(* ---- environments and flattening.  Loop counts and branch outcomes are
   functions of the label and of the stack of enclosing iteration indices
   (innermost first); BOTH parties use the same environment: both derive the
   bounds from the same circuit and the same protocol parameters. *)
Record env := mkEnv { cnt : label -> list nat -> nat; brv : label -> list nat -> bool }.

Inductive act := ASend (k : kind) | ARecv (k : kind) | AFlush.

Fixpoint flat (e : env) (st : list nat) (p : prog) : list act :=
  match p with
  | PEnd => []
  | PSend k r => ASend k :: flat e st r
  | PRecv k r => ARecv k :: flat e st r
  | PFlush r => AFlush :: flat e st r
  | PLoop l b r => flat_map (fun i => flat e (i :: st) b) (seq 0 (cnt e l st)) ++ flat e st r
  | PBranch l a b r => (if brv e l st then flat e st a else flat e st b) ++ flat e st r
  | PCall _ _ _ r => flat e st r
  | PUnknown _ r => flat e st r
  end.

(* ---- two parties over two buffered FIFO channels *)
Record half := mkHalf { hp : list act;    (* rest of the program *)
                        hb : list kind;   (* own write buffer (Conn.WriteBuf) *)
                        hc : list kind }. (* outgoing channel: flushed, not yet received by the peer *)

(* one step of the party [x] whose peer is [y]; the last component reports a
   received message of an unexpected kind *)
Definition step_half (auto : bool) (x y : half) : half * half * bool :=
  match hp x with
  | [] => (x, y, false)
  | ASend k :: r =>
      if auto then (mkHalf r [] (hc x ++ hb x ++ [k]), y, false)
      else (mkHalf r (hb x ++ [k]) (hc x), y, false)
  | AFlush :: r => (mkHalf r [] (hc x ++ hb x), y, false)
  | ARecv k :: r =>
      match hc y with
      | [] => (x, y, false)                       (* blocked in Fill *)
      | k' :: c' =>
          if name_eqb k k' then (mkHalf r (hb x) (hc x), mkHalf (hp y) (hb y) c', false)
          else (x, y, true)
      end
  end.

Record cfg := mkCfg { cG : half; cE : half; bad : bool }.

(* schedule: which party moves, and whether a Send it performs flushes on its own *)
Inductive choice := CG (auto : bool) | CE (auto : bool).

Definition step (c : choice) (s : cfg) : cfg :=
  if bad s then s else
  match c with
  | CG a => let '(g, e, b) := step_half a (cG s) (cE s) in mkCfg g e b
  | CE a => let '(e, g, b) := step_half a (cE s) (cG s) in mkCfg g e b
  end.

Definition run_cfg (sched : list choice) (s : cfg) : cfg := fold_left (fun s c => step c s) sched s.

Definition init_cfg (tg te : list act) : cfg := mkCfg (mkHalf tg [] []) (mkHalf te [] []) false.

Definition half_done (h : half) : bool :=
  match hp h, hb h, hc h with [], [], [] => true | _, _, _ => false end.
Definition cfg_done (s : cfg) : bool := negb (bad s) && half_done (cG s) && half_done (cE s).

Inductive outcome := Done | Unfinished (s : cfg).

Definition run_live (g e : prog) (en : env) (sched : list choice) : outcome :=
  let s := run_cfg sched (init_cfg (flat en [] g) (flat en [] e)) in
  if cfg_done s then Done else Unfinished s.

(* ---- fairness (as Proto/MeshProof.v): the schedule can be cut into at least
   [round_bound] consecutive rounds each of which schedules both parties *)
Definition is_g (c : choice) : bool := match c with CG _ => true | CE _ => false end.

Fixpoint count_rounds (sg se : bool) (sched : list choice) : nat :=
  match sched with
  | [] => 0
  | c :: r =>
      let sg' := sg || is_g c in
      let se' := se || negb (is_g c) in
      if sg' && se' then S (count_rounds false false r) else count_rounds sg' se' r
  end.

Definition round_bound (g e : prog) (en : env) : nat :=
  List.length (flat en [] g) + List.length (flat en [] e).
Definition fair (g e : prog) (en : env) (sched : list choice) : Prop :=
  round_bound g e en <= count_rounds false false sched.

(* ---- the checker: a lockstep walk over both skeletons.  State = (may the
   garbler's write buffer be non-empty, may the evaluator's).  A Send on one
   side must meet a Recv of the same kind on the other, and the RECEIVER's own
   buffer must be empty at that point (it has flushed everything the peer may
   be waiting for).  Loops must match label by label (body against body, with
   the join of entry and exit state as invariant); branches on the same label
   are taken alike on both sides, a branch on one side only must work for both
   arms.  Calls and Unknown nodes are rejected. *)
Fixpoint check (fuel : nat) (dg de : bool) (pg pe : prog) : option (bool * bool) :=
  match fuel with
  | O => None
  | S f =>
      match pg with
      | PFlush rg => check f false de rg pe
      | _ =>
      match pe with
      | PFlush re => check f dg false pg re
      | _ =>
      match pg, pe with
      | PEnd, PEnd => Some (dg, de)
      | PSend k rg, PRecv k' re =>
          if name_eqb k k' && negb de then check f true false rg re else None
      | PRecv k rg, PSend k' re =>
          if name_eqb k k' && negb dg then check f false true rg re else None
      | PLoop l bg rg, PLoop l' be re =>
          if name_eqb l l' then
            match check f dg de bg be with
            | Some (dg1, de1) =>
                let jg := dg || dg1 in
                let je := de || de1 in
                match check f jg je bg be with
                | Some (dg2, de2) =>
                    if implb dg2 jg && implb de2 je then check f jg je rg re else None
                | None => None
                end
            | None => None
            end
          else None
      | PBranch l ag bg rg, PBranch l' ae be re =>
          if name_eqb l l' then
            match check f dg de (pseq ag rg) (pseq ae re), check f dg de (pseq bg rg) (pseq be re) with
            | Some (a1, a2), Some (b1, b2) => Some (a1 || b1, a2 || b2)
            | _, _ => None
            end
          else None
      | PBranch l ag bg rg, _ =>
          match check f dg de (pseq ag rg) pe, check f dg de (pseq bg rg) pe with
          | Some (a1, a2), Some (b1, b2) => Some (a1 || b1, a2 || b2)
          | _, _ => None
          end
      | _, PBranch l ae be re =>
          match check f dg de pg (pseq ae re), check f dg de pg (pseq be re) with
          | Some (a1, a2), Some (b1, b2) => Some (a1 || b1, a2 || b2)
          | _, _ => None
          end
      | _, _ => None
      end
      end
      end
  end.

Definition well_flushed (g e : prog) : bool :=
  match check (2 * (psize g + psize e)) false false g e with
  | Some (false, false) => true
  | _ => false
  end.

(* ---- deterministic reference run (used by the correspondence check and the
   refutation): no automatic flush; the garbler runs until it blocks or ends,
   then the evaluator, and so on.  [segs] lists the flush segments in the order
   they reach the wire: (true = garbler, number of messages). *)
Fixpoint run_one (fuel : nat) (isg : bool) (x y : half) (segs : list (bool * nat))
  : half * half * list (bool * nat) * bool (* progressed *) :=
  match fuel with
  | O => (x, y, segs, false)
  | S f =>
      match hp x with
      | AFlush :: _ =>
          let seg := if hb x then segs else segs ++ [(isg, List.length (hb x))] in
          let '(x', y', _) := step_half false x y in
          let '(x2, y2, s2, _) := run_one f isg x' y' seg in (x2, y2, s2, true)
      | ASend _ :: _ =>
          let '(x', y', _) := step_half false x y in
          let '(x2, y2, s2, _) := run_one f isg x' y' segs in (x2, y2, s2, true)
      | ARecv _ :: _ =>
          let '(x', y', b) := step_half false x y in
          if b then (x, y, segs, false)
          else if Nat.eqb (List.length (hp x')) (List.length (hp x)) then (x, y, segs, false)
          else let '(x2, y2, s2, _) := run_one f isg x' y' segs in (x2, y2, s2, true)
      | [] => (x, y, segs, false)
      end
  end.

Fixpoint run_ref (rounds fuel : nat) (g e : half) (segs : list (bool * nat)) : half * half * list (bool * nat) :=
  match rounds with
  | O => (g, e, segs)
  | S r =>
      let '(g1, e1, s1, p1) := run_one fuel true g e segs in
      let '(e2, g2, s2, p2) := run_one fuel false e1 g1 s1 in
      if p1 || p2 then run_ref r fuel g2 e2 s2 else (g2, e2, s2)
  end.

(* merge consecutive segments of one direction into turns *)
Fixpoint turns (segs : list (bool * nat)) : list (bool * nat) :=
  match segs with
  | [] => []
  | (d, n) :: r =>
      match turns r with
      | (d', n') :: r' => if Bool.eqb d d' then (d, n + n') :: r' else (d, n) :: (d', n') :: r'
      | [] => [(d, n)]
      end
  end.
