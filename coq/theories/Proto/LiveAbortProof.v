(* LiveAbortProof.v — error exits of the C02 liveness model (LiveAbort.v):
   if the checker of Live.v accepts the two skeletons then, whatever point
   either party (or both) returns an error at, provided the caller closes the
   connection as the code does, for every environment, every choice of
   automatic flushes and of write errors towards a closed peer and every fair
   schedule BOTH parties terminate: nobody is left blocked in a Receive.
   Without the close the peer waits forever (refuted variant). *)
From Coq Require Import List Bool Arith Lia.
From Mpc Require Import Proto.Live Proto.LiveProof Proto.LiveAbort.
Import ListNotations.

(* ---- invariants *)
Definition StOK (s : acfg) : Prop :=
  stG s <> Halted /\ stE s <> Halted /\
  (stG s = Failed -> stE s = Closed) /\ (stE s = Failed -> stG s = Closed).

Definition AInv (s : acfg) : Prop := Inv (base s) /\ StOK s.

Lemma lead_flush_L L F : Lead L F -> Lead (flush_half L) F.
Proof.
  intros (HcF & HbF & fl & tF & Ep & Ns & Rv & S).
  split; [auto|split; [auto|]]. exists fl, tF. simpl. repeat split; auto.
  - now rewrite app_nil_r.
  - apply (sync_mono_ff _ _ _ _ _ _ S); reflexivity.
Qed.

Lemma lead_flush_F L F : Lead L F -> Lead L (flush_half F).
Proof.
  intros (HcF & HbF & fl & tF & Ep & Ns & Rv & S).
  unfold flush_half. split; [simpl; now rewrite HcF, HbF|split; [reflexivity|]].
  exists fl, tF. simpl. repeat split; auto.
Qed.

Lemma decide_fail ab w x y sx sy : decide ab w x y sx sy = MFail -> sx = Run /\ sy = Closed.
Proof.
  unfold decide. destruct sx; try discriminate. destruct (at_abort ab x); try discriminate.
  destruct sy; simpl; try discriminate; auto.
Qed.

Lemma decide_run ab w x y sx sy : decide ab w x y sx sy <> MNone -> sx = Run.
Proof. unfold decide. destruct sx; auto; intros H; now elim H. Qed.

Lemma decide_run2 ab w x y sx sy m : decide ab w x y sx sy = m -> m <> MNone -> sx = Run.
Proof. intros <-. apply decide_run. Qed.

Lemma decide_live_nil ab w x y sx sy : decide ab w x y sx sy = MLive -> hp x = [] -> enabled x y = false.
Proof. intros _ H. unfold enabled. now rewrite H. Qed.

Lemma ainv_step sp c w s : closes sp = true -> AInv s -> AInv (astep sp c w s).
Proof.
  intros Hc [I St]. pose proof I as [B Ld]. unfold astep. rewrite B, Hc.
  destruct St as (S1 & S2 & S3 & S4).
  destruct c as [a|a].
  - destruct (decide _ _ _ _ _ _) eqn:D.
    + split; simpl.
      * split; [reflexivity|]. simpl. destruct Ld as [L|L]; [left; now apply lead_flush_L|right; now apply lead_flush_F].
      * repeat split; simpl; auto; discriminate.
    + apply decide_fail in D. destruct D as [D1 D2]. split; simpl; [exact I|].
      repeat split; simpl; auto; try discriminate. rewrite D2. discriminate.
    + split; simpl; [now apply inv_step|]. repeat split; auto.
    + split; [exact I|repeat split; auto].
  - destruct (decide _ _ _ _ _ _) eqn:D.
    + split; simpl.
      * split; [reflexivity|]. simpl. destruct Ld as [L|L]; [left; now apply lead_flush_F|right; now apply lead_flush_L].
      * repeat split; simpl; auto; discriminate.
    + apply decide_fail in D. destruct D as [D1 D2]. split; simpl; [exact I|].
      repeat split; simpl; auto; try discriminate. rewrite D2. discriminate.
    + split; simpl; [now apply inv_step|]. repeat split; auto.
    + split; [exact I|repeat split; auto].
Qed.

Lemma ainv_run sp sched : closes sp = true -> forall s, AInv s -> AInv (arun sp sched s).
Proof.
  intros Hc. unfold arun. induction sched as [|[c w] r IH]; simpl; intros s I; auto.
  apply IH. now apply ainv_step.
Qed.

(* ---- measure and enabledness *)
Definition pm (st : status) (h : half) : nat := if is_run st then S (List.length (hp h)) else 0.
Definition am (s : acfg) : nat := pm (stG s) (cG (base s)) + pm (stE s) (cE (base s)).

Definition aenab (ab : option nat) (w : bool) (x y : half) (sx sy : status) : bool :=
  match decide ab w x y sx sy with MNone => false | MLive => enabled x y | _ => true end.

Definition aenG (sp : aspec) (w : bool) (s : acfg) : bool :=
  aenab (abG sp) w (cG (base s)) (cE (base s)) (stG s) (stE s).
Definition aenE (sp : aspec) (w : bool) (s : acfg) : bool :=
  aenab (abE sp) w (cE (base s)) (cG (base s)) (stE s) (stG s).
Definition aen (sp : aspec) (c : choice) (w : bool) (s : acfg) : bool :=
  if is_g c then aenG sp w s else aenE sp w s.

Lemma aenab_indep ab w w' x y sx sy : aenab ab w x y sx sy = aenab ab w' x y sx sy.
Proof.
  unfold aenab, decide, enabled. destruct sx; auto. destruct (at_abort ab x); auto.
  destruct (is_closed sy); auto. destruct (hp x) as [|[k|k|] r]; auto; destruct w, w'; auto.
Qed.

Lemma aenab_run ab w x y sx sy : aenab ab w x y sx sy = true -> sx = Run.
Proof.
  unfold aenab. intros H. apply (decide_run ab w x y sx sy). intros D. rewrite D in H. discriminate.
Qed.

(* towards a closed peer nothing blocks *)
Lemma aenab_closed ab w x y : hp x <> [] -> aenab ab w x y Run Closed = true.
Proof.
  intros H. unfold aenab, decide, enabled. destruct (at_abort ab x); auto. simpl.
  destruct (hp x) as [|[k|k|] r]; [now elim H| | |]; try (destruct w; reflexivity).
  destruct (hc y); reflexivity.
Qed.

Lemma astutter sp c w s : bad (base s) = false -> aen sp c w s = false -> astep sp c w s = s.
Proof.
  intros B E. unfold astep. rewrite B. unfold aen, aenG, aenE, aenab in E.
  destruct c as [a|a]; simpl in E.
  - destruct (decide _ _ _ _ _ _); try discriminate; auto.
    rewrite (step_stutter (CG a) (base s) B E). now destruct s.
  - destruct (decide _ _ _ _ _ _); try discriminate; auto.
    rewrite (step_stutter (CE a) (base s) B E). now destruct s.
Qed.

Lemma pm_run st h : st = Run -> pm st h = S (List.length (hp h)).
Proof. now intros ->. Qed.
Lemma pm_hp st h h' : hp h' = hp h -> pm st h' = pm st h.
Proof. unfold pm. now intros ->. Qed.

Lemma aeffective sp c w s :
  closes sp = true -> AInv s -> aen sp c w s = true -> am (astep sp c w s) < am s.
Proof.
  intros Hc AI E. pose proof (ainv_step sp c w s Hc AI) as [[B' _] _].
  destruct AI as [I St]. pose proof I as [B _].
  unfold astep in *. rewrite B, Hc in *. unfold aen, aenG, aenE, aenab in E. unfold am.
  destruct c as [a|a]; simpl in E.
  - destruct (decide _ _ _ _ _ _) eqn:D; try discriminate.
    + pose proof (decide_run2 _ _ _ _ _ _ _ D ltac:(discriminate)) as R.
      simpl. rewrite (pm_run _ _ R). unfold pm. simpl. lia.
    + pose proof (decide_run2 _ _ _ _ _ _ _ D ltac:(discriminate)) as R.
      simpl. rewrite (pm_run _ _ R). unfold pm. simpl. lia.
    + pose proof (decide_run2 _ _ _ _ _ _ _ D ltac:(discriminate)) as R.
      simpl in *. unfold step in *. rewrite B in *.
      destruct (step_half a (cG (base s)) (cE (base s))) as [[g e] b] eqn:Es. simpl in *. subst b.
      destruct (enabled_decr _ _ _ _ _ E Es) as [H1 H2].
      rewrite (pm_hp _ _ _ H2), !(pm_run _ _ R). lia.
  - destruct (decide _ _ _ _ _ _) eqn:D; try discriminate.
    + pose proof (decide_run2 _ _ _ _ _ _ _ D ltac:(discriminate)) as R.
      simpl. rewrite (pm_run _ _ R). unfold pm. simpl. lia.
    + pose proof (decide_run2 _ _ _ _ _ _ _ D ltac:(discriminate)) as R.
      simpl. rewrite (pm_run _ _ R). unfold pm. simpl. lia.
    + pose proof (decide_run2 _ _ _ _ _ _ _ D ltac:(discriminate)) as R.
      simpl in *. unfold step in *. rewrite B in *.
      destruct (step_half a (cE (base s)) (cG (base s))) as [[e g] b] eqn:Es. simpl in *. subst b.
      destruct (enabled_decr _ _ _ _ _ E Es) as [H1 H2].
      rewrite (pm_hp _ _ _ H2), !(pm_run _ _ R). lia.
Qed.

Lemma term_run_nil h : term Run h = false -> hp h <> [].
Proof. unfold term. simpl. destruct (hp h); [discriminate|discriminate]. Qed.

Lemma aprogress sp s : AInv s -> afin s = false -> aenG sp false s = true \/ aenE sp false s = true.
Proof.
  intros [I (S1 & S2 & S3 & S4)] D. pose proof I as [B _].
  unfold afin in D. rewrite B in D. simpl in D.
  unfold aenG, aenE.
  destruct (stG s) eqn:EG; try (now elim S1); destruct (stE s) eqn:EE; try (now elim S2);
    try (specialize (S3 eq_refl); discriminate); try (specialize (S4 eq_refl); discriminate);
    try (simpl in D; discriminate).
  - (* both running *)
    unfold aenab, decide.
    destruct (at_abort (abG sp) (cG (base s))); auto.
    destruct (at_abort (abE sp) (cE (base s))); auto. simpl.
    apply inv_progress; auto. unfold cfg_done, half_done. rewrite B. simpl.
    unfold term in D. simpl in D.
    destruct (hp (cG (base s))); [|reflexivity]. destruct (hp (cE (base s))); [discriminate|].
    destruct (hb (cG (base s))), (hc (cG (base s))); reflexivity.
  - (* the evaluator has closed *)
    left. apply aenab_closed. apply term_run_nil.
    unfold term in D at 2. simpl in D. now rewrite andb_true_r in D.
  - (* the garbler has closed *)
    right. apply aenab_closed. apply term_run_nil.
    unfold term in D at 1. simpl in D. exact D.
Qed.

Lemma afin_step sp c w s : closes sp = true -> AInv s -> afin s = true -> afin (astep sp c w s) = true.
Proof.
  intros Hc [I _] D. pose proof I as [B _]. destruct (aen sp c w s) eqn:E.
  2:{ now rewrite (astutter sp c w s B E). }
  unfold afin in D. rewrite B in D. simpl in D. apply andb_prop in D. destruct D as [DG DE].
  unfold astep. rewrite B, Hc. unfold afin.
  destruct c as [a|a].
  - destruct (decide _ _ _ _ _ _) eqn:Dc; simpl.
    + exact DE.
    + rewrite B. simpl. exact DE.
    + pose proof (decide_run2 _ _ _ _ _ _ _ Dc ltac:(discriminate)) as R.
      rewrite R in DG. unfold term in DG. simpl in DG.
      destruct (hp (cG (base s))) eqn:Eh; [|discriminate].
      assert (En : en (CG a) (base s) = false) by (unfold en, enabled; simpl; now rewrite Eh).
      rewrite (step_stutter (CG a) (base s) B En), B, R. unfold term. simpl. rewrite Eh. exact DE.
    + rewrite B, DG, DE. reflexivity.
  - destruct (decide _ _ _ _ _ _) eqn:Dc; simpl.
    + rewrite DG. reflexivity.
    + rewrite B, DG. reflexivity.
    + pose proof (decide_run2 _ _ _ _ _ _ _ Dc ltac:(discriminate)) as R.
      rewrite R in DE. unfold term in DE. simpl in DE.
      destruct (hp (cE (base s))) eqn:Eh; [|discriminate].
      assert (En : en (CE a) (base s) = false) by (unfold en, enabled; simpl; now rewrite Eh).
      rewrite (step_stutter (CE a) (base s) B En), B, R, DG. unfold term. simpl. now rewrite Eh.
    + rewrite B, DG, DE. reflexivity.
Qed.

Lemma afin_run sp sched : closes sp = true -> forall s, AInv s -> afin s = true -> afin (arun sp sched s) = true.
Proof.
  intros Hc. unfold arun. induction sched as [|[c w] r IH]; simpl; intros s I D; auto.
  apply IH; [now apply ainv_step|now apply afin_step].
Qed.

Lemma afair_run sp (Hc : closes sp = true) (sched : asched) :
  forall s sg se, AInv s ->
    (sg = true -> aenG sp false s = false) ->
    (se = true -> aenE sp false s = false) ->
    am s <= count_rounds sg se (map fst sched) ->
    afin (arun sp sched s) = true.
Proof.
  induction sched as [|[c w] r IH]; intros s sg se I Hg He M.
  - simpl in *. destruct (afin s) eqn:D; auto. exfalso.
    assert (Z : am s = 0) by lia. unfold am in Z.
    destruct (aprogress sp s I D) as [E|E]; apply aenab_run in E; rewrite (pm_run _ _ E) in Z; lia.
  - destruct (afin s) eqn:D; [now apply afin_run|].
    change (arun sp ((c, w) :: r) s) with (arun sp r (astep sp c w s)).
    simpl map in M.
    destruct (aen sp c w s) eqn:E.
    + pose proof (aeffective sp c w s Hc I E) as Lt.
      apply (IH (astep sp c w s) false false (ainv_step sp c w s Hc I)); try discriminate.
      simpl in M.
      pose proof (proj1 (count_rounds_facts (map fst r)) (sg || is_g c) (se || negb (is_g c))).
      destruct ((sg || is_g c) && (se || negb (is_g c))); lia.
    + rewrite (astutter sp c w s (proj1 (proj1 I)) E). simpl in M.
      assert (Hg' : sg || is_g c = true -> aenG sp false s = false).
      { intros H. apply orb_prop in H. destruct H as [H|H]; auto. unfold aen in E. rewrite H in E.
        unfold aenG in *. now rewrite (aenab_indep _ false w). }
      assert (He' : se || negb (is_g c) = true -> aenE sp false s = false).
      { intros H. apply orb_prop in H. destruct H as [H|H]; auto. unfold aen in E.
        apply negb_true_iff in H. rewrite H in E. unfold aenE in *. now rewrite (aenab_indep _ false w). }
      destruct ((sg || is_g c) && (se || negb (is_g c))) eqn:C.
      * exfalso. apply andb_prop in C. destruct C as [C1 C2].
        destruct (aprogress sp s I D) as [X|X]; [rewrite (Hg' C1) in X|rewrite (He' C2) in X]; discriminate.
      * apply (IH s _ _ I Hg' He' M).
Qed.

(* how a party can have ended *)
Definition ended (mine peer : status) (h : half) : Prop :=
  (mine = Run /\ hp h = []) \/ mine = Closed \/ (mine = Failed /\ peer = Closed).

Lemma ainv_init tg te : Sync false false tg te false false -> AInv (ainit tg te).
Proof.
  intros S. split.
  - split; [reflexivity|]. left. simpl. repeat split; auto. exists [], te. repeat split; auto.
  - repeat split; simpl; discriminate.
Qed.

Theorem abort_live :
  forall g e, well_flushed g e = true ->
  forall (en : env) (ag ae : option nat) (sched : asched), afair g e en sched ->
    let s := arun_live g e en (mkSpec ag ae true) sched in
    bad (base s) = false /\
    ended (stG s) (stE s) (cG (base s)) /\ ended (stE s) (stG s) (cE (base s)).
Proof.
  intros g e W en ag ae sched F. unfold well_flushed in W.
  destruct (check _ false false g e) as [[[|] [|]]|] eqn:C; try discriminate.
  destruct (check_sound _ _ _ _ _ _ C en [] false false eq_refl eq_refl) as (a & b & Ha & Hb & S).
  simpl in Ha, Hb. apply implb_false_r in Ha. apply implb_false_r in Hb. subst a b.
  pose proof (ainv_init _ _ S) as I0.
  set (sp := mkSpec ag ae true).
  assert (Fin : afin (arun_live g e en sp sched) = true).
  { unfold arun_live. apply (afair_run sp eq_refl sched _ false false I0); try discriminate.
    unfold afair, round_bound in F. unfold am, ainit, pm. simpl. lia. }
  pose proof (ainv_run sp sched eq_refl _ I0) as [[B _] (S1 & S2 & S3 & S4)].
  fold (arun_live g e en sp sched) in B, S1, S2, S3, S4.
  simpl. fold sp. set (s := arun_live g e en sp sched) in *.
  unfold afin in Fin. rewrite B in Fin. simpl in Fin. apply andb_prop in Fin. destruct Fin as [TG TE].
  split; [exact B|]. unfold ended, term in *. split.
  - destruct (stG s); simpl in TG; auto.
    + left. split; auto. destruct (hp (cG (base s))); [reflexivity|discriminate].
    + now elim S1.
  - destruct (stE s); simpl in TE; auto.
    + left. split; auto. destruct (hp (cE (base s))); [reflexivity|discriminate].
    + now elim S2.
Qed.

(* once the peer has closed, every scheduling of a party that has not returned
   yet makes it advance: a Send or Flush is executed (or fails), a Receive
   delivers a message still in flight or fails with EOF — nothing blocks *)
Theorem closed_peer_never_blocks :
  forall sp s a w, closes sp = true -> AInv s ->
    (stE s = Closed -> stG s = Run -> hp (cG (base s)) <> [] -> am (astep sp (CG a) w s) < am s) /\
    (stG s = Closed -> stE s = Run -> hp (cE (base s)) <> [] -> am (astep sp (CE a) w s) < am s).
Proof.
  intros sp s a w Hc I. split; intros H1 H2 H3; apply aeffective; auto;
    unfold aen, aenG, aenE; simpl; rewrite H1, H2; now apply aenab_closed.
Qed.

(* every state reachable from the start of an accepted pair satisfies AInv *)
Theorem reachable_ainv :
  forall g e, well_flushed g e = true ->
  forall en ag ae sched, AInv (arun_live g e en (mkSpec ag ae true) sched).
Proof.
  intros g e W en ag ae sched. unfold well_flushed in W.
  destruct (check _ false false g e) as [[[|] [|]]|] eqn:C; try discriminate.
  destruct (check_sound _ _ _ _ _ _ C en [] false false eq_refl eq_refl) as (a & b & Ha & Hb & S).
  simpl in Ha, Hb. apply implb_false_r in Ha. apply implb_false_r in Hb. subst a b.
  apply ainv_run; [reflexivity|]. now apply ainv_init.
Qed.

(* ------------------------------------------------------------------ *)
(** * The variant without the close: the peer waits forever *)

Definition alt' (n : nat) : asched := map (fun c => (c, false)) (alt n).

Lemma alt'_rounds n : count_rounds false false (map fst (alt' n)) = n.
Proof. unfold alt'. rewrite map_map. simpl. rewrite map_id. apply alt_rounds. Qed.

Lemma alt'_app a b : alt' (a + b) = alt' a ++ alt' b.
Proof. unfold alt'. now rewrite alt_app, map_app. Qed.

Definition mini_te : list act := flat mini_env [] (mini_evaluator true).
Definition mini_tg : list act := flat mini_env [] mini_garbler.

(* the evaluator returns an error at its very first Receive *)
Definition mini_spec (closes : bool) : aspec := mkSpec None (Some (List.length mini_te)) closes.

Definition abort_stuck : acfg :=
  mkA (mkCfg (mkHalf [ARecv "Uint32"%nm; ARecv "Uint32"%nm; ASend "Label"%nm; AFlush] []
                     ["Data"%nm; "Label"%nm; "Label"%nm; "Data"%nm])
             (mkHalf mini_te [] []) false) Run Halted.

Lemma abort_stuck_forever n :
  arun (mini_spec false) (alt' (6 + n)) (ainit mini_tg mini_te) = abort_stuck.
Proof.
  rewrite alt'_app. unfold arun. rewrite fold_left_app.
  change (fold_left (fun s cw => astep (mini_spec false) (fst cw) (snd cw) s) (alt' n)
            (arun (mini_spec false) (alt' 6) (ainit mini_tg mini_te)) = abort_stuck).
  replace (arun (mini_spec false) (alt' 6) (ainit mini_tg mini_te)) with abort_stuck by (vm_compute; reflexivity).
  induction n as [|n IH]; simpl; auto.
Qed.

Lemma astep_dead sp c w s : stE s = Closed -> stG s = Failed -> astep sp c w s = s.
Proof.
  intros H1 H2. unfold astep. destruct (bad (base s)); auto.
  destruct c; unfold decide; rewrite ?H1, ?H2; reflexivity.
Qed.

Theorem no_close_refuted :
  exists (g e : prog) (en : env) (ae : option nat),
    well_flushed g e = true /\
    (* with the close (the code): terminated after 6 rounds of the alternating schedule *)
    (forall n, 6 <= n ->
       let s := arun_live g e en (mkSpec None ae true) (alt' n) in
       stE s = Closed /\ stG s = Failed) /\
    (* without: for every n the alternating schedule of n complete rounds leaves the
       garbler blocked in its Receive, and from round 6 on nothing changes any more *)
    forall n, count_rounds false false (map fst (alt' n)) = n /\
              afin (arun_live g e en (mkSpec None ae false) (alt' n)) = false /\
              (6 <= n -> arun_live g e en (mkSpec None ae false) (alt' n) = abort_stuck).
Proof.
  exists mini_garbler, (mini_evaluator true), mini_env, (Some (List.length mini_te)).
  split; [vm_compute; reflexivity|]. split.
  - intros n H. replace n with (6 + (n - 6)) by lia. generalize (n - 6). clear n H. intros n.
    unfold arun_live. fold mini_tg mini_te. rewrite alt'_app. unfold arun. rewrite fold_left_app.
    set (s6 := fold_left _ (alt' 6) _).
    assert (E6 : stE s6 = Closed /\ stG s6 = Failed) by (vm_compute; auto).
    clearbody s6. revert s6 E6. induction n as [|n IH]; intros s6 E6; [exact E6|].
    destruct E6 as [E1 E2].
    change (alt' (S n)) with ((CG false, false) :: (CE false, false) :: alt' n).
    cbn [fold_left fst snd]. rewrite (astep_dead _ (CG false) false s6) by auto.
    rewrite (astep_dead _ (CE false) false s6) by auto. apply IH. auto.
  - intros n. split; [apply alt'_rounds|].
    assert (K : 6 <= n -> arun_live mini_garbler (mini_evaluator true) mini_env
                            (mkSpec None (Some (List.length mini_te)) false) (alt' n) = abort_stuck).
    { intros H. replace n with (6 + (n - 6)) by lia. apply abort_stuck_forever. }
    split; [|exact K].
    destruct (le_lt_dec 6 n) as [H|H]; [rewrite (K H); reflexivity|].
    do 6 (destruct n as [|n]; [vm_compute; reflexivity|]). lia.
Qed.

(* non-vacuity: fair schedules in the sense of [afair] exist for the miniature session *)
Example afair_nonvacuous :
  afair mini_garbler (mini_evaluator true) mini_env (alt' (round_bound mini_garbler (mini_evaluator true) mini_env + 2)).
Proof. unfold afair. rewrite alt'_rounds. lia. Qed.

(* ------------------------------------------------------------------ *)
(** * The sessions GENERATED from the source, every OT kind *)
From Mpc Require Import Gen.Skel Proto.LiveInst Proto.LiveInstProof.

Lemma abort_live_sessions :
  forall (k : otkind) (en : env) (ag ae : option nat) (sched : asched),
    afair (garbler_skel k) (evaluator_skel k) en sched ->
    let s := arun_live (garbler_skel k) (evaluator_skel k) en (mkSpec ag ae true) sched in
    bad (base s) = false /\
    ended (stG s) (stE s) (cG (base s)) /\ ended (stE s) (stG s) (cE (base s)).
Proof.
  intros k. apply abort_live.
  destruct k; [exact live_co|exact live_rsa|exact live_cot|exact live_cot_malicious].
Qed.
