(* SessionRxProof.v — C16 at the byte level: for EVERY byte string arriving at
   the garbler under EVERY fragmentation, the result loop either fails or
   returns bits each of which is backed by the honest label or by the honest
   label xor R sitting at its 16-byte position of the stream. *)
From Coq Require Import ZArith NArith List Bool Arith Lia.
From Mpc Require Import Base.Label Base.Codec Circuit.Circuit Circuit.Garble Circuit.GarbleProof
     Proto.Session Proto.SessionProof Proto.Conn Proto.ConnProof Proto.SessionRx.
Import ListNotations.
Open Scope N_scope.

Lemma all_init t : all (r_init t) = t_stream t.
Proof. reflexivity. Qed.

Lemma firstn_exact {A} (a b : list A) k : length a = k -> firstn k (a ++ b) = a.
Proof. intros <-. rewrite firstn_app, Nat.sub_diag, firstn_all. cbn. apply app_nil_r. Qed.
Lemma skipn_exact {A} (a b : list A) k : length a = k -> skipn k (a ++ b) = b.
Proof. intros <-. rewrite skipn_app, Nat.sub_diag, skipn_all. reflexivity. Qed.
Lemma skipn_past {A} (a b : list A) k m : length a = k -> skipn (k + m) (a ++ b) = skipn m b.
Proof.
  intros <-. rewrite skipn_app. rewrite skipn_all2 by lia. cbn [app].
  f_equal. lia.
Qed.

Lemma parse_fixed_spec (k : N) (s bs rest : list N) :
  parse_fixed k s = Some (bs, rest) -> s = bs ++ rest /\ length bs = N.to_nat k.
Proof.
  unfold parse_fixed. destruct (k <=? nlen s) eqn:E; [|discriminate].
  intros H. inversion H; subst bs rest. split; [symmetry; apply ntake_ndrop|].
  apply N.leb_le in E. unfold nlen in E. unfold ntake. rewrite firstn_length. lia.
Qed.

(* parsing n labels = cutting n 16-byte blocks *)
Lemma parse_labels_blocks : forall n s vs rest,
  parse_all (repeat TLabel n) s = Some (vs, rest) ->
  length vs = n /\ (16 * n <= length s)%nat /\
  forall i, (i < n)%nat -> label_of_val (nth i vs (VLabel 0)) = block16 i s.
Proof.
  induction n as [|n IH]; intros s vs rest H; cbn [repeat parse_all] in H.
  - inversion H; subst. cbn. repeat split; try lia.
  - unfold parse_ty in H. unfold parse_num in H.
    destruct (parse_fixed 16 s) as [[bs s1]|] eqn:PF; cbn [omap] in H; [|discriminate].
    destruct (parse_all (repeat TLabel n) s1) as [[vs' rest']|] eqn:PA; [|discriminate].
    inversion H; subst vs rest. clear H.
    destruct (IH _ _ _ PA) as (HL & HS & HB).
    pose proof (parse_fixed_spec 16 s bs s1 PF) as (Hs & Hlen). change (N.to_nat 16) with 16%nat in Hlen.
    cbn [length]. split; [lia|]. split.
    + subst s. rewrite app_length. lia.
    + intros i Hi. destruct i as [|i].
      * cbn [nth label_of_val]. unfold block16. replace (16 * 0)%nat with 0%nat by lia. cbn [skipn]. subst s.
        rewrite (firstn_exact bs s1 16 Hlen). reflexivity.
      * cbn [nth]. rewrite HB by lia. unfold block16. subst s.
        replace (16 * S i)%nat with (16 + 16 * i)%nat by lia.
        rewrite (skipn_past bs s1 16 (16 * i) Hlen). reflexivity.
Qed.

Lemma nth_map_label vs i : nth i (map label_of_val vs) 0 = label_of_val (nth i vs (VLabel 0)).
Proof. revert i; induction vs as [|v vs IH]; intros [|i]; cbn; auto. Qed.

Section Rx.
  Variable pi_of_key : list N -> N -> N.

  (* every byte string, every fragmentation, with or without EOF-with-data *)
  Theorem garbler_rx_result_sound (rcap : N) (rnd : nat -> N) (key : list N) (scratch : list wire)
          (c : circ2) (x y : list bool) (bytes frags : list N) (eofdata : bool) (bits : list bool) :
    16 <= rcap -> wf2 c = true -> length x = n0 c -> length y = n1 c ->
    let g := garble (pi_of_key key) rnd scratch (cc c) in
    snd (garbler_rx_result rcap c g (r_init (mkT bytes frags eofdata 0))) = Some bits ->
    (16 * noutputs (cc c) <= length bytes)%nat /\ length bits = noutputs (cc c) /\
    forall i, (i < noutputs (cc c))%nat ->
      let honest := pick (nth i (out_wires c g) w0) (nth i (eval_plain (cc c) (x ++ y)) false) in
      (nth i bits false = nth i (eval_plain (cc c) (x ++ y)) false /\ block16 i bytes = honest) \/
      (nth i bits false <> nth i (eval_plain (cc c) (x ++ y)) false /\
       block16 i bytes = lxor honest (gR g)).
  Proof.
    intros Hcap Hwf Hx Hy g H. unfold garbler_rx_result in H.
    pose proof (recv_all_refines rcap Hcap (repeat TLabel (noutputs (cc c)))
                  (r_init (mkT bytes frags eofdata 0))
                  ltac:(apply Forall_forall; intros ? Ht; apply repeat_spec in Ht; subst; exact I)
                  (RInv_init rcap _)) as R.
    cbv zeta in R. destruct R as (_ & _ & R). rewrite all_init in R. cbn [t_stream] in R.
    destruct (recv_all rcap (repeat TLabel (noutputs (cc c))) (r_init (mkT bytes frags eofdata 0)))
      as [r' [vs|]] eqn:RA; cbn [snd] in *; [|discriminate].
    destruct (parse_all (repeat TLabel (noutputs (cc c))) bytes) as [[vs' rest]|] eqn:PA;
      [|discriminate].
    destruct R as (Rv & _). inversion Rv; subst vs'. clear Rv.
    destruct (parse_labels_blocks _ _ _ _ PA) as (HL & HS & HB).
    destruct (garbler_wrong_implies_forgery pi_of_key rnd key scratch c x y
                (map label_of_val vs) bits Hwf Hx Hy H) as (Hlen & Hd).
    split; [exact HS|]. split; [exact Hlen|].
    intros i Hi. specialize (Hd i Hi). cbv zeta in Hd.
    rewrite nth_map_label, HB in Hd by exact Hi. exact Hd.
  Qed.

End Rx.

  (* fewer than 16 * noutputs bytes ever arrive: error, never a value *)
  Theorem garbler_rx_short_is_error (rcap : N) (c : circ2) (g : garbled) (bytes frags : list N) (eofdata : bool) :
    16 <= rcap -> (length bytes < 16 * noutputs (cc c))%nat ->
    snd (garbler_rx_result rcap c g (r_init (mkT bytes frags eofdata 0))) = None.
  Proof.
    intros Hcap Hshort. unfold garbler_rx_result.
    pose proof (recv_all_refines rcap Hcap (repeat TLabel (noutputs (cc c)))
                  (r_init (mkT bytes frags eofdata 0))
                  ltac:(apply Forall_forall; intros ? Ht; apply repeat_spec in Ht; subst; exact I)
                  (RInv_init rcap _)) as R.
    cbv zeta in R. destruct R as (_ & _ & R). rewrite all_init in R. cbn [t_stream] in R.
    destruct (recv_all rcap (repeat TLabel (noutputs (cc c))) (r_init (mkT bytes frags eofdata 0)))
      as [r' [vs|]] eqn:RA; cbn [snd] in *; [|reflexivity].
    destruct (parse_all (repeat TLabel (noutputs (cc c))) bytes) as [[vs' rest]|] eqn:PA;
      [|discriminate].
    destruct (parse_labels_blocks _ _ _ _ PA) as (_ & HS & _). lia.
  Qed.

  (* the OT query: whatever 8 bytes arrive, the garbler goes on only for exactly
     (n0, n1) *)
  Theorem garbler_rx_query_sound (rcap : N) (c : circ2) (bytes frags : list N) (eofdata : bool) :
    16 <= rcap ->
    snd (garbler_rx_query rcap c (r_init (mkT bytes frags eofdata 0))) = Some true ->
    (8 <= length bytes)%nat /\
    of_be (firstn 4 bytes) = N.of_nat (n0 c) /\ of_be (firstn 4 (skipn 4 bytes)) = N.of_nat (n1 c).
  Proof.
    intros Hcap H. unfold garbler_rx_query in H.
    pose proof (recv_all_refines rcap Hcap [TU32; TU32]
                  (r_init (mkT bytes frags eofdata 0)) ltac:(repeat constructor) (RInv_init rcap _)) as R.
    cbv zeta in R. destruct R as (_ & _ & R). rewrite all_init in R. cbn [t_stream] in R.
    destruct (recv_all rcap [TU32; TU32] (r_init (mkT bytes frags eofdata 0))) as [r' [vs|]] eqn:RA;
      cbn [snd] in *; [|discriminate].
    cbn [parse_all parse_ty] in R. unfold parse_num in R.
    destruct (parse_fixed 4 bytes) as [[b1 s1]|] eqn:P1; cbn [omap] in R; [|discriminate].
    destruct (parse_fixed 4 s1) as [[b2 s2]|] eqn:P2; cbn [omap] in R; [|discriminate].
    destruct R as (Rv & _). inversion Rv; subst vs. clear Rv.
    pose proof (parse_fixed_spec 4 bytes b1 s1 P1) as (Hs1 & Hl1). change (N.to_nat 4) with 4%nat in Hl1.
    pose proof (parse_fixed_spec 4 s1 b2 s2 P2) as (Hs2 & Hl2). change (N.to_nat 4) with 4%nat in Hl2.
    cbn in H. inversion H as [Hr]. apply range_check_spec in Hr. destruct Hr as (Ho & Hc).
    subst bytes s1. repeat rewrite app_length. split; [lia|].
    split.
    - rewrite (firstn_exact b1 _ 4 Hl1). exact Ho.
    - rewrite (skipn_exact b1 _ 4 Hl1), (firstn_exact b2 _ 4 Hl2). exact Hc.
  Qed.
