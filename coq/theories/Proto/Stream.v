(* Stream.v — executable model of streaming mode:
     circuit/stream_garble.go     Streaming.Get/Set/Garble/garbleGate  -> [sget], [sset], [sgate_step],
                                                                         [garble_circ], [encode_gate]
     circuit/stream_evaluator.go  the gate decoder and on-the-fly
                                  evaluation, the OpReturn result loop  -> [decode_gate], [eval_sgate],
                                                                         [evaluator_run]
                                  receiveArgument                       -> [receive_argument]
     compiler/ssa/streamer.go     Program.Stream (the step loop, garble,
                                  ZeroWire/OneWire, DefineConstants,
                                  the result loop), sendArgument        -> [stream_step], [stream_run],
                                                                         [stream_eval], [send_argument]
   and the reference (whole-circuit, circuitgen.go) meaning of the same step
   list on bit vectors                                                  -> [ssa_eval].
   The per-gate garbling code is Circuit/GGarble.v's [ggate_core] (written
   once; [conc_H] is its concrete instance).  The circuit walk is written once
   over the kind of thing a wire holds (a pair of labels for the garbler, a
   bit for the value-level execution the simulation theorem is about).
   No proofs here (see StreamProof.v). *)
From Coq Require Import NArith ZArith List Bool Arith FMapPositive.
From Mpc Require Import Gen.Consts Base.Label Base.Codec Circuit.Circuit Circuit.Garble Circuit.GGarble Lang.Gc.
Import ListNotations.
Local Open Scope nat_scope.

(* ------------------------------------------------------------------ *)
(** * Persistent wire store: wires[w>>16][w&0xffff], unset = zero value *)

Definition key_of (id : N) : positive := N.succ_pos id.
Definition sfind {T} (d : T) (m : PositiveMap.t T) (id : N) : T :=
  match PositiveMap.find (key_of id) m with Some x => x | None => d end.
Definition sadd {T} (m : PositiveMap.t T) (id : N) (x : T) : PositiveMap.t T :=
  PositiveMap.add (key_of id) x m.

(* ------------------------------------------------------------------ *)
(** * The streamed gate and its wire format *)

Record sgate := mkSgate {
  sop : op;
  saT : bool; sbT : bool; scT : bool;      (* operand is a circuit-local tmp wire *)
  sa : N; sb : N; sc : N;                  (* wire indices (global id or tmp index) *)
  srows : list N                           (* transmitted garbled rows *)
}.

Definition op_code (o : op) : N :=
  Z.to_N (match o with XOR => circuit_XOR | XNOR => circuit_XNOR | AND => circuit_AND
                    | OR => circuit_OR | INV => circuit_INV end).
Definition op_of_code (c : N) : option op :=
  if N.eqb c (op_code XOR) then Some XOR else if N.eqb c (op_code XNOR) then Some XNOR
  else if N.eqb c (op_code AND) then Some AND else if N.eqb c (op_code OR) then Some OR
  else if N.eqb c (op_code INV) then Some INV else None.

Definition table_count (o : op) : nat :=
  match o with XOR | XNOR => 0 | INV => 1 | AND => 2 | OR => 3 end%nat.

Definition b2n (b : bool) (v : N) : N := if b then v else 0%N.

(* "aIndex <= 0xffff && bIndex <= 0xffff && cIndex <= 0xffff" *)
Definition short_ids (g : sgate) : bool :=
  (sa g <=? 65535)%N && (sb g <=? 65535)%N && (sc g <=? 65535)%N.

Definition op_byte (g : sgate) : N :=
  (op_code (sop g) + b2n (saT g) 128 + b2n (sbT g) 64 + b2n (scT g) 32 + b2n (short_ids g) 16)%N.

(* the tail of Streaming.garbleGate: op byte, 2 or 3 wire indices of 16 or 32
   bits (uint16()/uint32() conversions truncate), then the rows *)
Definition encode_gate (g : sgate) : list N :=
  let w := if short_ids g then 2%nat else 4%nat in
  op_byte g ::
  (match sop g with
   | INV => be w (sa g) ++ be w (sc g)
   | _ => be w (sa g) ++ be w (sb g) ++ be w (sc g)
   end)
  ++ concat (map (be 16) (srows g)).

Definition take (k : nat) (bs : list N) : option (list N * list N) :=
  if length bs <? k then None else Some (firstn k bs, skipn k bs).

Definition recv_int (k : nat) (bs : list N) : option (N * list N) :=
  match take k bs with Some (h, t) => Some (of_be h, t) | None => None end.

Fixpoint recv_labels (n : nat) (bs : list N) : option (list N * list N) :=
  match n with
  | O => Some ([], bs)
  | S n' =>
      match recv_int 16 bs with
      | Some (l, bs1) =>
          match recv_labels n' bs1 with
          | Some (ls, bs2) => Some (l :: ls, bs2)
          | None => None
          end
      | None => None
      end
  end.

(* the gate reader of StreamEvaluator; None = read error / invalid operation *)
Definition decode_gate (bs : list N) : option (sgate * list N) :=
  match bs with
  | [] => None
  | gop :: bs0 =>
      let aT := N.testbit gop 7 in
      let bT := N.testbit gop 6 in
      let cT := N.testbit gop 5 in
      let w := if N.testbit gop 4 then 2%nat else 4%nat in
      match op_of_code (N.land gop 15) with
      | None => None
      | Some o =>
          match recv_int w bs0 with
          | None => None
          | Some (a, bs1) =>
              match (match o with INV => Some (0%N, bs1) | _ => recv_int w bs1 end) with
              | None => None
              | Some (b, bs2) =>
                  match recv_int w bs2 with
                  | None => None
                  | Some (c, bs3) =>
                      match recv_labels (table_count o) bs3 with
                      | None => None
                      | Some (rows, bs4) => Some (mkSgate o aT bT cT a b c rows, bs4)
                      end
                  end
              end
          end
      end
  end.

Fixpoint decode_gates (n : nat) (bs : list N) : option (list sgate * list N) :=
  match n with
  | O => Some ([], bs)
  | S n' =>
      match decode_gate bs with
      | Some (g, bs1) =>
          match decode_gates n' bs1 with
          | Some (gs, bs2) => Some (g :: gs, bs2)
          | None => None
          end
      | None => None
      end
  end.

(* what a gate must satisfy to be representable on the wire *)
Definition sgate_ok (g : sgate) : Prop :=
  (sa g < 2 ^ 32)%N /\ (sb g < 2 ^ 32)%N /\ (sc g < 2 ^ 32)%N /\
  length (srows g) = table_count (sop g) /\
  Forall (fun r => (r < 2 ^ 128)%N) (srows g) /\
  (sop g = INV -> sb g = 0%N).

(* ------------------------------------------------------------------ *)
(** * One circuit through the streaming garbler (Streaming.Garble) *)

Section Walk.
  Variable T : Type.        (* what a wire holds *)
  Variable d : T.           (* Go zero value *)
  Variable St : Type.       (* per-circuit state: the tweak counter *)
  (* a b op state -> output, state', transmitted rows *)
  Variable gatef : T -> T -> op -> St -> T * St * list N.

  Record cstate := mkCstate {
    cs_wires : PositiveMap.t T;    (* Streaming.wires *)
    cs_tmp : PositiveMap.t T;      (* Streaming.tmp *)
    cs_tmplen : nat                (* len(Streaming.tmp) *)
  }.

  (* Streaming.initCircuit: tmp is reallocated (zeroed) only when too small *)
  Definition init_circuit (cs : cstate) (numWires : nat) : cstate :=
    if cs_tmplen cs <? numWires then mkCstate (cs_wires cs) (PositiveMap.empty T) numWires else cs.

  Section One.
    Variable ins outs : list N.
    Variable firstTmp firstOut : nat.

    (* Streaming.Get *)
    Definition sget (cs : cstate) (w : nat) : T * N * bool :=
      if w <? firstTmp then
        let index := nth w ins 0%N in (sfind d (cs_wires cs) index, index, false)
      else if firstOut <=? w then
        let index := nth (w - firstOut) outs 0%N in (sfind d (cs_wires cs) index, index, false)
      else (sfind d (cs_tmp cs) (N.of_nat w), N.of_nat w, true).

    (* Streaming.Set / the output part of garbleGate *)
    Definition sset (cs : cstate) (w : nat) (v : T) : cstate * N * bool :=
      if w <? firstTmp then
        let index := nth w ins 0%N in
        (mkCstate (sadd (cs_wires cs) index v) (cs_tmp cs) (cs_tmplen cs), index, false)
      else if firstOut <=? w then
        let index := nth (w - firstOut) outs 0%N in
        (mkCstate (sadd (cs_wires cs) index v) (cs_tmp cs) (cs_tmplen cs), index, false)
      else (mkCstate (cs_wires cs) (sadd (cs_tmp cs) (N.of_nat w) v) (cs_tmplen cs), N.of_nat w, true).

    (* Streaming.garbleGate up to the encoding *)
    Definition sgate_step (cs : cstate) (st : St) (g : gate) : cstate * St * sgate :=
      let '(b, bI, bT) := match gop g with INV => (d, 0%N, false) | _ => sget cs (gin1 g) end in
      let '(a, aI, aT) := sget cs (gin0 g) in
      let '(c, st', rows) := gatef a b (gop g) st in
      let '(cs', cI, cT) := sset cs (gout g) c in
      (cs', st', mkSgate (gop g) aT bT cT aI bI cI rows).

    Fixpoint sgates (cs : cstate) (st : St) (gs : list gate) : cstate * St * list sgate :=
      match gs with
      | [] => (cs, st, [])
      | g :: gs' =>
          let '(cs1, st1, sg) := sgate_step cs st g in
          let '(cs2, st2, sgs) := sgates cs1 st1 gs' in
          (cs2, st2, sg :: sgs)
      end.
  End One.

  (* Streaming.Garble: [st0] is Streaming.id, the tweak counter, which runs
     over the whole session; the final counter is returned *)
  Definition garble_circ (cs : cstate) (st0 : St) (c : circuit) (ins outs : list N)
    : cstate * St * list sgate :=
    sgates ins outs (length ins) (nwires c - length outs) (init_circuit cs (nwires c)) st0 (gates c).
End Walk.

Arguments mkCstate {T}.
Arguments cs_wires {T}.
Arguments cs_tmp {T}.
Arguments cs_tmplen {T}.

(* the garbler's instance: wires hold label pairs; the tweak counter is
   Streaming.id (session-wide since commit bd8e7af; before it restarted at 0
   for every circuit) *)
Definition label_gatef (pi : N -> N) (r : N) (a b : wire) (o : op) (id : N) : wire * N * list N :=
  let '(c, id', rows, _) := ggate_core unit sbit (conc_H pi) r a b o id tt in (c, id', rows).

Definition garble_circ_labels (pi : N -> N) (r : N) (cs : cstate wire) (id : N) (c : circuit) (ins outs : list N) :=
  garble_circ wire w0 N (label_gatef pi r) cs id c ins outs.

(* the value-level instance: wires hold bits, nothing is transmitted *)
Definition bit_gatef (a b : bool) (o : op) (st : unit) : bool * unit * list N := (gate_fn o a b, st, []).

Definition garble_circ_bits (cs : cstate bool) (c : circuit) (ins outs : list N) : cstate bool * list sgate :=
  let '(cs', _, sgs) := garble_circ bool false unit bit_gatef cs tt c ins outs in (cs', sgs).

(* p2p.Conn SendUint32 *)
Definition u32 (n : N) : list N := be 4 n.

Definition max_id (ids : list N) : N := fold_left N.max ids 0%N.

(* Program.garble: the circuit header (OpCircuit, step, NumGates, NumWires,
   maxID+1) followed by the gates *)
Definition circ_header (step : nat) (c : circuit) (ins outs : list N) : list N :=
  u32 (Z.to_N circuit_OpCircuit) ++ u32 (N.of_nat step) ++ u32 (N.of_nat (length (gates c)))
  ++ u32 (N.of_nat (nwires c)) ++ u32 (N.max (max_id ins) (max_id outs) + 1).

(* ------------------------------------------------------------------ *)
(** * Evaluator side: one streamed gate on labels *)

Section Eval.
  Variable pi : N -> N.

  Record estate := mkEstate { es_wires : PositiveMap.t N; es_tmp : PositiveMap.t N; es_tmplen : nat }.

  Definition eget (es : estate) (tmp : bool) (w : N) : N :=
    if tmp then sfind 0%N (es_tmp es) w else sfind 0%N (es_wires es) w.
  Definition eset (es : estate) (tmp : bool) (w : N) (l : N) : estate :=
    if tmp then mkEstate (es_wires es) (sadd (es_tmp es) w l) (es_tmplen es)
    else mkEstate (sadd (es_wires es) w l) (es_tmp es) (es_tmplen es).

  (* StreamEval.InitCircuit *)
  Definition einit (es : estate) (numTmp : nat) : estate :=
    if es_tmplen es <? numTmp then mkEstate (es_wires es) (PositiveMap.empty N) numTmp else es.

  (* the evaluation part of the gate loop: the crypto is Circuit.Eval's
     (Garble.geval_gate on the two operand labels) *)
  Definition eval_sgate (es : estate) (id : N) (g : sgate) : option (estate * N) :=
    let a := eget es (saT g) (sa g) in
    let b := match sop g with INV => 0%N | _ => eget es (sbT g) (sb g) end in
    match geval_gate pi [a; b] id (mkGate 0 1 0 (sop g)) (srows g) with
    | Some (out, id') => Some (eset es (scT g) (sc g) out, id')
    | None => None
    end.

  Fixpoint eval_sgates (es : estate) (id : N) (gs : list sgate) : option (estate * N) :=
    match gs with
    | [] => Some (es, id)
    | g :: gs' =>
        match eval_sgate es id g with
        | Some (es', id') => eval_sgates es' id' gs'
        | None => None
        end
    end.

  (* the main loop of StreamEvaluator on the bytes that follow the OT:
     OpCircuit blocks until OpReturn; returns the labels of the returned ids.
     [fuel] bounds the number of blocks, [tw] is the session-wide tweak counter. *)
  Fixpoint evaluator_run (fuel : nat) (nout : nat) (es : estate) (tw : N) (bs : list N) : option (list N * list N) :=
    match fuel with
    | O => None
    | S f =>
        match recv_int 4 bs with
        | None => None
        | Some (opn, bs0) =>
            if N.eqb opn (Z.to_N circuit_OpCircuit) then
              match recv_int 4 bs0 with None => None | Some (_step, bs1) =>
              match recv_int 4 bs1 with None => None | Some (numGates, bs2) =>
              match recv_int 4 bs2 with None => None | Some (numTmp, bs3) =>
              match recv_int 4 bs3 with None => None | Some (_numWires, bs4) =>
                match decode_gates (N.to_nat numGates) bs4 with
                | None => None
                | Some (gs, bs5) =>
                    match eval_sgates (einit es (N.to_nat numTmp)) tw gs with
                    | Some (es', tw') => evaluator_run f nout es' tw' bs5
                    | None => None
                    end
                end end end end end
            else if N.eqb opn (Z.to_N circuit_OpReturn) then
              (fix ids (k : nat) (bs : list N) : option (list N * list N) :=
                 match k with
                 | O => Some ([], bs)
                 | S k' =>
                     match recv_int 4 bs with
                     | Some (id, bs') =>
                         match ids k' bs' with
                         | Some (ls, r) => Some (eget es false id :: ls, r)
                         | None => None
                         end
                     | None => None
                     end
                 end) nout bs0
            else None
        end
    end.
End Eval.

(* ------------------------------------------------------------------ *)
(** * Program.Stream at the value level: wire ids + bits *)

(* circuit table entry: the circuit and, for Circ instructions, the bit sizes
   of Circ.Inputs / Circ.Outputs *)
Record ccirc := mkCcirc { cc_c : circuit; cc_ins : list nat; cc_outs : list nat }.
Definition cc0 : ccirc := mkCcirc (mkCircuit 0 0 0 []) [] [].

(* what one garble() call put on the stream (without rows) *)
Record ctrace := mkCtrace { ct_step : nat; ct_ngates : nat; ct_nwires : nat; ct_maxid : N; ct_gates : list sgate }.

Record sstate := mkSstate {
  ss_w : walloc;
  ss_cs : cstate bool;
  ss_zero : N;                 (* prog.zeroWire.ID() *)
  ss_trace : list ctrace;      (* reversed *)
  ss_ret : list N              (* returnIDs *)
}.

(* Program.garble *)
Definition vgarble (st : sstate) (step : nat) (c : circuit) (ins outs : list N) : sstate :=
  let '(cs', sgs) := garble_circ_bits (ss_cs st) c ins outs in
  mkSstate (ss_w st) cs' (ss_zero st)
           (mkCtrace step (length (gates c)) (nwires c) (N.max (max_id ins) (max_id outs) + 1) sgs :: ss_trace st)
           (ss_ret st).

(* the operand loop at the top of the step loop *)
Fixpoint operand_ids (w : walloc) (zero : N) (ins : list val) : list (list N) * walloc :=
  match ins with
  | [] => ([], w)
  | i :: rest =>
      let '(ids, w1) := assigned_ids w (vid i) (vbits i) in
      let '(r, w2) := operand_ids w1 zero rest in
      (pad_operand N zero (vsigned i) (vbits i) ids :: r, w2)
  end.

(* Circ: "Collect input and output IDs" *)
Definition circ_in_ids (zero : N) (sizes : list nat) (wires : list (list N)) : list N :=
  concat (map (fun p => let '(bits, w) := p in
                        map (fun j => if j <? length w then nth j w 0%N else zero) (seq 0 bits))
              (combine sizes wires)).

Fixpoint circ_out_ids (w : walloc) (zero : N) (sizes : list nat) (rets : list val) : list N * walloc :=
  match sizes, rets with
  | bits :: sizes', r :: rets' =>
      let '(ids, w1) := assigned_ids w (vid r) (vbits r) in
      let '(o, w2) := circ_out_ids w1 zero sizes' rets' in
      (map (fun j => if j <? length ids then nth j ids 0%N else zero) (seq 0 bits) ++ o, w2)
  | _, _ => ([], w)
  end.

Definition with_w (st : sstate) (w : walloc) : sstate :=
  mkSstate w (ss_cs st) (ss_zero st) (ss_trace st) (ss_ret st).

(* one iteration of the step loop; None = error return / panic *)
Definition stream_step (circs : list ccirc) (idx : nat) (s : instr) (st : sstate) : option sstate :=
  let '(wires, w1) := operand_ids (ss_w st) (ss_zero st) (iin s) in
  let '(out, w2) := match iout s with
                    | Some o => assigned_ids w1 (vid o) (vbits o)
                    | None => ([], w1)
                    end in
  let st2 := with_w st w2 in
  match iop s with
  | ORet =>
      Some (mkSstate w2 (ss_cs st) (ss_zero st) (ss_trace st) (ss_ret st ++ concat wires))
  | OGC =>
      match igc s with
      | Some v => match gc_wires w2 (vid v) with Some w3 => Some (with_w st w3) | None => None end
      | None => None
      end
  | OGen =>
      Some (vgarble st2 idx (cc_c (nth (icirc s) circs cc0)) (concat wires) out)
  | OCirc =>
      let cc := nth (icirc s) circs cc0 in
      let iIDs := circ_in_ids (ss_zero st) (cc_ins cc) wires in
      let '(oIDs, w3) := circ_out_ids w2 (ss_zero st) (cc_outs cc) (iret s) in
      Some (vgarble (with_w st w3) idx (cc_c cc) iIDs oIDs)
  | aop =>
      match iout s with
      | None => None
      | Some o =>
          match alias_ids N (ss_zero st) aop wires (map vcint (iin s)) out (vbits o) with
          | Some ids => Some (with_w st (set_ids w2 (vid o) ids))
          | None => None
          end
      end
  end.

Fixpoint stream_steps (circs : list ccirc) (idx : nat) (steps : list instr) (st : sstate) : option sstate :=
  match steps with
  | [] => Some st
  | s :: rest =>
      match stream_step circs idx s st with
      | Some st' => stream_steps circs (S idx) rest st'
      | None => None
      end
  end.

(* the circuits ZeroWire / OneWire stream: one XOR resp. XNOR gate on global
   wire 0 *)
Definition zero_circ : circuit := mkCircuit 2 1 1 [mkGate 0 0 1 XOR].
Definition one_circ : circuit := mkCircuit 2 1 1 [mkGate 0 0 1 XNOR].

(* the program as streaming sees it *)
Record sprog := mkSprog {
  sp_args : list (N * nat);            (* the two arguments: value key, bits *)
  sp_zero_key : N; sp_one_key : N;     (* keys of the {zero} / {one} values *)
  sp_consts : list (N * list bool);    (* prog.Constants: value key, bits (DefineConstants order) *)
  sp_circs : list ccirc;
  sp_outbits : list nat                (* prog.Outputs bit sizes *)
}.

(* DefineConstants *)
Definition define_constants (w : walloc) (zero one : N) (cs : list (N * list bool)) : walloc :=
  fold_left (fun w c => let '(k, bits) := c in
                        if allocated w k then w
                        else set_wires w k (map (fun b : bool => if b then one else zero) bits))
            cs w.

(* Program.Stream up to the step loop: input wire ids, input values into the
   store, zero and one wires, constants *)
Definition stream_init (p : sprog) (xy : list bool) : sstate :=
  let w1 := fold_left (fun w a => input_wires w (fst a) (snd a)) (sp_args p) walloc0 in
  let nin := N.to_nat (wnext w1) in
  let wires := fold_left (fun m i => sadd m (N.of_nat i) (nth i xy false)) (seq 0 nin) (PositiveMap.empty bool) in
  let '(zw, w2) := assigned_wires w1 (sp_zero_key p) 1 in
  let zero := nth 0 zw 0%N in
  let st0 := mkSstate w2 (mkCstate wires (PositiveMap.empty bool) 0) zero [] [] in
  let st1 := vgarble st0 0 zero_circ [0%N] [zero] in
  let '(ow, w3) := assigned_wires (ss_w st1) (sp_one_key p) 1 in
  let one := nth 0 ow 0%N in
  let st2 := vgarble (with_w st1 w3) 0 one_circ [0%N] [one] in
  with_w st2 (define_constants w3 zero one (sp_consts p)).

Definition stream_run (p : sprog) (steps : list instr) (xy : list bool) : option sstate :=
  stream_steps (sp_circs p) 0 steps (stream_init p xy).

(* the result loop: bit i of the result is the value of wire returnIDs[i],
   i < prog.Outputs.Size() *)
Definition stream_eval (p : sprog) (steps : list instr) (xy : list bool) : option (list bool) :=
  match stream_run p steps xy with
  | Some st =>
      Some (map (fun i => sfind false (cs_wires (ss_cs st)) (nth i (ss_ret st) 0%N))
                (seq 0 (fold_right Nat.add 0%nat (sp_outbits p))))
  | None => None
  end.

(* ------------------------------------------------------------------ *)
(** * The same step list on bit vectors with fresh storage per value:
      Program.Circuit (compiler/ssa/circuitgen.go) read as an evaluator.
      gc instructions do nothing. *)

Definition env := list (N * list bool).

Definition operand_bits (e : env) (i : val) : list bool :=
  let w := match lookup (vid i) e with Some b => b | None => repeat false (vbits i) end in
  pad_operand bool false (vsigned i) (vbits i) w.

Fixpoint bind_rets (e : env) (sizes : list nat) (rets : list val) (bits : list bool) : env :=
  match sizes, rets with
  | n :: sizes', r :: rets' =>
      let b := firstn n bits in
      (vid r, map (fun j => if j <? length b then nth j b false else false) (seq 0 (vbits r)))
      :: bind_rets e sizes' rets' (skipn n bits)
  | _, _ => e
  end.

Definition ssa_step (circs : list ccirc) (s : instr) (st : env * list bool) : option (env * list bool) :=
  let '(e, ret) := st in
  let wires := map (operand_bits e) (iin s) in
  match iop s with
  | ORet => Some (e, ret ++ concat wires)
  | OGC => Some (e, ret)
  | OGen =>
      match iout s with
      | Some o => Some ((vid o, eval_plain (cc_c (nth (icirc s) circs cc0)) (concat wires)) :: e, ret)
      | None => None
      end
  | OCirc =>
      let cc := nth (icirc s) circs cc0 in
      let inb := concat (map (fun p => let '(bits, w) := p in
                                       map (fun j => if j <? length w then nth j w false else false) (seq 0 bits))
                             (combine (cc_ins cc) wires)) in
      Some (bind_rets e (cc_outs cc) (iret s) (eval_plain (cc_c cc) inb), ret)
  | aop =>
      match iout s with
      | None => None
      | Some o =>
          match alias_ids bool false aop wires (map vcint (iin s)) (repeat false (vbits o)) (vbits o) with
          | Some b => Some ((vid o, b) :: e, ret)
          | None => None
          end
      end
  end.

Fixpoint ssa_steps (circs : list ccirc) (steps : list instr) (st : env * list bool) : option (env * list bool) :=
  match steps with
  | [] => Some st
  | s :: rest =>
      match ssa_step circs s st with
      | Some st' => ssa_steps circs rest st'
      | None => None
      end
  end.

Definition ssa_init (p : sprog) (xy : list bool) : env :=
  let '(e, _) := fold_left (fun acc a => let '(e, off) := acc in
                                          ((fst a, firstn (snd a) (skipn off xy ++ repeat false (snd a))) :: e,
                                           (off + snd a)%nat))
                           (sp_args p) ([], 0%nat) in
  fold_left (fun e c => match lookup (fst c) e with Some _ => e | None => c :: e end) (sp_consts p) e.

Definition ssa_eval (p : sprog) (steps : list instr) (xy : list bool) : option (list bool) :=
  match ssa_steps (sp_circs p) steps (ssa_init p xy, []) with
  | Some (_, ret) => Some (firstn (fold_right Nat.add 0%nat (sp_outbits p)) ret)
  | None => None
  end.

(* ------------------------------------------------------------------ *)
(** * "an id is never written while a live value's id list mentions it"

   Executable check along the allocator's execution: every non-constant
   operand of every step is allocated when it is used, and the ids a circuit
   step writes are disjoint from the zero/one wires and from the ids of every
   value that is an operand of this or a later step (other than the results
   of the step itself). *)

Definition ids_of (w : walloc) (v : N) : list N :=
  match lookup v (whash w) with
  | Some e => match eids e with Some ids => ids | None => match ewires e with Some ws => ws | None => [] end end
  | None => []
  end.

Definition used_from (steps : list instr) : list N :=
  flat_map (fun s => map vid (iin s)) steps.

Definition disjoint_ids (a b : list N) : bool := forallb (fun x => negb (mem x b)) a.

Definition write_ok (w : walloc) (written : list N) (outs : list N) (later : list N) (fixed : list N) : bool :=
  disjoint_ids written fixed &&
  forallb (fun v => mem v outs || disjoint_ids written (ids_of w v)) later.

(* the wire-allocator part of one step of the step loop (what stream_step does
   to ss_w; it does not depend on the values on the wires) *)
Definition wstep (circs : list ccirc) (zero : N) (s : instr) (w : walloc) : option walloc :=
  let '(wires, w1) := operand_ids w zero (iin s) in
  let '(out, w2) := match iout s with
                    | Some o => assigned_ids w1 (vid o) (vbits o)
                    | None => ([], w1)
                    end in
  match iop s with
  | ORet => Some w2
  | OGC => match igc s with Some v => gc_wires w2 (vid v) | None => None end
  | OGen => Some w2
  | OCirc => let '(_, w3) := circ_out_ids w2 zero (cc_outs (nth (icirc s) circs cc0)) (iret s) in Some w3
  | aop =>
      match iout s with
      | None => None
      | Some o =>
          match alias_ids N zero aop wires (map vcint (iin s)) out (vbits o) with
          | Some ids => Some (set_ids w2 (vid o) ids)
          | None => None
          end
      end
  end.

(* An error return of a step other than gc ends the execution (nothing is
   written afterwards); a gc of an unknown value (the GCWires panic) counts as
   a violation. *)
Fixpoint npr_steps (circs : list ccirc) (zero one : N) (steps : list instr) (w : walloc) : bool :=
  match steps with
  | [] => true
  | s :: rest =>
      forallb (fun i => vconst i || allocated w (vid i)) (iin s) &&
      match wstep circs zero s w with
      | None => match iop s with OGC => false | _ => true end
      | Some w' =>
          (match iop s with
           | OGen | OCirc =>
               let outs := outs_of s in
               let written := flat_map (ids_of w') outs in
               write_ok w' written outs (used_from steps) [zero; one]
           | _ => true
           end) && npr_steps circs zero one rest w'
      end
  end.

Definition no_premature_reuse (p : sprog) (steps : list instr) : bool :=
  let st := stream_init p [] in
  npr_steps (sp_circs p) (ss_zero st) (nth 0 (ids_of (ss_w st) (sp_one_key p)) 0%N) steps (ss_w st).

(* ------------------------------------------------------------------ *)
(** * Well-formed programs: what the theorems assume about the step list
      (without gc instructions) and the program description.  Executable; the
      correspondence check evaluates it on every generated program. *)

Definition const_keys (p : sprog) : list N := sp_zero_key p :: sp_one_key p :: map fst (sp_consts p).

Fixpoint nodupb (l : list N) : bool :=
  match l with [] => true | x :: t => negb (mem x t) && nodupb t end.

Definition sum_bits (l : list val) : nat := fold_right (fun i a => vbits i + a) 0 l.

Fixpoint list_nat_eqb (a b : list nat) : bool :=
  match a, b with
  | [], [] => true
  | x :: a', y :: b' => Nat.eqb x y && list_nat_eqb a' b'
  | _, _ => false
  end.

Definition sum_nat (l : list nat) : nat := fold_right Nat.add 0 l.

Definition step_ok (p : sprog) (nck : list N) (s : instr) : bool :=
  (* a native-circuit instruction (case Circ): the circuit is well-formed, has
     one input per operand (Circ.Inputs; an operand narrower or wider than its
     input is padded with the zero wire / truncated in place), its outputs are
     exactly as wide as the result values (Circ.Outputs vs Instr.Ret) and are
     not input wires *)
  (match iop s with
   | OCirc =>
       let cc := nth (icirc s) (sp_circs p) cc0 in
       let c := cc_c cc in
       wf c && Nat.eqb (length (cc_ins cc)) (length (iin s))
       && Nat.eqb (ninputs c) (sum_nat (cc_ins cc))
       && list_nat_eqb (cc_outs cc) (map vbits (iret s))
       && Nat.eqb (noutputs c) (sum_nat (cc_outs cc))
       && (ninputs c + noutputs c <=? nwires c)
   | _ => true
   end)
  (* keys of constants and of values are different ([nck]: the keys of the
     arguments and of all results) *)
  && forallb (fun i => if vconst i then negb (mem (vid i) nck)
                       else negb (mem (vid i) (const_keys p))) (iin s)
  && forallb (fun o => negb (mem o (const_keys p))) (outs_of s)
  (* an operand that is a program argument has the argument's width *)
  && forallb (fun i => match lookup (vid i) (sp_args p) with
                       | Some b => Nat.eqb (vbits i) b
                       | None => true
                       end) (iin s)
  (* slice fills its whole result *)
  && (match iop s, iout s with
      | OSlice, Some o =>
          let from := nth 1 (map vcint (iin s)) 0%Z in
          let to := nth 2 (map vcint (iin s)) 0%Z in
          (0 <=? from)%Z && (from <? to)%Z && Nat.eqb (Z.to_nat to - Z.to_nat from) (vbits o)
      | _, _ => true
      end)
  (* the circuit of a builder step: well-formed, as wide as its operands and
     its result, outputs are not inputs *)
  && (match iop s, iout s with
      | OGen, Some o =>
          let c := cc_c (nth (icirc s) (sp_circs p) cc0) in
          wf c && Nat.eqb (ninputs c) (sum_bits (iin s)) && Nat.eqb (noutputs c) (vbits o)
          && (ninputs c + noutputs c <=? nwires c)
      | _, _ => true
      end).

(* Operand positions whose wires carry a value the step reads (the other
   positions are compile-time counts read through ConstInt). *)
Definition value_positions (o : opc) (n : nat) : list nat :=
  match o with
  | OConcat | OAmov => [0; 1]
  | OLshift | ORshift | OSrshift | OSlice | OMov | OSmov => [0]
  | OGen | ORet | OCirc => seq 0 n
  | OGC => []
  end.

(* every constant operand in a value position is one of prog.Constants (a
   constant that is not gets wire ids from AssignedIDs that nothing ever
   writes: possibly recycled ids with stale values) *)
Definition consts_tabled (p : sprog) (steps : list instr) : bool :=
  forallb (fun s =>
    forallb (fun j => match nth_error (iin s) j with
                      | Some i => negb (vconst i) || mem (vid i) (map fst (sp_consts p))
                      | None => true
                      end) (value_positions (iop s) (length (iin s)))) steps.

(* The same with the exception real listings need: a constant operand of a
   builder step (default: branch) may be outside prog.Constants when NO GATE of
   the step's circuit reads the input wires of that operand — the offset
   operand of index, which circuits.NewIndex bakes into the circuit instead of
   reading it.  [wire_read c k]: some gate of c has input wire k as an operand
   (the second operand of INV is not one). *)
Definition wire_read (c : circuit) (k : nat) : bool :=
  existsb (fun g => Nat.eqb (gin0 g) k
                    || match gop g with INV => false | _ => Nat.eqb (gin1 g) k end) (gates c).

Definition range_unread (c : circuit) (off n : nat) : bool :=
  forallb (fun k => negb (wire_read c k)) (seq off n).

(* first circuit input wire of operand j of a builder step *)
Definition opnd_off (ins : list val) (j : nat) : nat := sum_bits (firstn j ins).

Definition const_ok (p : sprog) (s : instr) (j : nat) (i : val) : bool :=
  negb (vconst i) || mem (vid i) (map fst (sp_consts p))
  || match iop s with
     | OGen => range_unread (cc_c (nth (icirc s) (sp_circs p) cc0)) (opnd_off (iin s) j) (vbits i)
     | _ => false
     end.

Definition consts_read_tabled (p : sprog) (steps : list instr) : bool :=
  forallb (fun s =>
    forallb (fun j => match nth_error (iin s) j with
                      | Some i => const_ok p s j i
                      | None => true
                      end) (value_positions (iop s) (length (iin s)))) steps.

(* the ret instruction returns as many bits as prog.Outputs declares *)
Definition ret_bits (steps : list instr) : nat :=
  fold_right (fun s a => match iop s with ORet => sum_bits (iin s) + a | _ => a end) 0 steps.
Definition outbits_ok (p : sprog) (steps : list instr) : bool :=
  Nat.eqb (fold_right Nat.add 0 (sp_outbits p)) (ret_bits steps).

Definition wf_prog (p : sprog) (steps : list instr) : bool :=
  wf_ssa (map fst (sp_args p)) steps
  && nodupb (map fst (sp_args p) ++ const_keys p)
  && forallb (step_ok p (map fst (sp_args p) ++ flat_map outs_of steps)) steps.

(* ------------------------------------------------------------------ *)
(** * The per-instruction circuit cache of Program.Stream
      (cache[instr.StringTyped()]; bts/btc are not cached)

   What the generator of a step circuit reads is the step's SHAPE: the opcode,
   the bit sizes of the operands (for a slice-typed operand: element size times
   length), the bit size of the result and, for index, the constant offset.
   The cache is sound iff it is a memo: two steps with the same key have the
   same shape.  [memo_ok] checks that for the (key, shape) list of a program —
   the keys are the strings the Go code computes, numbered by the harness;
   [cached_run] is the cache itself, for any generator. *)
Definition shape := (Z * list nat * nat * Z)%type.

Definition step_shape (opcode : Z) (s : instr) : shape :=
  (opcode, map vbits (iin s), match iout s with Some o => vbits o | None => 0 end,
   if Z.eqb opcode compiler_ssa_Index then nth 1 (map vcint (iin s)) 0%Z else 0%Z).

Definition shape_eqb (a b : shape) : bool :=
  let '(o1, i1, r1, c1) := a in
  let '(o2, i2, r2, c2) := b in
  Z.eqb o1 o2 && list_nat_eqb i1 i2 && Nat.eqb r1 r2 && Z.eqb c1 c2.

Section Memo.
  Variables (S C : Type) (seqb : S -> S -> bool) (gen : S -> C).

  Fixpoint memo_ok (l : list (N * S)) (seen : list (N * S)) : bool :=
    match l with
    | [] => true
    | (k, sh) :: t =>
        match lookup k seen with
        | Some sh0 => seqb sh0 sh && memo_ok t seen
        | None => memo_ok t ((k, sh) :: seen)
        end
    end.

  (* the circuits the cached streamer uses, step by step *)
  Fixpoint cached_run (l : list (N * S)) (cache : list (N * C)) : list C :=
    match l with
    | [] => []
    | (k, sh) :: t =>
        match lookup k cache with
        | Some c => c :: cached_run t cache
        | None => let c := gen sh in c :: cached_run t ((k, c) :: cache)
        end
    end.
End Memo.

(* ------------------------------------------------------------------ *)
(** * sendArgument / receiveArgument *)

(* circuit.IOArg as transmitted: name, type string, Type.Bits, Compound *)
Inductive ioarg := IOA (name : list N) (tstr : list N) (bits : N) (comp : list ioarg).

Definition send_data (bs : list N) : list N := u32 (N.of_nat (length bs)) ++ bs.

Fixpoint send_argument (a : ioarg) : list N :=
  match a with
  | IOA name t bits comp =>
      send_data name ++ send_data t ++ u32 bits ++ u32 (N.of_nat (length comp))
      ++ concat (map send_argument comp)
  end.

Definition recv_data (bs : list N) : option (list N * list N) :=
  match recv_int 4 bs with
  | Some (n, bs1) => take (N.to_nat n) bs1
  | None => None
  end.

(* receiveArgument without the interpretation of the type string; fuel bounds
   the nesting depth *)
Fixpoint receive_argument (fuel : nat) (bs : list N) : option (ioarg * list N) :=
  match fuel with
  | O => None
  | S f =>
      match recv_data bs with None => None | Some (name, bs1) =>
      match recv_data bs1 with None => None | Some (t, bs2) =>
      match recv_int 4 bs2 with None => None | Some (size, bs3) =>
      match recv_int 4 bs3 with None => None | Some (count, bs4) =>
        match (fix members (k : nat) (bs : list N) : option (list ioarg * list N) :=
           match k with
           | O => Some ([], bs)
           | S k' =>
               match receive_argument f bs with
               | Some (a, bs') =>
                   match members k' bs' with
                   | Some (l, r) => Some (a :: l, r)
                   | None => None
                   end
               | None => None
               end
           end) (N.to_nat count) bs4 with
        | Some (comp, rest) => Some (IOA name t size comp, rest)
        | None => None
        end
      end end end end
  end.
