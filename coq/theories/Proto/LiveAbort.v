(* LiveAbort.v — ERROR EXITS for the liveness model of C02 (Proto/Live.v).

   What the Go code does on an error (read in /repo, not changed):
   - circuit.Garbler (circuit/garbler.go), circuit.Evaluator
     (circuit/evaluator.go) and every OT operation (ot/co.go, ot/rsa.go,
     ot/cot.go, ot/iknp*.go) `return nil, err` / `return err` on the first
     failing Send/Receive/Flush or failed check.  NONE of them closes the
     connection.
   - the CALLER closes it: apps/garbled/main.go evaluatorMode calls
     `conn.Close()` right after circuit.Evaluator returns (error or not),
     garblerMode has `defer conn.Close()` (and a process that exits has its
     socket closed by the kernel).
   - p2p/protocol.go Conn.Close: `Flush()` FIRST (what is left in the write
     buffer goes out), then closes the underlying io.Closer.
   - the peer: Conn.Fill returns the transport's error (io.EOF) once the bytes
     in flight are used up, so a Receive after the close fails; a Send only
     copies into the write buffer; a Flush hands the buffer to the writer
     goroutine and either succeeds (TCP: the kernel takes the bytes) or
     reports the writer's error (io.Pipe: ErrClosedPipe) — both are allowed
     here (schedule bit [werr]).

   Model: the two halves of Live.v plus a status per party.  Each party may
   have an abort point ([Some r]: when [r] or fewer actions remain it returns
   an error instead of going on; any point of the program, in particular every
   Receive; [Some 0] = normal return followed by the caller's Close; [None] =
   never returns an error on its own).  [closes] says whether the caller
   closes the connection after an error return (the code: yes; the variant
   [false] is the refuted one).  No proofs in this file. *)
From Coq Require Import List Bool Arith.
From Mpc Require Import Proto.Live.
Import ListNotations.

Inductive status :=
| Run      (* executing, or returned without error (rest of the program = []) *)
| Closed   (* returned an error / finished, and the caller closed the Conn *)
| Halted   (* returned an error, connection left open (variant closes = false) *)
| Failed.  (* got EOF / a write error because the peer had closed: error return *)

Definition is_run (s : status) : bool := match s with Run => true | _ => false end.
Definition is_closed (s : status) : bool := match s with Closed => true | _ => false end.

Record aspec := mkSpec { abG : option nat; abE : option nat; closes : bool }.

Record acfg := mkA { base : cfg; stG : status; stE : status }.

Definition at_abort (ab : option nat) (x : half) : bool :=
  match ab with Some r => Nat.leb (List.length (hp x)) r | None => false end.

(* what the party [x] (status sx, peer y with status sy) does when scheduled *)
Inductive move := MAbort | MFail | MLive | MNone.

Definition decide (ab : option nat) (werr : bool) (x y : half) (sx sy : status) : move :=
  match sx with
  | Run =>
      if at_abort ab x then MAbort
      else if is_closed sy then
        match hp x with
        | [] => MNone
        | ARecv _ :: _ => match hc y with [] => MFail (* Fill: EOF *) | _ => MLive end
        | _ => if werr then MFail else MLive         (* Send/Flush never block *)
        end
      else MLive
  | _ => MNone
  end.

(* Conn.Close: Flush, then close *)
Definition flush_half (x : half) : half := mkHalf (hp x) [] (hc x ++ hb x).

Definition after_abort (closes : bool) : status := if closes then Closed else Halted.

Definition astep (sp : aspec) (c : choice) (werr : bool) (s : acfg) : acfg :=
  if bad (base s) then s else
  let b := base s in
  match c with
  | CG _ =>
      match decide (abG sp) werr (cG b) (cE b) (stG s) (stE s) with
      | MAbort => mkA (if closes sp then mkCfg (flush_half (cG b)) (cE b) false else b)
                      (after_abort (closes sp)) (stE s)
      | MFail => mkA b Failed (stE s)
      | MLive => mkA (step c b) (stG s) (stE s)
      | MNone => s
      end
  | CE _ =>
      match decide (abE sp) werr (cE b) (cG b) (stE s) (stG s) with
      | MAbort => mkA (if closes sp then mkCfg (cG b) (flush_half (cE b)) false else b)
                      (stG s) (after_abort (closes sp))
      | MFail => mkA b (stG s) Failed
      | MLive => mkA (step c b) (stG s) (stE s)
      | MNone => s
      end
  end.

(* schedule: who moves, whether a Send flushes on its own, whether a write
   towards a closed peer reports an error *)
Definition asched := list (choice * bool).

Definition arun (sp : aspec) (sched : asched) (s : acfg) : acfg :=
  fold_left (fun s cw => astep sp (fst cw) (snd cw) s) sched s.

Definition ainit (tg te : list act) : acfg := mkA (init_cfg tg te) Run Run.

(* a party has terminated: its function has returned (with or without error) *)
Definition term (st : status) (h : half) : bool :=
  negb (is_run st) || match hp h with [] => true | _ => false end.
Definition afin (s : acfg) : bool :=
  negb (bad (base s)) && term (stG s) (cG (base s)) && term (stE s) (cE (base s)).

Definition arun_live (g e : prog) (en : env) (sp : aspec) (sched : asched) : acfg :=
  arun sp sched (ainit (flat en [] g) (flat en [] e)).

(* fairness: two more rounds than Live.fair (one per status change) *)
Definition afair (g e : prog) (en : env) (sched : asched) : Prop :=
  round_bound g e en + 2 <= count_rounds false false (map fst sched).

(* ---- deterministic reference run for the correspondence check: no automatic
   flush, no write errors; garbler until it cannot move, then evaluator, ...
   Observable per party: (status code, number of messages it received) *)
Definition st_code (st : status) (h : half) : nat :=
  match st with
  | Run => match hp h with [] => 0 | _ => 4 (* still blocked *) end
  | Closed => 1 | Failed => 2 | Halted => 3
  end.

Definition amoves (isg : bool) (sp : aspec) (s : acfg) : bool :=
  let b := base s in
  let m := if isg then decide (abG sp) false (cG b) (cE b) (stG s) (stE s)
           else decide (abE sp) false (cE b) (cG b) (stE s) (stG s) in
  match m with
  | MNone => false
  | MLive => if isg then (match hp (cG b) with
                          | [] => false
                          | ARecv _ :: _ => match hc (cE b) with [] => false | _ => true end
                          | _ => true end)
             else (match hp (cE b) with
                   | [] => false
                   | ARecv _ :: _ => match hc (cG b) with [] => false | _ => true end
                   | _ => true end)
  | _ => true
  end.

Fixpoint aref_one (fuel : nat) (isg : bool) (sp : aspec) (s : acfg) : acfg * bool :=
  match fuel with
  | O => (s, false)
  | S f =>
      if bad (base s) then (s, false) else
      if amoves isg sp s then
        let s' := astep sp (if isg then CG false else CE false) false s in
        (fst (aref_one f isg sp s'), true)
      else (s, false)
  end.

Fixpoint aref (rounds fuel : nat) (sp : aspec) (s : acfg) : acfg :=
  match rounds with
  | O => s
  | S r =>
      let '(s1, p1) := aref_one fuel true sp s in
      let '(s2, p2) := aref_one fuel false sp s1 in
      if p1 || p2 then aref r fuel sp s2 else s2
  end.

Fixpoint count_recv (t : list act) : nat :=
  match t with
  | [] => 0
  | ARecv _ :: r => S (count_recv r)
  | _ :: r => count_recv r
  end.

(* number of actions left when the party is AT its k-th Receive (0-based):
   [Some] of that remainder, or [None] when there are not that many receives *)
Fixpoint rem_at_recv (k : nat) (t : list act) : option nat :=
  match t with
  | [] => None
  | ARecv _ :: r => match k with O => Some (List.length t) | S k' => rem_at_recv k' r end
  | _ :: r => rem_at_recv k r
  end.
