(* ConnErrProof.v — proofs about Proto/ConnErr.v (p2p.Conn under transport faults).
   A. main thread + writer goroutine with failing Writes, all interleavings
   B. the functional sender with write faults
   C. the receiver over a failing transport                                   *)
From Coq Require Import ZArith NArith List Bool Arith Lia ZifyN ZifyNat.
From Mpc Require Import Base.Codec Base.CodecProof Proto.Conn Proto.ConnProof Proto.ConnErr.
Import ListNotations.

(* ================================================================ A. ring *)

Lemma anyb_app a b : anyb (a ++ b) = anyb a || anyb b.
Proof. unfold anyb. apply existsb_app. Qed.

Lemma anyb_firstn_le : forall n m (l : list bool), n <= m -> anyb (firstn m l) = false -> anyb (firstn n l) = false.
Proof.
  induction n as [|n IH]; intros m l Hle H; [reflexivity|].
  destruct m as [|m]; [lia|]. destruct l as [|x l]; [reflexivity|].
  cbn in *. apply orb_false_iff in H. destruct H as (-> & H). cbn. apply (IH m); [lia|exact H].
Qed.

Lemma firstn_snoc_le {A} n (l : list A) x : n <= length l -> firstn n (l ++ [x]) = firstn n l.
Proof. intros H. rewrite firstn_app. replace (n - length l) with 0 by lia. cbn. apply app_nil_r. Qed.

Lemma anyb_firstn_snoc_mono n (l : list bool) x : anyb (firstn n l) = true -> anyb (firstn n (l ++ [x])) = true.
Proof. intros H. rewrite firstn_app, anyb_app, H. reflexivity. Qed.

Lemma nth_error_anyb : forall (l : list bool) j, nth_error l j = Some true -> anyb l = true.
Proof.
  unfold anyb. induction l as [|x l IH]; intros [|j] H; cbn in *; try discriminate.
  - injection H as ->. reflexivity.
  - rewrite (IH j H). apply orb_true_r.
Qed.

Lemma anyb_false_nth : forall (l : list bool) j b, anyb l = false -> nth_error l j = Some b -> b = false.
Proof. intros l j [|] Ha Hn; [|reflexivity]. rewrite (nth_error_anyb l j Hn) in Ha. discriminate. Qed.

Lemma nth_error_snoc {A} (l : list A) x j :
  nth_error (l ++ [x]) j = if j <? length l then nth_error l j else if j =? length l then Some x else None.
Proof.
  destruct (j <? length l) eqn:E.
  - apply Nat.ltb_lt in E. now rewrite nth_error_app1.
  - apply Nat.ltb_ge in E. rewrite nth_error_app2 by exact E.
    destruct (j =? length l) eqn:E2.
    + apply Nat.eqb_eq in E2. subst. now rewrite Nat.sub_diag.
    + apply Nat.eqb_neq in E2. destruct (j - length l) as [|[|k]] eqn:E3; cbn; try reflexivity; lia.
Qed.

Lemma nth_error_firstn_lt {A} : forall n (l : list A) i, i < n -> nth_error (firstn n l) i = nth_error l i.
Proof.
  induction n as [|n IH]; intros l i H; [lia|].
  destruct l as [|x l]; [destruct i; reflexivity|]. destruct i as [|i]; cbn; [reflexivity|apply IH; lia].
Qed.

Section ERingProofs.
Variable nb : nat.

Definition xalloc (w : ewpc) : nat := match w with XAlloc k => k | _ => nb end.
Definition xdone1 (w : ewpc) : nat := match w with XWrote _ | XRet => 1 | _ => 0 end.
Definition xhave (w : ewpc) : nat := match w with XHave => 1 | _ => 0 end.
Definition xsettled (w : ewpc) : nat := match w with XRet => 1 | _ => 0 end.
Definition inflush (m : empc) : nat := match m with EWait _ | ERead _ => 1 | _ => 0 end.

Definition main_rel (m : empc) (att acq : nat) : Prop :=
  match m with
  | EInit => att = 0 /\ acq = 0
  | EIdle => acq = S att
  | EWait _ => acq = att /\ 0 < att
  | ERead _ => acq = S att /\ 0 < att
  | EDrain | EClosed => S att <= acq
  end.

(* a flush attempt that returned nil: the Writes it is ordered after did not fail *)
Definition res_ok (res out : list bool) : Prop :=
  forall j, nth_error res j = Some false ->
    j + 2 - nb <= length out /\ anyb (firstn (j + 2 - nb) out) = false.
(* a flush attempt that returned the error: one of the Writes of the chunks sent so far failed *)
Definition res_sound (res out : list bool) : Prop :=
  forall j, nth_error res j = Some true -> anyb (firstn (S j) out) = true.
Definition res_mono (res : list bool) : Prop :=
  forall j k b, j <= k -> nth_error res j = Some true -> nth_error res k = Some b -> b = true.

Record EInv (e : ering) : Prop := {
  ei_main : main_rel (e_main e) (e_att e) (e_acq e);
  ei_tok : e_acq e + e_fromW e = xalloc (e_w e) + e_ret e;
  ei_alloc : xalloc (e_w e) <= nb;
  ei_out : length (e_out e) = e_ret e + xdone1 (e_w e);
  ei_att : e_att e = e_toW e + xhave (e_w e) + length (e_out e);
  ei_nres : length (e_res e) + inflush (e_main e) = e_att e;
  ei_last : forall b, e_w e = XWrote b -> exists o, e_out e = o ++ [b];
  ei_set : anyb (firstn (e_ret e + xsettled (e_w e)) (e_out e)) = true -> e_werr e = true;
  ei_sound : e_werr e = true -> anyb (e_out e) = true;
  ei_res : res_ok (e_res e) (e_out e);
  ei_rsound : res_sound (e_res e) (e_out e);
  ei_mono : res_mono (e_res e);
  ei_sticky : anyb (e_res e) = true -> e_werr e = true;
  ei_closed : e_toWc e = true <-> (e_main e = EDrain \/ e_main e = EClosed);
  ei_fwc : e_fromWc e = true <-> e_w e = XDone;
  ei_done : e_w e = XDone -> e_toWc e = true /\ e_toW e = 0;
  ei_close : forall r, e_close e = Some r -> e_main e = EClosed /\ r = e_werr e /\ e_w e = XDone;
  ei_closed2 : e_main e = EClosed -> e_close e <> None
}.

Lemma EInv_init : EInv e_init.
Proof.
  split; cbn; try lia; try tauto; try discriminate.
  all: try (intros [|j] H; discriminate).
  all: try (intros [|j] k b _ H; discriminate).
  all: try (split; [discriminate|intros [H|H]; discriminate]).
  all: try (split; discriminate).
Qed.

Lemma res_ok_snoc_out res out b : res_ok res out -> res_ok res (out ++ [b]).
Proof.
  intros H j Hj. destruct (H j Hj) as (H1 & H2). rewrite app_length. cbn. split; [lia|].
  now rewrite firstn_snoc_le.
Qed.

Lemma res_sound_snoc_out res out b : res_sound res out -> res_sound res (out ++ [b]).
Proof. intros H j Hj. apply anyb_firstn_snoc_mono, H, Hj. Qed.

Lemma res_ok_snoc_true res out : res_ok res out -> res_ok (res ++ [true]) out.
Proof.
  intros H j Hj. rewrite nth_error_snoc in Hj. destruct (j <? length res); [apply H, Hj|].
  destruct (j =? length res); discriminate.
Qed.

Lemma res_ok_snoc_false res out :
  res_ok res out -> length res + 2 - nb <= length out -> anyb (firstn (length res + 2 - nb) out) = false ->
  res_ok (res ++ [false]) out.
Proof.
  intros H H1 H2 j Hj. rewrite nth_error_snoc in Hj. destruct (j <? length res); [apply H, Hj|].
  destruct (j =? length res) eqn:E; [|discriminate]. apply Nat.eqb_eq in E. subst j. split; assumption.
Qed.

Lemma res_sound_snoc_false res out : res_sound res out -> res_sound (res ++ [false]) out.
Proof.
  intros H j Hj. rewrite nth_error_snoc in Hj. destruct (j <? length res); [apply H, Hj|].
  destruct (j =? length res); discriminate.
Qed.

Lemma res_sound_snoc_true res out :
  res_sound res out -> length out <= S (length res) -> anyb out = true -> res_sound (res ++ [true]) out.
Proof.
  intros H H1 H2 j Hj. rewrite nth_error_snoc in Hj. destruct (j <? length res); [apply H, Hj|].
  destruct (j =? length res) eqn:E; [|discriminate]. apply Nat.eqb_eq in E. subst j.
  rewrite firstn_all2 by lia. exact H2.
Qed.

Lemma res_mono_snoc res b : res_mono res -> (b = false -> anyb res = false) -> res_mono (res ++ [b]).
Proof.
  intros H Hb j k c Hjk Hj Hk. rewrite nth_error_snoc in Hj, Hk.
  destruct (j <? length res) eqn:Ej.
  - destruct (k <? length res) eqn:Ek; [apply (H j k c Hjk Hj Hk)|].
    destruct (k =? length res); [|discriminate]. injection Hk as <-.
    destruct b; [reflexivity|]. rewrite (nth_error_anyb _ _ Hj) in Hb. specialize (Hb eq_refl). discriminate.
  - apply Nat.ltb_ge in Ej. destruct (j =? length res) eqn:Ej2; [|discriminate]. apply Nat.eqb_eq in Ej2.
    injection Hj as ->. destruct (k <? length res) eqn:Ek; [apply Nat.ltb_lt in Ek; lia|].
    destruct (k =? length res); [|discriminate]. now injection Hk as <-.
Qed.

Lemma EInv_step e e' : EInv e -> estep nb e e' -> EInv e'.
Proof.
  intros I st. destruct st; destruct I as [Imain Itok Ialloc Iout Iatt Inres Ilast Iset Isound Ires Irsound Imono Isticky Iclosed Ifwc Idone Iclose Iclosed2];
    cbn [e_main e_att e_res e_acq e_toW e_toWc e_fromW e_fromWc e_w e_werr e_out e_ret e_close
         xalloc xdone1 xhave xsettled inflush main_rel] in *.
  all: split; cbn [e_main e_att e_res e_acq e_toW e_toWc e_fromW e_fromWc e_w e_werr e_out e_ret e_close
         xalloc xdone1 xhave xsettled inflush main_rel]; try assumption; try lia; try tauto.
  all: try (intros Hx; discriminate Hx).
  all: try (intros b0 Hx; discriminate Hx).
  all: try (intros _; discriminate).
  all: try (split; [intros Hx; first [apply Ifwc in Hx|apply Iclosed in Hx]; first [discriminate Hx | destruct Hx as [Hx|Hx]; discriminate Hx]
                   | intros Hx; first [discriminate Hx | destruct Hx as [Hx|Hx]; discriminate Hx]]).
  all: try (intros r Hr; destruct (Iclose r Hr) as (A & B & C); first [discriminate A | discriminate C]).
  all: try (intros r Hr; injection Hr as <-; repeat split; apply Ifwc; reflexivity).
  all: try (intros Hw; destruct (Idone Hw) as (A & B); apply Iclosed in A; destruct A as [A|A]; discriminate A).
  all: try (rewrite app_length; cbn [length]; lia).
  all: try (apply res_ok_snoc_true; assumption).
  all: try (apply res_sound_snoc_false; assumption).
  all: try (apply res_ok_snoc_out; assumption).
  all: try (apply res_sound_snoc_out; assumption).
  all: try (apply res_sound_snoc_true; [assumption | lia | apply Isound; reflexivity]).
  all: try (apply res_mono_snoc; [assumption | discriminate]).
  all: try (apply res_mono_snoc; [assumption | intros _; destruct (anyb res) eqn:E; [specialize (Isticky eq_refl); discriminate | reflexivity]]).
  all: try (apply res_ok_snoc_false; [assumption | lia |
              apply (anyb_firstn_le _ (ret + xsettled w)); [lia |
                destruct (anyb (firstn (ret + xsettled w) out)) eqn:E; [specialize (Iset eq_refl); discriminate | reflexivity]]]).
  all: try (rewrite anyb_app; cbn; intros Hx; rewrite orb_false_r in Hx; exact (Isticky Hx)).
  all: try (intros b0 Hb; injection Hb as <-; exists out; reflexivity).
  all: try (rewrite firstn_snoc_le by lia; exact Iset).
  all: try (intros Hx; rewrite anyb_app, (Isound Hx); reflexivity).
  all: try (intros _; destruct (Ilast true eq_refl) as (o & ->); rewrite anyb_app; cbn; apply orb_true_r).
  all: try (replace (S ret + 0) with (ret + 1) by lia; exact Iset).
  all: try (intros Hx; apply Iset; destruct (Ilast false eq_refl) as (o & Ho); subst out;
            rewrite app_length in Iout; cbn [length] in Iout;
            rewrite firstn_all2 in Hx by (rewrite app_length; cbn [length]; lia);
            rewrite anyb_app in Hx; cbn in Hx; rewrite orb_false_r in Hx;
            rewrite firstn_snoc_le by lia; rewrite firstn_all2 by lia; exact Hx).
Qed.

Lemma ereach_EInv e : ereach nb e -> EInv e.
Proof. induction 1 as [|e e' _ IH st]; [apply EInv_init|exact (EInv_step e e' IH st)]. Qed.

(* LATEST DETECTION: a flush attempt j that returned nil is ordered after the Writes
   0 .. j+1-nb, all of which were made and succeeded. *)
Theorem ering_flush_nil_means e j i : ereach nb e ->
  nth_error (e_res e) j = Some false -> i + nb <= j + 1 -> nth_error (e_out e) i = Some false.
Proof.
  intros R Hj Hi. destruct (ei_res e (ereach_EInv e R) j Hj) as (H1 & H2).
  destruct (nth_error (e_out e) i) as [b|] eqn:E.
  - destruct b; [|reflexivity].
    assert (Hf : nth_error (firstn (j + 2 - nb) (e_out e)) i = Some true).
    { rewrite nth_error_firstn_lt by lia. exact E. }
    rewrite (nth_error_anyb _ _ Hf) in H2. discriminate.
  - apply nth_error_None in E. lia.
Qed.

(* ... read the other way: once Write i has failed, flush attempt i+nb-1 and every
   later one return the error *)
Corollary ering_failed_write_reported e i j b : ereach nb e ->
  nth_error (e_out e) i = Some true -> i + nb <= j + 1 -> nth_error (e_res e) j = Some b -> b = true.
Proof.
  intros R Hi Hij Hj. destruct b; [reflexivity|].
  rewrite (ering_flush_nil_means e j i R Hj Hij) in Hi. discriminate.
Qed.

(* NO SPURIOUS ERROR: a flush attempt j returns the error only if one of the Writes of
   the chunks 0..j has failed *)
Theorem ering_error_means_failed_write e j : ereach nb e ->
  nth_error (e_res e) j = Some true -> exists i, i <= j /\ nth_error (e_out e) i = Some true.
Proof.
  intros R Hj. pose proof (ei_rsound e (ereach_EInv e R) j Hj) as H.
  unfold anyb in H. apply existsb_exists in H. destruct H as (x & Hin & ->).
  apply In_nth_error in Hin. destruct Hin as (i & Hi). exists i.
  assert (i < S j).
  { assert (Hl : i < length (firstn (S j) (e_out e))) by (apply nth_error_Some; congruence).
    rewrite firstn_length in Hl. lia. }
  split; [lia|]. rewrite nth_error_firstn_lt in Hi by lia. exact Hi.
Qed.

(* STICKY: after a flush attempt returned the error every later one does *)
Theorem ering_error_sticky e j k b : ereach nb e -> j <= k ->
  nth_error (e_res e) j = Some true -> nth_error (e_res e) k = Some b -> b = true.
Proof. intros R. apply (ei_mono e (ereach_EInv e R)). Qed.

(* CLOSE: when Close has come back from its second phase every slice handed to the
   writer has been offered to the transport, and Close returned the error exactly when one
   of these Writes failed (together with STICKY and the first phase: Close returns nil only
   if no Write of the whole connection failed) *)
Theorem ering_close_reports e r : ereach nb e -> e_close e = Some r ->
  length (e_out e) = e_att e /\ r = anyb (e_out e).
Proof.
  intros R Hc. pose proof (ereach_EInv e R) as I.
  destruct (ei_close e I r Hc) as (Hm & -> & Hw). destruct (ei_done e I Hw) as (_ & Htw).
  pose proof (ei_att e I) as Ha. pose proof (ei_out e I) as Ho. pose proof (ei_set e I) as Hs. pose proof (ei_sound e I) as Hd.
  rewrite Hw in *. cbn [xhave xdone1 xsettled] in *. split; [lia|].
  rewrite firstn_all2 in Hs by lia.
  destruct (e_werr e); destruct (anyb (e_out e)); try reflexivity; [specialize (Hd eq_refl)|specialize (Hs eq_refl)]; discriminate.
Qed.

(* the channel operations of main's Flush and of the writer never block on a full channel,
   also after Flushes that returned the error (where c.WriteBuf aliases a buffer of the writer
   and the buffer taken from fromWriter is dropped) *)
Theorem ering_sends_never_block e : ereach nb e ->
  (e_main e = EIdle -> e_toW e < nb) /\
  (e_w e = XRet -> e_fromW e < nb) /\
  (forall k, e_w e = XAlloc k -> k < nb -> e_fromW e < nb).
Proof.
  intros R. destruct (ereach_EInv e R) as [Imain Itok Ialloc Iout Iatt _ _ _ _ _ _ _ _ _ _ _ _ _].
  repeat split.
  - intros Hm. rewrite Hm in Imain. cbn in Imain.
    destruct (e_w e); cbn [xalloc xdone1 xhave] in *; lia.
  - intros Hw. rewrite Hw in *. cbn [xalloc xdone1 xhave] in *.
    destruct (e_main e); cbn [main_rel] in Imain; lia.
  - intros k Hw Hk. rewrite Hw in *. cbn [xalloc xdone1 xhave] in *.
    destruct (e_main e); cbn [main_rel] in Imain; lia.
Qed.

(* NO DEADLOCK: in every reachable state in which main is inside NewConn, Flush or Close
   (not between two calls, not finished) some step is enabled — main's own receive, or a
   step of the writer goroutine (conn.Write itself is assumed to return) *)
Theorem ering_no_deadlock e : 0 < nb -> ereach nb e ->
  e_main e <> EIdle -> e_main e <> EClosed -> exists e', estep nb e e'.
Proof.
  intros Hnb R Hn1 Hn2. pose proof (ereach_EInv e R) as I.
  destruct I as [Imain Itok Ialloc Iout Iatt Inres _ _ _ _ _ _ _ Iclosed Ifwc Idone _ _].
  destruct e as [m att res acq tw twc fw fwc w we out ret cl];
    cbn [e_main e_att e_res e_acq e_toW e_toWc e_fromW e_fromWc e_w e_werr e_out e_ret e_close] in *.
  (* ERead: the decision is always enabled *)
  destruct m as [| |clf|clf| |]; try congruence.
  4: { destruct fw as [|fw]; [|eexists; apply E_drain].
       destruct w as [k| | |b| |]; cbn [xalloc xdone1 xhave] in *.
       - destruct (Nat.eq_dec k nb) as [->|]; [eexists; apply X_alloc_done|eexists; apply X_alloc; lia].
       - destruct tw as [|tw]; [|eexists; apply X_take].
         assert (twc = true) as -> by (apply Iclosed; left; reflexivity). eexists; apply X_done.
       - eexists; apply (X_write nb false).
       - destruct b; eexists; [apply X_seterr|apply X_noerr].
       - eexists; apply X_return; lia.
       - assert (fwc = true) as -> by (apply Ifwc; reflexivity). eexists; apply E_drain_done. }
  3: { destruct we; [eexists; apply E_flush_err|]. destruct clf; eexists; [apply E_close_after_flush|apply E_flush_ok]. }
  all: destruct fw as [|fw]; [|eexists; first [apply E_init|apply E_flush_recv]].
  all: destruct w as [k| | |b| |]; cbn [xalloc xdone1 xhave main_rel] in *.
  all: try (destruct (Nat.eq_dec k nb) as [->|]; [eexists; apply X_alloc_done|eexists; apply X_alloc; lia]).
  all: try (destruct tw as [|tw]; [lia|eexists; apply X_take]).
  all: try (eexists; apply (X_write nb false)).
  all: try (destruct b; eexists; [apply X_seterr|apply X_noerr]).
  all: try (eexists; apply X_return; lia).
  all: destruct (Idone eq_refl) as (A & _); apply Iclosed in A; destruct A; discriminate.
Qed.

(* how many chunks can follow a failed one: as long as no flush attempt has returned the error,
   at most nb-1 slices have been handed to the writer after the chunk whose Write failed *)
Theorem ering_chunks_after_failure_bounded e i : 0 < nb -> ereach nb e ->
  nth_error (e_out e) i = Some true -> anyb (e_res e) = false -> e_att e <= i + nb.
Proof.
  intros Hnb R Hi Hres. pose proof (ereach_EInv e R) as I.
  pose proof (ei_nres e I) as Hn.
  assert (inflush (e_main e) <= 1) by (destruct (e_main e); cbn; lia).
  destruct (length (e_res e)) as [|n] eqn:El; [lia|].
  destruct (nth_error (e_res e) n) as [b|] eqn:En; [|apply nth_error_None in En; lia].
  pose proof (anyb_false_nth _ _ _ Hres En) as ->.
  destruct (Nat.le_gt_cases (i + nb) (n + 1)) as [Hle|Hgt]; [|lia].
  rewrite (ering_flush_nil_means e n i R En Hle) in Hi. discriminate.
Qed.

End ERingProofs.

(* the claim "no chunk is offered to the transport after a failed Write" is FALSE of the
   code (the writer goroutine only records the error and goes on): an execution with three
   buffers in which Write 0 fails and Write 1 is made and succeeds *)
Theorem ering_write_after_failed_write :
  exists e, ereach 3 e /\ e_out e = [true; false].
Proof.
  eexists. split.
  - pose proof (ereach_init 3) as H. unfold e_init in H.
    eapply ereach_step in H; [|apply X_alloc; lia].
    eapply ereach_step in H; [|apply X_alloc; lia].
    eapply ereach_step in H; [|apply X_alloc; lia].
    eapply ereach_step in H; [|apply X_alloc_done].
    eapply ereach_step in H; [|apply E_init].
    eapply ereach_step in H; [|apply (E_flush_send 3 false); lia].
    eapply ereach_step in H; [|apply E_flush_recv].
    eapply ereach_step in H; [|apply E_flush_ok].
    eapply ereach_step in H; [|apply (E_flush_send 3 false); lia].
    eapply ereach_step in H; [|apply E_flush_recv].
    eapply ereach_step in H; [|apply E_flush_ok].
    eapply ereach_step in H; [|apply X_take].
    eapply ereach_step in H; [|apply (X_write 3 true)].
    eapply ereach_step in H; [|apply X_seterr].
    eapply ereach_step in H; [|apply X_return; lia].
    eapply ereach_step in H; [|apply X_take].
    eapply ereach_step in H; [|apply (X_write 3 false)].
    exact H.
  - reflexivity.
Qed.

(* non-vacuity of the hypotheses of the theorems above: an execution in which a Write fails,
   the two following Flushes still return nil, the third returns the error, and Close (its
   Flush) returns it again *)
Example ering_nonvacuous :
  exists e, ereach 3 e /\ e_out e = [true; false] /\ e_res e = [false; false; true; true] /\ e_main e = EIdle.
Proof.
  eexists. split.
  - pose proof (ereach_init 3) as H. unfold e_init in H.
    eapply ereach_step in H; [|apply X_alloc; lia].
    eapply ereach_step in H; [|apply X_alloc; lia].
    eapply ereach_step in H; [|apply X_alloc; lia].
    eapply ereach_step in H; [|apply X_alloc_done].
    eapply ereach_step in H; [|apply E_init].
    eapply ereach_step in H; [|apply (E_flush_send 3 false); lia].
    eapply ereach_step in H; [|apply E_flush_recv].
    eapply ereach_step in H; [|apply E_flush_ok].
    eapply ereach_step in H; [|apply (E_flush_send 3 false); lia].
    eapply ereach_step in H; [|apply E_flush_recv].
    eapply ereach_step in H; [|apply E_flush_ok].
    eapply ereach_step in H; [|apply X_take].
    eapply ereach_step in H; [|apply (X_write 3 true)].
    eapply ereach_step in H; [|apply X_seterr].
    eapply ereach_step in H; [|apply X_return; lia].
    eapply ereach_step in H; [|apply (E_flush_send 3 false); lia].
    eapply ereach_step in H; [|apply E_flush_recv].
    eapply ereach_step in H; [|apply E_flush_err].
    eapply ereach_step in H; [|apply X_take].
    eapply ereach_step in H; [|apply (X_write 3 false)].
    eapply ereach_step in H; [|apply X_noerr].
    eapply ereach_step in H; [|apply X_return; lia].
    eapply ereach_step in H; [|apply (E_flush_send 3 true); lia].
    eapply ereach_step in H; [|apply E_flush_recv].
    eapply ereach_step in H; [|apply E_flush_err].
    exact H.
  - repeat split.
Qed.

(* ===================================================== B. functional sender *)

Open Scope N_scope.

Section FaultSenderProofs.
Variables (nbuf wcap : N).
Variable fl : nat -> option N.
Variable lag : nat.

Notation fflush' := (fflush nbuf fl lag).
Notation fput' := (fput nbuf wcap fl lag).
Notation fstep' := (fstep nbuf wcap fl lag).
Notation frun' := (frun nbuf wcap fl lag).
Notation seen := (err_seen fl lag).

Lemma any_fail_mono : forall n m, (n <= m)%nat -> any_fail fl n = true -> any_fail fl m = true.
Proof.
  intros n m H. induction H as [|m H IH]; [tauto|]. intros Hn. cbn. rewrite (IH Hn). reflexivity.
Qed.

Lemma seen_mono j k : (j <= k)%nat -> seen j = true -> seen k = true.
Proof. unfold err_seen. intros H. apply any_fail_mono. lia. Qed.

(* the state after a Flush has returned the error: bytes pending for ever, error visible *)
Definition Failed (s : sender) : Prop :=
  0 < wpos s /\ seen (attempts s) = true /\ s_closed s = false.

Lemma fflush_cases s :
  (fflush' s = (flush_buf nbuf s, false) /\ (wpos s = 0 \/ seen (attempts s) = false)) \/
  (exists s1, fflush' s = (s1, true) /\ 0 < wpos s /\ seen (attempts s) = true /\
     s_buf s1 = s_buf s /\ s_cur s1 = s_cur s /\ s_closed s1 = s_closed s /\ s_err s1 = s_err s /\
     s_flushed s1 = s_flushed s /\ attempts s1 = S (attempts s)).
Proof.
  unfold fflush, flush_buf. destruct (0 <? wpos s) eqn:E.
  - apply N.ltb_lt in E. destruct (seen (attempts s)) eqn:Es.
    + right. eexists. split; [reflexivity|]. cbn. unfold attempts. cbn. rewrite app_length. cbn.
      repeat split; try assumption; lia.
    + left. split; [reflexivity|right; reflexivity].
  - apply N.ltb_ge in E. left. split; [reflexivity|left; lia].
Qed.

Lemma Failed_fflush s : Failed s -> exists s1, fflush' s = (s1, true) /\ Failed s1 /\ s_err s1 = s_err s.
Proof.
  intros (Hw & Hs & Hc). destruct (fflush_cases s) as [(_ & [H|H])|(s1 & H1 & _ & _ & Hb & _ & Hcl & He & _ & Ha)].
  - lia.
  - congruence.
  - exists s1. split; [exact H1|]. split; [|exact He]. unfold Failed, wpos. rewrite Hb, Hcl, Ha.
    repeat split; try assumption. apply (seen_mono (attempts s)); [lia|exact Hs].
Qed.

Lemma fflush_err_Failed s s1 : s_closed s = false -> fflush' s = (s1, true) -> Failed s1 /\ s_err s1 = s_err s.
Proof.
  intros Hc H. destruct (fflush_cases s) as [(H1 & _)|(s1' & H1 & Hw & Hs & Hb & _ & Hcl & He & _ & Ha)]; [congruence|].
  rewrite H in H1. injection H1 as <-. split; [|exact He]. unfold Failed, wpos. rewrite Hb, Hcl, Ha.
  repeat split; try assumption. apply (seen_mono (attempts s)); [lia|exact Hs].
Qed.

Lemma Failed_append bs s : Failed s -> Failed (append_buf bs s).
Proof.
  intros (Hw & Hs & Hc). unfold Failed, wpos, attempts in *. cbn. rewrite nlen_app. repeat split; try assumption. lia.
Qed.

Lemma Failed_set_err s : Failed s -> Failed (set_err s).
Proof. intros H. exact H. Qed.

(* every call keeps the failed state *)
Lemma Failed_fput k bs s : Failed s -> Failed (fst (fput' k bs s)).
Proof.
  intros F. unfold fput. destruct (wcap <? wpos s + k).
  - destruct (Failed_fflush s F) as (s1 & -> & F1 & _). exact F1.
  - apply Failed_append, F.
Qed.

Lemma Failed_fdata_loop : forall fuel d s, Failed s -> Failed (fst (fdata_loop nbuf wcap fl lag fuel d s)).
Proof.
  induction fuel as [|fuel IH]; intros d s F; destruct d as [|x d]; cbn [fdata_loop fst]; try exact F.
  destruct (wcap <=? wpos s).
  - destruct (Failed_fflush s F) as (s1 & -> & F1 & _). exact F1.
  - apply IH, Failed_append, F.
Qed.

Lemma Failed_fsizes_loop : forall l s, Failed s -> Failed (fst (fsizes_loop nbuf wcap fl lag l s)).
Proof.
  induction l as [|v l IH]; intros s F; cbn [fsizes_loop fst]; [exact F|].
  pose proof (Failed_fput 4 (be 4 (u32_of_Z v)) s F) as F1.
  destruct (fput' 4 (be 4 (u32_of_Z v)) s) as [s1 [|]]; cbn [fst] in *; [exact F1|apply IH, F1].
Qed.

Lemma Failed_fstep s o : Failed s -> Failed (fst (fstep' s o)).
Proof.
  intros F. unfold fstep. destruct (s_closed s || s_err s); [exact F|].
  destruct o; try (apply Failed_fput, F).
  - unfold fsend_data. pose proof (Failed_fput 4 (be 4 (nlen d)) s F) as F1.
    destruct (fput' 4 (be 4 (nlen d)) s) as [s1 [|]]; cbn [fst] in *; [exact F1|apply Failed_fdata_loop, F1].
  - unfold fsend_data. pose proof (Failed_fput 4 (be 4 (nlen d)) s F) as F1.
    destruct (fput' 4 (be 4 (nlen d)) s) as [s1 [|]]; cbn [fst] in *; [exact F1|apply Failed_fdata_loop, F1].
  - unfold fsend_sizes. pose proof (Failed_fput 4 (be 4 (nlen l)) s F) as F1.
    destruct (fput' 4 (be 4 (nlen l)) s) as [s1 [|]]; cbn [fst] in *; [exact F1|apply Failed_fsizes_loop, F1].
  - destruct (Failed_fflush s F) as (s1 & -> & F1 & _). exact F1.
  - unfold fclose. destruct (Failed_fflush s F) as (s1 & -> & F1 & _). exact F1.
Qed.

(* in the failed state Flush and Close return the error *)
Lemma Failed_flush_close s o : Failed s -> s_err s = false -> o = OFlush \/ o = OClose -> snd (fstep' s o) = true.
Proof.
  intros F He Ho. unfold fstep. destruct F as (Hw & Hs & Hc). rewrite Hc, He. cbn [orb].
  destruct (Failed_fflush s (conj Hw (conj Hs Hc))) as (s1 & H1 & _).
  destruct Ho as [->| ->]; [|unfold fclose]; rewrite H1; reflexivity.
Qed.

(* ---- no fuel exhaustion, s_err stays false (inside the modelled domain) *)

Hypothesis wcap_pos : 0 < wcap.

Lemma fput_err k bs s : s_err (fst (fput' k bs s)) = s_err s.
Proof.
  unfold fput. destruct (wcap <? wpos s + k); [|reflexivity].
  destruct (fflush_cases s) as [(-> & _)|(s1 & -> & _ & _ & _ & _ & _ & He & _)]; cbn [fst append_buf s_err]; [|exact He].
  apply flush_err.
Qed.

Lemma fput_closed k bs s : s_closed (fst (fput' k bs s)) = s_closed s.
Proof.
  unfold fput. destruct (wcap <? wpos s + k); [|reflexivity].
  destruct (fflush_cases s) as [(-> & _)|(s1 & -> & _ & _ & _ & _ & Hc & _)]; cbn [fst append_buf s_closed]; [|exact Hc].
  apply flush_closed.
Qed.

Lemma fdata_loop_err : forall fuel d s, (length d <= fuel)%nat ->
  s_err (fst (fdata_loop nbuf wcap fl lag fuel d s)) = s_err s /\
  s_closed (fst (fdata_loop nbuf wcap fl lag fuel d s)) = s_closed s.
Proof.
  induction fuel as [|fuel IH]; intros d s Hf.
  - destruct d; [|cbn in Hf; lia]. cbn. tauto.
  - destruct d as [|x d']; [cbn; tauto|]. cbn [fdata_loop].
    assert (Hs1 : (exists s1, (if wcap <=? wpos s then fflush' s else (s, false)) = (s1, true) /\ s_err s1 = s_err s /\ s_closed s1 = s_closed s) \/
                  (exists s1, (if wcap <=? wpos s then fflush' s else (s, false)) = (s1, false) /\ s_err s1 = s_err s /\ s_closed s1 = s_closed s /\ wpos s1 < wcap)).
    { destruct (wcap <=? wpos s) eqn:E.
      - destruct (fflush_cases s) as [(-> & _)|(s1 & -> & _ & _ & _ & _ & Hc & He & _)].
        + right. eexists. split; [reflexivity|]. rewrite flush_err, flush_closed, (flush_wpos nbuf wcap wcap_pos). tauto.
        + left. exists s1. tauto.
      - apply N.leb_gt in E. right. exists s. tauto. }
    destruct Hs1 as [(s1 & -> & He & Hc)|(s1 & -> & He & Hc & Hw)]; cbn [fst]; [tauto|].
    set (n := wcap - wpos s1). assert (Hn : 1 <= n) by (unfold n; lia).
    assert (Hlen : (length (ndrop n (x :: d')) <= fuel)%nat).
    { pose proof (nlen_ndrop n (x :: d')) as H. unfold nlen in H. cbn [length] in *. lia. }
    destruct (IH (ndrop n (x :: d')) (append_buf (ntake n (x :: d')) s1) Hlen) as (-> & ->). cbn. tauto.
Qed.

Lemma fsizes_loop_err : forall l s,
  s_err (fst (fsizes_loop nbuf wcap fl lag l s)) = s_err s /\ s_closed (fst (fsizes_loop nbuf wcap fl lag l s)) = s_closed s.
Proof.
  induction l as [|v l IH]; intros s; cbn [fsizes_loop]; [cbn; tauto|].
  pose proof (fput_err 4 (be 4 (u32_of_Z v)) s) as He. pose proof (fput_closed 4 (be 4 (u32_of_Z v)) s) as Hc.
  destruct (fput' 4 (be 4 (u32_of_Z v)) s) as [s1 [|]]; cbn [fst] in *; [tauto|].
  destruct (IH s1) as (-> & ->). tauto.
Qed.

Lemma fstep_err s o : s_closed s = false -> s_err s = false -> s_err (fst (fstep' s o)) = false.
Proof.
  intros Hc He. unfold fstep. rewrite Hc, He. cbn [orb].
  destruct o; try (rewrite fput_err; exact He).
  - unfold fsend_data. pose proof (fput_err 4 (be 4 (nlen d)) s) as H.
    destruct (fput' 4 (be 4 (nlen d)) s) as [s1 [|]]; cbn [fst] in *; [congruence|].
    destruct (fdata_loop_err (length d) d s1 (le_n _)) as (-> & _). congruence.
  - unfold fsend_data. pose proof (fput_err 4 (be 4 (nlen d)) s) as H.
    destruct (fput' 4 (be 4 (nlen d)) s) as [s1 [|]]; cbn [fst] in *; [congruence|].
    destruct (fdata_loop_err (length d) d s1 (le_n _)) as (-> & _). congruence.
  - unfold fsend_sizes. pose proof (fput_err 4 (be 4 (nlen l)) s) as H.
    destruct (fput' 4 (be 4 (nlen l)) s) as [s1 [|]]; cbn [fst] in *; [congruence|].
    destruct (fsizes_loop_err l s1) as (-> & _). congruence.
  - destruct (fflush_cases s) as [(-> & _)|(s1 & -> & _ & _ & _ & _ & _ & H & _)]; cbn [fst]; [rewrite flush_err|]; congruence.
  - unfold fclose. destruct (fflush_cases s) as [(-> & _)|(s1 & -> & _ & _ & _ & _ & _ & H & _)]; cbn [fst s_err]; [rewrite flush_err|]; congruence.
Qed.

(* an op that returns the error leaves the failed state, unless it is a Close that got past its Flush *)
Lemma fstep_error_Failed s o s1 : fstep' s o = (s1, true) -> s_closed s1 = false -> Failed s1 /\ s_err s1 = false.
Proof.
  unfold fstep. destruct (s_closed s) eqn:Hc; [cbn; congruence|]. destruct (s_err s) eqn:He; [cbn; congruence|]. cbn [orb].
  assert (Hput : forall k bs s', fput' k bs s = (s', true) -> Failed s' /\ s_err s' = false).
  { intros k bs s' H. unfold fput in H. destruct (wcap <? wpos s + k); [|congruence].
    destruct (fflush' s) as [s2 [|]] eqn:Ef; [|congruence]. injection H as <-.
    destruct (fflush_err_Failed s s2 Hc Ef). split; congruence. }
  assert (Hdl : forall fuel d s0 s', Failed s0 \/ True -> s_closed s0 = false -> s_err s0 = false ->
            fdata_loop nbuf wcap fl lag fuel d s0 = (s', true) -> (length d <= fuel)%nat -> Failed s' /\ s_err s' = false).
  { induction fuel as [|fuel IH]; intros d s0 s' _ Hc0 He0 H Hf; destruct d as [|x d']; cbn [fdata_loop] in H; try congruence.
    destruct (wcap <=? wpos s0) eqn:E.
      + destruct (fflush_cases s0) as [(Hf0 & _)|(s2 & Hf0 & _)]; rewrite Hf0 in H.
        * refine (IH _ _ _ (or_intror I) _ _ H _); cbn [append_buf s_closed s_err]; [now rewrite flush_closed|now rewrite flush_err|].
          pose proof (nlen_ndrop (wcap - wpos (flush_buf nbuf s0)) (x :: d')) as Hl. rewrite (flush_wpos nbuf wcap wcap_pos) in *. unfold nlen in Hl. cbn [length] in *. lia.
        * injection H as <-. destruct (fflush_err_Failed s0 s2 Hc0 Hf0). split; congruence.
      + apply N.leb_gt in E. refine (IH _ _ _ (or_intror I) _ _ H _); cbn [append_buf s_closed s_err]; try assumption.
        pose proof (nlen_ndrop (wcap - wpos s0) (x :: d')) as Hl. unfold nlen in Hl. cbn [length] in *. lia. }
  intros H Hc1. destruct o; try (apply (Hput _ _ _ H)).
  - unfold fsend_data in H. pose proof (fput_err 4 (be 4 (nlen d)) s) as E1. pose proof (fput_closed 4 (be 4 (nlen d)) s) as E2.
    destruct (fput' 4 (be 4 (nlen d)) s) as [s2 [|]] eqn:Ep; cbn [fst] in *; [injection H as <-; apply (Hput _ _ _ Ep)|].
    apply (Hdl (length d) d s2 s1 (or_intror I)); [congruence|congruence|exact H|apply le_n].
  - unfold fsend_data in H. pose proof (fput_err 4 (be 4 (nlen d)) s) as E1. pose proof (fput_closed 4 (be 4 (nlen d)) s) as E2.
    destruct (fput' 4 (be 4 (nlen d)) s) as [s2 [|]] eqn:Ep; cbn [fst] in *; [injection H as <-; apply (Hput _ _ _ Ep)|].
    apply (Hdl (length d) d s2 s1 (or_intror I)); [congruence|congruence|exact H|apply le_n].
  - unfold fsend_sizes in H. pose proof (fput_err 4 (be 4 (nlen l)) s) as E1. pose proof (fput_closed 4 (be 4 (nlen l)) s) as E2.
    destruct (fput' 4 (be 4 (nlen l)) s) as [s2 [|]] eqn:Ep; cbn [fst] in *; [injection H as <-; apply (Hput _ _ _ Ep)|].
    assert (Hsl : forall l s0 s', s_closed s0 = false -> s_err s0 = false ->
              fsizes_loop nbuf wcap fl lag l s0 = (s', true) -> Failed s' /\ s_err s' = false).
    { clear - wcap_pos. induction l as [|v l IH]; intros s0 s' Hc0 He0 H; cbn [fsizes_loop] in H; [congruence|].
      pose proof (fput_err 4 (be 4 (u32_of_Z v)) s0) as E1. pose proof (fput_closed 4 (be 4 (u32_of_Z v)) s0) as E2.
      destruct (fput' 4 (be 4 (u32_of_Z v)) s0) as [s2 [|]] eqn:Ep; cbn [fst] in *.
      - injection H as <-. unfold fput in Ep. destruct (wcap <? wpos s0 + 4); [|congruence].
        destruct (fflush' s0) as [s3 [|]] eqn:Ef; [|congruence]. injection Ep as <-.
        destruct (fflush_err_Failed s0 s3 Hc0 Ef). split; congruence.
      - apply (IH s2 s'); congruence. }
    apply (Hsl l s2 s1); congruence.
  - destruct (fflush_err_Failed s s1 Hc H). split; congruence.
  - unfold fclose in H. destruct (fflush' s) as [s2 [|]] eqn:Ef.
    + injection H as <-. destruct (fflush_err_Failed s s2 Hc Ef). split; congruence.
    + injection H as <- _. cbn in Hc1. discriminate.
Qed.

(* STICKY, functional model: once a call has returned the error (and the Conn is still
   open), every later Flush and every later Close returns it, whatever is called in between *)
Theorem werr_sticky : forall ops s o s1, fstep' s o = (s1, true) -> s_closed s1 = false ->
  Forall2 (fun o st => o = OFlush \/ o = OClose -> st = true) ops (snd (frun' s1 ops)).
Proof.
  intros ops s o s1 H Hc. destruct (fstep_error_Failed s o s1 H Hc) as (F & He). clear H s o.
  revert s1 Hc F He. induction ops as [|o ops IH]; intros s Hc F He; cbn [frun]; [constructor|].
  pose proof (Failed_fstep s o F) as F1. pose proof (Failed_flush_close s o F He) as Hst.
  pose proof (fstep_err s o Hc He) as He1.
  destruct (fstep' s o) as [s1 e] eqn:Es. cbn [fst snd] in *.
  specialize (IH s1 (proj2 (proj2 F1)) F1 He1).
  destruct (frun' s1 ops) as [s2 es]. cbn [snd] in *. constructor; [exact Hst|exact IH].
Qed.

(* ---- as long as no call returns the error the sender is the fault-free sender of Conn.v *)

Lemma fflush_ok s s1 : fflush' s = (s1, false) -> s1 = flush_buf nbuf s.
Proof. intros H. destruct (fflush_cases s) as [(H1 & _)|(s2 & H1 & _)]; congruence. Qed.

Lemma fput_ok k bs s s1 : fput' k bs s = (s1, false) -> s1 = put nbuf wcap k bs s.
Proof.
  unfold fput, put. destruct (wcap <? wpos s + k); [|congruence].
  destruct (fflush' s) as [s2 [|]] eqn:E; [congruence|]. intros H. injection H as <-. now rewrite (fflush_ok s s2 E).
Qed.

Lemma fdata_loop_ok : forall fuel d s s1, fdata_loop nbuf wcap fl lag fuel d s = (s1, false) -> s1 = data_loop nbuf wcap fuel d s.
Proof.
  induction fuel as [|fuel IH]; intros d s s1 H; destruct d as [|x d']; cbn [fdata_loop data_loop] in *; try congruence.
  destruct (wcap <=? wpos s).
  - destruct (fflush' s) as [s2 [|]] eqn:E; [congruence|]. rewrite (fflush_ok s s2 E) in H. apply IH, H.
  - apply IH, H.
Qed.

Lemma fsizes_loop_ok : forall l s s1, fsizes_loop nbuf wcap fl lag l s = (s1, false) ->
  s1 = fold_left (fun s v => send_u32 nbuf wcap v s) l s.
Proof.
  induction l as [|v l IH]; intros s s1 H; cbn [fsizes_loop fold_left] in *; [congruence|].
  destruct (fput' 4 (be 4 (u32_of_Z v)) s) as [s2 [|]] eqn:E; [congruence|].
  rewrite (fput_ok _ _ _ _ E) in H. apply IH, H.
Qed.

Lemma fstep_ok s o s1 : fstep' s o = (s1, false) -> s1 = step nbuf wcap s o.
Proof.
  unfold fstep, step. destruct (s_closed s || s_err s); [congruence|].
  destruct o; try (apply fput_ok).
  - unfold fsend_data, send_data, send_u32N. destruct (fput' 4 (be 4 (nlen d)) s) as [s2 [|]] eqn:E; [congruence|].
    rewrite (fput_ok _ _ _ _ E). apply fdata_loop_ok.
  - unfold fsend_data, send_data, send_u32N. destruct (fput' 4 (be 4 (nlen d)) s) as [s2 [|]] eqn:E; [congruence|].
    rewrite (fput_ok _ _ _ _ E). apply fdata_loop_ok.
  - unfold fsend_sizes, send_sizes, send_u32N. destruct (fput' 4 (be 4 (nlen l)) s) as [s2 [|]] eqn:E; [congruence|].
    rewrite (fput_ok _ _ _ _ E). apply fsizes_loop_ok.
  - apply fflush_ok.
  - unfold fclose, close_conn. destruct (fflush' s) as [s2 [|]] eqn:E; [congruence|].
    rewrite (fflush_ok s s2 E). congruence.
Qed.

Theorem werr_until_reported : forall ops s, anyb (snd (frun' s ops)) = false ->
  fst (frun' s ops) = fold_left (step nbuf wcap) ops s.
Proof.
  induction ops as [|o ops IH]; intros s H; cbn [frun fold_left] in *; [reflexivity|].
  destruct (fstep' s o) as [s1 e] eqn:Es. specialize (IH s1).
  destruct (frun' s1 ops) as [s2 es]. cbn [fst snd] in *. unfold anyb in *. cbn in H.
  apply orb_false_iff in H. destruct H as (-> & H). rewrite <- (fstep_ok s o s1 Es). apply IH, H.
Qed.

(* Close returned nil: none of the Writes failed, and the transport accepted every chunk whole *)
Lemma accepted_all : forall cs i, (forall j, (j < i + length cs)%nat -> failing fl j = false) ->
  accepted_from fl i cs = cs.
Proof.
  induction cs as [|c cs IH]; intros i H; cbn [accepted_from]; [reflexivity|].
  rewrite IH by (intros j Hj; apply H; cbn [length]; lia).
  unfold accepted. specialize (H i ltac:(cbn [length]; lia)). unfold failing in H. destruct (fl i); [discriminate|reflexivity].
Qed.

Lemma any_fail_false n : any_fail fl n = false -> forall j, (j < n)%nat -> failing fl j = false.
Proof.
  induction n as [|n IH]; intros H j Hj; [lia|]. cbn in H. apply orb_false_iff in H. destruct H as (H1 & H2).
  destruct (Nat.eq_dec j n) as [->|]; [exact H2|apply IH; [exact H1|lia]].
Qed.

Lemma fclose_nil s s1 : fclose nbuf fl lag s = (s1, false) ->
  s1 = close_conn nbuf s /\ any_fail fl (attempts s1) = false /\ wire_accepted fl s1 = wire_bytes s1.
Proof.
  unfold fclose, close_conn. destruct (fflush' s) as [s2 [|]] eqn:E; [congruence|].
  intros H. injection H as <- Ha. rewrite (fflush_ok s s2 E) in *. split; [reflexivity|]. split; [exact Ha|].
  unfold wire_accepted, wire_bytes. f_equal. apply accepted_all. intros j Hj. apply (any_fail_false _ Ha).
  unfold attempts, wire_chunks in *. rewrite map_length in Hj. cbn [s_chunks] in *. lia.
Qed.

End FaultSenderProofs.

(* no fault: the fault model IS the sender of Conn.v, every call returns nil *)
Theorem werr_conservative nbuf wcap lag ops :
  frun nbuf wcap (fun _ => None) lag s_init ops = (run_sender nbuf wcap ops, map (fun _ => false) ops).
Proof.
  assert (Ha : forall n, any_fail (fun _ => None) n = false) by (induction n as [|n IH]; cbn; [reflexivity|now rewrite IH]).
  assert (Hf : forall s, fflush nbuf (fun _ => None) lag s = (flush_buf nbuf s, false)).
  { intros s. unfold fflush, flush_buf, err_seen. rewrite Ha. destruct (0 <? wpos s); reflexivity. }
  assert (Hp : forall k bs s, fput nbuf wcap (fun _ => None) lag k bs s = (put nbuf wcap k bs s, false)).
  { intros k bs s. unfold fput, put. rewrite Hf. destruct (wcap <? wpos s + k); reflexivity. }
  assert (Hd : forall fuel d s, fdata_loop nbuf wcap (fun _ => None) lag fuel d s = (data_loop nbuf wcap fuel d s, false)).
  { induction fuel as [|fuel IH]; intros d s; destruct d as [|x d']; cbn [fdata_loop data_loop]; try reflexivity.
    rewrite Hf. destruct (wcap <=? wpos s); apply IH. }
  assert (Hs : forall l s, fsizes_loop nbuf wcap (fun _ => None) lag l s = (fold_left (fun s v => send_u32 nbuf wcap v s) l s, false)).
  { induction l as [|v l IH]; intros s; cbn [fsizes_loop fold_left]; [reflexivity|]. rewrite Hp. apply IH. }
  assert (Hst : forall s o, fstep nbuf wcap (fun _ => None) lag s o = (step nbuf wcap s o, false)).
  { intros s o. unfold fstep, step. destruct (s_closed s || s_err s); [reflexivity|].
    destruct o; try apply Hp; try apply Hf.
    - unfold fsend_data, send_data, send_u32N. rewrite Hp. apply Hd.
    - unfold fsend_data, send_data, send_u32N. rewrite Hp. apply Hd.
    - unfold fsend_sizes, send_sizes, send_u32N. rewrite Hp. apply Hs.
    - unfold fclose, close_conn. rewrite Hf, Ha. reflexivity. }
  unfold run_sender. generalize s_init. induction ops as [|o ops IH]; intros s; cbn [frun fold_left map]; [reflexivity|].
  rewrite Hst, IH. reflexivity.
Qed.

(* a script all of whose calls returned nil and whose last call is Close: the transport
   accepted exactly the concatenation of the encodings of the values (Close returning nil
   means everything was delivered) *)
Theorem werr_close_nil_delivers nbuf wcap fl lag ops : 0 < wcap -> close_only_last (ops ++ [OClose]) ->
  anyb (snd (frun nbuf wcap fl lag s_init (ops ++ [OClose]))) = false ->
  let s := fst (frun nbuf wcap fl lag s_init (ops ++ [OClose])) in
  s = run_sender nbuf wcap (ops ++ [OClose]) /\
  wire_accepted fl s = concat (map encode (values_of (ops ++ [OClose]))) /\
  any_fail fl (attempts s) = false.
Proof.
  intros Hw Hcl Hst. cbn zeta.
  pose proof (werr_until_reported nbuf wcap fl lag (ops ++ [OClose]) s_init Hst) as Heq.
  fold (run_sender nbuf wcap (ops ++ [OClose])) in Heq. split; [exact Heq|].
  (* split the run at the Close *)
  assert (Hsplit : forall a s, frun nbuf wcap fl lag s (a ++ [OClose]) =
            (let '(s1, e1) := frun nbuf wcap fl lag s a in
             let '(s2, e2) := fstep nbuf wcap fl lag s1 OClose in (s2, e1 ++ [e2]))).
  { induction a as [|o a IH]; intros s; cbn [app frun].
    - destruct (fstep nbuf wcap fl lag s OClose); reflexivity.
    - destruct (fstep nbuf wcap fl lag s o) as [s1 e]. rewrite IH.
      destruct (frun nbuf wcap fl lag s1 a) as [s2 es]. destruct (fstep nbuf wcap fl lag s2 OClose). reflexivity. }
  rewrite Hsplit in *. destruct (frun nbuf wcap fl lag s_init ops) as [s1 e1] eqn:E1.
  destruct (fstep nbuf wcap fl lag s1 OClose) as [s2 e2] eqn:E2. cbn [fst snd] in *.
  rewrite anyb_app in Hst. apply orb_false_iff in Hst. destruct Hst as (H1 & H2). cbn in H2. rewrite orb_false_r in H2. subst e2.
  assert (He1 : s_closed s1 || s_err s1 = false).
  { pose proof (werr_until_reported nbuf wcap fl lag ops s_init) as Hu. rewrite E1 in Hu. cbn [fst snd] in Hu. specialize (Hu H1).
    pose proof (run_no_err nbuf wcap Hw (ops ++ [OClose]) Hcl) as Hne. unfold run_sender in Hne. rewrite fold_left_app in Hne. cbn [fold_left] in Hne.
    rewrite <- Hu in Hne. unfold step in Hne. destruct (s_closed s1 || s_err s1); [cbn in Hne; discriminate|reflexivity]. }
  unfold fstep in E2. rewrite He1 in E2. pose proof E2 as E3. apply (fclose_nil nbuf wcap fl lag Hw) in E3. destruct E3 as (_ & Ha & Hacc).
  split; [|exact Ha]. rewrite Hacc, Heq.
  apply (wire_is_concat nbuf wcap Hw (ops ++ [OClose]) Hcl). exists ops. right. reflexivity.
Qed.

(* "no byte reaches the transport after a failed Write" is FALSE of the code: with a Write
   that fails once the transport receives the later chunks — a stream with a hole *)
Theorem werr_bytes_after_failed_write :
  exists (fl : nat -> option N) (ops : list op),
    let '(s, st) := frun 3 16 fl 2 s_init ops in
    failing fl 0 = true /\ st = [false; false; false; false] /\
    wire_accepted fl s = [0; 0; 0; 2] /\ concat (map encode (values_of ops)) = [0; 0; 0; 1; 0; 0; 0; 2].
Proof.
  exists (fun i => match i with O => Some 0 | _ => None end), [OU32 1; OFlush; OU32 2; OFlush].
  vm_compute. repeat split.
Qed.

(* non-vacuity: a script whose Write 0 fails; Flush 0 and 1 return nil, Flush 2, the SendData
   that needs room, Flush and Close return the error; a script without faults closes with nil *)
Example werr_nonvacuous :
  snd (frun 3 16 (fun i => match i with O => Some 1 | _ => None end) 2 s_init
         [OU32 1; OFlush; OU32 2; OFlush; OU32 3; OFlush; OByte 9; OData [1;2;3;4;5;6;7;8;9;10;11;12]; OFlush; OClose])
  = [false; false; false; false; false; true; false; true; true; true] /\
  snd (frun 3 16 (fun _ => None) 2 s_init [OU32 1; OFlush; OClose]) = [false; false; false].
Proof. vm_compute. split; reflexivity. Qed.

(* ============================================ C. receiver, failing transport *)

Lemma parse_fixed_mono k s x v rest : parse_fixed k s = Some (v, rest) -> parse_fixed k (s ++ x) = Some (v, rest ++ x).
Proof.
  unfold parse_fixed. destruct (k <=? nlen s) eqn:E; [|discriminate]. apply N.leb_le in E.
  intros H. injection H as <- <-. rewrite nlen_app.
  replace (k <=? nlen s + nlen x) with true by (symmetry; apply N.leb_le; lia).
  rewrite ntake_app_le, ndrop_app_le by lia. reflexivity.
Qed.

Lemma parse_num_mono k s x v rest : parse_num k s = Some (v, rest) -> parse_num k (s ++ x) = Some (v, rest ++ x).
Proof.
  unfold parse_num. destruct (parse_fixed k s) as [[bs r]|] eqn:E; [|discriminate].
  intros H. injection H as <- <-. now rewrite (parse_fixed_mono _ _ x _ _ E).
Qed.

Lemma parse_data_mono s x v rest : parse_data s = Some (v, rest) -> parse_data (s ++ x) = Some (v, rest ++ x).
Proof.
  unfold parse_data. destruct (parse_num 4 s) as [[len r]|] eqn:E; [|discriminate].
  intros H. rewrite (parse_num_mono _ _ x _ _ E). apply parse_fixed_mono, H.
Qed.

Lemma parse_nums_mono : forall count s x v rest, parse_nums count s = Some (v, rest) -> parse_nums count (s ++ x) = Some (v, rest ++ x).
Proof.
  induction count as [|c IH]; intros s x v rest H; cbn [parse_nums] in *; [injection H as <- <-; reflexivity|].
  destruct (parse_num 4 s) as [[n r]|] eqn:E; [|discriminate]. rewrite (parse_num_mono _ _ x _ _ E).
  destruct (parse_nums c r) as [[vs r']|] eqn:E2; [|discriminate]. rewrite (IH _ x _ _ E2).
  injection H as <- <-. reflexivity.
Qed.

Lemma parse_sizes_mono s x v rest : parse_sizes s = Some (v, rest) -> parse_sizes (s ++ x) = Some (v, rest ++ x).
Proof.
  unfold parse_sizes. destruct (parse_num 4 s) as [[n r]|] eqn:E; [|discriminate].
  intros H. rewrite (parse_num_mono _ _ x _ _ E). apply parse_nums_mono, H.
Qed.

(* a value that is complete in a prefix of the stream is the value of the whole stream *)
Lemma parse_ty_mono t s x v rest : parse_ty t s = Some (v, rest) -> parse_ty t (s ++ x) = Some (v, rest ++ x).
Proof.
  assert (Ho : forall A B (f : A -> B) (p q : option (A * list N)),
             (forall a r, p = Some (a, r) -> q = Some (a, r ++ x)) ->
             forall b r, omap f p = Some (b, r) -> omap f q = Some (b, r ++ x)).
  { intros A B f p q Hpq b r. unfold omap. destruct p as [[a r0]|]; [|discriminate].
    intros H. injection H as <- <-. now rewrite (Hpq a r0 eq_refl). }
  destruct t; cbn [parse_ty]; apply Ho; intros a r;
    first [apply parse_num_mono | apply parse_data_mono | apply parse_sizes_mono | apply parse_fixed_mono].
Qed.

Lemma parse_all_prefix : forall tys n s vs rest ws rest',
  parse_all (firstn n tys) s = Some (vs, rest) -> parse_all tys s = Some (ws, rest') -> vs = firstn n ws.
Proof.
  induction tys as [|t tys IH]; intros n s vs rest ws rest' H1 H2.
  - rewrite firstn_nil in H1. cbn in *. injection H1 as <- _. injection H2 as <- _. now rewrite firstn_nil.
  - destruct n as [|n]; [cbn in H1; injection H1 as <- _; reflexivity|].
    cbn [firstn parse_all] in *. destruct (parse_ty t s) as [[v s1]|]; [|discriminate].
    destruct (parse_all (firstn n tys) s1) as [[vs1 r1]|] eqn:E1; [|discriminate].
    destruct (parse_all tys s1) as [[ws1 r2]|] eqn:E2; [|discriminate].
    injection H1 as <- _. injection H2 as <- _. cbn [firstn]. f_equal. exact (IH n s1 vs1 r1 ws1 r2 E1 E2).
Qed.

Section ReadFault.
Variable rcap : N.
Hypothesis rcap_min : 16 <= rcap.

(* the typed receives over a transport that stops (with whatever error) where [x] would
   follow: every value returned as a success is the value of the whole stream at that place;
   the failing receive is the first whose value is not complete before the stop, it returns
   the transport's error and nothing else *)
Lemma recv_upto_spec : forall tys r x r' vs e, Forall (ty_fits rcap) tys -> RInv rcap r ->
  recv_upto rcap tys r = (r', vs, e) ->
  RInv rcap r' /\
  exists rest, parse_all (firstn (length vs) tys) (all r) = Some (vs, rest) /\
               parse_all (firstn (length vs) tys) (all r ++ x) = Some (vs, rest ++ x) /\
  (e = None -> length vs = length tys /\ all r' = rest) /\
  (forall e', e = Some e' -> e' = EEOF /\ (length vs < length tys)%nat /\
                             parse_ty (nth (length vs) tys TByte) rest = None).
Proof.
  induction tys as [|t tys IH]; intros r x r' vs e Hfit Hr H; cbn [recv_upto] in H.
  - injection H as <- <- <-. split; [exact Hr|]. exists (all r). cbn. repeat split; try reflexivity; intros; discriminate.
  - inversion Hfit as [|? ? Hft Hfts]; subst.
    pose proof (recv_ty_refines rcap rcap_min t r Hft Hr) as R. unfold refines in R.
    destruct (recv_ty rcap t r) as [r1 [v|e1]]; destruct (parse_ty t (all r)) as [[v' rest1]|] eqn:Ep;
      cbn [fst snd] in R; destruct R as (Hi & _ & R).
    + destruct R as (R1 & R2). injection R1 as <-.
      destruct (recv_upto rcap tys r1) as [[r2 vs2] e2] eqn:E. injection H as <- <- <-.
      destruct (IH r1 x r2 vs2 e2 Hfts Hi E) as (Hi2 & rest & P1 & P2 & Hn & He). rewrite R2 in P1, P2.
      split; [exact Hi2|]. exists rest. cbn [length firstn parse_all nth].
      rewrite Ep, P1, (parse_ty_mono _ _ x _ _ Ep), P2. repeat split; try reflexivity.
      * destruct (Hn H); lia.
      * destruct (Hn H); assumption.
      * destruct (He e' H) as (A & _); exact A.
      * destruct (He e' H) as (_ & B & _); lia.
      * destruct (He e' H) as (_ & _ & C); exact C.
    + discriminate R.
    + destruct R as (R1 & _). discriminate R1.
    + injection H as <- <- <-. injection R as ->. split; [exact Hi|]. exists (all r). cbn [length firstn parse_all nth].
      repeat split; try reflexivity; try (intros; discriminate).
      all: try (injection H as <-; reflexivity).
      all: try (cbn; lia).
      all: try exact Ep.
Qed.

Theorem rfault_no_partial_value : forall tys stream frags eofdata p r' vs e, Forall (ty_fits rcap) tys ->
  recv_upto rcap tys (r_init (cut_transport p stream frags eofdata)) = (r', vs, e) ->
  (exists rest, parse_all (firstn (length vs) tys) stream = Some (vs, rest)) /\
  (e = None -> length vs = length tys) /\
  (forall e', e = Some e' -> e' = EEOF /\ (length vs < length tys)%nat /\
     exists rest', parse_all (firstn (length vs) tys) (t_stream (cut_transport p stream frags eofdata)) = Some (vs, rest') /\
                   parse_ty (nth (length vs) tys TByte) rest' = None).
Proof.
  intros tys stream frags eofdata p r' vs e Hfit H.
  set (t := cut_transport p stream frags eofdata) in *.
  set (x := match p with Some n => ndrop n stream | None => [] end).
  assert (Hx : all (r_init t) ++ x = stream).
  { unfold all, t, cut_transport, x. cbn. destruct p; [apply ntake_ndrop|apply app_nil_r]. }
  destruct (recv_upto_spec tys (r_init t) x r' vs e Hfit (RInv_init rcap t) H) as (_ & rest & P1 & P2 & Hn & He).
  rewrite Hx in P2. split; [eexists; exact P2|]. split; [intros E; destruct (Hn E); assumption|].
  intros e' E. destruct (He e' E) as (A & B & C). repeat split; try assumption.
  exists rest. split; [|exact C]. unfold all in P1. cbn in P1. exact P1.
Qed.

End ReadFault.

(* with the sender: the stream of any script in the domain, cut ANYWHERE by a failing
   transport and received by the matching typed receives: what is received is a prefix of
   the values sent; the receive that fails returns the transport's error *)
Theorem rfault_roundtrip_prefix nbuf wcap rcap ops frags eofdata p r' vs e :
  16 <= wcap -> 16 <= rcap ->
  close_only_last ops -> ends_flushed ops -> Forall op_in_domain ops ->
  Forall (ty_fits rcap) (types_of ops) ->
  recv_upto rcap (types_of ops)
    (r_init (cut_transport p (wire_bytes (run_sender nbuf wcap ops)) frags eofdata)) = (r', vs, e) ->
  vs = firstn (length vs) (values_of ops) /\
  (e = None -> vs = values_of ops) /\
  (forall e', e = Some e' -> e' = EEOF /\ (length vs < length (values_of ops))%nat).
Proof.
  intros Hw Hr Hc Hf Hd Hfit H.
  assert (Hw0 : 0 < wcap) by lia.
  pose proof (wire_is_concat nbuf wcap Hw0 ops Hc Hf) as Hwire.
  destruct (rfault_no_partial_value rcap Hr _ _ _ _ _ _ _ _ Hfit H) as ((rest & P) & Hn & He).
  assert (Hall : parse_all (types_of ops) (wire_bytes (run_sender nbuf wcap ops)) = Some (values_of ops, [])).
  { rewrite Hwire. unfold types_of. rewrite <- (app_nil_r (concat (map encode (values_of ops)))).
    apply parse_all_encode, values_wf, Hd. }
  pose proof (parse_all_prefix _ _ _ _ _ _ _ P Hall) as Hpre.
  assert (Hlen : length (types_of ops) = length (values_of ops)) by (unfold types_of; apply map_length).
  split; [exact Hpre|]. split.
  - intros E. specialize (Hn E). rewrite Hpre, Hn, Hlen. apply firstn_all.
  - intros e' E. destruct (He e' E) as (A & B & _). split; [exact A|lia].
Qed.

Example rfault_nonvacuous :
  recv_upto 16 [TU32; TData; TByte]
    (r_init (cut_transport (Some 9) (be 4 7 ++ (be 4 3 ++ [1; 2; 3]) ++ [5]) [2; 3] true)) =
  (mkR 0 0 [] 9 (mkT [] [] true 3), [VU32 7], Some EEOF).
Proof. vm_compute. reflexivity. Qed.
