(* LiveProof.v — the termination half of C02, proved for the model Live.v:
   if the checker accepts two skeletons then, for EVERY environment (loop
   counts, branch outcomes), EVERY choice of automatic flushes and EVERY fair
   schedule, the two parties finish, every receive got a message of the kind
   it expected, and all buffers and channels are empty.

   Structure: (1) a lockstep relation [Sync] on flat action lists with the
   abstract state "is this party's write buffer dirty"; (2) [Sync] implies
   liveness of the buffered concurrent system: an invariant ("one party leads,
   the other still has to receive exactly what is pending"), deadlock freedom,
   a decreasing measure, fairness; (3) the checker is sound for [Sync] under
   every environment (induction over the fuel, and over the iteration count
   for loops); (4) the converse for the important failure: a deleted Flush
   leaves both parties blocked forever on a fair schedule. *)
From Coq Require Import List Bool Arith NArith Lia.
From Mpc Require Import Proto.Live.
Import ListNotations.

Lemma lN_eqb_eq a : forall b, lN_eqb a b = true <-> a = b.
Proof.
  induction a as [|x a IH]; intros [|y b]; simpl; split; intros H; try discriminate; auto.
  - apply andb_prop in H. destruct H as [H1 H2]. apply N.eqb_eq in H1. apply IH in H2. now subst.
  - injection H as -> ->. rewrite N.eqb_refl. simpl. now apply IH.
Qed.
Lemma name_eqb_eq a b : name_eqb a b = true <-> a = b.
Proof.
  destruct a as [x], b as [y]. simpl. rewrite lN_eqb_eq. split; intros H; [now subst|now injection H].
Qed.
Lemma name_eqb_refl a : name_eqb a a = true.
Proof. now apply name_eqb_eq. Qed.

(* ------------------------------------------------------------------ *)
(** * 1. The lockstep relation *)

(* Sync dg de tg te dg' de': the action lists can be executed in lockstep
   (every send meets the matching receive, flushes are local) from the state
   "garbler buffer dirty = dg, evaluator buffer dirty = de" to (dg', de'), and
   whoever receives has a clean buffer at that moment. *)
Inductive Sync : bool -> bool -> list act -> list act -> bool -> bool -> Prop :=
| Sy_nil dg de : Sync dg de [] [] dg de
| Sy_fg dg de tg te dg' de' :
    Sync false de tg te dg' de' -> Sync dg de (AFlush :: tg) te dg' de'
| Sy_fe dg de tg te dg' de' :
    Sync dg false tg te dg' de' -> Sync dg de tg (AFlush :: te) dg' de'
| Sy_ge k dg tg te dg' de' :
    Sync true false tg te dg' de' -> Sync dg false (ASend k :: tg) (ARecv k :: te) dg' de'
| Sy_eg k de tg te dg' de' :
    Sync false true tg te dg' de' -> Sync false de (ARecv k :: tg) (ASend k :: te) dg' de'.

Lemma sync_sym a b x y a' b' : Sync a b x y a' b' -> Sync b a y x b' a'.
Proof. induction 1; constructor; auto. Qed.

Lemma implb_false_r d : implb d false = true -> d = false.
Proof. destruct d; simpl; congruence. Qed.

Lemma sync_mono dg de tg te dg' de' :
  Sync dg de tg te dg' de' ->
  forall d1 d2, implb d1 dg = true -> implb d2 de = true ->
  exists d1' d2', implb d1' dg' = true /\ implb d2' de' = true /\ Sync d1 d2 tg te d1' d2'.
Proof.
  induction 1 as [dg de|dg de tg te dg' de' H IH|dg de tg te dg' de' H IH
                 |k dg tg te dg' de' H IH|k de tg te dg' de' H IH]; intros d1 d2 H1 H2.
  - exists d1, d2. repeat split; auto. constructor.
  - destruct (IH false d2 eq_refl H2) as (a & b & Ha & Hb & S). exists a, b. repeat split; auto. now constructor.
  - destruct (IH d1 false H1 eq_refl) as (a & b & Ha & Hb & S). exists a, b. repeat split; auto. now constructor.
  - apply implb_false_r in H2. subst d2.
    destruct (IH true false eq_refl eq_refl) as (a & b & Ha & Hb & S). exists a, b. repeat split; auto. now constructor.
  - apply implb_false_r in H1. subst d1.
    destruct (IH false true eq_refl eq_refl) as (a & b & Ha & Hb & S). exists a, b. repeat split; auto. now constructor.
Qed.

Lemma sync_mono_ff dg de tg te d1 d2 :
  Sync dg de tg te false false -> implb d1 dg = true -> implb d2 de = true -> Sync d1 d2 tg te false false.
Proof.
  intros S H1 H2. destruct (sync_mono _ _ _ _ _ _ S d1 d2 H1 H2) as (a & b & Ha & Hb & S').
  apply implb_false_r in Ha. apply implb_false_r in Hb. now subst.
Qed.

Lemma sync_app a b x y a1 b1 x' y' a2 b2 :
  Sync a b x y a1 b1 -> Sync a1 b1 x' y' a2 b2 -> Sync a b (x ++ x') (y ++ y') a2 b2.
Proof. induction 1; simpl; intros; try constructor; auto. Qed.

Definition flushonly (fl : list act) : Prop := Forall (fun a => a = AFlush) fl.

(* inversions on the garbler-side head *)
Lemma sync_inv_send k dg de tg te dg' de' :
  Sync dg de (ASend k :: tg) te dg' de' ->
  exists fl te', te = fl ++ ARecv k :: te' /\ flushonly fl /\ Sync true false tg te' dg' de'.
Proof.
  intros H. remember (ASend k :: tg) as x eqn:Ex. revert Ex.
  induction H as [| | dg de tg0 te dg' de' H IH | k0 dg tg0 te dg' de' H IH |]; intros Ex; try discriminate.
  - destruct (IH Ex) as (fl & te' & E1 & F & S). exists (AFlush :: fl), te'. subst. repeat split; auto.
    constructor; auto.
  - injection Ex as -> ->. exists [], te. repeat split; auto. constructor.
Qed.

Lemma sync_inv_flush dg de tg te dg' de' :
  Sync dg de (AFlush :: tg) te dg' de' -> Sync false de tg te dg' de'.
Proof.
  intros H. remember (AFlush :: tg) as x eqn:Ex. revert Ex.
  induction H as [| dg de tg0 te dg' de' H IH | dg de tg0 te dg' de' H IH | |]; intros Ex; try discriminate.
  - injection Ex as ->. exact H.
  - constructor. auto.
Qed.

Lemma sync_dirty_recv k de tg te dg' de' : Sync true de (ARecv k :: tg) te dg' de' -> False.
Proof.
  intros H. remember (ARecv k :: tg) as x eqn:Ex. remember true as d eqn:Ed. revert Ex Ed.
  induction H; intros Ex Ed; try discriminate; auto.
Qed.

Lemma sync_dirty_end de te dg' de' : Sync true de [] te dg' de' -> dg' = true.
Proof.
  intros H. remember (@nil act) as x eqn:Ex. remember true as d eqn:Ed. revert Ex Ed.
  induction H; intros Ex Ed; try discriminate; auto.
Qed.

Definition blocked_hd (t : list act) : Prop :=
  match t with [] => True | ARecv _ :: _ => True | _ => False end.

Lemma sync_stuck dg de tg te dg' de' :
  Sync dg de tg te dg' de' -> blocked_hd tg -> blocked_hd te -> tg = [] /\ te = [].
Proof. intros H; inversion H; subst; simpl; tauto. Qed.

(* ------------------------------------------------------------------ *)
(** * 2. Sync implies liveness of the buffered system *)

Definition nosend (a : act) : Prop := match a with ASend _ => False | _ => True end.

Fixpoint recvs (fl : list act) : list kind :=
  match fl with
  | [] => []
  | ARecv k :: r => k :: recvs r
  | _ :: r => recvs r
  end.

Lemma recvs_app a b : recvs (a ++ b) = recvs a ++ recvs b.
Proof. induction a as [|[k|k|] a IH]; simpl; auto. now rewrite IH. Qed.

Lemma flushonly_recvs fl : flushonly fl -> recvs fl = [].
Proof. induction 1 as [|a fl Ha _ IH]; simpl; auto. now subst. Qed.

Lemma flushonly_nosend fl : flushonly fl -> Forall nosend fl.
Proof. induction 1 as [|a fl Ha _ IH]; constructor; auto. now subst. Qed.

Lemma nosend_norecv_flushonly fl : Forall nosend fl -> recvs fl = [] -> flushonly fl.
Proof.
  induction 1 as [|a fl Ha _ IH]; intros R; [constructor|].
  destruct a as [k|k|]; simpl in *.
  - contradiction.
  - discriminate.
  - constructor; auto. apply IH. exact R.
Qed.

Definition dirty (b : list kind) : bool := match b with [] => false | _ => true end.

(* [Lead L F]: party L leads.  Nothing is in flight towards L, F's buffer is
   empty, F's program starts with receives (and no-op flushes) of exactly what
   L has flushed or buffered, and after that the two programs are in lockstep
   from the state in which L is dirty iff its buffer is non-empty. *)
Definition Lead (L F : half) : Prop :=
  hc F = [] /\ hb F = [] /\
  exists fl tF, hp F = fl ++ tF /\ Forall nosend fl /\ recvs fl = hc L ++ hb L /\
                Sync (dirty (hb L)) false (hp L) tF false false.

Lemma sync_prepend_flushes fl d e x y : flushonly fl -> Sync false e x y d d -> Sync false e (fl ++ x) y d d.
Proof. induction 1 as [|a fl Ha _ IH]; simpl; intros; auto. subst. constructor. auto. Qed.

Lemma lead_swap L F : Lead L F -> hc L = [] -> hb L = [] -> Lead F L.
Proof.
  intros (HcF & HbF & fl & tF & Ep & Ns & Rv & S) HcL HbL.
  rewrite HcL, HbL in Rv. rewrite HbL in S. simpl in *.
  split; [auto|split; [auto|]]. exists [], (hp L). repeat split; auto.
  - now rewrite HcF, HbF.
  - rewrite HbF, Ep. simpl. apply sync_prepend_flushes.
    + now apply nosend_norecv_flushonly.
    + now apply sync_sym.
Qed.

Lemma app_nil_both (A : Type) (a b : list A) : a ++ b = [] -> a = [] /\ b = [].
Proof. destruct a; simpl; intros; [auto|discriminate]. Qed.

(* the leader moves *)
Lemma lead_step_L L F auto :
  Lead L F ->
  match step_half auto L F with (L', F', b) => b = false /\ Lead L' F' end.
Proof.
  intros (HcF & HbF & fl & tF & Ep & Ns & Rv & S). unfold step_half.
  destruct (hp L) as [|[k|k|] r] eqn:EL.
  - repeat split; auto. exists fl, tF. rewrite EL. auto.
  - apply sync_inv_send in S. destruct S as (fl1 & tF' & -> & F1 & S).
    assert (Ns' : Forall nosend (fl ++ fl1 ++ [ARecv k])).
    { apply Forall_app. split; auto. apply Forall_app. split; [now apply flushonly_nosend|]. repeat constructor. }
    assert (Rv' : recvs (fl ++ fl1 ++ [ARecv k]) = (hc L ++ hb L) ++ [k]).
    { rewrite !recvs_app, Rv, (flushonly_recvs fl1 F1). reflexivity. }
    assert (Ep' : hp F = (fl ++ fl1 ++ [ARecv k]) ++ tF').
    { rewrite Ep, <- !app_assoc. reflexivity. }
    destruct auto.
    + repeat split; auto. exists (fl ++ fl1 ++ [ARecv k]), tF'. simpl. repeat split; auto.
      * rewrite Rv', app_nil_r, <- app_assoc. reflexivity.
      * apply (sync_mono_ff _ _ _ _ _ _ S); reflexivity.
    + repeat split; auto. exists (fl ++ fl1 ++ [ARecv k]), tF'. simpl. repeat split; auto.
      * rewrite Rv', <- app_assoc. reflexivity.
      * destruct (hb L); simpl; exact S.
  - rewrite HcF. repeat split; auto. exists fl, tF. rewrite EL. auto.
  - apply sync_inv_flush in S.
    repeat split; auto. exists fl, tF. simpl. repeat split; auto. now rewrite app_nil_r.
Qed.

(* the follower moves *)
Lemma lead_step_F L F auto :
  Lead L F ->
  match step_half auto F L with (F', L', b) => b = false /\ (Lead L' F' \/ Lead F' L') end.
Proof.
  intros HL. pose proof HL as (HcF & HbF & fl & tF & Ep & Ns & Rv & S).
  destruct fl as [|a fl].
  - simpl in Rv. symmetry in Rv. apply app_nil_both in Rv. destruct Rv as [HcL HbL].
    pose proof (lead_step_L F L auto (lead_swap L F HL HcL HbL)) as H.
    destruct (step_half auto F L) as [[F' L'] b]. destruct H. auto.
  - unfold step_half. rewrite Ep. simpl. inversion Ns as [|? ? Na Ns']; subst.
    destruct a as [k|k|]; simpl in Na; try contradiction.
    + simpl in Rv. destruct (hc L) as [|k' c] eqn:EcL.
      * split; [reflexivity|]. left. exact HL.
      * simpl in Rv. injection Rv as <- Rv. rewrite name_eqb_refl.
        split; [reflexivity|]. left. repeat split; auto. exists fl, tF. simpl. repeat split; auto.
    + simpl in Rv. split; [reflexivity|]. left. rewrite HcF, HbF. repeat split; auto. exists fl, tF. simpl. repeat split; auto.
Qed.

Definition enabled (x y : half) : bool :=
  match hp x with
  | [] => false
  | ARecv _ :: _ => match hc y with [] => false | _ => true end
  | _ => true
  end.

Lemma not_enabled_stutter auto x y : enabled x y = false -> step_half auto x y = (x, y, false).
Proof.
  unfold enabled, step_half. destruct (hp x) as [|[k|k|] r]; try discriminate; auto.
  destruct (hc y); [auto|discriminate].
Qed.

Lemma enabled_decr auto x y x' y' :
  enabled x y = true -> step_half auto x y = (x', y', false) ->
  List.length (hp x') < List.length (hp x) /\ hp y' = hp y.
Proof.
  unfold enabled, step_half. destruct (hp x) as [|[k|k|] r]; try discriminate.
  - intros _. destruct auto; intros [= <- <-]; simpl; auto.
  - destruct (hc y) as [|k' c]; [discriminate|]. intros _.
    destruct (name_eqb k k'); [|discriminate]. intros [= <- <-]. simpl; auto.
  - intros _ [= <- <-]. simpl; auto.
Qed.

Lemma lead_progress L F :
  Lead L F -> half_done L && half_done F = false -> enabled L F = true \/ enabled F L = true.
Proof.
  intros (HcF & HbF & fl & tF & Ep & Ns & Rv & S) ND.
  destruct fl as [|a fl].
  - simpl in Rv. symmetry in Rv. apply app_nil_both in Rv. destruct Rv as [HcL HbL].
    simpl in Ep. rewrite HbL in S. simpl in S. rewrite <- Ep in S.
    unfold enabled. rewrite HcL, HcF.
    destruct (hp L) as [|[k|k|] r] eqn:EL; auto; destruct (hp F) as [|[k2|k2|] r2] eqn:EF; auto;
      try (destruct (sync_stuck _ _ _ _ _ _ S I I); discriminate).
    exfalso. unfold half_done in ND. rewrite EL, EF, HcL, HbL, HcF, HbF in ND. discriminate.
  - inversion Ns as [|? ? Na Ns']; subst. unfold enabled at 2. rewrite Ep. simpl.
    destruct a as [k|k|]; simpl in Na; try contradiction; auto.
    simpl in Rv. destruct (hc L) as [|k' c]; auto.
    simpl in Rv. destruct (hb L) as [|k' b]; [discriminate|]. simpl in S.
    left. unfold enabled. destruct (hp L) as [|[k1|k1|] r]; auto.
    + apply sync_dirty_end in S. discriminate.
    + exfalso. eapply sync_dirty_recv; eauto.
Qed.

(* ---- configurations *)
Definition Inv (s : cfg) : Prop := bad s = false /\ (Lead (cG s) (cE s) \/ Lead (cE s) (cG s)).
Definition mu (s : cfg) : nat := List.length (hp (cG s)) + List.length (hp (cE s)).
Definition en (c : choice) (s : cfg) : bool :=
  if is_g c then enabled (cG s) (cE s) else enabled (cE s) (cG s).

Lemma inv_step c s : Inv s -> Inv (step c s).
Proof.
  intros [B H]. unfold step. rewrite B. destruct c as [a|a].
  - destruct H as [H|H].
    + pose proof (lead_step_L _ _ a H) as K. destruct (step_half a (cG s) (cE s)) as [[g e] b].
      destruct K as [-> K]. split; simpl; auto.
    + pose proof (lead_step_F _ _ a H) as K. destruct (step_half a (cG s) (cE s)) as [[g e] b].
      destruct K as [-> K]. split; simpl; auto. tauto.
  - destruct H as [H|H].
    + pose proof (lead_step_F _ _ a H) as K. destruct (step_half a (cE s) (cG s)) as [[e g] b].
      destruct K as [-> K]. split; simpl; auto.
    + pose proof (lead_step_L _ _ a H) as K. destruct (step_half a (cE s) (cG s)) as [[e g] b].
      destruct K as [-> K]. split; simpl; auto.
Qed.

Lemma step_stutter c s : bad s = false -> en c s = false -> step c s = s.
Proof.
  intros B E. unfold step. rewrite B. destruct s as [g e b]. simpl in *. subst b.
  destruct c as [a|a]; unfold en in E; simpl in E; rewrite (not_enabled_stutter a _ _ E); reflexivity.
Qed.

Lemma step_effective c s : Inv s -> en c s = true -> mu (step c s) < mu s.
Proof.
  intros I E. pose proof (inv_step c s I) as [B' _]. destruct I as [B _].
  unfold step in *. rewrite B in *. unfold mu. destruct c as [a|a]; unfold en in E; simpl in E.
  - destruct (step_half a (cG s) (cE s)) as [[g e] b] eqn:Es. simpl in *. subst b.
    destruct (enabled_decr _ _ _ _ _ E Es) as [H1 H2]. rewrite H2. lia.
  - destruct (step_half a (cE s) (cG s)) as [[e g] b] eqn:Es. simpl in *. subst b.
    destruct (enabled_decr _ _ _ _ _ E Es) as [H1 H2]. rewrite H2. lia.
Qed.

Lemma inv_progress s :
  Inv s -> cfg_done s = false -> enabled (cG s) (cE s) = true \/ enabled (cE s) (cG s) = true.
Proof.
  intros [B H] D. unfold cfg_done in D. rewrite B in D. simpl in D.
  destruct H as [H|H].
  - apply lead_progress; auto.
  - rewrite andb_comm in D. destruct (lead_progress _ _ H D); auto.
Qed.

Lemma done_step c s : cfg_done s = true -> step c s = s.
Proof.
  unfold cfg_done. intros D. apply andb_prop in D. destruct D as [D De]. apply andb_prop in D. destruct D as [B Dg].
  apply negb_true_iff in B. apply step_stutter; auto.
  unfold en, enabled, half_done in *.
  destruct (hp (cG s)); [|discriminate]. destruct (hp (cE s)); [|discriminate]. destruct (is_g c); reflexivity.
Qed.

Lemma done_run sched s : cfg_done s = true -> run_cfg sched s = s.
Proof.
  unfold run_cfg. induction sched as [|c r IH]; simpl; intros D; auto. rewrite (done_step c s D). auto.
Qed.

(* ---- fairness arithmetic *)
Lemma count_rounds_facts r :
  (forall sg se, count_rounds sg se r <= S (count_rounds false false r)) /\
  (forall sg se sg2 se2, implb sg2 sg = true -> implb se2 se = true ->
                         count_rounds sg2 se2 r <= count_rounds sg se r).
Proof.
  induction r as [|c r [IA IM]]; [split; intros; simpl; lia|]. split.
  - intros sg se. simpl.
    assert (M0 : count_rounds false false r <= count_rounds (is_g c) (negb (is_g c)) r)
      by (apply IM; reflexivity).
    assert (Hn : is_g c && negb (is_g c) = false) by (destruct (is_g c); reflexivity).
    rewrite Hn.
    destruct ((sg || is_g c) && (se || negb (is_g c))).
    + lia.
    + pose proof (IA (sg || is_g c) (se || negb (is_g c))). lia.
  - intros sg se sg2 se2 H1 H2. simpl.
    destruct ((sg2 || is_g c) && (se2 || negb (is_g c))) eqn:E2.
    + assert (E1 : (sg || is_g c) && (se || negb (is_g c)) = true).
      { destruct sg, se, sg2, se2, (is_g c); simpl in *; congruence. }
      rewrite E1. lia.
    + destruct ((sg || is_g c) && (se || negb (is_g c))).
      * apply IA.
      * apply IM; destruct sg, se, sg2, se2, (is_g c); simpl in *; congruence.
Qed.

Lemma fair_run sched :
  forall s sg se, Inv s ->
    (sg = true -> enabled (cG s) (cE s) = false) ->
    (se = true -> enabled (cE s) (cG s) = false) ->
    mu s <= count_rounds sg se sched ->
    cfg_done (run_cfg sched s) = true.
Proof.
  induction sched as [|c r IH]; intros s sg se I Hg He M.
  - simpl in *. destruct (cfg_done s) eqn:D; auto. exfalso.
    assert (Z : mu s = 0) by lia. unfold mu in Z.
    destruct (inv_progress s I D) as [E|E]; unfold enabled in E.
    + destruct (hp (cG s)); [discriminate|simpl in Z; lia].
    + destruct (hp (cE s)); [discriminate|simpl in Z; lia].
  - destruct (cfg_done s) eqn:D; [now rewrite done_run|].
    change (run_cfg (c :: r) s) with (run_cfg r (step c s)).
    destruct (en c s) eqn:E.
    + pose proof (step_effective c s I E) as Lt.
      apply (IH (step c s) false false (inv_step c s I)); try discriminate.
      simpl in M.
      pose proof (proj1 (count_rounds_facts r) (sg || is_g c) (se || negb (is_g c))).
      destruct ((sg || is_g c) && (se || negb (is_g c))); lia.
    + rewrite (step_stutter c s (proj1 I) E). simpl in M.
      assert (Hg' : sg || is_g c = true -> enabled (cG s) (cE s) = false).
      { intros H. apply orb_prop in H. destruct H as [H|H]; auto. unfold en in E. now rewrite H in E. }
      assert (He' : se || negb (is_g c) = true -> enabled (cE s) (cG s) = false).
      { intros H. apply orb_prop in H. destruct H as [H|H]; auto. unfold en in E.
        apply negb_true_iff in H. now rewrite H in E. }
      destruct ((sg || is_g c) && (se || negb (is_g c))) eqn:C.
      * exfalso. apply andb_prop in C. destruct C as [C1 C2].
        destruct (inv_progress s I D) as [X|X]; [rewrite (Hg' C1) in X|rewrite (He' C2) in X]; discriminate.
      * apply (IH s _ _ I Hg' He' M).
Qed.

Theorem live_flat tg te :
  Sync false false tg te false false ->
  forall sched, List.length tg + List.length te <= count_rounds false false sched ->
    cfg_done (run_cfg sched (init_cfg tg te)) = true.
Proof.
  intros S sched F. apply (fair_run sched _ false false); try discriminate; auto.
  split; [reflexivity|]. left. simpl. repeat split; auto. exists [], te. repeat split; auto.
Qed.

(* ------------------------------------------------------------------ *)
(** * 3. Soundness of the checker, for every environment *)

Lemma flat_pseq e st p q : flat e st (pseq p q) = flat e st p ++ flat e st q.
Proof.
  induction p; simpl; auto; try (now rewrite IHp); try (now rewrite IHp2, app_assoc).
  now rewrite IHp3, app_assoc.
Qed.

Definition Sound (dg de : bool) (pg pe : prog) (r : bool * bool) : Prop :=
  forall e st d1 d2, implb d1 dg = true -> implb d2 de = true ->
  exists d1' d2', implb d1' (fst r) = true /\ implb d2' (snd r) = true /\
                  Sync d1 d2 (flat e st pg) (flat e st pe) d1' d2'.

Lemma snd_end dg de : Sound dg de PEnd PEnd (dg, de).
Proof. intros e st d1 d2 H1 H2. exists d1, d2. simpl. repeat split; auto. constructor. Qed.

Lemma snd_fg dg de rg pe r : Sound false de rg pe r -> Sound dg de (PFlush rg) pe r.
Proof.
  intros H e st d1 d2 H1 H2. destruct (H e st false d2 eq_refl H2) as (a & b & Ha & Hb & S).
  exists a, b. repeat split; auto. simpl. now constructor.
Qed.

Lemma snd_fe dg de pg re r : Sound dg false pg re r -> Sound dg de pg (PFlush re) r.
Proof.
  intros H e st d1 d2 H1 H2. destruct (H e st d1 false H1 eq_refl) as (a & b & Ha & Hb & S).
  exists a, b. repeat split; auto. simpl. now constructor.
Qed.

Lemma snd_ge k dg rg re r : Sound true false rg re r -> Sound dg false (PSend k rg) (PRecv k re) r.
Proof.
  intros H e st d1 d2 H1 H2. apply implb_false_r in H2. subst d2.
  destruct (H e st true false eq_refl eq_refl) as (a & b & Ha & Hb & S).
  exists a, b. repeat split; auto. simpl. now constructor.
Qed.

Lemma snd_eg k de rg re r : Sound false true rg re r -> Sound false de (PRecv k rg) (PSend k re) r.
Proof.
  intros H e st d1 d2 H1 H2. apply implb_false_r in H1. subst d1.
  destruct (H e st false true eq_refl eq_refl) as (a & b & Ha & Hb & S).
  exists a, b. repeat split; auto. simpl. now constructor.
Qed.

Lemma implb_trans a b c : implb a b = true -> implb b c = true -> implb a c = true.
Proof. destruct a, b, c; simpl; congruence. Qed.

Lemma snd_loop l dg de bg be rg re jg je r2 r :
  implb dg jg = true -> implb de je = true ->
  Sound jg je bg be r2 -> implb (fst r2) jg = true -> implb (snd r2) je = true ->
  Sound jg je rg re r ->
  Sound dg de (PLoop l bg rg) (PLoop l be re) r.
Proof.
  intros Jg Je Hb I1 I2 Hr e st d1 d2 H1 H2. simpl.
  assert (K : forall (is : list nat) a b, implb a jg = true -> implb b je = true ->
            exists a' b', implb a' jg = true /\ implb b' je = true /\
              Sync a b (flat_map (fun i => flat e (i :: st) bg) is)
                       (flat_map (fun i => flat e (i :: st) be) is) a' b').
  { induction is as [|i is IH]; intros a b Ha Hb'.
    - exists a, b. repeat split; auto. constructor.
    - destruct (Hb e (i :: st) a b Ha Hb') as (a1 & b1 & Ha1 & Hb1 & S1).
      destruct (IH a1 b1 (implb_trans _ _ _ Ha1 I1) (implb_trans _ _ _ Hb1 I2)) as (a2 & b2 & Ha2 & Hb2 & S2).
      exists a2, b2. repeat split; auto. simpl. eapply sync_app; eauto. }
  destruct (K (seq 0 (cnt e l st)) d1 d2 (implb_trans _ _ _ H1 Jg) (implb_trans _ _ _ H2 Je))
    as (a & b & Ha & Hb' & S1).
  destruct (Hr e st a b Ha Hb') as (a2 & b2 & Ha2 & Hb2 & S2).
  exists a2, b2. repeat split; auto. eapply sync_app; eauto.
Qed.

Lemma implb_orb_l a b c : implb a b = true -> implb a (b || c) = true.
Proof. destruct a, b, c; simpl; congruence. Qed.
Lemma implb_orb_r a b c : implb a c = true -> implb a (b || c) = true.
Proof. destruct a, b, c; simpl; congruence. Qed.

Lemma snd_br2 l dg de ag bg rg ae be re ra rb :
  Sound dg de (pseq ag rg) (pseq ae re) ra -> Sound dg de (pseq bg rg) (pseq be re) rb ->
  Sound dg de (PBranch l ag bg rg) (PBranch l ae be re) (fst ra || fst rb, snd ra || snd rb).
Proof.
  intros Ha Hb e st d1 d2 H1 H2. simpl. destruct (brv e l st).
  - destruct (Ha e st d1 d2 H1 H2) as (a & b & A & B & S). rewrite !flat_pseq in S.
    exists a, b. repeat split; auto using implb_orb_l.
  - destruct (Hb e st d1 d2 H1 H2) as (a & b & A & B & S). rewrite !flat_pseq in S.
    exists a, b. repeat split; auto using implb_orb_r.
Qed.

Lemma snd_brg l dg de ag bg rg pe ra rb :
  Sound dg de (pseq ag rg) pe ra -> Sound dg de (pseq bg rg) pe rb ->
  Sound dg de (PBranch l ag bg rg) pe (fst ra || fst rb, snd ra || snd rb).
Proof.
  intros Ha Hb e st d1 d2 H1 H2. simpl. destruct (brv e l st).
  - destruct (Ha e st d1 d2 H1 H2) as (a & b & A & B & S). rewrite !flat_pseq in S.
    exists a, b. repeat split; auto using implb_orb_l.
  - destruct (Hb e st d1 d2 H1 H2) as (a & b & A & B & S). rewrite !flat_pseq in S.
    exists a, b. repeat split; auto using implb_orb_r.
Qed.

Lemma snd_bre l dg de pg ae be re ra rb :
  Sound dg de pg (pseq ae re) ra -> Sound dg de pg (pseq be re) rb ->
  Sound dg de pg (PBranch l ae be re) (fst ra || fst rb, snd ra || snd rb).
Proof.
  intros Ha Hb e st d1 d2 H1 H2. simpl. destruct (brv e l st).
  - destruct (Ha e st d1 d2 H1 H2) as (a & b & A & B & S). rewrite !flat_pseq in S.
    exists a, b. repeat split; auto using implb_orb_l.
  - destruct (Hb e st d1 d2 H1 H2) as (a & b & A & B & S). rewrite !flat_pseq in S.
    exists a, b. repeat split; auto using implb_orb_r.
Qed.

Lemma implb_orb_self a b : implb a (a || b) = true.
Proof. destruct a, b; reflexivity. Qed.

Ltac brk H :=
  repeat match type of H with
         | (if ?c then _ else _) = Some _ => let E := fresh "E" in destruct c eqn:E
         | match ?x with _ => _ end = Some _ => let E := fresh "E" in destruct x eqn:E
         | None = Some _ => discriminate H
         end.

Lemma check_sound f :
  forall dg de pg pe r, check f dg de pg pe = Some r -> Sound dg de pg pe r.
Proof.
  induction f as [|f IH]; [discriminate|].
  assert (BRG : forall l dg de ag bg rg pe r,
            match check f dg de (pseq ag rg) pe, check f dg de (pseq bg rg) pe with
            | Some (a1, a2), Some (b1, b2) => Some (a1 || b1, a2 || b2)
            | _, _ => None
            end = Some r -> Sound dg de (PBranch l ag bg rg) pe r).
  { intros l dg de ag bg rg pe r H. brk H. injection H as <-.
    apply (snd_brg l dg de ag bg rg pe (_, _) (_, _)); apply IH; assumption. }
  assert (BRE : forall l dg de pg ae be re r,
            match check f dg de pg (pseq ae re), check f dg de pg (pseq be re) with
            | Some (a1, a2), Some (b1, b2) => Some (a1 || b1, a2 || b2)
            | _, _ => None
            end = Some r -> Sound dg de pg (PBranch l ae be re) r).
  { intros l dg de pg ae be re r H. brk H. injection H as <-.
    apply (snd_bre l dg de pg ae be re (_, _) (_, _)); apply IH; assumption. }
  intros dg de pg pe r H.
  destruct pg as [|k rg|k rg|rg|l bg rg|l ag bg rg|bs op n rg|m rg];
    try (simpl in H; apply snd_fg; apply IH; exact H);
    destruct pe as [|k' re|k' re|re|l' be re|l' ae be re|bs' op' n' re|m' re];
    try (simpl in H; apply snd_fe; apply IH; exact H);
    simpl in H; try discriminate H;
    try (eapply BRG; exact H); try (eapply BRE; exact H).
  - injection H as <-. apply snd_end.
  - brk H. apply andb_prop in E. destruct E as [E1 E2]. apply name_eqb_eq in E1. subst k'.
    apply negb_true_iff in E2. subst de. apply snd_ge. apply IH. exact H.
  - brk H. apply andb_prop in E. destruct E as [E1 E2]. apply name_eqb_eq in E1. subst k'.
    apply negb_true_iff in E2. subst dg. apply snd_eg. apply IH. exact H.
  - brk H. apply name_eqb_eq in E. subst l'.
    apply andb_prop in E4. destruct E4 as [I1 I2].
    eapply (snd_loop l dg de bg be rg re _ _ (_, _)); [apply implb_orb_self|apply implb_orb_self|
      apply IH; eassumption|exact I1|exact I2|apply IH; exact H].
  - brk H. apply name_eqb_eq in E. subst l'. injection H as <-.
    apply (snd_br2 l dg de ag bg rg ae be re (_, _) (_, _)); apply IH; assumption.
Qed.

(* ------------------------------------------------------------------ *)
(** * 4. The generic theorem *)

Theorem well_flushed_live :
  forall g e, well_flushed g e = true ->
  forall (en : env) (sched : list choice), fair g e en sched -> run_live g e en sched = Done.
Proof.
  intros g e W en sched F. unfold well_flushed in W.
  destruct (check _ false false g e) as [[[|] [|]]|] eqn:C; try discriminate.
  destruct (check_sound _ _ _ _ _ _ C en [] false false eq_refl eq_refl) as (a & b & Ha & Hb & S).
  simpl in Ha, Hb. apply implb_false_r in Ha. apply implb_false_r in Hb. subst a b.
  unfold run_live. unfold fair, round_bound in F. now rewrite (live_flat _ _ S sched F).
Qed.

(* what Done means, spelled out: nothing left to execute, nothing buffered,
   nothing in flight, no receive saw a message of another kind *)
Lemma done_spec g e en sched :
  run_live g e en sched = Done ->
  let s := run_cfg sched (init_cfg (flat en [] g) (flat en [] e)) in
  bad s = false /\ hp (cG s) = [] /\ hb (cG s) = [] /\ hc (cG s) = [] /\
  hp (cE s) = [] /\ hb (cE s) = [] /\ hc (cE s) = [].
Proof.
  unfold run_live. destruct (cfg_done _) eqn:D; [|discriminate]. intros _. simpl.
  unfold cfg_done, half_done in D.
  destruct (bad _); [discriminate|].
  destruct (hp (cG _)); [|discriminate]. destruct (hb (cG _)); [|discriminate]. destruct (hc (cG _)); [|discriminate].
  destruct (hp (cE _)); [|discriminate]. destruct (hb (cE _)); [|discriminate]. destruct (hc (cE _)); [|discriminate].
  repeat split; reflexivity.
Qed.

(* ------------------------------------------------------------------ *)
(** * 5. The converse for the important failure: a missing Flush *)

Open Scope nm_scope.

(* the session in miniature: first flight (flushed by InitSender), the
   evaluator's two SendUint32 + Flush, the reply *)
Definition mini_garbler : prog :=
  mk [PSend "Data"; PLoop "n0" (mk [PSend "Label"]); PSend "Data"; PFlush;
      PRecv "Uint32"; PRecv "Uint32"; PSend "Label"; PFlush].
Definition mini_evaluator (with_flush : bool) : prog :=
  mk ([PRecv "Data"; PLoop "n0" (mk [PRecv "Label"]); PRecv "Data";
       PSend "Uint32"; PSend "Uint32"] ++ (if with_flush then [PFlush] else []) ++ [PRecv "Label"]).

Definition mini_env : env := mkEnv (fun _ _ => 2) (fun _ _ => false).

(* the alternating schedule: garbler, evaluator, garbler, ... with no automatic flush *)
Fixpoint alt (n : nat) : list choice :=
  match n with O => [] | S n' => CG false :: CE false :: alt n' end.

Lemma alt_rounds n : count_rounds false false (alt n) = n.
Proof. induction n; simpl; auto. Qed.

Lemma alt_app a b : alt (a + b) = alt a ++ alt b.
Proof. induction a; simpl; auto. now rewrite IHa. Qed.

Definition mini_stuck : cfg :=
  mkCfg (mkHalf [ARecv "Uint32"; ARecv "Uint32"; ASend "Label"; AFlush] [] [])
        (mkHalf [ARecv "Label"] ["Uint32"; "Uint32"] []) false.

Lemma mini_stuck_forever n :
  run_cfg (alt (12 + n)) (init_cfg (flat mini_env [] mini_garbler) (flat mini_env [] (mini_evaluator false)))
  = mini_stuck.
Proof.
  rewrite alt_app. unfold run_cfg. rewrite fold_left_app.
  change (fold_left (fun s c => step c s) (alt n)
            (run_cfg (alt 12) (init_cfg (flat mini_env [] mini_garbler) (flat mini_env [] (mini_evaluator false))))
          = mini_stuck).
  replace (run_cfg (alt 12) _) with mini_stuck by (vm_compute; reflexivity).
  induction n as [|n IH]; simpl; auto.
Qed.

Theorem missing_flush_refuted :
  exists (g : prog) (e_ok e_bad : prog) (en : env),
    (* the code as it is: accepted, hence live *)
    well_flushed g e_ok = true /\
    (* one Flush deleted (the evaluator's, after its two SendUint32): rejected ... *)
    well_flushed g e_bad = false /\
    (* ... and rightly so: on the alternating schedule, fair for every bound
       (n complete rounds, for every n), with no automatic flush, the run is
       stuck for ever — the garbler waits for the two integers that sit in the
       evaluator's write buffer, the evaluator waits for the garbler's reply *)
    forall n, count_rounds false false (alt n) = n /\
              (12 <= n -> run_live g e_bad en (alt n) = Unfinished mini_stuck) /\
              exists s, run_live g e_bad en (alt n) = Unfinished s.
Proof.
  exists mini_garbler, (mini_evaluator true), (mini_evaluator false), mini_env.
  split; [vm_compute; reflexivity|]. split; [vm_compute; reflexivity|].
  intros n. split; [apply alt_rounds|].
  assert (K : 12 <= n -> run_live mini_garbler (mini_evaluator false) mini_env (alt n) = Unfinished mini_stuck).
  { intros H. replace n with (12 + (n - 12)) by lia. unfold run_live. rewrite mini_stuck_forever. reflexivity. }
  split; [exact K|].
  destruct (le_lt_dec 12 n) as [H|H]; [eexists; apply K; exact H|].
  do 12 (destruct n as [|n]; [vm_compute; eexists; reflexivity|]). lia.
Qed.
