(* MeshLive.v — the global invariant of the mesh model of the code as it is now
   ([fixed = true]): link identity (every link is stored by its dialler under
   the connection id carried in its hello, it is in exactly one of: the
   listener's backlog, the hands of the accept thread, the acceptor's table
   under the same id), no error state is reachable, and — on top of it —
   deadlock freedom, a decreasing measure and termination under every fair
   schedule. *)
From Coq Require Import Arith List Bool PeanoNat Lia Sorted.
From Mpc Require Import Proto.Mesh Proto.MeshProof Proto.MeshFixedProof.
Import ListNotations.

Ltac psimpl := cbn [p_queue p_peers p_conns p_main p_acc p_need p_np p_ldone p_ret
                    set_main set_acc set_queue set_need set_tab set_np main_done acc_dead
                    g_party g_link g_nlinks set_party set_hello set_info l_from l_to l_hello l_info].
Tactic Notation "psimpl" "in" hyp(H) :=
  cbn [p_queue p_peers p_conns p_main p_acc p_need p_np p_ldone p_ret
       set_main set_acc set_queue set_need set_tab set_np main_done acc_dead
       g_party g_link g_nlinks set_party set_hello set_info l_from l_to l_hello l_info] in H.
Tactic Notation "psimpl" "in" "*" :=
  cbn [p_queue p_peers p_conns p_main p_acc p_need p_np p_ldone p_ret
       set_main set_acc set_queue set_need set_tab set_np main_done acc_dead
       g_party g_link g_nlinks set_party set_hello set_info l_from l_to l_hello l_info] in *.

Definition cid (r : linkrec) : nat := match l_hello r with Some (c, _) => c | None => 0 end.
Definition dside (i t : nat) : Prop := t = 0 \/ i < t.

Section Live.
Variables n k : nat.
Hypothesis Hn : 2 <= n.
Hypothesis Hk : 1 <= k.
Hypothesis Hk256 : k <= 256.

Notation P st i := (g_party st i).
Notation L st l := (g_link st l).

Record GInv (st : state) : Prop := {
  g_dial : forall l, l < g_nlinks st ->
      p_conns (P st (l_from (L st l))) (l_to (L st l)) (cid (L st l)) = Some l;
  g_acc : forall i j c l, i < n -> In j (aside n i) -> p_conns (P st i) j c = Some l ->
      l_from (L st l) = j /\ l_to (L st l) = i /\ l_hello (L st l) = Some (c, j);
  g_dslot : forall i t c l, i < n -> i <> 0 -> dside i t -> p_conns (P st i) t c = Some l ->
      l_from (L st l) = i /\ l_to (L st l) = t /\ cid (L st l) = c;
  g_hello : forall l, l < g_nlinks st -> l_hello (L st l) = None ->
      l_to (L st l) = 0 /\ p_main (P st (l_from (L st l))) = MHello;
  g_place : forall l, l < g_nlinks st ->
      In l (p_queue (P st (l_to (L st l)))) \/
      (exists c id, p_acc (P st (l_to (L st l))) = ASet l c id) \/
      p_conns (P st (l_to (L st l))) (l_from (L st l)) (cid (L st l)) = Some l;
  g_queue : forall i, i < n -> NoDup (p_queue (P st i)) /\
      forall l, In l (p_queue (P st i)) ->
        p_conns (P st i) (l_from (L st l)) (cid (L st l)) = None /\
        (forall c id, p_acc (P st i) <> ASet l c id);
  g_held : forall i l c id, i < n -> p_acc (P st i) = ASet l c id ->
      l_hello (L st l) = Some (c, id) /\ p_conns (P st i) id c = None;
  g_none : forall i, i < n -> i <> 0 ->
      match p_main (P st i) with
      | MDial c ts => NoDup ts /\ forall t c', dside i t -> (c < c' \/ (c' = c /\ In t ts)) ->
                                              p_conns (P st i) t c' = None
      | MWait c => forall t c', dside i t -> c < c' -> p_conns (P st i) t c' = None
      | _ => True end;
  g_noerr : forall i, i < n -> (forall code, p_main (P st i) <> MErr code) /\
      (forall code, p_acc (P st i) <> ADead code) /\ p_ldone (P st i) = false;
  g_np : forall i, i < n -> p_acc (P st i) <> AOff -> p_np (P st i) = n;
  g_info : (match p_main (P st 0) with MWait c => 1 <= c | MDone => True | _ => False end) ->
      forall l, l < g_nlinks st -> l_to (L st l) = 0 -> cid (L st l) = 0 -> l_info (L st l) <> None;
  g_done : forall i, i < n -> p_main (P st i) = MDone -> p_acc (P st i) <> AOff
}.

(* two links with the same ends and connection id are the same link *)
Lemma link_unique st l l' : GInv st -> l < g_nlinks st -> l' < g_nlinks st ->
  l_from (L st l) = l_from (L st l') -> l_to (L st l) = l_to (L st l') -> cid (L st l) = cid (L st l') -> l = l'.
Proof.
  intros G H H' E1 E2 E3. pose proof (g_dial _ G l H) as A. pose proof (g_dial _ G l' H') as B.
  rewrite E1, E2, E3 in A. rewrite A in B. now injection B.
Qed.

Lemma aside_in i j : i < n -> 1 <= j -> (i = 0 -> j < n) -> (i <> 0 -> j < i) -> In j (aside n i).
Proof.
  intros Hi H1 H2 H3. apply (proj2 (in_aside n k Hn Hk _ _)). unfold E. destruct (i =? 0) eqn:E0.
  - apply Nat.eqb_eq in E0. specialize (H2 E0). lia.
  - apply Nat.eqb_neq in E0. specialize (H3 E0). lia.
Qed.

(* the dialler of a link is on the accept side of its listener *)
Lemma link_from_aside st l : Inv n k st -> l < g_nlinks st -> In (l_from (L st l)) (aside n (l_to (L st l))).
Proof.
  intros (HL & _) Hl. destruct (HL l Hl) as (L1 & L2 & L3 & L4 & _).
  apply aside_in; try lia.
Qed.

Lemma cnt_lt t i c id : In id (aside n i) -> t id c = None -> cnt n t i c < E n i.
Proof.
  intros Hin Hn0. unfold cnt. rewrite <- (aside_len n i).
  assert (H : length (filter (stored t c) (aside n i)) <= length (aside n i)) by apply filter_len_le.
  destruct (Nat.eq_dec (length (filter (stored t c) (aside n i))) (length (aside n i))) as [Heq|]; [|lia].
  pose proof (filter_len_full _ _ Heq id Hin) as Hs. unfold stored in Hs. rewrite Hn0 in Hs. discriminate.
Qed.

(* ---------------- the accept thread *)
Lemma acc_step_ginv i st st' :
  i < n -> Inv n k st -> GInv st -> acc_step true k i st = Some st' -> GInv st'.
Proof.
  intros Hi HI G. pose proof HI as (HL & HP). pose proof (HP i Hi) as PI.
  unfold acc_step. set (p := g_party st i) in *.
  destruct (p_acc p) eqn:Ha; try discriminate.
  - (* AIdle: pop the backlog, read the hello *)
    destruct (p_queue p) as [|l q] eqn:Hq; [discriminate|].
    assert (Hlq : In l (p_queue p)) by (rewrite Hq; now left).
    destruct (pi_queue _ _ _ _ _ _ PI l Hlq) as (Hl & Hto).
    pose proof (HL l Hl) as (L1 & L2 & L3 & L4 & L5 & L6).
    destruct (l_hello (g_link st l)) as [[c id]|] eqn:Hh; [|discriminate].
    destruct (L5 c id eq_refl) as (Hid & Hc).
    assert (Hkc : (k <=? c) = false) by (apply Nat.leb_gt; lia). rewrite Hkc.
    intros [= <-].
    destruct (g_queue _ G i Hi) as (QN & QS). fold p in QN, QS. rewrite Hq in QN, QS. apply NoDup_cons_iff in QN. destruct QN as (QN1 & QN2).
    assert (Hcid : cid (g_link st l) = c) by (unfold cid; now rewrite Hh).
    set (p' := set_acc (set_queue p q) (ASet l c id)).
    assert (Pc : forall x, p_conns (upd (g_party st) i p' x) = p_conns (g_party st x)).
    { intros x. destruct (Nat.eq_dec x i) as [->|Hne]; [rewrite upd_same|rewrite upd_other by assumption]; reflexivity. }
    assert (Pm : forall x, p_main (upd (g_party st) i p' x) = p_main (g_party st x)).
    { intros x. destruct (Nat.eq_dec x i) as [->|Hne]; [rewrite upd_same|rewrite upd_other by assumption]; reflexivity. }
    constructor.
    + intros l0 Hl0. psimpl in Hl0. psimpl. rewrite Pc. now apply (g_dial _ G).
    + intros x j c0 l0 Hx Hj. psimpl. rewrite Pc. now apply (g_acc _ G).
    + intros x t c0 l0 Hx Hx0 Hd. psimpl. rewrite Pc. now apply (g_dslot _ G).
    + intros l0 Hl0 Hn0. psimpl in Hl0. psimpl in Hn0. psimpl. rewrite Pm. now apply (g_hello _ G).
    + intros l0 Hl0. psimpl in Hl0. psimpl. rewrite Pc. destruct (g_place _ G l0 Hl0) as [A|[A|A]].
      * destruct (Nat.eq_dec (l_to (g_link st l0)) i) as [E|Hne].
        -- rewrite E in *. rewrite upd_same. unfold p'. psimpl. fold p in A. rewrite Hq in A. destruct A as [<-|A].
           ++ right. left. eauto.
           ++ now left.
        -- rewrite upd_other by assumption. now left.
      * destruct A as (c0 & id0 & A). destruct (Nat.eq_dec (l_to (g_link st l0)) i) as [E|Hne].
        -- rewrite E in A. fold p in A. congruence.
        -- rewrite upd_other by assumption. right. left. eauto.
      * now right; right.
    + intros x Hx. psimpl. rewrite Pc. destruct (Nat.eq_dec x i) as [->|Hne].
      * rewrite upd_same. unfold p'. psimpl. split; [assumption|].
        intros l0 Hl0. destruct (QS l0 (or_intror Hl0)) as (A & B). split; [exact A|].
        intros c0 id0 [= -> _ _]. contradiction.
      * rewrite upd_other by assumption. now apply (g_queue _ G).
    + intros x l0 c0 id0 Hx. psimpl. rewrite Pc. destruct (Nat.eq_dec x i) as [->|Hne].
      * rewrite upd_same. unfold p'. psimpl. intros [= <- <- <-]. split; [assumption|].
        destruct (QS l (or_introl eq_refl)) as (A & _). rewrite Hcid, <- Hid in A. exact A.
      * rewrite upd_other by assumption. now apply (g_held _ G).
    + intros x Hx Hx0. psimpl. rewrite Pm, Pc. now apply (g_none _ G).
    + intros x Hx. psimpl. rewrite Pm. destruct (Nat.eq_dec x i) as [->|Hne].
      * rewrite upd_same. unfold p'. psimpl. destruct (g_noerr _ G i Hi) as (A & B & C). repeat split; auto; discriminate.
      * rewrite upd_other by assumption. now apply (g_noerr _ G).
    + intros x Hx. psimpl. destruct (Nat.eq_dec x i) as [->|Hne].
      * rewrite upd_same. unfold p'. psimpl. intros _. apply (g_np _ G i Hi). fold p. rewrite Ha. discriminate.
      * rewrite upd_other by assumption. now apply (g_np _ G).
    + psimpl. rewrite Pm. apply (g_info _ G).
    + intros x Hx. psimpl. rewrite Pm. intros Hd. destruct (Nat.eq_dec x i) as [->|Hne].
      * rewrite upd_same. unfold p'. psimpl. discriminate.
      * rewrite upd_other by assumption. now apply (g_done _ G).
  - (* ASet: register under nw.m *)
    pose proof (pi_acc _ _ _ _ _ _ PI) as PA. rewrite Ha in PA. destruct PA as (Hid & Hc & Hl & Hfrom & Hto).
    destruct (g_held _ G i l c id Hi Ha) as (Hh & Hslot). fold p in Hslot.
    pose proof (aside_lt n k Hn Hk i id Hi Hid) as (Id1 & Id2 & Id3).
    assert (Hrun : running (p_acc p)) by (rewrite Ha; exact I).
    pose proof (pi_need _ _ _ _ _ _ PI Hrun c Hc) as Hneed.
    pose proof (cnt_lt (p_conns p) i c id Hid Hslot) as Hlt.
    assert (Hnz : (p_need p c =? 0) = false) by (apply Nat.eqb_neq; lia). rewrite Hnz.
    assert (Hnp : p_np p = n) by (apply (g_np _ G i Hi); fold p; rewrite Ha; discriminate).
    unfold add_peer. assert (Hnpid : (p_np p <=? id) = false) by (apply Nat.leb_gt; lia). rewrite Hnpid.
    assert (Hcid : cid (g_link st l) = c) by (unfold cid; now rewrite Hh).
    (* both branches of addPeerLocked write exactly row id *)
    assert (Common : forall (ps : list nat) (tb : table),
              (forall j c', j <> id \/ c' <> c -> tb j c' = p_conns p j c') ->
              tb id c = Some l ->
              GInv (set_party st i (set_acc (set_need (set_tab p ps tb)
                     (upd (p_need (set_tab p ps tb)) c (p_need (set_tab p ps tb) c - 1))) AIdle))).
    { intros ps tb T1 T2.
      assert (Pm : forall x, p_main (P (set_party st i (set_acc (set_need (set_tab p ps tb)
                     (upd (p_need (set_tab p ps tb)) c (p_need (set_tab p ps tb) c - 1))) AIdle)) x) = p_main (P st x)).
      { intros x. psimpl. destruct (Nat.eq_dec x i) as [->|Hne]; [rewrite upd_same|rewrite upd_other by assumption]; reflexivity. }
      assert (Pc : forall x, x <> i -> P (set_party st i (set_acc (set_need (set_tab p ps tb)
                     (upd (p_need (set_tab p ps tb)) c (p_need (set_tab p ps tb) c - 1))) AIdle)) x = P st x).
      { intros x Hne. psimpl. now rewrite upd_other. }
      assert (Pi : p_conns (P (set_party st i (set_acc (set_need (set_tab p ps tb)
                     (upd (p_need (set_tab p ps tb)) c (p_need (set_tab p ps tb) c - 1))) AIdle)) i) = tb).
      { psimpl. now rewrite upd_same. }
      assert (Tmono : forall j c' l0, p_conns p j c' = Some l0 -> tb j c' = Some l0).
      { intros j c' l0 H0. destruct (Nat.eq_dec j id) as [->|Hne]; [|rewrite T1; auto].
        destruct (Nat.eq_dec c' c) as [->|Hnc]; [congruence|]. rewrite T1; auto. }
      constructor.
      - (* g_dial *)
        intros l0 Hl0. psimpl in Hl0. psimpl. pose proof (g_dial _ G l0 Hl0) as A.
        destruct (Nat.eq_dec (l_from (g_link st l0)) i) as [E|Hne].
        + rewrite E in *. rewrite upd_same. psimpl. fold p in A. now apply Tmono.
        + rewrite upd_other by assumption. exact A.
      - (* g_acc *)
        intros x j c' l0 Hx Hj. psimpl. destruct (Nat.eq_dec x i) as [->|Hne].
        + rewrite upd_same. psimpl. intros H0.
          destruct (Nat.eq_dec j id) as [->|Hnj].
          * destruct (Nat.eq_dec c' c) as [->|Hnc].
            -- rewrite T2 in H0. injection H0 as <-. auto.
            -- rewrite T1 in H0 by auto. eapply (g_acc _ G); eauto.
          * rewrite T1 in H0 by auto. eapply (g_acc _ G); eauto.
        + rewrite upd_other by assumption. now apply (g_acc _ G).
      - (* g_dslot *)
        intros x t c' l0 Hx Hx0 Hd. psimpl. destruct (Nat.eq_dec x i) as [->|Hne].
        + rewrite upd_same. psimpl. intros H0.
          assert (t <> id) by (destruct Hd as [->|Hd]; [lia|specialize (Id3 Hx0); lia]).
          rewrite T1 in H0 by auto. eapply (g_dslot _ G); eauto.
        + rewrite upd_other by assumption. now apply (g_dslot _ G).
      - (* g_hello *)
        intros l0 Hl0 Hn0. psimpl in *. destruct (g_hello _ G l0 Hl0 Hn0) as (A & B). split; [assumption|].
        pose proof (Pm (l_from (g_link st l0))) as E. psimpl in E. rewrite E. exact B.
      - (* g_place *)
        intros l0 Hl0. psimpl in Hl0. psimpl.
        destruct (Nat.eq_dec (l_to (g_link st l0)) i) as [E|Hne].
        + rewrite E. rewrite upd_same. psimpl. destruct (g_place _ G l0 Hl0) as [A|[A|A]]; rewrite E in A; fold p in A.
          * now left.
          * destruct A as (c0 & id0 & A). rewrite Ha in A. injection A as <- <- <-.
            right. right. rewrite Hfrom, Hcid. exact T2.
          * right. right. now apply Tmono.
        + rewrite upd_other by assumption. apply (g_place _ G l0 Hl0).
      - (* g_queue *)
        intros x Hx. psimpl. destruct (Nat.eq_dec x i) as [->|Hne].
        + rewrite upd_same. psimpl. destruct (g_queue _ G i Hi) as (QN & QS). fold p in QN, QS.
          split; [assumption|]. intros l0 Hl0. destruct (QS l0 Hl0) as (A & B). split; [|discriminate].
          destruct (pi_queue _ _ _ _ _ _ PI l0 Hl0) as (Hl0n & Hl0to).
          destruct (Nat.eq_dec (l_from (g_link st l0)) id) as [Ef|Hnf].
          * destruct (Nat.eq_dec (cid (g_link st l0)) c) as [Ec|Hnc].
            -- exfalso. assert (l0 = l) by (apply (link_unique st); auto; congruence). subst l0.
               now apply (B c id).
            -- rewrite T1 by auto. exact A.
          * rewrite T1 by auto. exact A.
        + rewrite upd_other by assumption. now apply (g_queue _ G).
      - (* g_held *)
        intros x l0 c0 id0 Hx. psimpl. destruct (Nat.eq_dec x i) as [->|Hne].
        + rewrite upd_same. psimpl. discriminate.
        + rewrite upd_other by assumption. now apply (g_held _ G).
      - (* g_none *)
        intros x Hx Hx0. pose proof (g_none _ G x Hx Hx0) as A. psimpl. destruct (Nat.eq_dec x i) as [->|Hne].
        + rewrite upd_same. psimpl. fold p in A.
          assert (Hd : forall t, dside i t -> t <> id) by (intros t [->|Hd]; [lia|specialize (Id3 Hx0); lia]).
          destruct (p_main p); auto.
          * destruct A as (A1 & A2). split; [assumption|]. intros t c' Hdt Hcc. rewrite T1 by auto. now apply A2.
          * intros t c' Hdt Hcc. rewrite T1 by auto. now apply A.
        + rewrite upd_other by assumption. exact A.
      - (* g_noerr *)
        intros x Hx. psimpl. destruct (Nat.eq_dec x i) as [->|Hne].
        + rewrite upd_same. psimpl. destruct (g_noerr _ G i Hi) as (A & B & C). repeat split; auto; discriminate.
        + rewrite upd_other by assumption. now apply (g_noerr _ G).
      - (* g_np *)
        intros x Hx. psimpl. destruct (Nat.eq_dec x i) as [->|Hne].
        + rewrite upd_same. psimpl. auto.
        + rewrite upd_other by assumption. now apply (g_np _ G).
      - (* g_info *)
        intros Hm l0 Hl0. pose proof (Pm 0) as E. psimpl in E. psimpl in Hm. rewrite E in Hm. psimpl.
        now apply (g_info _ G Hm).
      - (* g_done *)
        intros x Hx. psimpl. destruct (Nat.eq_dec x i) as [->|Hne].
        + rewrite upd_same. psimpl. discriminate.
        + rewrite upd_other by assumption. now apply (g_done _ G). }
    destruct (memb id (p_peers p)) eqn:Hmem.
    + rewrite Hslot. intros [= <-]. apply Common.
      * intros j c' Hj. unfold set_conn, upd. destruct (j =? id) eqn:Ej; [|reflexivity].
        apply Nat.eqb_eq in Ej. subst j. destruct (c' =? c) eqn:Ec; [|reflexivity].
        apply Nat.eqb_eq in Ec. destruct Hj; congruence.
      * unfold set_conn. now rewrite !upd_same.
    + assert (Hnin : ~ In id (p_peers p)) by (intros H; apply memb_In in H; congruence).
      intros [= <-]. apply Common.
      * intros j c' Hj. unfold upd. destruct (j =? id) eqn:Ej; [|reflexivity].
        apply Nat.eqb_eq in Ej. subst j. rewrite (pi_p3 _ _ _ _ _ _ PI id c' Hnin).
        destruct (c' =? c) eqn:Ec; [|reflexivity]. apply Nat.eqb_eq in Ec. destruct Hj; congruence.
      * now rewrite !upd_same.
  - (* AAdd: not reachable *)
    exfalso. pose proof (pi_acc _ _ _ _ _ _ PI) as PA. rewrite Ha in PA. exact PA.
Qed.


(* ---------------- the main thread *)

(* a step that changes only party i's main thread (and possibly starts its
   accept thread), leaves tables and backlogs alone, and changes at most the
   info field of links *)
Lemma ginv_local st st1 i p' :
  i < n -> Inv n k st -> GInv st ->
  g_party st1 = g_party st -> g_nlinks st1 = g_nlinks st ->
  (forall l, l_from (L st1 l) = l_from (L st l) /\ l_to (L st1 l) = l_to (L st l) /\ l_hello (L st1 l) = l_hello (L st l)) ->
  p_conns p' = p_conns (P st i) -> p_queue p' = p_queue (P st i) -> p_ldone p' = p_ldone (P st i) ->
  (p_acc p' = p_acc (P st i) \/ (p_acc (P st i) = AOff /\ p_acc p' = AIdle)) ->
  p_main (P st i) <> MHello ->
  (p_acc p' <> AOff -> p_np p' = n) ->
  (forall code, p_main p' <> MErr code) ->
  (i <> 0 -> match p_main p' with
             | MDial c ts => NoDup ts /\ forall t c', dside i t -> (c < c' \/ (c' = c /\ In t ts)) ->
                                                     p_conns (P st i) t c' = None
             | MWait c => forall t c', dside i t -> c < c' -> p_conns (P st i) t c' = None
             | _ => True end) ->
  ((match p_main (if i =? 0 then p' else P st 0) with MWait c => 1 <= c | MDone => True | _ => False end) ->
   forall l, l < g_nlinks st -> l_to (L st l) = 0 -> cid (L st l) = 0 -> l_info (L st1 l) <> None) ->
  (p_main p' = MDone -> p_acc p' <> AOff) ->
  GInv (set_party st1 i p').
Proof.
  intros Hi HI G Hp Hnl Hlk Hc Hq Hld Hacc Hnh Hnp Hne Hnone Hinfo Hdone.
  pose proof HI as (HL & HP). pose proof (HP i Hi) as PI.
  assert (Hcid : forall l, cid (L st1 l) = cid (L st l)).
  { intros l. unfold cid. now rewrite (proj2 (proj2 (Hlk l))). }
  assert (Pc : forall x, p_conns (upd (g_party st) i p' x) = p_conns (g_party st x)).
  { intros x. destruct (Nat.eq_dec x i) as [->|Hx]; [rewrite upd_same; assumption|now rewrite upd_other]. }
  assert (Pq : forall x, p_queue (upd (g_party st) i p' x) = p_queue (g_party st x)).
  { intros x. destruct (Nat.eq_dec x i) as [->|Hx]; [rewrite upd_same; assumption|now rewrite upd_other]. }
  assert (Pa : forall x l c id, p_acc (upd (g_party st) i p' x) = ASet l c id -> p_acc (g_party st x) = ASet l c id).
  { intros x l c id. destruct (Nat.eq_dec x i) as [->|Hx]; [rewrite upd_same|now rewrite upd_other].
    destruct Hacc as [->|(_ & ->)]; [auto|discriminate]. }
  assert (Pa' : forall x l c id, p_acc (g_party st x) = ASet l c id -> p_acc (upd (g_party st) i p' x) = ASet l c id).
  { intros x l c id. destruct (Nat.eq_dec x i) as [->|Hx]; [rewrite upd_same|now rewrite upd_other].
    destruct Hacc as [->|(E & _)]; [auto|congruence]. }
  constructor; psimpl; rewrite ?Hp, ?Hnl.
  - intros l Hl. destruct (Hlk l) as (-> & -> & _). rewrite Hcid, Pc. now apply (g_dial _ G).
  - intros x j c l Hx Hj. rewrite Pc. intros H. destruct (Hlk l) as (-> & -> & ->). now apply (g_acc _ G x j c l).
  - intros x t c l Hx Hx0 Hd. rewrite Pc. intros H. destruct (Hlk l) as (-> & -> & _). rewrite Hcid. now apply (g_dslot _ G x t c l).
  - intros l Hl. destruct (Hlk l) as (-> & -> & ->). intros Hn0. destruct (g_hello _ G l Hl Hn0) as (A & B).
    split; [assumption|]. rewrite upd_other; [assumption|]. intros E. rewrite E in B. contradiction.
  - intros l Hl. destruct (Hlk l) as (-> & -> & _). rewrite Hcid, Pq, Pc.
    destruct (g_place _ G l Hl) as [A|[(c & id & A)|A]]; [now left| |now right; right].
    right. left. exists c, id. now apply Pa'.
  - intros x Hx. rewrite Pq, Pc. destruct (g_queue _ G x Hx) as (A & B). split; [assumption|].
    intros l Hl. destruct (Hlk l) as (-> & _ & _). rewrite Hcid. destruct (B l Hl) as (B1 & B2). split; [assumption|].
    intros c id E. apply Pa in E. now apply (B2 c id).
  - intros x l c id Hx E. apply Pa in E. rewrite Pc. destruct (Hlk l) as (_ & _ & ->). now apply (g_held _ G x l c id).
  - intros x Hx Hx0. rewrite Pc. destruct (Nat.eq_dec x i) as [->|Hxi].
    + rewrite upd_same. now apply Hnone.
    + rewrite upd_other by assumption. now apply (g_none _ G).
  - intros x Hx. destruct (Nat.eq_dec x i) as [->|Hxi].
    + rewrite upd_same. destruct (g_noerr _ G i Hi) as (A & B & C). split; [assumption|]. split; [|congruence].
      intros code. destruct Hacc as [->|(_ & ->)]; [apply B|discriminate].
    + rewrite upd_other by assumption. now apply (g_noerr _ G).
  - intros x Hx. destruct (Nat.eq_dec x i) as [->|Hxi].
    + rewrite upd_same. assumption.
    + rewrite upd_other by assumption. now apply (g_np _ G).
  - intros Hm l Hl. destruct (Hlk l) as (_ & -> & _). rewrite Hcid. intros H1 H2. apply Hinfo; auto.
    destruct (i =? 0) eqn:E0.
    + apply Nat.eqb_eq in E0. subst i. now rewrite upd_same in Hm.
    + apply Nat.eqb_neq in E0. rewrite upd_other in Hm by auto. exact Hm.
  - intros x Hx. destruct (Nat.eq_dec x i) as [->|Hxi].
    + rewrite upd_same. assumption.
    + rewrite upd_other by assumption. now apply (g_done _ G).
Qed.


Lemma filter_partition {A} (f : A -> bool) l :
  length (filter f l) + length (filter (fun x => negb (f x)) l) = length l.
Proof. induction l as [|a r IH]; simpl; [reflexivity|]. destruct (f a); simpl; lia. Qed.

Lemma others_len i : 1 <= i -> i < n -> 2 + length (others n i) = n.
Proof.
  intros H1 H2. unfold others.
  pose proof (filter_partition (fun x => negb (x =? 0) && negb (x =? i)) (seq 0 n)) as H. rewrite seq_length in H.
  assert (E : filter (fun x => negb (negb (x =? 0) && negb (x =? i))) (seq 0 n) = [0; i]).
  { apply sorted_ext.
    - apply filter_sorted, seq_sorted.
    - unfold sorted. repeat constructor. lia.
    - intros x. rewrite filter_In, in_seq, negb_true_iff, andb_false_iff, !negb_false_iff, !Nat.eqb_eq. simpl. lia. }
  rewrite E in H. simpl in H. lia.
Qed.

Lemma add_ids_some np ids : forall ps, (forall x, In x ids -> x < np) -> exists ps', add_ids np ids ps = Some ps'.
Proof.
  induction ids as [|a r IH]; simpl; intros ps H; [eauto|].
  assert (E : (np <=? a) = false) by (apply Nat.leb_gt; apply H; now left). rewrite E. apply IH. auto.
Qed.

Lemma NoDup_snoc' (l : list nat) s : NoDup l -> ~ In s l -> NoDup (l ++ [s]).
Proof.
  induction l as [|a r IH]; simpl; intros ND Hn0.
  - constructor; [intros []|constructor].
  - inversion ND; subst. constructor.
    + intros H. apply in_app_or in H. destruct H as [H|[H|[]]]; [contradiction|]. apply Hn0. now left.
    + apply IH; auto.
Qed.

Lemma targets_NoDup i c : NoDup (targets i c (seq 0 n)).
Proof. unfold targets. apply NoDup_filter, seq_NoDup'. Qed.

(* connectLeader's info loop: it dereferences Conns[0] of every peer, sets the
   info of exactly those links, and touches nothing else *)
Lemma send_infos_info (tab : table) all : forall ps st st1,
  send_infos st tab all ps = Some st1 ->
  g_party st1 = g_party st /\ g_nlinks st1 = g_nlinks st /\
  (forall l, l_from (L st1 l) = l_from (L st l) /\ l_to (L st1 l) = l_to (L st l) /\ l_hello (L st1 l) = l_hello (L st l)) /\
  (forall l, l_info (L st l) <> None -> l_info (L st1 l) <> None) /\
  (forall j l, In j ps -> j <> 0 -> tab j 0 = Some l -> l_info (L st1 l) <> None).
Proof.
  induction ps as [|j r IH]; simpl; intros st st1 H.
  - injection H as <-. repeat split; auto.
  - destruct (j =? 0) eqn:Ej.
    + apply Nat.eqb_eq in Ej. destruct (IH _ _ H) as (A & B & C & D & F). repeat split; auto; try apply C.
      intros j' l [<-|Hin] Hj0 Hl; [contradiction|eauto].
    + destruct (tab j 0) as [l|] eqn:Hl; [|discriminate].
      destruct (IH _ _ H) as (A & B & C & D & F). psimpl in *.
      assert (S : forall l0, l_info (upd (g_link st) l (mkLink (l_from (g_link st l)) (l_to (g_link st l)) (l_hello (g_link st l))
                   (Some (filter (fun x => negb (x =? 0) && negb (x =? j)) all))) l0) <> None \/
                  upd (g_link st) l (mkLink (l_from (g_link st l)) (l_to (g_link st l)) (l_hello (g_link st l))
                   (Some (filter (fun x => negb (x =? 0) && negb (x =? j)) all))) l0 = g_link st l0).
      { intros l0. unfold upd. destruct (l0 =? l); [left; simpl; discriminate|right; reflexivity]. }
      split; [assumption|]. split; [assumption|]. split; [|split].
      * intros l0. destruct (C l0) as (C1 & C2 & C3). rewrite C1, C2, C3. unfold upd.
        destruct (l0 =? l) eqn:El; [apply Nat.eqb_eq in El; subst; simpl; auto|auto].
      * intros l0 Hn0. apply D. destruct (S l0) as [S0|S0]; [assumption|now rewrite S0].
      * intros j' l' [<-|Hin] Hj0 Hl'.
        -- rewrite Hl in Hl'. injection Hl' as <-. apply D. rewrite upd_same. simpl. discriminate.
        -- eauto.
Qed.

Lemma send_infos_some (tab : table) all : forall ps st,
  (forall j, In j ps -> j <> 0 -> tab j 0 <> None) -> send_infos st tab all ps <> None.
Proof.
  induction ps as [|j r IH]; simpl; intros st H; [discriminate|].
  destruct (j =? 0) eqn:Ej; [apply IH; auto|].
  apply Nat.eqb_neq in Ej. destruct (tab j 0) eqn:Hl; [apply IH; auto|].
  exfalso. apply (H j); auto.
Qed.


Ltac loc st i Hi HI G :=
  apply (ginv_local st st i _ Hi HI G eq_refl eq_refl);
  [intros; repeat split; reflexivity|reflexivity|reflexivity|reflexivity| | | | | | |].

Lemma main_step_ginv i st st' :
  i < n -> Inv n k st -> GInv st -> main_step n k i st = Some st' -> GInv st'.
Proof.
  intros Hi HI G. pose proof HI as (HL & HP). pose proof (HP i Hi) as PI.
  pose proof (pi_main _ _ _ _ _ _ PI) as PM. unfold main_ok in PM.
  destruct (g_noerr _ G i Hi) as (NE1 & NE2 & NE3).
  unfold main_step. destruct (p_main (g_party st i)) eqn:Hm.
  - (* MStart *)
    destruct PM as (PA & PN & PP). destruct (i =? 0) eqn:E0.
    + (* leader: Connect *)
      apply Nat.eqb_eq in E0. intros [= <-]. loc st i Hi HI G; psimpl.
      * right. split; [exact PA|reflexivity].
      * rewrite Hm. discriminate.
      * intros _. now apply (pi_zero _ _ _ _ _ _ PI).
      * discriminate.
      * intros H. contradiction.
      * subst i. simpl. lia.
      * discriminate.
    + (* Join *)
      apply Nat.eqb_neq in E0. unfold new_link. cbv beta iota zeta. intros [= <-].
      assert (Hlt : 0 <? i = true) by (apply Nat.ltb_lt; lia). rewrite Hlt.
      set (nl := g_nlinks st) in *.
      set (newl := mkLink i 0 None None).
      set (p0' := set_queue (g_party st 0) (p_queue (g_party st 0) ++ [nl])).
      assert (F : forall l0, l0 < nl -> l_from (g_link st l0) <> i).
      { intros l0 Hl0 E. pose proof (g_dial _ G l0 Hl0) as A. rewrite E in A. rewrite PN in A. discriminate. }
      assert (Lk : forall l0, l0 < nl -> upd (g_link st) nl newl l0 = g_link st l0)
        by (intros l0 Hl0; rewrite upd_other; [reflexivity|unfold nl in *; lia]).
      assert (Hslot0 : p_conns (g_party st 0) i 0 = None).
      { destruct (p_conns (g_party st 0) i 0) as [l2|] eqn:Hs; [|reflexivity]. exfalso.
        assert (Hin : In i (aside n 0)) by (apply aside_in; lia).
        destruct (g_acc _ G 0 i 0 l2 ltac:(lia) Hin Hs) as (A & _).
        destruct (pi_conn _ _ _ _ _ _ (HP 0 ltac:(lia)) i 0 l2 Hs) as (B & _). now apply (F l2 B). }
      rewrite (upd_other _ 0 i) by assumption.
      set (p' := set_main (set_tab (set_np (g_party st i) (S i)) [0; i] (set_conn no_conns 0 0 nl)) MHello).
      assert (Pp : forall x, x <> i -> x <> 0 -> upd (upd (g_party st) 0 p0') i p' x = g_party st x)
        by (intros x H1 H2; now rewrite !upd_other).
      assert (Pi : upd (upd (g_party st) 0 p0') i p' i = p') by apply upd_same.
      assert (P0 : upd (upd (g_party st) 0 p0') i p' 0 = p0') by (rewrite upd_other by auto; apply upd_same).
      assert (Cn : forall j c, p_conns p' j c = if (j =? 0) && (c =? 0) then Some nl else None).
      { intros j c. unfold p'. psimpl. unfold set_conn, upd, no_conns. destruct (j =? 0); [destruct (c =? 0)|]; reflexivity. }
      constructor; psimpl.
      * (* g_dial *)
        intros l0 Hl0. destruct (Nat.eq_dec l0 nl) as [->|Hne].
        -- rewrite upd_same. unfold newl. psimpl. rewrite Pi, Cn. reflexivity.
        -- assert (Hl0' : l0 < nl) by lia. rewrite (Lk l0 Hl0').
           pose proof (HL l0 Hl0') as (L1 & _). rewrite Pp; [now apply (g_dial _ G)|now apply F|lia].
      * (* g_acc *)
        intros x j c l0 Hx Hj. destruct (Nat.eq_dec x i) as [->|Hxi].
        -- rewrite Pi, Cn. apply (proj1 (in_aside n k Hn Hk _ _)) in Hj.
           destruct (j =? 0) eqn:Ej; [apply Nat.eqb_eq in Ej; lia|discriminate].
        -- assert (Hc : p_conns (upd (upd (g_party st) 0 p0') i p' x) = p_conns (g_party st x)).
           { destruct (Nat.eq_dec x 0) as [->|Hx0]; [rewrite P0; reflexivity|now rewrite Pp]. }
           rewrite Hc. intros H. destruct (pi_conn _ _ _ _ _ _ (HP x Hx) j c l0 H) as (B & _).
           rewrite (Lk l0 B). now apply (g_acc _ G x j c l0).
      * (* g_dslot *)
        intros x t c l0 Hx Hx0 Hd. destruct (Nat.eq_dec x i) as [->|Hxi].
        -- rewrite Pi, Cn. destruct (t =? 0) eqn:Et; [|discriminate]. destruct (c =? 0) eqn:Ec; [|discriminate].
           simpl. intros [= <-]. rewrite upd_same. unfold newl, cid. psimpl.
           apply Nat.eqb_eq in Et, Ec. auto.
        -- rewrite Pp by assumption. intros H. destruct (pi_conn _ _ _ _ _ _ (HP x Hx) t c l0 H) as (B & _).
           rewrite (Lk l0 B). now apply (g_dslot _ G x t c l0).
      * (* g_hello *)
        intros l0 Hl0. destruct (Nat.eq_dec l0 nl) as [->|Hne].
        -- rewrite upd_same. unfold newl. psimpl. intros _. rewrite Pi. split; reflexivity.
        -- assert (Hl0' : l0 < nl) by lia. rewrite (Lk l0 Hl0'). intros Hn0.
           destruct (g_hello _ G l0 Hl0' Hn0) as (A & B). split; [assumption|].
           pose proof (HL l0 Hl0') as (L1 & _). rewrite Pp; [assumption|now apply F|lia].
      * (* g_place *)
        intros l0 Hl0. destruct (Nat.eq_dec l0 nl) as [->|Hne].
        -- rewrite upd_same. unfold newl. psimpl. rewrite P0. left. unfold p0'. psimpl. apply in_or_app. right. now left.
        -- assert (Hl0' : l0 < nl) by lia. rewrite (Lk l0 Hl0').
           destruct (g_place _ G l0 Hl0') as [A|[A|A]].
           ++ left. destruct (Nat.eq_dec (l_to (g_link st l0)) i) as [E|Hti]; [rewrite E in *; rewrite Pi; exact A|].
              destruct (Nat.eq_dec (l_to (g_link st l0)) 0) as [E|Ht0]; [rewrite E in *; rewrite P0; unfold p0'; psimpl; apply in_or_app; now left|].
              now rewrite Pp.
           ++ right. left. destruct A as (c & id & A).
              destruct (Nat.eq_dec (l_to (g_link st l0)) i) as [E|Hti]; [rewrite E in A; congruence|].
              destruct (Nat.eq_dec (l_to (g_link st l0)) 0) as [E|Ht0]; [rewrite E in *; rewrite P0; eauto|].
              rewrite Pp by assumption. eauto.
           ++ right. right. destruct (Nat.eq_dec (l_to (g_link st l0)) i) as [E|Hti]; [rewrite E in A; rewrite PN in A; discriminate|].
              destruct (Nat.eq_dec (l_to (g_link st l0)) 0) as [E|Ht0]; [rewrite E in *; rewrite P0; exact A|].
              now rewrite Pp.
      * (* g_queue *)
        intros x Hx. destruct (Nat.eq_dec x i) as [->|Hxi].
        -- rewrite Pi. destruct (g_queue _ G i Hi) as (A & B). split; [exact A|].
           intros l0 Hl0. destruct (pi_queue _ _ _ _ _ _ PI l0 Hl0) as (C & D). rewrite (Lk l0 C). rewrite Cn.
           pose proof (HL l0 C) as (L1 & _). split.
           ++ destruct (l_from (g_link st l0) =? 0) eqn:Ef; [apply Nat.eqb_eq in Ef; lia|reflexivity].
           ++ intros c id. unfold p'. psimpl. rewrite PA. discriminate.
        -- destruct (Nat.eq_dec x 0) as [->|Hx0].
           ++ rewrite P0. unfold p0'. psimpl. destruct (g_queue _ G 0 Hx) as (A & B). split.
              ** apply NoDup_snoc'; [exact A|]. intros Hin. destruct (pi_queue _ _ _ _ _ _ (HP 0 Hx) nl Hin). unfold nl in *. lia.
              ** intros l0 Hl0. apply in_app_or in Hl0. destruct Hl0 as [Hl0|[<-|[]]].
                 --- destruct (pi_queue _ _ _ _ _ _ (HP 0 Hx) l0 Hl0) as (C & D). rewrite (Lk l0 C). now apply B.
                 --- rewrite upd_same. unfold newl, cid. psimpl. split; [exact Hslot0|].
                     intros c id E. pose proof (pi_acc _ _ _ _ _ _ (HP 0 Hx)) as PA0. rewrite E in PA0. unfold nl in *. lia.
           ++ rewrite Pp by assumption. destruct (g_queue _ G x Hx) as (A & B). split; [exact A|].
              intros l0 Hl0. destruct (pi_queue _ _ _ _ _ _ (HP x Hx) l0 Hl0) as (C & D). rewrite (Lk l0 C). now apply B.
      * (* g_held *)
        intros x l0 c id Hx. destruct (Nat.eq_dec x i) as [->|Hxi].
        -- rewrite Pi. unfold p'. psimpl. rewrite PA. discriminate.
        -- assert (Hc : p_conns (upd (upd (g_party st) 0 p0') i p' x) = p_conns (g_party st x) /\
                         p_acc (upd (upd (g_party st) 0 p0') i p' x) = p_acc (g_party st x)).
           { destruct (Nat.eq_dec x 0) as [->|Hx0]; [rewrite P0; split; reflexivity|rewrite Pp by assumption; split; reflexivity]. }
           destruct Hc as (-> & ->). intros E. pose proof (pi_acc _ _ _ _ _ _ (HP x Hx)) as PAx. rewrite E in PAx.
           rewrite (Lk l0) by apply PAx. now apply (g_held _ G x l0 c id).
      * (* g_none *)
        intros x Hx Hx0. destruct (Nat.eq_dec x i) as [->|Hxi].
        -- rewrite Pi. unfold p'. psimpl. exact I.
        -- rewrite Pp by assumption. now apply (g_none _ G).
      * (* g_noerr *)
        intros x Hx. destruct (Nat.eq_dec x i) as [->|Hxi].
        -- rewrite Pi. unfold p'. psimpl. rewrite PA. repeat split; try discriminate. exact NE3.
        -- destruct (Nat.eq_dec x 0) as [->|Hx0]; [rewrite P0; unfold p0'; psimpl|rewrite Pp by assumption]; now apply (g_noerr _ G).
      * (* g_np *)
        intros x Hx. destruct (Nat.eq_dec x i) as [->|Hxi].
        -- rewrite Pi. unfold p'. psimpl. rewrite PA. intros H; contradiction.
        -- destruct (Nat.eq_dec x 0) as [->|Hx0]; [rewrite P0; unfold p0'; psimpl|rewrite Pp by assumption]; now apply (g_np _ G).
      * (* g_info: the leader cannot be past the info loop while a party has not joined *)
        rewrite P0. unfold p0'. psimpl. intros Hpast. exfalso.
        pose proof (pi_main _ _ _ _ _ _ (HP 0 ltac:(lia))) as PM0. unfold main_ok in PM0.
        assert (Hin : In i (aside n 0)) by (apply aside_in; lia).
        assert (Hf : full n (p_conns (g_party st 0)) 0 0).
        { destruct (p_main (g_party st 0)); try contradiction.
          - destruct PM0 as (_ & _ & F0 & _). apply F0. lia.
          - destruct PM0 as (F0 & _). apply F0. lia. }
        specialize (Hf i Hin). unfold stored in Hf. rewrite Hslot0 in Hf. discriminate.
      * (* g_done *)
        intros x Hx. destruct (Nat.eq_dec x i) as [->|Hxi].
        -- rewrite Pi. unfold p'. psimpl. discriminate.
        -- destruct (Nat.eq_dec x 0) as [->|Hx0]; [rewrite P0; unfold p0'; psimpl|rewrite Pp by assumption]; now apply (g_done _ G).
  - (* MHello *)
    destruct PM as (P0 & PA & PN & PS & PP).
    destruct (p_conns (g_party st i) 0 0) as [l|] eqn:Hl; [|unfold stored in PS; rewrite Hl in PS; discriminate].
    destruct (pi_conn _ _ _ _ _ _ PI 0 0 l Hl) as (Hln & _).
    destruct (g_dslot _ G i 0 0 l Hi P0 (or_introl eq_refl) Hl) as (Hfrom & Hto & Hcid).
    intros [= <-].
    set (lk' := upd (g_link st) l (mkLink (l_from (g_link st l)) (l_to (g_link st l)) (Some (0, i)) (l_info (g_link st l)))).
    assert (Lft : forall l0, l_from (lk' l0) = l_from (g_link st l0) /\ l_to (lk' l0) = l_to (g_link st l0) /\
                             cid (lk' l0) = cid (g_link st l0) /\ l_info (lk' l0) = l_info (g_link st l0)).
    { intros l0. unfold lk', upd. destruct (l0 =? l) eqn:El; [|auto]. apply Nat.eqb_eq in El. subst l0.
      unfold cid at 1. psimpl. auto. }
    assert (Lh : forall l0 c id, l_hello (g_link st l0) = Some (c, id) -> l_hello (lk' l0) = Some (c, id)).
    { intros l0 c id H. unfold lk', upd. destruct (l0 =? l) eqn:El; [|exact H]. apply Nat.eqb_eq in El. subst l0.
      psimpl. pose proof (HL l Hln) as (_ & _ & _ & _ & L5 & _). destruct (L5 c id H) as (-> & _).
      unfold cid in Hcid. rewrite H in Hcid. subst c. now rewrite Hfrom. }
    assert (Lh' : forall l0, l_hello (lk' l0) = None -> l_hello (g_link st l0) = None /\ l0 <> l).
    { intros l0. unfold lk', upd. destruct (l0 =? l) eqn:El; [psimpl; discriminate|].
      apply Nat.eqb_neq in El. auto. }
    set (p' := set_main (g_party st i) MRecvInfo).
    assert (Pc : forall x, p_conns (upd (g_party st) i p' x) = p_conns (g_party st x) /\
                           p_queue (upd (g_party st) i p' x) = p_queue (g_party st x) /\
                           p_acc (upd (g_party st) i p' x) = p_acc (g_party st x) /\
                           p_np (upd (g_party st) i p' x) = p_np (g_party st x) /\
                           p_ldone (upd (g_party st) i p' x) = p_ldone (g_party st x)).
    { intros x. destruct (Nat.eq_dec x i) as [->|Hx]; [rewrite upd_same|rewrite upd_other by assumption]; repeat split; reflexivity. }
    constructor; psimpl; fold lk'.
    + intros l0 Hl0. destruct (Lft l0) as (-> & -> & -> & _). rewrite (proj1 (Pc _)). now apply (g_dial _ G).
    + intros x j c l0 Hx Hj. rewrite (proj1 (Pc _)). intros H. destruct (Lft l0) as (-> & -> & _).
      destruct (g_acc _ G x j c l0 Hx Hj H) as (A & B & C). repeat split; auto.
    + intros x t c l0 Hx Hx0 Hd. rewrite (proj1 (Pc _)). intros H. destruct (Lft l0) as (-> & -> & -> & _).
      now apply (g_dslot _ G x t c l0).
    + intros l0 Hl0 Hn0. destruct (Lh' l0 Hn0) as (Hn1 & Hne). destruct (Lft l0) as (-> & -> & _).
      destruct (g_hello _ G l0 Hl0 Hn1) as (A & B). split; [assumption|].
      rewrite upd_other; [assumption|]. intros E.
      apply Hne. apply (link_unique st); auto; try congruence.
      unfold cid at 1. rewrite Hn1. now rewrite Hcid.
    + intros l0 Hl0. destruct (Lft l0) as (-> & -> & -> & _).
      rewrite (proj1 (Pc _)), (proj1 (proj2 (Pc _))), (proj1 (proj2 (proj2 (Pc _)))). now apply (g_place _ G).
    + intros x Hx. rewrite (proj1 (Pc _)), (proj1 (proj2 (Pc _))), (proj1 (proj2 (proj2 (Pc _)))).
      destruct (g_queue _ G x Hx) as (A & B). split; [assumption|]. intros l0 Hl0.
      destruct (Lft l0) as (-> & _ & -> & _). now apply B.
    + intros x l0 c id Hx. rewrite (proj1 (Pc _)), (proj1 (proj2 (proj2 (Pc _)))). intros E.
      destruct (g_held _ G x l0 c id Hx E) as (A & B). split; [now apply Lh|assumption].
    + intros x Hx Hx0. destruct (Nat.eq_dec x i) as [->|Hxi].
      * rewrite upd_same. unfold p'. psimpl. exact I.
      * rewrite upd_other by assumption. now apply (g_none _ G).
    + intros x Hx. rewrite (proj1 (proj2 (proj2 (Pc _)))), (proj2 (proj2 (proj2 (proj2 (Pc _))))).
      destruct (g_noerr _ G x Hx) as (A & B & C). split; [|split; assumption].
      destruct (Nat.eq_dec x i) as [->|Hxi]; [rewrite upd_same; unfold p'; psimpl; discriminate|now rewrite upd_other].
    + intros x Hx. rewrite (proj1 (proj2 (proj2 (Pc _)))), (proj1 (proj2 (proj2 (proj2 (Pc _))))). now apply (g_np _ G).
    + rewrite (upd_other _ i 0) by auto. intros Hp l0 Hl0. destruct (Lft l0) as (_ & -> & -> & ->). now apply (g_info _ G Hp).
    + intros x Hx. rewrite (proj1 (proj2 (proj2 (Pc _)))). destruct (Nat.eq_dec x i) as [->|Hxi].
      * rewrite upd_same. unfold p'. psimpl. discriminate.
      * rewrite upd_other by assumption. now apply (g_done _ G).
  - (* MRecvInfo *)
    destruct PM as (P0 & PA & PN & PS & PP).
    destruct (p_conns (g_party st i) 0 0) as [l|] eqn:Hl; [|unfold stored in PS; rewrite Hl in PS; discriminate].
    destruct (pi_conn _ _ _ _ _ _ PI 0 0 l Hl) as (Hln & _).
    destruct (g_dslot _ G i 0 0 l Hi P0 (or_introl eq_refl) Hl) as (Hfrom & Hto & Hcid).
    pose proof (HL l Hln) as (L1 & L2 & L3 & L4 & L5 & L6).
    destruct (l_info (g_link st l)) as [ids|] eqn:Hinfo; [|discriminate].
    rewrite (L6 ids eq_refl), Hfrom. rewrite (others_len i) by lia.
    destruct (add_ids_some n (others n i) (p_peers (g_party st i))) as (ps & Hadd).
    { intros x Hx. apply (others_spec n k Hn Hk) in Hx. lia. }
    rewrite Hadd.
    destruct (add_ids_spec _ _ _ _ Hadd) as (A1 & A2).
    assert (Hps : ps = seq 0 n).
    { apply sorted_ext; [apply A2; rewrite PP; unfold sorted; repeat constructor; lia|apply seq_sorted|].
      intros x. rewrite A1, (others_spec n k Hn Hk), PP, in_seq. simpl. lia. }
    subst ps. intros [= <-]. loc st i Hi HI G; psimpl.
    + right. split; [exact PA|reflexivity].
    + rewrite Hm. discriminate.
    + reflexivity.
    + discriminate.
    + intros _. split; [apply targets_NoDup|]. intros t c' Hd Hcc.
      destruct (PN t c') as [(-> & ->)|H]; [|exact H]. exfalso.
      destruct Hcc as [Hcc|(_ & Hin)]; [lia|]. apply in_targets in Hin. simpl in Hin. destruct Hin as (_ & Hin). now apply Hin.
    + apply Nat.eqb_neq in P0. rewrite P0. apply (g_info _ G).
    + discriminate.
  - (* MDial *)
    destruct PM as (P0 & PA & PP & PS & PC & PF & PD & PT).
    pose proof (g_none _ G i Hi P0) as GN. rewrite Hm in GN. destruct GN as (GN1 & GN2).
    destruct targets as [|t ts].
    + (* loop finished *)
      intros [= <-]. loc st i Hi HI G; psimpl.
      * now left.
      * rewrite Hm. discriminate.
      * intros H. now apply (g_np _ G i Hi).
      * discriminate.
      * intros _ t c' Hd Hcc. apply GN2; auto.
      * apply Nat.eqb_neq in P0. rewrite P0. apply (g_info _ G).
      * discriminate.
    + (* dial(t, c) *)
      assert (H255 : (255 <? c) = false) by (apply Nat.ltb_ge; lia). rewrite H255.
      assert (Ht : In t (targets i c (seq 0 n))) by (apply PT; now left).
      apply in_targets in Ht. destruct Ht as (Htn & Ht). apply in_seq in Htn.
      assert (Hnt : (n <=? t) = false) by (apply Nat.leb_gt; lia). rewrite Hnt.
      assert (Hd : dside i t) by (destruct (t =? 0) eqn:E0; [left; now apply Nat.eqb_eq|right; assumption]).
      assert (Hti : t <> i) by (destruct Hd; lia).
      assert (Hslot : p_conns (g_party st i) t c = None) by (apply GN2; auto; right; split; [reflexivity|now left]).
      assert (Hia : In i (aside n t)) by (apply aside_in; destruct Hd; lia).
      unfold new_link. cbv beta iota zeta. psimpl. rewrite (upd_other _ t i) by auto. rewrite Hslot.
      intros [= <-].
      set (nl := g_nlinks st) in *.
      set (newl := mkLink i t (Some (c, i)) None).
      set (pt' := set_queue (g_party st t) (p_queue (g_party st t) ++ [nl])).
      set (p' := set_main (set_tab (g_party st i) (p_peers (g_party st i)) (set_conn (p_conns (g_party st i)) t c nl)) (MDial c ts)).
      assert (Lk : forall l0, l0 < nl -> upd (g_link st) nl newl l0 = g_link st l0)
        by (intros l0 Hl0; rewrite upd_other; [reflexivity|unfold nl in *; lia]).
      assert (Pp : forall x, x <> i -> x <> t -> upd (upd (g_party st) t pt') i p' x = g_party st x)
        by (intros x H1 H2; now rewrite !upd_other).
      assert (Pi : upd (upd (g_party st) t pt') i p' i = p') by apply upd_same.
      assert (Pt : upd (upd (g_party st) t pt') i p' t = pt') by (rewrite upd_other by auto; apply upd_same).
      assert (Cn : forall j c', p_conns p' j c' = if (j =? t) && (c' =? c) then Some nl else p_conns (g_party st i) j c').
      { intros j c'. unfold p'. psimpl. unfold set_conn, upd. destruct (j =? t) eqn:Ej; [|reflexivity].
        apply Nat.eqb_eq in Ej. subst j. destruct (c' =? c); reflexivity. }
      assert (Pcx : forall x, x <> i -> p_conns (upd (upd (g_party st) t pt') i p' x) = p_conns (g_party st x) /\
                                         p_acc (upd (upd (g_party st) t pt') i p' x) = p_acc (g_party st x) /\
                                         p_main (upd (upd (g_party st) t pt') i p' x) = p_main (g_party st x) /\
                                         p_np (upd (upd (g_party st) t pt') i p' x) = p_np (g_party st x) /\
                                         p_ldone (upd (upd (g_party st) t pt') i p' x) = p_ldone (g_party st x)).
      { intros x Hx. destruct (Nat.eq_dec x t) as [->|Hxt]; [rewrite Pt|rewrite Pp by assumption]; repeat split; reflexivity. }
      assert (Aside_ne : forall j, In j (aside n i) -> (j =? t) = false).
      { intros j Hj. apply Nat.eqb_neq. destruct (aside_lt n k Hn Hk i j Hi Hj) as (J1 & J2 & J3). specialize (J3 P0). destruct Hd; lia. }
      constructor; psimpl.
      * (* g_dial *)
        intros l0 Hl0. destruct (Nat.eq_dec l0 nl) as [->|Hne].
        -- rewrite upd_same. unfold newl, cid. psimpl. rewrite Pi, Cn, !Nat.eqb_refl. reflexivity.
        -- assert (Hl0' : l0 < nl) by lia. rewrite (Lk l0 Hl0'). pose proof (g_dial _ G l0 Hl0') as A.
           destruct (Nat.eq_dec (l_from (g_link st l0)) i) as [E|Hfi].
           ++ rewrite E in *. rewrite Pi, Cn. destruct ((l_to (g_link st l0) =? t) && (cid (g_link st l0) =? c)) eqn:Eb; [|exact A].
              apply andb_true_iff in Eb. destruct Eb as (E1 & E2). apply Nat.eqb_eq in E1, E2. rewrite E1, E2 in A. congruence.
           ++ rewrite (proj1 (Pcx _ Hfi)). exact A.
      * (* g_acc *)
        intros x j c0 l0 Hx Hj. destruct (Nat.eq_dec x i) as [->|Hxi].
        -- rewrite Pi, Cn, (Aside_ne j Hj). simpl. intros H. destruct (pi_conn _ _ _ _ _ _ PI j c0 l0 H) as (B & _).
           rewrite (Lk l0 B). now apply (g_acc _ G i j c0 l0).
        -- rewrite (proj1 (Pcx _ Hxi)). intros H. destruct (pi_conn _ _ _ _ _ _ (HP x Hx) j c0 l0 H) as (B & _).
           rewrite (Lk l0 B). now apply (g_acc _ G x j c0 l0).
      * (* g_dslot *)
        intros x t0 c0 l0 Hx Hx0 Hd0. destruct (Nat.eq_dec x i) as [->|Hxi].
        -- rewrite Pi, Cn. destruct ((t0 =? t) && (c0 =? c)) eqn:Eb.
           ++ apply andb_true_iff in Eb. destruct Eb as (E1 & E2). apply Nat.eqb_eq in E1, E2. subst t0 c0.
              intros [= <-]. rewrite upd_same. unfold newl, cid. psimpl. auto.
           ++ intros H. destruct (pi_conn _ _ _ _ _ _ PI t0 c0 l0 H) as (B & _). rewrite (Lk l0 B). now apply (g_dslot _ G i t0 c0 l0).
        -- rewrite (proj1 (Pcx _ Hxi)). intros H. destruct (pi_conn _ _ _ _ _ _ (HP x Hx) t0 c0 l0 H) as (B & _).
           rewrite (Lk l0 B). now apply (g_dslot _ G x t0 c0 l0).
      * (* g_hello *)
        intros l0 Hl0. destruct (Nat.eq_dec l0 nl) as [->|Hne].
        -- rewrite upd_same. unfold newl. psimpl. discriminate.
        -- assert (Hl0' : l0 < nl) by lia. rewrite (Lk l0 Hl0'). intros Hn0.
           destruct (g_hello _ G l0 Hl0' Hn0) as (A & B). split; [assumption|].
           assert (Hfi : l_from (g_link st l0) <> i) by (intros E; rewrite E in B; congruence).
           rewrite (proj1 (proj2 (proj2 (Pcx _ Hfi)))). exact B.
      * (* g_place *)
        intros l0 Hl0. destruct (Nat.eq_dec l0 nl) as [->|Hne].
        -- rewrite upd_same. unfold newl. psimpl. rewrite Pt. left. unfold pt'. psimpl. apply in_or_app. right. now left.
        -- assert (Hl0' : l0 < nl) by lia. rewrite (Lk l0 Hl0').
           destruct (Nat.eq_dec (l_to (g_link st l0)) i) as [E|Hti'].
           ++ rewrite E. rewrite Pi. unfold p' at 1 2. psimpl. rewrite Cn.
              pose proof (link_from_aside st l0 HI Hl0') as Hfa. rewrite E in Hfa. rewrite (Aside_ne _ Hfa). simpl.
              pose proof (g_place _ G l0 Hl0') as A. rewrite E in A. exact A.
           ++ destruct (Nat.eq_dec (l_to (g_link st l0)) t) as [E|Htt].
              ** rewrite E. rewrite Pt. unfold pt'. psimpl. pose proof (g_place _ G l0 Hl0') as A. rewrite E in A.
                 destruct A as [A|[A|A]]; [left; apply in_or_app; now left|now right; left|now right; right].
              ** rewrite Pp by assumption. now apply (g_place _ G).
      * (* g_queue *)
        intros x Hx. destruct (Nat.eq_dec x i) as [->|Hxi].
        -- rewrite Pi. unfold p' at 1 2 4. psimpl. destruct (g_queue _ G i Hi) as (A & B). split; [exact A|].
           intros l0 Hl0. destruct (pi_queue _ _ _ _ _ _ PI l0 Hl0) as (C & D). rewrite (Lk l0 C). rewrite Cn.
           pose proof (link_from_aside st l0 HI C) as Hfa. rewrite D in Hfa. rewrite (Aside_ne _ Hfa). simpl. now apply B.
        -- destruct (Nat.eq_dec x t) as [->|Hxt].
           ++ rewrite Pt. unfold pt'. psimpl. destruct (g_queue _ G t Hx) as (A & B). split.
              ** apply NoDup_snoc'; [exact A|]. intros Hin. destruct (pi_queue _ _ _ _ _ _ (HP t Hx) nl Hin). unfold nl in *. lia.
              ** intros l0 Hl0. apply in_app_or in Hl0. destruct Hl0 as [Hl0|[<-|[]]].
                 --- destruct (pi_queue _ _ _ _ _ _ (HP t Hx) l0 Hl0) as (C & D). rewrite (Lk l0 C). now apply B.
                 --- rewrite upd_same. unfold newl, cid. psimpl. split.
                     +++ destruct (p_conns (g_party st t) i c) as [l2|] eqn:Hs; [|reflexivity]. exfalso.
                         destruct (g_acc _ G t i c l2 Hx Hia Hs) as (A1 & A2 & A3).
                         destruct (pi_conn _ _ _ _ _ _ (HP t Hx) i c l2 Hs) as (B2 & _).
                         pose proof (g_dial _ G l2 B2) as D2. unfold cid in D2. rewrite A1, A2, A3 in D2. congruence.
                     +++ intros c0 id E. pose proof (pi_acc _ _ _ _ _ _ (HP t Hx)) as PA0. rewrite E in PA0. unfold nl in *. lia.
           ++ rewrite Pp by assumption. destruct (g_queue _ G x Hx) as (A & B). split; [exact A|].
              intros l0 Hl0. destruct (pi_queue _ _ _ _ _ _ (HP x Hx) l0 Hl0) as (C & D). rewrite (Lk l0 C). now apply B.
      * (* g_held *)
        intros x l0 c0 id Hx. destruct (Nat.eq_dec x i) as [->|Hxi].
        -- rewrite Pi. unfold p' at 1. psimpl. intros E. pose proof (pi_acc _ _ _ _ _ _ PI) as PAx. rewrite E in PAx.
           destruct PAx as (Q1 & Q2 & Q3 & Q4 & Q5). rewrite (Lk l0 Q3). rewrite Cn, (Aside_ne _ Q1). simpl.
           now apply (g_held _ G i l0 c0 id).
        -- destruct (Pcx x Hxi) as (-> & -> & _). intros E. pose proof (pi_acc _ _ _ _ _ _ (HP x Hx)) as PAx. rewrite E in PAx.
           rewrite (Lk l0) by apply PAx. now apply (g_held _ G x l0 c0 id).
      * (* g_none *)
        intros x Hx Hx0. destruct (Nat.eq_dec x i) as [->|Hxi].
        -- rewrite Pi. unfold p' at 1. psimpl. apply NoDup_cons_iff in GN1. destruct GN1 as (N1 & N2).
           split; [exact N2|]. intros t0 c' Hd0 Hcc. rewrite Cn. destruct ((t0 =? t) && (c' =? c)) eqn:Eb.
           ++ apply andb_true_iff in Eb. destruct Eb as (E1 & E2). apply Nat.eqb_eq in E1, E2. subst t0 c'.
              exfalso. destruct Hcc as [Hcc|(_ & Hin)]; [lia|contradiction].
           ++ apply GN2; auto. destruct Hcc as [Hcc|(E & Hin)]; [now left|right; split; [assumption|now right]].
        -- destruct (Pcx x Hxi) as (-> & _ & -> & _). now apply (g_none _ G).
      * (* g_noerr *)
        intros x Hx. destruct (Nat.eq_dec x i) as [->|Hxi].
        -- rewrite Pi. unfold p'. psimpl. repeat split; auto. discriminate.
        -- destruct (Pcx x Hxi) as (_ & -> & -> & _ & ->). now apply (g_noerr _ G).
      * (* g_np *)
        intros x Hx. destruct (Nat.eq_dec x i) as [->|Hxi].
        -- rewrite Pi. unfold p'. psimpl. now apply (g_np _ G).
        -- destruct (Pcx x Hxi) as (_ & -> & _ & -> & _). now apply (g_np _ G).
      * (* g_info *)
        destruct (Pcx 0 ltac:(auto)) as (_ & _ & -> & _). intros Hp l0 Hl0.
        destruct (Nat.eq_dec l0 nl) as [->|Hne].
        -- rewrite upd_same. unfold newl, cid. psimpl. intros -> ->. rewrite Nat.eqb_refl in Ht. contradiction.
        -- assert (Hl0' : l0 < nl) by lia. rewrite (Lk l0 Hl0'). now apply (g_info _ G Hp).
      * (* g_done *)
        intros x Hx. destruct (Nat.eq_dec x i) as [->|Hxi].
        -- rewrite Pi. unfold p'. psimpl. discriminate.
        -- destruct (Pcx x Hxi) as (_ & -> & -> & _). now apply (g_done _ G).
  - (* MWait *)
    destruct PM as (PA & PC & PF & PD). rewrite NE3. rewrite orb_false_r, andb_true_r.
    destruct (p_need (g_party st i) c =? 0) eqn:Hz; [|discriminate].
    destruct ((i =? 0) && (c =? 0)) eqn:Hic.
    + apply andb_true_iff in Hic. destruct Hic as (Hi0 & Hc0). apply Nat.eqb_eq in Hi0.
      intros [= <-]. loc st i Hi HI G; psimpl.
      * now left.
      * rewrite Hm. discriminate.
      * intros H. now apply (g_np _ G i Hi).
      * discriminate.
      * intros H. contradiction.
      * subst i. simpl. contradiction.
      * discriminate.
    + intros [= <-]. unfold next_conn. destruct (S c <? k) eqn:Ek.
      * destruct (i =? 0) eqn:E0.
        -- apply Nat.eqb_eq in E0. loc st i Hi HI G; psimpl.
           ++ now left.
           ++ rewrite Hm. discriminate.
           ++ intros H. now apply (g_np _ G i Hi).
           ++ discriminate.
           ++ intros H. contradiction.
           ++ rewrite E0. simpl. intros _. apply (g_info _ G). subst i. rewrite Hm.
              simpl in Hic. destruct c; [discriminate|lia].
           ++ discriminate.
        -- apply Nat.eqb_neq in E0. destruct (PD E0) as (D1 & D2 & D3).
           pose proof (g_none _ G i Hi E0) as GN. rewrite Hm in GN.
           loc st i Hi HI G; psimpl.
           ++ now left.
           ++ rewrite Hm. discriminate.
           ++ intros H. now apply (g_np _ G i Hi).
           ++ discriminate.
           ++ intros _. rewrite D1. split; [apply targets_NoDup|]. intros t c' Hd Hcc. apply GN; auto. lia.
           ++ apply Nat.eqb_neq in E0. rewrite E0. apply (g_info _ G).
           ++ discriminate.
      * loc st i Hi HI G; psimpl.
        -- now left.
        -- rewrite Hm. discriminate.
        -- intros H. now apply (g_np _ G i Hi).
        -- discriminate.
        -- intros _. exact I.
        -- destruct (i =? 0) eqn:E0; [|apply (g_info _ G)]. simpl. intros _. apply (g_info _ G).
           apply Nat.eqb_eq in E0. subst i. rewrite Hm. simpl in Hic. destruct c; [discriminate|lia].
        -- intros _. exact PA.
  - (* MInfo *)
    destruct PM as (Pi0 & PA & PF). subst i.
    assert (Hpeers : p_peers (g_party st 0) = seq 0 n).
    { apply sorted_ext; [apply (pi_sorted _ _ _ _ _ _ PI)|apply seq_sorted|].
      intros x. rewrite in_seq. split; [intros Hx; pose proof (pi_bound _ _ _ _ _ _ PI x Hx); lia|].
      intros Hx. destruct (Nat.eq_dec x 0) as [->|Hx0]; [now apply (pi_zero _ _ _ _ _ _ PI)|].
      destruct (in_dec Nat.eq_dec x (p_peers (g_party st 0))) as [|Hnx]; [assumption|exfalso].
      assert (Hs : stored (p_conns (g_party st 0)) 0 x = true) by (apply PF; apply aside_in; lia).
      unfold stored in Hs. rewrite (pi_p3 _ _ _ _ _ _ PI x 0 Hnx) in Hs. discriminate. }
    destruct (send_infos st (p_conns (g_party st 0)) (p_peers (g_party st 0)) (p_peers (g_party st 0))) as [st1|] eqn:Hsend.
    2:{ exfalso. revert Hsend. apply send_infos_some. intros j Hj Hj0. rewrite Hpeers in Hj. apply in_seq in Hj.
        assert (Hs : stored (p_conns (g_party st 0)) 0 j = true) by (apply PF; apply aside_in; lia).
        unfold stored in Hs. destruct (p_conns (g_party st 0) j 0); [discriminate|discriminate]. }
    destruct (send_infos_info _ _ _ _ _ Hsend) as (S1 & S2 & S3 & S4 & S5).
    intros [= <-]. rewrite S1.
    assert (Hnew : forall l0, l0 < g_nlinks st -> l_to (g_link st l0) = 0 -> cid (g_link st l0) = 0 -> l_info (g_link st1 l0) <> None).
    { intros l0 Hl0 T0 C0. pose proof (HL l0 Hl0) as (L1 & L2 & _).
      set (j := l_from (g_link st l0)) in *.
      assert (Hja : In j (aside n 0)) by (apply aside_in; lia).
      assert (Hs : stored (p_conns (g_party st 0)) 0 j = true) by now apply PF.
      unfold stored in Hs. destruct (p_conns (g_party st 0) j 0) as [l2|] eqn:Hl2; [|discriminate].
      destruct (g_acc _ G 0 j 0 l2 Hi Hja Hl2) as (A1 & A2 & A3).
      destruct (pi_conn _ _ _ _ _ _ PI j 0 l2 Hl2) as (B2 & _).
      assert (l2 = l0). { apply (link_unique st); auto; try congruence. unfold cid at 1. rewrite A3. now rewrite C0. }
      subst l2. apply (S5 j l0); auto; [rewrite Hpeers; apply in_seq|]; lia. }
    unfold next_conn. destruct (1 <? k) eqn:Ek; simpl.
    + apply (ginv_local st st1 0 _ Hi HI G S1 S2 S3); psimpl; auto; try discriminate; try (intros H; contradiction).
      * rewrite Hm. discriminate.
      * intros H. now apply (g_np _ G 0 Hi).
    + apply (ginv_local st st1 0 _ Hi HI G S1 S2 S3); psimpl; auto; try discriminate; try (intros H; contradiction).
      * rewrite Hm. discriminate.
      * intros H. now apply (g_np _ G 0 Hi).
  - discriminate.
  - discriminate.
Qed.


(* ---------------- reachable states *)
Lemma init_ginv : GInv (init n).
Proof.
  constructor; unfold init; psimpl; try (intros; lia).
  - intros i j c l Hi Hj. unfold init_party. destruct (i =? 0); discriminate.
  - intros i t c l Hi Hi0 Hd. unfold init_party. destruct (i =? 0); discriminate.
  - intros i Hi. unfold init_party. destruct (i =? 0); psimpl; (split; [constructor|intros l []]).
  - intros i l c id Hi. unfold init_party. destruct (i =? 0); discriminate.
  - intros i Hi Hi0. unfold init_party. destruct (i =? 0); exact I.
  - intros i Hi. unfold init_party. destruct (i =? 0); psimpl; repeat split; discriminate.
  - intros i Hi. unfold init_party. destruct (i =? 0); psimpl; intros H; contradiction.
  - intros i Hi. unfold init_party. destruct (i =? 0); discriminate.
Qed.

Definition Reach (st : state) : Prop := Inv n k st /\ GInv st.

Lemma step_reach t st st' : Reach st -> step true n k t st = Some st' -> Reach st'.
Proof.
  intros (HI & G) H. split; [eapply (step_inv n k Hn Hk Hk256); eauto|].
  unfold step in H. destruct (n <=? Nat.div2 t) eqn:El; [discriminate|]. apply Nat.leb_gt in El.
  destruct (Nat.even t); [eapply main_step_ginv|eapply acc_step_ginv]; eauto.
Qed.

Lemma exec_reach st t : Reach st -> Reach (exec true n k st t).
Proof. intros R. unfold exec. destruct (step true n k t st) eqn:Hs; [eapply step_reach; eauto|exact R]. Qed.

Lemma run_reach sched : forall st, Reach st -> Reach (run_from true n k st sched).
Proof.
  induction sched as [|t r IH]; intros st R; [exact R|].
  unfold run_from in *. simpl. apply IH. now apply exec_reach.
Qed.

Lemma init_reach : Reach (init n).
Proof. split; [apply init_inv; assumption|apply init_ginv]. Qed.

(* no error state is reachable: no Connect fails, no accept thread dies; in
   particular Peer.SetConn never finds a slot already set (no slot is written
   twice) and acceptConn never sees "too many connections" *)
Lemma no_error st i : Reach st -> i < n ->
  (forall code, p_main (P st i) <> MErr code) /\ (forall code, p_acc (P st i) <> ADead code) /\
  p_ldone (P st i) = false.
Proof. intros (_ & G) Hi. now apply (g_noerr _ G). Qed.

Lemma pair_sides i j : i < n -> j < n -> i <> j -> In j (aside n i) \/ In i (aside n j).
Proof.
  intros Hi Hj Hne. destruct (Nat.eq_dec i 0) as [->|Hi0]; [left; apply aside_in; lia|].
  destruct (Nat.eq_dec j 0) as [->|Hj0]; [right; apply aside_in; lia|].
  destruct (Nat.lt_ge_cases j i); [left|right]; apply aside_in; lia.
Qed.

(* the two ends of a pair hold the SAME link under the same index, and a link
   held at both ends is held under one index *)
Lemma same_link_aux st i j c c' l l' : Reach st -> i < n -> j < n -> In j (aside n i) ->
  p_conns (P st i) j c = Some l -> p_conns (P st j) i c' = Some l' -> (c = c' -> l = l') /\ (l = l' -> c = c').
Proof.
  intros (HI & G) Hi Hj Hja Hl Hl'. pose proof HI as (HL & HP).
  destruct (g_acc _ G i j c l Hi Hja Hl) as (A1 & A2 & A3).
  destruct (pi_conn _ _ _ _ _ _ (HP i Hi) j c l Hl) as (B & _).
  pose proof (g_dial _ G l B) as D. unfold cid in D. rewrite A1, A2, A3 in D.
  destruct (aside_lt n k Hn Hk i j Hi Hja) as (J1 & J2 & J3).
  split.
  - intros <-. congruence.
  - intros <-. assert (Hj0 : j <> 0) by lia.
    assert (Hd : dside j i) by (destruct (Nat.eq_dec i 0) as [->|Hi0]; [now left|right; auto]).
    destruct (g_dslot _ G j i c' l Hj Hj0 Hd Hl') as (_ & _ & C). unfold cid in C. rewrite A3 in C. exact C.
Qed.

Lemma same_link st i j c c' l l' : Reach st -> i < n -> j < n -> i <> j ->
  p_conns (P st i) j c = Some l -> p_conns (P st j) i c' = Some l' -> (c = c' -> l = l') /\ (l = l' -> c = c').
Proof.
  intros R Hi Hj Hne Hl Hl'. destruct (pair_sides i j Hi Hj Hne) as [H|H].
  - exact (same_link_aux st i j c c' l l' R Hi Hj H Hl Hl').
  - destruct (same_link_aux st j i c' c l' l R Hj Hi H Hl' Hl) as (A & B). split; intros E; symmetry; auto.
Qed.


(* ---------------- deadlock freedom *)
Lemma main_disabled i st : main_step n k i st = None ->
  match p_main (P st i) with
  | MRecvInfo => exists l, p_conns (P st i) 0 0 = Some l /\ l_info (L st l) = None
  | MWait c => p_need (P st i) c <> 0
  | MDone | MErr _ => True
  | _ => False
  end.
Proof.
  unfold main_step. destruct (p_main (P st i)) eqn:Hm; auto.
  - destruct (i =? 0); [discriminate|]. unfold new_link. cbv beta iota zeta. discriminate.
  - destruct (p_conns (P st i) 0 0); discriminate.
  - destruct (p_conns (P st i) 0 0) as [l|]; [|discriminate].
    destruct (l_info (L st l)) eqn:Hi0; [|intros _; eauto].
    destruct (add_ids _ _ _); discriminate.
  - destruct targets as [|t ts]; [discriminate|].
    destruct (255 <? c); [discriminate|]. destruct (n <=? t); [discriminate|].
    unfold new_link. cbv beta iota zeta. psimpl.
    match goal with |- context [match ?x with Some _ => _ | None => _ end] => destruct x end; discriminate.
  - destruct (p_need (P st i) c =? 0) eqn:Hz.
    + simpl. destruct (negb (p_ldone (P st i))); [destruct ((i =? 0) && (c =? 0))|]; discriminate.
    + intros _. now apply Nat.eqb_neq.
  - destruct (send_infos _ _ _ _); discriminate.
Qed.

Lemma acc_disabled i st : acc_step true k i st = None ->
  match p_acc (P st i) with
  | AOff | ADead _ => True
  | AIdle => p_queue (P st i) = [] \/ exists l q, p_queue (P st i) = l :: q /\ l_hello (L st l) = None
  | _ => False
  end.
Proof.
  unfold acc_step. destruct (p_acc (P st i)) eqn:Ha; auto.
  - destruct (p_queue (P st i)) as [|l q]; [now left|].
    destruct (l_hello (L st l)) as [[c id]|] eqn:Hh; [|intros _; right; eauto].
    destruct (k <=? c); discriminate.
  - destruct (p_need (P st i) c =? 0); [discriminate|]. destruct (add_peer _ _ _ _); discriminate.
  - destruct (add_peer _ _ _ _); discriminate.
Qed.

Lemma quiescent_threads st i : quiescent true n k st = true -> i < n ->
  main_step n k i st = None /\ acc_step true k i st = None.
Proof.
  intros Q Hi. split.
  - pose proof (quiescent_step true n k st (2 * i) Q) as H. unfold step in H.
    rewrite Nat.div2_double in H. assert (E : (n <=? i) = false) by (apply Nat.leb_gt; lia). rewrite E in H.
    rewrite Nat.even_mul in H. simpl in H. exact H.
  - pose proof (quiescent_step true n k st (S (2 * i)) Q) as H. unfold step in H.
    rewrite Nat.div2_succ_double in H. assert (E : (n <=? i) = false) by (apply Nat.leb_gt; lia). rewrite E in H.
    rewrite Nat.even_succ, Nat.odd_mul in H. simpl in H. exact H.
Qed.

Lemma filter_all {A} (f : A -> bool) l : (forall x, In x l -> f x = true) -> filter f l = l.
Proof.
  induction l as [|a r IH]; simpl; intros H; [reflexivity|].
  rewrite (H a (or_introl eq_refl)). f_equal. apply IH. intros x Hx. apply H. now right.
Qed.

Lemma full_cnt t i c : full n t i c -> cnt n t i c = E n i.
Proof. intros F. unfold cnt. rewrite <- (aside_len n i). f_equal. now apply filter_all. Qed.

Lemma stored_some t c j : stored t c j = true <-> exists l, t j c = Some l.
Proof. unfold stored. destruct (t j c); split; eauto; try discriminate. intros (l & H). discriminate. Qed.

(* When no thread is enabled, the mesh is complete: every Connect has
   returned, every table is complete, and the two ends of every pair agree. *)
Lemma quiescent_complete st : Reach st -> quiescent true n k st = true -> complete n k st = true.
Proof.
  intros R Q. pose proof R as (HI & G). pose proof HI as (HL & HP).
  assert (Mn : forall i, i < n -> main_step n k i st = None) by (intros i Hi; apply (quiescent_threads st i Q Hi)).
  assert (An : forall i, i < n -> acc_step true k i st = None) by (intros i Hi; apply (quiescent_threads st i Q Hi)).
  (* A: every hello has been sent *)
  assert (HelloAll : forall l, l < g_nlinks st -> l_hello (L st l) <> None).
  { intros l Hl Hn0. destruct (g_hello _ G l Hl Hn0) as (_ & B). pose proof (HL l Hl) as (_ & L2 & _).
    pose proof (main_disabled _ _ (Mn _ L2)) as D. rewrite B in D. exact D. }
  (* B: a started accept thread is idle with an empty backlog *)
  assert (AccIdle : forall i, i < n -> p_acc (P st i) <> AOff -> p_acc (P st i) = AIdle /\ p_queue (P st i) = []).
  { intros i Hi Hoff. pose proof (acc_disabled _ _ (An i Hi)) as D. destruct (g_noerr _ G i Hi) as (_ & ND & _).
    destruct (p_acc (P st i)) eqn:Ha; try contradiction; try (exfalso; now apply (ND code)).
    split; [reflexivity|]. destruct D as [D|(l & q & D1 & D2)]; [assumption|]. exfalso.
    assert (Hin : In l (p_queue (P st i))) by (rewrite D1; now left).
    destruct (pi_queue _ _ _ _ _ _ (HP i Hi) l Hin) as (Hl & _). now apply (HelloAll l Hl). }
  (* C: every link whose listener has started is registered there *)
  assert (Registered : forall l, l < g_nlinks st -> p_acc (P st (l_to (L st l))) <> AOff ->
            p_conns (P st (l_to (L st l))) (l_from (L st l)) (cid (L st l)) = Some l).
  { intros l Hl Hoff. pose proof (HL l Hl) as (_ & _ & L3 & _). destruct (AccIdle _ L3 Hoff) as (A1 & A2).
    destruct (g_place _ G l Hl) as [A|[(c & id & A)|A]]; [rewrite A2 in A; destruct A|congruence|exact A]. }
  (* mains are blocked or done *)
  assert (MainShape : forall i, i < n -> match p_main (P st i) with
            | MRecvInfo => exists l, p_conns (P st i) 0 0 = Some l /\ l_info (L st l) = None
            | MWait c => p_need (P st i) c <> 0 | MDone => True | _ => False end).
  { intros i Hi. pose proof (main_disabled _ _ (Mn i Hi)) as D. destruct (g_noerr _ G i Hi) as (NE & _).
    destruct (p_main (P st i)); auto. exfalso. now apply (NE code). }
  (* the leader's accept thread runs *)
  assert (A0 : p_acc (P st 0) <> AOff).
  { pose proof (MainShape 0 ltac:(lia)) as D. pose proof (pi_main _ _ _ _ _ _ (HP 0 ltac:(lia))) as PM. unfold main_ok in PM.
    destruct (p_main (P st 0)) eqn:Hm; try contradiction.
    - destruct PM as (PM & _). contradiction.
    - now destruct PM.
    - now apply (g_done _ G 0 ltac:(lia)). }
  (* every peer has joined and its first connection is registered at the leader *)
  assert (Stored00 : forall j, 1 <= j -> j < n -> stored (p_conns (P st j)) 0 0 = true).
  { intros j J1 J2. pose proof (MainShape j J2) as D. pose proof (pi_main _ _ _ _ _ _ (HP j J2)) as PM. unfold main_ok in PM.
    destruct (p_main (P st j)) eqn:Hm; try contradiction.
    - now destruct PM as (_ & _ & _ & S & _).
    - destruct PM as (_ & _ & _ & PD). destruct (PD ltac:(lia)) as (_ & S & _). exact S.
    - destruct PM as (_ & PD). destruct (PD ltac:(lia)) as (_ & S & _). exact S. }
  assert (Full00 : full n (p_conns (P st 0)) 0 0).
  { intros j Hj. destruct (aside_lt n k Hn Hk 0 j ltac:(lia) Hj) as (J1 & J2 & _).
    apply stored_some. pose proof (Stored00 j J1 J2) as S. apply stored_some in S. destruct S as (l & Sl).
    destruct (g_dslot _ G j 0 0 l J2 ltac:(lia) (or_introl eq_refl) Sl) as (F1 & F2 & F3).
    destruct (pi_conn _ _ _ _ _ _ (HP j J2) 0 0 l Sl) as (Hl & _).
    pose proof (Registered l Hl) as Rg. rewrite F1, F2, F3 in Rg. exists l. now apply Rg. }
  (* so the leader is past the info loop *)
  assert (Past : match p_main (P st 0) with MWait c => 1 <= c | MDone => True | _ => False end).
  { pose proof (MainShape 0 ltac:(lia)) as D. pose proof (pi_main _ _ _ _ _ _ (HP 0 ltac:(lia))) as PM. unfold main_ok in PM.
    destruct (p_main (P st 0)) eqn:Hm; try contradiction; auto.
    - destruct PM as (PM & _). contradiction.
    - destruct (Nat.eq_dec c 0) as [->|]; [|lia]. exfalso. apply D.
      destruct (AccIdle 0 ltac:(lia) A0) as (AI & _).
      assert (Hrun : running (p_acc (P st 0))) by (rewrite AI; exact I).
      pose proof (pi_need _ _ _ _ _ _ (HP 0 ltac:(lia)) Hrun 0 ltac:(lia)) as Hneed.
      rewrite (full_cnt _ _ _ Full00) in Hneed. lia. }
  (* hence no peer waits for the info *)
  assert (PeerShape : forall j, 1 <= j -> j < n -> match p_main (P st j) with MWait c => p_need (P st j) c <> 0 | MDone => True | _ => False end).
  { intros j J1 J2. pose proof (MainShape j J2) as D. destruct (p_main (P st j)) eqn:Hm; auto.
    destruct D as (l & Sl & Il). destruct (g_dslot _ G j 0 0 l J2 ltac:(lia) (or_introl eq_refl) Sl) as (F1 & F2 & F3).
    destruct (pi_conn _ _ _ _ _ _ (HP j J2) 0 0 l Sl) as (Hl & _). now apply (g_info _ G Past l Hl F2 F3). }
  assert (AccOn : forall i, i < n -> p_acc (P st i) <> AOff).
  { intros i Hi. destruct (Nat.eq_dec i 0) as [->|Hi0]; [exact A0|].
    pose proof (PeerShape i ltac:(lia) Hi) as D. pose proof (pi_main _ _ _ _ _ _ (HP i Hi)) as PM. unfold main_ok in PM.
    destruct (p_main (P st i)) eqn:Hm; try contradiction.
    - now destruct PM.
    - now apply (g_done _ G i Hi). }
  (* a waiting party with need[c] <> 0 misses a connection; none is missing *)
  assert (NotBlocked : forall i c, i < n -> c < k -> p_main (P st i) = MWait c -> p_need (P st i) c <> 0 ->
            ~ full n (p_conns (P st i)) i c).
  { intros i c Hi Hc Hm Hnz F. destruct (AccIdle i Hi (AccOn i Hi)) as (AI & _).
    assert (Hrun : running (p_acc (P st i))) by (rewrite AI; exact I).
    pose proof (pi_need _ _ _ _ _ _ (HP i Hi) Hrun c Hc) as Hneed. rewrite (full_cnt _ _ _ F) in Hneed. lia. }
  (* every peer is done, by strong induction on its id *)
  assert (PeerDone : forall m j, j < m -> 1 <= j -> j < n -> p_main (P st j) = MDone).
  { induction m as [|m IH]; intros j Hjm J1 J2; [lia|].
    pose proof (PeerShape j J1 J2) as D. pose proof (pi_main _ _ _ _ _ _ (HP j J2)) as PM. unfold main_ok in PM.
    destruct (p_main (P st j)) eqn:Hm; try contradiction; [|reflexivity]. exfalso.
    destruct PM as (_ & PC & _). apply (NotBlocked j c J2 PC Hm D).
    intros j' Hj'. destruct (aside_lt n k Hn Hk j j' J2 Hj') as (K1 & K2 & K3). specialize (K3 ltac:(lia)).
    pose proof (IH j' ltac:(lia) K1 K2) as Dj'.
    pose proof (pi_main _ _ _ _ _ _ (HP j' K2)) as PM'. unfold main_ok in PM'. rewrite Dj' in PM'.
    destruct PM' as (_ & PD'). destruct (PD' ltac:(lia)) as (_ & _ & Dl).
    assert (Hin : In j (targets j' c (seq 0 n))).
    { apply in_targets. split; [apply in_seq; lia|]. destruct (j =? 0) eqn:Ej; [apply Nat.eqb_eq in Ej; lia|lia]. }
    pose proof (Dl c PC j Hin) as S. apply stored_some in S. destruct S as (l & Sl).
    destruct (g_dslot _ G j' j c l K2 ltac:(lia) (or_intror K3) Sl) as (F1 & F2 & F3).
    destruct (pi_conn _ _ _ _ _ _ (HP j' K2) j c l Sl) as (Hl & _).
    pose proof (Registered l Hl) as Rg. rewrite F1, F2, F3 in Rg. apply stored_some. exists l. apply Rg. now apply AccOn. }
  assert (LeaderDone : p_main (P st 0) = MDone).
  { pose proof (pi_main _ _ _ _ _ _ (HP 0 ltac:(lia))) as PM. unfold main_ok in PM.
    pose proof (MainShape 0 ltac:(lia)) as D.
    destruct (p_main (P st 0)) eqn:Hm; try contradiction; [|reflexivity]. exfalso.
    destruct PM as (_ & PC & _). apply (NotBlocked 0 c ltac:(lia) PC Hm D).
    intros j' Hj'. destruct (aside_lt n k Hn Hk 0 j' ltac:(lia) Hj') as (K1 & K2 & _).
    pose proof (PeerDone (S j') j' ltac:(lia) K1 K2) as Dj'.
    pose proof (pi_main _ _ _ _ _ _ (HP j' K2)) as PM'. unfold main_ok in PM'. rewrite Dj' in PM'.
    destruct PM' as (_ & PD'). destruct (PD' ltac:(lia)) as (_ & _ & Dl).
    assert (Hin : In 0 (targets j' c (seq 0 n))).
    { apply in_targets. split; [apply in_seq; lia|]. simpl. lia. }
    pose proof (Dl c PC 0 Hin) as S. apply stored_some in S. destruct S as (l & Sl).
    destruct (g_dslot _ G j' 0 c l K2 ltac:(lia) (or_introl eq_refl) Sl) as (F1 & F2 & F3).
    destruct (pi_conn _ _ _ _ _ _ (HP j' K2) 0 c l Sl) as (Hl & _).
    pose proof (Registered l Hl) as Rg. rewrite F1, F2, F3 in Rg. apply stored_some. exists l. apply Rg. exact A0. }
  assert (AllDone : forall i, i < n -> p_main (P st i) = MDone).
  { intros i Hi. destruct (Nat.eq_dec i 0) as [->|]; [exact LeaderDone|apply (PeerDone (S i)); lia]. }
  assert (TabC : forall i, i < n -> tab_complete n k i (p_peers (P st i)) (p_conns (P st i)) = true).
  { intros i Hi. pose proof (pi_main _ _ _ _ _ _ (HP i Hi)) as PM. unfold main_ok in PM. rewrite (AllDone i Hi) in PM.
    destruct PM as (F & D). eapply (done_complete n k Hn Hk); eauto. }
  unfold complete. repeat (apply andb_true_iff; split).
  - unfold all_done. apply forallb_forall. intros i Hi. apply in_seq in Hi. unfold party_done.
    rewrite (AllDone i ltac:(lia)). destruct (AccIdle i ltac:(lia) (AccOn i ltac:(lia))) as (-> & ->). reflexivity.
  - unfold ret_complete. apply forallb_forall. intros i Hi. apply in_seq in Hi.
    destruct (p_ret (P st i)) as [[ps t]|] eqn:Hr.
    + now apply (pi_ret _ _ _ _ _ _ (HP i ltac:(lia))).
    + exfalso. now apply (pi_done _ _ _ _ _ _ (HP i ltac:(lia)) (AllDone i ltac:(lia))).
  - apply forallb_forall. intros i Hi. apply in_seq in Hi. apply TabC. lia.
  - unfold tabs_consistent. apply forallb_forall. intros i Hi. apply in_seq in Hi.
    apply forallb_forall. intros j Hj. apply in_seq in Hj.
    destruct (i =? j) eqn:Eij; [reflexivity|]. apply Nat.eqb_neq in Eij. simpl.
    apply forallb_forall. intros c Hc. apply in_seq in Hc.
    assert (Si : exists l, p_conns (P st i) j c = Some l).
    { pose proof (TabC i ltac:(lia)) as T. unfold tab_complete in T. apply andb_true_iff in T. destruct T as (_ & T).
      rewrite forallb_forall in T. specialize (T j ltac:(apply in_seq; lia)).
      apply Nat.eqb_neq in Eij. rewrite Nat.eqb_sym, Eij in T. simpl in T. rewrite forallb_forall in T.
      specialize (T c ltac:(apply in_seq; lia)). destruct (p_conns (P st i) j c); [eauto|discriminate]. }
    assert (Sj : exists l, p_conns (P st j) i c = Some l).
    { pose proof (TabC j ltac:(lia)) as T. unfold tab_complete in T. apply andb_true_iff in T. destruct T as (_ & T).
      rewrite forallb_forall in T. specialize (T i ltac:(apply in_seq; lia)).
      apply Nat.eqb_neq in Eij. rewrite Eij in T. simpl in T. rewrite forallb_forall in T.
      specialize (T c ltac:(apply in_seq; lia)). destruct (p_conns (P st j) i c); [eauto|discriminate]. }
    destruct Si as (l & Sl). destruct Sj as (l' & Sl'). rewrite Sl, Sl'.
    destruct (same_link st i j c c l l' R ltac:(lia) ltac:(lia) Eij Sl Sl') as (E & _). rewrite (E eq_refl).
    apply Nat.eqb_refl.
Qed.


(* ---------------- a measure that every effective step decreases *)
Definition sumw (f : nat -> nat) : nat := list_sum (map f (seq 0 n)).

Lemma sum_split m : forall f i, i < m ->
  list_sum (map f (seq 0 m)) = f i + list_sum (map (fun x => if x =? i then 0 else f x) (seq 0 m)).
Proof.
  induction m as [|m IH]; intros f i Hi; [lia|].
  rewrite seq_S, !map_app, !list_sum_app. simpl. destruct (Nat.eq_dec i m) as [->|Hne].
  - rewrite Nat.eqb_refl. rewrite (map_ext_in (fun x => if x =? m then 0 else f x) f); [lia|].
    intros x Hx. apply in_seq in Hx. destruct (x =? m) eqn:E; [apply Nat.eqb_eq in E; lia|reflexivity].
  - rewrite (IH f i) by lia. apply Nat.eqb_neq in Hne. rewrite Nat.eqb_sym in Hne. rewrite Hne. lia.
Qed.

Lemma sum_ext m f g : (forall x, x < m -> f x = g x) -> list_sum (map f (seq 0 m)) = list_sum (map g (seq 0 m)).
Proof. intros H. f_equal. apply map_ext_in. intros x Hx. apply in_seq in Hx. apply H. lia. Qed.

Lemma sum_one f g i : i < n -> (forall x, x <> i -> g x = f x) -> g i < f i -> sumw g < sumw f.
Proof.
  intros Hi He Hlt. unfold sumw. rewrite (sum_split n f i Hi), (sum_split n g i Hi).
  rewrite (sum_ext n (fun x => if x =? i then 0 else g x) (fun x => if x =? i then 0 else f x)); [lia|].
  intros x _. destruct (x =? i) eqn:E; [reflexivity|]. apply Nat.eqb_neq in E. now apply He.
Qed.

Lemma sum_two f g i t : i < n -> t < n -> t <> i -> (forall x, x <> i -> x <> t -> g x = f x) ->
  g i + g t < f i + f t -> sumw g < sumw f.
Proof.
  intros Hi Ht Hne He Hlt. unfold sumw. rewrite (sum_split n f i Hi), (sum_split n g i Hi).
  rewrite (sum_split n (fun x => if x =? i then 0 else f x) t Ht), (sum_split n (fun x => if x =? i then 0 else g x) t Ht).
  apply Nat.eqb_neq in Hne. rewrite Hne.
  rewrite (sum_ext n (fun x => if x =? t then 0 else if x =? i then 0 else g x)
                     (fun x => if x =? t then 0 else if x =? i then 0 else f x)); [lia|].
  intros x _. destruct (x =? t) eqn:E1; [reflexivity|]. destruct (x =? i) eqn:E2; [reflexivity|].
  apply Nat.eqb_neq in E1, E2. now apply He.
Qed.

Definition rank (pc : mpc) : nat :=
  match pc with
  | MErr _ => 0
  | MDone => 1
  | MWait c => (k - c) * (n + 3) + 2
  | MInfo => k * (n + 3) + 1
  | MDial c ts => (k - c) * (n + 3) + 3 + length ts
  | MRecvInfo => (k + 1) * (n + 3) + 4
  | MHello => (k + 1) * (n + 3) + 5
  | MStart => (k + 1) * (n + 3) + 6
  end.
Definition abit (a : apc) : nat := match a with ASet _ _ _ | AAdd _ _ _ => 1 | _ => 0 end.
Definition w (p : party) : nat := 3 * rank (p_main p) + 2 * length (p_queue p) + abit (p_acc p).
Definition mu (st : state) : nat := sumw (fun i => w (P st i)).

Lemma mu_one st st' i : i < n -> (forall x, x <> i -> P st' x = P st x) -> w (P st' i) < w (P st i) -> mu st' < mu st.
Proof. intros Hi He Hlt. apply (sum_one _ _ i); auto. intros x Hx. now rewrite He. Qed.

Lemma mu_two st st' i t : i < n -> t < n -> t <> i -> (forall x, x <> i -> x <> t -> P st' x = P st x) ->
  w (P st' i) + w (P st' t) < w (P st i) + w (P st t) -> mu st' < mu st.
Proof. intros Hi Ht Hne He Hlt. apply (sum_two _ _ i t); auto. intros x H1 H2. now rewrite He. Qed.

Lemma add_peer_same p id c l p1 : add_peer p id c l = Some p1 ->
  p_main p1 = p_main p /\ p_queue p1 = p_queue p /\ p_acc p1 = p_acc p.
Proof.
  unfold add_peer. destruct (p_np p <=? id); [discriminate|]. destruct (memb id (p_peers p)).
  - destruct (p_conns p id c); [discriminate|]. intros [= <-]. auto.
  - intros [= <-]. auto.
Qed.

Lemma acc_step_dec i st st' : i < n -> acc_step true k i st = Some st' -> mu st' < mu st.
Proof.
  intros Hi H. apply (mu_one st st' i Hi).
  - intros x Hx. unfold acc_step in H.
    repeat match type of H with
           | None = Some _ => discriminate
           | Some _ = Some _ => injection H as <-; psimpl; now rewrite upd_other
           | context [match ?x with _ => _ end] => destruct x
           | context [if ?x then _ else _] => destruct x
           end.
  - unfold acc_step in H. destruct (p_acc (P st i)) eqn:Ha; try discriminate.
    + destruct (p_queue (P st i)) as [|l q] eqn:Hq; [discriminate|].
      destruct (l_hello (L st l)) as [[c id]|]; [|discriminate].
      destruct (k <=? c); injection H as <-; psimpl; rewrite upd_same; unfold w; psimpl; rewrite Ha, Hq; simpl; lia.
    + destruct (p_need (P st i) c =? 0); [injection H as <-; psimpl; rewrite upd_same; unfold w; psimpl; rewrite Ha; simpl; lia|].
      destruct (add_peer (P st i) id c l) as [p1|] eqn:Hap; injection H as <-; psimpl; rewrite upd_same; unfold w; psimpl.
      * destruct (add_peer_same _ _ _ _ _ Hap) as (-> & -> & _). rewrite Ha. simpl. lia.
      * rewrite Ha. simpl. lia.
    + destruct (add_peer (P st i) id c l) as [p1|] eqn:Hap; injection H as <-; psimpl; rewrite upd_same; unfold w; psimpl.
      * destruct (add_peer_same _ _ _ _ _ Hap) as (-> & -> & _). rewrite Ha. simpl. lia.
      * rewrite Ha. simpl. lia.
Qed.


Lemma dial_len st i c ts : Reach st -> i < n -> p_main (P st i) = MDial c ts -> length ts <= n.
Proof.
  intros (HI & G) Hi Hm. destruct HI as (_ & HP). pose proof (pi_main _ _ _ _ _ _ (HP i Hi)) as PM.
  unfold main_ok in PM. rewrite Hm in PM. destruct PM as (P0 & _ & _ & _ & _ & _ & _ & PT).
  pose proof (g_none _ G i Hi P0) as GN. rewrite Hm in GN. destruct GN as (ND & _).
  rewrite <- (seq_length n 0). apply NoDup_incl_length; [exact ND|].
  intros j Hj. apply PT in Hj. apply in_targets in Hj. tauto.
Qed.

Lemma w_enqueue p l : w (set_queue p (p_queue p ++ [l])) = w p + 2.
Proof. unfold w. psimpl. rewrite app_length. simpl. lia. Qed.

Lemma main_step_dec i st st' :
  i < n -> Reach st -> Reach st' -> main_step n k i st = Some st' -> mu st' < mu st.
Proof.
  intros Hi R R' H. pose proof R as (HI & G). pose proof HI as (HL & HP).
  pose proof (pi_main _ _ _ _ _ _ (HP i Hi)) as PM. unfold main_ok in PM.
  unfold main_step in H. destruct (p_main (P st i)) eqn:Hm.
  - (* MStart *)
    destruct (i =? 0) eqn:E0.
    + injection H as <-. apply (mu_one _ _ i Hi); psimpl.
      * intros x Hx. now rewrite upd_other.
      * rewrite upd_same. unfold w. psimpl. rewrite Hm. unfold rank. rewrite Nat.sub_0_r. simpl abit.
        destruct PM as (-> & _). simpl. nia.
    + apply Nat.eqb_neq in E0. unfold new_link in H. cbv beta iota zeta in H. injection H as <-.
      apply (mu_two _ _ i 0 Hi ltac:(lia) ltac:(auto)); psimpl.
      * intros x H1 H2. now rewrite !upd_other.
      * rewrite upd_same. rewrite (upd_other _ i 0) by auto. rewrite upd_same. rewrite (upd_other _ 0 i) by auto.
        rewrite w_enqueue. unfold w at 1 3. psimpl. rewrite Hm. unfold rank. nia.
  - (* MHello *)
    destruct (p_conns (P st i) 0 0); injection H as <-; apply (mu_one _ _ i Hi); psimpl;
      try (intros x Hx; now rewrite upd_other); rewrite upd_same; unfold w; psimpl; rewrite Hm; unfold rank; nia.
  - (* MRecvInfo *)
    destruct (p_conns (P st i) 0 0) as [l|].
    2:{ injection H as <-. apply (mu_one _ _ i Hi); psimpl; [intros x Hx; now rewrite upd_other|].
        rewrite upd_same. unfold w. psimpl. rewrite Hm. unfold rank. nia. }
    destruct (l_info (L st l)) as [ids|]; [|discriminate].
    destruct (add_ids _ _ _) as [ps|].
    2:{ injection H as <-. apply (mu_one _ _ i Hi); psimpl; [intros x Hx; now rewrite upd_other|].
        rewrite upd_same. unfold w. psimpl. rewrite Hm. unfold rank. nia. }
    injection H as <-.
    assert (Hlen : length (targets i 0 ps) <= n).
    { apply (dial_len _ i 0 _ R' Hi). psimpl. now rewrite upd_same. }
    apply (mu_one _ _ i Hi); psimpl; [intros x Hx; now rewrite upd_other|].
    rewrite upd_same. unfold w. psimpl. rewrite Hm. unfold rank. rewrite Nat.sub_0_r.
    destruct PM as (_ & -> & _). simpl abit. nia.
  - (* MDial *)
    destruct PM as (P0 & _ & _ & _ & _ & _ & _ & PT).
    destruct targets as [|t ts].
    + injection H as <-. apply (mu_one _ _ i Hi); psimpl; [intros x Hx; now rewrite upd_other|].
      rewrite upd_same. unfold w. psimpl. rewrite Hm. unfold rank. simpl. nia.
    + destruct (255 <? c).
      { injection H as <-. apply (mu_one _ _ i Hi); psimpl; [intros x Hx; now rewrite upd_other|].
        rewrite upd_same. unfold w. psimpl. rewrite Hm. unfold rank. simpl. nia. }
      destruct (n <=? t) eqn:Hnt.
      { injection H as <-. apply (mu_one _ _ i Hi); psimpl; [intros x Hx; now rewrite upd_other|].
        rewrite upd_same. unfold w. psimpl. rewrite Hm. unfold rank. simpl. nia. }
      apply Nat.leb_gt in Hnt.
      assert (Ht : In t (targets i c (seq 0 n))) by (apply PT; now left).
      apply in_targets in Ht. destruct Ht as (_ & Ht).
      assert (Hti : t <> i) by (destruct (t =? 0) eqn:E0; [apply Nat.eqb_eq in E0; lia|lia]).
      unfold new_link in H. cbv beta iota zeta in H. psimpl in H. rewrite (upd_other _ t i) in H by auto.
      destruct (p_conns (P st i) t c); injection H as <-; apply (mu_two _ _ i t Hi Hnt Hti); psimpl;
        try (intros x H1 H2; now rewrite !upd_other);
        rewrite upd_same; rewrite (upd_other _ i t) by auto; rewrite upd_same; rewrite w_enqueue;
        unfold w at 1 3; psimpl; rewrite Hm; unfold rank; simpl; nia.
  - (* MWait *)
    destruct ((p_need (P st i) c =? 0) || p_ldone (P st i)); [|discriminate].
    destruct ((p_need (P st i) c =? 0) && negb (p_ldone (P st i))).
    2:{ injection H as <-. apply (mu_one _ _ i Hi); psimpl; [intros x Hx; now rewrite upd_other|].
        rewrite upd_same. unfold w. psimpl. rewrite Hm. unfold rank. nia. }
    destruct ((i =? 0) && (c =? 0)) eqn:Hic.
    + apply andb_true_iff in Hic. destruct Hic as (_ & Hc0). apply Nat.eqb_eq in Hc0. subst c.
      injection H as <-. apply (mu_one _ _ i Hi); psimpl; [intros x Hx; now rewrite upd_other|].
      rewrite upd_same. unfold w. psimpl. rewrite Hm. unfold rank. rewrite Nat.sub_0_r. nia.
    + injection H as <-. apply (mu_one _ _ i Hi); psimpl; [intros x Hx; now rewrite upd_other|].
      rewrite upd_same. unfold next_conn. destruct (S c <? k) eqn:Ek.
      * assert (Ek' := Ek). apply Nat.ltb_lt in Ek. destruct (i =? 0) eqn:E0.
        -- unfold w. psimpl. rewrite Hm. unfold rank. replace (k - c) with (S (k - S c)) by lia. nia.
        -- assert (Hlen : length (targets i (S c) (p_peers (P st i))) <= n).
           { apply (dial_len (set_party st i (next_conn k i c (P st i))) i (S c) _ R' Hi). psimpl. rewrite upd_same.
             unfold next_conn. rewrite Ek', E0. reflexivity. }
           unfold w. psimpl. rewrite Hm. unfold rank. replace (k - c) with (S (k - S c)) by lia. nia.
      * unfold w. psimpl. rewrite Hm. unfold rank. nia.
  - (* MInfo *)
    destruct PM as (Pi0 & _). subst i.
    destruct (send_infos _ _ _ _) as [st1|] eqn:Hsend.
    2:{ injection H as <-. apply (mu_one _ _ 0 Hi); psimpl; [intros x Hx; now rewrite upd_other|].
        rewrite upd_same. unfold w. psimpl. rewrite Hm. unfold rank. nia. }
    destruct (send_infos_info _ _ _ _ _ Hsend) as (S1 & _).
    injection H as <-. apply (mu_one _ _ 0 Hi); psimpl; rewrite S1; [intros x Hx; now rewrite upd_other|].
    rewrite upd_same. unfold next_conn. simpl. destruct (1 <? k) eqn:Ek.
    + apply Nat.ltb_lt in Ek. unfold w. psimpl. rewrite Hm. unfold rank. replace k with (S (k - 1)) at 2 by lia. nia.
    + unfold w. psimpl. rewrite Hm. unfold rank. nia.
  - discriminate.
  - discriminate.
Qed.


Lemma step_dec t st st' : Reach st -> step true n k t st = Some st' -> mu st' < mu st.
Proof.
  intros R H. pose proof (step_reach _ _ _ R H) as R'. unfold step in H.
  destruct (n <=? Nat.div2 t) eqn:El; [discriminate|]. apply Nat.leb_gt in El.
  destruct (Nat.even t); [eapply main_step_dec|eapply acc_step_dec]; eauto.
Qed.

(* number of effective (non-stuttering) steps of a schedule *)
Fixpoint eff (st : state) (sched : list nat) : nat :=
  match sched with
  | [] => 0
  | t :: r => match step true n k t st with Some st' => S (eff st' r) | None => eff st r end
  end.

Lemma eff_le_mu sched : forall st, Reach st -> eff st sched <= mu st.
Proof.
  induction sched as [|t r IH]; intros st R; simpl; [lia|].
  destruct (step true n k t st) as [st'|] eqn:Hs; [|now apply IH].
  pose proof (step_dec _ _ _ R Hs). pose proof (IH st' (step_reach _ _ _ R Hs)). lia.
Qed.

Lemma all_disabled_quiescent st : (forall t, t < 2 * n -> step true n k t st = None) -> quiescent true n k st = true.
Proof.
  intros H. unfold quiescent. apply forallb_forall. intros t Ht. unfold tids in Ht. apply in_seq in Ht.
  unfold enabled. rewrite H by lia. reflexivity.
Qed.

(* every completed round of a fair schedule contains an effective step, as
   long as the run has not come to rest *)
Lemma rounds_le_eff sched : forall st miss (b : bool),
  (b = false -> forall t, t < 2 * n -> ~ In t miss -> step true n k t st = None) ->
  quiescent true n k (run_from true n k st sched) = false ->
  count_rounds_aux (seq 0 (2 * n)) miss sched <= eff st sched + (if b then 1 else 0).
Proof.
  induction sched as [|t r IH]; intros st miss b J Q; simpl; [lia|].
  change (n + (n + 0)) with (2 * n) in *.
  assert (Jall : forall st0, false = false -> forall t0, t0 < 2 * n -> ~ In t0 (seq 0 (2 * n)) -> step true n k t0 st0 = None).
  { intros st0 _ t0 Ht0 Hn0. exfalso. apply Hn0. apply in_seq. lia. }
  unfold run_from in Q. simpl in Q. unfold exec in Q at 2.
  destruct (step true n k t st) as [st'|] eqn:Hs.
  - destruct (filter (fun x => negb (x =? t)) miss) as [|m0 mr] eqn:Hf.
    + pose proof (IH st' (seq 0 (2 * n)) false (Jall st') Q) as HH. cbv iota in HH. destruct b; lia.
    + pose proof (IH st' (m0 :: mr) true ltac:(discriminate) Q) as HH. cbv iota in HH. destruct b; lia.
  - destruct (filter (fun x => negb (x =? t)) miss) as [|m0 mr] eqn:Hf.
    + destruct b.
      * pose proof (IH st (seq 0 (2 * n)) false (Jall st) Q) as HH. cbv iota in HH. lia.
      * exfalso. assert (Qs : quiescent true n k st = true).
        { apply all_disabled_quiescent. intros t0 Ht0. destruct (in_dec Nat.eq_dec t0 miss) as [Hin|Hnin]; [|now apply J].
          destruct (Nat.eq_dec t0 t) as [->|Hne]; [exact Hs|]. exfalso.
          assert (Hin' : In t0 (filter (fun x => negb (x =? t)) miss)).
          { apply filter_In. split; [assumption|]. apply negb_true_iff. now apply Nat.eqb_neq. }
          rewrite Hf in Hin'. destruct Hin'. }
        fold (run_from true n k st r) in Q. rewrite (quiescent_run true n k st r Qs) in Q. congruence.
    + apply (IH st (m0 :: mr) b); [|exact Q]. intros Hb t0 Ht0 Hnin. rewrite <- Hf in Hnin.
      destruct (Nat.eq_dec t0 t) as [->|Hne]; [exact Hs|]. apply (J Hb t0 Ht0). intros Hin. apply Hnin.
      apply filter_In. split; [assumption|]. apply negb_true_iff. now apply Nat.eqb_neq.
Qed.

Lemma sum_bound c : forall m s f, (forall x, f x <= c) -> list_sum (map f (seq s m)) <= m * c.
Proof. induction m as [|m IH]; intros s f H; simpl; [lia|]. pose proof (H s). pose proof (IH (S s) f H). lia. Qed.

Lemma mu_init : mu (init n) < round_bound n k.
Proof.
  unfold mu, sumw, round_bound. apply Nat.lt_succ_r. apply sum_bound.
  intros x. unfold init. psimpl. unfold init_party. destruct (x =? 0); unfold w; psimpl; unfold rank, abit; cbn [length]; lia.
Qed.

(* C19_complete: every fair schedule forms the complete, consistent mesh *)
Lemma complete_fair sched : fair n k sched -> complete n k (run_from true n k (init n) sched) = true.
Proof.
  intros F. pose proof (run_reach sched _ init_reach) as R.
  destruct (quiescent true n k (run_from true n k (init n) sched)) eqn:Q; [now apply quiescent_complete|].
  exfalso. unfold fair, count_rounds in F.
  pose proof (rounds_le_eff sched (init n) (seq 0 (2 * n)) false) as H.
  assert (J : false = false -> forall t, t < 2 * n -> ~ In t (seq 0 (2 * n)) -> step true n k t (init n) = None).
  { intros _ t Ht Hn0. exfalso. apply Hn0. apply in_seq. lia. }
  specialize (H J Q). cbv iota in H. pose proof (eff_le_mu sched _ init_reach). pose proof mu_init. lia.
Qed.

End Live.

(* ---------------- the statements used by Props/C19.v *)
Theorem mesh_complete n k : 2 <= n -> 1 <= k -> k <= 256 ->
  forall sched, fair n k sched ->
    run_mesh true n k sched = Final (run_from true n k (init n) sched).
Proof.
  intros Hn Hk Hk256 sched F. unfold run_mesh. now rewrite (complete_fair n k Hn Hk Hk256 sched F).
Qed.

Theorem mesh_no_dup_cross n k : 2 <= n -> 1 <= k -> k <= 256 ->
  forall sched, let st := run_from true n k (init n) sched in
    (forall i, i < n ->
       (forall code, p_main (g_party st i) <> MErr code) /\
       (forall code, p_acc (g_party st i) <> ADead code) /\ p_ldone (g_party st i) = false) /\
    (forall i j c c' l l', i < n -> j < n -> i <> j ->
       p_conns (g_party st i) j c = Some l -> p_conns (g_party st j) i c' = Some l' ->
       (c = c' -> l = l') /\ (l = l' -> c = c')).
Proof.
  intros Hn Hk Hk256 sched st.
  assert (R : Reach n k st) by (apply run_reach; auto; apply init_reach; auto).
  split.
  - intros i Hi. now apply (no_error n k st i R Hi).
  - intros i j c c' l l' Hi Hj Hne. now apply (same_link n k Hn Hk Hk256 st i j c c' l l' R Hi Hj Hne).
Qed.
