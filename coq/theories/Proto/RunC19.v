(* RunC19.v — executable entry point of the C19 model for the correspondence
   check.  The model follows network.go AS IT IS NOW ([fixed = true]).

   input  = (n k (order ...) freeze)
     order   the order in which parties 1..n-1 call p2p.Join (sequentially)
     freeze  0: free run, compared on the canonical schedule (accept threads
                first); m > 0: the harness blocked, through the verifYield
                hook, the goroutine making the m-th call of
                yield("acceptConn:before-register") until every other goroutine had
                come to rest, then released it
   output = (party_0 ... party_{n-1}),  party = (status ret fin pings)
     status  0 Connect returned nil | 1 returned an error | 2 never returned
     ret     () unless status 0: (peers rows) the table at the moment Connect returned
     fin     (peers rows) the table after everything came to rest
     rows    one list of k flags per peer other than self (1 = Conns[c] stored)
     pings   () unless status 0: ((j c tok) ...) for every stored Conns[c] of peer j:
             tok = (sender sender's-peer sender's-c) of the token that arrived
             on it, () if none did (tokens are sent by parties with status 0) *)
From Coq Require Import ZArith Arith List Bool.
From Mpc Require Import Base.Sx Proto.Mesh Proto.MeshWire.
Import ListNotations.
Open Scope nat_scope.

Definition rows_sx (k self : nat) (ps : list nat) (t : table) : sx :=
  SL (map (fun j => SL (map (fun c => ofB (match t j c with Some _ => true | None => false end)) (seq 0 k)))
          (filter (fun j => negb (j =? self)) ps)).

Definition tab_sx (k self : nat) (ps : list nat) (t : table) : sx :=
  SL [ofLnat ps; rows_sx k self ps t].

Definition status_of (p : party) : nat :=
  match p_main p with MDone => 0 | MErr _ => 1 | _ => 2 end.

(* the slot of party [o]'s table that holds link [l] *)
Definition find_slot (k : nat) (p : party) (l : nat) : option (nat * nat) :=
  let cands := flat_map (fun j => map (fun c => (j, c)) (seq 0 k)) (p_peers p) in
  find (fun jc => match p_conns p (fst jc) (snd jc) with Some l' => l' =? l | None => false end) cands.

Definition pings_sx (k : nat) (st : state) (i : nat) : sx :=
  let p := g_party st i in
  SL (flat_map (fun j =>
        if j =? i then [] else
        flat_map (fun c =>
          match p_conns p j c with
          | None => []
          | Some l =>
              let r := g_link st l in
              let o := if l_from r =? i then l_to r else l_from r in
              let po := g_party st o in
              let tok := if status_of po =? 0 then
                           match find_slot k po l with
                           | Some (j', c') => SL [ofnat o; ofnat j'; ofnat c']
                           | None => SL []
                           end
                         else SL [] in
              [SL [ofnat j; ofnat c; tok]]
          end) (seq 0 k)) (p_peers p)).

Definition party_sx (k : nat) (st : state) (i : nat) : sx :=
  let p := g_party st i in
  let ok := status_of p =? 0 in
  SL [ofnat (status_of p);
      match p_ret p with
      | Some (ps, t) => if ok then tab_sx k i ps t else SL []
      | None => SL []
      end;
      tab_sx k i (p_peers p) (p_conns p);
      if ok then pings_sx k st i else SL []].

(* wire cases (Proto/MeshWire.v): input = (0 n k self addr netinfo (in ...)):
   ONE real party [self] of an n-party, k-connection mesh among peers scripted by
   the harness over raw TCP; addr = its own address, netinfo = the bytes the
   scripted leader answers (() for self = 0), in = the bytes the harness writes
   on the i-th connection it opens to the party's listener.
   output = (status hello0 ((c target bytes) ...) ((peer bytes) ...)): Connect's
   status, the first bytes the party wrote on its Join link, for every dial it
   made the connection id, the dialled party and the first bytes written, and
   (leader) the network info received by every scripted peer. *)
Definition run_wire (inp : sx) : sx :=
  let n := getnat (nthx 1 inp) in
  let k := getnat (nthx 2 inp) in
  let self := getnat (nthx 3 inp) in
  let o := wire_party n k self (getLN (nthx 4 inp)) (getLN (nthx 5 inp)) (map getLN (getL (nthx 6 inp))) in
  SL [ofnat (w_status o); ofLN (w_hello0 o);
      SL (map (fun d => SL [ofnat (fst (fst d)); ofnat (snd (fst d)); ofLN (snd d)]) (w_dials o));
      SL (map (fun p => SL [ofnat (fst p); ofLN (snd p)]) (w_infos o))].

Definition run_c19 (inp : sx) : sx :=
  if getnat (nthx 0 inp) =? 0 then run_wire inp else
  let n := getnat (nthx 0 inp) in
  let k := getnat (nthx 1 inp) in
  let order := getLnat (nthx 2 inp) in
  let freeze := getnat (nthx 3 inp) in
  if (n <? 2) || (k <? 1) || (64 <? n) || (256 <? k) then sx_err 1 else
  let st := run_from true n k (init n) (policy_sched true n k order freeze) in
  SL (map (party_sx k st) (seq 0 n)).
