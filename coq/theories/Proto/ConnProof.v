(* ConnProof.v — theorems about the model of p2p.Conn (Proto/Conn.v).

   A. sender:   everything the sender has produced (written chunks ++ buffer)
                is the concatenation of the encodings of the sent values;
                flushes change the chunking only; Sent/Flushed counters.
   B. receiver: under the window invariant the typed receives compute the
                abstract parser on (window ++ rest of the stream), for every
                segmentation of the stream; the only possible error is EOF
                (Fill never spins); Recvd counts the bytes pulled.
   C. round trip (A + B + codec).
   D. ring:     invariant of the small-step main/writer system.           *)
From Coq Require Import ZArith NArith List Bool Arith Lia ZifyN ZifyNat.
From Mpc Require Import Base.Codec Base.CodecProof Proto.Conn.
Import ListNotations.
Open Scope N_scope.

(* ------------------------------------------------------------ list helpers *)

Lemma nlen_app {A} (a b : list A) : nlen (a ++ b) = nlen a + nlen b.
Proof. unfold nlen. rewrite app_length. lia. Qed.

Lemma nlen_nil {A} : nlen (@nil A) = 0.
Proof. reflexivity. Qed.

Lemma nlen_0 {A} (l : list A) : nlen l = 0 -> l = [].
Proof. unfold nlen. destruct l; cbn; [reflexivity|lia]. Qed.

Lemma nlen_map {A B} (f : A -> B) l : nlen (map f l) = nlen l.
Proof. unfold nlen. rewrite map_length. reflexivity. Qed.

Lemma ntake_ndrop {A} n (l : list A) : ntake n l ++ ndrop n l = l.
Proof. apply firstn_skipn. Qed.

Lemma nlen_ntake {A} n (l : list A) : nlen (ntake n l) = N.min n (nlen l).
Proof. unfold nlen, ntake. rewrite firstn_length. lia. Qed.

Lemma nlen_ndrop {A} n (l : list A) : nlen (ndrop n l) = nlen l - n.
Proof. unfold nlen, ndrop. rewrite skipn_length. lia. Qed.

Lemma ntake_app_le {A} n (a b : list A) : n <= nlen a -> ntake n (a ++ b) = ntake n a.
Proof.
  unfold nlen, ntake. intros H. rewrite firstn_app.
  replace (N.to_nat n - length a)%nat with 0%nat by lia. cbn. apply app_nil_r.
Qed.

Lemma ndrop_app_le {A} n (a b : list A) : n <= nlen a -> ndrop n (a ++ b) = ndrop n a ++ b.
Proof.
  unfold nlen, ndrop. intros H. rewrite skipn_app.
  replace (N.to_nat n - length a)%nat with 0%nat by lia. reflexivity.
Qed.

Lemma ntake_all {A} n (l : list A) : nlen l <= n -> ntake n l = l.
Proof. unfold nlen, ntake. intros H. apply firstn_all2. lia. Qed.

Lemma ndrop_all {A} n (l : list A) : nlen l <= n -> ndrop n l = [].
Proof. unfold nlen, ndrop. intros H. apply skipn_all2. lia. Qed.

Lemma ntake_0 {A} (l : list A) : ntake 0 l = [].
Proof. reflexivity. Qed.

Lemma ndrop_0 {A} (l : list A) : ndrop 0 l = l.
Proof. reflexivity. Qed.

Lemma firstn_add_split {A} : forall a b (l : list A),
  firstn (a + b) l = firstn a l ++ firstn b (skipn a l).
Proof. induction a as [|a IH]; intros b l; [reflexivity|]. destruct l; cbn; [now destruct b|]. now rewrite IH. Qed.

Lemma skipn_add_split {A} : forall a b (l : list A), skipn (a + b) l = skipn b (skipn a l).
Proof. induction a as [|a IH]; intros b l; [reflexivity|]. destruct l; cbn; [now destruct b|]. apply IH. Qed.

Lemma ntake_add {A} a b (l : list A) : ntake (a + b) l = ntake a l ++ ntake b (ndrop a l).
Proof. unfold ntake, ndrop. rewrite N2Nat.inj_add. apply firstn_add_split. Qed.

Lemma ndrop_add {A} a b (l : list A) : ndrop (a + b) l = ndrop b (ndrop a l).
Proof. unfold ndrop. rewrite N2Nat.inj_add. apply skipn_add_split. Qed.

Lemma nlen_rev {A} (l : list A) : nlen (rev l) = nlen l.
Proof. unfold nlen. now rewrite rev_length. Qed.

Lemma nlen_be k x : nlen (be k x) = N.of_nat k.
Proof. unfold nlen. now rewrite be_length. Qed.

(* the encoder only looks at the low k bytes *)
Lemma be_mod k : forall x, be k (x mod 256 ^ N.of_nat k) = be k x.
Proof.
  induction k as [|k IH]; intros x; [reflexivity|].
  cbn [be]. rewrite Nat2N.inj_succ, N.pow_succ_r'.
  assert (H256 : 256 ^ N.of_nat k <> 0) by (apply N.pow_nonzero; lia).
  rewrite N.mod_mul_r by lia.
  set (Y := (x / 256) mod 256 ^ N.of_nat k).
  assert (Hx : x mod 256 < 256) by (apply N.mod_lt; lia).
  assert (H1 : (x mod 256 + 256 * Y) / 256 = Y).
  { rewrite (N.mul_comm 256 Y), N.div_add by lia. rewrite (N.div_small (x mod 256) 256 Hx). reflexivity. }
  assert (H2 : (x mod 256 + 256 * Y) mod 256 = x mod 256).
  { rewrite (N.mul_comm 256 Y), N.mod_add by lia. apply N.mod_small, Hx. }
  rewrite H1, H2. unfold Y. now rewrite IH.
Qed.

(* ================================================================ A. sender *)

Lemma u32_of_Z_lt v : u32_of_Z v < 4294967296.
Proof. unfold u32_of_Z. pose proof (Z.mod_pos_bound v 4294967296 ltac:(lia)). lia. Qed.


Section SenderProofs.
Variables (nbuf wcap : N).
Hypothesis wcap_pos : 0 < wcap.

Notation sender_flush := (flush_buf nbuf).
Notation sstep := (step nbuf wcap).
Notation srun := (run_sender nbuf wcap).

(* all bytes produced so far: the chunks already handed to the writer, then the buffer *)
Definition produced (s : sender) : list N := wire_bytes s ++ s_buf s.

Definition enc_op (o : op) : list N :=
  match value_of o with Some v => encode v | None => [] end.

Lemma wire_bytes_snoc s c b :
  concat (map snd (s_chunks s ++ [(c, b)])) = wire_bytes s ++ b.
Proof. unfold wire_bytes, wire_chunks. rewrite map_app, concat_app. cbn. now rewrite app_nil_r. Qed.

Lemma flush_produced s : produced (sender_flush s) = produced s.
Proof.
  unfold flush_buf, produced. destruct (0 <? wpos s); [|reflexivity].
  unfold wire_bytes, wire_chunks. cbn [s_chunks s_buf]. rewrite wire_bytes_snoc. now rewrite app_nil_r.
Qed.

Lemma flush_wpos s : wpos (sender_flush s) = 0.
Proof.
  unfold flush_buf. destruct (0 <? wpos s) eqn:E; [reflexivity|].
  apply N.ltb_ge in E. lia.
Qed.

Lemma flush_err s : s_err (sender_flush s) = s_err s.
Proof. unfold flush_buf. now destruct (0 <? wpos s). Qed.

Lemma flush_closed s : s_closed (sender_flush s) = s_closed s.
Proof. unfold flush_buf. now destruct (0 <? wpos s). Qed.

Lemma append_produced bs s : produced (append_buf bs s) = produced s ++ bs.
Proof. unfold produced, append_buf, wire_bytes, wire_chunks. cbn. now rewrite app_assoc. Qed.

Lemma put_produced k bs s : produced (put nbuf wcap k bs s) = produced s ++ bs.
Proof.
  unfold put. rewrite append_produced. destruct (wcap <? wpos s + k); [|reflexivity].
  now rewrite flush_produced.
Qed.

Lemma put_flags k bs s :
  s_err (put nbuf wcap k bs s) = s_err s /\ s_closed (put nbuf wcap k bs s) = s_closed s.
Proof.
  unfold put. destruct (wcap <? wpos s + k); cbn; [|tauto].
  now rewrite flush_err, flush_closed.
Qed.

Lemma data_loop_spec : forall fuel d s, (length d <= fuel)%nat ->
  produced (data_loop nbuf wcap fuel d s) = produced s ++ d /\
  s_err (data_loop nbuf wcap fuel d s) = s_err s /\
  s_closed (data_loop nbuf wcap fuel d s) = s_closed s.
Proof.
  induction fuel as [|fuel IH]; intros d s Hf.
  - destruct d; [|cbn in Hf; lia]. cbn. now rewrite app_nil_r.
  - destruct d as [|x d']; [cbn; now rewrite app_nil_r|].
    cbn [data_loop].
    set (s1 := if wcap <=? wpos s then sender_flush s else s).
    assert (Hs1 : produced s1 = produced s /\ s_err s1 = s_err s /\ s_closed s1 = s_closed s /\ wpos s1 < wcap).
    { unfold s1. destruct (wcap <=? wpos s) eqn:E.
      - rewrite flush_produced, flush_err, flush_closed, flush_wpos. tauto.
      - apply N.leb_gt in E. tauto. }
    destruct Hs1 as (Hp & He & Hc & Hw).
    set (n := wcap - wpos s1).
    assert (Hn : 1 <= n) by (unfold n; lia).
    specialize (IH (ndrop n (x :: d')) (append_buf (ntake n (x :: d')) s1)).
    assert (Hlen : (length (ndrop n (x :: d')) <= fuel)%nat).
    { pose proof (nlen_ndrop n (x :: d')) as H. unfold nlen in H. cbn [length] in *. lia. }
    destruct (IH Hlen) as (IHp & IHe & IHc).
    rewrite IHp, IHe, IHc, append_produced, Hp. cbn [append_buf s_err s_closed].
    rewrite <- app_assoc, ntake_ndrop. tauto.
Qed.

Lemma send_data_spec d s :
  produced (send_data nbuf wcap d s) = produced s ++ be 4 (nlen d) ++ d /\
  s_err (send_data nbuf wcap d s) = s_err s /\ s_closed (send_data nbuf wcap d s) = s_closed s.
Proof.
  unfold send_data, send_u32N.
  destruct (data_loop_spec (length d) d (put nbuf wcap 4 (be 4 (nlen d)) s) (le_n _)) as (Hp & He & Hc).
  destruct (put_flags 4 (be 4 (nlen d)) s) as (He' & Hc').
  rewrite Hp, He, Hc, put_produced, <- app_assoc. tauto.
Qed.

Lemma send_sizes_fold : forall l s,
  produced (fold_left (fun s v => send_u32 nbuf wcap v s) l s) = produced s ++ concat (map (be 4) (map u32_of_Z l)) /\
  s_err (fold_left (fun s v => send_u32 nbuf wcap v s) l s) = s_err s /\
  s_closed (fold_left (fun s v => send_u32 nbuf wcap v s) l s) = s_closed s.
Proof.
  induction l as [|v l IH]; intros s; cbn [fold_left map concat]; [now rewrite app_nil_r|].
  destruct (IH (send_u32 nbuf wcap v s)) as (Hp & He & Hc).
  destruct (put_flags 4 (be 4 (u32_of_Z v)) s) as (He' & Hc').
  unfold send_u32 in *. rewrite Hp, He, Hc, put_produced, <- app_assoc. tauto.
Qed.

(* one op appends exactly the encoding of its value, unless the script is
   already outside the domain (op after Close) *)
Lemma step_produced s o :
  s_closed s = false -> s_err s = false ->
  produced (sstep s o) = produced s ++ enc_op o /\ s_err (sstep s o) = false.
Proof.
  intros Hc He. unfold step. rewrite Hc, He. cbn [orb].
  destruct o; unfold enc_op; cbn [value_of encode].
  - unfold send_byte. rewrite put_produced. destruct (put_flags 1 (be 1 b) s) as (-> & _).
    change 256 with (256 ^ N.of_nat 1). now rewrite be_mod.
  - unfold send_u16. rewrite put_produced. destruct (put_flags 2 (be 2 (u32_of_Z v)) s) as (-> & _).
    change 65536 with (256 ^ N.of_nat 2). now rewrite be_mod.
  - unfold send_u32. rewrite put_produced. now destruct (put_flags 4 (be 4 (u32_of_Z v)) s) as (-> & _).
  - destruct (send_data_spec d s) as (-> & -> & _). tauto.
  - destruct (send_data_spec d s) as (-> & -> & _). tauto.
  - unfold send_label. rewrite put_produced. destruct (put_flags 16 (be 16 l) s) as (-> & _).
    change (2 ^ 128) with (256 ^ N.of_nat 16). now rewrite be_mod.
  - unfold send_sizes, send_u32N.
    destruct (send_sizes_fold l (put nbuf wcap 4 (be 4 (nlen l)) s)) as (-> & -> & _).
    destruct (put_flags 4 (be 4 (nlen l)) s) as (-> & _).
    rewrite put_produced, nlen_map, <- app_assoc. tauto.
  - rewrite flush_produced, flush_err, app_nil_r. tauto.
  - unfold close_conn, produced, wire_bytes, wire_chunks. cbn [s_chunks s_buf s_err].
    fold (wire_chunks (sender_flush s)). fold (wire_bytes (sender_flush s)). fold (produced (sender_flush s)).
    rewrite flush_produced, flush_err, app_nil_r. tauto.
  - rewrite put_produced. now destruct (put_flags n bs s) as (-> & _).
Qed.

Lemma step_err_sticky s o : s_err s = true -> s_err (sstep s o) = true.
Proof. intros H. unfold step. rewrite H, orb_true_r. reflexivity. Qed.

Lemma fold_err_sticky : forall ops s, s_err s = true -> s_err (fold_left sstep ops s) = true.
Proof. induction ops as [|o ops IH]; intros s H; cbn; [assumption|]. apply IH, step_err_sticky, H. Qed.

Lemma step_closed_err s o : s_closed s = true -> s_err (sstep s o) = true.
Proof. intros H. unfold step. rewrite H. reflexivity. Qed.

Lemma fold_produced : forall ops s, s_err s = false -> s_err (fold_left sstep ops s) = false ->
  produced (fold_left sstep ops s) = produced s ++ concat (map encode (values_of ops)).
Proof.
  induction ops as [|o ops IH]; intros s He Hend; cbn [fold_left values_of map concat]; [now rewrite app_nil_r|].
  cbn [fold_left] in Hend.
  destruct (s_closed s) eqn:Hc.
  { pose proof (fold_err_sticky ops _ (step_closed_err s o Hc)). congruence. }
  destruct (step_produced s o Hc He) as (Hp & He').
  rewrite (IH _ He' Hend), Hp. unfold enc_op.
  destruct (value_of o); cbn [map concat]; now rewrite <- app_assoc.
Qed.

(* (1) the bytes produced by any op sequence are the concatenation of the
   per-value encodings *)
Theorem produced_is_concat ops :
  s_err (srun ops) = false ->
  wire_bytes (srun ops) ++ s_buf (srun ops) = concat (map encode (values_of ops)).
Proof. intros H. unfold run_sender in *. apply (fold_produced ops (s_init) eq_refl H). Qed.

(* scripts inside the domain: Close, if present, is the last op *)
Fixpoint close_only_last (ops : list op) : Prop :=
  match ops with
  | [] => True
  | OClose :: rest => rest = []
  | _ :: rest => close_only_last rest
  end.

Lemma fold_no_err : forall ops s, s_closed s = false -> s_err s = false -> close_only_last ops ->
  s_err (fold_left sstep ops s) = false.
Proof.
  induction ops as [|o ops IH]; intros s Hc He Hw; cbn [fold_left]; [assumption|].
  destruct (step_produced s o Hc He) as (_ & He').
  assert (Hcl : o <> OClose -> s_closed (sstep s o) = false).
  { intros Ho. unfold step. rewrite Hc, He. cbn [orb].
    destruct o; try congruence.
    - unfold send_byte. now destruct (put_flags 1 (be 1 b) s) as (_ & ->).
    - unfold send_u16. now destruct (put_flags 2 (be 2 (u32_of_Z v)) s) as (_ & ->).
    - unfold send_u32. now destruct (put_flags 4 (be 4 (u32_of_Z v)) s) as (_ & ->).
    - now destruct (send_data_spec d s) as (_ & _ & ->).
    - now destruct (send_data_spec d s) as (_ & _ & ->).
    - unfold send_label. now destruct (put_flags 16 (be 16 l) s) as (_ & ->).
    - unfold send_sizes, send_u32N.
      destruct (send_sizes_fold l (put nbuf wcap 4 (be 4 (nlen l)) s)) as (_ & _ & ->).
      now destruct (put_flags 4 (be 4 (nlen l)) s) as (_ & ->).
    - now rewrite flush_closed.
    - now destruct (put_flags n bs s) as (_ & ->). }
  destruct o; try (apply IH; [apply Hcl; discriminate|assumption|exact Hw]).
  cbn in Hw. subst ops. cbn. exact He'.
Qed.

Lemma run_no_err ops : close_only_last ops -> s_err (srun ops) = false.
Proof. intros H. apply fold_no_err; [reflexivity|reflexivity|exact H]. Qed.

(* (1) stated for scripts in the domain *)
Theorem stream_is_concat ops : close_only_last ops ->
  wire_bytes (srun ops) ++ s_buf (srun ops) = concat (map encode (values_of ops)).
Proof. intros H. apply produced_is_concat, run_no_err, H. Qed.

(* the script ends with Flush or Close *)
Definition ends_flushed (ops : list op) : Prop :=
  exists ops', ops = ops' ++ [OFlush] \/ ops = ops' ++ [OClose].

Lemma run_ends_flushed ops : ends_flushed ops -> s_err (srun ops) = false -> s_buf (srun ops) = [].
Proof.
  intros (ops' & H) He. unfold run_sender in *.
  assert (Hlast : forall o, (o = OFlush \/ o = OClose) -> s_err (fold_left sstep (ops' ++ [o]) s_init) = false ->
            s_buf (fold_left sstep (ops' ++ [o]) s_init) = []).
  { intros o Ho. rewrite fold_left_app. cbn [fold_left]. set (s := fold_left sstep ops' s_init).
    intros He'. unfold step in *. destruct (s_closed s || s_err s); [cbn in He'; discriminate|].
    apply nlen_0.
    destruct Ho; subst o.
    - apply flush_wpos.
    - unfold close_conn. cbn [s_buf]. apply flush_wpos. }
  destruct H; subst ops; apply Hlast; auto.
Qed.

(* (1') for scripts ending in Flush/Close the transport carries exactly the
   concatenation of the encodings: flush placement changes the chunking only *)
Theorem wire_is_concat ops :
  close_only_last ops -> ends_flushed ops ->
  wire_bytes (srun ops) = concat (map encode (values_of ops)).
Proof.
  intros Hw Hf. pose proof (run_no_err ops Hw) as He.
  rewrite <- (produced_is_concat ops He), (run_ends_flushed ops Hf He). now rewrite app_nil_r.
Qed.

(* --- counters and chunk shape: an invariant of every reachable sender state *)

Record SInv (s : sender) : Prop := {
  si_sent : s_sent s = nlen (wire_bytes s);
  si_flushed : s_flushed s = nlen (s_chunks s);
  si_chunks : Forall (fun c => 0 < nlen (snd c) <= wcap) (s_chunks s);
  si_pos : wpos s <= wcap
}.

Lemma SInv_init : SInv s_init.
Proof. split; cbn; try reflexivity; [constructor|lia]. Qed.

Lemma SInv_flush s : SInv s -> SInv (sender_flush s).
Proof.
  intros [H1 H2 H3 H4]. unfold flush_buf. destruct (0 <? wpos s) eqn:E; [|split; assumption].
  apply N.ltb_lt in E. split; cbn [s_sent s_flushed s_chunks s_buf wpos].
  - unfold wire_bytes, wire_chunks. cbn [s_chunks]. rewrite wire_bytes_snoc, nlen_app, H1. reflexivity.
  - rewrite nlen_app, H2. reflexivity.
  - apply Forall_app. split; [assumption|]. constructor; [|constructor]. cbn. unfold wpos in *. lia.
  - unfold wpos. cbn. lia.
Qed.

Lemma SInv_append bs s : SInv s -> wpos s + nlen bs <= wcap -> SInv (append_buf bs s).
Proof.
  intros [H1 H2 H3 H4] Hb. split; cbn [append_buf s_sent s_flushed s_chunks]; try assumption.
  unfold wpos in *. cbn [append_buf s_buf]. rewrite nlen_app. lia.
Qed.

Lemma SInv_put k bs s : SInv s -> nlen bs = k -> k <= wcap -> SInv (put nbuf wcap k bs s).
Proof.
  intros Hs Hk Hle. unfold put. destruct (wcap <? wpos s + k) eqn:E.
  - apply SInv_append; [now apply SInv_flush|]. rewrite flush_wpos. lia.
  - apply N.ltb_ge in E. apply SInv_append; [assumption|lia].
Qed.

Lemma SInv_put_le k bs s : SInv s -> nlen bs <= k -> k <= wcap -> SInv (put nbuf wcap k bs s).
Proof.
  intros Hs Hk Hle. unfold put. destruct (wcap <? wpos s + k) eqn:E.
  - apply SInv_append; [now apply SInv_flush|]. rewrite flush_wpos. lia.
  - apply N.ltb_ge in E. apply SInv_append; [assumption|lia].
Qed.

(* domain of the in-place write op: the caller stores at most the n bytes it asked
   NeedSpace for, and n fits a buffer (otherwise the Go code indexes past the buffer) *)
Definition raw_fits (o : op) : Prop :=
  match o with ORaw n bs => nlen bs <= n /\ n <= wcap | _ => True end.

Lemma SInv_data_loop : forall fuel d s, SInv s -> SInv (data_loop nbuf wcap fuel d s).
Proof.
  induction fuel as [|fuel IH]; intros d s Hs; destruct d as [|x d']; cbn [data_loop]; try assumption.
  - destruct Hs. split; assumption.
  - apply IH. set (s1 := if wcap <=? wpos s then sender_flush s else s).
    assert (Hs1 : SInv s1 /\ wpos s1 <= wcap).
    { unfold s1. destruct (wcap <=? wpos s); [split; [now apply SInv_flush|rewrite flush_wpos; lia]|split; [assumption|apply Hs]]. }
    apply SInv_append; [tauto|]. rewrite nlen_ntake. lia.
Qed.

Section WithMin.
Hypothesis wcap_min : 16 <= wcap.   (* the largest fixed-size value (a label) fits in a buffer *)

Lemma SInv_step s o : raw_fits o -> SInv s -> SInv (sstep s o).
Proof.
  intros Hfit Hs. unfold step. destruct (s_closed s || s_err s).
  { destruct Hs. split; assumption. }
  destruct o.
  - apply SInv_put; [assumption|apply nlen_be|lia].
  - apply SInv_put; [assumption|apply nlen_be|lia].
  - apply SInv_put; [assumption|apply nlen_be|lia].
  - apply SInv_data_loop, SInv_put; [assumption|apply nlen_be|lia].
  - apply SInv_data_loop, SInv_put; [assumption|apply nlen_be|lia].
  - apply SInv_put; [assumption|apply nlen_be|lia].
  - unfold send_sizes.
    assert (H : forall l s, SInv s -> SInv (fold_left (fun s v => send_u32 nbuf wcap v s) l s)).
    { induction l0 as [|v l0 IH]; intros s0 Hs0; cbn; [assumption|].
      apply IH, SInv_put; [assumption|apply nlen_be|lia]. }
    apply H, SInv_put; [assumption|apply nlen_be|lia].
  - now apply SInv_flush.
  - pose proof (SInv_flush s Hs) as [H1 H2 H3 H4]. unfold close_conn. split; assumption.
  - cbn in Hfit. apply SInv_put_le; [assumption|apply Hfit|apply Hfit].
Qed.

(* (4, sender half) after any op sequence: Stats.Sent = number of bytes handed
   to the writer, Stats.Flushed = number of chunks, every chunk is non-empty
   and at most one buffer long *)
Theorem sender_counters ops : Forall raw_fits ops ->
  let s := srun ops in
  s_sent s = nlen (wire_bytes s) /\ s_flushed s = nlen (s_chunks s) /\
  Forall (fun c => 0 < nlen (snd c) <= wcap) (s_chunks s).
Proof.
  intros Hfit. cbn. assert (H : forall ops s, Forall raw_fits ops -> SInv s -> SInv (fold_left sstep ops s)).
  { induction ops0 as [|o ops0 IH]; intros s Hf Hs; cbn; [assumption|].
    inversion Hf; subst. apply IH; [assumption|]. apply SInv_step; assumption. }
  destruct (H ops s_init Hfit SInv_init). tauto.
Qed.

End WithMin.
End SenderProofs.

(* the counters alone need no size hypothesis: after ANY op sequence (in-place
   writes included) Sent = bytes handed to the writer, Flushed = number of
   chunks, no chunk is empty *)
Section Counters.
Variables (nbuf wcap : N).

Record KInv (s : sender) : Prop := {
  ki_sent : s_sent s = nlen (wire_bytes s);
  ki_flushed : s_flushed s = nlen (s_chunks s);
  ki_chunks : Forall (fun c => 0 < nlen (snd c)) (s_chunks s)
}.

Lemma KInv_flush s : KInv s -> KInv (flush_buf nbuf s).
Proof.
  intros [H1 H2 H3]. unfold flush_buf. destruct (0 <? wpos s) eqn:E; [|split; assumption].
  apply N.ltb_lt in E. split; cbn [s_sent s_flushed s_chunks].
  - unfold wire_bytes, wire_chunks. cbn [s_chunks]. rewrite wire_bytes_snoc, nlen_app, H1. reflexivity.
  - rewrite nlen_app, H2. reflexivity.
  - apply Forall_app. split; [assumption|]. constructor; [|constructor]. exact E.
Qed.

Lemma KInv_run ops : KInv (run_sender nbuf wcap ops).
Proof.
  assert (Hput : forall k bs s, KInv s -> KInv (put nbuf wcap k bs s)).
  { intros k bs s Hs. unfold put. set (s1 := if wcap <? wpos s + k then flush_buf nbuf s else s).
    assert (Hs1 : KInv s1) by (unfold s1; destruct (wcap <? wpos s + k); [now apply KInv_flush|assumption]).
    destruct Hs1. split; assumption. }
  assert (Hdl : forall fuel d s, KInv s -> KInv (data_loop nbuf wcap fuel d s)).
  { induction fuel as [|fuel IH]; intros d s Hs; destruct d as [|x d']; cbn [data_loop]; try assumption.
    - destruct Hs. split; assumption.
    - apply IH. set (s1 := if wcap <=? wpos s then flush_buf nbuf s else s).
      assert (Hs1 : KInv s1) by (unfold s1; destruct (wcap <=? wpos s); [now apply KInv_flush|assumption]).
      destruct Hs1. split; assumption. }
  assert (Hfold : forall l s, KInv s -> KInv (fold_left (fun s v => send_u32 nbuf wcap v s) l s)).
  { induction l as [|v l IH]; intros s Hs; cbn; [assumption|]. apply IH. now apply Hput. }
  assert (Hstep : forall s o, KInv s -> KInv (step nbuf wcap s o)).
  { intros s o Hs. unfold step. destruct (s_closed s || s_err s); [destruct Hs; split; assumption|].
    destruct o; try (now apply Hput); try (apply Hdl; now apply Hput).
    - apply Hfold. now apply Hput.
    - now apply KInv_flush.
    - pose proof (KInv_flush s Hs) as [H1 H2 H3]. unfold close_conn. split; assumption. }
  unfold run_sender.
  assert (H : forall ops s, KInv s -> KInv (fold_left (step nbuf wcap) ops s)).
  { induction ops0 as [|o ops0 IH]; intros s Hs; cbn; auto. }
  apply H. split; cbn; try reflexivity. constructor.
Qed.

End Counters.

(* ============================================================== B. receiver *)

Lemma firstn_skipn_len {A} n (l : list A) : firstn n l ++ skipn (length (firstn n l)) l = l.
Proof.
  rewrite firstn_length. destruct (le_lt_dec n (length l)) as [H|H].
  - rewrite Nat.min_l by assumption. apply firstn_skipn.
  - rewrite Nat.min_r by lia. rewrite skipn_all, firstn_all2 by lia. apply app_nil_r.
Qed.

Lemma tread_spec t cap : 0 < cap ->
  forall got eof t', tread t cap = (got, eof, t') ->
  got ++ t_stream t' = t_stream t /\ nlen got <= cap /\
  (eof = false -> 1 <= nlen got) /\ (eof = true -> t_stream t' = []).
Proof.
  intros Hc got eof t'. unfold tread. destruct (t_stream t) as [|x l] eqn:E.
  - intros H. injection H as <- <- <-. rewrite E. cbn. repeat split; try lia; try congruence.
  - intros H. injection H as Hg He Ht. subst t'. cbn [t_stream].
    set (seg := match t_frags t with [] => cap | f :: _ => N.max 1 f end) in *.
    assert (Hseg : 1 <= seg) by (unfold seg; destruct (t_frags t); lia).
    subst got. split; [|split; [|split]].
    + unfold ndrop, ntake, nlen. rewrite Nat2N.id. apply firstn_skipn_len.
    + rewrite nlen_ntake. lia.
    + intros _. rewrite nlen_ntake. unfold nlen. cbn [length]. lia.
    + intros ->. apply andb_true_iff in He. destruct He as (_ & He).
      destruct (ndrop _ _); [reflexivity|discriminate].
Qed.

Section ReceiverProofs.
Variable rcap : N.

(* the bytes the receiver has not yet delivered: its window, then what the transport still holds *)
Definition all (r : receiver) : list N := r_win r ++ t_stream (r_t r).

(* the window invariant *)
Record RInv (r : receiver) : Prop := {
  ri_end : r_end r = r_start r + nlen (r_win r);
  ri_cap : r_end r <= rcap
}.

(* Recvd grows by exactly the bytes pulled from the transport *)
Definition pulled (r r' : receiver) : Prop :=
  r_recvd r' + nlen (t_stream (r_t r')) = r_recvd r + nlen (t_stream (r_t r)).

Lemma pulled_refl r : pulled r r. Proof. reflexivity. Qed.
Lemma pulled_trans a b c : pulled a b -> pulled b c -> pulled a c.
Proof. unfold pulled. lia. Qed.

Lemma RInv_init t : RInv (r_init t).
Proof. split; cbn; lia. Qed.

Lemma rev_append_nil {A} (l : list A) : rev_append l [] = rev l.
Proof. rewrite rev_append_rev. apply app_nil_r. Qed.

Lemma fill_loop_spec : forall fuel n r acc,
  r_end r = r_start r + nlen (r_win r) + nlen acc -> r_end r <= rcap ->
  forall r' e, fill_loop rcap fuel n r acc = (r', e) ->
    RInv r' /\ r_start r' = r_start r /\
    all r' = r_win r ++ rev acc ++ t_stream (r_t r) /\
    pulled r r' /\
    (e = None -> r_start r + n <= r_end r') /\
    (e = Some ESpin -> rcap < r_start r + n) /\
    (e = Some EFuel -> N.of_nat fuel + r_end r < r_start r + n) /\
    (e = Some EEOF -> r_end r' < r_start r + n /\ t_stream (r_t r') = []).
Proof.
  assert (Hcommit : forall r acc, r_end r = r_start r + nlen (r_win r) + nlen acc -> r_end r <= rcap ->
            RInv (commit r acc) /\ all (commit r acc) = r_win r ++ rev acc ++ t_stream (r_t r)).
  { intros r acc H1 H2. split.
    - split; cbn [commit r_end r_start r_win]; [|assumption].
      rewrite rev_append_nil, nlen_app, nlen_rev. lia.
    - unfold all. cbn [commit r_win r_t]. now rewrite rev_append_nil, <- app_assoc. }
  induction fuel as [|fuel IH]; intros n r acc H1 H2 r' e.
  - cbn [fill_loop]. destruct (r_start r + n <=? r_end r) eqn:E; intros H; injection H as <- <-;
      destruct (Hcommit r acc H1 H2) as (Hi & Ha); (repeat split; try apply Hi; try exact Ha; try congruence).
    + apply N.leb_le in E. cbn. lia.
    + apply N.leb_gt in E. cbn. lia.
  - cbn [fill_loop]. destruct (r_start r + n <=? r_end r) eqn:E.
    { intros H; injection H as <- <-. destruct (Hcommit r acc H1 H2) as (Hi & Ha).
      apply N.leb_le in E. repeat split; try apply Hi; try exact Ha; try congruence. intros _. cbn. lia. }
    apply N.leb_gt in E.
    destruct (rcap <=? r_end r) eqn:Ec.
    { intros H; injection H as <- <-. destruct (Hcommit r acc H1 H2) as (Hi & Ha).
      apply N.leb_le in Ec. repeat split; try apply Hi; try exact Ha; try congruence. intros _. lia. }
    apply N.leb_gt in Ec.
    destruct (tread (r_t r) (rcap - r_end r)) as [[got eof] t'] eqn:Et.
    assert (Hcap : 0 < rcap - r_end r) by lia.
    destruct (tread_spec _ _ Hcap _ _ _ Et) as (Hs & Hg & Hne & Heof).
    cbn zeta.
    assert (P1 : r_end r + nlen got = r_start r + nlen (r_win r) + nlen (rev_append got acc)).
    { rewrite rev_append_rev, nlen_app, nlen_rev. lia. }
    assert (P2 : r_end r + nlen got <= rcap) by lia.
    destruct eof.
    + (* the Read reported EOF, possibly together with its last bytes *)
      set (r2 := mkR (r_start r) (r_end r + nlen got) (r_win r) (r_recvd r + nlen got) t').
      destruct (Hcommit r2 (rev_append got acc) P1 P2) as (Hi & Ha).
      assert (Hall : all (commit r2 (rev_append got acc)) = r_win r ++ rev acc ++ t_stream (r_t r)).
      { rewrite Ha. unfold r2. cbn [r_win r_t]. rewrite rev_append_rev, rev_app_distr, rev_involutive, <- Hs.
        now rewrite <- !app_assoc. }
      assert (Hp : pulled r (commit r2 (rev_append got acc))).
      { unfold pulled, commit, r2. cbn [r_recvd r_t]. rewrite <- Hs, nlen_app. lia. }
      destruct (r_start r2 + n <=? r_end r2) eqn:E2; unfold r2 in E2; cbn [r_start r_end] in E2;
        intros H; injection H as <- <-.
      * apply N.leb_le in E2. repeat split; try apply Hi; try assumption; try congruence.
        intros _. exact E2.
      * apply N.leb_gt in E2. repeat split; try apply Hi; try assumption; try congruence;
          try (cbn; exact E2); try (apply Heof; reflexivity).
    + specialize (Hne eq_refl). intros H.
      apply IH in H; cbn [r_start r_end r_win r_recvd r_t]; [|exact P1|exact P2].
      cbn [r_start r_end r_win r_recvd r_t] in H.
      destruct H as (Hi & Hst & Hall & Hp & Hn & Hsp & Hf & He).
      repeat split; try apply Hi; try assumption.
      * rewrite Hall, rev_append_rev, rev_app_distr, rev_involutive, <- Hs. now rewrite <- !app_assoc.
      * unfold pulled in *. cbn [r_recvd r_t] in Hp. rewrite Hp, <- Hs, nlen_app. lia.
      * intros Hx. specialize (Hf Hx). lia.
      * apply He; assumption.
      * apply He; assumption.
Qed.

Lemma fill_spec n r : RInv r ->
  forall r' e, fill rcap n r = (r', e) ->
    RInv r' /\ r_start r' = 0 /\ all r' = all r /\ pulled r r' /\
    (e = None -> n <= nlen (r_win r')) /\
    (e = Some ESpin -> rcap < n) /\
    e <> Some EFuel /\
    (e = Some EEOF -> nlen (all r) < n).
Proof.
  intros [Hend Hcap] r' e. unfold fill.
  set (r1 := if r_start r <? r_end r then mkR 0 (r_end r - r_start r) (r_win r) (r_recvd r) (r_t r)
             else mkR 0 0 [] (r_recvd r) (r_t r)).
  assert (H1 : r_end r1 = r_start r1 + nlen (r_win r1) + nlen (@nil N) /\ r_end r1 <= rcap /\
               r_start r1 = 0 /\ r_win r1 ++ rev [] ++ t_stream (r_t r1) = all r /\ pulled r r1).
  { unfold r1, all, pulled. destruct (r_start r <? r_end r) eqn:E; cbn.
    - apply N.ltb_lt in E. repeat split; lia.
    - apply N.ltb_ge in E. assert (r_win r = []) by (apply nlen_0; lia).
      rewrite H. repeat split; lia. }
  destruct H1 as (Ha & Hb & Hc & Hd & Hp).
  intros H. apply (fill_loop_spec _ _ _ _ Ha Hb) in H.
  destruct H as (Hi & Hst & Hall & Hp' & Hn & Hsp & Hf & He).
  rewrite Hc in *.
  split; [exact Hi|]. split; [assumption|]. split; [rewrite Hall; exact Hd|].
  split; [eapply pulled_trans; eassumption|].
  split; [intros Hx; specialize (Hn Hx); destruct Hi as [Hi1 _]; lia|].
  split; [intros Hx; specialize (Hsp Hx); lia|].
  split; [intros Hx; specialize (Hf Hx); lia|].
  intros Hx. destruct (He Hx) as (He1 & He2). rewrite <- Hd, <- Hall. unfold all. rewrite He2, app_nil_r.
  destruct Hi as [Hi1 _]. lia.
Qed.

(* outcome of a receive against the abstract parser's verdict on (window ++ rest) *)
Definition refines {A} (r : receiver) (out : receiver * (A + rerr)) (p : option (A * list N)) : Prop :=
  RInv (fst out) /\ pulled r (fst out) /\
  match p with
  | Some (v, rest) => snd out = inl v /\ all (fst out) = rest
  | None => snd out = inr EEOF
  end.

Lemma consume_spec k r : RInv r -> k <= nlen (r_win r) ->
  RInv (consume k r) /\ all (consume k r) = ndrop k (all r) /\ pulled r (consume k r) /\
  ntake k (r_win r) = ntake k (all r).
Proof.
  intros [H1 H2] Hk. unfold all, pulled, consume. cbn. repeat split; cbn.
  - rewrite nlen_ndrop. lia.
  - assumption.
  - now rewrite ndrop_app_le.
  - now rewrite ntake_app_le.
Qed.

Lemma recv_fixed_refines k r : RInv r -> k <= rcap ->
  refines r (recv_fixed rcap k r) (parse_fixed k (all r)).
Proof.
  intros Hr Hk. unfold recv_fixed, parse_fixed, refines.
  destruct (r_end r <? r_start r + k) eqn:E.
  - destruct (fill rcap k r) as [r1 e] eqn:F.
    destruct (fill_spec _ _ Hr _ _ F) as (Hi & Hst & Hall & Hp & Hn & Hsp & Hf & He).
    destruct e as [[| |]|].
    + specialize (He eq_refl). apply N.leb_gt in He. rewrite He. cbn. rewrite <- Hall in He. tauto.
    + specialize (Hsp eq_refl). lia.
    + congruence.
    + specialize (Hn eq_refl). destruct (consume_spec k r1 Hi Hn) as (Hi' & Ha' & Hp' & Ht).
      assert (Hle : k <=? nlen (all r) = true).
      { apply N.leb_le. rewrite <- Hall. unfold all. rewrite nlen_app. lia. }
      rewrite Hle. cbn [fst snd]. rewrite Ht, Ha', Hall. repeat split; try apply Hi'.
      eapply pulled_trans; eassumption.
  - apply N.ltb_ge in E. destruct Hr as [H1 H2].
    assert (Hn : k <= nlen (r_win r)) by lia.
    destruct (consume_spec k r (Build_RInv _ H1 H2) Hn) as (Hi' & Ha' & Hp' & Ht).
    assert (Hle : k <=? nlen (all r) = true).
    { apply N.leb_le. unfold all. rewrite nlen_app. lia. }
    rewrite Hle. cbn [fst snd]. rewrite Ht, Ha'. repeat split; try apply Hi'; try assumption.
Qed.

Lemma recv_num_refines k r : RInv r -> k <= rcap ->
  refines r (recv_num rcap k r) (parse_num k (all r)).
Proof.
  intros Hr Hk. pose proof (recv_fixed_refines k r Hr Hk) as H.
  unfold recv_num, parse_num, refines in *.
  destruct (recv_fixed rcap k r) as [r1 [bs|e]]; destruct (parse_fixed k (all r)) as [[bs' rest]|];
    cbn [fst snd] in *; destruct H as (Hi & Hp & H); repeat split; try apply Hi; try assumption;
    try (destruct H as (H & H'); congruence); try congruence.
Qed.

Lemma rdata_loop_spec : forall fuel need acc r, RInv r -> 1 <= rcap -> need <= N.of_nat fuel ->
  forall r' res, rdata_loop rcap fuel need acc r = (r', res) ->
    RInv r' /\ pulled r r' /\
    match res with
    | inl d => need <= nlen (all r) /\ d = acc ++ ntake need (all r) /\ all r' = ndrop need (all r)
    | inr e => e = EEOF /\ nlen (all r) < need
    end.
Proof.
  induction fuel as [|fuel IH]; intros need acc r Hr Hc Hf r' res.
  - assert (need = 0) by lia. subst need. cbn. intros H; injection H as <- <-.
    repeat split; try apply Hr; try lia. now rewrite app_nil_r.
  - cbn [rdata_loop]. destruct (need =? 0) eqn:E0.
    { apply N.eqb_eq in E0. subst need. intros H; injection H as <- <-.
      repeat split; try apply Hr; try lia. now rewrite app_nil_r. }
    apply N.eqb_neq in E0.
    (* after the optional Fill: invariant, same bytes, non-empty window *)
    assert (Hstep : forall r1, RInv r1 -> all r1 = all r -> pulled r r1 -> 1 <= nlen (r_win r1) ->
              rdata_loop rcap fuel (need - N.min (r_end r1 - r_start r1) need)
                (acc ++ ntake (N.min (r_end r1 - r_start r1) need) (r_win r1))
                (consume (N.min (r_end r1 - r_start r1) need) r1) = (r', res) ->
              RInv r' /\ pulled r r' /\
              match res with
              | inl d => need <= nlen (all r) /\ d = acc ++ ntake need (all r) /\ all r' = ndrop need (all r)
              | inr e => e = EEOF /\ nlen (all r) < need
              end).
    { intros r1 Hi Hall Hp Hw. pose proof Hi as [Hi1 Hi2].
      set (avail := N.min (r_end r1 - r_start r1) need).
      assert (Hav : 1 <= avail /\ avail <= nlen (r_win r1) /\ avail <= need) by (unfold avail; lia).
      destruct (consume_spec avail r1 Hi ltac:(lia)) as (Hi' & Ha' & Hp' & Ht).
      intros H. apply IH in H; [|assumption|assumption|lia].
      destruct H as (Hi'' & Hp'' & H).
      assert (Hla : avail <= nlen (all r)) by (rewrite <- Hall; unfold all; rewrite nlen_app; lia).
      split; [assumption|]. split; [eapply pulled_trans; [|eassumption]; eapply pulled_trans; eassumption|].
      rewrite Ha', Hall, nlen_ndrop in H. destruct res as [d|e].
      - destruct H as (H1 & H2 & H3). split; [lia|]. split.
        + assert (Hn : ntake need (all r) = ntake avail (all r) ++ ntake (need - avail) (ndrop avail (all r))).
          { rewrite <- ntake_add. f_equal. lia. }
          rewrite H2, Ht, Hall, Hn, <- app_assoc. reflexivity.
        + rewrite H3, <- ndrop_add. f_equal. lia.
      - destruct H as (H1 & H2). split; [assumption|lia]. }
    destruct (r_end r <=? r_start r) eqn:E.
    + destruct (fill rcap (N.min need rcap) r) as [r1 e] eqn:F.
      destruct (fill_spec _ _ Hr _ _ F) as (Hi & Hst & Hall & Hp & Hn & Hsp & Hfu & He).
      destruct e as [[| |]|].
      * intros H; injection H as <- <-. specialize (He eq_refl). repeat split; try apply Hi; try assumption. lia.
      * specialize (Hsp eq_refl). lia.
      * congruence.
      * specialize (Hn eq_refl). apply Hstep; try assumption. lia.
    + apply N.leb_gt in E. apply Hstep; try assumption; try reflexivity.
      destruct Hr as [H1 H2]. lia.
Qed.

Lemma recv_data_refines r : RInv r -> 4 <= rcap ->
  refines r (recv_data rcap r) (parse_data (all r)).
Proof.
  intros Hr Hk. pose proof (recv_num_refines 4 r Hr Hk) as H.
  unfold recv_data, parse_data, refines in *.
  destruct (recv_num rcap 4 r) as [r1 [len|e]]; destruct (parse_num 4 (all r)) as [[len' rest]|];
    cbn [fst snd] in *; destruct H as (Hi & Hp & H).
  - destruct H as (H1 & H2). injection H1 as <-.
    destruct (rdata_loop rcap (N.to_nat len) len [] r1) as [r2 res] eqn:L.
    apply rdata_loop_spec in L; [|assumption|lia|lia].
    destruct L as (Hi2 & Hp2 & L). cbn [fst snd]. split; [assumption|].
    split; [eapply pulled_trans; eassumption|].
    rewrite H2 in L. unfold parse_fixed. destruct res as [d|e].
    + destruct L as (L1 & L2 & L3). apply N.leb_le in L1. rewrite L1. cbn in L2. subst d. tauto.
    + destruct L as (L1 & L2). apply N.leb_gt in L2. rewrite L2. congruence.
  - congruence.
  - destruct H; congruence.
  - split; [exact Hi|split; [exact Hp|congruence]].
Qed.

Lemma rsizes_loop_spec : forall count acc r, RInv r -> 4 <= rcap ->
  refines r (rsizes_loop rcap count acc r)
    (match parse_nums count (all r) with Some (vs, rest) => Some (acc ++ vs, rest) | None => None end).
Proof.
  induction count as [|count IH]; intros acc r Hr Hk.
  - cbn. unfold refines. cbn. rewrite app_nil_r. repeat split; try apply Hr.
  - cbn [rsizes_loop parse_nums]. pose proof (recv_num_refines 4 r Hr Hk) as H. unfold refines in H.
    destruct (recv_num rcap 4 r) as [r1 [v|e]]; destruct (parse_num 4 (all r)) as [[v' rest]|];
      cbn [fst snd] in *; destruct H as (Hi & Hp & H).
    + destruct H as (H1 & H2). injection H1 as <-.
      specialize (IH (acc ++ [v]) r1 Hi Hk). rewrite H2 in IH. unfold refines in *.
      destruct IH as (Hi2 & Hp2 & IH). split; [assumption|]. split; [eapply pulled_trans; eassumption|].
      destruct (parse_nums count rest) as [[vs rest']|]; [|assumption].
      now rewrite <- app_assoc in IH.
    + congruence.
    + destruct H; congruence.
    + unfold refines. cbn [fst snd]. split; [exact Hi|split; [exact Hp|congruence]].
Qed.

Lemma recv_sizes_refines r : RInv r -> 4 <= rcap ->
  refines r (recv_sizes rcap r) (parse_sizes (all r)).
Proof.
  intros Hr Hk. pose proof (recv_num_refines 4 r Hr Hk) as H.
  unfold recv_sizes, parse_sizes, refines in *.
  destruct (recv_num rcap 4 r) as [r1 [count|e]]; destruct (parse_num 4 (all r)) as [[count' rest]|];
    cbn [fst snd] in *; destruct H as (Hi & Hp & H).
  - destruct H as (H1 & H2). injection H1 as <-.
    pose proof (rsizes_loop_spec (N.to_nat count) [] r1 Hi Hk) as L. rewrite H2 in L. unfold refines in L.
    destruct L as (Hi2 & Hp2 & L). split; [assumption|]. split; [eapply pulled_trans; eassumption|].
    destruct (parse_nums (N.to_nat count) rest) as [[vs rest']|]; assumption.
  - congruence.
  - destruct H; congruence.
  - split; [exact Hi|split; [exact Hp|congruence]].
Qed.

Lemma wrap_refines {A} (f : A -> val) r out p :
  refines r out p -> refines r (wrap f out) (omap f p).
Proof.
  unfold refines, wrap, omap. destruct out as [r1 [a|e]]; destruct p as [[a' rest]|]; cbn [fst snd];
    intros (Hi & Hp & H); (split; [exact Hi|]); (split; [exact Hp|]).
  - destruct H as (H1 & H2). injection H1 as <-. tauto.
  - congruence.
  - destruct H; congruence.
  - congruence.
Qed.

Hypothesis rcap_min : 16 <= rcap.   (* the largest fixed-size value (a label) fits in the read buffer *)

(* domain of the in-place read: Fill(k) can only succeed for k <= readBufSize *)
Definition ty_fits (t : ty) : Prop := match t with TRaw k => k <= rcap | _ => True end.

(* (3) every typed receive computes the abstract parser on window ++ rest, for
   every segmentation of the transport; when the parser fails (not enough
   bytes before the end of the stream) the receive reports EOF; no other
   error is possible: Fill is never asked for more than the buffer holds. *)
Theorem recv_ty_refines t r : ty_fits t -> RInv r -> refines r (recv_ty rcap t r) (parse_ty t (all r)).
Proof.
  intros Hfit Hr. destruct t; cbn [recv_ty parse_ty]; apply wrap_refines.
  - apply recv_num_refines; [assumption|lia].
  - apply recv_num_refines; [assumption|lia].
  - apply recv_num_refines; [assumption|lia].
  - apply recv_data_refines; [assumption|lia].
  - apply recv_data_refines; [assumption|lia].
  - apply recv_num_refines; [assumption|lia].
  - apply recv_sizes_refines; [assumption|lia].
  - apply recv_fixed_refines; [assumption|exact Hfit].
Qed.

Theorem recv_all_refines : forall tys r, Forall ty_fits tys -> RInv r ->
  let out := recv_all rcap tys r in
  RInv (fst out) /\ pulled r (fst out) /\
  match parse_all tys (all r) with
  | Some (vs, rest) => snd out = Some vs /\ all (fst out) = rest
  | None => snd out = None
  end.
Proof.
  induction tys as [|t tys IH]; intros r Hfit Hr; cbn [recv_all parse_all].
  - cbn. repeat split; try apply Hr.
  - inversion Hfit as [|? ? Hft Hfts]; subst.
    pose proof (recv_ty_refines t r Hft Hr) as H. unfold refines in H.
    destruct (recv_ty rcap t r) as [r1 [v|e]]; destruct (parse_ty t (all r)) as [[v' rest]|];
      cbn [fst snd] in *; destruct H as (Hi & Hp & H).
    + destruct H as (H1 & H2). injection H1 as <-. specialize (IH r1 Hfts Hi). cbn in IH. rewrite H2 in IH.
      destruct (recv_all rcap tys r1) as [r2 [vs|]]; cbn [fst snd] in *;
        destruct IH as (Hi2 & Hp2 & IH); (split; [assumption|]); (split; [eapply pulled_trans; eassumption|]);
        destruct (parse_all tys rest) as [[vs' rest']|]; try (destruct IH; congruence); try congruence.
      destruct IH as (IH1 & IH2). injection IH1 as <-. tauto.
    + congruence.
    + destruct H; congruence.
    + split; [exact Hi|split; [exact Hp|congruence]].
Qed.

(* the only error a typed receive can report on this transport is EOF *)
Corollary recv_ty_only_eof t r r' e : ty_fits t -> RInv r -> recv_ty rcap t r = (r', inr e) -> e = EEOF.
Proof.
  intros Hfit Hr H. pose proof (recv_ty_refines t r Hfit Hr) as R. rewrite H in R. unfold refines in R. cbn in R.
  destruct R as (_ & _ & R). destruct (parse_ty t (all r)) as [[v rest]|]; [destruct R; congruence|congruence].
Qed.

End ReceiverProofs.

(* ============================================================ C. round trip *)

Definition wf_val (v : val) : Prop :=
  match v with
  | VByte b => b < 256
  | VU16 v => v < 65536
  | VU32 v => v < 4294967296
  | VData d | VString d => nlen d < 4294967296
  | VLabel l => l < 2 ^ 128
  | VSizes l => nlen l < 4294967296 /\ Forall (fun x => x < 4294967296) l
  | VRaw _ => True
  end.

Lemma parse_fixed_app k bs rest : nlen bs = k -> parse_fixed k (bs ++ rest) = Some (bs, rest).
Proof.
  intros H. unfold parse_fixed. rewrite nlen_app.
  replace (k <=? nlen bs + nlen rest) with true by (symmetry; apply N.leb_le; lia).
  rewrite ntake_app_le, ndrop_app_le by lia. rewrite ntake_all, ndrop_all by lia. reflexivity.
Qed.

Lemma parse_num_be k kN x rest : kN = N.of_nat k -> x < 256 ^ kN ->
  parse_num kN (be k x ++ rest) = Some (x, rest).
Proof.
  intros -> Hx. unfold parse_num. rewrite parse_fixed_app by apply nlen_be.
  rewrite of_be_be, N.mod_small by assumption. reflexivity.
Qed.

Lemma parse_nums_encode : forall l rest, Forall (fun x => x < 4294967296) l ->
  parse_nums (length l) (concat (map (be 4) l) ++ rest) = Some (l, rest).
Proof.
  induction l as [|x l IH]; intros rest Hl; [reflexivity|].
  inversion Hl as [|? ? Hx Hl']; subst. cbn [length parse_nums map concat]. rewrite <- app_assoc.
  rewrite (parse_num_be 4 4 x) by (try reflexivity; exact Hx). now rewrite IH.
Qed.

Lemma parse_ty_encode v rest : wf_val v -> parse_ty (type_of_val v) (encode v ++ rest) = Some (v, rest).
Proof.
  destruct v; cbn [wf_val type_of_val encode parse_ty]; intros Hw.
  - now rewrite (parse_num_be 1 1 b) by (try reflexivity; exact Hw).
  - now rewrite (parse_num_be 2 2 v) by (try reflexivity; exact Hw).
  - now rewrite (parse_num_be 4 4 v) by (try reflexivity; exact Hw).
  - unfold parse_data. rewrite <- app_assoc. rewrite (parse_num_be 4 4 (nlen d)) by (try reflexivity; exact Hw).
    now rewrite parse_fixed_app.
  - unfold parse_data. rewrite <- app_assoc. rewrite (parse_num_be 4 4 (nlen d)) by (try reflexivity; exact Hw).
    now rewrite parse_fixed_app.
  - now rewrite (parse_num_be 16 16 l) by (try reflexivity; exact Hw).
  - destruct Hw as (Hn & Hl). unfold parse_sizes. rewrite <- app_assoc.
    rewrite (parse_num_be 4 4 (nlen l)) by (try reflexivity; exact Hn).
    unfold nlen. rewrite Nat2N.id. now rewrite parse_nums_encode.
  - now rewrite parse_fixed_app.
Qed.

Lemma parse_all_encode : forall vs rest, Forall wf_val vs ->
  parse_all (map type_of_val vs) (concat (map encode vs) ++ rest) = Some (vs, rest).
Proof.
  induction vs as [|v vs IH]; intros rest Hw; [reflexivity|].
  inversion Hw as [|? ? Hv Hvs]; subst. cbn [map concat parse_all]. rewrite <- app_assoc.
  now rewrite parse_ty_encode, IH.
Qed.

(* the domain of the property: lengths that fit the uint32 length prefix *)
Definition op_in_domain (o : op) : Prop :=
  match o with
  | OData d | OString d => nlen d < 4294967296
  | OSizes l => nlen l < 4294967296
  | _ => True
  end.

Lemma values_wf : forall ops, Forall op_in_domain ops -> Forall wf_val (values_of ops).
Proof.
  induction ops as [|o ops IH]; intros H; [constructor|].
  inversion H as [|? ? Ho Hops]; subst. specialize (IH Hops).
  destruct o; cbn [values_of value_of]; try assumption; constructor; try assumption; cbn [wf_val op_in_domain] in *.
  - apply N.mod_lt. lia.
  - apply N.mod_lt. lia.
  - apply u32_of_Z_lt.
  - apply N.mod_lt. discriminate.
  - rewrite nlen_map. split; [assumption|]. apply Forall_forall. intros x Hx. apply in_map_iff in Hx.
    destruct Hx as (z & <- & _). apply u32_of_Z_lt.
Qed.

(* integers inside their width are sent unchanged: the truncations of
   SendUint16/SendUint32/SendInputSizes are the identity on the domain *)
Lemma value_of_in_range :
  (forall b, b < 256 -> value_of (OByte b) = Some (VByte b)) /\
  (forall v, (0 <= v < 65536)%Z -> value_of (OU16 v) = Some (VU16 (Z.to_N v))) /\
  (forall v, (0 <= v < 4294967296)%Z -> value_of (OU32 v) = Some (VU32 (Z.to_N v))) /\
  (forall l, l < 2 ^ 128 -> value_of (OLabel l) = Some (VLabel l)) /\
  (forall l, Forall (fun v => 0 <= v < 4294967296)%Z l -> value_of (OSizes l) = Some (VSizes (map Z.to_N l))).
Proof.
  repeat split; intros; cbn [value_of]; f_equal; f_equal.
  - now apply N.mod_small.
  - unfold u32_of_Z. rewrite Z.mod_small by lia. apply N.mod_small. lia.
  - unfold u32_of_Z. now rewrite Z.mod_small by lia.
  - now apply N.mod_small.
  - apply map_ext_in. intros z Hz. rewrite Forall_forall in H. specialize (H z Hz).
    unfold u32_of_Z. now rewrite Z.mod_small by lia.
Qed.

(* (2) + (4): every op sequence that ends with Flush or Close, with Flushes
   placed anywhere, received over a transport that cuts the byte stream into
   arbitrary segments, by the matching sequence of typed receives: exactly
   the sent values in order; nothing is left over; Recvd = Sent = number of
   bytes on the wire. *)
Theorem roundtrip nbuf wcap rcap ops frags eofdata :
  16 <= wcap -> 16 <= rcap ->
  close_only_last ops -> ends_flushed ops -> Forall op_in_domain ops ->
  Forall (ty_fits rcap) (types_of ops) ->
  let s := run_sender nbuf wcap ops in
  let out := recv_all rcap (types_of ops) (r_init (mkT (wire_bytes s) frags eofdata 0)) in
  snd out = Some (values_of ops) /\
  all (fst out) = [] /\
  r_recvd (fst out) = s_sent s /\ s_sent s = nlen (wire_bytes s).
Proof.
  intros Hw Hr Hc Hf Hd Hfit s out.
  assert (Hw0 : 0 < wcap) by lia.
  pose proof (wire_is_concat nbuf wcap Hw0 ops Hc Hf) as Hwire. fold s in Hwire.
  pose proof (recv_all_refines rcap Hr (types_of ops) _ Hfit (RInv_init rcap (mkT (wire_bytes s) frags eofdata 0))) as H.
  cbn zeta in H. fold out in H. destruct H as (Hi & Hp & H).
  unfold all in H at 1. cbn [r_init r_win r_t t_stream app] in H.
  rewrite Hwire in H. unfold types_of in H.
  rewrite <- (app_nil_r (concat (map encode (values_of ops)))) in H.
  rewrite (parse_all_encode _ [] (values_wf ops Hd)) in H. destruct H as (H1 & H2).
  pose proof (ki_sent _ (KInv_run nbuf wcap ops)) as Hs. fold s in Hs.
  split; [assumption|]. split; [assumption|]. split; [|assumption].
  unfold pulled in Hp. cbn [r_init r_recvd r_t t_stream] in Hp.
  unfold all in H2. apply app_eq_nil in H2. destruct H2 as (_ & H2). rewrite H2 in Hp. cbn in Hp.
  rewrite Hs. lia.
Qed.

(* (4) both byte counters against the bytes actually moved, for ANY receive
   sequence (matching the sender or not, complete or not, failing or not), any
   segmentation, EOF with or after the final bytes: Sent is the number of
   bytes handed to the transport; Recvd is the number of bytes pulled from
   the transport (what was handed over minus what the transport still holds);
   when the receiver has consumed the stream exactly the two are equal; and
   the matching receive sequence of a flushed script does consume it exactly.
   ReceiveData of a payload larger than the read buffer is included: its loop
   asks Fill for min(need, readBufSize) again and again and every byte passes
   through Fill's accounting. *)
Theorem stats_agree nbuf wcap rcap ops frags eofdata tys :
  16 <= wcap -> 16 <= rcap -> Forall (ty_fits rcap) tys ->
  let s := run_sender nbuf wcap ops in
  let out := recv_all rcap tys (r_init (mkT (wire_bytes s) frags eofdata 0)) in
  s_sent s = nlen (wire_bytes s) /\
  r_recvd (fst out) + nlen (t_stream (r_t (fst out))) = nlen (wire_bytes s) /\
  (all (fst out) = [] -> r_recvd (fst out) = s_sent s) /\
  (close_only_last ops -> ends_flushed ops -> Forall op_in_domain ops -> tys = types_of ops ->
   snd out = Some (values_of ops) /\ r_recvd (fst out) = s_sent s).
Proof.
  intros Hw Hr Hfit s out.
  pose proof (ki_sent _ (KInv_run nbuf wcap ops)) as Hs. fold s in Hs.
  pose proof (recv_all_refines rcap Hr tys _ Hfit (RInv_init rcap (mkT (wire_bytes s) frags eofdata 0))) as H.
  cbn zeta in H. fold out in H. destruct H as (_ & Hp & _).
  unfold pulled in Hp. cbn [r_init r_recvd r_t t_stream] in Hp.
  split; [exact Hs|]. split; [lia|]. split.
  - intros Ha. unfold all in Ha. apply app_eq_nil in Ha. destruct Ha as (_ & Ha). rewrite Ha in Hp. cbn in Hp. lia.
  - intros Hc Hf Hd ->. destruct (roundtrip nbuf wcap rcap ops frags eofdata Hw Hr Hc Hf Hd Hfit) as (H1 & _ & H3 & _).
    split; assumption.
Qed.

(* ================================================================== D. ring *)

Close Scope N_scope.
Open Scope nat_scope.

(* the cyclic order 'a, a+1, ..., a+n-1 (mod n)' *)
Definition rot (n a : nat) : list nat := map (fun i => (a + i) mod n) (seq 0 n).

Lemma rot_length n a : length (rot n a) = n.
Proof. unfold rot. now rewrite map_length, seq_length. Qed.

Lemma mod_add_inj n a i j : i < n -> j < n -> (a + i) mod n = (a + j) mod n -> i = j.
Proof.
  intros Hi Hj H.
  pose proof (Nat.div_mod (a + i) n ltac:(lia)) as H1.
  pose proof (Nat.div_mod (a + j) n ltac:(lia)) as H2.
  rewrite H in H1. set (q1 := (a + i) / n) in *. set (q2 := (a + j) / n) in *.
  set (r := (a + j) mod n) in *.
  destruct (Nat.eq_dec q1 q2) as [E|E]; [rewrite E in H1; lia|]. nia.
Qed.

Lemma rot_nth n a i : i < n -> nth i (rot n a) ((a + 0) mod n) = (a + i) mod n.
Proof.
  intros Hi. unfold rot. change ((a + 0) mod n) with ((fun i => (a + i) mod n) 0).
  rewrite map_nth, seq_nth by assumption. reflexivity.
Qed.

Lemma rot_NoDup n a : NoDup (rot n a).
Proof.
  apply (NoDup_nth (rot n a) ((a + 0) mod n)). rewrite rot_length. intros i j Hi Hj H.
  rewrite !rot_nth in H by assumption. eapply mod_add_inj; eassumption.
Qed.

Lemma rot_0 n : rot n 0 = seq 0 n.
Proof.
  unfold rot. rewrite <- (map_id (seq 0 n)) at 2. apply map_ext_in. intros i Hi.
  apply in_seq in Hi. cbn. apply Nat.mod_small. lia.
Qed.

Lemma rot_shift n a b t : rot n a = b :: t -> rot n (S a) = t ++ [b].
Proof.
  destruct n as [|m]; [discriminate|]. unfold rot. intros H.
  rewrite seq_S, map_app. change (seq 0 (S m)) with (0 :: seq 1 m) in H. rewrite map_cons in H.
  assert (Hb : (a + 0) mod S m = b) by congruence.
  assert (Ht : map (fun i => (a + i) mod S m) (seq 1 m) = t) by congruence. clear H.
  cbn [map]. f_equal.
  - rewrite <- Ht, <- seq_shift, map_map. apply map_ext. intros i. f_equal. lia.
  - f_equal. rewrite <- Hb. replace (S a + (0 + m)) with (a + 0 + 1 * S m) by lia.
    apply Nat.mod_add. lia.
Qed.

Section RingProofs.
Variable nb : nat.

Definition unalloc (w : wpc) : list nat := match w with WAlloc k => seq k (nb - k) | _ => [] end.
Definition hand (w : wpc) : list nat := match w with WHave b _ => [b] | WWrote b => [b] | _ => [] end.
Definition cur_l (g : ring) : list nat := match g_cur g with Some b => [b] | None => [] end.

(* where every buffer is, in the order in which main will get them back *)
Definition order (g : ring) : list nat :=
  g_fromW g ++ unalloc (g_w g) ++ hand (g_w g) ++ map fst (g_toW g) ++ cur_l g ++ g_dropped g.

(* the bytes a queued slice denotes right now *)
Definition content (mem : nat -> list N) (e : nat * nat) : list N := firstn (snd e) (mem (fst e)).
Definition in_hand (g : ring) : list (list N) :=
  match g_w g with WHave b l => [firstn l (g_mem g b)] | _ => [] end.

Record GInv (g : ring) : Prop := {
  gi_order : order g = rot nb (g_acq g);
  gi_log : g_written g ++ in_hand g ++ map (content (g_mem g)) (g_toW g) = g_flushed g;
  gi_nocur : g_main g = MInit \/ g_main g = MWait -> g_cur g = None;
  gi_nodrop : g_main g = MInit \/ g_main g = MFill \/ g_main g = MWait -> g_dropped g = [];
  gi_toWclosed : g_toW_closed g = true -> g_main g = MDrain \/ g_main g = MClosed;
  gi_done : g_w g = WDone -> g_toW g = [] /\ g_toW_closed g = true;
  gi_fromWclosed : g_fromW_closed g = true -> g_w g = WDone;
  gi_closed : g_main g = MClosed -> g_fromW_closed g = true;
  (* receives done by main vs flushes done by main *)
  gi_acq0 : g_main g = MInit -> g_acq g = 0;
  gi_fl0 : g_main g = MInit -> g_flushed g = [];
  gi_acqF : g_main g = MFill -> g_acq g = S (length (g_flushed g));
  gi_acqW : g_main g = MWait -> g_acq g = length (g_flushed g);
  gi_hascur : g_main g = MFill -> g_cur g <> None
}.

Lemma GInv_init mem : GInv (g_init mem).
Proof.
  split; cbn; try (intros; discriminate); try tauto.
  rewrite Nat.sub_0_r, ?app_nil_r. symmetry. apply rot_0.
Qed.

Lemma content_upd mem b c e : fst e <> b -> content (upd mem b c) e = content mem e.
Proof. intros H. unfold content, upd. destruct (Nat.eqb_spec (fst e) b); [contradiction|reflexivity]. Qed.

Ltac simp_g := cbn [g_main g_cur g_acq g_toW g_toW_closed g_fromW g_fromW_closed g_w g_mem g_dropped g_flushed g_written] in *.

Lemma order_step g g' : GInv g -> rstep nb g g' -> order g' = rot nb (g_acq g').
Proof.
  intros [Ho Hl Hnc Hnd Htc Hd Hfc Hc Ha0 Hf0 HaF HaW Hhc] Hs. unfold order, cur_l in *.
  inversion Hs as [g0 k Hw Hk Hlen | g0 Hw | g0 b rest Hm Hf | g0 b c Hm Hcur | g0 b l Hm Hcur Hl0 Hlen
                  | g0 b rest Hm Hf | g0 b l rest Hw Ht | g0 b l Hw | g0 b Hw Hlen | g0 Hm
                  | g0 Hw Ht Htcl | g0 b rest Hm Hf | g0 Hm Hf Hfcl]; subst g0 g'; simp_g.
  - rewrite Hw in Ho. cbn [unalloc hand] in *. rewrite <- Ho.
    replace (nb - k) with (S (nb - S k)) by lia. cbn [seq]. now rewrite <- ?app_assoc.
  - rewrite Hw in Ho. cbn [unalloc hand] in *. rewrite Nat.sub_diag in Ho. exact Ho.
  - rewrite Hf, (Hnc (or_introl Hm)), (Hnd (or_introl Hm)) in Ho. rewrite (Hnd (or_introl Hm)). cbn [app] in Ho.
    symmetry in Ho. apply rot_shift in Ho. rewrite Ho. rewrite ?app_nil_r, <- ?app_assoc. reflexivity.
  - rewrite Hcur in Ho. exact Ho.
  - rewrite Hcur, (Hnd (or_intror (or_introl Hm))) in Ho. rewrite (Hnd (or_intror (or_introl Hm))). rewrite <- Ho, map_app. cbn.
    rewrite ?app_nil_r, <- ?app_assoc. reflexivity.
  - rewrite Hf, (Hnc (or_intror Hm)), (Hnd (or_intror (or_intror Hm))) in Ho. rewrite (Hnd (or_intror (or_intror Hm))). cbn [app] in Ho.
    symmetry in Ho. apply rot_shift in Ho. rewrite Ho. rewrite ?app_nil_r, <- ?app_assoc. reflexivity.
  - rewrite Hw, Ht in Ho. cbn [unalloc hand map fst app] in *. exact Ho.
  - rewrite Hw in Ho. cbn [unalloc hand] in *. exact Ho.
  - rewrite Hw in Ho. cbn [unalloc hand app] in *. rewrite <- Ho, <- ?app_assoc. reflexivity.
  - exact Ho.
  - rewrite Hw in Ho. cbn [unalloc hand] in *. exact Ho.
  - rewrite Hf in Ho. cbn [app] in Ho. symmetry in Ho. apply rot_shift in Ho. rewrite Ho, <- ?app_assoc. reflexivity.
  - rewrite Hf in Ho. exact Ho.
Qed.

(* the buffer main may write is nowhere else *)
Lemma cur_exclusive g b : GInv g -> g_cur g = Some b ->
  ~ In b (g_fromW g) /\ ~ In b (hand (g_w g)) /\ ~ In b (map fst (g_toW g)) /\ ~ In b (g_dropped g).
Proof.
  intros Hi Hcur. pose proof (rot_NoDup nb (g_acq g)) as Hn. rewrite <- (gi_order g Hi) in Hn.
  unfold order, cur_l in Hn. rewrite Hcur in Hn.
  rewrite !app_assoc in Hn. rewrite <- (app_assoc _ [b]) in Hn. apply NoDup_remove_2 in Hn.
  rewrite !in_app_iff in Hn. tauto.
Qed.

Lemma log_step g g' : GInv g -> rstep nb g g' ->
  g_written g' ++ in_hand g' ++ map (content (g_mem g')) (g_toW g') = g_flushed g'.
Proof.
  intros Hi Hs. pose proof (gi_log g Hi) as Hl. unfold in_hand in *.
  inversion Hs as [g0 k Hw Hk Hlen | g0 Hw | g0 b rest Hm Hf | g0 b c Hm Hcur | g0 b l Hm Hcur Hl0 Hlen
                  | g0 b rest Hm Hf | g0 b l rest Hw Ht | g0 b l Hw | g0 b Hw Hlen | g0 Hm
                  | g0 Hw Ht Htcl | g0 b rest Hm Hf | g0 Hm Hf Hfcl]; subst g0 g'; simp_g;
    try (rewrite Hw in Hl; exact Hl); try exact Hl.
  - (* main stores into its buffer: no queued slice aliases it *)
    destruct (cur_exclusive g b Hi Hcur) as (_ & Hh & Ht & _).
    rewrite <- Hl. f_equal. f_equal.
    + destruct (g_w g) as [| |b' l'| |]; try reflexivity. cbn [hand] in Hh.
      unfold upd. destruct (Nat.eqb_spec b' b) as [E|E]; [exfalso; apply Hh; left; exact E|reflexivity].
    + apply map_ext_in. intros e He. apply content_upd. intros E. apply Ht. apply in_map_iff. exists e. tauto.
  - rewrite <- Hl, map_app. cbn [map]. unfold content at 2. cbn [fst snd]. now rewrite !app_assoc.
  - rewrite Hw, Ht in Hl. cbn [map] in Hl. exact Hl.
  - rewrite Hw in Hl. rewrite <- Hl, <- ?app_assoc. reflexivity.
Qed.

Lemma GInv_step g g' : GInv g -> rstep nb g g' -> GInv g'.
Proof.
  intros Hi Hs. pose proof (order_step g g' Hi Hs) as Ho'. pose proof (log_step g g' Hi Hs) as Hl'.
  destruct Hi as [Ho Hl Hnc Hnd Htc Hd Hfc Hc Ha0 Hf0 HaF HaW Hhc].
  inversion Hs as [g0 k Hw Hk Hlen | g0 Hw | g0 b rest Hm Hf | g0 b c Hm Hcur | g0 b l Hm Hcur Hl0 Hlen
                  | g0 b rest Hm Hf | g0 b l rest Hw Ht | g0 b l Hw | g0 b Hw Hlen | g0 Hm
                  | g0 Hw Ht Htcl | g0 b rest Hm Hf | g0 Hm Hf Hfcl]; subst g0 g';
    (split; [exact Ho'|exact Hl'|..]); simp_g;
    try (rewrite Hm in * ); try (rewrite Hw in * );
    intros; try discriminate; try tauto;
    try (match goal with H : _ \/ _ |- _ => destruct H as [H|H]; try discriminate end);
    try (match goal with H : _ \/ _ |- _ => destruct H as [H|H]; try discriminate end);
    auto.
  all: try (match goal with H : g_toW_closed _ = true |- _ => destruct (Htc H); discriminate end).
  all: try (match goal with H : g_fromW_closed _ = true |- _ => specialize (Hfc H); discriminate end).
  all: try (match goal with H : g_w _ = WDone |- _ =>
              let Hx := fresh in destruct (Hd H) as (_ & Hx); destruct (Htc Hx); discriminate end).
  all: try (rewrite ?app_length; cbn [length];
            try rewrite (Ha0 eq_refl); try rewrite (Hf0 eq_refl);
            try rewrite (HaF eq_refl); try rewrite (HaW eq_refl); cbn [length]; lia).
Qed.

(* --- what the invariant gives in every reachable state (all interleavings) *)

Lemma reachable_GInv mem0 g : reachable nb mem0 g -> GInv g.
Proof. induction 1 as [|g g' _ IH Hs]; [apply GInv_init|eapply GInv_step; eassumption]. Qed.

(* (5a) ownership: the buffer main may store into is not queued for the
   writer, not being written, not waiting in fromWriter; and the buffers in
   the system are pairwise distinct (each is in exactly one place). *)
Theorem ring_ownership mem0 g b : reachable nb mem0 g -> g_cur g = Some b ->
  ~ In b (map fst (g_toW g)) /\ ~ In b (hand (g_w g)) /\ ~ In b (g_fromW g) /\ NoDup (order g).
Proof.
  intros Hr Hc. pose proof (reachable_GInv _ _ Hr) as Hi.
  destruct (cur_exclusive g b Hi Hc) as (H1 & H2 & H3 & _).
  repeat split; try assumption. rewrite (gi_order g Hi). apply rot_NoDup.
Qed.

(* main only ever stores into a buffer while it is in state MFill and that
   buffer is [g_cur]: during MWait (inside Flush) and after Close it designates none *)
Theorem ring_no_buffer_while_waiting mem0 g : reachable nb mem0 g ->
  g_main g = MInit \/ g_main g = MWait -> g_cur g = None.
Proof. intros Hr. apply (gi_nocur g (reachable_GInv _ _ Hr)). Qed.

(* (5b) order: the conn.Write calls made so far, then the slice the writer
   holds, then the queued slices — read from the buffers as they are now —
   are exactly the contents Flush handed over, in Flush order. *)
Theorem ring_write_order mem0 g : reachable nb mem0 g ->
  g_written g ++ in_hand g ++ map (content (g_mem g)) (g_toW g) = g_flushed g.
Proof. intros Hr. apply (gi_log g (reachable_GInv _ _ Hr)). Qed.

Corollary ring_written_prefix mem0 g : reachable nb mem0 g ->
  exists rest, g_flushed g = g_written g ++ rest.
Proof. intros Hr. eexists. symmetry. apply (ring_write_order _ _ Hr). Qed.

(* (5c) when Close has returned, everything flushed has been written, in order *)
Theorem ring_close_delivers_all mem0 g : reachable nb mem0 g -> g_main g = MClosed ->
  g_written g = g_flushed g.
Proof.
  intros Hr Hm. pose proof (reachable_GInv _ _ Hr) as Hi.
  pose proof (gi_fromWclosed g Hi (gi_closed g Hi Hm)) as Hw.
  destruct (gi_done g Hi Hw) as (Ht & _).
  pose proof (gi_log g Hi) as Hl. unfold in_hand in Hl. rewrite Hw, Ht in Hl. cbn in Hl.
  now rewrite app_nil_r in Hl.
Qed.

(* (5d) the channel sends never block: whenever main is about to send on
   toWriter, or the writer on fromWriter, the channel (capacity nb) has room *)
Theorem ring_sends_never_block mem0 g : reachable nb mem0 g ->
  (forall b, g_main g = MFill -> g_cur g = Some b -> length (g_toW g) < nb) /\
  (forall b, g_w g = WWrote b -> length (g_fromW g) < nb) /\
  (forall k, g_w g = WAlloc k -> k < nb -> length (g_fromW g) < nb).
Proof.
  intros Hr. pose proof (reachable_GInv _ _ Hr) as Hi.
  pose proof (f_equal (@length nat) (gi_order g Hi)) as Hlen. rewrite rot_length in Hlen.
  unfold order, cur_l in Hlen. rewrite !app_length, map_length in Hlen.
  repeat split.
  - intros b _ Hc. rewrite Hc in Hlen. cbn in Hlen. lia.
  - intros b Hw. rewrite Hw in Hlen. cbn in Hlen. lia.
  - intros k Hw Hk. rewrite Hw in Hlen. cbn [unalloc hand] in Hlen. rewrite seq_length in Hlen. cbn in Hlen. lia.
Qed.

(* (5e) the ring rotates: the k-th buffer main obtains from fromWriter is
   buffer (k-1) mod nb — the identity the sender model uses in [flush_buf] *)
Theorem ring_rotation mem0 g b : reachable nb mem0 g -> g_main g = MFill -> g_cur g = Some b ->
  0 < g_acq g /\ b = (g_acq g - 1) mod nb.
Proof.
  intros Hr Hm Hc. pose proof (reachable_GInv _ _ Hr) as Hi.
  pose proof (gi_order g Hi) as Ho. unfold order, cur_l in Ho.
  rewrite Hc, (gi_nodrop g Hi (or_intror (or_introl Hm))), app_nil_r in Ho.
  rewrite !app_assoc in Ho.
  assert (Hnb : 0 < nb).
  { pose proof (f_equal (@length nat) Ho) as Hl. rewrite rot_length, app_length in Hl. cbn in Hl. lia. }
  assert (Hlast : last (rot nb (g_acq g)) 0 = b) by (rewrite <- Ho; apply last_last).
  (* acq > 0: a buffer is only obtained by a receive *)
  assert (Hacq : 0 < g_acq g).
  { clear Hlast Ho. induction Hr as [|g g' Hr IH Hs]; [discriminate|].
    inversion Hs; subst; cbn in *; try lia; try discriminate;
      try (apply IH; try assumption; try (eapply reachable_GInv; eassumption)).
    all: try congruence. }
  split; [assumption|].
  rewrite <- Hlast. unfold rot. destruct nb as [|m]; [lia|].
  rewrite seq_S, map_app. cbn [map]. rewrite last_last.
  replace (g_acq g + (0 + m)) with (g_acq g - 1 + 1 * S m) by lia. apply Nat.mod_add. lia.
Qed.

End RingProofs.


(* ------------------------------------------------------------ non-vacuity *)

Open Scope N_scope.

(* the hypotheses of the round-trip theorem are met by a script that crosses
   buffer boundaries of a 16-byte ring (every op kind, a payload larger than
   the write and the read buffer), and its conclusion computes *)
Example roundtrip_nonvacuous :
  let ops := [OByte 7; OU16 513; OFlush; OU32 4294967295; OData (repeat 9 40); OString [1; 2; 3];
              OLabel (2 ^ 127 + 5); OFlush; OFlush; OSizes [1; 65536; 0]%Z; OData []; OClose] in
  close_only_last ops /\ ends_flushed ops /\ Forall op_in_domain ops /\
  snd (recv_all 16 (types_of ops) (r_init (mkT (wire_bytes (run_sender 3 16 ops)) [1; 2; 30; 1; 7] false 0)))
    = Some (values_of ops) /\
  snd (recv_all 16 (types_of ops) (r_init (mkT (wire_bytes (run_sender 3 16 ops)) [3; 50] true 0)))
    = Some (values_of ops) /\
  length (s_chunks (run_sender 3 16 ops)) = 8%nat.
Proof.
  cbn zeta. split; [cbn; reflexivity|]. split; [match goal with |- ends_flushed ?l => exists (removelast l); right; reflexivity end|].
  split; [repeat constructor; cbn; lia|]. vm_compute. repeat split; reflexivity.
Qed.

(* a receive past the end of a closed stream reports EOF *)
(* a payload (40 bytes) larger than write and read buffer (16): counters and window positions *)
Example big_payload_counters :
  let s := run_sender 3 16 [OData (repeat 9 40); OClose] in
  let out := recv_all 16 [TData] (r_init (mkT (wire_bytes s) [5; 100] false 0)) in
  snd out = Some [VData (repeat 9 40)] /\ s_sent s = 44 /\ r_recvd (fst out) = 44 /\
  t_nreads (r_t (fst out)) = 4 /\ r_start (fst out) = 7 /\ r_end (fst out) = 7.
Proof. vm_compute. repeat split; reflexivity. Qed.

(* the in-place write API rolling over 16-byte buffers inside NeedSpace, read back in place *)
Example inplace_rollover :
  let ops := [ORaw 8 [1; 2; 3; 4; 5]; ORaw 8 [6; 7; 8; 9; 10; 11; 12; 13]; OU16 258; ORaw 16 (repeat 7 16); ORaw 3 []; OFlush] in
  let s := run_sender 3 16 ops in
  let out := recv_all 16 (types_of ops) (r_init (mkT (wire_bytes s) [3] true 0)) in
  Forall (raw_fits 16) ops /\ Forall (ty_fits 16) (types_of ops) /\
  snd out = Some (values_of ops) /\ map (fun c => nlen (snd c)) (s_chunks s) = [15; 16] /\
  s_sent s = 31 /\ r_recvd (fst out) = 31.
Proof. cbn zeta. split; [repeat constructor; cbn; lia|]. split; [repeat constructor; cbn; lia|]. vm_compute. repeat split; reflexivity. Qed.

Example overread_is_eof :
  snd (recv_ty 16 TU32 (r_init (mkT [1; 2; 3] [] false 0))) = inr EEOF /\
  snd (recv_ty 16 TU32 (r_init (mkT [1; 2; 3] [] true 0))) = inr EEOF /\
  snd (recv_ty 16 TU32 (r_init (mkT [0; 0; 0; 7] [] true 0))) = inl (VU32 7).
Proof. vm_compute. repeat split; reflexivity. Qed.

Close Scope N_scope.

(* a complete run of the ring system with one buffer: NewConn, a store, a
   Flush, the writer's Write, Close; Close returns and the chunk is written *)
Example ring_nonvacuous :
  exists g, reachable 1 (fun _ => []) g /\ g_main g = MClosed /\ g_written g = [[7%N]].
Proof.
  pose proof (reach_init 1 (fun _ => [])) as R. unfold g_init in R.
  eapply reach_step in R; [|eapply R_alloc with (k := 0); cbn; (reflexivity || lia)]. cbn in R.
  eapply reach_step in R; [|eapply R_alloc_done; cbn; reflexivity]. cbn in R.
  eapply reach_step in R; [|eapply R_init; cbn; reflexivity]. cbn in R.
  eapply reach_step in R; [|eapply R_fill with (c := [7%N]); cbn; reflexivity]. cbn in R.
  eapply reach_step in R; [|eapply R_flush_send with (l := 1); cbn; (reflexivity || lia)]. cbn in R.
  eapply reach_step in R; [|eapply R_w_take; cbn; reflexivity]. cbn in R.
  eapply reach_step in R; [|eapply R_w_write; cbn; reflexivity]. cbn in R.
  eapply reach_step in R; [|eapply R_w_return; cbn; (reflexivity || lia)]. cbn in R.
  eapply reach_step in R; [|eapply R_flush_recv; cbn; reflexivity]. cbn in R.
  eapply reach_step in R; [|eapply R_close; cbn; reflexivity]. cbn in R.
  eapply reach_step in R; [|eapply R_w_done; cbn; reflexivity]. cbn in R.
  eapply reach_step in R; [|eapply R_drain_done; cbn; reflexivity]. cbn in R.
  eexists. split; [exact R|]. split; reflexivity.
Qed.

(* ============ F. the functional sender model and the ring system agree ====== *)

(* --- ring side: which buffer every Flush sends *)

Theorem ring_main_has_buffer nb mem0 g : reachable nb mem0 g -> g_main g = MFill ->
  exists b, g_cur g = Some b.
Proof.
  intros Hr Hm. pose proof (gi_hascur nb g (reachable_GInv nb _ _ Hr) Hm) as H.
  destruct (g_cur g) as [b|]; [now exists b|congruence].
Qed.

(* in every reachable state, between two Flushes, main's write buffer is buffer
   (number of Flushes done so far) mod nb *)
Theorem ring_flush_buffer nb mem0 g b : reachable nb mem0 g -> g_main g = MFill -> g_cur g = Some b ->
  b = length (g_flushed g) mod nb.
Proof.
  intros Hr Hm Hc. destruct (ring_rotation nb mem0 g b Hr Hm Hc) as (_ & ->).
  rewrite (gi_acqF nb g (reachable_GInv nb _ _ Hr) Hm). f_equal. lia.
Qed.

(* --- functional side: buffer identities of the sender model *)

Section SenderRing.
Variables (nbuf wcap : N).
Hypothesis nbuf_pos : (0 < nbuf)%N.

Definition ids (k : nat) : list N := map (fun i => (N.of_nat i mod nbuf)%N) (seq 0 k).

Record CInv (s : sender) : Prop := {
  ci_cur : s_cur s = (nlen (s_chunks s) mod nbuf)%N;
  ci_ids : map fst (s_chunks s) = ids (length (s_chunks s))
}.

(* anything that Flush, appending to the buffer and the flag updates preserve
   is preserved by every op *)
Lemma step_preserves (P : sender -> Prop) :
  (forall s, P s -> P (flush_buf nbuf s)) ->
  (forall bs s, P s -> P (append_buf bs s)) ->
  (forall s c e, P s -> P (mkS (s_cur s) (s_buf s) (s_chunks s) (s_sent s) (s_flushed s) c e)) ->
  forall s o, P s -> P (step nbuf wcap s o).
Proof.
  intros Hf Ha Hflag.
  assert (Hput : forall k bs s, P s -> P (put nbuf wcap k bs s)).
  { intros k bs s Hs. unfold put. apply Ha. destruct (wcap <? wpos s + k)%N; auto. }
  assert (Hdl : forall fuel d s, P s -> P (data_loop nbuf wcap fuel d s)).
  { induction fuel as [|fuel IH]; intros d s Hs; destruct d as [|x d']; cbn [data_loop]; auto.
    - unfold set_err. now apply Hflag.
    - apply IH, Ha. destruct (wcap <=? wpos s)%N; auto. }
  assert (Hfold : forall l s, P s -> P (fold_left (fun s v => send_u32 nbuf wcap v s) l s)).
  { induction l as [|v l IH]; intros s Hs; cbn; auto. apply IH. now apply Hput. }
  intros s o Hs. unfold step. destruct (s_closed s || s_err s); [unfold set_err; now apply Hflag|].
  destruct o; try (now apply Hput); try (apply Hdl; now apply Hput); auto.
  - apply Hfold. now apply Hput.
  - unfold close_conn. apply Hflag. auto.
Qed.

Lemma CInv_run ops : CInv (run_sender nbuf wcap ops).
Proof.
  assert (Hstep : forall s o, CInv s -> CInv (step nbuf wcap s o)).
  { apply step_preserves.
    - intros s [H1 H2]. unfold flush_buf. destruct (0 <? wpos s)%N; [|split; assumption].
      split; cbn [s_cur s_chunks].
      + rewrite H1, nlen_app. change (nlen [(s_cur s, s_buf s)]) with 1%N.
        apply N.add_mod_idemp_l. lia.
      + rewrite map_app, app_length, H2. cbn [map fst length]. rewrite Nat.add_1_r.
        unfold ids. rewrite seq_S, map_app. cbn [map]. f_equal. f_equal. rewrite H1. reflexivity.
    - intros bs s [H1 H2]. split; assumption.
    - intros s c e [H1 H2]. split; assumption. }
  unfold run_sender. assert (H : forall ops s, CInv s -> CInv (fold_left (step nbuf wcap) ops s)).
  { induction ops0 as [|o ops0 IH]; intros s Hs; cbn; auto. }
  apply H. split; [|reflexivity].
  change (0 = 0 mod nbuf)%N. symmetry. apply N.mod_0_l. lia.
Qed.

(* --- the two models agree.  Take ANY reachable state of the ring system (any
   interleaving of main and writer) in which main is between two Flushes and
   has flushed the chunks the functional sender computes for [ops].  Then the
   buffer main holds is the one the functional model names ([s_cur], i.e. its
   '(cur+1) mod numBuffers' is what the channels deliver), the i-th chunk of
   the functional model lives in buffer i mod numBuffers — the buffer the ring
   system's main held at its i-th Flush (ring_flush_buffer) —, and the
   conn.Write calls so far are a prefix of the functional model's chunks. *)
Theorem sender_ring_agree ops mem0 g :
  let s := run_sender nbuf wcap ops in
  reachable (N.to_nat nbuf) mem0 g -> g_main g = MFill ->
  g_flushed g = wire_chunks s ->
  g_cur g = Some (N.to_nat (s_cur s)) /\
  map fst (s_chunks s) = ids (length (s_chunks s)) /\
  (exists rest, wire_chunks s = g_written g ++ rest).
Proof.
  intros s Hr Hm Hfl. destruct (CInv_run ops) as [H1 H2]. fold s in H1, H2.
  split; [|split; [exact H2|]].
  - destruct (ring_main_has_buffer _ _ _ Hr Hm) as (b & Hb). rewrite Hb. f_equal.
    rewrite (ring_flush_buffer _ _ _ _ Hr Hm Hb), Hfl, H1.
    unfold wire_chunks. rewrite map_length. unfold nlen.
    rewrite N2Nat.inj_mod, Nat2N.id. reflexivity.
  - rewrite <- Hfl. apply (ring_written_prefix _ _ _ Hr).
Qed.

End SenderRing.

(* --- and such ring executions exist for every chunk list (so for every op
   sequence): the schedule in which the writer handles each chunk at once *)

Lemma rot_cons nb a : 0 < nb -> rot nb a = (a mod nb) :: tl (rot nb a).
Proof. destruct nb as [|m]; [lia|]. intros _. unfold rot. cbn [seq map tl]. f_equal. f_equal. lia. Qed.

Lemma upd_same mem b c : upd mem b c b = c.
Proof. unfold upd. now rewrite Nat.eqb_refl. Qed.

Definition canon (nb : nat) (mem : nat -> list N) (cs : list (list N)) : ring :=
  mkG MFill (Some (length cs mod nb)) (S (length cs)) [] false (tl (rot nb (length cs))) false
      WIdle mem [] cs cs.

Ltac simp_r R := cbn [g_main g_cur g_acq g_toW g_toW_closed g_fromW g_fromW_closed g_w g_mem g_dropped
                      g_flushed g_written] in R.

Lemma ring_alloc_reach nb mem0 : forall k, k <= nb ->
  reachable nb mem0 (mkG MInit None 0 [] false (seq 0 k) false (WAlloc k) mem0 [] [] []).
Proof.
  induction k as [|k IH]; intros Hk; [apply reach_init|].
  specialize (IH ltac:(lia)). eapply reach_step in IH; [|eapply R_alloc with (k := k); cbn; try reflexivity; try lia].
  2:{ rewrite seq_length. lia. }
  simp_r IH. rewrite seq_S. exact IH.
Qed.

Lemma canon_start nb mem0 : 0 < nb -> reachable nb mem0 (canon nb mem0 []).
Proof.
  intros Hnb. pose proof (ring_alloc_reach nb mem0 nb (le_n _)) as R.
  eapply reach_step in R; [|eapply R_alloc_done; reflexivity]. simp_r R.
  rewrite <- (rot_0 nb), (rot_cons nb 0 Hnb) in R.
  eapply reach_step in R; [|eapply R_init; reflexivity]. simp_r R. exact R.
Qed.

Lemma canon_step nb mem0 mem cs c : 0 < nb -> c <> [] ->
  reachable nb mem0 (canon nb mem cs) ->
  reachable nb mem0 (canon nb (upd mem (length cs mod nb) c) (cs ++ [c])).
Proof.
  intros Hnb Hc R. unfold canon in R. set (b := length cs mod nb) in *.
  eapply reach_step in R; [|eapply R_fill with (c := c); reflexivity]. simp_r R.
  eapply reach_step in R; [|eapply R_flush_send with (l := length c); cbn; try reflexivity; try lia].
  2:{ destruct c; [congruence|cbn; lia]. }
  simp_r R. rewrite upd_same, firstn_all in R. cbn [app] in R.
  eapply reach_step in R; [|eapply R_w_take; reflexivity]. simp_r R.
  eapply reach_step in R; [|eapply R_w_write; reflexivity]. simp_r R. rewrite upd_same, firstn_all in R.
  eapply reach_step in R; [|eapply R_w_return; cbn; try reflexivity].
  2:{ pose proof (f_equal (@length nat) (rot_cons nb (length cs) Hnb)) as Hl. rewrite rot_length in Hl.
      cbn [length] in Hl. lia. }
  simp_r R.
  assert (Hrot : tl (rot nb (length cs)) ++ [b] = rot nb (S (length cs))).
  { symmetry. apply rot_shift. apply rot_cons, Hnb. }
  rewrite Hrot, (rot_cons nb (S (length cs)) Hnb) in R.
  eapply reach_step in R; [|eapply R_flush_recv; reflexivity]. simp_r R.
  unfold canon. rewrite app_length. cbn [length]. rewrite Nat.add_1_r. exact R.
Qed.

Theorem ring_can_flush nb mem0 cs : 0 < nb -> Forall (fun c => c <> []) cs ->
  exists g, reachable nb mem0 g /\ g_main g = MFill /\ g_flushed g = cs /\ g_written g = cs.
Proof.
  intros Hnb Hcs.
  assert (H : exists mem, reachable nb mem0 (canon nb mem cs)).
  { induction cs as [|c cs IH] using rev_ind; [exists mem0; now apply canon_start|].
    apply Forall_app in Hcs. destruct Hcs as (Hcs & Hc). inversion Hc as [|? ? Hc' _]; subst.
    destruct (IH Hcs) as (mem & R). eexists. apply canon_step; eassumption. }
  destruct H as (mem & R). eexists. split; [exact R|]. cbn. auto.
Qed.

(* for every op sequence there is an execution of the ring system whose main
   thread flushes exactly the chunks of the functional sender model (and in
   which the writer has already written them) *)
Theorem sender_ring_exists nbuf wcap ops mem0 : (0 < nbuf)%N -> (16 <= wcap)%N ->
  exists g, reachable (N.to_nat nbuf) mem0 g /\ g_main g = MFill /\
            g_flushed g = wire_chunks (run_sender nbuf wcap ops) /\
            g_written g = wire_chunks (run_sender nbuf wcap ops).
Proof.
  intros Hn Hw. apply ring_can_flush; [lia|].
  pose proof (ki_chunks _ (KInv_run nbuf wcap ops)) as H.
  unfold wire_chunks. apply Forall_forall. intros c Hc. apply in_map_iff in Hc.
  destruct Hc as ((b & c') & <- & Hin). rewrite Forall_forall in H. specialize (H _ Hin). cbn in *.
  intros ->. cbn in H. lia.
Qed.
