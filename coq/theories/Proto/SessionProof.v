(* SessionProof.v — the honest two-party session computes f(x,y) at both
   parties (C02), and the garbler's decoding step is sound under arbitrary
   corruption (C16). *)
From Coq Require Import NArith List Bool Arith Lia.
From Mpc Require Import Base.Label Base.Codec Base.CodecProof Circuit.Circuit Circuit.Garble
     Circuit.GarbleProof Proto.Session.
Import ListNotations.
Open Scope N_scope.

(* ---------- lengths produced by the garbler *)
Lemma garble_gates_lengths pi r : forall gs gw id,
  let '(gwf, _, rows) := garble_gates pi r gw id gs in
  length gwf = length gw /\ length rows = length gs.
Proof.
  induction gs as [|g gs IH]; intros gw id; cbn [garble_gates].
  - split; reflexivity.
  - destruct (garble_gate pi r gw id g) as [[c id'] row].
    specialize (IH (upd gw (gout g) c) id').
    destruct (garble_gates pi r (upd gw (gout g) c) id' gs) as [[gwf idf] rows].
    destruct IH as [H1 H2]. rewrite upd_length in H1. cbn [length]. split; congruence.
Qed.

Lemma garble_lengths pi rnd scratch c :
  (ninputs c <= nwires c)%nat ->
  length (gWires (garble pi rnd scratch c)) = nwires c /\
  length (gTables (garble pi rnd scratch c)) = length (gates c).
Proof.
  intros Hle. unfold garble.
  match goal with |- context [garble_gates pi ?r ?gw 0 (gates c)] =>
    pose proof (garble_gates_lengths pi r (gates c) gw 0) as H;
    destruct (garble_gates pi r gw 0 (gates c)) as [[gwf idf] rows];
    assert (Lgw : length gw = nwires c)
  end.
  { unfold input_wires. rewrite app_length, map_length, seq_length, firstn_length, app_length, repeat_length. lia. }
  cbn [gWires gTables]. destruct H as [H1 H2]. split; congruence.
Qed.

(* ---------- the evaluator parses the first flight back *)
Lemma take_labels_app ls rest :
  take_labels (length ls) (map MLabel ls ++ rest) = Some (ls, rest).
Proof. induction ls as [|l ls IH]; cbn; [reflexivity|]. rewrite IH. reflexivity. Qed.

Lemma recv_tables_app tbl rest :
  recv_tables (length tbl) (table_msgs tbl ++ rest) = Some (tbl, rest).
Proof.
  induction tbl as [|row tbl IH]; cbn [recv_tables length table_msgs map concat app].
  - reflexivity.
  - rewrite Nat2N.id. rewrite <- app_assoc.
    change (concat (map (fun row0 => MU32 (N.of_nat (length row0)) :: map MLabel row0) tbl))
      with (table_msgs tbl).
    rewrite take_labels_app, IH. reflexivity.
Qed.

Lemma evaluator_first_roundtrip c key g x rest :
  length (gTables g) = length (gates (cc c)) ->
  evaluator_first c (garbler_first key g (n0 c) x ++ rest)
  = Some (mkFF key (gTables g) (garbler_inputs g (n0 c) x), rest).
Proof.
  intros Hl. unfold evaluator_first, garbler_first. cbn [app].
  rewrite Hl, N.eqb_refl. rewrite <- app_assoc, <- Hl, recv_tables_app.
  assert (Hn : n0 c = length (garbler_inputs g (n0 c) x))
    by (unfold garbler_inputs; rewrite map_length, seq_length; reflexivity).
  rewrite Hn at 1. rewrite take_labels_app. reflexivity.
Qed.

Lemma evaluator_first_roundtrip0 c key g x :
  length (gTables g) = length (gates (cc c)) ->
  evaluator_first c (garbler_first key g (n0 c) x)
  = Some (mkFF key (gTables g) (garbler_inputs g (n0 c) x), []).
Proof.
  intros Hl. pose proof (evaluator_first_roundtrip c key g x [] Hl) as H.
  rewrite app_nil_r in H. exact H.
Qed.

(* ---------- garbler decoding *)
Lemma decode_all_map {A} (w : A -> wire) (l : A -> N) (os : list A) bs :
  map (fun o => decode (w o) (l o)) os = map Some bs ->
  decode_all (map w os) (map l os) = Some bs.
Proof.
  revert bs. induction os as [|o os IH]; intros [|b bs] H; cbn in *; try discriminate.
  - reflexivity.
  - injection H as H1 H2. rewrite H1, (IH bs H2). reflexivity.
Qed.

(* C16: whatever labels come back, a successful decode means every returned
   label is one of the two labels of its output wire, namely the one for the
   reported bit *)
Lemma decode_all_sound : forall ws ls bs,
  decode_all ws ls = Some bs ->
  length bs = length ws /\
  forall i, (i < length ws)%nat -> nth i ls 0 = pick (nth i ws w0) (nth i bs false).
Proof.
  induction ws as [|w ws IH]; intros ls bs H; cbn in H.
  - injection H as <-. split; [reflexivity|]. cbn. intros; lia.
  - destruct ls as [|l ls]; [discriminate|].
    destruct (decode w l) as [b|] eqn:D; [|discriminate].
    destruct (decode_all ws ls) as [bs'|] eqn:DA; [|discriminate].
    injection H as <-. destruct (IH _ _ DA) as [HL HI].
    split; [cbn; congruence|].
    intros [|i] Hi; cbn.
    + unfold decode in D. destruct (N.eqb_spec l (L0 w)); [injection D as <-; assumption|].
      destruct (N.eqb_spec l (L1 w)); [injection D as <-; assumption|discriminate].
    + apply HI. cbn in Hi. lia.
Qed.

Lemma nth_firstn_lt {A} (l : list A) d : forall n i, (i < n)%nat -> nth i (firstn n l) d = nth i l d.
Proof.
  induction l as [|a l IH]; intros n i H.
  - rewrite firstn_nil. reflexivity.
  - destruct n; [lia|]. destruct i; cbn; [reflexivity|]. apply IH. lia.
Qed.

Lemma nth_skipn_add {A} (l : list A) d : forall n i, nth i (skipn n l) d = nth (n + i) l d.
Proof.
  induction l as [|a l IH]; intros n i.
  - rewrite skipn_nil. destruct i, n; reflexivity.
  - destruct n; cbn; [reflexivity|]. apply IH.
Qed.

(* ---------- the evaluator's wire vector is the C01 encoding of (x ++ y) *)
Lemma encode_split pi rnd scratch c x y :
  wf2 c = true -> length x = n0 c -> length y = n1 c ->
  let g := garble pi rnd scratch (cc c) in
  garbler_inputs g (n0 c) x
  ++ map (fun p => pick (fst p) (snd p)) (combine (ot_wires c g) (firstn (n1 c) y))
  ++ repeat 0 (nwires (cc c) - n0 c - n1 c)
  = encode g (cc c) (x ++ y).
Proof.
  intros Hwf Hx Hy g. unfold wf2 in Hwf.
  apply andb_prop in Hwf; destruct Hwf as [Hwf Ho].
  apply andb_prop in Hwf; destruct Hwf as [Hwf Hn].
  apply Nat.eqb_eq in Hn.
  assert (Hle : (ninputs (cc c) <= nwires (cc c))%nat).
  { unfold wf in Hwf. repeat (apply andb_prop in Hwf; destruct Hwf as [Hwf ?]).
    apply Nat.leb_le. assumption. }
  destruct (garble_lengths pi rnd scratch (cc c) Hle) as [LW _]. fold g in LW.
  unfold encode. rewrite <- Hn, seq_app, map_app, <- app_assoc. cbn [Nat.add].
  f_equal; [|f_equal].
  - unfold garbler_inputs. apply map_ext_in. intros i Hi. apply in_seq in Hi.
    rewrite app_nth1 by lia. reflexivity.
  - rewrite <- Hy at 1. rewrite firstn_all. unfold ot_wires.
    apply nth_ext with (d := 0) (d' := 0).
    + rewrite !map_length, combine_length, firstn_length, skipn_length, seq_length. lia.
    + intros i Hi. rewrite map_length, combine_length, firstn_length, skipn_length in Hi.
      assert (Hi' : (i < n1 c)%nat) by lia.
      rewrite nth_indep with (d' := (fun p => pick (fst p) (snd p)) (w0, false))
        by (rewrite map_length, combine_length, firstn_length, skipn_length; lia).
      rewrite (map_nth (fun p => pick (fst p) (snd p)) _ (w0, false)).
      rewrite combine_nth by (rewrite firstn_length, skipn_length; lia).
      cbn [fst snd].
      rewrite nth_indep with (d' := (fun i0 => pick (nth i0 (gWires g) w0) (nth i0 (x ++ y) false)) 0%nat)
        by (rewrite map_length, seq_length; lia).
      rewrite (map_nth (fun i0 => pick (nth i0 (gWires g) w0) (nth i0 (x ++ y) false))).
      rewrite seq_nth by lia.
      rewrite nth_firstn_lt by lia.
      rewrite nth_skipn_add. rewrite app_nth2 by lia. rewrite Hx.
      replace (n0 c + i - n0 c)%nat with i by lia. reflexivity.
  - f_equal. lia.
Qed.

Section Thm.
  Variable pi_of_key : list N -> N -> N.

  (* C02: both parties obtain f(x, y), split per declared output *)
  Theorem session_correct (rnd : nat -> N) (key : list N) (scratch : list wire)
          (c : circ2) (x y : list bool) :
    wf2 c = true -> length x = n0 c -> length y = n1 c ->
    let r := split_bits (outs c) (bits_to_N (eval_plain (cc c) (x ++ y))) in
    exists g2e e2g,
      run_session pi_of_key ideal_ot rnd key scratch c x y = Ok r r g2e e2g /\
      r = map bits_to_N (chunks (outs c) (eval_plain (cc c) (x ++ y))).
  Proof.
    intros Hwf2 Hx Hy r.
    pose proof Hwf2 as Hwf. unfold wf2 in Hwf.
    apply andb_prop in Hwf; destruct Hwf as [Hwf Ho].
    apply andb_prop in Hwf; destruct Hwf as [Hwf Hn].
    apply Nat.eqb_eq in Hn. apply Nat.eqb_eq in Ho.
    assert (Hle : (ninputs (cc c) <= nwires (cc c))%nat).
    { pose proof Hwf as W. unfold wf in W. repeat (apply andb_prop in W; destruct W as [W ?]).
      apply Nat.leb_le. assumption. }
    set (pi := pi_of_key key).
    destruct (garble_lengths pi rnd scratch (cc c) Hle) as [LW LT].
    unfold run_session. cbv zeta. fold pi.
    set (g := garble pi rnd scratch (cc c)) in *.
    rewrite evaluator_first_roundtrip0 by exact LT.
    cbn [evaluator_query]. unfold garbler_range_ok. rewrite !N.eqb_refl. cbn [andb].
    unfold ideal_ot. unfold evaluator_eval. cbn [ffLabels ffTables ffKey]. fold pi.
    pose proof (encode_split pi rnd scratch c x y Hwf2 Hx Hy) as ES. cbv zeta in ES. fold g in ES.
    rewrite ES.
    assert (Hxy : length (x ++ y) = ninputs (cc c)) by (rewrite app_length; lia).
    destruct (garble_decoded_outputs pi rnd scratch (cc c) (x ++ y) Hwf Hxy) as (ew & GE & DEC).
    fold g in GE, DEC. unfold geval in GE. unfold geval. rewrite GE.
    unfold garbler_finish, out_wires.
    rewrite (decode_all_map (fun o => nth o (gWires g) w0) (fun o => nth o ew 0)
               (output_wires (cc c)) (eval_plain (cc c) (x ++ y)) DEC).
    unfold evaluator_result, result_msg. rewrite big_bytes_roundtrip.
    unfold garbler_result. fold r.
    eexists. eexists. split; [reflexivity|].
    unfold r. apply split_bits_spec.
    unfold eval_plain. rewrite map_length. unfold output_wires. rewrite seq_length. lia.
  Qed.

  (* C16: the garbler's result, if it returns one, is determined by which of the
     two labels came back; hence a wrong accepted bit means the other party
     produced the honest label xor R *)
  Theorem garbler_wrong_implies_forgery (rnd : nat -> N) (key : list N) (scratch : list wire)
          (c : circ2) (x y : list bool) (returned : list N) (bits : list bool) :
    wf2 c = true -> length x = n0 c -> length y = n1 c ->
    let g := garble (pi_of_key key) rnd scratch (cc c) in
    garbler_finish c g returned = Some bits ->
    length bits = noutputs (cc c) /\
    forall i, (i < noutputs (cc c))%nat ->
      let honest := pick (nth i (out_wires c g) w0) (nth i (eval_plain (cc c) (x ++ y)) false) in
      (nth i bits false = nth i (eval_plain (cc c) (x ++ y)) false /\ nth i returned 0 = honest) \/
      (nth i bits false <> nth i (eval_plain (cc c) (x ++ y)) false /\
       nth i returned 0 = lxor honest (gR g)).
  Proof.
    intros Hwf2 Hx Hy g Hfin.
    unfold garbler_finish in Hfin.
    destruct (decode_all_sound _ _ _ Hfin) as [HL HI].
    assert (LO : length (out_wires c g) = noutputs (cc c))
      by (unfold out_wires, output_wires; rewrite map_length, seq_length; reflexivity).
    rewrite LO in *. split; [exact HL|].
    intros i Hi honest. specialize (HI i Hi).
    (* the output wire satisfies L1 = L0 xor R *)
    pose proof Hwf2 as Hwf. unfold wf2 in Hwf.
    apply andb_prop in Hwf; destruct Hwf as [Hwf Ho].
    apply andb_prop in Hwf; destruct Hwf as [Hwf Hn].
    apply Nat.eqb_eq in Hn.
    assert (Hxy : length (x ++ y) = ninputs (cc c)) by (rewrite app_length; lia).
    pose proof (garble_output_wires_ok (pi_of_key key) rnd scratch (cc c) Hwf) as WOK.
    fold g in WOK.
    assert (Hin : In (nth i (output_wires (cc c)) 0%nat) (output_wires (cc c))).
    { apply nth_In. unfold output_wires. rewrite seq_length. exact Hi. }
    specialize (WOK _ Hin).
    assert (Hw : nth i (out_wires c g) w0 = nth (nth i (output_wires (cc c)) 0%nat) (gWires g) w0).
    { unfold out_wires.
      rewrite nth_indep with (d' := (fun o => nth o (gWires g) w0) 0%nat)
        by (rewrite map_length; unfold output_wires; rewrite seq_length; exact Hi).
      rewrite (map_nth (fun o => nth o (gWires g) w0)). reflexivity. }
    unfold honest. rewrite Hw in *. rewrite HI.
    destruct (nth i bits false), (nth i (eval_plain (cc c) (x ++ y)) false); cbn [pick].
    - left; split; reflexivity.
    - right; split; [discriminate|]. rewrite WOK. reflexivity.
    - right; split; [discriminate|]. rewrite WOK. unfold lxor. rewrite N.lxor_assoc, N.lxor_nilpotent, N.lxor_0_r. reflexivity.
    - left; split; reflexivity.
  Qed.
End Thm.

Lemma range_check_spec c off cnt :
  garbler_range_ok c off cnt = true <-> off = N.of_nat (n0 c) /\ cnt = N.of_nat (n1 c).
Proof.
  unfold garbler_range_ok. rewrite andb_true_iff, !N.eqb_eq. tauto.
Qed.

Lemma gate_count_check c key cnt rest :
  cnt <> N.of_nat (length (gates (cc c))) ->
  evaluator_first c (MData key :: MU32 cnt :: rest) = None.
Proof.
  intros H. unfold evaluator_first. destruct (N.eqb_spec cnt (N.of_nat (length (gates (cc c))))); [contradiction|reflexivity].
Qed.
