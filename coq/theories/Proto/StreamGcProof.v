(* StreamGcProof.v — C05_gc_sound: the step list Program.GC (as it is now)
   returns never lets a circuit step write a wire id that a value still to be
   read mentions.  Static part: Lang/GcProof.v (gc_fixed_form).  Here: the
   wire allocator's ownership invariant along the execution. *)
From Coq Require Import NArith ZArith List Bool Arith Lia Permutation.
From Coq Require Import FMapPositive.
From Mpc Require Import Circuit.Circuit Lang.Gc Lang.GcProof Proto.Stream Proto.StreamProof Proto.StreamSimProof Proto.StreamCircProof.
Import ListNotations.
Local Open Scope nat_scope.

(* ------------------------------------------------------------------ *)
(** * Lists *)

Lemma NoDup_app_iff {A} (a b : list A) :
  NoDup (a ++ b) <-> NoDup a /\ NoDup b /\ (forall x, In x a -> ~ In x b).
Proof.
  induction a as [|h t IH]; simpl.
  - split; [intros H; repeat split; auto; constructor | intros (_ & H & _); exact H].
  - split.
    + intros H. inversion H as [|? ? Hn Hd]; subst. apply IH in Hd as (H1 & H2 & H3).
      repeat split; auto.
      * constructor; [|exact H1]. intros Hi. apply Hn, in_or_app. auto.
      * intros x [<-|Hx] Hb; [apply Hn, in_or_app; auto | exact (H3 x Hx Hb)].
    + intros (H1 & H2 & H3). inversion H1 as [|? ? Hn Hd]; subst. constructor.
      * intros Hi. apply in_app_or in Hi as [Hi|Hi]; [auto | exact (H3 h (or_introl eq_refl) Hi)].
      * apply IH. repeat split; auto.
Qed.

Lemma block_length b n : length (block b n) = n.
Proof. unfold block. rewrite map_length, seq_length. reflexivity. Qed.

Lemma in_block b n id : In id (block b n) <-> (b <= id /\ id < b + N.of_nat n)%N.
Proof.
  unfold block. rewrite in_map_iff. split.
  - intros (i & <- & Hi). apply in_seq in Hi. lia.
  - intros [H1 H2]. exists (N.to_nat (id - b)). split; [lia|]. apply in_seq. lia.
Qed.

Lemma NoDup_block b n : NoDup (block b n).
Proof.
  unfold block. apply FinFun.Injective_map_NoDup; [|apply seq_NoDup].
  intros x y H. lia.
Qed.

Lemma hd_block b n : n <> 0 -> hd 0%N (block b n) = b.
Proof. destruct n; [congruence|]. intros _. unfold block. simpl. lia. Qed.

(* ------------------------------------------------------------------ *)
(** * Association lists *)

Lemma lookup_set_key_eq {A} k (a : A) l : lookup k (set_key k a l) = Some a.
Proof.
  induction l as [|[k' a'] t IH]; simpl; [rewrite N.eqb_refl; reflexivity|].
  destruct (N.eqb k k') eqn:E; simpl; [rewrite N.eqb_refl; reflexivity | rewrite E; exact IH].
Qed.

Lemma lookup_set_key_neq {A} k k' (a : A) l : k <> k' -> lookup k' (set_key k a l) = lookup k' l.
Proof.
  intros H. induction l as [|[k2 a2] t IH]; simpl.
  - destruct (N.eqb k' k) eqn:E; [apply N.eqb_eq in E; congruence | reflexivity].
  - destruct (N.eqb k k2) eqn:E; simpl.
    + apply N.eqb_eq in E. subst k2. destruct (N.eqb k' k) eqn:E2; [apply N.eqb_eq in E2; congruence | reflexivity].
    + destruct (N.eqb k' k2); [reflexivity | exact IH].
Qed.

Lemma lookup_remove_key_neq {A} k k' (l : list (N * A)) : k <> k' -> lookup k' (remove_key k l) = lookup k' l.
Proof.
  intros H. induction l as [|[k2 a2] t IH]; simpl; [reflexivity|].
  destruct (N.eqb k k2) eqn:E.
  - apply N.eqb_eq in E. subst k2. destruct (N.eqb k' k) eqn:E2; [apply N.eqb_eq in E2; congruence | reflexivity].
  - simpl. destruct (N.eqb k' k2); [reflexivity | exact IH].
Qed.

Lemma lookup_in {A} k (a : A) l : lookup k l = Some a -> In (k, a) l.
Proof.
  induction l as [|[k2 a2] t IH]; simpl; [discriminate|].
  destruct (N.eqb k k2) eqn:E; [|auto]. apply N.eqb_eq in E. intros H. inversion H. subst. auto.
Qed.

Lemma lookup_none_notin {A} k (l : list (N * A)) : lookup k l = None -> ~ In k (map fst l).
Proof.
  induction l as [|[k2 a2] t IH]; simpl; [auto|].
  destruct (N.eqb k k2) eqn:E; [discriminate|]. apply N.eqb_neq in E. intros H [H1|H1]; [congruence | exact (IH H H1)].
Qed.

Lemma lookup_remove_key_eq {A} k (l : list (N * A)) : NoDup (map fst l) -> lookup k (remove_key k l) = None.
Proof.
  induction l as [|[k2 a2] t IH]; simpl; [reflexivity|]. intros H. inversion H as [|? ? Hn Hd]; subst.
  destruct (N.eqb k k2) eqn:E.
  - apply N.eqb_eq in E. subst k2. destruct (lookup k t) eqn:L; [|reflexivity].
    exfalso. apply Hn. apply lookup_in in L. apply in_map_iff. exists (k, a). auto.
  - simpl. rewrite E. apply IH, Hd.
Qed.

Lemma keys_set_key {A} k (a : A) l : lookup k l <> None -> map fst (set_key k a l) = map fst l.
Proof.
  induction l as [|[k2 a2] t IH]; simpl; [congruence|].
  destruct (N.eqb k k2) eqn:E; simpl.
  - apply N.eqb_eq in E. subst. reflexivity.
  - intros H. rewrite IH by exact H. reflexivity.
Qed.

Lemma keys_remove_key_incl {A} k (l : list (N * A)) x : In x (map fst (remove_key k l)) -> In x (map fst l).
Proof.
  induction l as [|[k2 a2] t IH]; simpl; [auto|].
  destruct (N.eqb k k2); simpl; [auto|]. intros [H|H]; auto.
Qed.

Lemma NoDup_remove_key {A} k (l : list (N * A)) : NoDup (map fst l) -> NoDup (map fst (remove_key k l)).
Proof.
  induction l as [|[k2 a2] t IH]; simpl; [auto|]. intros H. inversion H as [|? ? Hn Hd]; subst.
  destruct (N.eqb k k2); [exact Hd|]. simpl. constructor; [|apply IH, Hd].
  intros Hi. apply Hn. eapply keys_remove_key_incl; eauto.
Qed.

(* ------------------------------------------------------------------ *)
(** * Owned blocks and free ids *)

Definition oblock (e : entry) : list N :=
  match ewires e with
  | Some ws => ws
  | None => match ebase e, eids e with Some b, Some ids => block b (length ids) | _, _ => [] end
  end.

Definition entry_wf (e : entry) : Prop :=
  match ewires e with
  | Some ws => ws = block (hd 0%N ws) (length ws) /\
               (ebase e = None \/ ebase e = Some (hd 0%N ws)) /\
               match eids e with Some ids => length ids = length ws | None => True end
  | None => exists b ids, ebase e = Some b /\ eids e = Some ids
  end.

Definition free_l (fl : list (nat * list N)) : list N :=
  flat_map (fun p => flat_map (fun b => block b (fst p)) (snd p)) fl.
Definition free_ids (w : walloc) : list N := free_l (wfree w).

Lemma free_pop bits b rest : forall fl,
  lookup_nat bits fl = Some (b :: rest) ->
  exists X Y, free_l fl = X ++ block b bits ++ Y /\ free_l (set_nat bits rest fl) = X ++ Y.
Proof.
  induction fl as [|[k l] t IH]; simpl; [discriminate|].
  destruct (Nat.eqb bits k) eqn:E.
  - apply Nat.eqb_eq in E. subst k. intros H. inversion H; subst. exists [], (flat_map (fun b => block b bits) rest ++ free_l t).
    simpl. split; [rewrite <- app_assoc; reflexivity | reflexivity].
  - intros H. destruct (IH H) as (X & Y & E1 & E2). simpl.
    exists (flat_map (fun b0 => block b0 k) l ++ X), Y. unfold free_l in *. simpl. rewrite E1, E2, <- !app_assoc. auto.
Qed.

Lemma free_push bits b : forall fl,
  exists X Y, free_l fl = X ++ Y /\ free_l (push_free bits b fl) = X ++ block b bits ++ Y.
Proof.
  unfold push_free. induction fl as [|[k l] t IH]; simpl.
  - exists [], []. simpl. rewrite app_nil_r. auto.
  - destruct (Nat.eqb bits k) eqn:E.
    + apply Nat.eqb_eq in E. subst k. exists [], (flat_map (fun b0 => block b0 bits) l ++ free_l t).
      simpl. split; [reflexivity|]. rewrite <- app_assoc. reflexivity.
    + destruct IH as (X & Y & E1 & E2). simpl.
      exists (flat_map (fun b0 => block b0 k) l ++ X), Y. unfold free_l in *. simpl.
      rewrite E1, <- !app_assoc. split; [reflexivity|]. f_equal.
      destruct (lookup_nat bits t); exact E2.
Qed.

Lemma nodup_mid_remove {A} (X B Y : list A) :
  NoDup (X ++ B ++ Y) -> NoDup (X ++ Y) /\ NoDup B /\ (forall x, In x B -> ~ In x (X ++ Y)).
Proof.
  intros H. apply (Permutation_NoDup (l' := B ++ X ++ Y)) in H.
  2:{ rewrite !app_assoc. apply Permutation_app_tail, Permutation_app_comm. }
  apply NoDup_app_iff in H as (H1 & H2 & H3). auto.
Qed.

Lemma nodup_mid_insert {A} (X B Y : list A) :
  NoDup (X ++ Y) -> NoDup B -> (forall x, In x B -> ~ In x (X ++ Y)) -> NoDup (X ++ B ++ Y).
Proof.
  intros H1 H2 H3. apply (Permutation_NoDup (l := B ++ X ++ Y)).
  - rewrite !app_assoc. apply Permutation_app_tail, Permutation_app_comm.
  - apply NoDup_app_iff. auto.
Qed.

Section Dyn.
  Variable Kt : list N.        (* keys of the constants of prog.Constants *)
  Variables zk ok : N.         (* keys of {zero}, {one} *)
  Variables zero one : N.      (* their wire ids *)
  Variable NC : list N.        (* keys of the non-constant values: arguments and all results *)
  Variable steps0 : list instr.
  Variable args : list (N * nat).

  Hypothesis zk_owned : ~ In zk Kt.
  Hypothesis ok_owned : ~ In ok Kt.
  Hypothesis zk_nc : ~ In zk NC.
  Hypothesis ok_nc : ~ In ok NC.
  Hypothesis kt_nc : forall k, In k Kt -> ~ In k NC.

  Definition owned_ids (l : list (N * entry)) : list N :=
    flat_map (fun p => if mem (fst p) Kt then [] else oblock (snd p)) l.

  Lemma owned_in l k e id :
    lookup k l = Some e -> ~ In k Kt -> In id (oblock e) -> In id (owned_ids l).
  Proof.
    intros L Hk Hid. apply lookup_in in L. unfold owned_ids. apply in_flat_map.
    exists (k, e). split; [exact L|]. simpl. apply mem_false in Hk. rewrite Hk. exact Hid.
  Qed.

  Lemma owned_inv l id : In id (owned_ids l) -> NoDup (map fst l) ->
    exists k e, lookup k l = Some e /\ ~ In k Kt /\ In id (oblock e).
  Proof.
    intros H Hnd. unfold owned_ids in H. apply in_flat_map in H as ([k e] & Hin & Hid). cbn [fst snd] in Hid.
    destruct (mem k Kt) eqn:M; [destruct Hid|]. exists k, e.
    split; [apply in_lookup0; auto|]. split; [apply mem_false, M | exact Hid].
  Qed.

  Lemma owned_set_key l k e e' :
    lookup k l = Some e -> oblock e' = oblock e -> owned_ids (set_key k e' l) = owned_ids l.
  Proof.
    induction l as [|[k2 e2] t IH]; simpl; [discriminate|].
    destruct (N.eqb k k2) eqn:E.
    - apply N.eqb_eq in E. subst k2. intros H Ho. inversion H; subst. unfold owned_ids. simpl. rewrite Ho. reflexivity.
    - intros H Ho. unfold owned_ids in *. simpl. rewrite IH by assumption. reflexivity.
  Qed.

  Lemma owned_remove_key l k e :
    lookup k l = Some e ->
    Permutation (owned_ids l) ((if mem k Kt then [] else oblock e) ++ owned_ids (remove_key k l)).
  Proof.
    induction l as [|[k2 e2] t IH]; simpl; [discriminate|].
    destruct (N.eqb k k2) eqn:E.
    - apply N.eqb_eq in E. subst k2. intros H. inversion H; subst. unfold owned_ids. simpl. apply Permutation_refl.
    - intros H. unfold owned_ids in *. simpl. specialize (IH H).
      rewrite (Permutation_app_head _ IH), !app_assoc. apply Permutation_app_tail, Permutation_app_comm.
  Qed.

  (* witness that an id belongs to the block of an allocated owner related to v *)
  Definition related (k v : N) : Prop := ~ In k NC \/ In v (fdesc steps0 k).

  Record ginv (w : walloc) (defd gcd : list N) : Prop := {
    g_keys : NoDup (map fst (whash w));
    g_geo : NoDup (owned_ids (whash w) ++ free_ids w);
    g_lt : forall id, In id (owned_ids (whash w) ++ free_ids w) -> (id < wnext w)%N;
    g_ewf : forall k e, lookup k (whash w) = Some e -> ~ In k Kt -> entry_wf e;
    g_args : forall k e, lookup k (whash w) = Some e -> eids e = None ->
             exists ws, ewires e = Some ws /\ lookup k args = Some (length ws);
    g_kt : forall k, In k Kt -> exists e ids, lookup k (whash w) = Some e /\ eids e = Some ids /\
                                  forall id, In id ids -> id = zero \/ id = one;
    g_z : exists ez eo, lookup zk (whash w) = Some ez /\ oblock ez = [zero] /\
                        lookup ok (whash w) = Some eo /\ oblock eo = [one];
    g_prov : forall v e, lookup v (whash w) = Some e ->
             (exists u, In u gcd /\ In v (fdesc steps0 u)) \/
             (forall id, In id (ids_of w v) ->
                exists k e', lookup k (whash w) = Some e' /\ ~ In k Kt /\ In id (oblock e') /\ related k v);
    g_alloc : forall k, In k NC -> (allocated w k = true <-> In k defd /\ ~ In k gcd)
  }.

  Lemma self_desc k : In k (fdesc steps0 k).
  Proof. unfold fdesc. apply fold_fstep_mono. left. reflexivity. Qed.

  Lemma allocated_lookup w k : allocated w k = true <-> exists e, lookup k (whash w) = Some e.
  Proof. unfold allocated. destruct (lookup k (whash w)); split; intros H; eauto; try discriminate. destruct H; discriminate. Qed.

  (* ---- the three cases of AssignedIDs *)

  (* T1/T2: the value is allocated *)
  Lemma aid_existing w defd gcd v bits e ids w' :
    ginv w defd gcd -> lookup v (whash w) = Some e ->
    (forall b, lookup v args = Some b -> bits = b) ->
    assigned_ids w v bits = (ids, w') ->
    ginv w' defd gcd /\ ids = ids_of w v /\ (forall k, ids_of w' k = ids_of w k) /\
    (forall k, allocated w' k = allocated w k) /\
    (forall k e1, lookup k (whash w) = Some e1 -> exists e2, lookup k (whash w') = Some e2 /\ oblock e2 = oblock e1) /\
    wnext w' = wnext w /\ (forall id, In id (free_ids w') -> In id (free_ids w)).
  Proof.
    intros G L Hb HA. unfold assigned_ids in HA. rewrite L in HA.
    destruct (eids e) as [ids0|] eqn:Ei.
    - injection HA as E1 E2. subst ids w'.
      split; [exact G|]. repeat split; auto; try (unfold ids_of; rewrite L, Ei; reflexivity); try (intros k e1 H; eauto).
    - destruct (g_args _ _ _ G v e L Ei) as (ws & Ew & La).
      specialize (Hb _ La). subst bits.
      rewrite Ew, firstn_all, Nat.sub_diag in HA. cbn [repeat] in HA. rewrite app_nil_r in HA.
      destruct (new_ids w (length ws)) as [nb w1] eqn:En. injection HA as E1 E2. subst ids w'.
      assert (Hw1 : whash w1 = whash w /\ wnext w1 = wnext w /\
                    exists X B Y, free_ids w = X ++ B ++ Y /\ free_ids w1 = X ++ Y).
      { unfold new_ids in En. destruct (lookup_nat (length ws) (wfree w)) as [[|b rest]|] eqn:Ef.
        - injection En as <- <-. repeat split; auto. exists [], [], (free_ids w). auto.
        - injection En as <- <-. cbn [whash wnext]. repeat split; auto.
          destruct (free_pop _ _ _ _ Ef) as (X & Y & E1 & E2). exists X, (block b (length ws)), Y.
          unfold free_ids. cbn [wfree]. auto.
        - injection En as <- <-. repeat split; auto. exists [], [], (free_ids w). auto. }
      destruct Hw1 as (Hh & Hn & X & B & Y & Ef & Ef1).
      set (e' := mkEntry (ebase e) (Some ws) (Some ws)).
      set (w' := mkWalloc (set_key v e' (whash w1)) (wfree w1) (wnext w1)).
      assert (Hob : oblock e' = oblock e) by (unfold oblock; cbn; rewrite Ew; reflexivity).
      assert (Hlk : forall k, k <> v -> lookup k (whash w') = lookup k (whash w)).
      { intros k Hk. cbn. rewrite Hh. apply lookup_set_key_neq. congruence. }
      assert (Hlv : lookup v (whash w') = Some e') by (cbn; apply lookup_set_key_eq).
      assert (Hids : forall k, ids_of w' k = ids_of w k).
      { intros k. unfold ids_of. destruct (N.eq_dec k v) as [->|Hk].
        - rewrite Hlv, L, Ei, Ew. reflexivity.
        - rewrite Hlk by exact Hk. reflexivity. }
      assert (Hfree : forall id, In id (free_ids w') -> In id (free_ids w)).
      { intros id. change (free_ids w') with (free_ids w1). rewrite Ef, Ef1. intros H.
        apply in_app_or in H as [H|H]; apply in_or_app; [auto | right; apply in_or_app; auto]. }
      assert (Hown : owned_ids (whash w') = owned_ids (whash w)).
      { cbn. rewrite Hh. apply (owned_set_key _ _ e); auto. }
      assert (Hlk' : forall k e1, lookup k (whash w) = Some e1 -> exists e2, lookup k (whash w') = Some e2 /\ oblock e2 = oblock e1).
      { intros k e1 H. destruct (N.eq_dec k v) as [->|Hk].
        - rewrite L in H. inversion H; subst. eauto.
        - rewrite <- Hlk in H by exact Hk. eauto. }
      assert (GI : ginv w' defd gcd).
      { constructor.
        * cbn. rewrite Hh, keys_set_key by (rewrite L; discriminate). apply (g_keys _ _ _ G).
        * rewrite Hown. change (free_ids w') with (free_ids w1). rewrite Ef1.
          pose proof (g_geo _ _ _ G) as Hg. rewrite Ef in Hg. rewrite app_assoc in Hg |- *.
          apply nodup_mid_remove in Hg as (Hg & _). exact Hg.
        * intros id Hid. change (wnext w') with (wnext w1). rewrite Hn. apply (g_lt _ _ _ G).
          rewrite Hown in Hid. apply in_app_or in Hid as [H|H]; apply in_or_app; auto.
        * intros k e1 H Hk. destruct (N.eq_dec k v) as [->|Hkv].
          -- rewrite Hlv in H. inversion H; subst e1.
             pose proof (g_ewf _ _ _ G v e L Hk) as Hw. unfold entry_wf in *. cbn. rewrite Ew in Hw.
             destruct Hw as (H1 & H2 & _). auto.
          -- rewrite Hlk in H by exact Hkv. eapply g_ewf; eauto.
        * intros k e1 H He. destruct (N.eq_dec k v) as [->|Hkv].
          -- rewrite Hlv in H. inversion H; subst e1. discriminate.
          -- rewrite Hlk in H by exact Hkv. eapply g_args; eauto.
        * intros k Hk. destruct (g_kt _ _ _ G k Hk) as (e1 & ids & H1 & H2 & H3).
          destruct (N.eq_dec k v) as [->|Hkv]; [rewrite L in H1; inversion H1; subst; congruence|].
          exists e1, ids. rewrite Hlk by exact Hkv. auto.
        * destruct (g_z _ _ _ G) as (ez & eo & Z1 & Z2 & Z3 & Z4).
          destruct (Hlk' _ _ Z1) as (ez' & Z1' & Z2'). destruct (Hlk' _ _ Z3) as (eo' & Z3' & Z4').
          exists ez', eo'. rewrite Z2', Z4'. auto.
        * intros k e1 H.
          assert (exists e0, lookup k (whash w) = Some e0) as (e0 & H0).
          { destruct (N.eq_dec k v) as [->|Hkv]; [eauto | rewrite Hlk in H by exact Hkv; eauto]. }
          destruct (g_prov _ _ _ G k e0 H0) as [Hd|Hp]; [left; exact Hd | right].
          intros id Hid. rewrite Hids in Hid. destruct (Hp id Hid) as (k2 & e2 & P1 & P2 & P3 & P4).
          destruct (Hlk' _ _ P1) as (e2' & Q1 & Q2). exists k2, e2'. rewrite Q2. auto.
        * intros k Hk. rewrite <- (g_alloc _ _ _ G k Hk). unfold allocated.
          destruct (N.eq_dec k v) as [->|Hkv]; [rewrite Hlv, L; tauto | rewrite Hlk by exact Hkv; tauto].
      }
      split; [exact GI|]. repeat split; auto.
      * unfold ids_of. rewrite L, Ei, Ew. reflexivity.
      * intros k. unfold allocated. destruct (N.eq_dec k v) as [->|Hkv]; [rewrite Hlv, L; reflexivity | rewrite Hlk by exact Hkv; reflexivity].
  Qed.

  Lemma aid_new_shape w v bits ids w' :
    lookup v (whash w) = None -> assigned_ids w v bits = (ids, w') ->
    exists b, ids = block b bits /\
      whash w' = (v, mkEntry (Some b) None (Some ids)) :: whash w /\
      ((wnext w' = wnext w /\ exists X Y, free_ids w = X ++ ids ++ Y /\ free_ids w' = X ++ Y) \/
       (b = wnext w /\ wnext w' = (wnext w + N.of_nat bits)%N /\ free_ids w' = free_ids w)).
  Proof.
    intros L H. unfold assigned_ids in H. rewrite L in H.
    destruct (Nat.eqb bits 0) eqn:E0.
    - apply Nat.eqb_eq in E0. subst bits. injection H as <- <-. exists (wnext w). cbn.
      repeat split; auto. right. repeat split; auto. lia.
    - unfold new_ids in H. destruct (lookup_nat bits (wfree w)) as [[|b rest]|] eqn:Ef.
      + injection H as <- <-. exists (wnext w). cbn. repeat split; auto.
      + injection H as <- <-. exists b. cbn. repeat split; auto. left. split; [reflexivity|].
        destruct (free_pop _ _ _ _ Ef) as (X & Y & E1 & E2). exists X, Y. unfold free_ids. cbn. auto.
      + injection H as <- <-. exists (wnext w). cbn. repeat split; auto.
  Qed.

  Lemma aid_new w defd gcd v bits ids w' :
    ginv w defd gcd -> lookup v (whash w) = None -> (In v NC -> ~ In v gcd) ->
    assigned_ids w v bits = (ids, w') ->
    ginv w' (v :: defd) gcd /\ ids_of w' v = ids /\ NoDup ids /\
    (forall k, k <> v -> ids_of w' k = ids_of w k) /\
    (forall k, k <> v -> allocated w' k = allocated w k) /\ allocated w' v = true /\
    (forall k e1, lookup k (whash w) = Some e1 -> lookup k (whash w') = Some e1) /\
    (forall id, In id ids -> ~ In id (owned_ids (whash w))) /\
    (exists ev, lookup v (whash w') = Some ev /\ ewires ev = None /\ eids ev = Some ids /\ oblock ev = ids).
  Proof.
    intros G L Hg H.
    assert (HvK : ~ In v Kt).
    { intros Hk. destruct (g_kt _ _ _ G v Hk) as (e & ? & Le & _). congruence. }
    destruct (aid_new_shape _ _ _ _ _ L H) as (b & Hids & Hh & Hcase).
    set (ev := mkEntry (Some b) None (Some ids)) in *.
    assert (Hob : oblock ev = ids).
    { unfold oblock, ev. cbn. rewrite Hids, block_length. reflexivity. }
    assert (Hlk : forall k, k <> v -> lookup k (whash w') = lookup k (whash w)).
    { intros k Hk. rewrite Hh. cbn. destruct (N.eqb k v) eqn:E; [apply N.eqb_eq in E; congruence | reflexivity]. }
    assert (Hlv : lookup v (whash w') = Some ev) by (rewrite Hh; cbn; rewrite N.eqb_refl; reflexivity).
    assert (Hlk' : forall k e1, lookup k (whash w) = Some e1 -> lookup k (whash w') = Some e1).
    { intros k e1 H1. rewrite Hlk; [exact H1|]. intros ->. congruence. }
    assert (Hown : owned_ids (whash w') = ids ++ owned_ids (whash w)).
    { rewrite Hh. unfold owned_ids. cbn [flat_map fst snd]. apply mem_false in HvK. rewrite HvK, Hob. reflexivity. }
    assert (Hidsk : forall k, k <> v -> ids_of w' k = ids_of w k).
    { intros k Hk. unfold ids_of. rewrite Hlk by exact Hk. reflexivity. }
    assert (Hidsv : ids_of w' v = ids) by (unfold ids_of; rewrite Hlv; reflexivity).
    assert (Hnew : forall id, In id ids -> ~ In id (owned_ids (whash w))).
    { intros id Hid Ho. destruct Hcase as [(Hn & X & Y & F1 & F2)|(Hb & Hn & F)].
      - pose proof (g_geo _ _ _ G) as Hg0. apply NoDup_app_iff in Hg0 as (_ & _ & D).
        apply (D id Ho). rewrite F1. apply in_or_app. right. apply in_or_app. auto.
      - assert (id < wnext w)%N by (apply (g_lt _ _ _ G); apply in_or_app; auto).
        rewrite Hids, Hb in Hid. apply in_block in Hid. lia. }
    assert (Hnd : NoDup ids) by (rewrite Hids; apply NoDup_block).
    assert (GI : ginv w' (v :: defd) gcd).
    { constructor.
      - rewrite Hh. cbn. constructor; [apply lookup_none_notin, L | apply (g_keys _ _ _ G)].
      - rewrite Hown. pose proof (g_geo _ _ _ G) as Hg0.
        destruct Hcase as [(Hn & X & Y & F1 & F2)|(Hb & Hn & F)].
        + rewrite F2. rewrite F1 in Hg0.
          apply (Permutation_NoDup (l := (owned_ids (whash w) ++ X) ++ ids ++ Y)).
          * rewrite <- !app_assoc. rewrite (app_assoc (owned_ids (whash w)) X (ids ++ Y)).
            rewrite (app_assoc (owned_ids (whash w)) X Y). apply Permutation_app_swap_app.
          * rewrite <- app_assoc. exact Hg0.
        + rewrite F, <- app_assoc. apply NoDup_app_iff. repeat split; auto.
          intros id Hid Ho. assert (id < wnext w)%N by (apply (g_lt _ _ _ G); exact Ho).
          rewrite Hids, Hb in Hid. apply in_block in Hid. lia.
      - intros id Hid. rewrite Hown, <- app_assoc in Hid. apply in_app_or in Hid as [Hid|Hid].
        + destruct Hcase as [(Hn & X & Y & F1 & F2)|(Hb & Hn & F)].
          * rewrite Hn. apply (g_lt _ _ _ G). apply in_or_app. right. rewrite F1. apply in_or_app. right. apply in_or_app. auto.
          * rewrite Hn. rewrite Hids, Hb in Hid. apply in_block in Hid. lia.
        + assert (id < wnext w)%N.
          { apply (g_lt _ _ _ G). apply in_app_or in Hid as [Hid|Hid]; apply in_or_app; [auto|right].
            destruct Hcase as [(Hn & X & Y & F1 & F2)|(Hb & Hn & F)].
            - rewrite F1. rewrite F2 in Hid. apply in_app_or in Hid as [?|?]; apply in_or_app; [auto | right; apply in_or_app; auto].
            - rewrite <- F. exact Hid. }
          destruct Hcase as [(Hn & _)|(_ & Hn & _)]; rewrite Hn; lia.
      - intros k e1 H1 Hk. destruct (N.eq_dec k v) as [->|Hkv].
        + rewrite Hlv in H1. injection H1 as <-. unfold entry_wf, ev. cbn. eauto.
        + rewrite Hlk in H1 by exact Hkv. eapply g_ewf; eauto.
      - intros k e1 H1 He. destruct (N.eq_dec k v) as [->|Hkv].
        + rewrite Hlv in H1. injection H1 as <-. discriminate.
        + rewrite Hlk in H1 by exact Hkv. eapply g_args; eauto.
      - intros k Hk. destruct (g_kt _ _ _ G k Hk) as (e1 & i1 & H1 & H2 & H3). exists e1, i1. auto.
      - destruct (g_z _ _ _ G) as (ez & eo & Z1 & Z2 & Z3 & Z4). exists ez, eo. auto.
      - intros k e1 H1. destruct (N.eq_dec k v) as [->|Hkv].
        + right. intros id Hid. rewrite Hidsv in Hid. exists v, ev. rewrite Hob. repeat split; auto.
          right. apply self_desc.
        + rewrite Hlk in H1 by exact Hkv. destruct (g_prov _ _ _ G k e1 H1) as [Hd|Hp]; [left; exact Hd|right].
          intros id Hid. rewrite Hidsk in Hid by exact Hkv.
          destruct (Hp id Hid) as (k2 & e2 & P1 & P2 & P3 & P4). exists k2, e2. auto.
      - intros k Hk. destruct (N.eq_dec k v) as [->|Hkv].
        + unfold allocated. rewrite Hlv. split; [intros _; split; [left; reflexivity | auto] | reflexivity].
        + unfold allocated. rewrite Hlk by exact Hkv.
          pose proof (g_alloc _ _ _ G k Hk) as A. unfold allocated in A. rewrite A. simpl. intuition congruence. }
    split; [exact GI|]. split; [exact Hidsv|]. split; [exact Hnd|]. split; [exact Hidsk|].
    split; [intros k Hk; unfold allocated; rewrite Hlk by exact Hk; reflexivity|].
    split; [unfold allocated; rewrite Hlv; reflexivity|].
    split; [exact Hlk'|]. split; [exact Hnew|].
    exists ev. repeat split; auto.
  Qed.

  (* ---- GCWires *)
  Lemma gcw_shape w u e :
    lookup u (whash w) = Some e -> entry_wf e ->
    exists w', gc_wires w u = Some w' /\ whash w' = remove_key u (whash w) /\ wnext w' = wnext w /\
      (free_ids w' = free_ids w \/
       exists X Y, free_ids w = X ++ Y /\ free_ids w' = X ++ oblock e ++ Y).
  Proof.
    intros L Hw. unfold gc_wires. rewrite L. eexists. split; [reflexivity|]. cbn [whash wnext].
    repeat split; auto. unfold free_ids. cbn [wfree]. unfold entry_wf, oblock in *.
    destruct (ewires e) as [ws|] eqn:Ew.
    - destruct Hw as (Hb & Hbase & Hlen).
      destruct (eids e) as [[|i0 rest]|] eqn:Ei;
        [left; destruct ws; reflexivity| |left; destruct ws; reflexivity].
      destruct ws as [|w0 ws']; [simpl in Hlen; discriminate|].
      right. simpl in Hlen. cbn [hd] in *.
      assert (Eb : match match ebase e with None => Some w0 | Some b => Some b end with None => i0 | Some b => b end = w0).
      { destruct Hbase as [->| ->]; reflexivity. }
      rewrite Eb. destruct (free_push (S (length rest)) w0 (wfree w)) as (X & Y & E1 & E2).
      exists X, Y. split; [exact E1|]. rewrite E2, Hb. cbn [length]. rewrite <- Hlen. reflexivity.
    - destruct Hw as (b & ids & Hb & Hi). rewrite Hb, Hi.
      destruct ids as [|i0 rest]; [left; reflexivity|]. right.
      destruct (free_push (S (length rest)) b (wfree w)) as (X & Y & E1 & E2).
      exists X, Y. split; [exact E1|]. rewrite E2. reflexivity.
  Qed.

  Lemma gcw_inv w defd gcd u e :
    ginv w defd gcd -> lookup u (whash w) = Some e -> In u NC ->
    exists w', gc_wires w u = Some w' /\ ginv w' defd (u :: gcd) /\
               (forall k, k <> u -> lookup k (whash w') = lookup k (whash w)) /\
               allocated w' u = false.
  Proof.
    intros G L Hnc.
    assert (HuK : ~ In u Kt) by (intros Hk; exact (kt_nc u Hk Hnc)).
    destruct (gcw_shape w u e L (g_ewf _ _ _ G u e L HuK)) as (w' & Hg & Hh & Hn & Hfree).
    exists w'. split; [exact Hg|].
    assert (Hlk : forall k, k <> u -> lookup k (whash w') = lookup k (whash w)).
    { intros k Hk. rewrite Hh. apply lookup_remove_key_neq. congruence. }
    assert (Hlu : lookup u (whash w') = None) by (rewrite Hh; apply lookup_remove_key_eq, (g_keys _ _ _ G)).
    assert (Hperm : Permutation (owned_ids (whash w)) (oblock e ++ owned_ids (whash w'))).
    { rewrite Hh. pose proof (owned_remove_key _ _ _ L) as P. apply mem_false in HuK. rewrite HuK in P. exact P. }
    assert (Hgeo : NoDup (owned_ids (whash w') ++ free_ids w') /\
                   forall id, In id (owned_ids (whash w') ++ free_ids w') -> In id (owned_ids (whash w) ++ free_ids w)).
    { pose proof (g_geo _ _ _ G) as Hg0.
      apply (Permutation_NoDup (l' := (oblock e ++ owned_ids (whash w')) ++ free_ids w)) in Hg0;
        [|apply Permutation_app_tail, Hperm].
      destruct Hfree as [F|(X & Y & F1 & F2)].
      - rewrite F. split.
        + rewrite <- app_assoc in Hg0. apply NoDup_app_iff in Hg0 as (_ & Hg0 & _). exact Hg0.
        + intros id Hid. apply in_app_or in Hid as [H|H]; apply in_or_app; [left|auto].
          apply (Permutation_in _ (Permutation_sym Hperm)). apply in_or_app. auto.
      - rewrite F2. rewrite F1 in Hg0. split.
        + apply (Permutation_NoDup (l := (oblock e ++ owned_ids (whash w')) ++ X ++ Y)); [|exact Hg0].
          rewrite <- !app_assoc. rewrite (app_assoc (owned_ids (whash w')) X (oblock e ++ Y)).
          rewrite (app_assoc (owned_ids (whash w')) X Y). apply Permutation_sym, Permutation_app_swap_app.
        + intros id Hid. rewrite F1. apply in_app_or in Hid as [H|H].
          * apply in_or_app. left. apply (Permutation_in _ (Permutation_sym Hperm)). apply in_or_app. auto.
          * apply in_app_or in H as [H|H]; [apply in_or_app; right; apply in_or_app; auto|].
            apply in_app_or in H as [H|H]; [|apply in_or_app; right; apply in_or_app; auto].
            apply in_or_app. left. apply (Permutation_in _ (Permutation_sym Hperm)). apply in_or_app. auto. }
    destruct Hgeo as [Hgeo Hincl].
    split; [|split; [exact Hlk | unfold allocated; rewrite Hlu; reflexivity]].
    constructor.
    - rewrite Hh. apply NoDup_remove_key, (g_keys _ _ _ G).
    - exact Hgeo.
    - intros id Hid. rewrite Hn. apply (g_lt _ _ _ G), Hincl, Hid.
    - intros k e1 H1 Hk. destruct (N.eq_dec k u) as [->|Hku]; [congruence|].
      rewrite Hlk in H1 by exact Hku. eapply g_ewf; eauto.
    - intros k e1 H1 He. destruct (N.eq_dec k u) as [->|Hku]; [congruence|].
      rewrite Hlk in H1 by exact Hku. eapply g_args; eauto.
    - intros k Hk. destruct (g_kt _ _ _ G k Hk) as (e1 & i1 & H1 & H2 & H3). exists e1, i1.
      rewrite Hlk; [auto|]. intros ->. contradiction.
    - destruct (g_z _ _ _ G) as (ez & eo & Z1 & Z2 & Z3 & Z4). exists ez, eo.
      rewrite !Hlk; [auto| |]; intros E; subst; contradiction.
    - intros v e1 H1. destruct (N.eq_dec v u) as [->|Hvu]; [congruence|].
      rewrite Hlk in H1 by exact Hvu.
      destruct (in_dec N.eq_dec v (fdesc steps0 u)) as [Hd|Hd]; [left; exists u; split; [left; reflexivity | exact Hd]|].
      destruct (g_prov _ _ _ G v e1 H1) as [(u0 & Hu0 & Hd0)|Hp]; [left; exists u0; split; [right; exact Hu0 | exact Hd0]|].
      right. intros id Hid.
      assert (Hids : ids_of w' v = ids_of w v) by (unfold ids_of; rewrite Hlk by exact Hvu; reflexivity).
      rewrite Hids in Hid. destruct (Hp id Hid) as (k & e2 & P1 & P2 & P3 & P4).
      exists k, e2. repeat split; auto. rewrite Hlk; [exact P1|].
      intros ->. destruct P4 as [P4|P4]; contradiction.
    - intros k Hk. unfold allocated. destruct (N.eq_dec k u) as [->|Hku].
      + rewrite Hlu. split; [discriminate|]. intros [_ H]. exfalso. apply H. left. reflexivity.
      + rewrite Hlk by exact Hku. pose proof (g_alloc _ _ _ G k Hk) as A. unfold allocated in A. rewrite A.
        simpl. intuition congruence.
  Qed.

  (* ---- the alias rewiring: out[bit] = id *)
  Lemma setids_inv w defd gcd v ev ids' :
    ginv w defd gcd -> lookup v (whash w) = Some ev -> ewires ev = None -> In v NC ->
    (forall old, eids ev = Some old -> length ids' = length old) ->
    ((exists u, In u gcd /\ In v (fdesc steps0 u)) \/
     forall id, In id ids' -> exists k e', lookup k (whash w) = Some e' /\ ~ In k Kt /\ In id (oblock e') /\ related k v) ->
    ginv (set_ids w v ids') defd gcd /\
    (forall k, k <> v -> lookup k (whash (set_ids w v ids')) = lookup k (whash w)) /\
    (forall k, allocated (set_ids w v ids') k = allocated w k).
  Proof.
    intros G L Ew Hnc Hlen Hprov.
    assert (HvK : ~ In v Kt) by (intros Hk; exact (kt_nc v Hk Hnc)).
    pose proof (g_ewf _ _ _ G v ev L HvK) as Hwf. unfold entry_wf in Hwf. rewrite Ew in Hwf.
    destruct Hwf as (b & old & Hb & Ho). specialize (Hlen old Ho).
    unfold set_ids. rewrite L.
    set (e' := mkEntry (ebase ev) (ewires ev) (Some ids')).
    set (w' := mkWalloc (set_key v e' (whash w)) (wfree w) (wnext w)).
    assert (Hob : oblock e' = oblock ev).
    { unfold oblock, e'. cbn. rewrite Ew, Hb, Ho, Hlen. reflexivity. }
    assert (Hlk : forall k, k <> v -> lookup k (whash w') = lookup k (whash w)).
    { intros k Hk. cbn. apply lookup_set_key_neq. congruence. }
    assert (Hlv : lookup v (whash w') = Some e') by (cbn; apply lookup_set_key_eq).
    assert (Hlk' : forall k e1, lookup k (whash w) = Some e1 -> exists e2, lookup k (whash w') = Some e2 /\ oblock e2 = oblock e1).
    { intros k e1 H. destruct (N.eq_dec k v) as [->|Hk].
      - rewrite L in H. injection H as <-. eauto.
      - rewrite <- Hlk in H by exact Hk. eauto. }
    assert (Hown : owned_ids (whash w') = owned_ids (whash w)) by (cbn; apply (owned_set_key _ _ ev); auto).
    assert (Hal : forall k, allocated w' k = allocated w k).
    { intros k. unfold allocated. destruct (N.eq_dec k v) as [->|Hk]; [rewrite Hlv, L; reflexivity | rewrite Hlk by exact Hk; reflexivity]. }
    split; [|split; [exact Hlk | exact Hal]].
    constructor.
    - cbn. rewrite keys_set_key by (rewrite L; discriminate). apply (g_keys _ _ _ G).
    - rewrite Hown. apply (g_geo _ _ _ G).
    - intros id Hid. rewrite Hown in Hid. apply (g_lt _ _ _ G id Hid).
    - intros k e1 H Hk. destruct (N.eq_dec k v) as [->|Hkv].
      + rewrite Hlv in H. injection H as <-. unfold entry_wf, e'. cbn. rewrite Ew. eauto.
      + rewrite Hlk in H by exact Hkv. eapply g_ewf; eauto.
    - intros k e1 H He. destruct (N.eq_dec k v) as [->|Hkv].
      + rewrite Hlv in H. injection H as <-. discriminate.
      + rewrite Hlk in H by exact Hkv. eapply g_args; eauto.
    - intros k Hk. destruct (g_kt _ _ _ G k Hk) as (e1 & i1 & H1 & H2 & H3). exists e1, i1.
      rewrite Hlk; [auto|]. intros ->. contradiction.
    - destruct (g_z _ _ _ G) as (ez & eo & Z1 & Z2 & Z3 & Z4). exists ez, eo.
      rewrite !Hlk; [auto| |]; intros E; subst; contradiction.
    - intros k e1 H. destruct (N.eq_dec k v) as [->|Hkv].
      + destruct Hprov as [Hd|Hp]; [left; exact Hd|right]. intros id Hid.
        assert (Hids : ids_of w' v = ids') by (unfold ids_of; rewrite Hlv; reflexivity).
        rewrite Hids in Hid. destruct (Hp id Hid) as (k2 & e2 & P1 & P2 & P3 & P4).
        destruct (Hlk' _ _ P1) as (e3 & Q1 & Q2). exists k2, e3. rewrite Q2. auto.
      + rewrite Hlk in H by exact Hkv. destruct (g_prov _ _ _ G k e1 H) as [Hd|Hp]; [left; exact Hd|right].
        intros id Hid. assert (Hids : ids_of w' k = ids_of w k) by (unfold ids_of; rewrite Hlk by exact Hkv; reflexivity).
        rewrite Hids in Hid. destruct (Hp id Hid) as (k2 & e2 & P1 & P2 & P3 & P4).
        destruct (Hlk' _ _ P1) as (e3 & Q1 & Q2). exists k2, e3. rewrite Q2. auto.
    - intros k Hk. rewrite Hal. apply (g_alloc _ _ _ G k Hk).
  Qed.

  (* ---- the operand loop *)
  Definition ext (w w1 : walloc) : Prop :=
    (forall k e1, lookup k (whash w) = Some e1 -> exists e2, lookup k (whash w1) = Some e2 /\ oblock e2 = oblock e1) /\
    (forall k, allocated w k = true -> ids_of w1 k = ids_of w k) /\
    (forall k, In k NC -> allocated w1 k = allocated w k).

  Lemma ext_refl w : ext w w.
  Proof. repeat split; eauto. Qed.

  Lemma ext_trans a b c : ext a b -> ext b c -> ext a c.
  Proof.
    intros (A1 & A2 & A3) (B1 & B2 & B3). repeat split.
    - intros k e1 H. destruct (A1 _ _ H) as (e2 & H2 & O2). destruct (B1 _ _ H2) as (e3 & H3 & O3).
      exists e3. split; [exact H3 | congruence].
    - intros k H. rewrite B2, A2; auto. apply allocated_lookup in H as (e & H).
      destruct (A1 _ _ H) as (e2 & H2 & _). apply allocated_lookup. eauto.
    - intros k H. rewrite B3, A3; auto.
  Qed.

  Definition opnd_ok (w : walloc) (i : val) : Prop :=
    (vconst i = false -> allocated w (vid i) = true) /\ (vconst i = true -> ~ In (vid i) NC) /\
    (forall b, lookup (vid i) args = Some b -> vbits i = b).

  Lemma operand_ids_inv : forall ins w defd gcd wires w1,
    ginv w defd gcd -> (forall i, In i ins -> opnd_ok w i) ->
    operand_ids w zero ins = (wires, w1) ->
    exists defd1, ginv w1 defd1 gcd /\ (forall k, In k NC -> (In k defd1 <-> In k defd)) /\
      ext w w1 /\ (forall i, In i ins -> allocated w1 (vid i) = true) /\
      wires = map (fun i => pad_operand N zero (vsigned i) (vbits i) (ids_of w1 (vid i))) ins.
  Proof.
    induction ins as [|i rest IH]; intros w defd gcd wires w1 G Hok H.
    - simpl in H. injection H as <- <-. exists defd. split; [exact G|]. split; [tauto|]. split; [apply ext_refl|].
      split; [intros i []|reflexivity].
    - cbn [operand_ids] in H.
      destruct (assigned_ids w (vid i) (vbits i)) as [ids wa] eqn:Ea.
      destruct (operand_ids wa zero rest) as [r w2] eqn:Er. injection H as <- <-.
      destruct (Hok i (or_introl eq_refl)) as (O1 & O2 & O3).
      assert (Hstep : exists defda, ginv wa defda gcd /\ (forall k, In k NC -> (In k defda <-> In k defd)) /\
                        ext w wa /\ allocated wa (vid i) = true /\ ids = ids_of wa (vid i) /\
                        (forall k, allocated w k = true -> allocated wa k = true)).
      { destruct (lookup (vid i) (whash w)) as [e|] eqn:L.
        - destruct (aid_existing _ _ _ _ _ _ _ _ G L (fun b Hb => O3 b Hb) Ea) as (G' & I1 & I2 & I3 & I4 & _).
          exists defd. split; [exact G'|]. split; [tauto|].
          split; [split; [exact I4|split; [intros k _; apply I2|intros k _; apply I3]]|].
          split; [rewrite I3; unfold allocated; rewrite L; reflexivity|].
          split; [rewrite I2; exact I1|]. intros k Hk. rewrite I3. exact Hk.
        - assert (Hc : vconst i = true).
          { destruct (vconst i) eqn:C; [reflexivity|]. specialize (O1 eq_refl). unfold allocated in O1. rewrite L in O1. discriminate. }
          specialize (O2 Hc).
          destruct (aid_new _ _ _ _ _ _ _ G L (fun Hn => match O2 Hn with end) Ea) as (G' & I1 & _ & I2 & I3 & I4 & I5 & _ & _).
          exists (vid i :: defd). split; [exact G'|].
          split; [intros k Hk; split; [intros [E|Hk']; [subst k; contradiction | exact Hk'] | intros Hk'; right; exact Hk']|].
          split; [split; [|split]|].
          + intros k e1 Hl. exists e1. split; [apply I5, Hl | reflexivity].
          + intros k Hk. apply I2. intros ->. unfold allocated in Hk. rewrite L in Hk. discriminate.
          + intros k Hk. apply I3. intros ->. contradiction.
          + split; [exact I4|]. split; [symmetry; exact I1|].
            intros k Hk. rewrite I3; [exact Hk|]. intros ->. unfold allocated in Hk. rewrite L in Hk. discriminate. }
      destruct Hstep as (defda & Ga & Da & Xa & Ala & Eids & Hmono).
      assert (Hok' : forall j, In j rest -> opnd_ok wa j).
      { intros j Hj. destruct (Hok j (or_intror Hj)) as (P1 & P2 & P3). repeat split; auto. }
      destruct (IH wa defda gcd r w2 Ga Hok' Er) as (defd1 & G1 & D1 & X1 & Al1 & Ew).
      exists defd1. split; [exact G1|]. split; [intros k Hk; rewrite D1, Da by exact Hk; tauto|].
      split; [eapply ext_trans; eauto|].
      destruct X1 as (X11 & X12 & X13).
      split.
      + intros j [<-|Hj]; [|auto]. apply allocated_lookup in Ala as (e & He).
        destruct (X11 _ _ He) as (e2 & He2 & _). apply allocated_lookup. eauto.
      + cbn [map]. rewrite <- Ew. f_equal. rewrite (X12 _ Ala), <- Eids. reflexivity.
  Qed.

  (* ---- the return values of a native circuit step (case Circ): every one
     gets a fresh block, all different, none of them an id anybody owns *)
  Lemma circ_out_ids_inv : forall rets sizes w defd gcd oIDs w3,
    ginv w defd gcd -> length sizes = length rets -> NoDup (map vid rets) ->
    (forall r, In r rets -> In (vid r) NC /\ lookup (vid r) (whash w) = None /\ ~ In (vid r) gcd) ->
    circ_out_ids w zero sizes rets = (oIDs, w3) ->
    exists defd3, ginv w3 defd3 gcd /\
      (forall k, In k defd3 <-> In k (map vid rets) \/ In k defd) /\
      (forall k, ~ In k (map vid rets) -> ids_of w3 k = ids_of w k /\ allocated w3 k = allocated w k) /\
      (forall k e1, lookup k (whash w) = Some e1 -> lookup k (whash w3) = Some e1) /\
      (forall r, In r rets -> allocated w3 (vid r) = true /\ length (ids_of w3 (vid r)) = vbits r) /\
      NoDup (flat_map (fun r => ids_of w3 (vid r)) rets) /\
      (forall id, In id (flat_map (fun r => ids_of w3 (vid r)) rets) -> ~ In id (owned_ids (whash w))) /\
      (sizes = map vbits rets -> oIDs = flat_map (fun r => ids_of w3 (vid r)) rets).
  Proof.
    induction rets as [|r rs IH]; intros sizes w defd gcd oIDs w3 G Hl Hnd Hr H.
    - destruct sizes; [|discriminate]. cbn in H. injection H as <- <-. exists defd. split; [exact G|].
      split; [intros k; cbn; tauto|]. split; [auto|]. split; [auto|]. split; [intros r []|].
      split; [constructor|]. split; [intros id []|]. reflexivity.
    - destruct sizes as [|n t]; [discriminate|]. cbn [circ_out_ids] in H.
      destruct (assigned_ids w (vid r) (vbits r)) as [ids w1] eqn:Ea.
      destruct (circ_out_ids w1 zero t rs) as [o w2] eqn:Er. injection H as <- <-.
      cbn [map] in Hnd. inversion Hnd as [|? ? Hn Hnd']; subst.
      destruct (Hr r (or_introl eq_refl)) as (R1 & R2 & R3).
      destruct (aid_new _ _ _ _ _ _ _ G R2 (fun _ => R3) Ea) as (G1 & I1 & Ind & I2 & I3 & I4 & I5 & I6 & (ev & Lev & Ewv & Eiv & Hobv)).
      assert (HrK : ~ In (vid r) Kt) by (intros Hk; exact (kt_nc _ Hk R1)).
      assert (Hlen_ids : length ids = vbits r).
      { destruct (aid_new_shape _ _ _ _ _ R2 Ea) as (b0 & -> & _). apply block_length. }
      assert (Hr1 : forall r0, In r0 rs -> In (vid r0) NC /\ lookup (vid r0) (whash w1) = None /\ ~ In (vid r0) gcd).
      { intros r0 H0. destruct (Hr r0 (or_intror H0)) as (A & B & C). split; [exact A|]. split; [|exact C].
        assert (Hne : vid r0 <> vid r) by (intros E; apply Hn; rewrite <- E; apply in_map, H0).
        pose proof (I3 _ Hne) as Hal. unfold allocated in Hal. rewrite B in Hal.
        destruct (lookup (vid r0) (whash w1)); [discriminate | reflexivity]. }
      assert (Hl' : length t = length rs) by (simpl in Hl; lia).
      destruct (IH t w1 (vid r :: defd) gcd o w2 G1 Hl' Hnd' Hr1 Er) as (defd3 & G3 & D3 & K3 & L3 & A3 & N3 & F3 & O3).
      assert (Hidr : ids_of w2 (vid r) = ids) by (rewrite (proj1 (K3 _ Hn)); exact I1).
      assert (Hown1 : forall id, In id ids -> In id (owned_ids (whash w1))).
      { intros id Hid. apply (owned_in _ (vid r) ev); auto. rewrite Hobv. exact Hid. }
      assert (Hsub : forall id, In id (owned_ids (whash w)) -> In id (owned_ids (whash w1))).
      { intros id Hid. destruct (owned_inv _ _ Hid (g_keys _ _ _ G)) as (k & e & Lk & Hk & Hb).
        apply (owned_in _ k e); auto. }
      exists defd3. split; [exact G3|].
      split; [intros k; rewrite D3; cbn; tauto|].
      split.
      { intros k Hk. assert (Hk1 : k <> vid r) by (intros ->; apply Hk; left; reflexivity).
        assert (Hk2 : ~ In k (map vid rs)) by (intros Hi; apply Hk; right; exact Hi).
        destruct (K3 k Hk2) as [K31 K32]. split; [rewrite K31; apply I2, Hk1 | rewrite K32; apply I3, Hk1]. }
      split; [intros k e1 Lk; apply L3, I5, Lk|].
      split.
      { intros r0 [<-|H0]; [|apply A3, H0]. split; [rewrite (proj2 (K3 _ Hn)); exact I4 | rewrite Hidr; exact Hlen_ids]. }
      split.
      { cbn [flat_map]. rewrite Hidr. apply NoDup_app_iff. split; [exact Ind|]. split; [exact N3|].
        intros id Hid Hf. exact (F3 id Hf (Hown1 id Hid)). }
      split.
      { cbn [flat_map]. rewrite Hidr. intros id Hid. apply in_app_or in Hid as [Hid|Hid]; [apply I6, Hid|].
        intros Ho. exact (F3 id Hid (Hsub id Ho)). }
      intros Es. cbn [map] in Es. injection Es as -> ->. cbn [flat_map]. rewrite Hidr, (O3 eq_refl).
      f_equal. rewrite <- Hlen_ids. apply fill_self.
  Qed.

  (* ------------------------------------------------------------------ *)
  (** * The run along the gc'd list *)
  Variable circs : list ccirc.
  Hypothesis Hwfl : wfl (map fst args) steps0.
  Hypothesis HNC : forall k, In k NC <-> In k (outs_l steps0 ++ map fst args).

  Definition sok (s : instr) : Prop :=
    match iop s with
    | ORet => iout s = None /\ iret s = []
    | OGC => False
    | OCirc => iout s = None /\ NoDup (map vid (iret s)) /\
               length (cc_outs (nth (icirc s) circs cc0)) = length (iret s)
    | _ => exists o, iout s = Some o /\ iret s = []
    end /\
    forall i, In i (iin s) -> (vconst i = true -> ~ In (vid i) NC) /\
                              (forall b, lookup (vid i) args = Some b -> vbits i = b).
  Hypothesis Hsok : Forall sok steps0.

  Definition defd_rel (defd : list N) (E : list instr) : Prop :=
    forall k, In k NC -> (In k defd <-> In k (outs_l E ++ map fst args)).

  Definition live (gcd : list N) (E later : list instr) : Prop :=
    forall u, In u gcd -> In u NC /\ In u (outs_l E ++ map fst args) /\
                          forall x, In x (fdesc steps0 u) -> ~ In x (ncops_l later).

  Lemma fdesc_nc u x : In u NC -> In x (fdesc steps0 u) -> In x NC.
  Proof.
    intros Hu Hx. unfold fdesc in Hx. apply fold_fstep_in in Hx as [[<-|[]]|Hx]; [exact Hu|].
    apply HNC. apply in_or_app. auto.
  Qed.

  Lemma wstep_gc w i : wstep circs zero (gc_instr i) w = gc_wires w (vid i).
  Proof. reflexivity. Qed.

  Lemma gcs_run s E later : forall G rest w defd gcd,
    Forall (fun g => exists i, g = gc_instr i /\ vconst i = false /\ In (vid i) (nc_ins s) /\
                     forall x, In x (fdesc steps0 (vid i)) -> ~ In x (ncops_l later)) G ->
    NoDup (map gcid G) -> (forall g, In g G -> allocated w (gcid g) = true) ->
    (forall a, In a (nc_ins s) -> In a NC /\ In a (outs_l E ++ map fst args)) ->
    ginv w defd gcd -> live gcd E later ->
    (forall w' gcd', ginv w' defd gcd' -> live gcd' E later -> npr_steps circs zero one rest w' = true) ->
    npr_steps circs zero one (G ++ rest) w = true.
  Proof.
    induction G as [|g G IH]; intros rest w defd gcd HF Hnd Hal Hs Gi Hl K.
    - simpl. apply (K w gcd); assumption.
    - inversion HF as [|? ? (i & -> & Hc & Hi & Hno) HF']; subst.
      cbn [map] in Hnd. inversion Hnd as [|? ? Hn Hnd']; subst.
      cbn [app npr_steps]. cbn [gc_instr iin forallb andb iop].
      rewrite wstep_gc.
      assert (Ha : allocated w (vid i) = true) by (apply (Hal (gc_instr i)); left; reflexivity).
      apply allocated_lookup in Ha as (e & Le).
      destruct (Hs _ Hi) as [Hinc Hidef].
      destruct (gcw_inv w defd gcd (vid i) e Gi Le Hinc) as (w' & Hg & Gi' & Hlk & _).
      rewrite Hg. simpl.
      apply (IH rest w' defd (vid i :: gcd)); auto.
      + intros g Hg0. unfold allocated. rewrite Hlk.
        * apply (Hal g). right. exact Hg0.
        * intros E0. apply Hn. cbn [gcid gc_instr igc]. rewrite <- E0. apply in_map. exact Hg0.
      + intros u [<-|Hu]; [auto | apply Hl, Hu].
  Qed.

  Lemma used_from_gcform later g : gcform steps0 later g ->
    forall v, In v (used_from g) -> exists t i, In t later /\ In i (iin t) /\ vid i = v.
  Proof.
    induction 1 as [|s later G g Hf IH [HG _]]; intros v Hv; [destruct Hv|].
    unfold used_from in Hv. cbn [flat_map] in Hv. apply in_app_or in Hv as [Hv|Hv].
    - apply in_map_iff in Hv as (i & <- & Hi). exists s, i. split; [left; reflexivity | auto].
    - rewrite flat_map_app in Hv. apply in_app_or in Hv as [Hv|Hv].
      + exfalso. clear -HG Hv. induction HG as [|x G (i & -> & _) _ IHG]; [destruct Hv|].
        cbn [flat_map gc_instr iin map app] in Hv. exact (IHG Hv).
      + destruct (IH v Hv) as (t & i & Ht & Hi & Hvi). exists t, i. split; [right; exact Ht | auto].
  Qed.

  Lemma in_mem_true x l : In x l -> mem x l = true.
  Proof. apply mem_In. Qed.


  (* where the rewired ids of an alias result come from *)
  Lemma alias_prov_ok s o w2 defd2 gcd wires out ids' :
    In s steps0 -> is_alias_op (iop s) = true -> iout s = Some o ->
    ginv w2 defd2 gcd ->
    (exists ev, lookup (vid o) (whash w2) = Some ev /\ oblock ev = out) ->
    wires = map (fun i => pad_operand N zero (vsigned i) (vbits i) (ids_of w2 (vid i))) (iin s) ->
    (forall i, In i (iin s) -> allocated w2 (vid i) = true) ->
    (forall i, In i (iin s) -> ~ (exists u, In u gcd /\ In (vid i) (fdesc steps0 u))) ->
    (forall i, In i (iin s) -> vconst i = true -> ~ In (vid i) NC) ->
    alias_ids N zero (iop s) wires (map vcint (iin s)) out (vbits o) = Some ids' ->
    forall id, In id ids' ->
      exists k e', lookup k (whash w2) = Some e' /\ ~ In k Kt /\ In id (oblock e') /\ related k (vid o).
  Proof.
    intros Hin Hop Eout G2 (ev & Lo & Hob) Hw Hal Hnd Hc Eal id Hid.
    assert (Hz : exists k e', lookup k (whash w2) = Some e' /\ ~ In k Kt /\ In zero (oblock e') /\ related k (vid o)).
    { destruct (g_z _ _ _ G2) as (ez & eo & Z1 & Z2 & _). exists zk, ez. rewrite Z2.
      repeat split; auto; [left; reflexivity | left; exact zk_nc]. }
    destruct (alias_ids_incl N zero _ _ _ _ _ _ Eal id Hid) as [->|[Ho|(wj & Hwj & Hidw)]]; [exact Hz| |].
    - exists (vid o), ev. rewrite Hob. repeat split; auto.
      + intros Hk. apply (kt_nc _ Hk). apply HNC, in_or_app. left.
        unfold outs_l. apply in_flat_map. exists s. split; [exact Hin|]. unfold outs_of. rewrite Eout. left. reflexivity.
      + right. apply self_desc.
    - rewrite Hw in Hwj. apply in_map_iff in Hwj as (i & <- & Hi).
      apply pad_operand_incl in Hidw as [->|Hidw]; [exact Hz|].
      pose proof (Hal i Hi) as Ha. apply allocated_lookup in Ha as (ei & Li).
      destruct (g_prov _ _ _ G2 _ _ Li) as [Hd|Hp]; [exfalso; exact (Hnd i Hi Hd)|].
      destruct (Hp id Hidw) as (k & e' & P1 & P2 & P3 & P4). exists k, e'. repeat split; auto.
      destruct P4 as [P4|P4]; [left; exact P4|].
      destruct (vconst i) eqn:C.
      + left. unfold fdesc in P4. apply fold_fstep_in in P4 as [[E1|[]]|P4]; [rewrite E1; apply (Hc i Hi C)|].
        exfalso. apply (Hc i Hi C). apply HNC, in_or_app. auto.
      + right. eapply fdesc_closed; [exact Hwfl | exact P4|].
        exists s, o. repeat split; auto. apply in_nc_ins. eauto.
  Qed.

  Lemma wstep_alias s w : is_alias_op (iop s) = true ->
    wstep circs zero s w =
    (let '(wires, w1) := operand_ids w zero (iin s) in
     let '(out, w2) := match iout s with Some o => assigned_ids w1 (vid o) (vbits o) | None => ([], w1) end in
     match iout s with
     | None => None
     | Some o => match alias_ids N zero (iop s) wires (map vcint (iin s)) out (vbits o) with
                 | Some ids => Some (set_ids w2 (vid o) ids)
                 | None => None
                 end
     end).
  Proof.
    intros H. unfold wstep. destruct (operand_ids w zero (iin s)) as [wires w1].
    destruct (match iout s with Some o => assigned_ids w1 (vid o) (vbits o) | None => ([], w1) end) as [out w2].
    destruct (iop s); try discriminate; reflexivity.
  Qed.

  Lemma outs_l_app a b : outs_l (a ++ b) = outs_l a ++ outs_l b.
  Proof. unfold outs_l. apply flat_map_app. Qed.

  Lemma step_run s rest E later w defd gcd :
    steps0 = E ++ s :: later -> ginv w defd gcd -> defd_rel defd E -> live gcd E (s :: later) ->
    (forall v, In v (used_from rest) -> In v (ncops_l later) \/ ~ In v NC) ->
    (forall w' defd', ginv w' defd' gcd -> defd_rel defd' (E ++ [s]) ->
        (forall a, In a (nc_ins s) -> allocated w' a = true) ->
        npr_steps circs zero one rest w' = true) ->
    npr_steps circs zero one (s :: rest) w = true.
  Proof.
    intros E0 Gi Hrel Hl Hrest K.
    assert (Hin : In s steps0) by (rewrite E0; apply in_or_app; right; left; reflexivity).
    pose proof (proj1 (Forall_forall _ _) Hsok s Hin) as [Hshape Hops].
    destruct (Hwfl E s later E0) as [Wi Wo].
    assert (Hncs : forall a, In a (nc_ins s) -> In a NC /\ In a (outs_l E ++ map fst args)).
    { intros a Ha. specialize (Wi a Ha). split; [|exact Wi]. apply HNC.
      apply in_app_or in Wi as [H|H]; apply in_or_app; [left|auto].
      rewrite E0. unfold outs_l in *. rewrite flat_map_app. apply in_or_app. auto. }
    assert (Hnotgcd : forall a, In a (ncops_l (s :: later)) -> ~ In a gcd).
    { intros a Ha Hg. destruct (Hl a Hg) as (_ & _ & Hno). apply (Hno a); [apply self_desc | exact Ha]. }
    assert (Hopnd : forall i, In i (iin s) -> opnd_ok w i).
    { intros i Hi. destruct (Hops i Hi) as [H1 H2]. split; [|split; [exact H1 | exact H2]].
      intros Hc. assert (Ha : In (vid i) (nc_ins s)) by (apply in_nc_ins; eauto).
      destruct (Hncs _ Ha) as [Hn Hd]. apply (g_alloc _ _ _ Gi _ Hn). split; [apply Hrel; auto|].
      apply Hnotgcd. unfold ncops_l. cbn [flat_map]. apply in_or_app. auto. }
    cbn [npr_steps].
    assert (C1 : forallb (fun i => vconst i || allocated w (vid i)) (iin s) = true).
    { apply forallb_forall. intros i Hi. destruct (vconst i) eqn:C; [reflexivity|]. simpl.
      apply (Hopnd i Hi). exact C. }
    rewrite C1. cbn [andb].
    assert (Hused : forall v, In v (used_from (s :: rest)) -> In v (ncops_l (s :: later)) \/ ~ In v NC).
    { intros v Hv. unfold used_from in Hv. cbn [flat_map] in Hv. apply in_app_or in Hv as [Hv|Hv].
      - apply in_map_iff in Hv as (i & <- & Hi). destruct (vconst i) eqn:C.
        + right. apply (Hops i Hi), C.
        + left. unfold ncops_l. cbn [flat_map]. apply in_or_app. left. apply in_nc_ins. eauto.
      - destruct (Hrest v Hv) as [H|H]; [left|auto]. unfold ncops_l. cbn [flat_map]. apply in_or_app. auto. }
    assert (Hnodoom : forall v, In v (ncops_l (s :: later)) \/ ~ In v NC ->
              ~ (exists u, In u gcd /\ In v (fdesc steps0 u))).
    { intros v Hv (u & Hu & Hd). destruct (Hl u Hu) as (Hun & _ & Hno). destruct Hv as [Hv|Hv].
      - exact (Hno v Hd Hv).
      - apply Hv. eapply fdesc_nc; eauto. }
    assert (Hopdoom : forall i, In i (iin s) -> ~ (exists u, In u gcd /\ In (vid i) (fdesc steps0 u))).
    { intros i Hi. apply Hnodoom, Hused. unfold used_from. cbn [flat_map]. apply in_or_app. left. apply in_map, Hi. }
    (* classify the operator *)
    assert (Hcls : (iop s = ORet /\ iout s = None /\ iret s = []) \/
                   (exists o, iout s = Some o /\ iret s = [] /\ (iop s = OGen \/ is_alias_op (iop s) = true)) \/
                   (iop s = OCirc /\ iout s = None /\ NoDup (map vid (iret s)) /\
                    length (cc_outs (nth (icirc s) circs cc0)) = length (iret s))).
    { destruct (iop s); try contradiction; try (right; left; destruct Hshape as (o & H1 & H2); exists o; auto);
        [left; tauto | right; right; tauto]. }
    destruct Hcls as [(Eop & Eout & Eret)|[(o & Eout & Eret & Ecl)|(Eop & Eout & Hndr & Hlenr)]].
    3:{ (* a native circuit step *)
      unfold wstep. destruct (operand_ids w zero (iin s)) as [wires w1] eqn:Eo.
      destruct (operand_ids_inv _ _ _ _ _ _ Gi Hopnd Eo) as (defd1 & G1 & D1 & X1 & Al1 & Ew).
      rewrite Eout, Eop.
      assert (Hrel1 : defd_rel defd1 E) by (intros k Hk; rewrite D1 by exact Hk; apply Hrel, Hk).
      assert (Houts : outs_of s = map vid (iret s)) by (unfold outs_of; rewrite Eout; reflexivity).
      assert (Hrets : forall r, In r (iret s) -> In (vid r) NC /\ lookup (vid r) (whash w1) = None /\ ~ In (vid r) gcd).
      { intros r Hr0. assert (Hov : In (vid r) (outs_of s)) by (rewrite Houts; apply in_map, Hr0).
        assert (HoNC : In (vid r) NC).
        { apply HNC, in_or_app. left. unfold outs_l. apply in_flat_map. exists s. auto. }
        assert (HoNew : ~ In (vid r) (outs_l E ++ map fst args)) by (apply Wo, Hov).
        split; [exact HoNC|]. split.
        - destruct (lookup (vid r) (whash w1)) eqn:L; [|reflexivity]. exfalso. apply HoNew, (Hrel1 _ HoNC).
          apply (g_alloc _ _ _ G1 _ HoNC). unfold allocated. rewrite L. reflexivity.
        - intros Hg. destruct (Hl _ Hg) as (_ & Hd & _). exact (HoNew Hd). }
      destruct (circ_out_ids w1 zero (cc_outs (nth (icirc s) circs cc0)) (iret s)) as [oIDs w3] eqn:Ec.
      destruct (circ_out_ids_inv _ _ _ _ _ _ _ G1 Hlenr Hndr Hrets Ec) as (defd3 & G3 & D3 & K3 & L3 & A3 & N3 & F3 & _).
      assert (Hwr : write_ok w3 (flat_map (ids_of w3) (outs_of s)) (outs_of s) (used_from (s :: rest)) [zero; one] = true).
      { rewrite Houts, flat_map_map. unfold write_ok. apply andb_true_intro. split.
        - apply forallb_forall. intros id Hid. destruct (g_z _ _ _ G1) as (ez & eo & Z1 & Z2 & Z3 & Z4).
          assert (Hnz : ~ In id [zero; one]).
          { intros [<-|[<-|[]]]; apply (F3 _ Hid).
            - apply (owned_in _ zk ez); auto. rewrite Z2. left. reflexivity.
            - apply (owned_in _ ok eo); auto. rewrite Z4. left. reflexivity. }
          apply mem_false in Hnz. rewrite Hnz. reflexivity.
        - apply forallb_forall. intros v Hv.
          destruct (in_dec N.eq_dec v (map vid (iret s))) as [Hvo|Hvo]; [rewrite (in_mem_true _ _ Hvo); reflexivity|].
          apply orb_true_iff. right. rewrite (proj1 (K3 v Hvo)).
          apply forallb_forall. intros id Hid.
          assert (Hni : ~ In id (ids_of w1 v)).
          { intros Hiv. unfold ids_of in Hiv. destruct (lookup v (whash w1)) as [e|] eqn:Lv; [|destruct Hiv].
            destruct (g_prov _ _ _ G1 v e Lv) as [Hd|Hp]; [exact (Hnodoom v (Hused v Hv) Hd)|].
            assert (Hiv' : In id (ids_of w1 v)) by (unfold ids_of; rewrite Lv; exact Hiv).
            destruct (Hp id Hiv') as (k & e' & P1 & P2 & P3 & _).
            apply (F3 id Hid). eapply owned_in; eauto. }
          apply mem_false in Hni. rewrite Hni. reflexivity. }
      rewrite Hwr. cbn [andb]. apply (K w3 defd3 G3).
      - intros k Hk. rewrite D3, (Hrel1 k Hk), outs_l_app. change (outs_l [s]) with (outs_of s ++ []). rewrite app_nil_r, Houts.
        rewrite !in_app_iff. tauto.
      - intros a Ha. apply in_nc_ins in Ha as (i & Hi & _ & <-).
        assert (Hnr : ~ In (vid i) (map vid (iret s))).
        { intros Hir. apply in_map_iff in Hir as (r & Er & Hr0). destruct (Hrets r Hr0) as (_ & Lr & _).
          pose proof (Al1 i Hi) as A. unfold allocated in A. rewrite <- Er, Lr in A. discriminate. }
        rewrite (proj2 (K3 _ Hnr)). apply Al1, Hi. }
    - (* ret *)
      unfold wstep. destruct (operand_ids w zero (iin s)) as [wires w1] eqn:Eo.
      destruct (operand_ids_inv _ _ _ _ _ _ Gi Hopnd Eo) as (defd1 & G1 & D1 & X1 & Al1 & Ew).
      rewrite Eout, Eop. cbn [andb]. apply (K w1 defd1 G1).
      + intros k Hk. rewrite D1 by exact Hk. unfold outs_l. rewrite flat_map_app. cbn [flat_map].
        unfold outs_of at 2. rewrite Eout, Eret. cbn [map app]. rewrite app_nil_r. apply Hrel, Hk.
      + intros a Ha. apply in_nc_ins in Ha as (i & Hi & _ & <-). apply Al1, Hi.
    - (* a step with a new result value *)
      assert (Hw : wstep circs zero s w =
                   (let '(wires, w1) := operand_ids w zero (iin s) in
                    let '(out, w2) := assigned_ids w1 (vid o) (vbits o) in
                    if is_alias_op (iop s) then
                      match alias_ids N zero (iop s) wires (map vcint (iin s)) out (vbits o) with
                      | Some ids => Some (set_ids w2 (vid o) ids)
                      | None => None
                      end
                    else Some w2)).
      { destruct Ecl as [Eg|Ea].
        - unfold wstep. rewrite Eout, Eg. reflexivity.
        - rewrite (wstep_alias s w Ea), Eout, Ea. reflexivity. }
      rewrite Hw. clear Hw.
      destruct (operand_ids w zero (iin s)) as [wires w1] eqn:Eo.
      destruct (operand_ids_inv _ _ _ _ _ _ Gi Hopnd Eo) as (defd1 & G1 & D1 & X1 & Al1 & Ew).
      assert (Hrel1 : defd_rel defd1 E) by (intros k Hk; rewrite D1 by exact Hk; apply Hrel, Hk).
      assert (Halloc1 : forall a, In a (nc_ins s) -> allocated w1 a = true).
      { intros a Ha. apply in_nc_ins in Ha as (i & Hi & _ & <-). apply Al1, Hi. }
      assert (Hov : In (vid o) (outs_of s)) by (unfold outs_of; rewrite Eout; left; reflexivity).
      assert (HoNC : In (vid o) NC).
      { apply HNC, in_or_app. left. unfold outs_l. apply in_flat_map. exists s. auto. }
      assert (HoNew : ~ In (vid o) (outs_l E ++ map fst args)) by (apply Wo, Hov).
      assert (Lo : lookup (vid o) (whash w1) = None).
      { destruct (lookup (vid o) (whash w1)) eqn:L; [|reflexivity]. exfalso. apply HoNew, (Hrel1 _ HoNC).
        apply (g_alloc _ _ _ G1 _ HoNC). unfold allocated. rewrite L. reflexivity. }
      assert (Hog : In (vid o) NC -> ~ In (vid o) gcd).
      { intros _ Hg. destruct (Hl _ Hg) as (_ & Hd & _). exact (HoNew Hd). }
      destruct (assigned_ids w1 (vid o) (vbits o)) as [out w2] eqn:Ea.
      destruct (aid_new _ _ _ _ _ _ _ G1 Lo Hog Ea) as (G2 & I1 & Ind & I2 & I3 & I4 & I5 & I6 & (ev & Lev & Ewv & Eiv & Hobv)).
      assert (Hrel2 : defd_rel (vid o :: defd1) (E ++ [s])).
      { intros k Hk. unfold outs_l. rewrite flat_map_app. cbn [flat_map]. rewrite app_nil_r.
        unfold outs_of at 2. rewrite Eout, Eret. cbn [map app]. specialize (Hrel1 k Hk). fold (outs_l E). split.
        - intros [<-|H]; [apply in_or_app; left; apply in_or_app; right; left; reflexivity|].
          apply Hrel1 in H. apply in_app_or in H as [H|H]; apply in_or_app; [left; apply in_or_app; auto | auto].
        - intros H. apply in_app_or in H as [H|H].
          + apply in_app_or in H as [H|[H|[]]]; [right; apply Hrel1, in_or_app; auto | left; exact H].
          + right. apply Hrel1, in_or_app. auto. }
      assert (Hne : forall i, In i (iin s) -> vid i <> vid o).
      { intros i Hi Heq. pose proof (Al1 i Hi) as A. unfold allocated in A. rewrite Heq, Lo in A. discriminate. }
      assert (Halloc2 : forall a, In a (nc_ins s) -> allocated w2 a = true).
      { intros a Ha. apply in_nc_ins in Ha as (i & Hi & _ & <-). rewrite I3 by (apply Hne, Hi). apply Al1, Hi. }
      destruct (is_alias_op (iop s)) eqn:Eal.
      + (* alias *)
        destruct (alias_ids N zero (iop s) wires (map vcint (iin s)) out (vbits o)) as [ids'|] eqn:Eai.
        2:{ destruct (iop s); try discriminate; reflexivity. }
        assert (Hnotgc : match iop s with OGen | OCirc => false | _ => true end = true)
          by (destruct (iop s); try discriminate; reflexivity).
        assert (Hchk : (match iop s with
                        | OGen | OCirc => write_ok (set_ids w2 (vid o) ids') (flat_map (ids_of (set_ids w2 (vid o) ids')) (outs_of s))
                                            (outs_of s) (used_from (s :: rest)) [zero; one]
                        | _ => true end) = true) by (destruct (iop s); try discriminate; reflexivity).
        rewrite Hchk. cbn [andb].
        assert (Hprov : forall id, In id ids' ->
                  exists k e', lookup k (whash w2) = Some e' /\ ~ In k Kt /\ In id (oblock e') /\ related k (vid o)).
        { assert (Hwires : wires = map (fun i => pad_operand N zero (vsigned i) (vbits i) (ids_of w2 (vid i))) (iin s)).
          { rewrite Ew. apply map_ext_in. intros i Hi. rewrite I2 by (apply Hne, Hi). reflexivity. }
          assert (Hal2 : forall i, In i (iin s) -> allocated w2 (vid i) = true).
          { intros i Hi. rewrite I3 by (apply Hne, Hi). apply Al1, Hi. }
          assert (Hconst : forall i, In i (iin s) -> vconst i = true -> ~ In (vid i) NC).
          { intros i Hi. apply (Hops i Hi). }
          exact (alias_prov_ok s o w2 (vid o :: defd1) gcd wires out ids' Hin Eal Eout G2
                   (ex_intro _ ev (conj Lev Hobv)) Hwires Hal2 Hopdoom Hconst Eai). }
        destruct (setids_inv w2 _ gcd (vid o) ev ids' G2 Lev Ewv HoNC) as (G3 & L3 & A3).
        * intros old Ho. rewrite Eiv in Ho. injection Ho as <-. eapply alias_ids_length; eauto.
        * right. exact Hprov.
        * apply (K _ _ G3 Hrel2). intros a Ha. rewrite A3. apply Halloc2, Ha.
      + (* a circuit step *)
        destruct Ecl as [Eg|Ea']; [|congruence]. rewrite Eg.
        assert (Hwr : write_ok w2 (flat_map (ids_of w2) (outs_of s)) (outs_of s) (used_from (s :: rest)) [zero; one] = true).
        { unfold outs_of at 1 2. rewrite Eout, Eret. cbn [map app flat_map]. rewrite I1, app_nil_r.
          unfold write_ok. apply andb_true_intro. split.
          - (* the zero and one wires are owned: never handed out again *)
            apply forallb_forall. intros id Hid. destruct (g_z _ _ _ G1) as (ez & eo & Z1 & Z2 & Z3 & Z4).
            assert (Hnz : ~ In id [zero; one]).
            { intros [<-|[<-|[]]]; apply (I6 _ Hid).
              - apply (owned_in _ zk ez); auto. rewrite Z2. left. reflexivity.
              - apply (owned_in _ ok eo); auto. rewrite Z4. left. reflexivity. }
            apply mem_false in Hnz. rewrite Hnz. reflexivity.
          - apply forallb_forall. intros v Hv.
            destruct (N.eq_dec v (vid o)) as [->|Hvo]; [rewrite (in_mem_true (vid o) [vid o]); [reflexivity | left; reflexivity]|].
            apply orb_true_iff. right. rewrite I2 by exact Hvo.
            apply forallb_forall. intros id Hid.
            assert (Hni : ~ In id (ids_of w1 v)).
            { intros Hiv. unfold ids_of in Hiv. destruct (lookup v (whash w1)) as [e|] eqn:Lv; [|destruct Hiv].
              destruct (g_prov _ _ _ G1 v e Lv) as [Hd|Hp]; [exact (Hnodoom v (Hused v Hv) Hd)|].
              assert (Hiv' : In id (ids_of w1 v)) by (unfold ids_of; rewrite Lv; exact Hiv).
              destruct (Hp id Hiv') as (k & e' & P1 & P2 & P3 & _).
              apply (I6 id Hid). eapply owned_in; eauto. }
            apply mem_false in Hni. rewrite Hni. reflexivity. }
        rewrite Hwr. cbn [andb]. apply (K _ _ G2 Hrel2 Halloc2).
  Qed.

  Lemma run_npr : forall later g, gcform steps0 later g ->
    forall E w defd gcd, steps0 = E ++ later -> ginv w defd gcd -> defd_rel defd E -> live gcd E later ->
    npr_steps circs zero one g w = true.
  Proof.
    induction 1 as [|s later G g' Hf IH HG]; intros E w defd gcd E0 Gi Hrel Hl; [reflexivity|].
    destruct HG as [HGF HGN].
    destruct (Hwfl E s later E0) as [Wi Wo].
    apply (step_run s (G ++ g') E later w defd gcd E0 Gi Hrel Hl).
    - intros v Hv. unfold used_from in Hv. rewrite flat_map_app in Hv. apply in_app_or in Hv as [Hv|Hv].
      + exfalso. clear -HGF Hv. induction HGF as [|x G (i & -> & _) _ IHG]; [destruct Hv|].
        cbn [flat_map gc_instr iin map app] in Hv. exact (IHG Hv).
      + destruct (used_from_gcform later g' Hf v Hv) as (t & i & Ht & Hi & <-).
        assert (Hts : In t steps0) by (rewrite E0; apply in_or_app; right; right; exact Ht).
        destruct (proj1 (Forall_forall _ _) Hsok t Hts) as [_ Hops].
        destruct (vconst i) eqn:C; [right; apply (Hops i Hi), C|].
        left. unfold ncops_l. apply in_flat_map. exists t. split; [exact Ht|]. apply in_nc_ins. eauto.
    - intros w' defd' G' Hrel' Hal'.
      assert (E1 : steps0 = (E ++ [s]) ++ later) by (rewrite <- app_assoc; exact E0).
      assert (Hs' : forall a, In a (nc_ins s) -> In a NC /\ In a (outs_l (E ++ [s]) ++ map fst args)).
      { intros a Ha. specialize (Wi a Ha). split.
        - apply HNC. apply in_app_or in Wi as [H|H]; apply in_or_app; [left|auto].
          rewrite E0, outs_l_app. apply in_or_app. auto.
        - rewrite outs_l_app. apply in_app_or in Wi as [H|H]; apply in_or_app; [left; apply in_or_app; auto | auto]. }
      assert (Hl' : live gcd (E ++ [s]) later).
      { intros u Hu. destruct (Hl u Hu) as (L1 & L2 & L3). split; [exact L1|]. split.
        - rewrite outs_l_app. apply in_app_or in L2 as [H|H]; apply in_or_app; [left; apply in_or_app; auto | auto].
        - intros x Hx Hin. apply (L3 x Hx). unfold ncops_l. cbn [flat_map]. apply in_or_app. auto. }
      apply (gcs_run s (E ++ [s]) later G g' w' defd' gcd HGF HGN); auto.
      + intros g Hg. rewrite Forall_forall in HGF. destruct (HGF g Hg) as (i & -> & _ & Hi & _).
        cbn [gcid gc_instr igc]. apply Hal', Hi.
      + intros w'' gcd' G'' Hl''. apply (IH (E ++ [s]) w'' defd' gcd' E1 G'' Hrel' Hl'').
  Qed.

  (* ------------------------------------------------------------------ *)
  (** * The value relation along the run: streamed store vs reference env *)

  Definition vpos_ops (s : instr) : list val :=
    flat_map (fun j => match nth_error (iin s) j with Some i => [i] | None => [] end)
             (value_positions (iop s) (length (iin s))).
  Definition vused (l : list instr) : list N := flat_map (fun s => map vid (vpos_ops s)) l.

  Definition rd (st : sstate) (id : N) : bool := sfind false (cs_wires (ss_cs st)) id.

  Definition Rel (st : sstate) (e : env) (rest : list instr) : Prop :=
    forall v b, lookup v e = Some b -> In v (vused rest) ->
      allocated (ss_w st) v = true /\ map (rd st) (ids_of (ss_w st) v) = b.

  Definition Bd (e : env) (E : list instr) : Prop :=
    forall k, In k (outs_l E ++ map fst args) \/ In k Kt -> exists b, lookup k e = Some b.

  Definition simres (a : option sstate) (b : option (env * list bool)) : Prop :=
    match a, b with
    | Some stf, Some (_, retf) => map (rd stf) (ss_ret stf) = retf
    | None, None => True
    | _, _ => False
    end.

  (* extra facts about the steps the simulation needs *)
  Definition sok2 (s : instr) : Prop :=
    (forall j i, In j (value_positions (iop s) (length (iin s))) -> nth_error (iin s) j = Some i -> vconst i = true ->
       In (vid i) Kt \/
       (iop s = OGen /\ range_unread (cc_c (nth (icirc s) circs cc0)) (opnd_off (iin s) j) (vbits i) = true)) /\
    (iop s = OCirc ->
       let cc := nth (icirc s) circs cc0 in
       wf (cc_c cc) = true /\ length (cc_ins cc) = length (iin s) /\ ninputs (cc_c cc) = sum_nat (cc_ins cc) /\
       cc_outs cc = map vbits (iret s) /\ noutputs (cc_c cc) = sum_nat (cc_outs cc) /\
       ninputs (cc_c cc) + noutputs (cc_c cc) <= nwires (cc_c cc)) /\
    (iop s = OSlice -> forall o, iout s = Some o ->
       (0 <= nth 1 (map vcint (iin s)) 0)%Z /\ (nth 1 (map vcint (iin s)) 0 < nth 2 (map vcint (iin s)) 0)%Z /\
       Z.to_nat (nth 2 (map vcint (iin s)) 0%Z) - Z.to_nat (nth 1 (map vcint (iin s)) 0%Z) = vbits o) /\
    (iop s = OGen -> forall o, iout s = Some o ->
       let c := cc_c (nth (icirc s) circs cc0) in
       wf c = true /\ ninputs c = sum_bits (iin s) /\ noutputs c = vbits o /\ ninputs c + noutputs c <= nwires c).
  Hypothesis Hsok2 : Forall sok2 steps0.
  Hypothesis Hretlast : forall E s later, steps0 = E ++ s :: later -> iop s = ORet -> later = [].

  Lemma vpos_in s i : In i (vpos_ops s) -> In i (iin s).
  Proof.
    unfold vpos_ops. intros H. apply in_flat_map in H as (j & _ & H).
    destruct (nth_error (iin s) j) eqn:E; [|destruct H]. destruct H as [<-|[]]. eapply nth_error_In; eauto.
  Qed.

  Lemma vused_cons s l v : In v (vused l) -> In v (vused (s :: l)).
  Proof. intros H. unfold vused. cbn [flat_map]. apply in_or_app. auto.
  Qed.

  Lemma nth_map_error {A B} (h : A -> B) l j x d : nth_error l j = Some x -> nth j (map h l) d = h x.
  Proof. intros H. apply (map_nth_error h) in H. apply nth_error_nth. exact H. Qed.

  Lemma vpos_at s j i : In j (value_positions (iop s) (length (iin s))) -> nth_error (iin s) j = Some i -> In i (vpos_ops s).
  Proof. intros Hj E. unfold vpos_ops. apply in_flat_map. exists j. split; [exact Hj|]. rewrite E. left. reflexivity. Qed.

  (* the bits found on an operand's (padded) wire ids are its reference bits *)
  Lemma operand_rel st e s later w1 i :
    ss_zero st = zero -> rd st zero = false ->
    Rel st e (s :: later) -> ext (ss_w st) w1 ->
    In i (vpos_ops s) -> (exists b, lookup (vid i) e = Some b) ->
    map (rd st) (pad_operand N zero (vsigned i) (vbits i) (ids_of w1 (vid i))) = operand_bits e i.
  Proof.
    intros Hz Hrz HR (_ & X2 & _) Hi (b & Lb).
    assert (Hu : In (vid i) (vused (s :: later))).
    { unfold vused. cbn [flat_map]. apply in_or_app. left. apply in_map, Hi. }
    destruct (HR _ _ Lb Hu) as [Ha Hm].
    rewrite (pad_operand_map N bool (rd st) zero), Hrz, (X2 _ Ha), Hm.
    unfold operand_bits. rewrite Lb. reflexivity.
  Qed.

  (* the rewiring depends on the old content of the result only through its
     length when the result is filled completely *)
  Lemma alias_ids_old {A} (z : A) o ins cs old old' obits :
    length old = length old' -> length old = obits ->
    (o = OSlice -> Z.to_nat (nth 2 cs 0%Z) - Z.to_nat (nth 1 cs 0%Z) = obits) ->
    alias_ids A z o ins cs old obits = alias_ids A z o ins cs old' obits.
  Proof.
    intros Hl Ho Hs. unfold alias_ids. rewrite <- Hl.
    destruct o; try reflexivity.
    - (* slice *)
      specialize (Hs eq_refl). unfold nz. rewrite Hs.
      destruct (_ || _); [reflexivity|]. rewrite Ho, Nat.ltb_irrefl.
      rewrite !skipn_all2 by lia. reflexivity.
    - destruct (nth 0 ins []); rewrite Ho, Nat.ltb_irrefl; rewrite ?skipn_all2 by lia; reflexivity.
    - destruct (nth 0 ins []); [reflexivity|]. rewrite Ho, Nat.ltb_irrefl. rewrite !skipn_all2 by lia. reflexivity.
    - destruct (_ || _); [reflexivity|]. rewrite Ho, Nat.ltb_irrefl. rewrite !skipn_all2 by lia. reflexivity.
  Qed.

  Lemma vused_class l v : (forall t, In t l -> In t steps0) -> In v (vused l) -> In v (ncops_l l) \/ ~ In v NC.
  Proof.
    intros Hl Hv. unfold vused in Hv. apply in_flat_map in Hv as (t & Ht & Hv).
    apply in_map_iff in Hv as (i & <- & Hi). apply vpos_in in Hi.
    destruct (proj1 (Forall_forall _ _) Hsok t (Hl t Ht)) as [_ Hops].
    destruct (vconst i) eqn:C; [right; apply (Hops i Hi), C|].
    left. unfold ncops_l. apply in_flat_map. exists t. split; [exact Ht|]. apply in_nc_ins. eauto.
  Qed.

  Definition SInv (st : sstate) (e : env) (E later : list instr) (defd gcd : list N) : Prop :=
    ss_zero st = zero /\ ginv (ss_w st) defd gcd /\ defd_rel defd E /\ live gcd E later /\
    Rel st e later /\ Bd e E /\ rd st zero = false.

  Lemma stream_step_gc idx i st :
    stream_step circs idx (gc_instr i) st =
    match gc_wires (ss_w st) (vid i) with Some w3 => Some (with_w st w3) | None => None end.
  Proof. reflexivity. Qed.

  Lemma gcs_sim s E later : forall G rest st e ret idx defd gcd,
    Forall (fun g => exists i, g = gc_instr i /\ vconst i = false /\ In (vid i) (nc_ins s) /\
                     forall x, In x (fdesc steps0 (vid i)) -> ~ In x (ncops_l later)) G ->
    NoDup (map gcid G) -> (forall g, In g G -> allocated (ss_w st) (gcid g) = true) ->
    (forall a, In a (nc_ins s) -> In a NC /\ In a (outs_l E ++ map fst args)) ->
    (forall t, In t later -> In t steps0) ->
    SInv st e E later defd gcd ->
    (forall st' gcd' idx', SInv st' e E later defd gcd' -> ss_cs st' = ss_cs st -> ss_ret st' = ss_ret st ->
        simres (stream_steps circs idx' rest st') (ssa_steps circs rest (e, ret))) ->
    simres (stream_steps circs idx (G ++ rest) st) (ssa_steps circs (G ++ rest) (e, ret)).
  Proof.
    induction G as [|g G IH]; intros rest st e ret idx defd gcd HF Hnd Hal Hs Hlat HI K.
    - simpl. apply (K st gcd idx); auto.
    - inversion HF as [|? ? (i & -> & Hc & Hi & Hno) HF']; subst.
      cbn [map] in Hnd. inversion Hnd as [|? ? Hn Hnd']; subst.
      cbn [app stream_steps ssa_steps]. rewrite stream_step_gc.
      change (ssa_step circs (gc_instr i) (e, ret)) with (Some (e, ret)).
      destruct HI as (Hz & Gi & Hrel & Hl & HR & HB & Hrz).
      assert (Ha : allocated (ss_w st) (vid i) = true) by (apply (Hal (gc_instr i)); left; reflexivity).
      apply allocated_lookup in Ha as (en & Le).
      destruct (Hs _ Hi) as [Hinc Hidef].
      destruct (gcw_inv (ss_w st) defd gcd (vid i) en Gi Le Hinc) as (w' & Hg & Gi' & Hlk & _).
      rewrite Hg.
      apply (IH rest (with_w st w') e ret (S idx) defd (vid i :: gcd) HF' Hnd'); [| exact Hs | exact Hlat | |].
      + intros g Hg0. unfold allocated. cbn [with_w ss_w]. rewrite Hlk.
        * apply (Hal g). right. exact Hg0.
        * intros E0. apply Hn. cbn [gcid gc_instr igc]. rewrite <- E0. apply in_map. exact Hg0.
      + split; [exact Hz|]. split; [exact Gi'|]. split; [exact Hrel|].
        split; [intros u [<-|Hu]; [auto | apply Hl, Hu]|].
        split; [|split; [exact HB | exact Hrz]].
        intros v b Lb Hv. destruct (HR v b Lb Hv) as [A1 A2].
        assert (Hvu : v <> vid i).
        { intros ->. destruct (vused_class later (vid i) Hlat Hv) as [H|H]; [|exact (H Hinc)].
          apply (Hno (vid i)); [apply self_desc | exact H]. }
        unfold allocated, ids_of in *. cbn [with_w ss_w]. rewrite Hlk by exact Hvu. split; [exact A1 | exact A2].
      + intros st' gcd' idx' HI' Hcs Hret. apply (K st' gcd' idx' HI'); [rewrite Hcs | rewrite Hret]; reflexivity.
  Qed.

  Lemma stream_step_alias idx s st : is_alias_op (iop s) = true ->
    stream_step circs idx s st =
    (let '(wires, w1) := operand_ids (ss_w st) (ss_zero st) (iin s) in
     let '(out, w2) := match iout s with Some o => assigned_ids w1 (vid o) (vbits o) | None => ([], w1) end in
     match iout s with
     | None => None
     | Some o => match alias_ids N (ss_zero st) (iop s) wires (map vcint (iin s)) out (vbits o) with
                 | Some ids => Some (with_w (with_w st w2) (set_ids w2 (vid o) ids))
                 | None => None
                 end
     end).
  Proof.
    intros H. unfold stream_step. destruct (operand_ids (ss_w st) (ss_zero st) (iin s)) as [wires w1].
    destruct (match iout s with Some o => assigned_ids w1 (vid o) (vbits o) | None => ([], w1) end) as [out w2].
    destruct (iop s); try discriminate; reflexivity.
  Qed.

  Lemma ssa_step_alias s e ret : is_alias_op (iop s) = true ->
    ssa_step circs s (e, ret) =
    match iout s with
    | None => None
    | Some o => match alias_ids bool false (iop s) (map (operand_bits e) (iin s)) (map vcint (iin s))
                        (repeat false (vbits o)) (vbits o) with
                | Some b => Some ((vid o, b) :: e, ret)
                | None => None
                end
    end.
  Proof. intros H. unfold ssa_step. destruct (iop s); try discriminate; reflexivity. Qed.

  Lemma vgarble_parts st step c ins outs :
    ss_w (vgarble st step c ins outs) = ss_w st /\ ss_zero (vgarble st step c ins outs) = ss_zero st /\
    ss_ret (vgarble st step c ins outs) = ss_ret st /\
    ss_cs (vgarble st step c ins outs) = fst (fst (garble_circ bool false unit bit_gatef (ss_cs st) tt c ins outs)).
  Proof.
    unfold vgarble, garble_circ_bits.
    destruct (garble_circ bool false unit bit_gatef (ss_cs st) tt c ins outs) as [[cs' u] sgs]. repeat split.
  Qed.

  Lemma ids_of_set_ids w v ev ids' : lookup v (whash w) = Some ev -> ids_of (set_ids w v ids') v = ids'.
  Proof. intros L. unfold set_ids, ids_of. rewrite L. cbn [whash]. rewrite lookup_set_key_eq. reflexivity. Qed.

  Lemma vpos_all s i : value_positions (iop s) (length (iin s)) = seq 0 (length (iin s)) -> In i (iin s) -> In i (vpos_ops s).
  Proof.
    intros Hv Hi. apply In_nth_error in Hi as (j & Hj). apply (vpos_at s j i); [|exact Hj].
    rewrite Hv. apply in_seq. split; [lia|]. apply nth_error_Some. rewrite Hj. discriminate.
  Qed.

  Lemma sum_bits_length (g : val -> list N) l :
    (forall i, length (g i) = vbits i) -> length (concat (map g l)) = sum_bits l.
  Proof.
    intros H. induction l as [|i t IH]; [reflexivity|]. cbn [map concat sum_bits fold_right]. rewrite app_length, H.
    unfold sum_bits in IH. rewrite IH. reflexivity.
  Qed.

  Lemma step_sim s E later st e idx defd gcd :
    steps0 = E ++ s :: later -> SInv st e E (s :: later) defd gcd -> ss_ret st = [] ->
    match stream_step circs idx s st, ssa_step circs s (e, []) with
    | Some st', Some (e', ret') =>
        (exists defd', SInv st' e' (E ++ [s]) later defd' gcd) /\
        (forall a, In a (nc_ins s) -> allocated (ss_w st') a = true) /\
        map (rd st') (ss_ret st') = ret' /\ (iop s <> ORet -> ss_ret st' = [] /\ ret' = [])
    | None, None => True
    | _, _ => False
    end.
  Proof.
    intros E0 (Hz & Gi & Hrel & Hl & HR & HB & Hrz) Hret0.
    assert (Hin : In s steps0) by (rewrite E0; apply in_or_app; right; left; reflexivity).
    pose proof (proj1 (Forall_forall _ _) Hsok s Hin) as [Hshape Hops].
    pose proof (proj1 (Forall_forall _ _) Hsok2 s Hin) as (Htab0 & Hcirc & Hslice & Hgen).
    assert (Hvp : forall i, In i (vpos_ops s) ->
              exists j, In j (value_positions (iop s) (length (iin s))) /\ nth_error (iin s) j = Some i).
    { intros i Hi. unfold vpos_ops in Hi. apply in_flat_map in Hi as (j & Hj & Hi).
      destruct (nth_error (iin s) j) as [i'|] eqn:Enj; [|destruct Hi]. destruct Hi as [<-|[]]. eauto. }
    assert (Htab : iop s <> OGen -> forall i, In i (vpos_ops s) -> vconst i = true -> In (vid i) Kt).
    { intros Hng i Hi Hc. destruct (Hvp i Hi) as (j & Hj & Ej).
      destruct (Htab0 j i Hj Ej Hc) as [H|[H _]]; [exact H | contradiction]. }
    destruct (Hwfl E s later E0) as [Wi Wo].
    assert (Hncs : forall a, In a (nc_ins s) -> In a NC /\ In a (outs_l E ++ map fst args)).
    { intros a Ha. specialize (Wi a Ha). split; [|exact Wi]. apply HNC.
      apply in_app_or in Wi as [H|H]; apply in_or_app; [left|auto].
      rewrite E0. unfold outs_l in *. rewrite flat_map_app. apply in_or_app. auto. }
    assert (Hnotgcd : forall a, In a (ncops_l (s :: later)) -> ~ In a gcd).
    { intros a Ha Hg. destruct (Hl a Hg) as (_ & _ & Hno). apply (Hno a); [apply self_desc | exact Ha]. }
    assert (Hopnd : forall i, In i (iin s) -> opnd_ok (ss_w st) i).
    { intros i Hi. destruct (Hops i Hi) as [H1 H2]. split; [|split; [exact H1 | exact H2]].
      intros Hc. assert (Ha : In (vid i) (nc_ins s)) by (apply in_nc_ins; eauto).
      destruct (Hncs _ Ha) as [Hn Hd]. apply (g_alloc _ _ _ Gi _ Hn). split; [apply Hrel; auto|].
      apply Hnotgcd. unfold ncops_l. cbn [flat_map]. apply in_or_app. auto. }
    assert (Hlater_in : forall t, In t (s :: later) -> In t steps0).
    { intros t Ht. rewrite E0. apply in_or_app. right. exact Ht. }
    assert (Hopcls : forall t i, In t (s :: later) -> In i (iin t) -> In (vid i) (ncops_l (s :: later)) \/ ~ In (vid i) NC).
    { intros t i Ht Hi. destruct (proj1 (Forall_forall _ _) Hsok t (Hlater_in t Ht)) as [_ Ho].
      destruct (vconst i) eqn:C; [right; apply (Ho i Hi), C|].
      left. unfold ncops_l. apply in_flat_map. exists t. split; [exact Ht|]. apply in_nc_ins. eauto. }
    assert (Hnodoom : forall v, In v (ncops_l (s :: later)) \/ ~ In v NC ->
              ~ (exists u, In u gcd /\ In v (fdesc steps0 u))).
    { intros v Hv (u & Hu & Hd). destruct (Hl u Hu) as (Hun & _ & Hno). destruct Hv as [Hv|Hv].
      - exact (Hno v Hd Hv).
      - apply Hv. eapply fdesc_nc; eauto. }
    assert (Hbound : forall i, In i (vpos_ops s) -> (vconst i = true -> In (vid i) Kt) ->
              exists b, lookup (vid i) e = Some b).
    { intros i Hi Ht. apply HB. destruct (vconst i) eqn:C.
      - right. apply Ht. reflexivity.
      - left. apply Wi. apply in_nc_ins. exists i. repeat split; auto. apply vpos_in, Hi. }
    assert (Hl' : live gcd (E ++ [s]) later).
    { intros u Hu. destruct (Hl u Hu) as (L1 & L2 & L3). split; [exact L1|]. split.
      - rewrite outs_l_app. apply in_app_or in L2 as [H|H]; apply in_or_app; [left; apply in_or_app; auto | auto].
      - intros x Hx Hi. apply (L3 x Hx). unfold ncops_l. cbn [flat_map]. apply in_or_app. auto. }
    assert (Hcls : (iop s = ORet /\ iout s = None /\ iret s = []) \/
                   (exists o, iout s = Some o /\ iret s = [] /\ (iop s = OGen \/ is_alias_op (iop s) = true)) \/
                   (iop s = OCirc /\ iout s = None /\ NoDup (map vid (iret s)) /\
                    length (cc_outs (nth (icirc s) circs cc0)) = length (iret s))).
    { destruct (iop s); try contradiction; try (right; left; destruct Hshape as (o & H1 & H2); exists o; auto);
        [left; tauto | right; right; tauto]. }
    destruct (operand_ids (ss_w st) zero (iin s)) as [wires w1] eqn:Eo.
    destruct (operand_ids_inv _ _ _ _ _ _ Gi Hopnd Eo) as (defd1 & G1 & D1 & X1 & Al1 & Ew).
    assert (Hrel1 : defd_rel defd1 E) by (intros k Hk; rewrite D1 by exact Hk; apply Hrel, Hk).
    assert (Hwb0 : forall i, In i (vpos_ops s) -> (vconst i = true -> In (vid i) Kt) ->
              map (rd st) (pad_operand N zero (vsigned i) (vbits i) (ids_of w1 (vid i))) = operand_bits e i).
    { intros i Hi Ht. eapply operand_rel; eauto. }
    assert (Hwb : iop s <> OGen -> forall i, In i (vpos_ops s) ->
              map (rd st) (pad_operand N zero (vsigned i) (vbits i) (ids_of w1 (vid i))) = operand_bits e i).
    { intros Hng i Hi. apply Hwb0; [exact Hi | apply Htab; auto]. }
    destruct Hcls as [(Eop & Eout & Eret)|[(o & Eout & Eret & Ecl)|(Eop & Eout & Hndr & Hlenr)]].
    3:{ (* ---- a native circuit step *)
      destruct (Hcirc Eop) as (Hcwf & Hcli & Hcni & Hcouts & Hcno & Hcsep). cbv zeta in Hcwf, Hcli, Hcni, Hcouts, Hcno, Hcsep.
      set (cc := nth (icirc s) circs cc0) in *. set (c := cc_c cc) in *.
      set (inb := concat (map (fun p : nat * list bool => let '(bits, w) := p in
                                 map (fun j => if j <? length w then nth j w false else false) (seq 0 bits))
                              (combine (cc_ins cc) (map (operand_bits e) (iin s))))).
      assert (Hss : stream_step circs idx s st =
                    let '(oIDs, w3) := circ_out_ids w1 zero (cc_outs cc) (iret s) in
                    Some (vgarble (with_w st w3) idx c (circ_in_ids zero (cc_ins cc) wires) oIDs)).
      { unfold stream_step. rewrite Hz, Eo, Eout, Eop. reflexivity. }
      assert (Hrs : ssa_step circs s (e, []) = Some (bind_rets e (cc_outs cc) (iret s) (eval_plain c inb), [])).
      { unfold ssa_step. rewrite Eop. reflexivity. }
      rewrite Hss, Hrs. clear Hss Hrs.
      assert (Houts : outs_of s = map vid (iret s)) by (unfold outs_of; rewrite Eout; reflexivity).
      assert (Hrets : forall r, In r (iret s) -> In (vid r) NC /\ lookup (vid r) (whash w1) = None /\ ~ In (vid r) gcd).
      { intros r Hr0. assert (Hov : In (vid r) (outs_of s)) by (rewrite Houts; apply in_map, Hr0).
        assert (HoNC : In (vid r) NC).
        { apply HNC, in_or_app. left. unfold outs_l. apply in_flat_map. exists s. auto. }
        assert (HoNew : ~ In (vid r) (outs_l E ++ map fst args)) by (apply Wo, Hov).
        split; [exact HoNC|]. split.
        - destruct (lookup (vid r) (whash w1)) eqn:L; [|reflexivity]. exfalso. apply HoNew, (Hrel1 _ HoNC).
          apply (g_alloc _ _ _ G1 _ HoNC). unfold allocated. rewrite L. reflexivity.
        - intros Hg. destruct (Hl _ Hg) as (_ & Hd & _). exact (HoNew Hd). }
      destruct (circ_out_ids w1 zero (cc_outs cc) (iret s)) as [oIDs w3] eqn:Ec.
      destruct (circ_out_ids_inv _ _ _ _ _ _ _ G1 Hlenr Hndr Hrets Ec) as (defd3 & G3 & D3 & K3 & L3 & A3 & N3 & F3 & O3).
      specialize (O3 Hcouts).
      set (idsf := fun r : val => ids_of w3 (vid r)) in *.
      set (iIDs := circ_in_ids zero (cc_ins cc) wires).
      destruct (vgarble_parts (with_w st w3) idx c iIDs oIDs) as (V1 & V2 & V3 & V4).
      set (st' := vgarble (with_w st w3) idx c iIDs oIDs) in *.
      cbn [with_w ss_w ss_zero ss_ret ss_cs] in V1, V2, V3, V4.
      assert (Hzown : In zero (owned_ids (whash w1))).
      { destruct (g_z _ _ _ G1) as (ez & eo & Z1 & Z2 & _). apply (owned_in _ zk ez); auto. rewrite Z2. left. reflexivity. }
      assert (Hinsown : forall id, In id iIDs -> id = zero \/ In id (owned_ids (whash w1))).
      { intros id Hid. apply circ_in_incl in Hid as [->|(wj & Hwj & Hid)]; [auto|]. rewrite Ew in Hwj.
        apply in_map_iff in Hwj as (i & <- & Hi). apply pad_operand_incl in Hid as [->|Hid]; [auto|]. right.
        pose proof (Al1 i Hi) as Ha. apply allocated_lookup in Ha as (ei & Li).
        destruct (g_prov _ _ _ G1 _ _ Li) as [Hd|Hp].
        - exfalso. apply (Hnodoom (vid i)); [apply (Hopcls s i); [left; reflexivity | exact Hi] | exact Hd].
        - destruct (Hp id Hid) as (k & e' & P1 & P2 & P3 & _). eapply owned_in; eauto. }
      assert (Hwlen : length wires = length (iin s)) by (rewrite Ew, map_length; reflexivity).
      assert (Hlenf : forall r, In r (iret s) -> length (idsf r) = vbits r) by (intros r Hr0; apply A3, Hr0).
      destruct (stream_sim_circuit c iIDs oIDs) with (cs := ss_cs st) as [S1 S2].
      { unfold iIDs. rewrite circ_in_length by (rewrite Hwlen; exact Hcli). symmetry. exact Hcni. }
      { rewrite O3, (flat_map_len idsf (iret s) Hlenf), Hcno, Hcouts. symmetry. apply sum_nat_vbits. }
      { rewrite O3. exact N3. }
      { intros id Ho Hi. rewrite O3 in Ho. destruct (Hinsown id Hi) as [->|H]; [exact (F3 _ Ho Hzown) | exact (F3 _ Ho H)]. }
      { exact Hcwf. }
      { exact Hcsep. }
      cbv zeta in S1, S2. rewrite <- V4 in S1, S2.
      assert (S1' : map (rd st') oIDs = eval_plain c (map (rd st) iIDs)) by exact S1.
      assert (Hframe : forall id, ~ In id oIDs -> rd st' id = rd st id) by (intros id Hid; apply S2, Hid).
      assert (Hins : map (rd st) iIDs = inb).
      { unfold iIDs, inb. rewrite (circ_in_read (rd st) zero Hrz). do 3 f_equal.
        rewrite Ew, map_map. apply map_ext_in. intros i Hi.
        apply Hwb; [rewrite Eop; discriminate|]. apply vpos_all; [rewrite Eop; reflexivity | exact Hi]. }
      assert (Hbits : map (rd st') (flat_map idsf (iret s)) = eval_plain c inb) by (rewrite <- O3, S1', Hins; reflexivity).
      split; [|split; [|split]].
      * exists defd3. split; [rewrite V2; exact Hz|]. split; [rewrite V1; exact G3|].
        split.
        { intros k Hk. rewrite D3, (Hrel1 k Hk), outs_l_app. change (outs_l [s]) with (outs_of s ++ []).
          rewrite app_nil_r, Houts. rewrite !in_app_iff. tauto. }
        split; [exact Hl'|]. split; [|split].
        -- intros v b Lb Hv. rewrite V1. rewrite Hcouts in Lb.
           destruct (bind_rets_rel idsf (rd st') e (iret s) _ Hlenf Hbits v b Lb) as [(r & Hr0 & <- & Hm)|[Hnv Le]].
           ++ split; [apply A3, Hr0 | exact Hm].
           ++ destruct (HR v b Le (vused_cons s later v Hv)) as [A1 A2].
              destruct X1 as (X11 & X12 & X13).
              assert (Ha1 : allocated w1 v = true).
              { apply allocated_lookup in A1 as (e0 & He0). destruct (X11 _ _ He0) as (e1 & He1 & _). apply allocated_lookup. eauto. }
              split; [rewrite (proj2 (K3 v Hnv)); exact Ha1|].
              rewrite (proj1 (K3 v Hnv)), (X12 _ A1), <- A2. apply map_ext_in. intros id Hid. apply Hframe. intros Ho.
              rewrite O3 in Ho.
              assert (Hidw1 : In id (ids_of w1 v)) by (rewrite (X12 _ A1); exact Hid).
              apply allocated_lookup in Ha1 as (e1 & Le1).
              destruct (g_prov _ _ _ G1 _ _ Le1) as [Hd|Hp].
              ** apply (Hnodoom v); [|exact Hd].
                 destruct (vused_class later v (fun t Ht => Hlater_in t (or_intror Ht)) Hv) as [H|H]; [left|auto].
                 unfold ncops_l. cbn [flat_map]. apply in_or_app. auto.
              ** destruct (Hp id Hidw1) as (k & e' & P1 & P2 & P3 & _). apply (F3 id Ho). eapply owned_in; eauto.
        -- intros k Hk. apply bind_rets_bound; [exact Hlenr|].
           destruct Hk as [Hk|Hk]; [|left; apply HB; auto].
           rewrite outs_l_app in Hk. change (outs_l [s]) with (outs_of s ++ []) in Hk. rewrite app_nil_r, Houts in Hk.
           rewrite !in_app_iff in Hk. destruct Hk as [[Hk|Hk]|Hk]; [left; apply HB; left; apply in_or_app; auto | auto |
                                                                 left; apply HB; left; apply in_or_app; auto].
        -- rewrite Hframe; [exact Hrz|]. intros Ho. rewrite O3 in Ho. exact (F3 _ Ho Hzown).
      * intros a Ha. rewrite V1. apply in_nc_ins in Ha as (i & Hi & _ & <-).
        assert (Hnr : ~ In (vid i) (map vid (iret s))).
        { intros Hir. apply in_map_iff in Hir as (r & Er & Hr0). destruct (Hrets r Hr0) as (_ & Lr & _).
          pose proof (Al1 i Hi) as A. unfold allocated in A. rewrite <- Er, Lr in A. discriminate. }
        rewrite (proj2 (K3 _ Hnr)). apply Al1, Hi.
      * rewrite V3, Hret0. reflexivity.
      * intros _. rewrite V3, Hret0. auto. }
    - (* ret *)
      unfold stream_step, ssa_step. rewrite Hz, Eo, Eout, Eop.
      assert (Hlat : later = []) by (eapply Hretlast; eauto). subst later.
      assert (Hall : map (rd st) (concat wires) = concat (map (operand_bits e) (iin s))).
      { rewrite concat_map, Ew, map_map. f_equal. apply map_ext_in. intros i Hi. apply Hwb; [rewrite Eop; discriminate|].
        apply vpos_all; [rewrite Eop; reflexivity | exact Hi]. }
      split; [|split; [|split]].
      + exists defd1. split; [reflexivity|]. split; [exact G1|]. split.
        * intros k Hk. rewrite outs_l_app. unfold outs_l at 2. cbn [flat_map]. unfold outs_of. rewrite Eout, Eret.
          cbn [map app]. rewrite app_nil_r. apply Hrel1, Hk.
        * split; [exact Hl'|]. split; [intros v b _ []|]. split; [|exact Hrz].
          intros k Hk. apply HB. rewrite outs_l_app in Hk. unfold outs_l at 2 in Hk. cbn [flat_map] in Hk.
          unfold outs_of in Hk. rewrite Eout, Eret in Hk. cbn [map app] in Hk. rewrite !app_nil_r in Hk. exact Hk.
      + intros a Ha. apply in_nc_ins in Ha as (i & Hi & _ & <-). apply Al1, Hi.
      + cbn [ss_ret]. rewrite Hret0. cbn [app]. exact Hall.
      + intros Hne. congruence.
    - (* a step with a new result value *)
      assert (Hov : In (vid o) (outs_of s)) by (unfold outs_of; rewrite Eout; left; reflexivity).
      assert (HoNC : In (vid o) NC).
      { apply HNC, in_or_app. left. unfold outs_l. apply in_flat_map. exists s. auto. }
      assert (HoNew : ~ In (vid o) (outs_l E ++ map fst args)) by (apply Wo, Hov).
      assert (Lo : lookup (vid o) (whash w1) = None).
      { destruct (lookup (vid o) (whash w1)) eqn:L; [|reflexivity]. exfalso. apply HoNew, (Hrel1 _ HoNC).
        apply (g_alloc _ _ _ G1 _ HoNC). unfold allocated. rewrite L. reflexivity. }
      assert (Hog : In (vid o) NC -> ~ In (vid o) gcd).
      { intros _ Hg. destruct (Hl _ Hg) as (_ & Hd & _). exact (HoNew Hd). }
      destruct (assigned_ids w1 (vid o) (vbits o)) as [out w2] eqn:Ea.
      destruct (aid_new _ _ _ _ _ _ _ G1 Lo Hog Ea) as (G2 & I1 & Ind & I2 & I3 & I4 & I5 & I6 & (ev & Lev & Ewv & Eiv & Hobv)).
      assert (Hlen_out : length out = vbits o).
      { destruct (aid_new_shape _ _ _ _ _ Lo Ea) as (b0 & -> & _). apply block_length. }
      assert (Hrel2 : defd_rel (vid o :: defd1) (E ++ [s])).
      { intros k Hk. unfold outs_l. rewrite flat_map_app. cbn [flat_map]. rewrite app_nil_r.
        unfold outs_of at 2. rewrite Eout, Eret. cbn [map app]. specialize (Hrel1 k Hk). fold (outs_l E). split.
        - intros [<-|H]; [apply in_or_app; left; apply in_or_app; right; left; reflexivity|].
          apply Hrel1 in H. apply in_app_or in H as [H|H]; apply in_or_app; [left; apply in_or_app; auto | auto].
        - intros H. apply in_app_or in H as [H|H].
          + apply in_app_or in H as [H|[H|[]]]; [right; apply Hrel1, in_or_app; auto | left; exact H].
          + right. apply Hrel1, in_or_app. auto. }
      assert (Hne : forall i, In i (iin s) -> vid i <> vid o).
      { intros i Hi Heq. pose proof (Al1 i Hi) as A. unfold allocated in A. rewrite Heq, Lo in A. discriminate. }
      assert (Halloc2 : forall a, In a (nc_ins s) -> allocated w2 a = true).
      { intros a Ha. apply in_nc_ins in Ha as (i & Hi & _ & <-). rewrite I3 by (apply Hne, Hi). apply Al1, Hi. }
      (* values of the old environment that are still used keep their ids through w1, w2 *)
      assert (Hkeep : forall v, allocated (ss_w st) v = true ->
                 v <> vid o /\ ids_of w2 v = ids_of (ss_w st) v /\ allocated w2 v = true).
      { intros v Ha. destruct X1 as (X11 & X12 & X13).
        assert (Ha1 : allocated w1 v = true).
        { apply allocated_lookup in Ha as (e0 & He0). destruct (X11 _ _ He0) as (e1 & He1 & _). apply allocated_lookup. eauto. }
        assert (Hvo : v <> vid o) by (intros ->; unfold allocated in Ha1; rewrite Lo in Ha1; discriminate).
        split; [exact Hvo|]. split; [rewrite I2 by exact Hvo; apply X12, Ha | rewrite I3 by exact Hvo; exact Ha1]. }
      assert (HBd2 : forall b', Bd ((vid o, b') :: e) (E ++ [s])).
      { intros b' k Hk. cbn [lookup]. destruct (N.eqb k (vid o)) eqn:Ek; [eauto|]. apply N.eqb_neq in Ek. apply HB.
        destruct Hk as [Hk|Hk]; [|auto]. rewrite outs_l_app in Hk. unfold outs_l at 2 in Hk. cbn [flat_map] in Hk.
        unfold outs_of in Hk. rewrite Eout, Eret in Hk. cbn [map app] in Hk. rewrite ?app_nil_r in Hk.
        apply in_app_or in Hk as [Hk|Hk]; [|left; apply in_or_app; auto].
        apply in_app_or in Hk as [Hk|[Hk|[]]]; [left; apply in_or_app; auto|].
        congruence. }
      destruct (is_alias_op (iop s)) eqn:Eal.
      + (* ---- alias *)
        rewrite (stream_step_alias idx s st Eal), (ssa_step_alias s e [] Eal), Hz, Eo, Eout, Ea.
        assert (Hchain : option_map (map (rd st)) (alias_ids N zero (iop s) wires (map vcint (iin s)) out (vbits o))
                         = alias_ids bool false (iop s) (map (operand_bits e) (iin s)) (map vcint (iin s))
                             (repeat false (vbits o)) (vbits o)).
        { rewrite (alias_ids_map N bool (rd st) zero), Hrz.
          rewrite (alias_ids_old false (iop s) _ _ (map (rd st) out) (repeat false (vbits o)) (vbits o)).
          - apply alias_ids_positions; [|exact Eal]. rewrite map_length, Ew, map_length. intros j Hj.
            destruct (nth_error (iin s) j) as [i|] eqn:Ej.
            + rewrite map_map. rewrite (nth_map_error _ _ j i [] Ej), (nth_map_error _ _ j i [] Ej).
              apply Hwb; [intros Eg; rewrite Eg in Eal; discriminate|]. eapply vpos_at; eauto.
            + apply nth_error_None in Ej. rewrite !nth_overflow by (rewrite ?map_length; exact Ej). reflexivity.
          - rewrite map_length, repeat_length. exact Hlen_out.
          - rewrite map_length. exact Hlen_out.
          - intros Hs. destruct (Hslice Hs o Eout) as (_ & _ & H3). exact H3. }
        destruct (alias_ids N zero (iop s) wires (map vcint (iin s)) out (vbits o)) as [ids'|] eqn:Eai;
          cbn [option_map] in Hchain; rewrite <- Hchain; [|exact I].
        assert (Hprov : forall id, In id ids' ->
                  exists k e', lookup k (whash w2) = Some e' /\ ~ In k Kt /\ In id (oblock e') /\ related k (vid o)).
        { assert (Hwires : wires = map (fun i => pad_operand N zero (vsigned i) (vbits i) (ids_of w2 (vid i))) (iin s)).
          { rewrite Ew. apply map_ext_in. intros i Hi. rewrite I2 by (apply Hne, Hi). reflexivity. }
          assert (Hal2 : forall i, In i (iin s) -> allocated w2 (vid i) = true).
          { intros i Hi. rewrite I3 by (apply Hne, Hi). apply Al1, Hi. }
          assert (Hconst : forall i, In i (iin s) -> vconst i = true -> ~ In (vid i) NC).
          { intros i Hi. apply (Hops i Hi). }
          assert (Hopdoom : forall i, In i (iin s) -> ~ (exists u, In u gcd /\ In (vid i) (fdesc steps0 u))).
          { intros i Hi. apply Hnodoom. apply (Hopcls s i); [left; reflexivity | exact Hi]. }
          exact (alias_prov_ok s o w2 (vid o :: defd1) gcd wires out ids' Hin Eal Eout G2
                   (ex_intro _ ev (conj Lev Hobv)) Hwires Hal2 Hopdoom Hconst Eai). }
        destruct (setids_inv w2 _ gcd (vid o) ev ids' G2 Lev Ewv HoNC) as (G3 & L3 & A3).
        { intros old Ho. rewrite Eiv in Ho. injection Ho as <-. eapply alias_ids_length; eauto. }
        { right. exact Hprov. }
        assert (Hrd : forall id, rd (with_w (with_w st w2) (set_ids w2 (vid o) ids')) id = rd st id) by reflexivity.
        split; [|split; [|split]].
        * exists (vid o :: defd1). split; [exact Hz|]. split; [exact G3|]. split; [exact Hrel2|]. split; [exact Hl'|].
          split; [|split; [apply HBd2 | exact Hrz]].
          intros v b Lb Hv. cbn [lookup] in Lb. cbn [with_w ss_w].
          destruct (N.eqb v (vid o)) eqn:Ev.
          -- apply N.eqb_eq in Ev. subst v. injection Lb as <-. split; [rewrite A3; exact I4|].
             rewrite (ids_of_set_ids w2 (vid o) ev ids' Lev). apply (map_ext (rd _) (rd st)). exact Hrd.
          -- apply N.eqb_neq in Ev. destruct (HR v b Lb (vused_cons s later v Hv)) as [A1 A2].
             destruct (Hkeep v A1) as (_ & K2 & K3). split; [rewrite A3; exact K3|].
             unfold ids_of. rewrite L3 by exact Ev. fold (ids_of w2 v). rewrite K2.
             rewrite <- A2. apply map_ext. exact Hrd.
        * intros a Ha. cbn [with_w ss_w]. rewrite A3. apply Halloc2, Ha.
        * cbn [with_w ss_ret]. rewrite Hret0. reflexivity.
        * intros _. cbn [with_w ss_ret]. auto.
      + (* ---- a circuit step *)
        destruct Ecl as [Eg|Ea']; [|congruence].
        unfold stream_step, ssa_step. rewrite Hz, Eo, Eout, Ea, Eg.
        destruct (Hgen Eg o Eout) as (Hcwf & Hcni & Hcno & Hcsep).
        set (c := cc_c (nth (icirc s) circs cc0)) in *.
        destruct (vgarble_parts (with_w st w2) idx c (concat wires) out) as (V1 & V2 & V3 & V4).
        set (st' := vgarble (with_w st w2) idx c (concat wires) out) in *.
        cbn [with_w ss_w ss_zero ss_ret ss_cs] in V1, V2, V3, V4.
        assert (Hinsown : forall id, In id (concat wires) -> id = zero \/ In id (owned_ids (whash w1))).
        { intros id Hid. apply in_concat in Hid as (wj & Hwj & Hid). rewrite Ew in Hwj.
          apply in_map_iff in Hwj as (i & <- & Hi). apply pad_operand_incl in Hid as [->|Hid]; [auto|]. right.
          pose proof (Al1 i Hi) as Ha. apply allocated_lookup in Ha as (ei & Li).
          destruct (g_prov _ _ _ G1 _ _ Li) as [Hd|Hp].
          - exfalso. apply (Hnodoom (vid i)); [apply (Hopcls s i); [left; reflexivity | exact Hi] | exact Hd].
          - destruct (Hp id Hid) as (k & e' & P1 & P2 & P3 & _). eapply owned_in; eauto. }
        assert (Hzown : In zero (owned_ids (whash w1))).
        { destruct (g_z _ _ _ G1) as (ez & eo & Z1 & Z2 & _). apply (owned_in _ zk ez); auto. rewrite Z2. left. reflexivity. }
        destruct (stream_sim_circuit c (concat wires) out) with (cs := ss_cs st) as [S1 S2].
        { rewrite Ew. rewrite (sum_bits_length (fun i => pad_operand N zero (vsigned i) (vbits i) (ids_of w1 (vid i)))).
          - symmetry. exact Hcni.
          - intros i. apply pad_operand_length. }
        { rewrite Hlen_out. symmetry. exact Hcno. }
        { exact Ind. }
        { intros id Ho Hi. destruct (Hinsown id Hi) as [->|H]; [exact (I6 _ Ho Hzown) | exact (I6 _ Ho H)]. }
        { exact Hcwf. }
        { exact Hcsep. }
        cbv zeta in S1, S2. rewrite <- V4 in S1, S2.
        fold (rd st) in S1. fold (rd st') in S1.
        assert (Hins : eval_plain c (map (rd st) (concat wires)) = eval_plain c (concat (map (operand_bits e) (iin s)))).
        { rewrite concat_map, Ew, map_map.
          assert (Hlf : forall i, length (map (rd st) (pad_operand N zero (vsigned i) (vbits i) (ids_of w1 (vid i)))) = vbits i)
            by (intros i; rewrite map_length; apply pad_operand_length).
          assert (Hlg : forall i, length (operand_bits e i) = vbits i) by (intros i; unfold operand_bits; apply pad_operand_length).
          apply eval_plain_unread.
          - rewrite (concat_len _ (iin s) Hlf), (concat_len _ (iin s) Hlg). reflexivity.
          - exact Hcsep.
          - intros k Hk Hr. apply (blocks_agree c _ _ (iin s) 0 Hlf Hlg); [|exact Hr].
            intros j i Ej.
            assert (Hj : In j (value_positions (iop s) (length (iin s)))).
            { rewrite Eg. cbn [value_positions]. apply in_seq. split; [lia|]. cbn [Nat.add]. apply nth_error_Some. rewrite Ej. discriminate. }
            destruct (vconst i) eqn:C.
            + destruct (Htab0 j i Hj Ej C) as [H|[_ H]]; [left; apply Hwb0; [eapply vpos_at; eauto | intros _; exact H] | right; exact H].
            + left. apply Hwb0; [eapply vpos_at; eauto | congruence]. }
        assert (Hframe : forall id, ~ In id out -> rd st' id = rd st id) by (intros id Hid; apply S2, Hid).
        split; [|split; [|split]].
        * exists (vid o :: defd1). split; [rewrite V2; exact Hz|]. split; [rewrite V1; exact G2|].
          split; [exact Hrel2|]. split; [exact Hl'|]. split; [|split; [apply HBd2|]].
          -- intros v b Lb Hv. cbn [lookup] in Lb. rewrite V1.
             destruct (N.eqb v (vid o)) eqn:Ev.
             ++ apply N.eqb_eq in Ev. subst v. injection Lb as <-. split; [exact I4|].
                rewrite I1. unfold rd at 1. change (map (fun id => sfind false (cs_wires (ss_cs st')) id) out
                  = eval_plain c (concat (map (operand_bits e) (iin s)))). rewrite <- Hins. exact S1.
             ++ apply N.eqb_neq in Ev. destruct (HR v b Lb (vused_cons s later v Hv)) as [A1 A2].
                destruct (Hkeep v A1) as (_ & K2 & K3). split; [exact K3|].
                rewrite K2, <- A2. apply map_ext_in. intros id Hid. apply Hframe. intros Ho.
                (* the ids of a value that is still used are owned *)
                assert (Hidw1 : In id (ids_of w1 v)).
                { destruct X1 as (_ & X12 & _). rewrite (X12 _ A1). exact Hid. }
                assert (Hal1 : allocated w1 v = true).
                { rewrite <- (I3 v) by (intros ->; congruence). exact K3. }
                apply allocated_lookup in Hal1 as (e1 & Le1).
                destruct (g_prov _ _ _ G1 _ _ Le1) as [Hd|Hp].
                ** apply (Hnodoom v); [|exact Hd].
                   destruct (vused_class later v (fun t Ht => Hlater_in t (or_intror Ht)) Hv) as [H|H]; [left|auto].
                   unfold ncops_l. cbn [flat_map]. apply in_or_app. auto.
                ** destruct (Hp id Hidw1) as (k & e' & P1 & P2 & P3 & _). apply (I6 id Ho). eapply owned_in; eauto.
          -- rewrite Hframe; [exact Hrz|]. intros Ho. exact (I6 _ Ho Hzown).
        * intros a Ha. rewrite V1. apply Halloc2, Ha.
        * rewrite V3, Hret0. reflexivity.
        * intros _. rewrite V3, Hret0. auto.
  Qed.

  Lemma run_sim : forall later g, gcform steps0 later g ->
    forall E st e idx defd gcd, steps0 = E ++ later -> SInv st e E later defd gcd -> ss_ret st = [] ->
    simres (stream_steps circs idx g st) (ssa_steps circs g (e, [])).
  Proof.
    induction 1 as [|s later G g' Hf IH HG]; intros E st e idx defd gcd E0 HI Hret0.
    - cbn. rewrite Hret0. reflexivity.
    - destruct HG as [HGF HGN].
      destruct (Hwfl E s later E0) as [Wi Wo].
      cbn [stream_steps ssa_steps].
      pose proof (step_sim s E later st e idx defd gcd E0 HI Hret0) as HS.
      destruct (stream_step circs idx s st) as [st'|]; destruct (ssa_step circs s (e, [])) as [[e' ret']|];
        try contradiction; [|exact I].
      destruct HS as ((defd' & HI') & Hal' & Hretrel & Hnr).
      assert (E1 : steps0 = (E ++ [s]) ++ later) by (rewrite <- app_assoc; exact E0).
      assert (Hs' : forall a, In a (nc_ins s) -> In a NC /\ In a (outs_l (E ++ [s]) ++ map fst args)).
      { intros a Ha. specialize (Wi a Ha). split.
        - apply HNC. apply in_app_or in Wi as [H|H]; apply in_or_app; [left|auto].
          rewrite E0, outs_l_app. apply in_or_app. auto.
        - rewrite outs_l_app. apply in_app_or in Wi as [H|H]; apply in_or_app; [left; apply in_or_app; auto | auto]. }
      assert (Hlat : forall t, In t later -> In t steps0).
      { intros t Ht. rewrite E0. apply in_or_app. right. right. exact Ht. }
      assert (Halg : forall g0, In g0 G -> allocated (ss_w st') (gcid g0) = true).
      { intros g0 Hg0. rewrite Forall_forall in HGF. destruct (HGF g0 Hg0) as (i & -> & _ & Hi & _).
        cbn [gcid gc_instr igc]. apply Hal', Hi. }
      assert (Hcase : iop s = ORet \/ iop s <> ORet) by (destruct (iop s); auto; right; discriminate).
      destruct Hcase as [Hr|Hr].
      + assert (later = []) by (eapply Hretlast; eauto). subst later.
        assert (Hg' : g' = []) by (inversion Hf; reflexivity). rewrite Hg'.
        apply (gcs_sim s (E ++ [s]) [] G [] st' e' ret' (S idx) defd' gcd HGF HGN Halg Hs' Hlat HI').
        intros st'' gcd' idx' _ Hcs Hrt. cbn [stream_steps ssa_steps simres].
        rewrite Hrt, <- Hretrel. apply map_ext. intros id. unfold rd. rewrite Hcs. reflexivity.
      + destruct (Hnr Hr) as [Hr1 Hr2]. rewrite Hr2.
        apply (gcs_sim s (E ++ [s]) later G g' st' e' [] (S idx) defd' gcd HGF HGN Halg Hs' Hlat HI').
        intros st'' gcd' idx' HI'' _ Hrt. apply (IH (E ++ [s]) st'' e' idx' defd' gcd' E1 HI'').
        rewrite Hrt. exact Hr1.
  Qed.
End Dyn.






(* ------------------------------------------------------------------ *)
(** * The initial state of Program.Stream satisfies the invariant *)

Fixpoint argents (al : list (N * nat)) (off : N) : list (N * entry) :=
  match al with
  | [] => []
  | (k, n) :: t => (k, mkEntry None (Some (block off n)) None) :: argents t (off + N.of_nat n)
  end.

Definition total (al : list (N * nat)) : N := fold_right (fun a acc => (N.of_nat (snd a) + acc)%N) 0%N al.

Lemma input_fold : forall al w,
  NoDup (map fst al) -> (forall k, In k (map fst al) -> lookup k (whash w) = None) ->
  fold_left (fun w a => input_wires w (fst a) (snd a)) al w
  = mkWalloc (rev (argents al (wnext w)) ++ whash w) (wfree w) (wnext w + total al).
Proof.
  induction al as [|[k n] t IH]; intros w Hnd Hnew.
  - simpl. rewrite N.add_0_r. destruct w; reflexivity.
  - cbn [fold_left fst snd]. inversion Hnd as [|? ? Hk Hnd']; subst.
    unfold input_wires at 2. rewrite (Hnew k (or_introl eq_refl)).
    rewrite IH; [|exact Hnd'|].
    + cbn [whash wfree wnext argents total fold_right snd rev]. rewrite <- app_assoc. cbn [app].
      fold (total t). f_equal; try reflexivity; lia.
    + intros k' Hk'. cbn [whash lookup]. destruct (N.eqb k' k) eqn:E.
      * apply N.eqb_eq in E. subst. contradiction.
      * apply Hnew. right. exact Hk'.
Qed.

Lemma argents_keys al : forall off, map fst (argents al off) = map fst al.
Proof. induction al as [|[k n] t IH]; intros off; simpl; [reflexivity | rewrite IH; reflexivity]. Qed.

Lemma argents_in al : forall off k e, In (k, e) (argents al off) ->
  exists b n, e = mkEntry None (Some (block b n)) None /\ In (k, n) al /\
              (off <= b)%N /\ (b + N.of_nat n <= off + total al)%N.
Proof.
  induction al as [|[k0 n0] t IH]; intros off k e H; [destruct H|].
  cbn [argents] in H. destruct H as [H|H].
  - injection H as <- <-. exists off, n0. repeat split; auto; [left; reflexivity | lia | cbn; lia].
  - destruct (IH _ _ _ H) as (b & n & E & I & L1 & L2). exists b, n. repeat split; auto; [right; exact I | lia | cbn [total fold_right snd] in *; fold (total t); lia].
Qed.

Lemma argents_ids al : forall off,
  NoDup (flat_map (fun p => oblock (snd p)) (argents al off)) /\
  forall id, In id (flat_map (fun p => oblock (snd p)) (argents al off)) -> (off <= id < off + total al)%N.
Proof.
  induction al as [|[k n] t IH]; intros off; [split; [constructor | intros id []]|].
  cbn [argents flat_map snd]. destruct (IH (off + N.of_nat n)%N) as [I1 I2].
  assert (Hob : oblock (mkEntry None (Some (block off n)) None) = block off n) by reflexivity.
  rewrite Hob. split.
  - apply NoDup_app_iff. repeat split; [apply NoDup_block | exact I1|].
    intros x Hx Hx2. apply in_block in Hx. apply I2 in Hx2. lia.
  - intros id Hid. cbn [total fold_right snd]. fold (total t). apply in_app_or in Hid as [H|H].
    + apply in_block in H. lia.
    + apply I2 in H. lia.
Qed.

Definition constents (zero one : N) (cs : list (N * list bool)) : list (N * entry) :=
  map (fun c => let ids := map (fun b : bool => if b then one else zero) (snd c) in
                (fst c, mkEntry (match ids with [] => None | b :: _ => Some b end) (Some ids) (Some ids))) cs.

Lemma consts_fold zero one : forall cs w,
  NoDup (map fst cs) -> (forall k, In k (map fst cs) -> lookup k (whash w) = None) ->
  define_constants w zero one cs
  = mkWalloc (rev (constents zero one cs) ++ whash w) (wfree w) (wnext w).
Proof.
  unfold define_constants. induction cs as [|[k bits] t IH]; intros w Hnd Hnew.
  - simpl. destruct w; reflexivity.
  - cbn [fold_left]. inversion Hnd as [|? ? Hk Hnd']; subst.
    unfold allocated at 2. rewrite (Hnew k (or_introl eq_refl)).
    rewrite IH; [|exact Hnd'|].
    + unfold set_wires. cbn [whash wfree wnext constents map rev fst snd]. rewrite <- app_assoc. reflexivity.
    + intros k' Hk'. unfold set_wires. cbn [whash lookup]. destruct (N.eqb k' k) eqn:E.
      * apply N.eqb_eq in E. subst. contradiction.
      * apply Hnew. right. exact Hk'.
Qed.

Lemma in_lookup {A} k (a : A) l : NoDup (map fst l) -> In (k, a) l -> lookup k l = Some a.
Proof.
  induction l as [|[k2 a2] t IH]; intros Hnd H; [destruct H|]. simpl in *. inversion Hnd as [|? ? Hn Hd]; subst.
  destruct H as [H|H].
  - injection H as -> ->. rewrite N.eqb_refl. reflexivity.
  - destruct (N.eqb k k2) eqn:E; [|apply IH; auto]. apply N.eqb_eq in E. subst k2.
    exfalso. apply Hn. apply in_map_iff. exists (k, a). auto.
Qed.

Lemma nodupb_NoDup l : nodupb l = true -> NoDup l.
Proof.
  induction l as [|x t IH]; intros H; [constructor|]. simpl in H. apply andb_prop in H as [H1 H2].
  constructor; [|apply IH, H2]. apply mem_false. destruct (mem x t); [discriminate | reflexivity].
Qed.

Lemma ss_w_vgarble st step c ins outs : ss_w (vgarble st step c ins outs) = ss_w st /\ ss_zero (vgarble st step c ins outs) = ss_zero st.
Proof. unfold vgarble. destruct (garble_circ_bits (ss_cs st) c ins outs). split; reflexivity. Qed.

(* the allocator and the zero/one wire ids after the initialisation *)
Definition init_w (p : sprog) : walloc :=
  let n := total (sp_args p) in
  mkWalloc (rev (constents n (n + 1) (sp_consts p))
            ++ (sp_one_key p, mkEntry (Some (n + 1)%N) (Some [(n + 1)%N]) (Some [(n + 1)%N]))
            :: (sp_zero_key p, mkEntry (Some n) (Some [n]) (Some [n]))
            :: rev (argents (sp_args p) 0))
           [] (n + 2).

Definition init_alloc (p : sprog) : walloc * N * N :=
  let w1 := fold_left (fun w a => input_wires w (fst a) (snd a)) (sp_args p) walloc0 in
  let '(zw, w2) := assigned_wires w1 (sp_zero_key p) 1 in
  let zero := nth 0 zw 0%N in
  let '(ow, w3) := assigned_wires w2 (sp_one_key p) 1 in
  let one := nth 0 ow 0%N in
  (define_constants w3 zero one (sp_consts p), zero, one).

Lemma stream_init_alloc p xy :
  (ss_w (stream_init p xy), ss_zero (stream_init p xy)) = fst (init_alloc p).
Proof.
  unfold stream_init, init_alloc.
  destruct (assigned_wires _ (sp_zero_key p) 1) as [zw w2].
  match goal with |- context [vgarble ?st 0 zero_circ ?i ?o] =>
    destruct (ss_w_vgarble st 0 zero_circ i o) as [V1 V2]; set (st1 := vgarble st 0 zero_circ i o) in * end.
  cbn [ss_w ss_zero] in V1, V2. rewrite V1.
  destruct (assigned_wires w2 (sp_one_key p) 1) as [ow w3].
  match goal with |- context [vgarble ?st 0 one_circ ?i ?o] =>
    destruct (ss_w_vgarble st 0 one_circ i o) as [V3 V4]; set (st2 := vgarble st 0 one_circ i o) in * end.
  unfold with_w in *. cbn [ss_w ss_zero] in *. rewrite V4, V2. reflexivity.
Qed.

Lemma init_alloc_eq p :
  NoDup (map fst (sp_args p) ++ const_keys p) ->
  init_alloc p = (init_w p, total (sp_args p), (total (sp_args p) + 1)%N).
Proof.
  intros Hnd. unfold const_keys in Hnd.
  apply NoDup_app_iff in Hnd as (Ha & Hc & Hac).
  inversion Hc as [|? ? Hz Hc1]; subst. inversion Hc1 as [|? ? Ho Hc2]; subst.
  unfold init_alloc.
  rewrite (input_fold (sp_args p) walloc0 Ha) by (intros k _; reflexivity).
  cbn [walloc0 whash wfree wnext]. rewrite app_nil_r, N.add_0_l.
  set (n := total (sp_args p)).
  set (H1 := rev (argents (sp_args p) 0)).
  assert (Hk1 : forall k e, In k (sp_zero_key p :: sp_one_key p :: map fst (sp_consts p)) -> lookup k H1 = Some e -> False).
  { intros k e Hk L. apply lookup_in in L. apply (Hac k); [|exact Hk].
    rewrite <- (argents_keys (sp_args p) 0). apply in_map_iff. exists (k, e). split; [reflexivity|].
    apply in_rev. exact L. }
  assert (Lz : lookup (sp_zero_key p) H1 = None).
  { destruct (lookup (sp_zero_key p) H1) eqn:L; [|reflexivity]. exfalso. eapply Hk1; eauto. left. reflexivity. }
  unfold assigned_wires at 1. cbn [whash]. rewrite Lz. cbn [block seq map nth wnext whash wfree].
  rewrite N.add_0_r.
  assert (Lo : lookup (sp_one_key p) ((sp_zero_key p, mkEntry (Some n) (Some [n]) (Some [n])) :: H1) = None).
  { cbn [lookup]. destruct (N.eqb (sp_one_key p) (sp_zero_key p)) eqn:E.
    - apply N.eqb_eq in E. exfalso. apply Hz. left. exact E.
    - destruct (lookup (sp_one_key p) H1) eqn:L; [|reflexivity]. exfalso. eapply Hk1; eauto. right. left. reflexivity. }
  unfold assigned_wires. cbn [whash]. rewrite Lo. cbn [block seq map nth wnext whash wfree].
  rewrite N.add_0_r.
  rewrite consts_fold; [|exact Hc2|].
  - unfold init_w. fold n. cbn [whash wfree wnext].
    replace (n + N.of_nat 1)%N with (n + 1)%N by lia.
    replace (n + 1 + N.of_nat 1)%N with (n + 2)%N by lia. reflexivity.
  - intros k Hk. cbn [whash lookup].
    destruct (N.eqb k (sp_one_key p)) eqn:E1; [apply N.eqb_eq in E1; subst; contradiction|].
    destruct (N.eqb k (sp_zero_key p)) eqn:E2; [apply N.eqb_eq in E2; subst; exfalso; apply Hz; right; exact Hk|].
    destruct (lookup k H1) eqn:L; [|reflexivity]. exfalso. eapply Hk1; eauto. right. right. exact Hk.
Qed.

Lemma nodup_flat_map_rev {A B} (f : A -> list B) : forall l, NoDup (flat_map f l) -> NoDup (flat_map f (rev l)).
Proof.
  induction l as [|x t IH]; intros H; [constructor|]. simpl in *. rewrite flat_map_app. simpl. rewrite app_nil_r.
  apply NoDup_app_iff in H as (H1 & H2 & H3). apply NoDup_app_iff. repeat split; auto.
  intros y Hy Hx. apply in_flat_map in Hy as (z & Hz & Hy). apply in_rev in Hz.
  apply (H3 y Hx). apply in_flat_map. eauto.
Qed.

Lemma owned_consts Kt l : (forall q, In q l -> In (fst q) Kt) -> owned_ids Kt l = [].
Proof.
  induction l as [|q t IH]; intros H; [reflexivity|]. unfold owned_ids in *. simpl.
  rewrite (proj2 (mem_In _ _) (H q (or_introl eq_refl))). simpl. apply IH. intros q' Hq. apply H. right. exact Hq.
Qed.

Lemma owned_args Kt l : (forall q, In q l -> ~ In (fst q) Kt) -> owned_ids Kt l = flat_map (fun q => oblock (snd q)) l.
Proof.
  induction l as [|q t IH]; intros H; [reflexivity|]. unfold owned_ids in *. simpl.
  rewrite (proj2 (mem_false _ _) (H q (or_introl eq_refl))). f_equal. apply IH. intros q' Hq. apply H. right. exact Hq.
Qed.

Lemma owned_app Kt a b : owned_ids Kt (a ++ b) = owned_ids Kt a ++ owned_ids Kt b.
Proof. unfold owned_ids. apply flat_map_app. Qed.

Lemma init_ginv p steps0 :
  let Kt := map fst (sp_consts p) in
  let NC := outs_l steps0 ++ map fst (sp_args p) in
  let n := total (sp_args p) in
  NoDup (map fst (sp_args p) ++ const_keys p) ->
  (forall k, In k (const_keys p) -> ~ In k NC) ->
  ginv Kt (sp_zero_key p) (sp_one_key p) n (n + 1) NC steps0 (sp_args p) (init_w p) (map fst (sp_args p)) [].
Proof.
  intros Kt NC n Hnd Hck. unfold const_keys in *.
  pose proof Hnd as Hnd0.
  apply NoDup_app_iff in Hnd as (Ha & Hc & Hac).
  inversion Hc as [|? ? Hz Hc1]; subst. inversion Hc1 as [|? ? Ho Hc2]; subst.
  set (zk := sp_zero_key p) in *. set (ok := sp_one_key p) in *.
  set (C := constents n (n + 1) (sp_consts p)).
  set (A := argents (sp_args p) 0).
  set (eo := mkEntry (Some (n + 1)%N) (Some [(n + 1)%N]) (Some [(n + 1)%N])).
  set (ez := mkEntry (Some n) (Some [n]) (Some [n])).
  assert (HW : whash (init_w p) = rev C ++ (ok, eo) :: (zk, ez) :: rev A) by reflexivity.
  assert (HkC : map fst C = Kt) by (unfold C, constents; rewrite map_map; reflexivity).
  assert (HkA : map fst A = map fst (sp_args p)) by apply argents_keys.
  assert (HzKt : ~ In zk Kt) by (intros H; apply Hz; right; exact H).
  assert (HaK : forall k, In k (map fst (sp_args p)) -> ~ In k Kt /\ k <> zk /\ k <> ok).
  { intros k Hk. specialize (Hac k Hk). repeat split.
    - intros H. apply Hac. right. right. exact H.
    - intros ->. apply Hac. left. reflexivity.
    - intros ->. apply Hac. right. left. reflexivity. }
  assert (Hkeys : NoDup (map fst (whash (init_w p)))).
  { rewrite HW, map_app. cbn [map fst]. rewrite !map_rev, HkC, HkA.
    apply NoDup_app_iff. split; [apply NoDup_rev, Hc2|]. split.
    - constructor; [|constructor; [|apply NoDup_rev, Ha]].
      + intros [H|H]; [apply Hz; left; symmetry; exact H|]. apply in_rev in H. apply (HaK _ H). reflexivity.
      + intros H. apply in_rev in H. apply (proj1 (proj2 (HaK _ H))). reflexivity.
    - intros x Hx Hin. apply in_rev in Hx. destruct Hin as [<-|[<-|Hin]]; [exact (Ho Hx) | exact (HzKt Hx)|].
      apply in_rev in Hin. exact (proj1 (HaK _ Hin) Hx). }
  assert (Hin : forall k e, lookup k (whash (init_w p)) = Some e ->
                 (In (k, e) C /\ In k Kt) \/ (k = ok /\ e = eo) \/ (k = zk /\ e = ez) \/ (In (k, e) A /\ In k (map fst (sp_args p)))).
  { intros k e L. apply lookup_in in L. rewrite HW in L. apply in_app_or in L as [L|[L|[L|L]]].
    - apply in_rev in L. left. split; [exact L|]. rewrite <- HkC. apply in_map_iff. exists (k, e). auto.
    - injection L as <- <-. auto.
    - injection L as <- <-. auto.
    - apply in_rev in L. right. right. right. split; [exact L|]. rewrite <- HkA. apply in_map_iff. exists (k, e). auto. }
  assert (Hlk : forall k e, In (k, e) (whash (init_w p)) -> lookup k (whash (init_w p)) = Some e)
    by (intros k e H; apply in_lookup; auto).
  assert (Lz : lookup zk (whash (init_w p)) = Some ez).
  { apply Hlk. rewrite HW. apply in_or_app. right. right. left. reflexivity. }
  assert (Lo : lookup ok (whash (init_w p)) = Some eo).
  { apply Hlk. rewrite HW. apply in_or_app. right. left. reflexivity. }
  assert (HC : forall k e, In (k, e) C -> exists ids, e = mkEntry (match ids with [] => None | b :: _ => Some b end) (Some ids) (Some ids) /\
                                          forall id, In id ids -> id = n \/ id = (n + 1)%N).
  { intros k e H. unfold C, constents in H. apply in_map_iff in H as (c & E & _). injection E as _ <-.
    eexists. split; [reflexivity|]. intros id Hid. apply in_map_iff in Hid as (b & <- & _). destruct b; auto. }
  assert (Hown : owned_ids Kt (whash (init_w p)) = (n + 1)%N :: n :: flat_map (fun q => oblock (snd q)) (rev A)).
  { rewrite HW, owned_app. rewrite owned_consts.
    2:{ intros q Hq. apply in_rev in Hq. rewrite <- HkC. apply in_map, Hq. }
    change ((ok, eo) :: (zk, ez) :: rev A) with ([(ok, eo); (zk, ez)] ++ rev A). rewrite owned_app.
    rewrite (owned_args Kt (rev A)).
    2:{ intros q Hq. apply in_rev in Hq. apply HaK. rewrite <- HkA. apply in_map, Hq. }
    assert (Hm1 : mem ok Kt = false) by (apply mem_false; exact Ho).
    assert (Hm2 : mem zk Kt = false) by (apply mem_false; exact HzKt).
    unfold owned_ids. cbn [flat_map fst snd app]. rewrite Hm1, Hm2.
    reflexivity. }
  destruct (argents_ids (sp_args p) 0) as [HA1 HA2]. fold A in HA1, HA2.
  assert (HA2' : forall id, In id (flat_map (fun q => oblock (snd q)) (rev A)) -> (id < n)%N).
  { intros id Hid. apply in_flat_map in Hid as (q & Hq & Hid). apply in_rev in Hq.
    assert (In id (flat_map (fun q => oblock (snd q)) A)) by (apply in_flat_map; eauto).
    apply HA2 in H. unfold n. lia. }
  constructor.
  - exact Hkeys.
  - rewrite Hown. unfold free_ids. cbn [init_w wfree free_l flat_map]. rewrite app_nil_r.
    constructor; [|constructor; [|apply nodup_flat_map_rev, HA1]].
    + intros [H|H]; [lia | apply HA2' in H; lia].
    + intros H. apply HA2' in H. lia.
  - intros id Hid. rewrite Hown in Hid. unfold free_ids in Hid. cbn [init_w wfree free_l flat_map] in Hid.
    rewrite app_nil_r in Hid. cbn [init_w wnext]. destruct Hid as [<-|[<-|Hid]]; [lia | lia | apply HA2' in Hid; lia].
  - intros k e L Hk. destruct (Hin k e L) as [[_ H]|[[_ ->]|[[_ ->]|[H _]]]]; [contradiction| | |].
    + unfold entry_wf, eo. cbn [ewires ebase eids hd length]. unfold block. cbn [seq map]. rewrite N.add_0_r. repeat split; auto.
    + unfold entry_wf, ez. cbn [ewires ebase eids hd length]. unfold block. cbn [seq map]. rewrite N.add_0_r. repeat split; auto.
    + destruct (argents_in _ _ _ _ H) as (b & m & -> & _). unfold entry_wf. cbn. rewrite block_length.
      split; [|auto]. destruct m; [reflexivity|]. rewrite hd_block by discriminate. reflexivity.
  - intros k e L He. destruct (Hin k e L) as [[H _]|[[_ ->]|[[_ ->]|[H _]]]]; try discriminate.
    + destruct (HC _ _ H) as (ids & -> & _). discriminate.
    + destruct (argents_in _ _ _ _ H) as (b & m & -> & Hm & _). exists (block b m). split; [reflexivity|].
      rewrite block_length. apply in_lookup; auto.
  - intros k Hk. unfold Kt in Hk. apply in_map_iff in Hk as (c & <- & Hc0).
    set (ids := map (fun b : bool => if b then (n + 1)%N else n) (snd c)).
    exists (mkEntry (match ids with [] => None | b :: _ => Some b end) (Some ids) (Some ids)), ids.
    split; [|split; [reflexivity|]].
    + apply Hlk. rewrite HW. apply in_or_app. left. rewrite <- in_rev. unfold C, constents. apply in_map_iff. exists c. auto.
    + intros id Hid. apply in_map_iff in Hid as (b & <- & _). destruct b; auto.
  - exists ez, eo. repeat split; auto.
  - intros v e L. right. intros id Hid. unfold ids_of in Hid. rewrite L in Hid.
    assert (Wz : exists k e', lookup k (whash (init_w p)) = Some e' /\ ~ In k Kt /\ In n (oblock e') /\ related NC steps0 k v).
    { exists zk, ez. repeat split; auto; [left; reflexivity | left; apply Hck; left; reflexivity]. }
    assert (Wo : exists k e', lookup k (whash (init_w p)) = Some e' /\ ~ In k Kt /\ In (n + 1)%N (oblock e') /\ related NC steps0 k v).
    { exists ok, eo. repeat split; auto; [left; reflexivity | left; apply Hck; right; left; reflexivity]. }
    destruct (Hin v e L) as [[H _]|[[_ ->]|[[_ ->]|[H Hv]]]].
    + destruct (HC _ _ H) as (ids & -> & Hids). cbn in Hid. destruct (Hids id Hid) as [->| ->]; auto.
    + cbn in Hid. destruct Hid as [<-|[]]. exact Wo.
    + cbn in Hid. destruct Hid as [<-|[]]. exact Wz.
    + destruct (argents_in _ _ _ _ H) as (b & m & -> & _). cbn in Hid.
      exists v, (mkEntry None (Some (block b m)) None). repeat split; auto; [apply HaK, Hv | right].
      unfold fdesc. apply fold_fstep_mono. left. reflexivity.
  - intros k Hk. split.
    + intros Hal. split; [|auto]. apply allocated_lookup in Hal as (e & L).
      destruct (Hin k e L) as [[_ H]|[[-> _]|[[-> _]|[_ H]]]]; [|  | |exact H]; exfalso.
      * apply (Hck k); [right; right; exact H | exact Hk].
      * apply (Hck ok); [right; left; reflexivity | exact Hk].
      * apply (Hck zk); [left; reflexivity | exact Hk].
    + intros [H _]. rewrite <- HkA in H. apply in_map_iff in H as ([k' e] & <- & H). apply allocated_lookup.
      exists e. apply Hlk. rewrite HW. apply in_or_app. right. right. right. rewrite <- in_rev. exact H.
Qed.

Lemma wf_shape : forall steps defd, wf_steps defd steps = true ->
  Forall (fun s => match iop s with
                   | ORet => iout s = None /\ iret s = []
                   | OGC => False
                   | OCirc => True
                   | _ => exists o, iout s = Some o /\ iret s = []
                   end) steps.
Proof.
  induction steps as [|s rest IH]; intros defd H; [constructor|].
  destruct rest as [|s2 rest'].
  - cbn [wf_steps] in H. constructor; [|constructor]. destruct (iop s); try discriminate.
    apply andb_prop in H as [H Hr]. apply andb_prop in H as [_ Ho].
    destruct (iout s); [discriminate|]. destruct (iret s); [auto | discriminate].
  - remember (s2 :: rest') as rest eqn:Er.
    assert (Hc : match iop s with
                 | ORet => iout s = None /\ iret s = []
                 | OGC => False
                 | OCirc => True
                 | _ => exists o, iout s = Some o /\ iret s = []
                 end /\ wf_steps (outs_of s ++ defd) rest = true).
    { subst rest. cbn [wf_steps] in H.
      destruct (iop s) eqn:Eop; try discriminate;
        repeat (apply andb_prop in H as [H ?]); (split; [|assumption]); try exact I;
        destruct (iout s) as [o|]; try discriminate;
        match goal with Hx : (negb (vconst o) && _) = true |- _ => apply andb_prop in Hx as [_ Hx] end;
        destruct (iret s); try discriminate; eauto. }
    destruct Hc as [Hc Hw]. constructor; [exact Hc | eapply IH; eauto].
Qed.

Lemma wf_circ_shape : forall steps defd, wf_steps defd steps = true ->
  Forall (fun s => iop s = OCirc -> iout s = None /\ NoDup (map vid (iret s))) steps.
Proof.
  induction steps as [|s rest IH]; intros defd H; [constructor|].
  destruct rest as [|s2 rest'].
  - cbn [wf_steps] in H. constructor; [|constructor]. intros Eop. rewrite Eop in H. discriminate.
  - remember (s2 :: rest') as rest eqn:Er.
    assert (Hc : (iop s = OCirc -> iout s = None /\ NoDup (map vid (iret s))) /\ wf_steps (outs_of s ++ defd) rest = true).
    { subst rest. cbn [wf_steps] in H.
      destruct (iop s) eqn:Eop; try discriminate;
        repeat (apply andb_prop in H as [H ?]); (split; [|assumption]); try (intros; discriminate).
      intros _. destruct (iout s) eqn:Eo; [discriminate|]. split; [reflexivity|].
      match goal with Hx : _ (outs_of s) = true |- _ =>
        change (nodupb (outs_of s) = true) in Hx; apply nodupb_NoDup in Hx; unfold outs_of in Hx; rewrite Eo in Hx; exact Hx end. }
    destruct Hc as [Hc Hw]. constructor; [exact Hc | eapply IH; eauto].
Qed.

(* what wf_prog says about a native-circuit step *)
Lemma step_ok_circ p nck s : step_ok p nck s = true -> iop s = OCirc ->
  let cc := nth (icirc s) (sp_circs p) cc0 in
  wf (cc_c cc) = true /\ length (cc_ins cc) = length (iin s) /\ ninputs (cc_c cc) = sum_nat (cc_ins cc) /\
  cc_outs cc = map vbits (iret s) /\ noutputs (cc_c cc) = sum_nat (cc_outs cc) /\
  ninputs (cc_c cc) + noutputs (cc_c cc) <= nwires (cc_c cc).
Proof.
  intros H Eop. unfold step_ok in H. rewrite Eop in H.
  apply andb_prop in H as [H _]. apply andb_prop in H as [H _]. apply andb_prop in H as [H _].
  apply andb_prop in H as [H _]. apply andb_prop in H as [H _].
  apply andb_prop in H as [H H6]. apply andb_prop in H as [H H5]. apply andb_prop in H as [H H4].
  apply andb_prop in H as [H H3]. apply andb_prop in H as [H1 H2].
  cbv zeta. repeat split; [exact H1 | apply Nat.eqb_eq, H2 | apply Nat.eqb_eq, H3 | apply list_nat_eqb_eq, H4 |
                           apply Nat.eqb_eq, H5 | apply Nat.leb_le, H6].
Qed.

Lemma consts_tabled_read p steps : consts_tabled p steps = true -> consts_read_tabled p steps = true.
Proof.
  unfold consts_tabled, consts_read_tabled. intros H. rewrite forallb_forall in *. intros s Hs. specialize (H s Hs).
  rewrite forallb_forall in *. intros j Hj. specialize (H j Hj). destruct (nth_error (iin s) j); [|reflexivity].
  unfold const_ok. rewrite H. reflexivity.
Qed.

Theorem gc_sound p steps g :
  wf_prog p steps = true -> gc_fixed steps = Some g -> no_premature_reuse p g = true.
Proof.
  intros Hwf Hg. unfold wf_prog in Hwf.
  apply andb_prop in Hwf as [Hwf Hsteps]. apply andb_prop in Hwf as [Hssa Hnd].
  apply nodupb_NoDup in Hnd.
  set (Kt := map fst (sp_consts p)).
  set (NC := outs_l steps ++ map fst (sp_args p)).
  set (n := total (sp_args p)).
  rewrite forallb_forall in Hsteps.
  assert (Hck : forall k, In k (const_keys p) -> ~ In k NC).
  { intros k Hk Hin. apply in_app_or in Hin as [Hin|Hin].
    - unfold outs_l in Hin. apply in_flat_map in Hin as (s & Hs & Ho).
      specialize (Hsteps s Hs). unfold step_ok in Hsteps.
      repeat (apply andb_prop in Hsteps as [Hsteps ?]).
      match goal with Hx : forallb (fun o => negb (mem o (const_keys p))) (outs_of s) = true |- _ =>
        rewrite forallb_forall in Hx; specialize (Hx k Ho) end.
      rewrite (proj2 (mem_In _ _) Hk) in *. discriminate.
    - apply NoDup_app_iff in Hnd as (_ & _ & Hd). exact (Hd k Hin Hk). }
  unfold no_premature_reuse.
  pose proof (stream_init_alloc p []) as Hi. rewrite (init_alloc_eq p Hnd) in Hi. cbn [fst] in Hi. injection Hi as Hw Hz.
  rewrite Hw, Hz.
  pose proof (init_ginv p steps Hnd Hck) as G0. fold Kt NC n in G0.
  assert (Hone : nth 0 (ids_of (init_w p) (sp_one_key p)) 0%N = (n + 1)%N).
  { unfold ids_of. rewrite (in_lookup (sp_one_key p) (mkEntry (Some (n + 1)%N) (Some [(n + 1)%N]) (Some [(n + 1)%N])) _ (g_keys _ _ _ _ _ _ _ _ _ _ _ G0)).
    - reflexivity.
    - unfold init_w. cbn [whash]. apply in_or_app. right. left. reflexivity. }
  rewrite Hone.
  assert (Hsok : Forall (sok NC (sp_args p) (sp_circs p)) steps).
  { pose proof (wf_shape _ _ Hssa) as Hsh. pose proof (wf_circ_shape _ _ Hssa) as Hcs. rewrite Forall_forall in *. intros s Hs.
    specialize (Hsh s Hs). specialize (Hcs s Hs). pose proof (Hsteps s Hs) as Hstep. specialize (Hsteps s Hs). unfold step_ok in Hsteps.
    repeat (apply andb_prop in Hsteps as [Hsteps ?]).
    split.
    - destruct (iop s) eqn:Eop; auto.
      destruct (Hcs eq_refl) as [C1 C2]. destruct (step_ok_circ _ _ _ Hstep Eop) as (_ & _ & _ & C4 & _). cbv zeta in C4.
      split; [exact C1|]. split; [exact C2|]. rewrite C4. apply map_length.
    - intros i Hi. split.
      + intros Hc.
        match goal with Hx : forallb (fun i => if vconst i then _ else _) (iin s) = true |- _ =>
          rewrite forallb_forall in Hx; specialize (Hx i Hi); rewrite Hc in Hx end.
        intros Hin. assert (Hm : mem (vid i) (map fst (sp_args p) ++ flat_map outs_of steps) = true).
        { apply mem_In. apply in_app_or in Hin as [Hin|Hin]; apply in_or_app; auto. }
        rewrite Hm in *. discriminate.
      + intros b Hb.
        match goal with Hx : forallb (fun i => match lookup (vid i) (sp_args p) with _ => _ end) (iin s) = true |- _ =>
          rewrite forallb_forall in Hx; specialize (Hx i Hi); rewrite Hb in Hx end.
        apply Nat.eqb_eq. assumption. }
  assert (HzK : ~ In (sp_zero_key p) Kt /\ ~ In (sp_one_key p) Kt).
  { unfold const_keys in Hnd. apply NoDup_app_iff in Hnd as (_ & Hc & _).
    inversion Hc as [|? ? Hz0 Hc1]; subst. inversion Hc1 as [|? ? Ho0 _]; subst.
    split; [intros H; apply Hz0; right; exact H | exact Ho0]. }
  destruct HzK as [HzK HoK].
  assert (HzN : ~ In (sp_zero_key p) NC) by (apply Hck; left; reflexivity).
  assert (HoN : ~ In (sp_one_key p) NC) by (apply Hck; right; left; reflexivity).
  assert (HkN : forall k, In k Kt -> ~ In k NC) by (intros k Hk; apply Hck; right; right; exact Hk).
  assert (Hwfl : wfl (map fst (sp_args p)) steps) by (apply wf_steps_wfl, Hssa).
  assert (HNC : forall k, In k NC <-> In k (outs_l steps ++ map fst (sp_args p))) by (intros k; reflexivity).
  assert (Hform : gcform steps steps g) by (eapply gc_fixed_form; eauto).
  apply (run_npr Kt (sp_zero_key p) (sp_one_key p) n (n + 1)%N NC steps (sp_args p)) with
      (circs := sp_circs p) (later := steps) (E := []) (defd := map fst (sp_args p)) (gcd := []); auto.
  - intros k Hk. reflexivity.
  - intros u [].
Qed.

(* ------------------------------------------------------------------ *)
(** * The initial store and the initial reference environment *)

Fixpoint argpos (al : list (N * nat)) (off : nat) : list (N * nat * nat) :=
  match al with
  | [] => []
  | (k, n) :: t => (k, n, off) :: argpos t (off + n)
  end.

Definition sumn (al : list (N * nat)) : nat := fold_right (fun a acc => snd a + acc) 0 al.

Lemma total_sumn al : total al = N.of_nat (sumn al).
Proof.
  induction al as [|[k n] t IH]; [reflexivity|]. cbn [total sumn fold_right snd]. fold (total t). fold (sumn t).
  rewrite IH. lia.
Qed.

Lemma argents_argpos al : forall off,
  argents al (N.of_nat off) = map (fun q => (fst (fst q), mkEntry None (Some (block (N.of_nat (snd q)) (snd (fst q)))) None)) (argpos al off).
Proof.
  induction al as [|[k n] t IH]; intros off; [reflexivity|]. cbn [argents argpos map fst snd].
  f_equal. rewrite <- IH. f_equal. lia.
Qed.

Lemma argpos_bound al : forall off k n o, In (k, n, o) (argpos al off) -> off <= o /\ o + n <= off + sumn al /\ In (k, n) al.
Proof.
  induction al as [|[k0 n0] t IH]; intros off k n o H; [destruct H|]. cbn [argpos] in H. cbn [sumn fold_right snd]. fold (sumn t).
  destruct H as [H|H].
  - injection H as <- <- <-. repeat split; try lia. left. reflexivity.
  - destruct (IH _ _ _ _ H) as (A & B & C). repeat split; try lia. right. exact C.
Qed.

Lemma argpos_keys al : forall off, map (fun q => fst (fst q)) (argpos al off) = map fst al.
Proof. induction al as [|[k n] t IH]; intros off; [reflexivity|]. cbn. rewrite IH. reflexivity. Qed.

Section InitSim.
  Variable xy : list bool.

  Lemma ssa_args_fold al : forall e off,
    fold_left (fun (acc : env * nat) (a : N * nat) => let '(e, off) := acc in
                 ((fst a, firstn (snd a) (skipn off xy ++ repeat false (snd a))) :: e, (off + snd a)%nat)) al (e, off)
    = (rev (map (fun q => (fst (fst q), firstn (snd (fst q)) (skipn (snd q) xy ++ repeat false (snd (fst q))))) (argpos al off)) ++ e,
       off + sumn al).
  Proof.
    induction al as [|[k n] t IH]; intros e off.
    - cbn. f_equal. lia.
    - cbn [fold_left fst snd]. rewrite IH. cbn [argpos map rev fst snd sumn fold_right]. fold (sumn t).
      rewrite <- app_assoc. cbn [app]. f_equal. lia.
  Qed.

  Lemma ssa_consts_fold : forall cs e,
    NoDup (map fst cs) -> (forall k, In k (map fst cs) -> lookup k e = None) ->
    fold_left (fun (e : env) (c : N * list bool) => match lookup (fst c) e with Some _ => e | None => c :: e end) cs e = rev cs ++ e.
  Proof.
    induction cs as [|[k b] t IH]; intros e Hnd Hnew; [reflexivity|].
    cbn [fold_left fst]. inversion Hnd as [|? ? Hk Hnd']; subst.
    rewrite (Hnew k (or_introl eq_refl)). rewrite IH; [|exact Hnd'|].
    - cbn [rev]. rewrite <- app_assoc. reflexivity.
    - intros k' Hk'. cbn [lookup]. destruct (N.eqb k' k) eqn:E.
      + apply N.eqb_eq in E. subst. contradiction.
      + apply Hnew. right. exact Hk'.
  Qed.

  (* the store after the argument wires are set *)
  Lemma init_store_find l : forall m id,
    sfind false (fold_left (fun (m : PositiveMap.t bool) (i : nat) => sadd m (N.of_nat i) (nth i xy false)) l m) id
    = if existsb (fun i => N.eqb (N.of_nat i) id) l then nth (N.to_nat id) xy false else sfind false m id.
  Proof.
    induction l as [|i t IH]; intros m id; [reflexivity|]. cbn [fold_left existsb]. rewrite IH.
    destruct (existsb (fun i0 => N.eqb (N.of_nat i0) id) t) eqn:Et; [rewrite orb_true_r; reflexivity|].
    rewrite orb_false_r. destruct (N.eqb (N.of_nat i) id) eqn:E.
    - apply N.eqb_eq in E. subst id. rewrite sfind_sadd_eq, Nat2N.id. reflexivity.
    - apply N.eqb_neq in E. apply sfind_sadd_neq. exact E.
  Qed.

  Lemma gate_zero_one (cs : cstate bool) (z : N) (neg : bool) :
    cs_wires (fst (garble_circ_bits cs (mkCircuit 2 1 1 [mkGate 0 0 1 (if neg then XNOR else XOR)]) [0%N] [z]))
    = sadd (cs_wires cs) z neg.
  Proof.
    unfold garble_circ_bits, garble_circ, init_circuit. cbn [nwires gates length].
    destruct (cs_tmplen cs <? 2); destruct neg; cbn; destruct (sfind false (cs_wires cs) 0); reflexivity.
  Qed.
End InitSim.


Lemma vgarble_const st step (z : N) (neg : bool) :
  let c := mkCircuit 2 1 1 [mkGate 0 0 1 (if neg then XNOR else XOR)] in
  cs_wires (ss_cs (vgarble st step c [0%N] [z])) = sadd (cs_wires (ss_cs st)) z neg /\
  ss_ret (vgarble st step c [0%N] [z]) = ss_ret st.
Proof.
  intros c. pose proof (gate_zero_one (ss_cs st) z neg) as H. fold c in H.
  unfold vgarble. destruct (garble_circ_bits (ss_cs st) c [0%N] [z]) as [cs' sgs]. cbn [fst] in H.
  split; [exact H | reflexivity].
Qed.

Definition wires0 (xy : list bool) (nin : nat) : PositiveMap.t bool :=
  fold_left (fun (m : PositiveMap.t bool) (i : nat) => sadd m (N.of_nat i) (nth i xy false)) (seq 0 nin) (PositiveMap.empty bool).

Lemma stream_init_store p xy :
  let w1 := fold_left (fun w a => input_wires w (fst a) (snd a)) (sp_args p) walloc0 in
  ss_ret (stream_init p xy) = [] /\
  cs_wires (ss_cs (stream_init p xy))
  = sadd (sadd (wires0 xy (N.to_nat (wnext w1))) (snd (fst (init_alloc p))) false) (snd (init_alloc p)) true.
Proof.
  intros w1. unfold stream_init, init_alloc. fold w1.
  destruct (assigned_wires w1 (sp_zero_key p) 1) as [zw w2].
  change zero_circ with (mkCircuit 2 1 1 [mkGate 0 0 1 (if false then XNOR else XOR)]).
  change one_circ with (mkCircuit 2 1 1 [mkGate 0 0 1 (if true then XNOR else XOR)]).
  match goal with |- context [vgarble ?st 0 ?c [0%N] [nth 0 zw 0%N]] =>
    destruct (ss_w_vgarble st 0 c [0%N] [nth 0 zw 0%N]) as [V1 V2];
    destruct (vgarble_const st 0 (nth 0 zw 0%N) false) as [V3 V4];
    set (st1 := vgarble st 0 c [0%N] [nth 0 zw 0%N]) in * end.
  cbn [ss_w ss_zero ss_ret ss_cs cs_wires] in V1, V2, V3, V4. rewrite V1.
  destruct (assigned_wires w2 (sp_one_key p) 1) as [ow w3].
  match goal with |- context [vgarble ?st 0 ?c [0%N] [nth 0 ow 0%N]] =>
    destruct (vgarble_const st 0 (nth 0 ow 0%N) true) as [V5 V6];
    set (st2 := vgarble st 0 c [0%N] [nth 0 ow 0%N]) in * end.
  unfold with_w in *. cbn [ss_w ss_zero ss_ret ss_cs cs_wires fst snd] in *.
  rewrite V6, V4, V5, V3. split; reflexivity.
Qed.

Lemma in_keys_lookup {A} k (l : list (N * A)) : In k (map fst l) -> exists a, lookup k l = Some a.
Proof.
  induction l as [|[k2 a2] t IH]; intros H; [destruct H|]. cbn [lookup].
  destruct (N.eqb k k2) eqn:E; [eauto|]. apply N.eqb_neq in E. destruct H as [H|H]; [cbn in H; congruence | auto].
Qed.

Lemma nodup_keys_eq {A} (k : N) (a a' : A) (l : list (N * A)) : NoDup (map fst l) -> In (k, a) l -> In (k, a') l -> a = a'.
Proof. intros Hnd H1 H2. apply (in_lookup _ _ _ Hnd) in H1. apply (in_lookup _ _ _ Hnd) in H2. congruence. Qed.

Lemma concat_bits_length e l : length (concat (map (operand_bits e) l)) = sum_bits l.
Proof.
  induction l as [|i t IH]; [reflexivity|]. cbn [map concat]. rewrite app_length, IH.
  unfold operand_bits. rewrite pad_operand_length. reflexivity.
Qed.

Lemma ssa_ret_length circs : forall steps e r e' r',
  ssa_steps circs steps (e, r) = Some (e', r') -> length r' = length r + ret_bits steps.
Proof.
  induction steps as [|s rest IH]; intros e r e' r' H.
  - cbn in H. injection H as _ <-. cbn. lia.
  - cbn [ssa_steps] in H. destruct (ssa_step circs s (e, r)) as [[e1 r1]|] eqn:Es; [|discriminate].
    apply IH in H. cbn [ret_bits fold_right]. fold (ret_bits rest).
    assert (Hr1 : length r1 = length r + match iop s with ORet => sum_bits (iin s) | _ => 0 end).
    { unfold ssa_step in Es.
      destruct (iop s);
        try (destruct (iout s); [|discriminate];
             match type of Es with context [alias_ids ?A ?z ?o ?i ?c ?ol ?ob] => destruct (alias_ids A z o i c ol ob) end;
             [injection Es as _ <-; lia | discriminate]).
      - injection Es as _ <-. rewrite app_length, concat_bits_length. reflexivity.
      - injection Es as _ <-. lia.
      - injection Es as _ <-. lia.
      - destruct (iout s); [|discriminate]. injection Es as _ <-. lia. }
    destruct (iop s); lia.
Qed.

Lemma map_nth_seq_firstn {A B} (f : A -> B) (l : list A) d k :
  k <= length l -> map (fun i => f (nth i l d)) (seq 0 k) = firstn k (map f l).
Proof.
  revert l. induction k as [|k IH]; intros l Hk; [reflexivity|].
  destruct l as [|x t]; [simpl in Hk; lia|]. cbn [seq map firstn nth]. f_equal.
  rewrite <- seq_shift, map_map. apply IH. simpl in Hk. lia.
Qed.

Lemma nth_firstn_lt2 {A} (l : list A) d : forall k m, k < m -> nth k (firstn m l) d = nth k l d.
Proof.
  induction l as [|h t IH]; intros k m H; [destruct m; destruct k; reflexivity|].
  destruct m; [lia|]. destruct k; [reflexivity|]. simpl. apply IH. lia.
Qed.

Lemma nth_skipn2 {A} (l : list A) d : forall o i, nth i (skipn o l) d = nth (o + i) l d.
Proof.
  induction l as [|h t IH]; intros o i; [destruct o; destruct i; reflexivity|].
  destruct o; [reflexivity|]. simpl. apply IH.
Qed.

Lemma init_sinv p steps xy :
  let Kt := map fst (sp_consts p) in
  let NC := outs_l steps ++ map fst (sp_args p) in
  let n := total (sp_args p) in
  NoDup (map fst (sp_args p) ++ const_keys p) ->
  (forall k, In k (const_keys p) -> ~ In k NC) ->
  SInv Kt (sp_zero_key p) (sp_one_key p) n (n + 1) NC steps (sp_args p)
       (stream_init p xy) (ssa_init p xy) [] steps (map fst (sp_args p)) [] /\
  ss_ret (stream_init p xy) = [].
Proof.
  intros Kt NC n Hnd Hck.
  pose proof (init_ginv p steps Hnd Hck) as G0. fold Kt NC n in G0.
  pose proof (stream_init_alloc p xy) as Hi. rewrite (init_alloc_eq p Hnd) in Hi. cbn [fst] in Hi. injection Hi as Hw Hz.
  destruct (stream_init_store p xy) as [Hret Hcs]. rewrite (init_alloc_eq p Hnd) in Hcs. cbn [fst snd] in Hcs.
  fold n in Hz, Hcs.
  pose proof Hnd as Hnd0. unfold const_keys in Hnd0. apply NoDup_app_iff in Hnd0 as (Ha & Hc & Hac).
  inversion Hc as [|? ? Hz0 Hc1]; subst. inversion Hc1 as [|? ? Ho0 Hc2]; subst.
  assert (Hwn : wnext (fold_left (fun w a => input_wires w (fst a) (snd a)) (sp_args p) walloc0) = n).
  { rewrite (input_fold (sp_args p) walloc0 Ha) by (intros k _; reflexivity). cbn. reflexivity. }
  rewrite Hwn in Hcs.
  (* reading the initial store *)
  assert (Hrdz : rd (stream_init p xy) n = false).
  { unfold rd. rewrite Hcs. rewrite sfind_sadd_neq by lia. apply sfind_sadd_eq. }
  assert (Hrdo : rd (stream_init p xy) (n + 1)%N = true).
  { unfold rd. rewrite Hcs. apply sfind_sadd_eq. }
  assert (Hrdi : forall j, j < sumn (sp_args p) -> rd (stream_init p xy) (N.of_nat j) = nth j xy false).
  { intros j Hj. unfold rd. rewrite Hcs. pose proof (total_sumn (sp_args p)) as Ht. fold n in Ht.
    rewrite !sfind_sadd_neq by lia. unfold wires0. rewrite init_store_find.
    replace (existsb (fun i => N.eqb (N.of_nat i) (N.of_nat j)) (seq 0 (N.to_nat n))) with true.
    - rewrite Nat2N.id. reflexivity.
    - symmetry. apply existsb_exists. exists j. split; [apply in_seq; lia | apply N.eqb_refl]. }
  (* the reference environment *)
  set (argb := map (fun q : N * nat * nat => (fst (fst q), firstn (snd (fst q)) (skipn (snd q) xy ++ repeat false (snd (fst q)))))
                   (argpos (sp_args p) 0)).
  assert (He : ssa_init p xy = rev (sp_consts p) ++ rev argb).
  { pose proof (ssa_args_fold xy (sp_args p) [] 0) as Hf. unfold ssa_init. unfold env in *. cbv beta in *.
    rewrite Hf. rewrite app_nil_r. fold argb.
    apply ssa_consts_fold; [exact Hc2|]. intros k Hk.
    destruct (lookup k (rev argb)) eqn:L; [|reflexivity]. exfalso. apply lookup_in, in_rev in L.
    unfold argb in L. apply in_map_iff in L as (q & Eq & Hq). injection Eq as Ek _.
    apply (Hac k); [|right; right; exact Hk].
    rewrite <- (argpos_keys (sp_args p) 0). apply in_map_iff. exists q. auto. }
  assert (Hkeys_e : forall k, In k (map fst (sp_args p)) \/ In k Kt -> exists b, lookup k (ssa_init p xy) = Some b).
  { intros k Hk. apply in_keys_lookup. rewrite He, map_app, !map_rev. apply in_or_app. destruct Hk as [Hk|Hk].
    - right. rewrite <- in_rev. unfold argb. rewrite map_map. cbn [fst]. rewrite (argpos_keys (sp_args p) 0). exact Hk.
    - left. rewrite <- in_rev. exact Hk. }
  split; [|exact Hret].
  split; [exact Hz|]. split; [rewrite Hw; exact G0|].
  split; [intros k _; reflexivity|]. split; [intros u []|].
  split; [|split; [|exact Hrdz]].
  - (* Rel *)
    intros v b Lb _. rewrite Hw. rewrite He in Lb. apply lookup_in in Lb. apply in_app_or in Lb as [Lb|Lb].
    + (* a constant of the table *)
      apply in_rev in Lb.
      set (ids := map (fun x : bool => if x then (n + 1)%N else n) b).
      assert (Lw : lookup v (whash (init_w p)) = Some (mkEntry (match ids with [] => None | b0 :: _ => Some b0 end) (Some ids) (Some ids))).
      { apply in_lookup; [apply (g_keys _ _ _ _ _ _ _ _ _ _ _ G0)|]. unfold init_w. cbn [whash]. apply in_or_app. left.
        rewrite <- in_rev. unfold constents. apply in_map_iff. exists (v, b). split; [reflexivity | exact Lb]. }
      split; [unfold allocated; rewrite Lw; reflexivity|].
      unfold ids_of. rewrite Lw. cbn [eids]. unfold ids. rewrite map_map.
      rewrite <- (map_id b) at 2. apply map_ext. intros x. destruct x; [exact Hrdo | exact Hrdz].
    + (* a program argument *)
      apply in_rev in Lb. unfold argb in Lb. apply in_map_iff in Lb as ([[k n0] o] & Eq & Hq). cbn [fst snd] in Eq.
      injection Eq as <- <-.
      destruct (argpos_bound _ _ _ _ _ Hq) as (_ & Hb & _). cbn in Hb.
      assert (Lw : lookup k (whash (init_w p)) = Some (mkEntry None (Some (block (N.of_nat o) n0)) None)).
      { apply in_lookup; [apply (g_keys _ _ _ _ _ _ _ _ _ _ _ G0)|]. unfold init_w. cbn [whash]. apply in_or_app. right. right. right.
        rewrite <- in_rev. change 0%N with (N.of_nat 0). rewrite argents_argpos. apply in_map_iff.
        exists (k, n0, o). split; [reflexivity | exact Hq]. }
      split; [unfold allocated; rewrite Lw; reflexivity|].
      unfold ids_of. rewrite Lw. cbn [eids ewires].
      apply (nth_ext _ _ false false).
      * rewrite map_length, block_length, firstn_length, app_length, repeat_length. lia.
      * intros i Hi. rewrite map_length, block_length in Hi.
        rewrite (nth_indep _ false (rd (stream_init p xy) 0%N)) by (rewrite map_length, block_length; exact Hi).
        rewrite map_nth. unfold block. rewrite (nth_indep _ 0%N ((fun i0 => (N.of_nat o + N.of_nat i0)%N) 0)) by (rewrite map_length, seq_length; exact Hi).
        rewrite (map_nth (fun i0 => (N.of_nat o + N.of_nat i0)%N)), seq_nth by exact Hi. cbn [Nat.add].
        replace (N.of_nat o + N.of_nat i)%N with (N.of_nat (o + i)) by lia.
        rewrite Hrdi by lia.
        rewrite nth_firstn_lt2 by exact Hi.
        destruct (Nat.lt_ge_cases i (length (skipn o xy))) as [L|L].
        -- rewrite app_nth1 by exact L. rewrite nth_skipn2. reflexivity.
        -- rewrite app_nth2 by exact L. rewrite nth_repeat. rewrite skipn_length in L.
           rewrite nth_overflow by lia. reflexivity.
  - (* Bd *)
    intros k Hk. apply Hkeys_e. destruct Hk as [Hk|Hk]; [left|auto].
    unfold outs_l in Hk. cbn [flat_map app] in Hk. exact Hk.
Qed.

Lemma wf_ret_last : forall steps defd, wf_steps defd steps = true ->
  forall E s later, steps = E ++ s :: later -> iop s = ORet -> later = [].
Proof.
  induction steps as [|s0 rest IH]; intros defd H E s later E0 Hr; [destruct E; discriminate|].
  destruct rest as [|s2 rest'].
  - destruct E as [|a E]; [injection E0 as _ <-; reflexivity | destruct E; discriminate].
  - remember (s2 :: rest') as rest eqn:Er.
    assert (Hc : iop s0 <> ORet /\ wf_steps (outs_of s0 ++ defd) rest = true).
    { subst rest. cbn [wf_steps] in H. destruct (iop s0); try discriminate;
        repeat (apply andb_prop in H as [H ?]); split; try assumption; discriminate. }
    destruct Hc as [Hc Hw]. destruct E as [|a E].
    + injection E0 as -> _. contradiction.
    + injection E0 as _ E0. eapply IH; eauto.
Qed.

Lemma ret_bits_filter l : ret_bits (filter not_gc l) = ret_bits l.
Proof.
  induction l as [|s t IH]; [reflexivity|]. cbn [filter]. unfold not_gc at 1.
  destruct (iop s) eqn:E; cbn [ret_bits fold_right]; rewrite ?E; fold (ret_bits t); fold (ret_bits (filter not_gc t)); rewrite ?IH; reflexivity.
Qed.

Theorem stream_eq_whole p steps g xy :
  wf_prog p steps = true -> consts_read_tabled p steps = true -> outbits_ok p steps = true ->
  gc_fixed steps = Some g ->
  stream_eval p g xy = ssa_eval p steps xy.
Proof.
  intros Hwf Htab Hout Hg.
  pose proof Hwf as Hwf0. unfold wf_prog in Hwf.
  apply andb_prop in Hwf as [Hwf Hsteps]. apply andb_prop in Hwf as [Hssa Hnd].
  apply nodupb_NoDup in Hnd.
  set (Kt := map fst (sp_consts p)).
  set (NC := outs_l steps ++ map fst (sp_args p)).
  set (n := total (sp_args p)).
  rewrite forallb_forall in Hsteps.
  assert (Hck : forall k, In k (const_keys p) -> ~ In k NC).
  { intros k Hk Hin. apply in_app_or in Hin as [Hin|Hin].
    - unfold outs_l in Hin. apply in_flat_map in Hin as (s & Hs & Ho).
      specialize (Hsteps s Hs). unfold step_ok in Hsteps.
      repeat (apply andb_prop in Hsteps as [Hsteps ?]).
      match goal with Hx : forallb (fun o => negb (mem o (const_keys p))) (outs_of s) = true |- _ =>
        rewrite forallb_forall in Hx; specialize (Hx k Ho) end.
      rewrite (proj2 (mem_In _ _) Hk) in *. discriminate.
    - apply NoDup_app_iff in Hnd as (_ & _ & Hd). exact (Hd k Hin Hk). }
  assert (Hsok : Forall (sok NC (sp_args p) (sp_circs p)) steps).
  { pose proof (wf_shape _ _ Hssa) as Hsh. pose proof (wf_circ_shape _ _ Hssa) as Hcs. rewrite Forall_forall in *. intros s Hs.
    specialize (Hsh s Hs). specialize (Hcs s Hs). pose proof (Hsteps s Hs) as Hstep. specialize (Hsteps s Hs). unfold step_ok in Hsteps.
    repeat (apply andb_prop in Hsteps as [Hsteps ?]).
    split.
    - destruct (iop s) eqn:Eop; auto.
      destruct (Hcs eq_refl) as [C1 C2]. destruct (step_ok_circ _ _ _ Hstep Eop) as (_ & _ & _ & C4 & _). cbv zeta in C4.
      split; [exact C1|]. split; [exact C2|]. rewrite C4. apply map_length.
    - intros i Hi. split.
      + intros Hc.
        match goal with Hx : forallb (fun i => if vconst i then _ else _) (iin s) = true |- _ =>
          rewrite forallb_forall in Hx; specialize (Hx i Hi); rewrite Hc in Hx end.
        intros Hin. assert (Hm : mem (vid i) (map fst (sp_args p) ++ flat_map outs_of steps) = true).
        { apply mem_In. apply in_app_or in Hin as [Hin|Hin]; apply in_or_app; auto. }
        rewrite Hm in *. discriminate.
      + intros b Hb.
        match goal with Hx : forallb (fun i => match lookup (vid i) (sp_args p) with _ => _ end) (iin s) = true |- _ =>
          rewrite forallb_forall in Hx; specialize (Hx i Hi); rewrite Hb in Hx end.
        apply Nat.eqb_eq. assumption. }
  assert (Hsok2 : Forall (sok2 Kt (sp_circs p)) steps).
  { unfold consts_read_tabled in Htab. rewrite forallb_forall in Htab. rewrite Forall_forall. intros s Hs.
    specialize (Htab s Hs). rewrite forallb_forall in Htab.
    pose proof (Hsteps s Hs) as Hstep. specialize (Hsteps s Hs). unfold step_ok in Hsteps.
    repeat (apply andb_prop in Hsteps as [Hsteps ?]).
    split; [|split; [|split]].
    - intros j i Hj Ej Hc. specialize (Htab j Hj). rewrite Ej in Htab. unfold const_ok in Htab. rewrite Hc in Htab.
      cbn [negb orb] in Htab. apply orb_prop in Htab as [Ht|Ht]; [left; apply mem_In; exact Ht|]. right.
      destruct (iop s) eqn:Eop; try discriminate. split; [reflexivity | exact Ht].
    - intros Eop. exact (step_ok_circ _ _ _ Hstep Eop).
    - intros Eop o Eout.
      match goal with Hx : match iop s with OSlice => _ | _ => _ end = true |- _ => rewrite Eop, Eout in Hx;
        apply andb_prop in Hx as [Hx Hx3]; apply andb_prop in Hx as [Hx1 Hx2] end.
      repeat split; [apply Z.leb_le; assumption | apply Z.ltb_lt; assumption | apply Nat.eqb_eq; assumption].
    - intros Eop o Eout.
      match goal with Hx : match iop s with OGen => _ | _ => _ end = true |- _ => rewrite Eop, Eout in Hx;
        apply andb_prop in Hx as [Hx Hx4]; apply andb_prop in Hx as [Hx Hx3]; apply andb_prop in Hx as [Hx1 Hx2] end.
      cbv zeta. repeat split; [assumption | apply Nat.eqb_eq; assumption | apply Nat.eqb_eq; assumption | apply Nat.leb_le; assumption]. }
  assert (HzK : ~ In (sp_zero_key p) Kt).
  { unfold const_keys in Hnd. apply NoDup_app_iff in Hnd as (_ & Hc & _).
    inversion Hc as [|? ? Hz0 Hc1]; subst. intros H; apply Hz0; right; exact H. }
  assert (HzN : ~ In (sp_zero_key p) NC) by (apply Hck; left; reflexivity).
  assert (HoN : ~ In (sp_one_key p) NC) by (apply Hck; right; left; reflexivity).
  assert (HkN : forall k, In k Kt -> ~ In k NC) by (intros k Hk; apply Hck; right; right; exact Hk).
  assert (Hwfl : wfl (map fst (sp_args p)) steps) by (apply wf_steps_wfl, Hssa).
  assert (HNC : forall k, In k NC <-> In k (outs_l steps ++ map fst (sp_args p))) by (intros k; reflexivity).
  assert (Hform : gcform steps steps g) by (eapply gc_fixed_form; eauto).
  assert (Hrl : forall E s later, steps = E ++ s :: later -> iop s = ORet -> later = []) by (eapply wf_ret_last; eauto).
  destruct (init_sinv p steps xy Hnd Hck) as [HI Hret0]. fold Kt NC n in HI.
  pose proof (run_sim Kt (sp_zero_key p) (sp_one_key p) n (n + 1)%N NC steps (sp_args p) HzK HzN HoN HkN
                (sp_circs p) Hwfl HNC Hsok Hsok2 Hrl steps g Hform [] (stream_init p xy) (ssa_init p xy) 0
                (map fst (sp_args p)) [] eq_refl HI Hret0) as HS.
  assert (Hng : forallb not_gc steps = true).
  { apply forallb_forall. intros s Hs. pose proof (wf_not_gc _ _ Hssa) as Hn. rewrite Forall_forall in Hn.
    specialize (Hn s Hs). unfold not_gc. destruct (iop s); auto; try (exfalso; apply Hn; reflexivity). }
  rewrite <- (ssa_ignores_gc p true true steps g xy Hng Hg).
  unfold stream_eval, stream_run, ssa_eval.
  destruct (stream_steps (sp_circs p) 0 g (stream_init p xy)) as [stf|];
    destruct (ssa_steps (sp_circs p) g (ssa_init p xy, [])) as [[ef retf]|] eqn:Ess; try contradiction; [|reflexivity].
  cbn [simres] in HS. f_equal.
  pose proof (ssa_ret_length _ _ _ _ _ _ Ess) as Hlen. cbn [length Nat.add] in Hlen.
  rewrite <- (ret_bits_filter g), (gc_only_inserts true true steps g Hng Hg) in Hlen.
  unfold outbits_ok in Hout. apply Nat.eqb_eq in Hout.
  rewrite <- HS. rewrite <- HS, map_length in Hlen.
  change (fun i => sfind false (cs_wires (ss_cs stf)) (nth i (ss_ret stf) 0%N))
    with (fun i => rd stf (nth i (ss_ret stf) 0%N)).
  apply map_nth_seq_firstn. lia.
Qed.

(* the simulation proper: on the gc'd list itself *)
Theorem stream_sim_gc p steps g xy :
  wf_prog p steps = true -> consts_read_tabled p steps = true -> outbits_ok p steps = true ->
  gc_fixed steps = Some g ->
  no_premature_reuse p g = true /\ stream_eval p g xy = ssa_eval p g xy.
Proof.
  intros Hwf Htab Hout Hg. split; [eapply gc_sound; eauto|].
  rewrite (stream_eq_whole p steps g xy Hwf Htab Hout Hg). symmetry.
  apply (ssa_ignores_gc p true true steps g xy); [|exact Hg].
  unfold wf_prog in Hwf. apply andb_prop in Hwf as [Hwf _]. apply andb_prop in Hwf as [Hssa _].
  apply forallb_forall. intros s Hs. pose proof (wf_not_gc _ _ Hssa) as Hn. rewrite Forall_forall in Hn.
  specialize (Hn s Hs). unfold not_gc. destruct (iop s); auto; try (exfalso; apply Hn; reflexivity).
Qed.

(* ------------------------------------------------------------------ *)
(** * Non-vacuity of the hypotheses for native-circuit steps and unread
      constant operands

   main(a uint2, b uint2): r := native("xor2", a, 1) — the narrow constant 1
   (one bit, in prog.Constants) is padded in place to the circuit's second
   2-bit input; q := gen(r, $k) where the 2-bit constant $k is NOT in
   prog.Constants and no gate of the step circuit reads its input wires
   (the offset operand of index); ret q.  wf_prog, consts_read_tabled and
   outbits_ok hold, consts_tabled does not, Program.GC frees a, and the
   streamed result is the reference result. *)
Definition nv_xor2 : ccirc := mkCcirc (mkCircuit 6 4 2 [mkGate 0 2 4 XOR; mkGate 1 3 5 XOR]) [2; 2] [2].
Definition nv_gen : ccirc := mkCcirc (mkCircuit 6 4 2 [mkGate 0 1 4 XOR; mkGate 0 1 5 AND]) [] [].
Definition nv_prog : sprog :=
  mkSprog [(0%N, 2); (1%N, 2)] 100%N 101%N [(51%N, [true])] [nv_xor2; nv_gen] [2].
Definition nv_val (k : N) : val := mkVal k false 2 false 0%Z.
Definition nv_steps : list instr :=
  [ mkInstr OCirc [nv_val 0; mkVal 51%N true 1 false 1%Z] None [nv_val 2] None 0;
    mkInstr OGen [nv_val 2; mkVal 50%N true 2 false 0%Z] (Some (nv_val 3)) [] None 1;
    mkInstr ORet [nv_val 3] None [] None 0 ].

Example circ_and_unread_nonvacuous :
  wf_prog nv_prog nv_steps = true /\ consts_read_tabled nv_prog nv_steps = true /\
  consts_tabled nv_prog nv_steps = false /\ outbits_ok nv_prog nv_steps = true /\
  exists g, gc_fixed nv_steps = Some g /\ length g = 5 /\
    stream_eval nv_prog g [true; true; false; false] = Some [true; false] /\
    ssa_eval nv_prog nv_steps [true; true; false; false] = Some [true; false].
Proof.
  split; [vm_compute; reflexivity|]. split; [vm_compute; reflexivity|]. split; [vm_compute; reflexivity|].
  split; [vm_compute; reflexivity|]. eexists. split; [vm_compute; reflexivity|].
  split; [reflexivity|]. split; vm_compute; reflexivity.
Qed.
