(* StreamGcProof.v — C05_gc_sound: the step list Program.GC (as it is now)
   returns never lets a circuit step write a wire id that a value still to be
   read mentions.  Static part: Lang/GcProof.v (gc_fixed_form).  Here: the
   wire allocator's ownership invariant along the execution. *)
From Coq Require Import NArith ZArith List Bool Arith Lia Permutation.
From Mpc Require Import Circuit.Circuit Lang.Gc Lang.GcProof Proto.Stream.
Import ListNotations.
Local Open Scope nat_scope.

(* ------------------------------------------------------------------ *)
(** * Lists *)

Lemma NoDup_app_iff {A} (a b : list A) :
  NoDup (a ++ b) <-> NoDup a /\ NoDup b /\ (forall x, In x a -> ~ In x b).
Proof.
  induction a as [|h t IH]; simpl.
  - split; [intros H; repeat split; auto; constructor | intros (_ & H & _); exact H].
  - split.
    + intros H. inversion H as [|? ? Hn Hd]; subst. apply IH in Hd as (H1 & H2 & H3).
      repeat split; auto.
      * constructor; [|exact H1]. intros Hi. apply Hn, in_or_app. auto.
      * intros x [<-|Hx] Hb; [apply Hn, in_or_app; auto | exact (H3 x Hx Hb)].
    + intros (H1 & H2 & H3). inversion H1 as [|? ? Hn Hd]; subst. constructor.
      * intros Hi. apply in_app_or in Hi as [Hi|Hi]; [auto | exact (H3 h (or_introl eq_refl) Hi)].
      * apply IH. repeat split; auto.
Qed.

Lemma block_length b n : length (block b n) = n.
Proof. unfold block. rewrite map_length, seq_length. reflexivity. Qed.

Lemma in_block b n id : In id (block b n) <-> (b <= id /\ id < b + N.of_nat n)%N.
Proof.
  unfold block. rewrite in_map_iff. split.
  - intros (i & <- & Hi). apply in_seq in Hi. lia.
  - intros [H1 H2]. exists (N.to_nat (id - b)). split; [lia|]. apply in_seq. lia.
Qed.

Lemma NoDup_block b n : NoDup (block b n).
Proof.
  unfold block. apply FinFun.Injective_map_NoDup; [|apply seq_NoDup].
  intros x y H. lia.
Qed.

Lemma hd_block b n : n <> 0 -> hd 0%N (block b n) = b.
Proof. destruct n; [congruence|]. intros _. unfold block. simpl. lia. Qed.

(* ------------------------------------------------------------------ *)
(** * Association lists *)

Lemma lookup_set_key_eq {A} k (a : A) l : lookup k (set_key k a l) = Some a.
Proof.
  induction l as [|[k' a'] t IH]; simpl; [rewrite N.eqb_refl; reflexivity|].
  destruct (N.eqb k k') eqn:E; simpl; [rewrite N.eqb_refl; reflexivity | rewrite E; exact IH].
Qed.

Lemma lookup_set_key_neq {A} k k' (a : A) l : k <> k' -> lookup k' (set_key k a l) = lookup k' l.
Proof.
  intros H. induction l as [|[k2 a2] t IH]; simpl.
  - destruct (N.eqb k' k) eqn:E; [apply N.eqb_eq in E; congruence | reflexivity].
  - destruct (N.eqb k k2) eqn:E; simpl.
    + apply N.eqb_eq in E. subst k2. destruct (N.eqb k' k) eqn:E2; [apply N.eqb_eq in E2; congruence | reflexivity].
    + destruct (N.eqb k' k2); [reflexivity | exact IH].
Qed.

Lemma lookup_remove_key_neq {A} k k' (l : list (N * A)) : k <> k' -> lookup k' (remove_key k l) = lookup k' l.
Proof.
  intros H. induction l as [|[k2 a2] t IH]; simpl; [reflexivity|].
  destruct (N.eqb k k2) eqn:E.
  - apply N.eqb_eq in E. subst k2. destruct (N.eqb k' k) eqn:E2; [apply N.eqb_eq in E2; congruence | reflexivity].
  - simpl. destruct (N.eqb k' k2); [reflexivity | exact IH].
Qed.

Lemma lookup_in {A} k (a : A) l : lookup k l = Some a -> In (k, a) l.
Proof.
  induction l as [|[k2 a2] t IH]; simpl; [discriminate|].
  destruct (N.eqb k k2) eqn:E; [|auto]. apply N.eqb_eq in E. intros H. inversion H. subst. auto.
Qed.

Lemma lookup_none_notin {A} k (l : list (N * A)) : lookup k l = None -> ~ In k (map fst l).
Proof.
  induction l as [|[k2 a2] t IH]; simpl; [auto|].
  destruct (N.eqb k k2) eqn:E; [discriminate|]. apply N.eqb_neq in E. intros H [H1|H1]; [congruence | exact (IH H H1)].
Qed.

Lemma lookup_remove_key_eq {A} k (l : list (N * A)) : NoDup (map fst l) -> lookup k (remove_key k l) = None.
Proof.
  induction l as [|[k2 a2] t IH]; simpl; [reflexivity|]. intros H. inversion H as [|? ? Hn Hd]; subst.
  destruct (N.eqb k k2) eqn:E.
  - apply N.eqb_eq in E. subst k2. destruct (lookup k t) eqn:L; [|reflexivity].
    exfalso. apply Hn. apply lookup_in in L. apply in_map_iff. exists (k, a). auto.
  - simpl. rewrite E. apply IH, Hd.
Qed.

Lemma keys_set_key {A} k (a : A) l : lookup k l <> None -> map fst (set_key k a l) = map fst l.
Proof.
  induction l as [|[k2 a2] t IH]; simpl; [congruence|].
  destruct (N.eqb k k2) eqn:E; simpl.
  - apply N.eqb_eq in E. subst. reflexivity.
  - intros H. rewrite IH by exact H. reflexivity.
Qed.

Lemma keys_remove_key_incl {A} k (l : list (N * A)) x : In x (map fst (remove_key k l)) -> In x (map fst l).
Proof.
  induction l as [|[k2 a2] t IH]; simpl; [auto|].
  destruct (N.eqb k k2); simpl; [auto|]. intros [H|H]; auto.
Qed.

Lemma NoDup_remove_key {A} k (l : list (N * A)) : NoDup (map fst l) -> NoDup (map fst (remove_key k l)).
Proof.
  induction l as [|[k2 a2] t IH]; simpl; [auto|]. intros H. inversion H as [|? ? Hn Hd]; subst.
  destruct (N.eqb k k2); [exact Hd|]. simpl. constructor; [|apply IH, Hd].
  intros Hi. apply Hn. eapply keys_remove_key_incl; eauto.
Qed.

(* ------------------------------------------------------------------ *)
(** * Owned blocks and free ids *)

Definition oblock (e : entry) : list N :=
  match ewires e with
  | Some ws => ws
  | None => match ebase e, eids e with Some b, Some ids => block b (length ids) | _, _ => [] end
  end.

Definition entry_wf (e : entry) : Prop :=
  match ewires e with
  | Some ws => ws = block (hd 0%N ws) (length ws) /\
               (ebase e = None \/ ebase e = Some (hd 0%N ws)) /\
               match eids e with Some ids => length ids = length ws | None => True end
  | None => exists b ids, ebase e = Some b /\ eids e = Some ids
  end.

Definition free_l (fl : list (nat * list N)) : list N :=
  flat_map (fun p => flat_map (fun b => block b (fst p)) (snd p)) fl.
Definition free_ids (w : walloc) : list N := free_l (wfree w).

Lemma free_pop bits b rest : forall fl,
  lookup_nat bits fl = Some (b :: rest) ->
  exists X Y, free_l fl = X ++ block b bits ++ Y /\ free_l (set_nat bits rest fl) = X ++ Y.
Proof.
  induction fl as [|[k l] t IH]; simpl; [discriminate|].
  destruct (Nat.eqb bits k) eqn:E.
  - apply Nat.eqb_eq in E. subst k. intros H. inversion H; subst. exists [], (flat_map (fun b => block b bits) rest ++ free_l t).
    simpl. split; [rewrite <- app_assoc; reflexivity | reflexivity].
  - intros H. destruct (IH H) as (X & Y & E1 & E2). simpl.
    exists (flat_map (fun b0 => block b0 k) l ++ X), Y. unfold free_l in *. simpl. rewrite E1, E2, <- !app_assoc. auto.
Qed.

Lemma free_push bits b : forall fl,
  exists X Y, free_l fl = X ++ Y /\ free_l (push_free bits b fl) = X ++ block b bits ++ Y.
Proof.
  unfold push_free. induction fl as [|[k l] t IH]; simpl.
  - exists [], []. simpl. rewrite app_nil_r. auto.
  - destruct (Nat.eqb bits k) eqn:E.
    + apply Nat.eqb_eq in E. subst k. exists [], (flat_map (fun b0 => block b0 bits) l ++ free_l t).
      simpl. split; [reflexivity|]. rewrite <- app_assoc. reflexivity.
    + destruct IH as (X & Y & E1 & E2). simpl.
      exists (flat_map (fun b0 => block b0 k) l ++ X), Y. unfold free_l in *. simpl.
      rewrite E1, <- !app_assoc. split; [reflexivity|]. f_equal.
      destruct (lookup_nat bits t); exact E2.
Qed.

Lemma nodup_mid_remove {A} (X B Y : list A) :
  NoDup (X ++ B ++ Y) -> NoDup (X ++ Y) /\ NoDup B /\ (forall x, In x B -> ~ In x (X ++ Y)).
Proof.
  intros H. apply (Permutation_NoDup (l' := B ++ X ++ Y)) in H.
  2:{ rewrite !app_assoc. apply Permutation_app_tail, Permutation_app_comm. }
  apply NoDup_app_iff in H as (H1 & H2 & H3). auto.
Qed.

Lemma nodup_mid_insert {A} (X B Y : list A) :
  NoDup (X ++ Y) -> NoDup B -> (forall x, In x B -> ~ In x (X ++ Y)) -> NoDup (X ++ B ++ Y).
Proof.
  intros H1 H2 H3. apply (Permutation_NoDup (l := B ++ X ++ Y)).
  - rewrite !app_assoc. apply Permutation_app_tail, Permutation_app_comm.
  - apply NoDup_app_iff. auto.
Qed.

Section Dyn.
  Variable Kt : list N.        (* keys of the constants of prog.Constants *)
  Variables zk ok : N.         (* keys of {zero}, {one} *)
  Variables zero one : N.      (* their wire ids *)
  Variable NC : list N.        (* keys of the non-constant values: arguments and all results *)
  Variable steps0 : list instr.
  Variable args : list (N * nat).

  Hypothesis zk_owned : ~ In zk Kt.
  Hypothesis ok_owned : ~ In ok Kt.
  Hypothesis zk_nc : ~ In zk NC.
  Hypothesis ok_nc : ~ In ok NC.
  Hypothesis kt_nc : forall k, In k Kt -> ~ In k NC.

  Definition owned_ids (l : list (N * entry)) : list N :=
    flat_map (fun p => if mem (fst p) Kt then [] else oblock (snd p)) l.

  Lemma owned_in l k e id :
    lookup k l = Some e -> ~ In k Kt -> In id (oblock e) -> In id (owned_ids l).
  Proof.
    intros L Hk Hid. apply lookup_in in L. unfold owned_ids. apply in_flat_map.
    exists (k, e). split; [exact L|]. simpl. apply mem_false in Hk. rewrite Hk. exact Hid.
  Qed.

  Lemma owned_set_key l k e e' :
    lookup k l = Some e -> oblock e' = oblock e -> owned_ids (set_key k e' l) = owned_ids l.
  Proof.
    induction l as [|[k2 e2] t IH]; simpl; [discriminate|].
    destruct (N.eqb k k2) eqn:E.
    - apply N.eqb_eq in E. subst k2. intros H Ho. inversion H; subst. unfold owned_ids. simpl. rewrite Ho. reflexivity.
    - intros H Ho. unfold owned_ids in *. simpl. rewrite IH by assumption. reflexivity.
  Qed.

  Lemma owned_remove_key l k e :
    lookup k l = Some e ->
    Permutation (owned_ids l) ((if mem k Kt then [] else oblock e) ++ owned_ids (remove_key k l)).
  Proof.
    induction l as [|[k2 e2] t IH]; simpl; [discriminate|].
    destruct (N.eqb k k2) eqn:E.
    - apply N.eqb_eq in E. subst k2. intros H. inversion H; subst. unfold owned_ids. simpl. apply Permutation_refl.
    - intros H. unfold owned_ids in *. simpl. specialize (IH H).
      rewrite (Permutation_app_head _ IH), !app_assoc. apply Permutation_app_tail, Permutation_app_comm.
  Qed.

  (* witness that an id belongs to the block of an allocated owner related to v *)
  Definition related (k v : N) : Prop := ~ In k NC \/ In v (fdesc steps0 k).

  Record ginv (w : walloc) (defd gcd : list N) : Prop := {
    g_keys : NoDup (map fst (whash w));
    g_geo : NoDup (owned_ids (whash w) ++ free_ids w);
    g_lt : forall id, In id (owned_ids (whash w) ++ free_ids w) -> (id < wnext w)%N;
    g_ewf : forall k e, lookup k (whash w) = Some e -> ~ In k Kt -> entry_wf e;
    g_args : forall k e, lookup k (whash w) = Some e -> eids e = None ->
             exists ws, ewires e = Some ws /\ lookup k args = Some (length ws);
    g_kt : forall k, In k Kt -> exists e ids, lookup k (whash w) = Some e /\ eids e = Some ids /\
                                  forall id, In id ids -> id = zero \/ id = one;
    g_z : exists ez eo, lookup zk (whash w) = Some ez /\ oblock ez = [zero] /\
                        lookup ok (whash w) = Some eo /\ oblock eo = [one];
    g_prov : forall v e, lookup v (whash w) = Some e ->
             (exists u, In u gcd /\ In v (fdesc steps0 u)) \/
             (forall id, In id (ids_of w v) ->
                exists k e', lookup k (whash w) = Some e' /\ ~ In k Kt /\ In id (oblock e') /\ related k v);
    g_alloc : forall k, In k NC -> (allocated w k = true <-> In k defd /\ ~ In k gcd)
  }.

  Lemma self_desc k : In k (fdesc steps0 k).
  Proof. unfold fdesc. apply fold_fstep_mono. left. reflexivity. Qed.

  Lemma allocated_lookup w k : allocated w k = true <-> exists e, lookup k (whash w) = Some e.
  Proof. unfold allocated. destruct (lookup k (whash w)); split; intros H; eauto; try discriminate. destruct H; discriminate. Qed.

  (* ---- the three cases of AssignedIDs *)

  (* T1/T2: the value is allocated *)
  Lemma aid_existing w defd gcd v bits e ids w' :
    ginv w defd gcd -> lookup v (whash w) = Some e ->
    (forall b, lookup v args = Some b -> bits = b) ->
    assigned_ids w v bits = (ids, w') ->
    ginv w' defd gcd /\ ids = ids_of w v /\ (forall k, ids_of w' k = ids_of w k) /\
    (forall k, allocated w' k = allocated w k) /\
    (forall k e1, lookup k (whash w) = Some e1 -> exists e2, lookup k (whash w') = Some e2 /\ oblock e2 = oblock e1) /\
    wnext w' = wnext w /\ (forall id, In id (free_ids w') -> In id (free_ids w)).
  Proof.
    intros G L Hb HA. unfold assigned_ids in HA. rewrite L in HA.
    destruct (eids e) as [ids0|] eqn:Ei.
    - injection HA as E1 E2. subst ids w'.
      split; [exact G|]. repeat split; auto; try (unfold ids_of; rewrite L, Ei; reflexivity); try (intros k e1 H; eauto).
    - destruct (g_args _ _ _ G v e L Ei) as (ws & Ew & La).
      specialize (Hb _ La). subst bits.
      rewrite Ew, firstn_all, Nat.sub_diag in HA. cbn [repeat] in HA. rewrite app_nil_r in HA.
      destruct (new_ids w (length ws)) as [nb w1] eqn:En. injection HA as E1 E2. subst ids w'.
      assert (Hw1 : whash w1 = whash w /\ wnext w1 = wnext w /\
                    exists X B Y, free_ids w = X ++ B ++ Y /\ free_ids w1 = X ++ Y).
      { unfold new_ids in En. destruct (lookup_nat (length ws) (wfree w)) as [[|b rest]|] eqn:Ef.
        - injection En as <- <-. repeat split; auto. exists [], [], (free_ids w). auto.
        - injection En as <- <-. cbn [whash wnext]. repeat split; auto.
          destruct (free_pop _ _ _ _ Ef) as (X & Y & E1 & E2). exists X, (block b (length ws)), Y.
          unfold free_ids. cbn [wfree]. auto.
        - injection En as <- <-. repeat split; auto. exists [], [], (free_ids w). auto. }
      destruct Hw1 as (Hh & Hn & X & B & Y & Ef & Ef1).
      set (e' := mkEntry (ebase e) (Some ws) (Some ws)).
      set (w' := mkWalloc (set_key v e' (whash w1)) (wfree w1) (wnext w1)).
      assert (Hob : oblock e' = oblock e) by (unfold oblock; cbn; rewrite Ew; reflexivity).
      assert (Hlk : forall k, k <> v -> lookup k (whash w') = lookup k (whash w)).
      { intros k Hk. cbn. rewrite Hh. apply lookup_set_key_neq. congruence. }
      assert (Hlv : lookup v (whash w') = Some e') by (cbn; apply lookup_set_key_eq).
      assert (Hids : forall k, ids_of w' k = ids_of w k).
      { intros k. unfold ids_of. destruct (N.eq_dec k v) as [->|Hk].
        - rewrite Hlv, L, Ei, Ew. reflexivity.
        - rewrite Hlk by exact Hk. reflexivity. }
      assert (Hfree : forall id, In id (free_ids w') -> In id (free_ids w)).
      { intros id. change (free_ids w') with (free_ids w1). rewrite Ef, Ef1. intros H.
        apply in_app_or in H as [H|H]; apply in_or_app; [auto | right; apply in_or_app; auto]. }
      assert (Hown : owned_ids (whash w') = owned_ids (whash w)).
      { cbn. rewrite Hh. apply (owned_set_key _ _ e); auto. }
      assert (Hlk' : forall k e1, lookup k (whash w) = Some e1 -> exists e2, lookup k (whash w') = Some e2 /\ oblock e2 = oblock e1).
      { intros k e1 H. destruct (N.eq_dec k v) as [->|Hk].
        - rewrite L in H. inversion H; subst. eauto.
        - rewrite <- Hlk in H by exact Hk. eauto. }
      assert (GI : ginv w' defd gcd).
      { constructor.
        * cbn. rewrite Hh, keys_set_key by (rewrite L; discriminate). apply (g_keys _ _ _ G).
        * rewrite Hown. change (free_ids w') with (free_ids w1). rewrite Ef1.
          pose proof (g_geo _ _ _ G) as Hg. rewrite Ef in Hg. rewrite app_assoc in Hg |- *.
          apply nodup_mid_remove in Hg as (Hg & _). exact Hg.
        * intros id Hid. change (wnext w') with (wnext w1). rewrite Hn. apply (g_lt _ _ _ G).
          rewrite Hown in Hid. apply in_app_or in Hid as [H|H]; apply in_or_app; auto.
        * intros k e1 H Hk. destruct (N.eq_dec k v) as [->|Hkv].
          -- rewrite Hlv in H. inversion H; subst e1.
             pose proof (g_ewf _ _ _ G v e L Hk) as Hw. unfold entry_wf in *. cbn. rewrite Ew in Hw.
             destruct Hw as (H1 & H2 & _). auto.
          -- rewrite Hlk in H by exact Hkv. eapply g_ewf; eauto.
        * intros k e1 H He. destruct (N.eq_dec k v) as [->|Hkv].
          -- rewrite Hlv in H. inversion H; subst e1. discriminate.
          -- rewrite Hlk in H by exact Hkv. eapply g_args; eauto.
        * intros k Hk. destruct (g_kt _ _ _ G k Hk) as (e1 & ids & H1 & H2 & H3).
          destruct (N.eq_dec k v) as [->|Hkv]; [rewrite L in H1; inversion H1; subst; congruence|].
          exists e1, ids. rewrite Hlk by exact Hkv. auto.
        * destruct (g_z _ _ _ G) as (ez & eo & Z1 & Z2 & Z3 & Z4).
          destruct (Hlk' _ _ Z1) as (ez' & Z1' & Z2'). destruct (Hlk' _ _ Z3) as (eo' & Z3' & Z4').
          exists ez', eo'. rewrite Z2', Z4'. auto.
        * intros k e1 H.
          assert (exists e0, lookup k (whash w) = Some e0) as (e0 & H0).
          { destruct (N.eq_dec k v) as [->|Hkv]; [eauto | rewrite Hlk in H by exact Hkv; eauto]. }
          destruct (g_prov _ _ _ G k e0 H0) as [Hd|Hp]; [left; exact Hd | right].
          intros id Hid. rewrite Hids in Hid. destruct (Hp id Hid) as (k2 & e2 & P1 & P2 & P3 & P4).
          destruct (Hlk' _ _ P1) as (e2' & Q1 & Q2). exists k2, e2'. rewrite Q2. auto.
        * intros k Hk. rewrite <- (g_alloc _ _ _ G k Hk). unfold allocated.
          destruct (N.eq_dec k v) as [->|Hkv]; [rewrite Hlv, L; tauto | rewrite Hlk by exact Hkv; tauto].
      }
      split; [exact GI|]. repeat split; auto.
      * unfold ids_of. rewrite L, Ei, Ew. reflexivity.
      * intros k. unfold allocated. destruct (N.eq_dec k v) as [->|Hkv]; [rewrite Hlv, L; reflexivity | rewrite Hlk by exact Hkv; reflexivity].
  Qed.

  Lemma aid_new_shape w v bits ids w' :
    lookup v (whash w) = None -> assigned_ids w v bits = (ids, w') ->
    exists b, ids = block b bits /\
      whash w' = (v, mkEntry (Some b) None (Some ids)) :: whash w /\
      ((wnext w' = wnext w /\ exists X Y, free_ids w = X ++ ids ++ Y /\ free_ids w' = X ++ Y) \/
       (b = wnext w /\ wnext w' = (wnext w + N.of_nat bits)%N /\ free_ids w' = free_ids w)).
  Proof.
    intros L H. unfold assigned_ids in H. rewrite L in H.
    destruct (Nat.eqb bits 0) eqn:E0.
    - apply Nat.eqb_eq in E0. subst bits. injection H as <- <-. exists (wnext w). cbn.
      repeat split; auto. right. repeat split; auto. lia.
    - unfold new_ids in H. destruct (lookup_nat bits (wfree w)) as [[|b rest]|] eqn:Ef.
      + injection H as <- <-. exists (wnext w). cbn. repeat split; auto.
      + injection H as <- <-. exists b. cbn. repeat split; auto. left. split; [reflexivity|].
        destruct (free_pop _ _ _ _ Ef) as (X & Y & E1 & E2). exists X, Y. unfold free_ids. cbn. auto.
      + injection H as <- <-. exists (wnext w). cbn. repeat split; auto.
  Qed.

  Lemma aid_new w defd gcd v bits ids w' :
    ginv w defd gcd -> lookup v (whash w) = None -> (In v NC -> ~ In v gcd) ->
    assigned_ids w v bits = (ids, w') ->
    ginv w' (v :: defd) gcd /\ ids_of w' v = ids /\ NoDup ids /\
    (forall k, k <> v -> ids_of w' k = ids_of w k) /\
    (forall k, k <> v -> allocated w' k = allocated w k) /\ allocated w' v = true /\
    (forall k e1, lookup k (whash w) = Some e1 -> lookup k (whash w') = Some e1) /\
    (forall id, In id ids -> ~ In id (owned_ids (whash w))).
  Proof.
    intros G L Hg H.
    assert (HvK : ~ In v Kt).
    { intros Hk. destruct (g_kt _ _ _ G v Hk) as (e & ? & Le & _). congruence. }
    destruct (aid_new_shape _ _ _ _ _ L H) as (b & Hids & Hh & Hcase).
    set (ev := mkEntry (Some b) None (Some ids)) in *.
    assert (Hob : oblock ev = ids).
    { unfold oblock, ev. cbn. rewrite Hids, block_length. reflexivity. }
    assert (Hlk : forall k, k <> v -> lookup k (whash w') = lookup k (whash w)).
    { intros k Hk. rewrite Hh. cbn. destruct (N.eqb k v) eqn:E; [apply N.eqb_eq in E; congruence | reflexivity]. }
    assert (Hlv : lookup v (whash w') = Some ev) by (rewrite Hh; cbn; rewrite N.eqb_refl; reflexivity).
    assert (Hlk' : forall k e1, lookup k (whash w) = Some e1 -> lookup k (whash w') = Some e1).
    { intros k e1 H1. rewrite Hlk; [exact H1|]. intros ->. congruence. }
    assert (Hown : owned_ids (whash w') = ids ++ owned_ids (whash w)).
    { rewrite Hh. unfold owned_ids. cbn [flat_map fst snd]. apply mem_false in HvK. rewrite HvK, Hob. reflexivity. }
    assert (Hidsk : forall k, k <> v -> ids_of w' k = ids_of w k).
    { intros k Hk. unfold ids_of. rewrite Hlk by exact Hk. reflexivity. }
    assert (Hidsv : ids_of w' v = ids) by (unfold ids_of; rewrite Hlv; reflexivity).
    assert (Hnew : forall id, In id ids -> ~ In id (owned_ids (whash w))).
    { intros id Hid Ho. destruct Hcase as [(Hn & X & Y & F1 & F2)|(Hb & Hn & F)].
      - pose proof (g_geo _ _ _ G) as Hg0. apply NoDup_app_iff in Hg0 as (_ & _ & D).
        apply (D id Ho). rewrite F1. apply in_or_app. right. apply in_or_app. auto.
      - assert (id < wnext w)%N by (apply (g_lt _ _ _ G); apply in_or_app; auto).
        rewrite Hids, Hb in Hid. apply in_block in Hid. lia. }
    assert (Hnd : NoDup ids) by (rewrite Hids; apply NoDup_block).
    assert (GI : ginv w' (v :: defd) gcd).
    { constructor.
      - rewrite Hh. cbn. constructor; [apply lookup_none_notin, L | apply (g_keys _ _ _ G)].
      - rewrite Hown. pose proof (g_geo _ _ _ G) as Hg0.
        destruct Hcase as [(Hn & X & Y & F1 & F2)|(Hb & Hn & F)].
        + rewrite F2. rewrite F1 in Hg0.
          apply (Permutation_NoDup (l := (owned_ids (whash w) ++ X) ++ ids ++ Y)).
          * rewrite <- !app_assoc. rewrite (app_assoc (owned_ids (whash w)) X (ids ++ Y)).
            rewrite (app_assoc (owned_ids (whash w)) X Y). apply Permutation_app_swap_app.
          * rewrite <- app_assoc. exact Hg0.
        + rewrite F, <- app_assoc. apply NoDup_app_iff. repeat split; auto.
          intros id Hid Ho. assert (id < wnext w)%N by (apply (g_lt _ _ _ G); exact Ho).
          rewrite Hids, Hb in Hid. apply in_block in Hid. lia.
      - intros id Hid. rewrite Hown, <- app_assoc in Hid. apply in_app_or in Hid as [Hid|Hid].
        + destruct Hcase as [(Hn & X & Y & F1 & F2)|(Hb & Hn & F)].
          * rewrite Hn. apply (g_lt _ _ _ G). apply in_or_app. right. rewrite F1. apply in_or_app. right. apply in_or_app. auto.
          * rewrite Hn. rewrite Hids, Hb in Hid. apply in_block in Hid. lia.
        + assert (id < wnext w)%N.
          { apply (g_lt _ _ _ G). apply in_app_or in Hid as [Hid|Hid]; apply in_or_app; [auto|right].
            destruct Hcase as [(Hn & X & Y & F1 & F2)|(Hb & Hn & F)].
            - rewrite F1. rewrite F2 in Hid. apply in_app_or in Hid as [?|?]; apply in_or_app; [auto | right; apply in_or_app; auto].
            - rewrite <- F. exact Hid. }
          destruct Hcase as [(Hn & _)|(_ & Hn & _)]; rewrite Hn; lia.
      - intros k e1 H1 Hk. destruct (N.eq_dec k v) as [->|Hkv].
        + rewrite Hlv in H1. injection H1 as <-. unfold entry_wf, ev. cbn. eauto.
        + rewrite Hlk in H1 by exact Hkv. eapply g_ewf; eauto.
      - intros k e1 H1 He. destruct (N.eq_dec k v) as [->|Hkv].
        + rewrite Hlv in H1. injection H1 as <-. discriminate.
        + rewrite Hlk in H1 by exact Hkv. eapply g_args; eauto.
      - intros k Hk. destruct (g_kt _ _ _ G k Hk) as (e1 & i1 & H1 & H2 & H3). exists e1, i1. auto.
      - destruct (g_z _ _ _ G) as (ez & eo & Z1 & Z2 & Z3 & Z4). exists ez, eo. auto.
      - intros k e1 H1. destruct (N.eq_dec k v) as [->|Hkv].
        + right. intros id Hid. rewrite Hidsv in Hid. exists v, ev. rewrite Hob. repeat split; auto.
          right. apply self_desc.
        + rewrite Hlk in H1 by exact Hkv. destruct (g_prov _ _ _ G k e1 H1) as [Hd|Hp]; [left; exact Hd|right].
          intros id Hid. rewrite Hidsk in Hid by exact Hkv.
          destruct (Hp id Hid) as (k2 & e2 & P1 & P2 & P3 & P4). exists k2, e2. auto.
      - intros k Hk. destruct (N.eq_dec k v) as [->|Hkv].
        + unfold allocated. rewrite Hlv. split; [intros _; split; [left; reflexivity | auto] | reflexivity].
        + unfold allocated. rewrite Hlk by exact Hkv.
          pose proof (g_alloc _ _ _ G k Hk) as A. unfold allocated in A. rewrite A. simpl. intuition congruence. }
    split; [exact GI|]. repeat split; auto.
    all: try (intros k Hk; unfold allocated; rewrite Hlk by exact Hk; reflexivity).
    all: try (unfold allocated; rewrite Hlv; reflexivity).
  Qed.

  (* ---- GCWires *)
  Lemma gcw_shape w u e :
    lookup u (whash w) = Some e -> entry_wf e ->
    exists w', gc_wires w u = Some w' /\ whash w' = remove_key u (whash w) /\ wnext w' = wnext w /\
      (free_ids w' = free_ids w \/
       exists X Y, free_ids w = X ++ Y /\ free_ids w' = X ++ oblock e ++ Y).
  Proof.
    intros L Hw. unfold gc_wires. rewrite L. eexists. split; [reflexivity|]. cbn [whash wnext].
    repeat split; auto. unfold free_ids. cbn [wfree]. unfold entry_wf, oblock in *.
    destruct (ewires e) as [ws|] eqn:Ew.
    - destruct Hw as (Hb & Hbase & Hlen).
      destruct (eids e) as [[|i0 rest]|] eqn:Ei;
        [left; destruct ws; reflexivity| |left; destruct ws; reflexivity].
      destruct ws as [|w0 ws']; [simpl in Hlen; discriminate|].
      right. simpl in Hlen. cbn [hd] in *.
      assert (Eb : match match ebase e with None => Some w0 | Some b => Some b end with None => i0 | Some b => b end = w0).
      { destruct Hbase as [->| ->]; reflexivity. }
      rewrite Eb. destruct (free_push (S (length rest)) w0 (wfree w)) as (X & Y & E1 & E2).
      exists X, Y. split; [exact E1|]. rewrite E2, Hb. cbn [length]. rewrite <- Hlen. reflexivity.
    - destruct Hw as (b & ids & Hb & Hi). rewrite Hb, Hi.
      destruct ids as [|i0 rest]; [left; reflexivity|]. right.
      destruct (free_push (S (length rest)) b (wfree w)) as (X & Y & E1 & E2).
      exists X, Y. split; [exact E1|]. rewrite E2. reflexivity.
  Qed.

  Lemma gcw_inv w defd gcd u e :
    ginv w defd gcd -> lookup u (whash w) = Some e -> In u NC ->
    exists w', gc_wires w u = Some w' /\ ginv w' defd (u :: gcd) /\
               (forall k, k <> u -> lookup k (whash w') = lookup k (whash w)) /\
               allocated w' u = false.
  Proof.
    intros G L Hnc.
    assert (HuK : ~ In u Kt) by (intros Hk; exact (kt_nc u Hk Hnc)).
    destruct (gcw_shape w u e L (g_ewf _ _ _ G u e L HuK)) as (w' & Hg & Hh & Hn & Hfree).
    exists w'. split; [exact Hg|].
    assert (Hlk : forall k, k <> u -> lookup k (whash w') = lookup k (whash w)).
    { intros k Hk. rewrite Hh. apply lookup_remove_key_neq. congruence. }
    assert (Hlu : lookup u (whash w') = None) by (rewrite Hh; apply lookup_remove_key_eq, (g_keys _ _ _ G)).
    assert (Hperm : Permutation (owned_ids (whash w)) (oblock e ++ owned_ids (whash w'))).
    { rewrite Hh. pose proof (owned_remove_key _ _ _ L) as P. apply mem_false in HuK. rewrite HuK in P. exact P. }
    assert (Hgeo : NoDup (owned_ids (whash w') ++ free_ids w') /\
                   forall id, In id (owned_ids (whash w') ++ free_ids w') -> In id (owned_ids (whash w) ++ free_ids w)).
    { pose proof (g_geo _ _ _ G) as Hg0.
      apply (Permutation_NoDup (l' := (oblock e ++ owned_ids (whash w')) ++ free_ids w)) in Hg0;
        [|apply Permutation_app_tail, Hperm].
      destruct Hfree as [F|(X & Y & F1 & F2)].
      - rewrite F. split.
        + rewrite <- app_assoc in Hg0. apply NoDup_app_iff in Hg0 as (_ & Hg0 & _). exact Hg0.
        + intros id Hid. apply in_app_or in Hid as [H|H]; apply in_or_app; [left|auto].
          apply (Permutation_in _ (Permutation_sym Hperm)). apply in_or_app. auto.
      - rewrite F2. rewrite F1 in Hg0. split.
        + apply (Permutation_NoDup (l := (oblock e ++ owned_ids (whash w')) ++ X ++ Y)); [|exact Hg0].
          rewrite <- !app_assoc. rewrite (app_assoc (owned_ids (whash w')) X (oblock e ++ Y)).
          rewrite (app_assoc (owned_ids (whash w')) X Y). apply Permutation_sym, Permutation_app_swap_app.
        + intros id Hid. rewrite F1. apply in_app_or in Hid as [H|H].
          * apply in_or_app. left. apply (Permutation_in _ (Permutation_sym Hperm)). apply in_or_app. auto.
          * apply in_app_or in H as [H|H]; [apply in_or_app; right; apply in_or_app; auto|].
            apply in_app_or in H as [H|H]; [|apply in_or_app; right; apply in_or_app; auto].
            apply in_or_app. left. apply (Permutation_in _ (Permutation_sym Hperm)). apply in_or_app. auto. }
    destruct Hgeo as [Hgeo Hincl].
    split; [|split; [exact Hlk | unfold allocated; rewrite Hlu; reflexivity]].
    constructor.
    - rewrite Hh. apply NoDup_remove_key, (g_keys _ _ _ G).
    - exact Hgeo.
    - intros id Hid. rewrite Hn. apply (g_lt _ _ _ G), Hincl, Hid.
    - intros k e1 H1 Hk. destruct (N.eq_dec k u) as [->|Hku]; [congruence|].
      rewrite Hlk in H1 by exact Hku. eapply g_ewf; eauto.
    - intros k e1 H1 He. destruct (N.eq_dec k u) as [->|Hku]; [congruence|].
      rewrite Hlk in H1 by exact Hku. eapply g_args; eauto.
    - intros k Hk. destruct (g_kt _ _ _ G k Hk) as (e1 & i1 & H1 & H2 & H3). exists e1, i1.
      rewrite Hlk; [auto|]. intros ->. contradiction.
    - destruct (g_z _ _ _ G) as (ez & eo & Z1 & Z2 & Z3 & Z4). exists ez, eo.
      rewrite !Hlk; [auto| |]; intros E; subst; contradiction.
    - intros v e1 H1. destruct (N.eq_dec v u) as [->|Hvu]; [congruence|].
      rewrite Hlk in H1 by exact Hvu.
      destruct (in_dec N.eq_dec v (fdesc steps0 u)) as [Hd|Hd]; [left; exists u; split; [left; reflexivity | exact Hd]|].
      destruct (g_prov _ _ _ G v e1 H1) as [(u0 & Hu0 & Hd0)|Hp]; [left; exists u0; split; [right; exact Hu0 | exact Hd0]|].
      right. intros id Hid.
      assert (Hids : ids_of w' v = ids_of w v) by (unfold ids_of; rewrite Hlk by exact Hvu; reflexivity).
      rewrite Hids in Hid. destruct (Hp id Hid) as (k & e2 & P1 & P2 & P3 & P4).
      exists k, e2. repeat split; auto. rewrite Hlk; [exact P1|].
      intros ->. destruct P4 as [P4|P4]; contradiction.
    - intros k Hk. unfold allocated. destruct (N.eq_dec k u) as [->|Hku].
      + rewrite Hlu. split; [discriminate|]. intros [_ H]. exfalso. apply H. left. reflexivity.
      + rewrite Hlk by exact Hku. pose proof (g_alloc _ _ _ G k Hk) as A. unfold allocated in A. rewrite A.
        simpl. intuition congruence.
  Qed.
End Dyn.
