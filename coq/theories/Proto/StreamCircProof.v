(* StreamCircProof.v — list-level facts the whole-run simulation needs for
   native-circuit steps (streamer.go, case Circ: circ_in_ids / circ_out_ids /
   bind_rets) and for operands no gate of a step circuit reads (the offset
   operand of index): [eval_plain] does not depend on input wires that are
   not read. *)
From Coq Require Import NArith ZArith List Bool Arith Lia.
From Mpc Require Import Circuit.Circuit Lang.Gc Lang.GcProof Proto.Stream.
Import ListNotations.
Local Open Scope nat_scope.

Lemma flat_map_map {A B C} (g : A -> B) (f : B -> list C) l :
  flat_map f (map g l) = flat_map (fun x => f (g x)) l.
Proof. induction l as [|x t IH]; [reflexivity|]. cbn. rewrite IH. reflexivity. Qed.

Lemma fill_self {A} (l : list A) (d z : A) :
  map (fun j => if j <? length l then nth j l d else z) (seq 0 (length l)) = l.
Proof.
  induction l as [|h t IH]; [reflexivity|].
  cbn [length seq map]. f_equal. rewrite <- seq_shift, map_map. rewrite <- IH at 2.
  apply map_ext. intros j. reflexivity.
Qed.

Lemma nth_firstn_lt {A} (l : list A) d : forall k m, k < m -> nth k (firstn m l) d = nth k l d.
Proof.
  induction l as [|h t IH]; intros k m H; [destruct m; destruct k; reflexivity|].
  destruct m; [lia|]. destruct k; [reflexivity|]. simpl. apply IH. lia.
Qed.

Lemma in_lookup0 {A} k (a : A) l : NoDup (map fst l) -> In (k, a) l -> lookup k l = Some a.
Proof.
  induction l as [|[k2 a2] t IH]; intros Hnd H; [destruct H|]. simpl in *. inversion Hnd as [|? ? Hn Hd]; subst.
  destruct H as [H|H].
  - injection H as -> ->. rewrite N.eqb_refl. reflexivity.
  - destruct (N.eqb k k2) eqn:E; [|apply IH; auto]. apply N.eqb_eq in E. subst k2.
    exfalso. apply Hn. apply in_map_iff. exists (k, a). auto.
Qed.

Lemma sum_nat_cons n t : sum_nat (n :: t) = n + sum_nat t.
Proof. reflexivity. Qed.

Lemma sum_nat_vbits l : sum_nat (map vbits l) = sum_bits l.
Proof. induction l as [|i t IH]; [reflexivity|]. cbn [map]. rewrite sum_nat_cons, IH. reflexivity. Qed.

Lemma concat_len {A} (g : val -> list A) l :
  (forall i, length (g i) = vbits i) -> length (concat (map g l)) = sum_bits l.
Proof.
  intros H. induction l as [|i t IH]; [reflexivity|]. cbn [map concat]. rewrite app_length, H, IH. reflexivity.
Qed.

Lemma flat_map_len {A} (g : val -> list A) l :
  (forall i, In i l -> length (g i) = vbits i) -> length (flat_map g l) = sum_bits l.
Proof.
  induction l as [|i t IH]; intros H; [reflexivity|]. cbn [flat_map].
  rewrite app_length, (H i (or_introl eq_refl)), IH by (intros i0 H0; apply H; right; exact H0).
  reflexivity.
Qed.

(* ------------------------------------------------------------------ *)
(** * "Collect input and output IDs" *)

Lemma circ_in_length (zero : N) : forall sizes (wires : list (list N)),
  length sizes = length wires -> length (circ_in_ids zero sizes wires) = sum_nat sizes.
Proof.
  unfold circ_in_ids. induction sizes as [|n t IH]; intros [|w ws] H; try discriminate; [reflexivity|].
  cbn [combine map concat]. rewrite app_length, map_length, seq_length, sum_nat_cons.
  f_equal. apply IH. simpl in H. lia.
Qed.

Lemma circ_in_incl (zero : N) sizes wires id :
  In id (circ_in_ids zero sizes wires) -> id = zero \/ exists w, In w wires /\ In id w.
Proof.
  unfold circ_in_ids. intros H. apply in_concat in H as (l & Hl & Hid).
  apply in_map_iff in Hl as ([bits w] & <- & Hp). apply in_combine_r in Hp.
  apply in_map_iff in Hid as (j & <- & _). destruct (j <? length w) eqn:E; [|auto].
  right. exists w. split; [exact Hp|]. apply nth_In. apply Nat.ltb_lt, E.
Qed.

(* reading the store through the collected input ids = collecting the bits read *)
Lemma circ_in_read (f : N -> bool) (zero : N) : f zero = false -> forall sizes (wires : list (list N)),
  map f (circ_in_ids zero sizes wires)
  = concat (map (fun p : nat * list bool => let '(bits, w) := p in
                   map (fun j => if j <? length w then nth j w false else false) (seq 0 bits))
                (combine sizes (map (map f) wires))).
Proof.
  intros Hz. unfold circ_in_ids. induction sizes as [|n t IH]; intros [|w ws]; try reflexivity.
  cbn [combine map concat]. rewrite map_app, IH. f_equal.
  rewrite map_map. apply map_ext. intros j. rewrite map_length.
  destruct (j <? length w) eqn:E; [|exact Hz].
  apply Nat.ltb_lt in E. rewrite (nth_indep _ false (f 0%N)) by (rewrite map_length; exact E).
  symmetry. apply map_nth.
Qed.

(* ------------------------------------------------------------------ *)
(** * bind_rets: the reference side of the return values *)

Lemma bind_rets_other e : forall sizes rets bits v,
  ~ In v (map vid rets) -> lookup v (bind_rets e sizes rets bits) = lookup v e.
Proof.
  induction sizes as [|n t IH]; intros [|r rs] bits v H; try reflexivity.
  cbn [bind_rets lookup]. destruct (N.eqb v (vid r)) eqn:E.
  - apply N.eqb_eq in E. exfalso. apply H. left. symmetry. exact E.
  - apply IH. intros Hin. apply H. right. exact Hin.
Qed.

Lemma bind_rets_bound e : forall rets sizes bits k, length sizes = length rets ->
  (exists b, lookup k e = Some b) \/ In k (map vid rets) ->
  exists b, lookup k (bind_rets e sizes rets bits) = Some b.
Proof.
  induction rets as [|r rs IH]; intros [|n t] bits k Hl H; try discriminate.
  - destruct H as [H|[]]. exact H.
  - cbn [bind_rets lookup]. destruct (N.eqb k (vid r)) eqn:E; [eauto|].
    apply N.eqb_neq in E. apply IH; [simpl in Hl; lia|].
    destruct H as [H|[H|H]]; [auto | congruence | auto].
Qed.

(* [idsf r]: the wire ids of result r, [rdf]: reading the store after the
   circuit; when the output ids (all results, in order) carry [bits], the
   environment binds every result to what its ids carry *)
Lemma bind_rets_rel (idsf : val -> list N) (rdf : N -> bool) e : forall rets bits,
  (forall r, In r rets -> length (idsf r) = vbits r) ->
  map rdf (flat_map idsf rets) = bits ->
  forall v b, lookup v (bind_rets e (map vbits rets) rets bits) = Some b ->
    (exists r, In r rets /\ vid r = v /\ map rdf (idsf r) = b) \/
    (~ In v (map vid rets) /\ lookup v e = Some b).
Proof.
  induction rets as [|r rs IH]; intros bits Hlen Hb v b L.
  - right. split; [intros []|exact L].
  - cbn [map bind_rets lookup] in L. cbn [flat_map] in Hb. rewrite map_app in Hb.
    assert (Hl : length (map rdf (idsf r)) = vbits r) by (rewrite map_length; apply Hlen; left; reflexivity).
    assert (Hf : firstn (vbits r) bits = map rdf (idsf r)).
    { rewrite <- Hb, <- Hl. rewrite firstn_app, Nat.sub_diag, firstn_all. cbn [firstn]. apply app_nil_r. }
    assert (Hs : skipn (vbits r) bits = map rdf (flat_map idsf rs)).
    { rewrite <- Hb, <- Hl. rewrite skipn_app, Nat.sub_diag, skipn_all. reflexivity. }
    destruct (N.eqb v (vid r)) eqn:E.
    + apply N.eqb_eq in E. injection L as <-. left. exists r. split; [left; reflexivity|]. split; [auto|].
      rewrite Hf. rewrite <- Hl. symmetry. apply fill_self.
    + apply N.eqb_neq in E.
      destruct (IH _ (fun r0 H => Hlen r0 (or_intror H)) (eq_sym Hs) v b L) as [(r0 & H1 & H2 & H3)|[H1 H2]].
      * left. exists r0. split; [right; exact H1 | auto].
      * right. split; [|exact H2]. intros [H|H]; [congruence | exact (H1 H)].
Qed.

(* ------------------------------------------------------------------ *)
(** * Circuit.Compute does not depend on input wires no gate reads *)

Section Unread.
  Variable c : circuit.

  (* two wire arrays agree wherever a difference could be observed: everywhere
     except on input wires that no gate reads *)
  Definition agree_read (ws ws' : list bool) : Prop :=
    length ws = length ws' /\
    forall k, (k < ninputs c -> wire_read c k = true) -> nth k ws false = nth k ws' false.

  Lemma wire_read_in g : In g (gates c) ->
    wire_read c (gin0 g) = true /\ (gop g <> INV -> wire_read c (gin1 g) = true).
  Proof.
    intros H. unfold wire_read. split.
    - apply existsb_exists. exists g. split; [exact H|]. rewrite Nat.eqb_refl. reflexivity.
    - intros Hop. apply existsb_exists. exists g. split; [exact H|].
      destruct (gop g); try (rewrite Nat.eqb_refl; apply orb_true_r). exfalso. apply Hop. reflexivity.
  Qed.

  Lemma agree_gate ws ws' g : In g (gates c) -> agree_read ws ws' -> agree_read (eval_gate ws g) (eval_gate ws' g).
  Proof.
    intros Hg [Hl Ha]. destruct (wire_read_in g Hg) as [R0 R1].
    assert (Hv : gate_fn (gop g) (nth (gin0 g) ws false) (nth (gin1 g) ws false)
                 = gate_fn (gop g) (nth (gin0 g) ws' false) (nth (gin1 g) ws' false)).
    { rewrite (Ha (gin0 g) (fun _ => R0)).
      destruct (gop g) eqn:Eo; try (rewrite (Ha (gin1 g) (fun _ => R1 ltac:(discriminate))); reflexivity).
      reflexivity. }
    unfold eval_gate. rewrite Hv. split; [rewrite !upd_length; exact Hl|].
    intros k Hk. destruct (Nat.eq_dec (gout g) k) as [<-|Hne].
    - destruct (Nat.lt_ge_cases (gout g) (length ws)) as [Hlt|Hge].
      + rewrite !nth_upd_eq by (rewrite <- ?Hl; exact Hlt). reflexivity.
      + rewrite !nth_overflow by (rewrite upd_length, <- ?Hl; exact Hge). reflexivity.
    - rewrite !nth_upd_neq by exact Hne. apply Ha, Hk.
  Qed.

  Lemma agree_gates : forall gs ws ws', (forall g, In g gs -> In g (gates c)) -> agree_read ws ws' ->
    agree_read (fold_left eval_gate gs ws) (fold_left eval_gate gs ws').
  Proof.
    induction gs as [|g gs IH]; intros ws ws' Hin Ha; [exact Ha|].
    cbn [fold_left]. apply IH; [intros g0 H0; apply Hin; right; exact H0|].
    apply agree_gate; [apply Hin; left; reflexivity | exact Ha].
  Qed.

  (* For every circuit whose output wires are not input wires and every two
     input vectors of one length that agree on every input wire some gate
     reads: the same outputs. *)
  Theorem eval_plain_unread x x' :
    length x = length x' -> ninputs c + noutputs c <= nwires c ->
    (forall k, k < ninputs c -> wire_read c k = true -> nth k x false = nth k x' false) ->
    eval_plain c x = eval_plain c x'.
  Proof.
    intros Hl Hsep Hx.
    assert (H0 : agree_read (init_wires c x) (init_wires c x')).
    { unfold init_wires. split; [rewrite !app_length, !firstn_length, !repeat_length, Hl; reflexivity|].
      intros k Hk.
      assert (Hfl : length (firstn (ninputs c) x) = length (firstn (ninputs c) x')) by (rewrite !firstn_length, Hl; reflexivity).
      destruct (Nat.lt_ge_cases k (length (firstn (ninputs c) x))) as [Hlt|Hge].
      - rewrite !app_nth1 by (rewrite <- ?Hfl; exact Hlt).
        assert (Hkn : k < ninputs c) by (rewrite firstn_length in Hlt; lia).
        rewrite !nth_firstn_lt by exact Hkn. apply Hx; [exact Hkn | apply Hk, Hkn].
      - rewrite !app_nth2 by (rewrite <- ?Hfl; exact Hge). rewrite <- Hfl.
        destruct (Nat.lt_ge_cases (k - length (firstn (ninputs c) x)) (nwires c - ninputs c)) as [H1|H1].
        + rewrite !nth_repeat. reflexivity.
        + rewrite !nth_overflow by (rewrite repeat_length; exact H1). reflexivity. }
    pose proof (agree_gates (gates c) _ _ (fun g H => H) H0) as [_ Ha].
    unfold eval_plain, eval_plain_wires. apply map_ext_in. intros w Hw.
    apply Ha. intros Hlt. unfold output_wires in Hw. apply in_seq in Hw. lia.
  Qed.

  (* the operands of a step laid out one after the other: two layouts that
     differ only inside operands whose input range no gate reads agree on
     every wire that is read *)
  Lemma blocks_agree (f g : val -> list bool) : forall l off,
    (forall i, length (f i) = vbits i) -> (forall i, length (g i) = vbits i) ->
    (forall j i, nth_error l j = Some i ->
       f i = g i \/ range_unread c (off + sum_bits (firstn j l)) (vbits i) = true) ->
    forall k, wire_read c (off + k) = true ->
      nth k (concat (map f l)) false = nth k (concat (map g l)) false.
  Proof.
    induction l as [|i t IH]; intros off Hf Hg H k Hr; [reflexivity|].
    cbn [map concat].
    destruct (Nat.lt_ge_cases k (vbits i)) as [Hk|Hk].
    - rewrite (app_nth1 (f i)) by (rewrite Hf; exact Hk). rewrite (app_nth1 (g i)) by (rewrite Hg; exact Hk).
      destruct (H 0 i eq_refl) as [E|U]; [rewrite E; reflexivity|].
      exfalso. cbn [firstn] in U. change (sum_bits []) with 0 in U. rewrite Nat.add_0_r in U.
      unfold range_unread in U. rewrite forallb_forall in U.
      assert (Hin : In (off + k) (seq off (vbits i))) by (apply in_seq; lia).
      specialize (U _ Hin). rewrite Hr in U. discriminate.
    - rewrite (app_nth2 (f i)) by (rewrite Hf; exact Hk). rewrite (app_nth2 (g i)) by (rewrite Hg; exact Hk).
      rewrite Hf, Hg. apply (IH (off + vbits i)); auto.
      + intros j i' Hj. destruct (H (S j) i' Hj) as [E|U]; [auto|right].
        cbn [firstn] in U. change (sum_bits (i :: firstn j t)) with (vbits i + sum_bits (firstn j t)) in U.
        rewrite Nat.add_assoc in U. exact U.
      + replace (off + vbits i + (k - vbits i)) with (off + k) by lia. exact Hr.
  Qed.
End Unread.

(* non-vacuity of the unread-operand exception: a two-input circuit whose
   second input no gate reads *)
Example range_unread_ex :
  let c := mkCircuit 3 2 1 [mkGate 0 0 2 INV] in
  range_unread c 1 1 = true /\ range_unread c 0 1 = false /\
  eval_plain c [true; false] = eval_plain c [true; true].
Proof. vm_compute. repeat split. Qed.
