(* StreamSimProof.v — groundwork for the whole-run simulation (C05_stream_sim):
   the allocator trajectory that no_premature_reuse / C05_gc_sound talk about
   ([wstep]) is exactly what Program.Stream's step loop ([stream_step]) does to
   its wire allocator, whatever the values on the wires are; and the rewiring
   of an alias step depends only on the operands in value positions. *)
From Coq Require Import NArith ZArith List Bool Arith Lia.
From Mpc Require Import Circuit.Circuit Lang.Gc Lang.GcProof Proto.Stream.
Import ListNotations.
Local Open Scope nat_scope.

Lemma vgarble_w st step c ins outs :
  ss_w (vgarble st step c ins outs) = ss_w st /\ ss_zero (vgarble st step c ins outs) = ss_zero st.
Proof. unfold vgarble. destruct (garble_circ_bits (ss_cs st) c ins outs). split; reflexivity. Qed.

Theorem stream_step_w circs idx s st :
  match stream_step circs idx s st with
  | Some st' => wstep circs (ss_zero st) s (ss_w st) = Some (ss_w st') /\ ss_zero st' = ss_zero st
  | None => wstep circs (ss_zero st) s (ss_w st) = None
  end.
Proof.
  unfold stream_step, wstep.
  destruct (operand_ids (ss_w st) (ss_zero st) (iin s)) as [wires w1].
  destruct (match iout s with Some o => assigned_ids w1 (vid o) (vbits o) | None => ([], w1) end) as [out w2].
  destruct (iop s).
  all: try (destruct (iout s) as [o|]; [|reflexivity];
            destruct (alias_ids N (ss_zero st) _ wires (map vcint (iin s)) out (vbits o)); [|reflexivity];
            split; reflexivity).
  - split; reflexivity.
  - destruct (circ_out_ids w2 (ss_zero st) (cc_outs (nth (icirc s) circs cc0)) (iret s)) as [oIDs w3].
    match goal with |- context [vgarble ?a ?b ?c ?d ?e] =>
      destruct (vgarble_w a b c d e) as [V1 V2]; rewrite V1, V2 end.
    split; reflexivity.
  - destruct (igc s) as [v|]; [|reflexivity]. destruct (gc_wires w2 (vid v)); [split; reflexivity | reflexivity].
  - match goal with |- context [vgarble ?a ?b ?c ?d ?e] =>
      destruct (vgarble_w a b c d e) as [V1 V2]; rewrite V1, V2 end.
    split; reflexivity.
Qed.

(* the whole run: the allocator after stream_steps is the allocator after the
   same steps through wstep *)
Fixpoint wsteps (circs : list ccirc) (zero : N) (steps : list instr) (w : walloc) : option walloc :=
  match steps with
  | [] => Some w
  | s :: rest => match wstep circs zero s w with Some w' => wsteps circs zero rest w' | None => None end
  end.

Theorem stream_steps_w circs : forall steps idx st,
  match stream_steps circs idx steps st with
  | Some st' => wsteps circs (ss_zero st) steps (ss_w st) = Some (ss_w st')
  | None => wsteps circs (ss_zero st) steps (ss_w st) = None
  end.
Proof.
  induction steps as [|s rest IH]; intros idx st; [reflexivity|].
  cbn [stream_steps wsteps]. pose proof (stream_step_w circs idx s st) as H.
  destruct (stream_step circs idx s st) as [st'|].
  - destruct H as [H1 H2]. rewrite H1. specialize (IH (S idx) st'). rewrite H2 in IH. exact IH.
  - rewrite H. reflexivity.
Qed.

(* an alias step reads only the operands in its value positions *)
Lemma alias_ids_positions {A} (z : A) o ins ins' cs old obits :
  (forall j, In j (value_positions o (length ins)) -> nth j ins [] = nth j ins' []) ->
  is_alias_op o = true ->
  alias_ids A z o ins cs old obits = alias_ids A z o ins' cs old obits.
Proof.
  intros H Hop. unfold alias_ids.
  destruct o; try discriminate; cbn [value_positions] in H;
    try (rewrite (H 0 (or_introl eq_refl)));
    try (rewrite (H 1 (or_intror (or_introl eq_refl))));
    reflexivity.
Qed.


(* ------------------------------------------------------------------ *)
(** * A cache that passes the memo check is invisible *)
Section MemoProof.
  Variables (S C : Type) (seqb : S -> S -> bool) (gen : S -> C).
  Hypothesis seqb_eq : forall a b, seqb a b = true -> a = b.

  Lemma lookup_map_gen k (seen : list (N * S)) :
    lookup k (map (fun q => (fst q, gen (snd q))) seen) = option_map gen (lookup k seen).
  Proof.
    induction seen as [|[k2 sh2] t IH]; [reflexivity|]. cbn [map lookup fst snd].
    destruct (N.eqb k k2); [reflexivity | exact IH].
  Qed.

  Lemma memo_run : forall l seen, memo_ok S seqb l seen = true ->
    cached_run S C gen l (map (fun q => (fst q, gen (snd q))) seen) = map (fun q => gen (snd q)) l.
  Proof.
    induction l as [|[k sh] t IH]; intros seen H; [reflexivity|].
    cbn [memo_ok cached_run map snd] in *. rewrite lookup_map_gen.
    destruct (lookup k seen) as [sh0|]; cbn [option_map].
    - apply andb_prop in H as [H1 H2]. apply seqb_eq in H1. subst sh0. f_equal. apply IH, H2.
    - f_equal. apply (IH ((k, sh) :: seen) H).
  Qed.
End MemoProof.

Lemma list_nat_eqb_eq : forall a b, list_nat_eqb a b = true -> a = b.
Proof.
  induction a as [|x a IH]; intros [|y b] H; try discriminate; [reflexivity|].
  simpl in H. apply andb_prop in H as [H1 H2]. apply Nat.eqb_eq in H1. subst. f_equal. apply IH, H2.
Qed.

Lemma shape_eqb_eq a b : shape_eqb a b = true -> a = b.
Proof.
  destruct a as [[[o1 i1] r1] c1]. destruct b as [[[o2 i2] r2] c2]. unfold shape_eqb. intros H.
  apply andb_prop in H as [H H4]. apply andb_prop in H as [H H3]. apply andb_prop in H as [H1 H2].
  apply Z.eqb_eq in H1. apply list_nat_eqb_eq in H2. apply Nat.eqb_eq in H3. apply Z.eqb_eq in H4. subst. reflexivity.
Qed.

(* For every circuit generator (any function of the shape) and every list of
   (cache key, shape) pairs that passes the executable memo check: the
   circuits the cached streamer uses are, step by step, the circuits the
   generator produces without a cache. *)
Theorem cache_is_memo (C : Type) (gen : shape -> C) (l : list (N * shape)) :
  memo_ok shape shape_eqb l [] = true ->
  cached_run shape C gen l [] = map (fun q => gen (snd q)) l.
Proof. intros H. exact (memo_run shape C shape_eqb gen shape_eqb_eq l [] H). Qed.
