(* StreamSimProof.v — groundwork for the whole-run simulation (C05_stream_sim):
   the allocator trajectory that no_premature_reuse / C05_gc_sound talk about
   ([wstep]) is exactly what Program.Stream's step loop ([stream_step]) does to
   its wire allocator, whatever the values on the wires are; and the rewiring
   of an alias step depends only on the operands in value positions. *)
From Coq Require Import NArith ZArith List Bool Arith Lia.
From Mpc Require Import Circuit.Circuit Lang.Gc Lang.GcProof Proto.Stream.
Import ListNotations.
Local Open Scope nat_scope.

Lemma vgarble_w st step c ins outs :
  ss_w (vgarble st step c ins outs) = ss_w st /\ ss_zero (vgarble st step c ins outs) = ss_zero st.
Proof. unfold vgarble. destruct (garble_circ_bits (ss_cs st) c ins outs). split; reflexivity. Qed.

Theorem stream_step_w circs idx s st :
  match stream_step circs idx s st with
  | Some st' => wstep circs (ss_zero st) s (ss_w st) = Some (ss_w st') /\ ss_zero st' = ss_zero st
  | None => wstep circs (ss_zero st) s (ss_w st) = None
  end.
Proof.
  unfold stream_step, wstep.
  destruct (operand_ids (ss_w st) (ss_zero st) (iin s)) as [wires w1].
  destruct (match iout s with Some o => assigned_ids w1 (vid o) (vbits o) | None => ([], w1) end) as [out w2].
  destruct (iop s).
  all: try (destruct (iout s) as [o|]; [|reflexivity];
            destruct (alias_ids N (ss_zero st) _ wires (map vcint (iin s)) out (vbits o)); [|reflexivity];
            split; reflexivity).
  - split; reflexivity.
  - destruct (circ_out_ids w2 (ss_zero st) (cc_outs (nth (icirc s) circs cc0)) (iret s)) as [oIDs w3].
    match goal with |- context [vgarble ?a ?b ?c ?d ?e] =>
      destruct (vgarble_w a b c d e) as [V1 V2]; rewrite V1, V2 end.
    split; reflexivity.
  - destruct (igc s) as [v|]; [|reflexivity]. destruct (gc_wires w2 (vid v)); [split; reflexivity | reflexivity].
  - match goal with |- context [vgarble ?a ?b ?c ?d ?e] =>
      destruct (vgarble_w a b c d e) as [V1 V2]; rewrite V1, V2 end.
    split; reflexivity.
Qed.

(* the whole run: the allocator after stream_steps is the allocator after the
   same steps through wstep *)
Fixpoint wsteps (circs : list ccirc) (zero : N) (steps : list instr) (w : walloc) : option walloc :=
  match steps with
  | [] => Some w
  | s :: rest => match wstep circs zero s w with Some w' => wsteps circs zero rest w' | None => None end
  end.

Theorem stream_steps_w circs : forall steps idx st,
  match stream_steps circs idx steps st with
  | Some st' => wsteps circs (ss_zero st) steps (ss_w st) = Some (ss_w st')
  | None => wsteps circs (ss_zero st) steps (ss_w st) = None
  end.
Proof.
  induction steps as [|s rest IH]; intros idx st; [reflexivity|].
  cbn [stream_steps wsteps]. pose proof (stream_step_w circs idx s st) as H.
  destruct (stream_step circs idx s st) as [st'|].
  - destruct H as [H1 H2]. rewrite H1. specialize (IH (S idx) st'). rewrite H2 in IH. exact IH.
  - rewrite H. reflexivity.
Qed.

(* an alias step reads only the operands in its value positions *)
Lemma alias_ids_positions {A} (z : A) o ins ins' cs old obits :
  (forall j, In j (value_positions o (length ins)) -> nth j ins [] = nth j ins' []) ->
  is_alias_op o = true ->
  alias_ids A z o ins cs old obits = alias_ids A z o ins' cs old obits.
Proof.
  intros H Hop. unfold alias_ids.
  destruct o; try discriminate; cbn [value_positions] in H;
    try (rewrite (H 0 (or_introl eq_refl)));
    try (rewrite (H 1 (or_intror (or_introl eq_refl))));
    reflexivity.
Qed.
