(* Mesh.v — executable small-step model of p2p mesh formation
   (/repo/p2p/network.go, /repo/p2p/peer.go) for n parties and k connections
   per pair.  NO PROOFS in this file (see MeshProof.v).

   Time is not modelled: a schedule is an interleaving of atomic steps and may
   leave any delay between two steps.  The implementation's mesh-formation
   path must therefore be free of timers (deadlines, timeouts); harness c19
   checks this on the source (c19scan.go) and by late-start scenarios.

   Threads.  Party i has a main thread (tid 2i: Create/Join + Connect) and an
   accept thread (tid 2i+1: accept()/acceptLoop()/acceptConn()).  A schedule is
   a list of thread ids; a thread that is not enabled (blocked in c.Wait(),
   blocked reading from a connection, not started, finished) stutters.

   Shared state per party, as network.go keeps it:
     NumParties, need[], Peers (the sorted slice, kept here as the sorted list
     of peer ids), Peers[j].Conns[c] (kept as a function id -> c -> option link;
     the slice length is not modelled: a slot beyond len(Conns) and a nil slot
     are both [None]), listenerDone, the listener backlog (queue of dialled,
     not yet accepted connections, in dial order).
   Network: links are numbered in dial order; a link record carries the hello
   message (connID from the low byte of the magic, sender id; Addr is the
   party's identity and is not modelled separately) once it has been sent, and
   the network-info message the leader writes on it.

   Atomic steps = the lock-delimited regions of network.go; code between two
   regions that touches only goroutine-local data is merged into the
   neighbouring step:
     main, leader : MStart  Connect: lock; need[i] = NumParties-1; go accept(); unlock
                    MWait c connectLeader: lock; wait need[c]==0 || listenerDone; unlock
                    MInfo   connectLeader, connID 0: the unlocked loop over nw.Peers that
                            sends the network info (ONE step: a snapshot of nw.Peers taken
                            after the wait returned; the real loop reads nw.Peers several
                            times without the lock)
     main, peer j : MStart  Join: Listen; newNetwork(j+1,..); Dial(leader); addPeer(leader, conn)
                    MHello  connectPeerToLeader, first half: hello on leader.Conns[0]
                    MRecvInfo  second half: receive the peer list; NumParties = 2+n;
                            addPeer each; need[*] = numAccept; go accept()  (no other
                            thread of this party exists before that)
                    MDial c (t :: ts)  dial(t, c): net.Dial, hello, peer.SetConn(c, conn)
                    MWait c connectPeer: lock; wait need[c]==0 || listenerDone; unlock
     accept thread ([fixed = true], the code as it is NOW, /repo commit 753a572):
                    AIdle   Accept() + the three Receive of acceptConn + the connID range
                            check + peer := &Peer{..}; peer.SetConn(c, conn) (all
                            goroutine-local; the verifYield site
                            "acceptConn:before-register" follows)
                    ASet    ONE region under nw.m: need[c]==0 -> error; addPeerLocked(peer)
                            (known id -> old.SetConn(c, conn) | new id -> append + sort);
                            need[c]--; Broadcast
   so need[c] can only reach 0 in the same atomic step that stores the last
   connection c.

   [fixed = false] is the acceptConn of the code BEFORE commit 753a572, kept as
   a regression record (finding F11): AIdle additionally ran the region
   "need[c]==0 -> error; need[c]--; Broadcast", ASet was the goroutine-local
   SetConn and a third step AAdd ran addPeer: need[c] was published before the
   connection was stored.  run_c19 uses [true]. *)
From Coq Require Import Arith List Bool PeanoNat.
Import ListNotations.

Record linkrec := mkLink {
  l_from  : nat;                       (* dialler *)
  l_to    : nat;                       (* listener *)
  l_hello : option (nat * nat);        (* (connID, sender id) once sent *)
  l_info  : option (list nat)          (* network info written by the leader *)
}.

Inductive mpc :=
| MStart
| MHello
| MRecvInfo
| MDial (c : nat) (targets : list nat)
| MWait (c : nat)
| MInfo
| MDone
| MErr (code : nat).

Inductive apc :=
| AOff
| AIdle
| ASet (l c id : nat)
| AAdd (l c id : nat)
| ADead (code : nat).

Definition table := nat -> nat -> option nat.     (* peer id -> connID -> link *)

Record party := mkParty {
  p_np    : nat;                       (* NumParties *)
  p_need  : nat -> nat;                (* need[] *)
  p_peers : list nat;                  (* Peers, sorted ids *)
  p_conns : table;                     (* Peers[id].Conns[c] *)
  p_main  : mpc;
  p_acc   : apc;
  p_queue : list nat;                  (* listener backlog *)
  p_ldone : bool;                      (* listenerDone *)
  p_ret   : option (list nat * table)  (* table when Connect returned nil *)
}.

Record state := mkState {
  g_party  : nat -> party;
  g_link   : nat -> linkrec;
  g_nlinks : nat
}.

(* ---- small helpers *)
Definition upd {A} (f : nat -> A) (i : nat) (v : A) : nat -> A :=
  fun x => if x =? i then v else f x.

Definition set_conn (t : table) (id c l : nat) : table :=
  upd t id (upd (t id) c (Some l)).

Fixpoint insert_sorted (x : nat) (l : list nat) : list nat :=
  match l with
  | [] => [x]
  | y :: r => if x <? y then x :: l else if x =? y then l else y :: insert_sorted x r
  end.

Definition memb (x : nat) (l : list nat) : bool := existsb (Nat.eqb x) l.

Definition set_main (p : party) (m : mpc) : party :=
  mkParty (p_np p) (p_need p) (p_peers p) (p_conns p) m (p_acc p) (p_queue p) (p_ldone p) (p_ret p).
Definition set_acc (p : party) (a : apc) : party :=
  mkParty (p_np p) (p_need p) (p_peers p) (p_conns p) (p_main p) a (p_queue p) (p_ldone p) (p_ret p).
Definition set_queue (p : party) (q : list nat) : party :=
  mkParty (p_np p) (p_need p) (p_peers p) (p_conns p) (p_main p) (p_acc p) q (p_ldone p) (p_ret p).
Definition set_need (p : party) (nd : nat -> nat) : party :=
  mkParty (p_np p) nd (p_peers p) (p_conns p) (p_main p) (p_acc p) (p_queue p) (p_ldone p) (p_ret p).
Definition set_tab (p : party) (ps : list nat) (t : table) : party :=
  mkParty (p_np p) (p_need p) ps t (p_main p) (p_acc p) (p_queue p) (p_ldone p) (p_ret p).
Definition set_np (p : party) (np : nat) : party :=
  mkParty np (p_need p) (p_peers p) (p_conns p) (p_main p) (p_acc p) (p_queue p) (p_ldone p) (p_ret p).
(* the accept goroutine ends: accept() sets listenerDone and broadcasts *)
Definition acc_dead (p : party) (code : nat) : party :=
  mkParty (p_np p) (p_need p) (p_peers p) (p_conns p) (p_main p) (ADead code) (p_queue p) true (p_ret p).
(* Connect returns nil: remember the table the caller sees at that moment *)
Definition main_done (p : party) : party :=
  mkParty (p_np p) (p_need p) (p_peers p) (p_conns p) MDone (p_acc p) (p_queue p) (p_ldone p)
          (Some (p_peers p, p_conns p)).

Definition set_party (st : state) (i : nat) (p : party) : state :=
  mkState (upd (g_party st) i p) (g_link st) (g_nlinks st).

(* net.Dial: a new link from [i] to [t] is queued at [t]'s listener *)
Definition new_link (st : state) (i t : nat) (hello : option (nat * nat)) : state * nat :=
  let l := g_nlinks st in
  let pt := g_party st t in
  (mkState (upd (g_party st) t (set_queue pt (p_queue pt ++ [l])))
           (upd (g_link st) l (mkLink i t hello None))
           (S l), l).

Definition set_hello (st : state) (l : nat) (h : nat * nat) : state :=
  let r := g_link st l in
  mkState (g_party st) (upd (g_link st) l (mkLink (l_from r) (l_to r) (Some h) (l_info r))) (g_nlinks st).
Definition set_info (st : state) (l : nat) (ids : list nat) : state :=
  let r := g_link st l in
  mkState (g_party st) (upd (g_link st) l (mkLink (l_from r) (l_to r) (l_hello r) (Some ids))) (g_nlinks st).

(* ---- initial state: Create(addr, n, k) has run at the leader; the other
   parties have not called Join yet *)
Definition no_conns : table := fun _ _ => None.
Definition init_party (n i : nat) : party :=
  if i =? 0
  then mkParty n (fun _ => 0) [0] no_conns MStart AOff [] false None
  else mkParty 0 (fun _ => 0) [] no_conns MStart AOff [] false None.
Definition init (n : nat) : state :=
  mkState (init_party n) (fun _ => mkLink 0 0 None None) 0.

(* connectPeer: for _, peer := range nw.Peers { skip leader when connID = 0,
   skip ids <= self } — the dial targets of connection id c *)
Definition targets (self c : nat) (peers : list nat) : list nat :=
  filter (fun id => if id =? 0 then negb (c =? 0) else self <? id) peers.

(* where the main thread goes after the wait for connection id c succeeded *)
Definition next_conn (k i c : nat) (p : party) : party :=
  if S c <? k
  then (if i =? 0 then set_main p (MWait (S c))
        else set_main p (MDial (S c) (targets i (S c) (p_peers p))))
  else main_done p.

(* connectPeerToLeader: the addPeer loop over the received ids.  None = an
   addPeer returned "invalid peer ID". *)
Fixpoint add_ids (np : nat) (ids : list nat) (peers : list nat) : option (list nat) :=
  match ids with
  | [] => Some peers
  | id :: r => if np <=? id then None else add_ids np r (insert_sorted id peers)
  end.

(* connectLeader: send the network info on Conns[0] of every peer in [ps];
   None = a nil Conns[0] was dereferenced *)
Fixpoint send_infos (st : state) (tab : table) (all ps : list nat) : option state :=
  match ps with
  | [] => Some st
  | j :: r =>
      if j =? 0 then send_infos st tab all r
      else match tab j 0 with
           | None => None
           | Some l =>
               send_infos (set_info st l (filter (fun x => negb (x =? 0) && negb (x =? j)) all)) tab all r
           end
  end.

Section Step.
Variable fixed : bool.
Variables n k : nat.

(* one step of party i's main thread; None = not enabled *)
Definition main_step (i : nat) (st : state) : option state :=
  let p := g_party st i in
  match p_main p with
  | MStart =>
      if i =? 0 then
        (* Connect, leader *)
        Some (set_party st i
               (set_main (set_acc (set_need p (fun c => if c <? k then p_np p - 1 else 0)) AIdle) (MWait 0)))
      else
        (* Join *)
        let '(st1, l) := new_link st i 0 None in
        let p1 := g_party st1 i in
        Some (set_party st1 i
               (set_main (set_tab (set_np p1 (S i)) (insert_sorted 0 [i]) (set_conn no_conns 0 0 l)) MHello))
  | MHello =>
      match p_conns p 0 0 with
      | None => Some (set_party st i (set_main p (MErr 1)))
      | Some l => Some (set_party (set_hello st l (0, i)) i (set_main p MRecvInfo))
      end
  | MRecvInfo =>
      match p_conns p 0 0 with
      | None => Some (set_party st i (set_main p (MErr 1)))
      | Some l =>
          match l_info (g_link st l) with
          | None => None                          (* blocked in ReceiveUint32 *)
          | Some ids =>
              let np := 2 + length ids in
              match add_ids np ids (p_peers p) with
              | None => Some (set_party st i (set_main (set_np p np) (MErr 2)))
              | Some ps =>
                  let na := length (filter (fun id => id <? i) ids) in
                  let p1 := set_need (set_tab (set_np p np) ps (p_conns p))
                                     (fun c => if c <? k then na else 0) in
                  Some (set_party st i (set_main (set_acc p1 AIdle) (MDial 0 (targets i 0 ps))))
              end
          end
      end
  | MDial c [] => Some (set_party st i (set_main p (MWait c)))
  | MDial c (t :: ts) =>
      if 255 <? c then Some (set_party st i (set_main p (MErr 4)))      (* connID > 0xff *)
      else if n <=? t then Some (set_party st i (set_main p (MErr 7)))  (* nobody listens there *)
      else
        let '(st1, l) := new_link st i t (Some (c, i)) in
        let p1 := g_party st1 i in
        match p_conns p1 t c with
        | Some _ => Some (set_party st1 i (set_main p1 (MErr 3)))        (* connection already set *)
        | None => Some (set_party st1 i
                         (set_main (set_tab p1 (p_peers p1) (set_conn (p_conns p1) t c l)) (MDial c ts)))
        end
  | MWait c =>
      if (p_need p c =? 0) || p_ldone p then
        if (p_need p c =? 0) && negb (p_ldone p) then
          if (i =? 0) && (c =? 0) then Some (set_party st i (set_main p MInfo))
          else Some (set_party st i (next_conn k i c p))
        else Some (set_party st i (set_main p (MErr 5)))                  (* listenerError *)
      else None
  | MInfo =>
      match send_infos st (p_conns p) (p_peers p) (p_peers p) with
      | None => Some (set_party st i (set_main p (MErr 6)))
      | Some st1 => Some (set_party st1 i (next_conn k i 0 (g_party st1 i)))
      end
  | MDone | MErr _ => None
  end.

(* addPeer(peer) for a peer carrying exactly Conns[c] = l *)
Definition add_peer (p : party) (id c l : nat) : option party :=
  if p_np p <=? id then None
  else if memb id (p_peers p) then
         match p_conns p id c with
         | Some _ => None                                             (* already set *)
         | None => Some (set_tab p (p_peers p) (set_conn (p_conns p) id c l))
         end
       else Some (set_tab p (insert_sorted id (p_peers p))
                          (upd (p_conns p) id (upd (fun _ => None) c (Some l)))).

(* one step of party i's accept thread *)
Definition acc_step (i : nat) (st : state) : option state :=
  let p := g_party st i in
  match p_acc p with
  | AOff | ADead _ => None
  | AIdle =>
      match p_queue p with
      | [] => None                                    (* blocked in Accept *)
      | l :: q =>
          match l_hello (g_link st l) with
          | None => None                              (* blocked in ReceiveUint32 *)
          | Some (c, id) =>
              let p1 := set_queue p q in
              if k <=? c then Some (set_party st i (acc_dead p1 1))
              else if fixed then Some (set_party st i (set_acc p1 (ASet l c id)))
              else if p_need p1 c =? 0 then Some (set_party st i (acc_dead p1 2))
              else Some (set_party st i
                          (set_acc (set_need p1 (upd (p_need p1) c (p_need p1 c - 1))) (ASet l c id)))
          end
      end
  | ASet l c id =>
      if fixed then
        if p_need p c =? 0 then Some (set_party st i (acc_dead p 2))
        else match add_peer p id c l with
             | None => Some (set_party st i (acc_dead p 3))
             | Some p1 =>
                 Some (set_party st i (set_acc (set_need p1 (upd (p_need p1) c (p_need p1 c - 1))) AIdle))
             end
      else Some (set_party st i (set_acc p (AAdd l c id)))
  | AAdd l c id =>
      match add_peer p id c l with
      | None => Some (set_party st i (acc_dead p 3))
      | Some p1 => Some (set_party st i (set_acc p1 AIdle))
      end
  end.

Definition step (t : nat) (st : state) : option state :=
  let i := Nat.div2 t in
  if n <=? i then None
  else if Nat.even t then main_step i st else acc_step i st.

Definition enabled (t : nat) (st : state) : bool :=
  match step t st with Some _ => true | None => false end.

Definition exec (st : state) (t : nat) : state :=
  match step t st with Some st' => st' | None => st end.

Definition run_from (st : state) (sched : list nat) : state := fold_left exec sched st.

(* ---- verdicts *)
Definition tids : list nat := seq 0 (2 * n).

Definition quiescent (st : state) : bool := forallb (fun t => negb (enabled t st)) tids.

Definition party_done (p : party) : bool :=
  match p_main p, p_acc p with
  | MDone, AIdle => match p_queue p with [] => true | _ => false end
  | _, _ => false
  end.
Definition all_done (st : state) : bool := forallb (fun i => party_done (g_party st i)) (seq 0 n).

Definition main_returned (p : party) : bool := match p_main p with MDone => true | _ => false end.

(* the table a caller sees is complete: every other party is a peer and all
   k connections to it are set *)
Definition tab_complete (i : nat) (ps : list nat) (t : table) : bool :=
  (if list_eq_dec Nat.eq_dec ps (seq 0 n) then true else false) &&
  forallb (fun j => (j =? i) || forallb (fun c => match t j c with Some _ => true | None => false end) (seq 0 k))
          (seq 0 n).

(* the c-th connection to j at party i is the c-th connection to i at party j *)
Definition tabs_consistent (st : state) : bool :=
  forallb (fun i => forallb (fun j => (i =? j) || forallb (fun c =>
     match p_conns (g_party st i) j c, p_conns (g_party st j) i c with
     | Some l, Some l' => l =? l'
     | _, _ => false
     end) (seq 0 k)) (seq 0 n)) (seq 0 n).

Definition ret_complete (st : state) : bool :=
  forallb (fun i => match p_ret (g_party st i) with
                    | Some (ps, t) => tab_complete i ps t
                    | None => false end) (seq 0 n).

Definition complete (st : state) : bool :=
  all_done st && ret_complete st &&
  forallb (fun i => tab_complete i (p_peers (g_party st i)) (p_conns (g_party st i))) (seq 0 n) &&
  tabs_consistent st.

Inductive result := Final (st : state) | Stuck (st : state).

Definition run_mesh (sched : list nat) : result :=
  let st := run_from (init n) sched in
  if complete st then Final st else Stuck st.

(* ---- a deterministic scheduler used for the canonical run and for the
   hook-driven replays: accept threads have priority over main threads (an
   accepted connection is processed to the end before any Connect continues:
   the common case in the real runs), lowest party first, except that the
   accept thread that has just reached the verifYield site for the [freeze]-th
   time (counted over all parties, 1-based; 0 = never) is not scheduled while
   any other thread is enabled. *)
Definition prio_tids : list nat := map (fun i => 2 * i + 1) (seq 0 n) ++ map (fun i => 2 * i) (seq 0 n).

Definition in_window (p : party) : bool := match p_acc p with ASet _ _ _ => true | _ => false end.

Fixpoint first_enabled (st : state) (skip : option nat) (ts : list nat) : option nat :=
  match ts with
  | [] => None
  | t :: r =>
      if (match skip with Some s => s =? t | None => false end) then first_enabled st skip r
      else if enabled t st then Some t else first_enabled st skip r
  end.

Fixpoint policy (fuel freeze count : nat) (frozen : option nat) (st : state) (acc : list nat)
  : list nat * state :=
  match fuel with
  | O => (rev acc, st)
  | S f =>
      match first_enabled st frozen prio_tids with
      | Some t =>
          let st' := exec st t in
          let entered := Nat.odd t && in_window (g_party st' (Nat.div2 t))
                         && negb (in_window (g_party st (Nat.div2 t))) in
          let count' := if entered then S count else count in
          let frozen' := if entered && (count' =? freeze) && negb (freeze =? 0) then Some t else frozen in
          policy f freeze count' frozen' st' (t :: acc)
      | None =>
          match frozen with
          | Some t => policy f freeze count None st acc        (* release the blocked goroutine *)
          | None => (rev acc, st)
          end
      end
  end.

(* [order] = the order in which the non-leader parties call Join (their
   first main-thread step; it fixes the leader's listener backlog order) *)
Definition policy_sched (order : list nat) (freeze : nat) : list nat :=
  let pre := map (fun j => 2 * j) order in
  pre ++ fst (policy (100 + 40 * n * n * k) freeze 0 None (run_from (init n) pre) []).

End Step.
