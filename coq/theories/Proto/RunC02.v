(* RunC02.v — executable entry of the session model for C02.
   input  = ((key bytes) (nwires ninputs noutputs) (gates...) (n0 n1) (output sizes...)
             (rnd labels...) (x bits) (y bits))
   output = (status (garbler results...) (evaluator results...) prefix)
   where prefix = the garbler->evaluator bytes up to the OT segment as one
   big-endian integer with a leading 1 byte. *)
From Coq Require Import ZArith NArith List Bool.
From Mpc Require Import Base.Sx Base.Label Base.Aes Base.Codec Circuit.Circuit Circuit.Garble
     Circuit.RunC01 Proto.Session.
Import ListNotations.

Definition pi_aes (key : list N) : N -> N := aes_pi (aes_schedule key).

Definition circ2_of_sx (inp : sx) : circ2 :=
  mkCirc2 (circuit_of_sx (nthx 1 inp) (nthx 2 inp))
          (getnat (nthx 0 (nthx 3 inp))) (getnat (nthx 1 (nthx 3 inp)))
          (getLnat (nthx 4 inp)).

Definition run_c02 (inp : sx) : sx :=
  let key := getLN (nthx 0 inp) in
  let c := circ2_of_sx inp in
  let rl := getLN (nthx 5 inp) in
  let rnd := fun i => nth i rl 0%N in
  let x := getLB (nthx 6 inp) in
  let y := getLB (nthx 7 inp) in
  match run_session pi_aes ideal_ot rnd key [] c x y with
  | Err w => SL [SZ (-1); ofnat w]
  | Ok gr er g2e e2g =>
      let first := firstn (length g2e - 1) g2e in
      SL [SZ 0; ofLN gr; ofLN er; ofN (of_be (1%N :: enc_msgs first))]
  end.
