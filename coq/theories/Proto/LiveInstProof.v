(* LiveInstProof.v — the checker accepts the skeletons GENERATED from the
   current source (Gen/Skel.v), for each OT kind; hence (LiveProof.v) every
   session terminates.  The instances are finite objects: vm_compute. *)
From Coq Require Import List Bool.
From Mpc Require Import Proto.Live Proto.LiveProof Gen.Skel Proto.LiveInst.
Import ListNotations.

(* the translator classified every statement that touches the connection *)
Lemma skel_translator_clean : skel_gen_errors = [].
Proof. vm_compute. reflexivity. Qed.

Lemma live_co : well_flushed (garbler_skel KCo) (evaluator_skel KCo) = true.
Proof. vm_compute. reflexivity. Qed.
Lemma live_rsa : well_flushed (garbler_skel KRsa) (evaluator_skel KRsa) = true.
Proof. vm_compute. reflexivity. Qed.
Lemma live_cot : well_flushed (garbler_skel KCot) (evaluator_skel KCot) = true.
Proof. vm_compute. reflexivity. Qed.
Lemma live_cot_malicious : well_flushed (garbler_skel KCotMalicious) (evaluator_skel KCotMalicious) = true.
Proof. vm_compute. reflexivity. Qed.

Definition terminates (k : otkind) : Prop :=
  forall (en : env) (sched : list choice),
    fair (garbler_skel k) (evaluator_skel k) en sched ->
    run_live (garbler_skel k) (evaluator_skel k) en sched = Done.

Lemma session_terminates_co : terminates KCo.
Proof. exact (well_flushed_live _ _ live_co). Qed.
Lemma session_terminates_rsa : terminates KRsa.
Proof. exact (well_flushed_live _ _ live_rsa). Qed.
Lemma session_terminates_cot : terminates KCot.
Proof. exact (well_flushed_live _ _ live_cot). Qed.
Lemma session_terminates_cot_malicious : terminates KCotMalicious.
Proof. exact (well_flushed_live _ _ live_cot_malicious). Qed.

(* non-vacuity: the skeletons do communicate, and fair schedules exist *)
Definition sample_env : env :=
  mkEnv (fun l _ => if name_eqb l "gates"%nm then 3 else 2) (fun _ _ => false).
Example sample_round_bound :
  forallb (fun k => Nat.ltb 20 (round_bound (garbler_skel k) (evaluator_skel k) sample_env))
          [KCo; KRsa; KCot; KCotMalicious] = true.
Proof. vm_compute. reflexivity. Qed.
