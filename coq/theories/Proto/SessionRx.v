(* SessionRx.v — the garbler's receive path (circuit/garbler.go) at the BYTE
   level: what it reads from the connection is an arbitrary byte stream (the
   peer, or whoever sits on the wire, controls every byte of it), read through
   p2p.Conn (model: Proto/Conn.v, property C11) under an arbitrary
   fragmentation.  No proofs here.
     offset, err := conn.ReceiveUint32(); count, err := conn.ReceiveUint32()
     ... OT ...
     for i := 0; i < circ.Outputs.Size(); i++ { conn.ReceiveLabel(&label, ...) ; BitFromLabel } *)
From Coq Require Import NArith List Bool.
From Mpc Require Import Base.Label Base.Codec Circuit.Circuit Circuit.Garble Proto.Session Proto.Conn.
Import ListNotations.
Open Scope N_scope.

Definition label_of_val (v : val) : N := match v with VLabel l => l | _ => 0 end.

(* the OT query: Some true = the range is accepted, Some false = "wrong offset/count"
   error, None = the connection ended first *)
Definition garbler_rx_query (rcap : N) (c : circ2) (r : receiver) : receiver * option bool :=
  match recv_all rcap [TU32; TU32] r with
  | (r', Some [VU32 off; VU32 cnt]) => (r', Some (garbler_range_ok c off cnt))
  | (r', _) => (r', None)
  end.

(* the result loop: noutputs labels, each decoded against its output wire *)
Definition garbler_rx_result (rcap : N) (c : circ2) (g : garbled) (r : receiver)
  : receiver * option (list bool) :=
  match recv_all rcap (repeat TLabel (noutputs (cc c))) r with
  | (r', Some vs) => (r', garbler_finish c g (map label_of_val vs))
  | (r', None) => (r', None)
  end.

(* the i-th 16-byte block of a byte string as a label *)
Definition block16 (i : nat) (bs : list N) : N := of_be (firstn 16 (skipn (16 * i) bs)).
