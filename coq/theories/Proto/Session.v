(* Session.v — executable model of the two-party garbled-circuit session:
   circuit.Garbler (circuit/garbler.go) and circuit.Evaluator
   (circuit/evaluator.go), at the level of typed messages on a FIFO channel
   (the byte level is p2p.Conn, property C11).  The oblivious transfer is a
   parameter (ideal functionality, property C06).  No proofs here. *)
From Coq Require Import NArith List Bool Arith.
From Mpc Require Import Base.Label Base.Codec Circuit.Circuit Circuit.Garble.
Import ListNotations.
Open Scope N_scope.

Inductive msg := MData (bs : list N) | MU32 (n : N) | MLabel (l : N).

(* p2p.Conn wire formats: SendData = uint32 length + bytes, SendUint32 =
   4 bytes big endian (value truncated to uint32), SendLabel = 16 bytes BE *)
Definition enc_msg (m : msg) : list N :=
  match m with
  | MData bs => be 4 (N.of_nat (length bs)) ++ bs
  | MU32 n => be 4 n
  | MLabel l => be 16 l
  end.
Definition enc_msgs (ms : list msg) : list N := concat (map enc_msg ms).

(* two-party circuit: Inputs[0] (garbler) has n0 bits, Inputs[1] (evaluator)
   n1 bits, Outputs have the listed bit sizes *)
Record circ2 := mkCirc2 { cc : circuit; n0 : nat; n1 : nat; outs : list nat }.

Definition wf2 (c : circ2) : bool :=
  wf (cc c) && Nat.eqb (n0 c + n1 c) (ninputs (cc c))
  && Nat.eqb (fold_right Nat.add 0%nat (outs c)) (noutputs (cc c)).

(* ---- garbler, first flight: key, tables, own input labels *)
Definition table_msgs (tbl : list (list N)) : list msg :=
  concat (map (fun row => MU32 (N.of_nat (length row)) :: map MLabel row) tbl).

Definition garbler_inputs (g : garbled) (n : nat) (x : list bool) : list N :=
  map (fun i => pick (nth i (gWires g) w0) (nth i x false)) (seq 0 n).

Definition garbler_first (key : list N) (g : garbled) (n : nat) (x : list bool) : list msg :=
  MData key :: MU32 (N.of_nat (length (gTables g))) :: table_msgs (gTables g)
  ++ map MLabel (garbler_inputs g n x).

(* ---- evaluator, receiving the first flight *)
Fixpoint take_labels (k : nat) (ms : list msg) : option (list N * list msg) :=
  match k with
  | O => Some ([], ms)
  | S k' =>
      match ms with
      | MLabel l :: rest =>
          match take_labels k' rest with
          | Some (ls, rest') => Some (l :: ls, rest')
          | None => None
          end
      | _ => None
      end
  end.

Fixpoint recv_tables (ng : nat) (ms : list msg) : option (list (list N) * list msg) :=
  match ng with
  | O => Some ([], ms)
  | S ng' =>
      match ms with
      | MU32 cnt :: rest =>
          match take_labels (N.to_nat cnt) rest with
          | Some (row, rest') =>
              match recv_tables ng' rest' with
              | Some (rows, rest'') => Some (row :: rows, rest'')
              | None => None
              end
          | None => None
          end
      | _ => None
      end
  end.

Record first_flight := mkFF { ffKey : list N; ffTables : list (list N); ffLabels : list N }.

Definition evaluator_first (c : circ2) (ms : list msg) : option (first_flight * list msg) :=
  match ms with
  | MData key :: MU32 cnt :: rest =>
      if N.eqb cnt (N.of_nat (length (gates (cc c)))) then
        match recv_tables (length (gates (cc c))) rest with
        | Some (tbl, rest') =>
            match take_labels (n0 c) rest' with
            | Some (ls, rest'') => Some (mkFF key tbl ls, rest'')
            | None => None
            end
        | None => None
        end
      else None   (* "wrong number of gates" *)
  | _ => None
  end.

(* evaluator -> garbler: offset and count of the wires to OT; the garbler's
   range check *)
Definition evaluator_query (c : circ2) : list msg :=
  [MU32 (N.of_nat (n0 c)); MU32 (N.of_nat (n1 c))].
Definition garbler_range_ok (c : circ2) (offset count : N) : bool :=
  N.eqb offset (N.of_nat (n0 c)) && N.eqb count (N.of_nat (n1 c)).

Definition ot_wires (c : circ2) (g : garbled) : list wire :=
  firstn (n1 c) (skipn (n0 c) (gWires g)).

Section S.
  (* block function selected by the transmitted key *)
  Variable pi_of_key : list N -> N -> N.
  (* the OT: what the receiver ends with, given the sender's wires and its
     choice bits; None = error *)
  Variable ot : list wire -> list bool -> option (list N).

  (* ---- evaluator: evaluate and return the output labels *)
  Definition evaluator_eval (c : circ2) (ff : first_flight) (own : list N) : option (list N) :=
    let ew := ffLabels ff ++ own ++ repeat 0 (nwires (cc c) - n0 c - n1 c) in
    match geval (pi_of_key (ffKey ff)) (cc c) ew (ffTables ff) with
    | Some ewf => Some (map (fun o => nth o ewf 0) (output_wires (cc c)))
    | None => None
    end.

  (* ---- garbler: decode returned labels (BitFromLabel per output wire) *)
  Fixpoint decode_all (ws : list wire) (ls : list N) : option (list bool) :=
    match ws, ls with
    | [], _ => Some []
    | w :: ws', l :: ls' =>
        match decode w l with
        | Some b => match decode_all ws' ls' with
                    | Some bs => Some (b :: bs)
                    | None => None
                    end
        | None => None        (* "unknown label": error *)
        end
    | _ :: _, [] => None      (* connection ends: error *)
    end.

  Definition out_wires (c : circ2) (g : garbled) : list wire :=
    map (fun o => nth o (gWires g) w0) (output_wires (cc c)).

  Definition garbler_finish (c : circ2) (g : garbled) (returned : list N) : option (list bool) :=
    decode_all (out_wires c g) returned.

  (* results as the two parties compute them *)
  Definition garbler_result (c : circ2) (bits : list bool) : list N :=
    split_bits (outs c) (bits_to_N bits).
  Definition result_msg (bits : list bool) : msg := MData (big_bytes (bits_to_N bits)).
  Definition evaluator_result (c : circ2) (m : msg) : option (list N) :=
    match m with
    | MData bs => Some (split_bits (outs c) (of_be bs))
    | _ => None
    end.

  (* ---- the whole honest session *)
  Inductive outcome :=
  | Ok (garbler_res evaluator_res : list N) (g2e : list msg) (e2g : list msg)
  | Err (where_ : nat).

  Definition run_session (rnd : nat -> N) (key : list N) (scratch : list wire)
             (c : circ2) (x y : list bool) : outcome :=
    let g := garble (pi_of_key key) rnd scratch (cc c) in
    let m1 := garbler_first key g (n0 c) x in
    match evaluator_first c m1 with
    | None => Err 1
    | Some (ff, _) =>
        let q := evaluator_query c in
        match q with
        | [MU32 off; MU32 cnt] =>
            if garbler_range_ok c off cnt then
              match ot (ot_wires c g) (firstn (n1 c) y) with
              | None => Err 3
              | Some own =>
                  match evaluator_eval c ff own with
                  | None => Err 4
                  | Some outl =>
                      match garbler_finish c g outl with
                      | None => Err 5
                      | Some bits =>
                          match evaluator_result c (result_msg bits) with
                          | None => Err 6
                          | Some er =>
                              Ok (garbler_result c bits) er
                                 (m1 ++ [result_msg bits]) (q ++ map MLabel outl)
                          end
                      end
                  end
              end
            else Err 2
        | _ => Err 2
        end
    end.
End S.

(* the ideal OT functionality: exactly the chosen label at each position *)
Definition ideal_ot (ws : list wire) (ys : list bool) : option (list N) :=
  Some (map (fun p => pick (fst p) (snd p)) (combine ws ys)).
