(* SessionOT.v — the session theorem for ANY oblivious transfer that delivers
   exactly the chosen label, and its instantiation with the COT-over-IKNP model
   of C06 (ot/cot.go, ot/iknp.go): the hypothesis "ideal OT" of C02 is
   discharged, inside Coq, by the C06 theorem. *)
From Coq Require Import NArith List Bool Arith Lia.
From Mpc Require Import Base.Label Base.Codec Circuit.Circuit Circuit.Garble Circuit.GarbleProof
     Proto.Session Proto.SessionProof OT.Iknp OT.Cot OT.CotProof.
Import ListNotations.
Open Scope N_scope.

(* an OT is correct when, on wire/choice vectors of equal length, the receiver
   ends with exactly the chosen label at every position *)
Definition ot_correct (ot : list wire -> list bool -> option (list N)) : Prop :=
  forall ws ys, length ws = length ys -> ot ws ys = ideal_ot ws ys.

Lemma ot_wires_length pi rnd scratch c :
  wf2 c = true ->
  length (ot_wires c (garble pi rnd scratch (cc c))) = n1 c.
Proof.
  intros Hwf. unfold wf2 in Hwf.
  apply andb_prop in Hwf; destruct Hwf as [Hwf _].
  apply andb_prop in Hwf; destruct Hwf as [Hwf Hn].
  apply Nat.eqb_eq in Hn.
  assert (Hle : (ninputs (cc c) <= nwires (cc c))%nat).
  { unfold wf in Hwf. repeat (apply andb_prop in Hwf; destruct Hwf as [Hwf ?]).
    apply Nat.leb_le. assumption. }
  destruct (garble_lengths pi rnd scratch (cc c) Hle) as [LW _].
  unfold ot_wires. rewrite firstn_length, skipn_length, LW. lia.
Qed.

Theorem session_correct_any_ot (pi_of_key : list N -> N -> N)
        (ot : list wire -> list bool -> option (list N))
        (rnd : nat -> N) (key : list N) (scratch : list wire) (c : circ2) (x y : list bool) :
  ot_correct ot ->
  wf2 c = true -> length x = n0 c -> length y = n1 c ->
  let r := Codec.split_bits (outs c) (Codec.bits_to_N (eval_plain (cc c) (x ++ y))) in
  exists g2e e2g, run_session pi_of_key ot rnd key scratch c x y = Ok r r g2e e2g.
Proof.
  intros Hot Hwf Hx Hy r. subst r.
  pose proof (session_correct pi_of_key rnd key scratch c x y Hwf Hx Hy) as SC. cbv zeta in SC.
  destruct SC as (g2e & e2g & HR & _).
  exists g2e, e2g. rewrite <- HR. unfold run_session.
  rewrite (Hot (ot_wires c (garble (pi_of_key key) rnd scratch (cc c))) (firstn (n1 c) y)).
  - reflexivity.
  - rewrite ot_wires_length by exact Hwf. rewrite firstn_length. lia.
Qed.

(* ---- COT over IKNP as an [ot] *)
Section CotOT.
  Variables (g0 g1 : nat -> nat -> N) (Delta : N) (E : N -> N -> N) (p : nat) (mal : option (N * N)).

  Definition cot_ot (ws : list wire) (ys : list bool) : option (list N) :=
    match run_op g0 g1 Delta true true (p, p) (OpLabels ys mal) with
    | Some (ResLabels _ data rcvd _ _, _) =>
        match cot_send E Delta data ws with
        | Some msgs => cot_receive E rcvd ys msgs
        | None => None
        end
    | _ => None
    end.

  Lemma list_eq_nth (a b : list N) :
    length a = length b -> (forall q, (q < length a)%nat -> nth q a 0 = nth q b 0) -> a = b.
  Proof. intros HL H. apply nth_ext with (d := 0) (d' := 0); assumption. Qed.

  Theorem cot_ot_correct : Delta < 2 ^ 128 -> ot_correct cot_ot.
  Proof.
    intros HD ws ys HL. unfold cot_ot, ideal_ot.
    destruct (cot_over_iknp g0 g1 Delta E true true p ys mal ws HD HL)
      as (us & data & rcvd & cvs & cvr & p' & msgs & result & Hrun & Hs & Hr & Hlen & Hnth).
    rewrite Hrun, Hs, Hr. f_equal.
    apply list_eq_nth.
    - rewrite map_length, combine_length. lia.
    - intros q Hq. rewrite Hlen in Hq. rewrite (Hnth q Hq).
      rewrite nth_indep with (d' := (fun pr => pick (fst pr) (snd pr)) (w0, false))
        by (rewrite map_length, combine_length; lia).
      rewrite (map_nth (fun pr => pick (fst pr) (snd pr)) (combine ws ys) (w0, false)).
      rewrite combine_nth by exact HL. reflexivity.
  Qed.
End CotOT.

(* C02 with the library's correlated OT in either adversary mode *)
Corollary session_correct_cot (pi_of_key : list N -> N -> N) g0 g1 Delta E p mal
          (rnd : nat -> N) (key : list N) (scratch : list wire) (c : circ2) (x y : list bool) :
  Delta < 2 ^ 128 ->
  wf2 c = true -> length x = n0 c -> length y = n1 c ->
  let r := Codec.split_bits (outs c) (Codec.bits_to_N (eval_plain (cc c) (x ++ y))) in
  exists g2e e2g,
    run_session pi_of_key (cot_ot g0 g1 Delta E p mal) rnd key scratch c x y = Ok r r g2e e2g.
Proof.
  intros HD. apply session_correct_any_ot. apply cot_ot_correct. exact HD.
Qed.

(* ---- Chou-Orlandi as an [ot]: any abelian group with scalar multiplication,
   any mask derivation, sender scalar [a], receiver scalars from a stream *)
From Mpc Require Import OT.Co OT.CoProof.

Section CoOT.
  Variables (G : Type) (gadd : G -> G -> G) (gneg : G -> G) (gzero : G) (smul : N -> G -> G) (Gen : G).
  Variable kdf : G -> N -> N.
  Hypothesis gadd_assoc : forall P Q R, gadd (gadd P Q) R = gadd P (gadd Q R).
  Hypothesis gadd_zero : forall P, gadd P gzero = P.
  Hypothesis gadd_neg : forall P, gadd P (gneg P) = gzero.
  Hypothesis smul_add : forall a P Q, smul a (gadd P Q) = gadd (smul a P) (smul a Q).
  Hypothesis smul_comm : forall a b P, smul a (smul b P) = smul b (smul a P).
  Variables (a : N) (sc : nat -> N).

  Definition co_ot (ws : list wire) (ys : list bool) : option (list N) :=
    co_transfer G gadd gneg smul Gen kdf a (map sc (seq 0 (length ys))) ys ws.

  Theorem co_ot_correct : ot_correct co_ot.
  Proof.
    intros ws ys HL. unfold co_ot, ideal_ot.
    apply (co_correct G gadd gneg gzero smul Gen kdf gadd_assoc gadd_zero gadd_neg smul_add smul_comm).
    - rewrite map_length, seq_length. reflexivity.
    - exact HL.
  Qed.
End CoOT.

Corollary session_correct_co (pi_of_key : list N -> N -> N)
          (G : Type) (gadd : G -> G -> G) (gneg : G -> G) (gzero : G) (smul : N -> G -> G) (Gen : G)
          (kdf : G -> N -> N) (a : N) (sc : nat -> N)
          (rnd : nat -> N) (key : list N) (scratch : list wire) (c : circ2) (x y : list bool) :
  (forall P Q R, gadd (gadd P Q) R = gadd P (gadd Q R)) ->
  (forall P, gadd P gzero = P) ->
  (forall P, gadd P (gneg P) = gzero) ->
  (forall a P Q, smul a (gadd P Q) = gadd (smul a P) (smul a Q)) ->
  (forall a b P, smul a (smul b P) = smul b (smul a P)) ->
  wf2 c = true -> length x = n0 c -> length y = n1 c ->
  let r := Codec.split_bits (outs c) (Codec.bits_to_N (eval_plain (cc c) (x ++ y))) in
  exists g2e e2g,
    run_session pi_of_key (co_ot G gadd gneg smul Gen kdf a sc) rnd key scratch c x y = Ok r r g2e e2g.
Proof.
  intros H1 H2 H3 H4 H5. apply session_correct_any_ot.
  apply (co_ot_correct G gadd gneg gzero smul Gen kdf H1 H2 H3 H4 H5).
Qed.
