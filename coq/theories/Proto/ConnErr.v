(* ConnErr.v — executable model of p2p.Conn (/repo/p2p/protocol.go) UNDER TRANSPORT
   FAULTS.  No proofs here (Proto/ConnErrProof.v).

   Write side (writer(), Flush, NeedSpace, Close, Send* error returns):

     func (c *Conn) writer() {                    func (c *Conn) Flush() error {
       ...                                          if c.WritePos > 0 {
       for buf := range c.toWriter {                  c.Stats.Sent.Add(uint64(c.WritePos))
         _, err := c.conn.Write(buf)                  c.toWriter <- c.WriteBuf[0:c.WritePos]
         if err != nil { c.writerErr = err }          next := <-c.fromWriter
         c.fromWriter <- buf[0:cap(buf)]              if c.writerErr != nil { return c.writerErr }
       }                                              c.WriteBuf = next; c.WritePos = 0
       close(c.fromWriter)                            c.Stats.Flushed.Add(1)
     }                                              }
                                                    return nil }

   Facts of the code the model follows:
   * the writer goes on writing the queued chunks after a failed Write (the error
     is only recorded);
   * c.writerErr is never cleared;
   * a Flush that returns the error has ALREADY added WritePos to Stats.Sent and
     handed the slice to the writer, and leaves WriteBuf/WritePos as they were: the
     buffer taken from fromWriter is dropped, c.WriteBuf keeps aliasing the buffer
     the writer owns, and the next Flush hands the same bytes (plus whatever was
     appended) to the writer AGAIN;
   * Close returns the error of its Flush at once (toWriter is not closed, the
     writer goroutine and the transport stay open); otherwise it closes toWriter,
     waits for the writer, returns c.writerErr if set (transport not closed), else
     closes the transport.

   WHEN a Flush sees the error is schedule dependent (Flush reads c.writerErr
   after a receive that need not be ordered after the failing Write).  Part 1 is
   the functional model for a schedule parameter [lag]: flush attempt j sees the
   failures of the Writes i with i + lag <= j.  lag = numBuffers-1 is the slowest
   writer the channels allow (the schedule the harness forces, the only one
   without a data race on c.writerErr); lag = 0 the fastest.  Part 3 is the
   small-step system over ALL interleavings (buffers abstracted to counters; the
   buffer identities and contents are the subject of the fault-free ring system
   of Conn.v).

   Read side: Part 2.  Fill treats every error of conn.Read alike (the bytes that
   came with it are used first); a transport that fails after serving [p] bytes
   is the transport of Conn.v over the stream cut at [p], the error class being
   the transport's.                                                            *)
From Coq Require Import ZArith NArith List Bool.
From Mpc Require Import Base.Codec Proto.Conn.
Import ListNotations.
Open Scope N_scope.

(* ------------------------------------------------- 1. sender with write faults *)

Section FaultSender.
Variables (nbuf wcap : N).
(* the i-th conn.Write call of the writer goroutine: None = (len(buf), nil);
   Some n = (min n len(buf), err): n bytes are accepted, then the error *)
Variable fl : nat -> option N.
Variable lag : nat.

Definition failing (i : nat) : bool := match fl i with Some _ => true | None => false end.

(* some Write among the first n failed *)
Fixpoint any_fail (n : nat) : bool :=
  match n with O => false | S k => any_fail k || failing k end.

(* number of slices handed to the writer so far = index of the next flush attempt.
   [s_chunks] of the fault model lists EVERY slice sent on toWriter (also those of
   Flushes that then returned the error), [s_flushed] counts the successful ones. *)
Definition attempts (s : sender) : nat := length (s_chunks s).

(* c.writerErr != nil as read by flush attempt j *)
Definition err_seen (j : nat) : bool := any_fail (S j - lag).

(* Flush: (state, returned an error) *)
Definition fflush (s : sender) : sender * bool :=
  if 0 <? wpos s then
    if err_seen (attempts s) then
      (mkS (s_cur s) (s_buf s) (s_chunks s ++ [(s_cur s, s_buf s)])
           (s_sent s + wpos s) (s_flushed s) (s_closed s) (s_err s), true)
    else (flush_buf nbuf s, false)
  else (s, false).

(* if c.WritePos+k > len(c.WriteBuf) { if err := c.Flush(); err != nil { return err } }; store *)
Definition fput (k : N) (bs : list N) (s : sender) : sender * bool :=
  if wcap <? wpos s + k then
    match fflush s with
    | (s1, true) => (s1, true)
    | (s1, false) => (append_buf bs s1, false)
    end
  else (append_buf bs s, false).

Fixpoint fdata_loop (fuel : nat) (d : list N) (s : sender) : sender * bool :=
  match d with
  | [] => (s, false)
  | _ =>
    match fuel with
    | O => (set_err s, false)
    | S f =>
      match (if wcap <=? wpos s then fflush s else (s, false)) with
      | (s1, true) => (s1, true)
      | (s1, false) =>
        let n := wcap - wpos s1 in
        fdata_loop f (ndrop n d) (append_buf (ntake n d) s1)
      end
    end
  end.

Definition fsend_data (d : list N) (s : sender) : sender * bool :=
  match fput 4 (be 4 (nlen d)) s with
  | (s1, true) => (s1, true)
  | (s1, false) => fdata_loop (length d) d s1
  end.

Fixpoint fsizes_loop (l : list Z) (s : sender) : sender * bool :=
  match l with
  | [] => (s, false)
  | v :: r =>
    match fput 4 (be 4 (u32_of_Z v)) s with
    | (s1, true) => (s1, true)
    | (s1, false) => fsizes_loop r s1
    end
  end.

Definition fsend_sizes (l : list Z) (s : sender) : sender * bool :=
  match fput 4 (be 4 (nlen l)) s with
  | (s1, true) => (s1, true)
  | (s1, false) => fsizes_loop l s1
  end.

(* Close *)
Definition fclose (s : sender) : sender * bool :=
  match fflush s with
  | (s1, true) => (s1, true)
  | (s1, false) =>
    (mkS (s_cur s1) (s_buf s1) (s_chunks s1) (s_sent s1) (s_flushed s1) true (s_err s1),
     any_fail (attempts s1))
  end.

Definition fstep (s : sender) (o : op) : sender * bool :=
  if s_closed s || s_err s then (set_err s, false) else
  match o with
  | OByte b => fput 1 (be 1 b) s
  | OU16 v => fput 2 (be 2 (u32_of_Z v)) s
  | OU32 v => fput 4 (be 4 (u32_of_Z v)) s
  | OData d => fsend_data d s
  | OString d => fsend_data d s
  | OLabel l => fput 16 (be 16 l) s
  | OSizes l => fsend_sizes l s
  | OFlush => fflush s
  | OClose => fclose s
  | ORaw n bs => fput n bs s
  end.

(* the script goes on after an error (what do the LATER calls return?):
   final state and the status of every op *)
Fixpoint frun (s : sender) (ops : list op) : sender * list bool :=
  match ops with
  | [] => (s, [])
  | o :: rest =>
    let '(s1, e) := fstep s o in
    let '(s2, es) := frun s1 rest in
    (s2, e :: es)
  end.

(* what the transport accepts of the i-th Write *)
Definition accepted (i : nat) (c : list N) : list N :=
  match fl i with None => c | Some n => ntake n c end.

Fixpoint accepted_from (i : nat) (cs : list (list N)) : list (list N) :=
  match cs with
  | [] => []
  | c :: r => accepted i c :: accepted_from (S i) r
  end.

(* the bytes that reached the transport once the writer has worked off its queue *)
Definition wire_accepted (s : sender) : list N := concat (accepted_from 0 (wire_chunks s)).

(* Close called the transport's Close: only when it returned nil *)
Definition transport_closed (s : sender) (close_status : bool) : bool := s_closed s && negb close_status.

End FaultSender.

(* ------------------------------------------- 2. receiver over a failing transport *)

(* the reading side fails after serving [p] bytes: the Read that would go beyond
   byte p returns what is left before p — together with the error when [eofdata],
   else the following Read returns (0, err).  (nil error = None) *)
Definition cut_transport (p : option N) (stream : list N) (frags : list N) (eofdata : bool) : transport :=
  mkT (match p with Some n => ntake n stream | None => stream end) frags eofdata 0.

(* the typed receives up to and including the first failing one: values received
   and the error of the failing receive *)
Fixpoint recv_upto (rcap : N) (tys : list ty) (r : receiver) : receiver * list val * option rerr :=
  match tys with
  | [] => (r, [], None)
  | t :: rest =>
    match recv_ty rcap t r with
    | (r1, inr e) => (r1, [], Some e)
    | (r1, inl v) =>
      let '(r2, vs, e) := recv_upto rcap rest r1 in (r2, v :: vs, e)
    end
  end.

(* ------------------------- 3. main thread and writer goroutine with failing Writes *)

(* Small-step system over all interleavings.  A buffer is a token; the channels
   toWriter / fromWriter are counters (capacity nb each).  Every conn.Write may
   fail (nondeterministic, outcome recorded in [e_out]).  Main:
     EInit                 NewConn before  c.WriteBuf = <-c.fromWriter
     EIdle                 between calls (may store into c.WriteBuf)
     EWait cl              in Flush after  c.toWriter <- ...   (cl: the Flush of a Close)
     ERead cl              after  next := <-c.fromWriter, before reading c.writerErr
     EDrain                Close after close(c.toWriter), ranging over fromWriter
     EClosed               Close returned from its second phase ([e_close] = its result)
   Writer:
     XAlloc k | XIdle | XHave (got buf) | XWrote b (Write returned, b = failed)
     | XRet (after the writerErr assignment, before fromWriter <- buf) | XDone      *)

Close Scope N_scope.
Open Scope nat_scope.

Inductive empc := EInit | EIdle | EWait (cl : bool) | ERead (cl : bool) | EDrain | EClosed.
Inductive ewpc := XAlloc (k : nat) | XIdle | XHave | XWrote (failed : bool) | XRet | XDone.

Record ering := mkE {
  e_main : empc;
  e_att : nat;              (* ghost: slices sent on toWriter so far (flush attempts) *)
  e_res : list bool;        (* ghost: what each completed flush attempt returned (true = the error), in order *)
  e_acq : nat;              (* ghost: receives main has done on fromWriter *)
  e_toW : nat;              (* len(toWriter) *)
  e_toWc : bool;            (* toWriter closed *)
  e_fromW : nat;            (* len(fromWriter) *)
  e_fromWc : bool;          (* fromWriter closed *)
  e_w : ewpc;
  e_werr : bool;            (* c.writerErr != nil *)
  e_out : list bool;        (* ghost: outcome of every conn.Write so far (true = failed), in order *)
  e_ret : nat;              (* ghost: buffers the writer has sent back after a Write *)
  e_close : option bool     (* result of Close's second phase (true = error) *)
}.

Definition e_init : ering := mkE EInit 0 [] 0 0 false 0 false (XAlloc 0) false [] 0 None.

Definition anyb (l : list bool) : bool := existsb (fun b => b) l.

Section ERing.
Variable nb : nat.

Inductive estep : ering -> ering -> Prop :=
(* writer(): c.fromWriter <- make(...), nb times *)
| X_alloc : forall m att res acq tw twc fw fwc k we out ret cl, k < nb -> fw < nb ->
    estep (mkE m att res acq tw twc fw fwc (XAlloc k) we out ret cl)
          (mkE m att res acq tw twc (S fw) fwc (XAlloc (S k)) we out ret cl)
| X_alloc_done : forall m att res acq tw twc fw fwc we out ret cl,
    estep (mkE m att res acq tw twc fw fwc (XAlloc nb) we out ret cl)
          (mkE m att res acq tw twc fw fwc XIdle we out ret cl)
(* NewConn: c.WriteBuf = <-c.fromWriter *)
| E_init : forall att res acq tw twc fw fwc w we out ret cl,
    estep (mkE EInit att res acq tw twc (S fw) fwc w we out ret cl)
          (mkE EIdle att res (S acq) tw twc fw fwc w we out ret cl)
(* Flush with WritePos > 0 (cl = false) or Close's Flush (cl = true): c.toWriter <- c.WriteBuf[0:WritePos] *)
| E_flush_send : forall clf att res acq tw twc fw fwc w we out ret cl, tw < nb ->
    estep (mkE EIdle att res acq tw twc fw fwc w we out ret cl)
          (mkE (EWait clf) (S att) res acq (S tw) twc fw fwc w we out ret cl)
(* next := <-c.fromWriter *)
| E_flush_recv : forall clf att res acq tw twc fw fwc w we out ret cl,
    estep (mkE (EWait clf) att res acq tw twc (S fw) fwc w we out ret cl)
          (mkE (ERead clf) att res (S acq) tw twc fw fwc w we out ret cl)
(* if c.writerErr != nil { return c.writerErr }: back to the caller, WriteBuf/WritePos unchanged, next dropped *)
| E_flush_err : forall clf att res acq tw twc fw fwc w out ret cl,
    estep (mkE (ERead clf) att res acq tw twc fw fwc w true out ret cl)
          (mkE EIdle att (res ++ [true]) acq tw twc fw fwc w true out ret cl)
(* c.WriteBuf = next; c.WritePos = 0; return nil *)
| E_flush_ok : forall att res acq tw twc fw fwc w out ret cl,
    estep (mkE (ERead false) att res acq tw twc fw fwc w false out ret cl)
          (mkE EIdle att (res ++ [false]) acq tw twc fw fwc w false out ret cl)
(* Close after a successful Flush: close(c.toWriter) *)
| E_close_after_flush : forall att res acq tw twc fw fwc w out ret cl,
    estep (mkE (ERead true) att res acq tw twc fw fwc w false out ret cl)
          (mkE EDrain att (res ++ [false]) acq tw true fw fwc w false out ret cl)
(* Close with WritePos = 0 (impossible after a Flush returned the error: WritePos stays > 0) *)
| E_close_direct : forall att res acq tw twc fw fwc w we out ret cl, anyb res = false ->
    estep (mkE EIdle att res acq tw twc fw fwc w we out ret cl)
          (mkE EDrain att res acq tw true fw fwc w we out ret cl)
(* for buf := range c.fromWriter { } *)
| E_drain : forall att res acq tw twc fw fwc w we out ret cl,
    estep (mkE EDrain att res acq tw twc (S fw) fwc w we out ret cl)
          (mkE EDrain att res (S acq) tw twc fw fwc w we out ret cl)
(* range ends; if c.writerErr != nil { return c.writerErr } ... *)
| E_drain_done : forall att res acq tw twc w we out ret cl,
    estep (mkE EDrain att res acq tw twc 0 true w we out ret cl)
          (mkE EClosed att res acq tw twc 0 true w we out ret (Some we))
(* writer: buf := <-c.toWriter *)
| X_take : forall m att res acq tw twc fw fwc we out ret cl,
    estep (mkE m att res acq (S tw) twc fw fwc XIdle we out ret cl)
          (mkE m att res acq tw twc fw fwc XHave we out ret cl)
(* writer: _, err := c.conn.Write(buf) — may fail *)
| X_write : forall b m att res acq tw twc fw fwc we out ret cl,
    estep (mkE m att res acq tw twc fw fwc XHave we out ret cl)
          (mkE m att res acq tw twc fw fwc (XWrote b) we (out ++ [b]) ret cl)
(* writer: if err != nil { c.writerErr = err } *)
| X_seterr : forall m att res acq tw twc fw fwc we out ret cl,
    estep (mkE m att res acq tw twc fw fwc (XWrote true) we out ret cl)
          (mkE m att res acq tw twc fw fwc XRet true out ret cl)
| X_noerr : forall m att res acq tw twc fw fwc we out ret cl,
    estep (mkE m att res acq tw twc fw fwc (XWrote false) we out ret cl)
          (mkE m att res acq tw twc fw fwc XRet we out ret cl)
(* writer: c.fromWriter <- buf[0:cap(buf)] *)
| X_return : forall m att res acq tw twc fw fwc we out ret cl, fw < nb ->
    estep (mkE m att res acq tw twc fw fwc XRet we out ret cl)
          (mkE m att res acq tw twc (S fw) fwc XIdle we out (S ret) cl)
(* writer: the range over the closed, empty toWriter ends; close(c.fromWriter) *)
| X_done : forall m att res acq fw fwc we out ret cl,
    estep (mkE m att res acq 0 true fw fwc XIdle we out ret cl)
          (mkE m att res acq 0 true fw true XDone we out ret cl).

Inductive ereach : ering -> Prop :=
| ereach_init : ereach e_init
| ereach_step : forall e e', ereach e -> estep e e' -> ereach e'.

End ERing.
