(* RunC05.v — executable entry point of the C05 model for the correspondence
   check.  Two kinds of cases:

   kind 1 (a whole streamed program)
     input  = (1 (args (zeroKey oneKey) consts circuits outbits steps) (xy bits)
                 (in0 in1 io args) (output io args) nsteps)
              steps are the program's steps WITHOUT the gc instructions
     output = (0 listing circuits retids results header received-output-types)
              listing: the step list after Program.GC (an original step by its
                index, a gc instruction as (value));
              circuits: per garble() call (step ngates nwires maxid+1
                ((opbyte a b c)...)) — the garbler->evaluator stream after the
                OT without the garbled rows;
              retids: the ids sent with OpReturn; results: the output values;
              header: the bytes between the key and the garbler's input
                labels (sendArgument of both inputs and the outputs, counts).

   kind 0 (Streaming.Garble driven directly, deterministic randomness)
     input  = (0 (key bytes) (rnd labels) (input ids) ((dims gates ins outs)...) (probe ids) (x bits))
     output = (0 R (stream bytes as one integer, leading 01) ((L0 L1) of the probe ids)
                 (labels the evaluator model ends with on the probe ids))        *)
From Coq Require Import ZArith NArith List Bool Arith FMapPositive.
From Mpc Require Import Gen.Consts Base.Sx Base.Label Base.Aes Base.Codec Circuit.Circuit Circuit.Garble
     Circuit.RunC01 Lang.Gc Lang.Hashtab Proto.Stream.
Import ListNotations.
Local Open Scope nat_scope.

Definition opc_of_Z (z : Z) : opc :=
  if Z.eqb z compiler_ssa_Concat then OConcat
  else if Z.eqb z compiler_ssa_Lshift then OLshift
  else if Z.eqb z compiler_ssa_Rshift then ORshift
  else if Z.eqb z compiler_ssa_Srshift then OSrshift
  else if Z.eqb z compiler_ssa_Slice then OSlice
  else if Z.eqb z compiler_ssa_Mov then OMov
  else if Z.eqb z compiler_ssa_Smov then OSmov
  else if Z.eqb z compiler_ssa_Amov then OAmov
  else if Z.eqb z compiler_ssa_Ret then ORet
  else if Z.eqb z compiler_ssa_Circ then OCirc
  else if Z.eqb z compiler_ssa_GC then OGC
  else OGen.

Definition val_of_sx (s : sx) : val :=
  mkVal (getN (nthx 0 s)) (getB (nthx 1 s)) (getnat (nthx 2 s)) (getB (nthx 3 s)) (getZ (nthx 4 s)).

Definition instr_of_sx (s : sx) : instr :=
  mkInstr (opc_of_Z (getZ (nthx 0 s)))
          (map val_of_sx (getL (nthx 1 s)))
          (match getL (nthx 2 s) with v :: _ => Some (val_of_sx v) | [] => None end)
          (map val_of_sx (getL (nthx 3 s)))
          None
          (getnat (nthx 4 s)).

Definition ccirc_of_sx (s : sx) : ccirc :=
  mkCcirc (circuit_of_sx (nthx 0 s) (nthx 1 s)) (getLnat (nthx 2 s)) (getLnat (nthx 3 s)).

Definition sprog_of_sx (s : sx) : sprog :=
  mkSprog (map (fun a => (getN (nthx 0 a), getnat (nthx 1 a))) (getL (nthx 0 s)))
          (getN (nthx 0 (nthx 1 s))) (getN (nthx 1 (nthx 1 s)))
          (map (fun c => (getN (nthx 0 c), getLB (nthx 1 c))) (getL (nthx 2 s)))
          (map ccirc_of_sx (getL (nthx 3 s)))
          (getLnat (nthx 4 s)).

Fixpoint ioarg_of_sx (fuel : nat) (s : sx) : ioarg :=
  match fuel with
  | O => IOA [] [] 0%N []
  | S f => IOA (getLN (nthx 0 s)) (getLN (nthx 1 s)) (getN (nthx 2 s)) (map (ioarg_of_sx f) (getL (nthx 3 s)))
  end.

(* position of an instruction of the gc'd list in the original list *)
Fixpoint listing (steps : list instr) (k : nat) : list sx :=
  match steps with
  | [] => []
  | s :: rest =>
      match iop s, igc s with
      | OGC, Some v => SL [ofN (vid v)] :: listing rest k
      | _, _ => ofnat k :: listing rest (S k)
      end
  end.

Definition sx_of_sgate (g : sgate) : sx :=
  SL [ofN (op_byte g); ofN (sa g); ofN (sb g); ofN (sc g)].

Definition sx_of_ctrace (t : ctrace) : sx :=
  SL [ofnat (ct_step t); ofnat (ct_ngates t); ofnat (ct_nwires t); ofN (ct_maxid t);
      SL (map sx_of_sgate (ct_gates t))].

Fixpoint split_out (sizes : list nat) (bits : list bool) : list N :=
  match sizes with
  | [] => []
  | s :: rest => bits_to_N (firstn s bits) :: split_out rest (skipn s bits)
  end.

(* receiveArgument's view of an argument: name, the parsed type, members.
   types.Parse is modelled for the type strings Info.String() produces. *)
Definition is_digit (c : N) : bool := (48 <=? c)%N && (c <=? 57)%N.
Definition is_alpha (c : N) : bool := ((65 <=? c) && (c <=? 90) || (97 <=? c) && (c <=? 122))%N.
Fixpoint span (f : N -> bool) (s : list N) : list N * list N :=
  match s with
  | c :: t => if f c then let '(a, b) := span f t in (c :: a, b) else ([], s)
  | [] => ([], [])
  end.
Definition dec_val (ds : list N) : N := fold_left (fun a d => (a * 10 + (d - 48))%N) ds 0%N.

(* types.Info as compared by the harness: Type, Bits, ArraySize, IsConcrete, ElementType *)
Inductive tinfo := TI (kind : Z) (bits : N) (asize : N) (concrete : bool) (elem : option tinfo).
Definition ti_bits (t : tinfo) := match t with TI _ b _ _ _ => b end.
Definition ti_kind (t : tinfo) := match t with TI k _ _ _ _ => k end.

Definition str_eqb (a b : list N) : bool :=
  Nat.eqb (length a) (length b) && forallb (fun p => N.eqb (fst p) (snd p)) (combine a b).

Definition s_of (l : list nat) : list N := map N.of_nat l.
Definition kw_b := s_of [98]. Definition kw_bool := s_of [98;111;111;108].
Definition kw_byte := s_of [98;121;116;101]. Definition kw_rune := s_of [114;117;110;101].
Definition kw_i := s_of [105]. Definition kw_int := s_of [105;110;116].
Definition kw_u := s_of [117]. Definition kw_uint := s_of [117;105;110;116].
Definition kw_s := s_of [115]. Definition kw_string := s_of [115;116;114;105;110;103].
Definition kw_struct := s_of [115;116;114;117;99;116].

(* types.Parse (types/parse.go); None = error.  ParseInt(.., 10, 32) range
   errors are not modelled (sizes are far below 2^31). *)
Fixpoint parse_type (fuel : nat) (s : list N) : option tinfo :=
  match fuel with
  | O => None
  | S f =>
      if str_eqb s kw_b || str_eqb s kw_bool then Some (TI types_TBool 1 0 true None)
      else if str_eqb s kw_byte then Some (TI types_TUint 8 0 true None)
      else if str_eqb s kw_rune then Some (TI types_TInt 32 0 true None)
      else
        let '(al, rest) := span is_alpha s in
        let '(ds, rest2) := span is_digit rest in
        match al, rest2 with
        | _ :: _, [] =>
            let k := if str_eqb al kw_b || str_eqb al kw_bool then Some types_TBool
                     else if str_eqb al kw_i || str_eqb al kw_int then Some types_TInt
                     else if str_eqb al kw_u || str_eqb al kw_uint then Some types_TUint
                     else if str_eqb al kw_s || str_eqb al kw_string then Some types_TString
                     else if str_eqb al kw_struct then Some types_TStruct
                     else None in
            match k with
            | Some k => Some (TI k (dec_val ds) 0 (negb (Nat.eqb (length ds) 0)) None)
            | None => None
            end
        | _, _ =>
            match s with
            | 91%N :: t =>          (* '[' *)
                let '(ds, t2) := span is_digit t in
                match t2 with
                | 93%N :: el =>      (* ']' *)
                    match el with
                    | [] => None
                    | _ =>
                        match parse_type f el with
                        | Some e =>
                            let n := dec_val ds in
                            Some (TI (if Nat.eqb (length ds) 0 then types_TSlice else types_TArray)
                                     (n * ti_bits e)%N n true (Some e))
                        | None => None
                        end
                    end
                | _ => None
                end
            | _ => None
            end
        end
  end.

(* receiveArgument's post-processing: Bits := size; TSlice: ArraySize := Bits / ElementType.Bits *)
Definition recv_type (t : list N) (size : N) : option tinfo :=
  match parse_type 64 t with
  | Some (TI k _ a c e) =>
      let a' := if Z.eqb k types_TSlice
                then match e with Some el => (size / ti_bits el)%N | None => a end
                else a in
      Some (TI k size a' c e)
  | None => None
  end.

Fixpoint sx_of_tinfo (t : tinfo) : sx :=
  match t with
  | TI k b a c e => SL [SZ k; ofN b; ofN a; ofB c; SL (match e with Some el => [sx_of_tinfo el] | None => [] end)]
  end.

Fixpoint sx_of_recv (a : ioarg) : sx :=
  match a with
  | IOA name t size comp =>
      SL [ofLN name;
          match recv_type t size with Some ti => sx_of_tinfo ti | None => sx_err 9 end;
          SL (map sx_of_recv comp)]
  end.

(* Program.GC with aliasLive's visited set written out (a fresh set per queried
   input, as in program.go) places the gc instructions exactly where the
   fuel-bounded model the theorems are about places them *)
Definition gc_visited_agrees (steps gsteps : list instr) : bool :=
  match gc_visited steps with
  | Some g => sx_eqb (SL (listing g 0)) (SL (listing gsteps 0))
  | None => false
  end.

(* the (cache key, shape) list of the circuit steps: field 5 of a step is the
   number the harness gave to the string Instr.StringTyped() returned for it
   (0 = the step does not go through the cache), field 0 the ssa opcode *)
Definition keyed_shapes (steps_sx : list sx) : list (N * shape) :=
  flat_map (fun s => let k := getN (nthx 5 s) in
                     if N.eqb k 0 then [] else [(k, step_shape (getZ (nthx 0 s)) (instr_of_sx s))]) steps_sx.

Definition run_prog (gcf : list instr -> option (list instr)) (inp : sx) : sx :=
  let p := sprog_of_sx (nthx 1 inp) in
  let steps := map instr_of_sx (getL (nthx 5 (nthx 1 inp))) in
  let xy := getLB (nthx 2 inp) in
  let ins := map (ioarg_of_sx 8) (getL (nthx 3 inp)) in
  let outs := map (ioarg_of_sx 8) (getL (nthx 4 inp)) in
  match gcf steps with
  | None => sx_err 1
  | Some gsteps =>
      match stream_run p gsteps xy with
      | None => sx_err 2
      | Some st =>
          match stream_eval p gsteps xy with
          | None => sx_err 3
          | Some bits =>
              let hdr := concat (map send_argument ins) ++ u32 (N.of_nat (length outs))
                         ++ concat (map send_argument outs) ++ u32 (N.of_nat (length gsteps)) in
              (* the evaluator's view of the outputs: receiveArgument on the sent bytes *)
              let recvd := map (fun o => match receive_argument 8 (send_argument o) with
                                         | Some (a, []) => sx_of_recv a
                                         | _ => sx_err 8
                                         end) outs in
              SL [SZ 0; SL (listing gsteps 0);
                  SL (map sx_of_ctrace (rev (ss_trace st)));
                  ofLN (firstn (fold_right Nat.add 0 (sp_outbits p)) (ss_ret st));
                  ofLN (split_out (sp_outbits p) bits);
                  ofN (of_be (1%N :: hdr));
                  SL recvd;
                  (* the hypotheses/conclusion of the theorems on this program:
                     wf_prog of the step list, consts_read_tabled (the extra hypothesis
                     of the simulation theorem), no_premature_reuse of the gc'd
                     list (2 = not evaluated: more than 4096 wire ids) *)
                  SL [ofB (wf_prog p steps && outbits_ok p steps && gc_visited_agrees steps gsteps);
                      (* 1 = consts_read_tabled and consts_tabled, 3 = consts_read_tabled only (an
                         untabled constant operand no gate reads), 2 = neither *)
                      ofnat ((if consts_read_tabled p steps then 1 else 0) + (if consts_tabled p steps then 0 else 2));
                      if (fold_left N.max (map ct_maxid (ss_trace st)) 0 <=? 4096)%N
                      then ofB (no_premature_reuse p gsteps) else SZ 2;
                      (* the circuit cache is a memo: same key => same shape *)
                      ofB (memo_ok shape shape_eqb (keyed_shapes (getL (nthx 5 (nthx 1 inp)))) [])]]
          end
      end
  end.

(* ---- kind 0: Streaming.Garble driven directly *)
Definition run_direct (inp : sx) : sx :=
  let rks := aes_schedule (getLN (nthx 1 inp)) in
  let pi := aes_pi rks in
  let rl := getLN (nthx 2 inp) in
  let r := setS (nth 0 rl 0%N) in
  let inids := getLN (nthx 3 inp) in
  (* NewStreaming: one label pair per input id *)
  let wires0 := fold_left (fun m p => let '(i, id) := p in
                                      let l0 := nth (S i) rl 0%N in sadd m id (mkWire l0 (lxor l0 r)))
                          (combine (seq 0 (length inids)) inids) (PositiveMap.empty wire) in
  let x := getLB (nthx 6 inp) in
  let es0 := mkEstate (fold_left (fun m p => let '(i, id) := p in
                                             sadd m id (pick (sfind w0 wires0 id) (nth i x false)))
                                 (combine (seq 0 (length inids)) inids) (PositiveMap.empty N))
                      (PositiveMap.empty N) 0 in
  let '(cs, es, bytes, ok, _, _) :=
    fold_left (fun acc cs =>
                 let '(cst, est, bytes, ok, gid, eid) := acc in
                 let c := circuit_of_sx (nthx 0 cs) (nthx 1 cs) in
                 let ins := getLN (nthx 2 cs) in
                 let outs := getLN (nthx 3 cs) in
                 let '(cst', gid', sgs) := garble_circ_labels pi r cst gid c ins outs in
                 let bs := concat (map encode_gate sgs) in
                 (* the evaluator model decodes the bytes and evaluates *)
                 match decode_gates (length sgs) bs with
                 | Some (dgs, []) =>
                     match eval_sgates pi (einit est (nwires c)) eid dgs with
                     | Some (est', eid') => (cst', est', bytes ++ bs, ok, gid', eid')
                     | None => (cst', est, bytes ++ bs, false, gid', eid)
                     end
                 | _ => (cst', est, bytes ++ bs, false, gid', eid)
                 end)
              (getL (nthx 4 inp)) (mkCstate wires0 (PositiveMap.empty wire) 0, es0, [], true, 0%N, 0%N) in
  let probes := getLN (nthx 5 inp) in
  if ok then
    SL [SZ 0; ofN r; ofN (of_be (1%N :: bytes));
        SL (map (fun id => sx_of_wire (sfind w0 (cs_wires cs) id)) probes);
        ofLN (map (fun id => eget es false id) probes)]
  else sx_err 4.

(* ---- kind 2: the wire allocator's value table (hash chains)
   input  = (2 ((key bucket)...) ((opcode key)...))   opcode 0 = Allocated (lookup),
            1 = AssignedIDs (lookup, insert when absent), 2 = GCWires (remove);
            bucket = the real walloc.hashCode of the value
   output = (0 ((present (chain keys, head first))...))  per operation: was the
            value in the table before the operation, and the keys chained in its
            bucket after the operation *)
Definition run_walloc (inp : sx) : sx :=
  let hm := map (fun q => (getN (nthx 0 q), getnat (nthx 1 q))) (getL (nthx 1 inp)) in
  let hash := fun k => match lookup k hm with Some b => b | None => 0 end in
  let ops := getL (nthx 2 inp) in
  let '(outs, _) :=
    fold_left (fun (acc : list sx * table N) (o : sx) =>
                 let '(outs, t) := acc in
                 let k := getN (nthx 1 o) in
                 let present := match find_pos N k (bucket N t (hash k)) 0 with Some _ => true | None => false end in
                 let op := getZ (nthx 0 o) in
                 let hop := if Z.eqb op 0 then HLookup k else if Z.eqb op 1 then HAlloc k k else HGc k in
                 let '(_, t') := chain_step N hash hop t in
                 (SL [ofB present; ofLN (map fst (bucket N t' (hash k)))] :: outs, t'))
              ops ([], []) in
  SL [SZ 0; SL (rev outs)].

(* the code as it is NOW *)
Definition run_c05 (inp : sx) : sx :=
  if Z.eqb (getZ (nthx 0 inp)) 1 then run_prog gc_now inp
  else if Z.eqb (getZ (nthx 0 inp)) 2 then run_walloc inp else run_direct inp.

(* the pre-fix variant (Program.GC before d266b2f/f274b03), kept as a
   regression record: it reproduces the wrong streamed values of finding F3 *)
Definition run_c05_old (inp : sx) : sx :=
  if Z.eqb (getZ (nthx 0 inp)) 1 then run_prog gc_old inp else run_direct inp.
