(* Conn.v — executable model of p2p.Conn (/repo/p2p/protocol.go, pipe.go).

   Sender  : NewConn / NeedSpace / Flush / Close / SendByte / SendUint16 /
             SendUint32 / SendData / SendString / SendLabel / SendInputSizes.
   Writer  : the chunks handed to the writer goroutine, in order, each with
             the identity of the ring buffer it lives in (the small-step model
             of main thread + writer goroutine over toWriter/fromWriter is
             the [ring] part at the end of this file).
   Transport: the byte stream (concatenation of the written chunks) re-cut
             by an arbitrary list of segment sizes; an underlying Read never
             crosses a segment boundary and never returns more than the
             slice it is given (io.Pipe: segments = written chunks).
   Receiver: Fill (compaction + read loop) / ReceiveByte / ReceiveUint16 /
             ReceiveUint32 / ReceiveData / ReceiveString / ReceiveLabel /
             ReceiveInputSizes, and the Stats counters Sent/Flushed/Recvd.

   Buffer sizes are parameters ([nbuf], [wcap], [rcap]); RunC11.v
   instantiates them with the regenerated p2p constants.

   Representation: WriteBuf is the list of the WritePos bytes written so far
   (bytes beyond WritePos are never observed); ReadBuf is the list of the
   bytes in the window ReadStart..ReadEnd (bytes outside the window are never
   observed), with ReadStart and ReadEnd kept as explicit counters exactly as
   in Go.  Integers are unbounded N/Z; the uint32 conversions of
   SendUint16/SendUint32 are written in.  The uint64 wrap of the Stats
   counters is not modelled (2^64 bytes).                                   *)
From Coq Require Import ZArith NArith List Bool.
From Mpc Require Import Base.Codec.
Import ListNotations.
Open Scope N_scope.

Definition nlen {A} (l : list A) : N := N.of_nat (length l).
Definition ntake {A} (n : N) (l : list A) : list A := firstn (N.to_nat n) l.
Definition ndrop {A} (n : N) (l : list A) : list A := skipn (N.to_nat n) l.

(* uint32(val) for val int *)
Definition u32_of_Z (v : Z) : N := Z.to_N (v mod 4294967296)%Z.

(* ---------------------------------------------------------------- values *)

Inductive op :=
| OByte (b : N)            (* SendByte(val byte) *)
| OU16 (v : Z)             (* SendUint16(val int) *)
| OU32 (v : Z)             (* SendUint32(val int) *)
| OData (d : list N)       (* SendData(val []byte) *)
| OString (d : list N)     (* SendString(val string), bytes of the string *)
| OLabel (l : N)           (* SendLabel(val ot.Label), 128-bit, D0 high *)
| OSizes (l : list Z)      (* SendInputSizes(sizes []int) *)
| OFlush                   (* Flush() *)
| OClose                   (* Close() *)
| ORaw (n : N) (bs : list N).
      (* the in-place write API (circuit.Streaming.Garble): NeedSpace(n), then the caller
         stores bs (at most n bytes) at WriteBuf[WritePos:] and advances WritePos *)

Inductive ty := TByte | TU16 | TU32 | TData | TString | TLabel | TSizes
| TRaw (k : N).   (* the in-place read API: Fill(k) unless k bytes are in the window, then ReadBuf[ReadStart:ReadStart+k]; ReadStart += k *)

Inductive val :=
| VByte (b : N) | VU16 (v : N) | VU32 (v : N) | VData (d : list N)
| VString (d : list N) | VLabel (l : N) | VSizes (l : list N) | VRaw (bs : list N).

(* wire encoding of a value (what the matching Send writes) *)
Definition encode (v : val) : list N :=
  match v with
  | VByte b => be 1 b
  | VU16 v => be 2 v
  | VU32 v => be 4 v
  | VData d => be 4 (nlen d) ++ d
  | VString d => be 4 (nlen d) ++ d
  | VLabel l => be 16 l
  | VSizes l => be 4 (nlen l) ++ concat (map (be 4) l)
  | VRaw bs => bs
  end.

(* the value a send op puts on the wire (None for Flush/Close) *)
Definition value_of (o : op) : option val :=
  match o with
  | OByte b => Some (VByte (b mod 256))
  | OU16 v => Some (VU16 (u32_of_Z v mod 65536))
  | OU32 v => Some (VU32 (u32_of_Z v))
  | OData d => Some (VData d)
  | OString d => Some (VString d)
  | OLabel l => Some (VLabel (l mod 2 ^ 128))
  | OSizes l => Some (VSizes (map u32_of_Z l))
  | OFlush | OClose => None
  | ORaw _ bs => Some (VRaw bs)
  end.

Definition type_of_val (v : val) : ty :=
  match v with
  | VByte _ => TByte | VU16 _ => TU16 | VU32 _ => TU32 | VData _ => TData
  | VString _ => TString | VLabel _ => TLabel | VSizes _ => TSizes
  | VRaw bs => TRaw (nlen bs)
  end.

Fixpoint values_of (ops : list op) : list val :=
  match ops with
  | [] => []
  | o :: rest => match value_of o with Some v => v :: values_of rest | None => values_of rest end
  end.

Definition types_of (ops : list op) : list ty := map type_of_val (values_of ops).

(* ---------------------------------------------------------------- sender *)

Section Sender.
Variables (nbuf wcap : N).   (* numBuffers, writeBufSize = len(c.WriteBuf) *)

Record sender := mkS {
  s_cur : N;                        (* identity of the ring buffer c.WriteBuf points to *)
  s_buf : list N;                   (* c.WriteBuf[0:c.WritePos] *)
  s_chunks : list (N * list N);     (* slices sent on toWriter so far, in order: (buffer id, bytes) *)
  s_sent : N;                       (* Stats.Sent *)
  s_flushed : N;                    (* Stats.Flushed *)
  s_closed : bool;                  (* Close() was called *)
  s_err : bool                      (* outside the modelled domain: op after Close, or loop fuel exhausted *)
}.

(* NewConn: the first buffer the writer goroutine hands out *)
Definition s_init : sender := mkS 0 [] [] 0 0 false false.

Definition wpos (s : sender) : N := nlen (s_buf s).      (* c.WritePos *)

Definition set_err (s : sender) : sender :=
  mkS (s_cur s) (s_buf s) (s_chunks s) (s_sent s) (s_flushed s) (s_closed s) true.

(* Flush: the filled prefix goes to the writer; the next buffer of the ring
   comes back from fromWriter (that this is buffer (cur+1) mod numBuffers and
   that it is not in use is the ring theorem). *)
Definition flush_buf (s : sender) : sender :=
  if 0 <? wpos s then
    mkS ((s_cur s + 1) mod nbuf) [] (s_chunks s ++ [(s_cur s, s_buf s)])
        (s_sent s + wpos s) (s_flushed s + 1) (s_closed s) (s_err s)
  else s.

Definition append_buf (bs : list N) (s : sender) : sender :=
  mkS (s_cur s) (s_buf s ++ bs) (s_chunks s) (s_sent s) (s_flushed s) (s_closed s) (s_err s).

(* the shape shared by SendByte/SendUint16/SendUint32/SendLabel:
   if c.WritePos+k > len(c.WriteBuf) { Flush }; write k bytes *)
Definition put (k : N) (bs : list N) (s : sender) : sender :=
  let s1 := if wcap <? wpos s + k then flush_buf s else s in
  append_buf bs s1.

Definition send_byte (b : N) := put 1 (be 1 b).
Definition send_u16 (v : Z) := put 2 (be 2 (u32_of_Z v)).
Definition send_u32 (v : Z) := put 4 (be 4 (u32_of_Z v)).
Definition send_u32N (v : N) := put 4 (be 4 v).           (* SendUint32(len(x)) *)
Definition send_label (l : N) := put 16 (be 16 l).

(* SendData's copy loop:
   for len(val) > 0 { if WritePos >= len(WriteBuf) { Flush }; n := copy(WriteBuf[WritePos:], val); ... } *)
Fixpoint data_loop (fuel : nat) (d : list N) (s : sender) : sender :=
  match d with
  | [] => s
  | _ =>
    match fuel with
    | O => set_err s
    | S f =>
      let s1 := if wcap <=? wpos s then flush_buf s else s in
      let n := wcap - wpos s1 in
      data_loop f (ndrop n d) (append_buf (ntake n d) s1)
    end
  end.

Definition send_data (d : list N) (s : sender) : sender :=
  data_loop (length d) d (send_u32N (nlen d) s).

Definition send_sizes (l : list Z) (s : sender) : sender :=
  fold_left (fun s v => send_u32 v s) l (send_u32N (nlen l) s).

(* Close: Flush, close_conn(toWriter), drain fromWriter *)
Definition close_conn (s : sender) : sender :=
  let s1 := flush_buf s in
  mkS (s_cur s1) (s_buf s1) (s_chunks s1) (s_sent s1) (s_flushed s1) true (s_err s1).

Definition step (s : sender) (o : op) : sender :=
  if s_closed s || s_err s then set_err s else
  match o with
  | OByte b => send_byte b s
  | OU16 v => send_u16 v s
  | OU32 v => send_u32 v s
  | OData d => send_data d s
  | OString d => send_data d s
  | OLabel l => send_label l s
  | OSizes l => send_sizes l s
  | OFlush => flush_buf s
  | OClose => close_conn s
  | ORaw n bs => put n bs s        (* NeedSpace(n) = the same test-and-Flush as in the Send* methods *)
  end.

Definition run_sender (ops : list op) : sender := fold_left step ops s_init.

(* what the writer goroutine writes: one conn.Write per chunk, in order *)
Definition wire_chunks (s : sender) : list (list N) := map snd (s_chunks s).
Definition wire_bytes (s : sender) : list N := concat (wire_chunks s).

End Sender.

(* ------------------------------------------------------------- transport *)

(* The reading side of the underlying io.ReadWriter: the remaining byte
   stream, the remaining segment sizes (head = what is left of the current
   segment; once exhausted a Read is bounded only by its slice), whether the
   transport reports io.EOF together with its final bytes (io.Reader allows
   both (n, EOF) and (n, nil) followed by (0, EOF)), and the number of Read
   calls that returned data. *)
Record transport := mkT { t_stream : list N; t_frags : list N; t_eofdata : bool; t_nreads : N }.

(* conn.Read(p) with len(p) = cap: (bytes, err == io.EOF, transport after). *)
Definition tread (t : transport) (cap : N) : list N * bool * transport :=
  match t_stream t with
  | [] => ([], true, t)
  | _ =>
    let seg := match t_frags t with [] => cap | f :: _ => N.max 1 f end in
    let got := ntake (N.min seg cap) (t_stream t) in
    let g := nlen got in
    let fr := match t_frags t with
              | [] => []
              | _ :: rest => if g <? seg then (seg - g) :: rest else rest
              end in
    let rest := ndrop g (t_stream t) in
    let eof := t_eofdata t && match rest with [] => true | _ => false end in
    (got, eof, mkT rest fr (t_eofdata t) (t_nreads t + 1))
  end.

(* -------------------------------------------------------------- receiver *)

Inductive rerr := EEOF | ESpin | EFuel.

Section Receiver.
Variable rcap : N.           (* readBufSize = len(c.ReadBuf) *)

Record receiver := mkR {
  r_start : N;               (* c.ReadStart *)
  r_end : N;                 (* c.ReadEnd *)
  r_win : list N;            (* c.ReadBuf[ReadStart:ReadEnd] *)
  r_recvd : N;               (* Stats.Recvd *)
  r_t : transport
}.

Definition r_init (t : transport) : receiver := mkR 0 0 [] 0 t.

Definition commit (r : receiver) (acc : list N) : receiver :=
  mkR (r_start r) (r_end r) (r_win r ++ rev_append acc []) (r_recvd r) (r_t r).

(* Fill's read loop:
     for c.ReadStart+n > c.ReadEnd {
       got, err := Read(ReadBuf[ReadEnd:]); Recvd += got; ReadEnd += got
       if err != nil { if c.ReadStart+n <= c.ReadEnd { return nil }; return err } }
   [acc] collects (reversed) the bytes read in this call; they are appended
   to the window when the loop exits.  ESpin: the slice offered to Read is
   empty although more bytes are needed — the Go loop would not terminate. *)
Fixpoint fill_loop (fuel : nat) (n : N) (r : receiver) (acc : list N) : receiver * option rerr :=
  if r_start r + n <=? r_end r then (commit r acc, None) else
  match fuel with
  | O => (commit r acc, Some EFuel)
  | S f =>
    if rcap <=? r_end r then (commit r acc, Some ESpin) else
    let '(got, eof, t') := tread (r_t r) (rcap - r_end r) in
    let g := nlen got in
    let r2 := mkR (r_start r) (r_end r + g) (r_win r) (r_recvd r + g) t' in
    let acc2 := rev_append got acc in
    if eof then
      (if r_start r2 + n <=? r_end r2 then (commit r2 acc2, None) else (commit r2 acc2, Some EEOF))
    else fill_loop f n r2 acc2
  end.

(* Fill(n): compaction, then the loop *)
Definition fill (n : N) (r : receiver) : receiver * option rerr :=
  let r1 := if r_start r <? r_end r
            then mkR 0 (r_end r - r_start r) (r_win r) (r_recvd r) (r_t r)
            else mkR 0 0 [] (r_recvd r) (r_t r) in
  fill_loop (S (N.to_nat n)) n r1 [].

Definition consume (k : N) (r : receiver) : receiver :=
  mkR (r_start r + k) (r_end r) (ndrop k (r_win r)) (r_recvd r) (r_t r).

(* if c.ReadStart+k > c.ReadEnd { Fill(k) }; take k bytes *)
Definition recv_fixed (k : N) (r : receiver) : receiver * (list N + rerr) :=
  let '(r1, e) := if r_end r <? r_start r + k then fill k r else (r, None) in
  match e with
  | Some e => (r1, inr e)
  | None => (consume k r1, inl (ntake k (r_win r1)))
  end.

Definition recv_num (k : N) (r : receiver) : receiver * (N + rerr) :=
  match recv_fixed k r with
  | (r1, inl bs) => (r1, inl (of_be bs))
  | (r1, inr e) => (r1, inr e)
  end.

(* ReceiveData's loop *)
Fixpoint rdata_loop (fuel : nat) (need : N) (acc : list N) (r : receiver) : receiver * (list N + rerr) :=
  if need =? 0 then (r, inl acc) else
  match fuel with
  | O => (r, inr EFuel)
  | S f =>
    let '(r1, e) := if r_end r <=? r_start r then fill (N.min need rcap) r else (r, None) in
    match e with
    | Some e => (r1, inr e)
    | None =>
      let avail := N.min (r_end r1 - r_start r1) need in
      rdata_loop f (need - avail) (acc ++ ntake avail (r_win r1)) (consume avail r1)
    end
  end.

Definition recv_data (r : receiver) : receiver * (list N + rerr) :=
  match recv_num 4 r with
  | (r1, inr e) => (r1, inr e)
  | (r1, inl len) => rdata_loop (N.to_nat len) len [] r1
  end.

(* ReceiveInputSizes's loop *)
Fixpoint rsizes_loop (count : nat) (acc : list N) (r : receiver) : receiver * (list N + rerr) :=
  match count with
  | O => (r, inl acc)
  | S c =>
    match recv_num 4 r with
    | (r1, inr e) => (r1, inr e)
    | (r1, inl v) => rsizes_loop c (acc ++ [v]) r1
    end
  end.

Definition recv_sizes (r : receiver) : receiver * (list N + rerr) :=
  match recv_num 4 r with
  | (r1, inr e) => (r1, inr e)
  | (r1, inl count) => rsizes_loop (N.to_nat count) [] r1
  end.

Definition wrap {A} (f : A -> val) (x : receiver * (A + rerr)) : receiver * (val + rerr) :=
  match x with
  | (r, inl a) => (r, inl (f a))
  | (r, inr e) => (r, inr e)
  end.

Definition recv_ty (t : ty) (r : receiver) : receiver * (val + rerr) :=
  match t with
  | TByte => wrap VByte (recv_num 1 r)
  | TU16 => wrap VU16 (recv_num 2 r)
  | TU32 => wrap VU32 (recv_num 4 r)
  | TData => wrap VData (recv_data r)
  | TString => wrap VString (recv_data r)
  | TLabel => wrap VLabel (recv_num 16 r)
  | TSizes => wrap VSizes (recv_sizes r)
  | TRaw k => wrap VRaw (recv_fixed k r)
  end.

(* the matching sequence of typed receives; stops at the first error *)
Fixpoint recv_all (tys : list ty) (r : receiver) : receiver * option (list val) :=
  match tys with
  | [] => (r, Some [])
  | t :: rest =>
    match recv_ty t r with
    | (r1, inr _) => (r1, None)
    | (r1, inl v) =>
      match recv_all rest r1 with
      | (r2, Some vs) => (r2, Some (v :: vs))
      | (r2, None) => (r2, None)
      end
    end
  end.

End Receiver.

(* --------------------------------------------------------- abstract parser *)

(* What the typed receives are supposed to compute, on a plain byte list. *)
Definition parse_fixed (k : N) (s : list N) : option (list N * list N) :=
  if k <=? nlen s then Some (ntake k s, ndrop k s) else None.

Definition parse_num (k : N) (s : list N) : option (N * list N) :=
  match parse_fixed k s with Some (bs, rest) => Some (of_be bs, rest) | None => None end.

Definition parse_data (s : list N) : option (list N * list N) :=
  match parse_num 4 s with
  | Some (len, rest) => parse_fixed len rest
  | None => None
  end.

Fixpoint parse_nums (count : nat) (s : list N) : option (list N * list N) :=
  match count with
  | O => Some ([], s)
  | S c =>
    match parse_num 4 s with
    | Some (v, rest) =>
      match parse_nums c rest with
      | Some (vs, rest') => Some (v :: vs, rest')
      | None => None
      end
    | None => None
    end
  end.

Definition parse_sizes (s : list N) : option (list N * list N) :=
  match parse_num 4 s with
  | Some (count, rest) => parse_nums (N.to_nat count) rest
  | None => None
  end.

Definition omap {A B} (f : A -> B) (x : option (A * list N)) : option (B * list N) :=
  match x with Some (a, rest) => Some (f a, rest) | None => None end.

Definition parse_ty (t : ty) (s : list N) : option (val * list N) :=
  match t with
  | TByte => omap VByte (parse_num 1 s)
  | TU16 => omap VU16 (parse_num 2 s)
  | TU32 => omap VU32 (parse_num 4 s)
  | TData => omap VData (parse_data s)
  | TString => omap VString (parse_data s)
  | TLabel => omap VLabel (parse_num 16 s)
  | TSizes => omap VSizes (parse_sizes s)
  | TRaw k => omap VRaw (parse_fixed k s)
  end.

Fixpoint parse_all (tys : list ty) (s : list N) : option (list val * list N) :=
  match tys with
  | [] => Some ([], s)
  | t :: rest =>
    match parse_ty t s with
    | Some (v, s1) =>
      match parse_all rest s1 with
      | Some (vs, s2) => Some (v :: vs, s2)
      | None => None
      end
    | None => None
    end
  end.

(* --------------------------------------------------------------- the ring *)

(* Small-step model of NewConn / writer() / Flush / Close as two threads
   (main, writer goroutine) communicating over the buffered channels
   toWriter and fromWriter (capacity numBuffers each).  A buffer is a number
   0..nbuf-1; [g_mem b] is its current content.  A slice sent on toWriter is
   (buffer, length): it aliases the buffer, its bytes are whatever the buffer
   holds when the writer goroutine finally calls conn.Write. *)

Close Scope N_scope.
Open Scope nat_scope.

Inductive mpc :=
| MInit            (* NewConn: before  c.WriteBuf = <-c.fromWriter *)
| MFill            (* between calls / inside a Send*: may write into c.WriteBuf *)
| MWait            (* Flush: after toWriter <- buf, before next := <-fromWriter *)
| MDrain           (* Close: after close_conn(toWriter), ranging over fromWriter *)
| MClosed.         (* Close returned *)

Inductive wpc :=
| WAlloc (k : nat)           (* writer(): k buffers made and sent so far *)
| WIdle                      (* for buf := range c.toWriter *)
| WHave (b : nat) (l : nat)  (* got buf, before conn.Write(buf) *)
| WWrote (b : nat)           (* after conn.Write, before fromWriter <- buf[0:cap] *)
| WDone.                     (* after close_conn(c.fromWriter) *)

Record ring := mkG {
  g_main : mpc;
  g_cur : option nat;               (* the buffer c.WriteBuf designates while main may write it *)
  g_acq : nat;                      (* ghost: number of receives main has done on fromWriter *)
  g_toW : list (nat * nat);         (* channel toWriter: (buffer, length) *)
  g_toW_closed : bool;
  g_fromW : list nat;               (* channel fromWriter *)
  g_fromW_closed : bool;
  g_w : wpc;
  g_mem : nat -> list N;            (* buffer contents *)
  g_dropped : list nat;             (* ghost: buffers received and dropped by Close's drain loop *)
  g_flushed : list (list N);        (* ghost: contents of the slices at the moment Flush sent them *)
  g_written : list (list N)         (* the conn.Write calls so far *)
}.

Definition g_init (mem : nat -> list N) : ring :=
  mkG MInit None 0 [] false [] false (WAlloc 0) mem [] [] [].

Definition upd (mem : nat -> list N) (b : nat) (c : list N) : nat -> list N :=
  fun x => if Nat.eqb x b then c else mem x.

Section Ring.
Variable nb : nat.      (* numBuffers: number of buffers and capacity of both channels *)

Inductive rstep : ring -> ring -> Prop :=
(* writer(): c.fromWriter <- make([]byte, writeBufSize), nb times; blocks when the channel is full *)
| R_alloc : forall g k, g_w g = WAlloc k -> k < nb -> length (g_fromW g) < nb ->
    rstep g (mkG (g_main g) (g_cur g) (g_acq g) (g_toW g) (g_toW_closed g) (g_fromW g ++ [k]) (g_fromW_closed g)
                 (WAlloc (S k)) (g_mem g) (g_dropped g) (g_flushed g) (g_written g))
| R_alloc_done : forall g, g_w g = WAlloc nb ->
    rstep g (mkG (g_main g) (g_cur g) (g_acq g) (g_toW g) (g_toW_closed g) (g_fromW g) (g_fromW_closed g)
                 WIdle (g_mem g) (g_dropped g) (g_flushed g) (g_written g))
(* NewConn: c.WriteBuf = <-c.fromWriter *)
| R_init : forall g b rest, g_main g = MInit -> g_fromW g = b :: rest ->
    rstep g (mkG MFill (Some b) (S (g_acq g)) (g_toW g) (g_toW_closed g) rest (g_fromW_closed g)
                 (g_w g) (g_mem g) (g_dropped g) (g_flushed g) (g_written g))
(* any Send*: main stores arbitrary bytes into the buffer c.WriteBuf designates *)
| R_fill : forall g b c, g_main g = MFill -> g_cur g = Some b ->
    rstep g (mkG MFill (Some b) (g_acq g) (g_toW g) (g_toW_closed g) (g_fromW g) (g_fromW_closed g)
                 (g_w g) (upd (g_mem g) b c) (g_dropped g) (g_flushed g) (g_written g))
(* Flush, first half: c.toWriter <- c.WriteBuf[0:c.WritePos]  (WritePos = l > 0); blocks when full *)
| R_flush_send : forall g b l, g_main g = MFill -> g_cur g = Some b -> 0 < l ->
    length (g_toW g) < nb ->
    rstep g (mkG MWait None (g_acq g) (g_toW g ++ [(b, l)]) (g_toW_closed g) (g_fromW g) (g_fromW_closed g)
                 (g_w g) (g_mem g) (g_dropped g) (g_flushed g ++ [firstn l (g_mem g b)]) (g_written g))
(* Flush, second half: next := <-c.fromWriter; c.WriteBuf = next *)
| R_flush_recv : forall g b rest, g_main g = MWait -> g_fromW g = b :: rest ->
    rstep g (mkG MFill (Some b) (S (g_acq g)) (g_toW g) (g_toW_closed g) rest (g_fromW_closed g)
                 (g_w g) (g_mem g) (g_dropped g) (g_flushed g) (g_written g))
(* writer: buf := <-c.toWriter *)
| R_w_take : forall g b l rest, g_w g = WIdle -> g_toW g = (b, l) :: rest ->
    rstep g (mkG (g_main g) (g_cur g) (g_acq g) rest (g_toW_closed g) (g_fromW g) (g_fromW_closed g)
                 (WHave b l) (g_mem g) (g_dropped g) (g_flushed g) (g_written g))
(* writer: c.conn.Write(buf) — the bytes are read from the buffer now *)
| R_w_write : forall g b l, g_w g = WHave b l ->
    rstep g (mkG (g_main g) (g_cur g) (g_acq g) (g_toW g) (g_toW_closed g) (g_fromW g) (g_fromW_closed g)
                 (WWrote b) (g_mem g) (g_dropped g) (g_flushed g) (g_written g ++ [firstn l (g_mem g b)]))
(* writer: c.fromWriter <- buf[0:cap(buf)]; blocks when full *)
| R_w_return : forall g b, g_w g = WWrote b -> length (g_fromW g) < nb ->
    rstep g (mkG (g_main g) (g_cur g) (g_acq g) (g_toW g) (g_toW_closed g) (g_fromW g ++ [b]) (g_fromW_closed g)
                 WIdle (g_mem g) (g_dropped g) (g_flushed g) (g_written g))
(* Close (after its Flush): close_conn(c.toWriter) *)
| R_close : forall g, g_main g = MFill ->
    rstep g (mkG MDrain (g_cur g) (g_acq g) (g_toW g) true (g_fromW g) (g_fromW_closed g)
                 (g_w g) (g_mem g) (g_dropped g) (g_flushed g) (g_written g))
(* writer: range over closed, empty toWriter ends; close_conn(c.fromWriter) *)
| R_w_done : forall g, g_w g = WIdle -> g_toW g = [] -> g_toW_closed g = true ->
    rstep g (mkG (g_main g) (g_cur g) (g_acq g) (g_toW g) true (g_fromW g) true
                 WDone (g_mem g) (g_dropped g) (g_flushed g) (g_written g))
(* Close: for buf := range c.fromWriter { _ = buf } *)
| R_drain : forall g b rest, g_main g = MDrain -> g_fromW g = b :: rest ->
    rstep g (mkG MDrain (g_cur g) (S (g_acq g)) (g_toW g) (g_toW_closed g) rest (g_fromW_closed g)
                 (g_w g) (g_mem g) (g_dropped g ++ [b]) (g_flushed g) (g_written g))
| R_drain_done : forall g, g_main g = MDrain -> g_fromW g = [] -> g_fromW_closed g = true ->
    rstep g (mkG MClosed (g_cur g) (g_acq g) (g_toW g) (g_toW_closed g) [] true
                 (g_w g) (g_mem g) (g_dropped g) (g_flushed g) (g_written g)).

Inductive reachable (mem0 : nat -> list N) : ring -> Prop :=
| reach_init : reachable mem0 (g_init mem0)
| reach_step : forall g g', reachable mem0 g -> rstep g g' -> reachable mem0 g'.

End Ring.
