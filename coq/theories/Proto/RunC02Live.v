(* RunC02Live.v — executable entry tying the liveness model to real sessions.
   input  = (99 kind ((label count) ...) ((label outer-stack (count_0 count_1 ...)) ...)
             ((label stack bool) ...) maxwrite)
            kind: 0 CO, 1 RSA, 2 COT, 3 COT malicious; label = list of character
            codes; loop counts of top-level loops, and of nested loops per value
            of the innermost enclosing index; stack = enclosing iteration
            indices, innermost first;
            maxwrite = size of the largest Write the transport saw
   output = (finished mode ((dir nmsgs) ...))
            the flush segments, in the order they reach the wire, of the
            deterministic reference run (no automatic flush) of the skeletons
            GENERATED from the source (Gen/Skel.v) under that environment;
            dir 1 = garbler->evaluator; mode 1 (consecutive segments of one
            direction merged into turns) when a write came within one label of
            p2p.writeBufSize (Gen/Consts.v), i.e. when Conn may have flushed on
            its own, else 0.
   [run_c02x] dispatches on the tag so that one extracted model serves both
   kinds of cases of the C02 harness. *)
From Coq Require Import ZArith NArith List Bool.
From Mpc Require Import Base.Sx Gen.Consts Proto.Live Gen.Skel Proto.LiveInst Proto.RunC02 Proto.LiveAbort.
Import ListNotations.

Definition str_of_sx (s : sx) : name := Nm (getLN s).

Fixpoint lnat_eqb (a b : list nat) : bool :=
  match a, b with
  | [], [] => true
  | x :: a', y :: b' => Nat.eqb x y && lnat_eqb a' b'
  | _, _ => false
  end.

Fixpoint lookup {A : Type} (tab : list (name * list nat * A)) (l : name) (st : list nat) (d : A) : A :=
  match tab with
  | [] => d
  | (l', st', v) :: r => if name_eqb l l' && lnat_eqb st st' then v else lookup r l st d
  end.

Fixpoint lookup0 (tab : list (name * nat)) (l : name) : nat :=
  match tab with
  | [] => 0%nat
  | (l', v) :: r => if name_eqb l l' then v else lookup0 r l
  end.

(* counts of top-level loops: (label count); of nested loops: (label outer-stack
   (count for inner index 0, 1, ...)) *)
Definition env_of_sx (sc vc bt : sx) : env :=
  let stab := map (fun e => (str_of_sx (nthx 0 e), getnat (nthx 1 e))) (getL sc) in
  let vtab := map (fun e => (str_of_sx (nthx 0 e), getLnat (nthx 1 e), getLnat (nthx 2 e))) (getL vc) in
  let btab := map (fun e => (str_of_sx (nthx 0 e), getLnat (nthx 1 e), getB (nthx 2 e))) (getL bt) in
  mkEnv (fun l st => match st with
                     | [] => lookup0 stab l
                     | i :: outer => nth i (lookup vtab l outer []) 0%nat
                     end)
        (fun l st => lookup btab l st false).

Definition kind_of_Z (z : Z) : otkind :=
  if (z =? 0)%Z then KCo else if (z =? 1)%Z then KRsa else if (z =? 2)%Z then KCot else KCotMalicious.

Definition run_c02live (inp : sx) : sx :=
  let k := kind_of_Z (getZ (nthx 1 inp)) in
  let en := env_of_sx (nthx 2 inp) (nthx 3 inp) (nthx 4 inp) in
  let maxw := getZ (nthx 5 inp) in
  let tg := flat en [] (garbler_skel k) in
  let te := flat en [] (evaluator_skel k) in
  let n := (List.length tg + List.length te + 1)%nat in
  let '(g, e, segs) := run_ref n n (mkHalf tg [] []) (mkHalf te [] []) [] in
  let fin := half_done g && half_done e in
  let merged := (p2p_writeBufSize <=? maxw + 16)%Z in
  let out := if merged then turns segs else segs in
  SL [ofB fin; ofB merged; SL (map (fun s => SL [ofB (fst s); ofnat (snd s)]) out)].

(* error exits (Proto/LiveAbort.v):
   input  = (98 kind counts nested-counts branches gfails k): the transport of the
            garbler (gfails = 1) or of the evaluator fails at that party's k-th
            Receive (0-based; k >= number of its receives: no failure); the caller
            closes the connection after an error return, as apps/garbled does
   output = (gcode grecv ecode erecv) of the deterministic reference run of the
            GENERATED skeletons: code 0 returned normally, 1 returned an error and
            closed, 2 failed on the peer's close (EOF), 4 still blocked; number of
            messages the party received *)
Definition run_c02abort (inp : sx) : sx :=
  let k := kind_of_Z (getZ (nthx 1 inp)) in
  let en := env_of_sx (nthx 2 inp) (nthx 3 inp) (nthx 4 inp) in
  let gf := getB (nthx 5 inp) in
  let kk := getnat (nthx 6 inp) in
  let tg := flat en [] (garbler_skel k) in
  let te := flat en [] (evaluator_skel k) in
  let sp := mkSpec (if gf then rem_at_recv kk tg else None)
                   (if gf then None else rem_at_recv kk te) true in
  let n := (List.length tg + List.length te + 3)%nat in
  let s := aref n n sp (ainit tg te) in
  let b := base s in
  SL [ofnat (st_code (stG s) (cG b)); ofnat (count_recv tg - count_recv (hp (cG b)));
      ofnat (st_code (stE s) (cE b)); ofnat (count_recv te - count_recv (hp (cE b)))].

Definition run_c02x (inp : sx) : sx :=
  match inp with
  | SL (SZ 98%Z :: _) => run_c02abort inp
  | SL (SZ 99%Z :: _) => run_c02live inp
  | _ => run_c02 inp
  end.
