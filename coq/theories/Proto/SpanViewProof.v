(* SpanViewProof.v — C16: R is not in the GF(2)-span of the evaluator's view.
   (1) linear algebra on bitsets: a chain (GGarbleProof.chain: every value has a
       basis bit that no earlier value has) is linearly independent, R is not
       in its span and no two elements of its span are R apart;
   (2) the symbolic transcript of every wf circuit is a chain (the invariant of
       GGarbleProof.sym_fold — the proof of C04's sym_whole_circuit_safe up to
       its last step);
   (3) soundness of the executable span test (SpanView.in_span_b);
   (4) the composed statements and non-vacuity examples. *)
From Coq Require Import NArith List Bool Arith Lia ZifyN ZifyNat ZifyBool.
From Mpc Require Import Base.Label Circuit.Circuit Circuit.Garble Circuit.GarbleProof
     Circuit.GGarble Circuit.GGarbleProof Proto.SpanView.
Import ListNotations.
Open Scope N_scope.

(* ---------------------------------------------------------------- (1) *)
Lemma span_xor_nil_l tr : span_xor [] tr = 0.
Proof. destruct tr; reflexivity. Qed.

Lemma span_xor_nil_r sel : span_xor sel [] = 0.
Proof. destruct sel; reflexivity. Qed.

Lemma span_xor_snoc : forall tr sel v,
  span_xor sel (tr ++ [v]) =
  lxor (span_xor sel tr) (if nth (length tr) sel false then v else 0).
Proof.
  induction tr as [|a tr IH]; intros sel v.
  - destruct sel as [|s sel]; cbn [app span_xor length nth]; [reflexivity|].
    rewrite span_xor_nil_r. destruct s; xor_solve.
  - destruct sel as [|s sel]; cbn [app span_xor length nth]; [reflexivity|].
    rewrite IH. rewrite lxor_assoc. reflexivity.
Qed.

(* a bit that no value of tr has is clear in every combination *)
Lemma span_xor_bit_clear b : forall tr sel,
  (forall u, In u tr -> N.testbit u b = false) -> N.testbit (span_xor sel tr) b = false.
Proof.
  induction tr as [|a tr IH]; intros sel Hu.
  - rewrite span_xor_nil_r. apply N.bits_0.
  - destruct sel as [|s sel]; cbn [span_xor]; [apply N.bits_0|].
    unfold lxor. rewrite N.lxor_spec. rewrite IH by (intros u Hin; apply Hu; right; exact Hin).
    destruct s; [rewrite (Hu a) by (left; reflexivity)|rewrite N.bits_0]; reflexivity.
Qed.

Lemma span_xor_none : forall tr sel,
  (forall i, (i < length tr)%nat -> nth i sel false = false) -> span_xor sel tr = 0.
Proof.
  induction tr as [|a tr IH]; intros sel Hs.
  - apply span_xor_nil_r.
  - destruct sel as [|s sel]; cbn [span_xor]; [reflexivity|].
    assert (s = false) by (apply (Hs 0%nat); cbn; lia). subst s.
    rewrite IH; [reflexivity|]. intros i Hi. apply (Hs (S i)). cbn. lia.
Qed.

Lemma chain_app_l tr v : chain (tr ++ [v]) -> chain tr.
Proof.
  intros C k Hk. destruct (C k) as (b & B1 & B2 & B3).
  - rewrite app_length. cbn. lia.
  - exists b. split; [exact B1|]. rewrite app_nth1 in B2 by exact Hk. split; [exact B2|].
    intros i Hi. specialize (B3 i Hi). rewrite app_nth1 in B3 by lia. exact B3.
Qed.

Lemma chain_last tr v : chain (tr ++ [v]) ->
  exists b, 2 <= b /\ N.testbit v b = true /\ forall u, In u tr -> N.testbit u b = false.
Proof.
  intros C. destruct (C (length tr)) as (b & B1 & B2 & B3).
  - rewrite app_length. cbn. lia.
  - exists b. split; [exact B1|].
    rewrite app_nth2, Nat.sub_diag in B2 by lia. cbn [nth] in B2. split; [exact B2|].
    intros u Hu. destruct (In_nth _ _ 0 Hu) as (i & Hi & Ei).
    specialize (B3 i Hi). rewrite app_nth1 in B3 by exact Hi. rewrite Ei in B3. exact B3.
Qed.

(* the triangular system: a combination either selects nothing or has a basis
   bit (>= 2) set *)
Lemma chain_span : forall tr, chain tr -> forall sel,
  (forall i, (i < length tr)%nat -> nth i sel false = false) \/
  (exists b, 2 <= b /\ N.testbit (span_xor sel tr) b = true).
Proof.
  induction tr as [|v tr IH] using rev_ind; intros C sel.
  - left. intros i Hi. cbn in Hi. lia.
  - rewrite span_xor_snoc.
    destruct (chain_last tr v C) as (b & B1 & B2 & B3).
    destruct (nth (length tr) sel false) eqn:Es.
    + right. exists b. split; [exact B1|]. unfold lxor. rewrite N.lxor_spec, B2.
      rewrite (span_xor_bit_clear b tr sel B3). reflexivity.
    + rewrite lxor_0_r. destruct (IH (chain_app_l tr v C) sel) as [Hn|Hb].
      * left. intros i Hi. rewrite app_length in Hi. cbn [length] in Hi.
        destruct (Nat.eq_dec i (length tr)) as [->|Hne]; [exact Es|apply Hn; lia].
      * right. exact Hb.
Qed.

(* linear independence *)
Lemma chain_independent tr sel :
  chain tr -> span_xor sel tr = 0 -> forall i, (i < length tr)%nat -> nth i sel false = false.
Proof.
  intros C E. destruct (chain_span tr C sel) as [Hn|(b & _ & Hb)]; [exact Hn|].
  rewrite E, N.bits_0 in Hb. discriminate.
Qed.

Lemma chain_span_not_R tr sel : chain tr -> span_xor sel tr <> Rsym.
Proof.
  intros C E. destruct (chain_span tr C sel) as [Hn|(b & B1 & Hb)].
  - rewrite (span_xor_none tr sel Hn) in E. discriminate.
  - rewrite E, bits_R in Hb. lia.
Qed.

(* the span is closed under xor *)
Lemma in_span_cons v a tr : in_span v (a :: tr) <-> in_span v tr \/ in_span (lxor v a) tr.
Proof.
  split.
  - intros [sel E]. destruct sel as [|s sel]; cbn [span_xor] in E.
    + left. exists []. rewrite span_xor_nil_l. exact E.
    + destruct s.
      * right. exists sel. subst v. xor_solve.
      * left. exists sel. subst v. xor_solve.
  - intros [[sel E]|[sel E]].
    + exists (false :: sel). cbn [span_xor]. rewrite E. xor_solve.
    + exists (true :: sel). cbn [span_xor]. rewrite E. xor_solve.
Qed.

Lemma in_span_0 tr : in_span 0 tr.
Proof. exists []. apply span_xor_nil_l. Qed.

Lemma in_span_nil v : in_span v [] <-> v = 0.
Proof.
  split; [intros [sel E]; rewrite span_xor_nil_r in E; congruence|intros ->; apply in_span_0].
Qed.

Lemma in_span_lxor : forall tr v w, in_span v tr -> in_span w tr -> in_span (lxor v w) tr.
Proof.
  induction tr as [|a tr IH]; intros v w Hv Hw.
  - apply in_span_nil in Hv, Hw. subst. apply in_span_0.
  - apply in_span_cons in Hv, Hw. apply in_span_cons.
    destruct Hv as [Hv|Hv], Hw as [Hw|Hw].
    + left. apply IH; assumption.
    + right. replace (lxor (lxor v w) a) with (lxor v (lxor w a)) by xor_solve. apply IH; assumption.
    + right. replace (lxor (lxor v w) a) with (lxor (lxor v a) w) by xor_solve. apply IH; assumption.
    + left. replace (lxor v w) with (lxor (lxor v a) (lxor w a)) by xor_solve. apply IH; assumption.
Qed.

Lemma in_span_elem tr v : In v tr -> in_span v tr.
Proof.
  induction tr as [|a tr IH]; intros Hin; [destruct Hin|].
  apply in_span_cons. destruct Hin as [->|Hin].
  - right. rewrite lxor_nilp. apply in_span_0.
  - left. apply IH. exact Hin.
Qed.

Lemma in_span_incl_step a tr v : in_span v tr -> in_span v (a :: tr).
Proof. intros H. apply in_span_cons. left. exact H. Qed.

(* no two elements of the span of a chain are R apart *)
Lemma chain_span_no_R_pair tr h : chain tr -> in_span h tr -> ~ in_span (lxor h Rsym) tr.
Proof.
  intros C Hh Hr. pose proof (in_span_lxor tr _ _ Hh Hr) as [sel E].
  apply (chain_span_not_R tr sel C). rewrite E. xor_solve.
Qed.

(* ---------------------------------------------------------------- (2) *)
(* the C04 invariant for the whole-circuit transcript, as a chain *)
Theorem sym_whole_circuit_chain (perm : nat -> bool) (c : circuit) (x : list bool) :
  wf c = true -> tweaks_of (gates c) <= 2 ^ 32 ->
  chain (sym_transcript perm c x).
Proof.
  intros Hwf Htw.
  unfold wf in Hwf.
  apply andb_prop in Hwf; destruct Hwf as [Hwf Hout].
  apply andb_prop in Hwf; destruct Hwf as [Hwf Hgs].
  apply andb_prop in Hwf; destruct Hwf as [Hni Hno].
  apply Nat.leb_le in Hni.
  unfold sym_transcript, sym_garble.
  set (n := nwires c) in *. set (ni := ninputs c) in *.
  set (gw0 := sym_inputs perm ni ++ repeat w0 (n - ni)).
  assert (Hin0 : forall w, (w < ni)%nat ->
            nth w gw0 w0 = mkWire (basis perm w) (lxor (basis perm w) Rsym)).
  { intros w Hw. unfold gw0. rewrite app_nth1 by (unfold sym_inputs; rewrite map_length, seq_length; exact Hw).
    unfold sym_inputs.
    rewrite nth_indep with (d' := (fun i => mkWire (basis perm i) (lxor (basis perm i) Rsym)) 0%nat)
      by (rewrite map_length, seq_length; exact Hw).
    rewrite (map_nth (fun i => mkWire (basis perm i) (lxor (basis perm i) Rsym))).
    rewrite seq_nth by exact Hw. reflexivity. }
  assert (Hins : forall k, (k <= ni)%nat ->
            chain (map (fun i => pick (nth i gw0 w0) (nth i x false)) (seq 0 k)) /\
            forall v, In v (map (fun i => pick (nth i gw0 w0) (nth i x false)) (seq 0 k)) ->
                      clear_from (N.of_nat k + 2) v).
  { induction k as [|k IHk]; intros Hk.
    - cbn. split; [apply chain_nil|intros v []].
    - destruct (IHk ltac:(lia)) as [Ck Bk].
      rewrite seq_S, map_app. cbn [map Nat.add].
      assert (Cv : clear_from (N.of_nat (S k) + 2) (pick (nth k gw0 w0) (nth k x false))).
      { rewrite Hin0 by lia. destruct (nth k x false); cbn [pick L0 L1];
          [apply clear_from_lxor; [apply clear_from_basis; lia|apply clear_from_R; lia]
          |apply clear_from_basis; lia]. }
      split.
      + apply chain_snoc with (b := N.of_nat k + 2); [exact Ck|lia| |].
        * rewrite Hin0 by lia. destruct (nth k x false); cbn [pick L0 L1]; bb.
        * intros u Hu. apply (Bk u Hu). lia.
      + intros v Hv. apply in_app_or in Hv. destruct Hv as [Hv|[<-|[]]].
        * eapply clear_from_mono; [|apply Bk; exact Hv]. lia.
        * exact Cv. }
  destruct (Hins ni (Nat.le_refl _)) as [Cin Bin].
  pose proof (sym_fold perm n ni (gates c) gw0 (init_asg c) 0 ni []
                (map (fun i => pick (nth i gw0 w0) (nth i x false)) (seq 0 ni))) as SF.
  destruct (ggates sst sym_sbit (sym_H perm) Rsym gw0 0 (mkSst ni []) (gates c))
    as [[[gwf idf] rows] stf].
  destruct SF as [HI Hkeep].
  - split. { unfold gw0, sym_inputs. rewrite app_length, map_length, seq_length, repeat_length. lia. }
    split. { unfold init_asg. fold ni n. rewrite app_length, !repeat_length. lia. }
    split.
    { intros w Hw. unfold init_asg in Hw. fold ni in Hw.
      assert (Hlt : (w < ni)%nat).
      { destruct (Nat.lt_ge_cases w ni) as [Hl|Hg]; [exact Hl|].
        rewrite app_nth2 in Hw by (rewrite repeat_length; exact Hg).
        exfalso. revert Hw. generalize (w - length (repeat true ni))%nat. intros m.
        destruct (nth_in_or_default m (repeat false (nwires c - ni)) false) as [Hin|Hd].
        - apply repeat_spec in Hin. congruence.
        - congruence. }
      rewrite (Hin0 w Hlt). split; [reflexivity|]. cbn [L0]. apply clear_from_basis. lia. }
    split; [exact Bin|]. split; [intros k m []|exact Cin].
  - exact Hgs.
  - lia.
  - destruct HI as (_ & _ & _ & _ & _ & CH).
    assert (E : map (fun i => pick (nth i gwf w0) (nth i x false)) (seq 0 ni)
              = map (fun i => pick (nth i gw0 w0) (nth i x false)) (seq 0 ni)).
    { apply map_ext_in. intros i Hi. apply in_seq in Hi. rewrite Hkeep by lia. reflexivity. }
    rewrite E. exact CH.
Qed.

(* ---------------------------------------------------------------- (3) *)
(* soundness of the executable test: every vector the elimination keeps, and
   every reduction it performs, stays inside the span *)
Lemma reduce_span tr : forall bs v,
  (forall b, In b bs -> in_span b tr) -> in_span (lxor v (reduce bs v)) tr.
Proof.
  induction bs as [|b bs IH]; intros v Hb; cbn [reduce].
  - rewrite lxor_nilp. apply in_span_0.
  - assert (Hbs : forall b', In b' bs -> in_span b' tr) by (intros b' Hin; apply Hb; right; exact Hin).
    destruct (N.testbit v (N.log2 b)).
    + replace (lxor v (reduce bs (lxor v b)))
        with (lxor b (lxor (lxor v b) (reduce bs (lxor v b)))) by xor_solve.
      apply in_span_lxor; [apply Hb; left; reflexivity|apply IH; exact Hbs].
    + apply IH. exact Hbs.
Qed.

Lemma insert_desc_In b bs x : In x (insert_desc b bs) -> x = b \/ In x bs.
Proof.
  induction bs as [|c bs IH]; cbn [insert_desc]; intros H.
  - destruct H as [<-|[]]. left. reflexivity.
  - destruct (N.log2 c <? N.log2 b).
    + destruct H as [<-|H]; [left; reflexivity|right; exact H].
    + destruct H as [<-|H]; [right; left; reflexivity|].
      destruct (IH H) as [->|Hin]; [left; reflexivity|right; right; exact Hin].
Qed.

Lemma add_vec_span tr bs v :
  (forall b, In b bs -> in_span b tr) -> in_span v tr ->
  forall b, In b (add_vec bs v) -> in_span b tr.
Proof.
  intros Hb Hv b. unfold add_vec. destruct (N.eqb (reduce bs v) 0); [apply Hb|].
  intros Hin. destruct (insert_desc_In _ _ _ Hin) as [->|Hin']; [|apply Hb; exact Hin'].
  replace (reduce bs v) with (lxor v (lxor v (reduce bs v))) by xor_solve.
  apply in_span_lxor; [exact Hv|apply reduce_span; exact Hb].
Qed.

Lemma fold_add_vec_span tr : forall l bs,
  (forall b, In b bs -> in_span b tr) -> (forall v, In v l -> in_span v tr) ->
  forall b, In b (fold_left add_vec l bs) -> in_span b tr.
Proof.
  induction l as [|v l IH]; intros bs Hb Hl; cbn [fold_left]; [exact Hb|].
  apply IH.
  - apply add_vec_span; [exact Hb|apply Hl; left; reflexivity].
  - intros w Hw. apply Hl. right. exact Hw.
Qed.

Lemma in_span_b_sound v tr : in_span_b v tr = true -> in_span v tr.
Proof.
  unfold in_span_b. intros H. apply N.eqb_eq in H.
  assert (Hb : forall b, In b (gf2_basis tr) -> in_span b tr).
  { unfold gf2_basis. apply fold_add_vec_span; [intros b []|intros w Hw; apply in_span_elem; exact Hw]. }
  pose proof (reduce_span tr (gf2_basis tr) v Hb) as S. rewrite H, lxor_0_r in S. exact S.
Qed.

(* ---------------------------------------------------------------- (4) *)
Theorem forgery_not_in_span (perm : nat -> bool) (c : circuit) (x : list bool) :
  wf c = true -> tweaks_of (gates c) <= 2 ^ 32 ->
  let view := sym_transcript perm c x in
  (forall sel, span_xor sel view <> Rsym) /\
  (forall h, in_span h view -> ~ in_span (lxor h Rsym) view) /\
  (forall sel, span_xor sel view = 0 -> forall i, (i < length view)%nat -> nth i sel false = false).
Proof.
  intros Hwf Htw view. pose proof (sym_whole_circuit_chain perm c x Hwf Htw) as C. fold view in C.
  split; [intros sel; apply chain_span_not_R; exact C|].
  split; [intros h; apply chain_span_no_R_pair; exact C|].
  intros sel E. apply chain_independent; assumption.
Qed.

(* a response that is a linear function of the view, for an output wire whose
   honest label the evaluator can itself derive linearly from the view, is
   accepted by the garbler's label test only with the right bit *)
Theorem linear_response_right_bit (perm : nat -> bool) (c : circuit) (x : list bool)
        (w : wire) (v : bool) (sel : list bool) (b : bool) :
  wf c = true -> tweaks_of (gates c) <= 2 ^ 32 ->
  L1 w = lxor (L0 w) Rsym ->
  let view := sym_transcript perm c x in
  in_span (pick w v) view ->
  sym_accepts w (span_xor sel view) = Some b -> b = v.
Proof.
  intros Hwf Htw Hw view Hh Hacc.
  destruct (forgery_not_in_span perm c x Hwf Htw) as (_ & NP & _). fold view in NP.
  unfold sym_accepts in Hacc.
  destruct (N.eqb_spec (span_xor sel view) (L0 w)) as [E0|N0].
  - injection Hacc as <-. destruct v; [|reflexivity]. exfalso.
    cbn [pick] in Hh. apply (NP _ Hh). exists sel. fold view. rewrite E0, Hw. xor_solve.
  - destruct (N.eqb_spec (span_xor sel view) (L1 w)) as [E1|N1]; [|discriminate].
    injection Hacc as <-. destruct v; [reflexivity|]. exfalso.
    cbn [pick] in Hh. apply (NP _ Hh). exists sel. fold view. rewrite E1, Hw. reflexivity.
Qed.

(* the executable test never answers "R is in the span" / "two span elements R
   apart" on the transcript of a wf circuit *)
Theorem span_test_never_fires (perm : nat -> bool) (c : circuit) (x : list bool) :
  wf c = true -> tweaks_of (gates c) <= 2 ^ 32 ->
  let view := sym_transcript perm c x in
  in_span_b Rsym view = false /\
  forall h, in_span_b h view = true -> in_span_b (lxor h Rsym) view = false.
Proof.
  intros Hwf Htw view.
  destruct (forgery_not_in_span perm c x Hwf Htw) as (NR & NP & _). fold view in NR, NP.
  split.
  - destruct (in_span_b Rsym view) eqn:E; [|reflexivity].
    apply in_span_b_sound in E. destruct E as [sel E]. exfalso. exact (NR sel E).
  - intros h Hh. destruct (in_span_b (lxor h Rsym) view) eqn:E; [|reflexivity].
    exfalso. apply (NP h); apply in_span_b_sound; assumption.
Qed.

(* ---- non-vacuity *)
Definition span_ex_circ : circuit :=
  mkCircuit 8 2 2 [mkGate 0 1 2 XOR; mkGate 2 2 3 AND; mkGate 3 0 4 OR;
                   mkGate 4 0 2 INV; mkGate 2 1 5 XNOR; mkGate 5 4 6 AND;
                   mkGate 6 3 7 OR].
(* outputs: wire 2 = x0 xor x1 (linear), wire 3 = AND (not linear) *)
Definition span_ex_circ2 : circuit :=
  mkCircuit 4 2 2 [mkGate 0 1 3 AND; mkGate 0 1 2 XOR].

(* hypotheses satisfiable; the report of the executable model: 13 values of rank
   13, R not in the span, no output label or forgery in the span *)
Example span_ex_report :
  wf span_ex_circ = true /\ tweaks_of (gates span_ex_circ) <= 2 ^ 32 /\
  span_report (fun n => Nat.odd n) span_ex_circ [true; false]
  = (13%nat, 13%nat, false, [(false, false); (false, false)]).
Proof. vm_compute. repeat split; try reflexivity; discriminate. Qed.

(* an output whose honest label IS a linear function of the view (so the
   hypothesis of linear_response_right_bit is satisfiable), next to one that is not *)
Example span_ex_linear_output :
  wf span_ex_circ2 = true /\
  span_report (fun n => Nat.even n) span_ex_circ2 [true; true]
  = (4%nat, 4%nat, false, [(true, false); (false, false)]).
Proof. vm_compute. repeat split. Qed.

(* the test does fire on a view that leaks: with sha2pc's output hints (both
   labels of an output wire, GGarbleProof.sym_transcript_with_hints) R is in the span *)
Example span_ex_hints_fire :
  in_span_b Rsym (sym_transcript_with_hints (fun n => Nat.odd n) span_ex_circ [true; false]) = true /\
  (gf2_rank (sym_transcript_with_hints (fun n => Nat.odd n) span_ex_circ [true; false])
   < length (sym_transcript_with_hints (fun n => Nat.odd n) span_ex_circ [true; false]))%nat.
Proof. vm_compute. split; [reflexivity|lia]. Qed.
