(* MeshProof.v — theorems about the mesh-formation model of Mesh.v.

   1. stuttering / quiescence lemmas, the notion of a fair finite schedule;
   2. REGRESSION RECORD: the model of acceptConn as it was before /repo commit
      753a572 ([fixed = false]: need[c]-- published before the connection is
      stored) is refuted for n = 2, k = 1 (finding F11), by a schedule after
      which no continuation recovers;
   3. (MeshFixedProof.v) for the model of the code as it is now
      ([fixed = true]): an inductive invariant over all schedules (any n >= 2,
      1 <= k <= 256) giving
      - whenever a party's Connect has returned nil, the table the caller sees
        is complete (every other party is a peer with all k connections stored),
      - need[c] = 0 implies every expected inbound connection c is stored,
      - every stored connection joins the two right parties. *)
From Coq Require Import Arith List Bool PeanoNat Lia Sorted.
From Mpc Require Import Proto.Mesh.
Import ListNotations.

(* ------------------------------------------------------------------ *)
(** * 1. Stuttering, quiescence, fairness *)

Lemma exec_disabled fixed n k t st : step fixed n k t st = None -> exec fixed n k st t = st.
Proof. unfold exec; intros ->; reflexivity. Qed.

Lemma div2_ge n t : 2 * n <= t -> n <= Nat.div2 t.
Proof.
  intros H. rewrite Nat.div2_div. apply Nat.div_le_lower_bound; lia.
Qed.

Lemma step_out_of_range fixed n k t st : 2 * n <= t -> step fixed n k t st = None.
Proof.
  intros H. unfold step. apply div2_ge in H.
  destruct (n <=? Nat.div2 t) eqn:E; [reflexivity|]. apply Nat.leb_gt in E. lia.
Qed.

Lemma quiescent_step fixed n k st t : quiescent fixed n k st = true -> step fixed n k t st = None.
Proof.
  intros Q. destruct (Nat.lt_ge_cases t (2 * n)) as [L|G].
  - unfold quiescent in Q. rewrite forallb_forall in Q.
    specialize (Q t). unfold tids in Q. rewrite in_seq in Q.
    assert (H : negb (enabled fixed n k t st) = true) by (apply Q; lia).
    unfold enabled in H. destruct (step fixed n k t st); [discriminate|reflexivity].
  - now apply step_out_of_range.
Qed.

(* once no thread is enabled, no continuation of the schedule changes anything *)
Lemma quiescent_run fixed n k st sched :
  quiescent fixed n k st = true -> run_from fixed n k st sched = st.
Proof.
  intros Q. induction sched as [|t r IH]; [reflexivity|].
  unfold run_from in *. simpl. rewrite exec_disabled by now apply quiescent_step. exact IH.
Qed.

Lemma run_from_app fixed n k st s1 s2 :
  run_from fixed n k st (s1 ++ s2) = run_from fixed n k (run_from fixed n k st s1) s2.
Proof. unfold run_from. apply fold_left_app. Qed.

(* Fair finite schedules: the schedule can be cut into at least [r]
   consecutive segments each of which schedules every thread 0..2n-1 at least
   once ([count_rounds] cuts greedily, which maximises the number). *)
Fixpoint count_rounds_aux (all missing : list nat) (sched : list nat) : nat :=
  match sched with
  | [] => 0
  | t :: r =>
      let missing' := filter (fun x => negb (x =? t)) missing in
      match missing' with
      | [] => S (count_rounds_aux all all r)
      | _ => count_rounds_aux all missing' r
      end
  end.
Definition count_rounds (n : nat) (sched : list nat) : nat :=
  count_rounds_aux (seq 0 (2 * n)) (seq 0 (2 * n)) sched.

(* more rounds than any run of n parties with k connections has effective
   steps: one more than the initial value of the measure [mu] of MeshLive.v *)
Definition round_bound (n k : nat) : nat := S (n * (3 * ((k + 1) * (n + 3) + 6))).
Definition fair (n k : nat) (sched : list nat) : Prop := round_bound n k <= count_rounds n sched.

(* ------------------------------------------------------------------ *)
(** * 2. Regression record (finding F11): with the old three-step acceptConn
       C19_complete is false (n = 2, k = 1) *)

(* threads: 0 leader main, 1 leader accept, 2 party-1 main, 3 party-1 accept.
   Join(1); leader Connect-init; party 1 sends its hello; the leader's accept
   thread executes need[0]-- (and is then slow); the leader's main thread
   sees need[0] = 0, reads Peers = [0] and sends the network info to nobody;
   its Connect returns; the accept thread stores the connection.  Party 1
   waits for the network info for ever. *)
Definition f11_schedule : list nat := [2; 0; 2; 1; 0; 0; 1; 1].

Example f11_schedule_is_policy : policy_sched false 2 1 [1] 1 = f11_schedule.
Proof. vm_compute. reflexivity. Qed.

Notation f11_state := (run_from false 2 1 (init 2) f11_schedule) (only parsing).

Example f11_quiescent : quiescent false 2 1 f11_state = true.
Proof. vm_compute. reflexivity. Qed.

Example f11_leader_returned_short :
  p_main (g_party f11_state 0) = MDone /\
  (exists t, p_ret (g_party f11_state 0) = Some ([0], t)) /\
  p_main (g_party f11_state 1) = MRecvInfo.
Proof. vm_compute. split; [reflexivity|split; [eexists; reflexivity|reflexivity]]. Qed.

Example f11_not_complete : complete 2 1 f11_state = false.
Proof. vm_compute. reflexivity. Qed.

Definition round_robin (n r : nat) : list nat := concat (repeat (seq 0 (2 * n)) r).

Definition f11_fair_schedule : list nat := f11_schedule ++ round_robin 2 (S (round_bound 2 1)).

Example f11_fair : fair 2 1 f11_fair_schedule.
Proof. unfold fair. apply Nat.leb_le. vm_compute. reflexivity. Qed.

Lemma run_quiescent_prefix fixed n k st0 s1 s2 :
  quiescent fixed n k (run_from fixed n k st0 s1) = true ->
  run_from fixed n k st0 (s1 ++ s2) = run_from fixed n k st0 s1.
Proof. intros Q. rewrite run_from_app. now apply quiescent_run. Qed.

Lemma f11_absorbing ext : run_from false 2 1 (init 2) (f11_fair_schedule ++ ext) = f11_state.
Proof.
  unfold f11_fair_schedule. rewrite <- app_assoc.
  exact (run_quiescent_prefix false 2 1 (init 2) f11_schedule _ f11_quiescent).
Qed.


Lemma complete_refuted :
  exists n k sched,
    n = 2 /\ k = 1 /\ fair n k sched /\
    (exists st, run_mesh false n k sched = Stuck st) /\
    (forall ext, exists st, run_mesh false n k (sched ++ ext) = Stuck st /\
                            p_main (g_party st 1) = MRecvInfo /\
                            (exists t, p_ret (g_party st 0) = Some ([0], t))).
Proof.
  exists 2, 1, f11_fair_schedule.
  split; [reflexivity|]. split; [reflexivity|]. split; [exact f11_fair|]. split.
  - exists f11_state. unfold run_mesh. rewrite <- (app_nil_r f11_fair_schedule), f11_absorbing.
    rewrite f11_not_complete. reflexivity.
  - intros ext. exists f11_state. unfold run_mesh. rewrite f11_absorbing, f11_not_complete.
    split; [reflexivity|]. destruct f11_leader_returned_short as (_ & H & H1). split; assumption.
Qed.

(* the same schedule on the model of the code as it is now forms the mesh *)
Example f11_schedule_fixed_ok :
  exists st, run_mesh true 2 1 (f11_schedule ++ round_robin 2 10) = Final st.
Proof. eexists. vm_compute. reflexivity. Qed.

(* non-vacuity: canonical schedules of both variants form complete meshes *)
Example canonical_complete_now :
  forallb (fun nk => match run_mesh false (fst nk) (snd nk) (policy_sched false (fst nk) (snd nk) (seq 1 (fst nk - 1)) 0)
                     with Final _ => true | Stuck _ => false end)
          [(2,1); (2,2); (3,1); (3,2); (4,3); (5,2); (6,4)] = true.
Proof. vm_compute. reflexivity. Qed.

Example canonical_complete_fixed :
  forallb (fun nk => match run_mesh true (fst nk) (snd nk) (policy_sched true (fst nk) (snd nk) (seq 1 (fst nk - 1)) 0)
                     with Final _ => true | Stuck _ => false end)
          [(2,1); (2,2); (3,1); (3,2); (4,3); (5,2); (6,4)] = true.
Proof. vm_compute. reflexivity. Qed.

(* the hook-driven schedules that broke the old acceptConn are harmless now *)
Example frozen_schedules_fixed_ok :
  forallb (fun x => match x with (n, k, order, m) =>
             match run_mesh true n k (policy_sched true n k order m) with Final _ => true | Stuck _ => false end end)
          [(2,1,[1],1); (2,2,[1],2); (2,2,[1],1); (2,3,[1],3); (3,1,[1;2],2); (3,1,[2;1],2);
           (3,2,[1;2],2); (3,1,[1;2],3); (4,1,[1;3;2],3)] = true.
Proof. vm_compute. reflexivity. Qed.
Example frozen_schedules_now_stuck :
  forallb (fun x => match x with (n, k, order, m) =>
             match run_mesh false n k (policy_sched false n k order m) with Final _ => false | Stuck _ => true end end)
          [(2,1,[1],1); (2,2,[1],2); (2,2,[1],1); (2,3,[1],3); (3,1,[1;2],2); (3,1,[2;1],2);
           (3,2,[1;2],2); (3,1,[1;2],3); (4,1,[1;3;2],3)] = true.
Proof. vm_compute. reflexivity. Qed.
