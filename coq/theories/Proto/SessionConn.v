(* SessionConn.v — the typed message channel of the session model (C02) is
   what p2p.Conn implements (C11): any list of session messages, sent through
   the Conn model and flushed, reaches the receiving side as exactly the same
   typed values under EVERY read fragmentation of the transport, and the bytes
   on the wire are [enc_msgs]. *)
From Coq Require Import ZArith NArith List Bool Lia.
From Mpc Require Import Base.Codec Proto.Session Proto.Conn Proto.ConnProof.
Import ListNotations.
Open Scope N_scope.

Definition op_of_msg (m : msg) : op :=
  match m with
  | MData bs => OData bs
  | MU32 n => OU32 (Z.of_N n)
  | MLabel l => OLabel l
  end.

Definition val_of_msg (m : msg) : val :=
  match m with
  | MData bs => VData bs
  | MU32 n => VU32 n
  | MLabel l => VLabel l
  end.

Definition ty_of_msg (m : msg) : ty :=
  match m with MData _ => TData | MU32 _ => TU32 | MLabel _ => TLabel end.

(* what fits the wire formats: uint32 counts, 128-bit labels, data below 4 GiB *)
Definition msg_ok (m : msg) : Prop :=
  match m with
  | MData bs => nlen bs < 4294967296
  | MU32 n => n < 4294967296
  | MLabel l => l < 2 ^ 128
  end.

Definition session_ops (ms : list msg) : list op := map op_of_msg ms ++ [OFlush].

Lemma values_of_app a b : values_of (a ++ b) = values_of a ++ values_of b.
Proof.
  induction a as [|o a IH]; cbn [app values_of]; [reflexivity|].
  destruct (value_of o); cbn [app]; rewrite IH; reflexivity.
Qed.

Lemma values_of_session ms : Forall msg_ok ms -> values_of (session_ops ms) = map val_of_msg ms.
Proof.
  intros H. unfold session_ops. rewrite values_of_app. cbn [values_of value_of]. rewrite app_nil_r.
  induction H as [|m ms Hm _ IH]; cbn [map values_of]; [reflexivity|].
  destruct m as [bs|n|l]; cbn [op_of_msg value_of val_of_msg msg_ok] in *; rewrite IH; f_equal.
  - unfold u32_of_Z. rewrite Z.mod_small by lia. rewrite N2Z.id. reflexivity.
  - rewrite N.mod_small by exact Hm. reflexivity.
Qed.

Lemma types_of_session ms : Forall msg_ok ms -> types_of (session_ops ms) = map ty_of_msg ms.
Proof.
  intros H. unfold types_of. rewrite values_of_session by exact H. rewrite map_map.
  apply map_ext. intros [bs|n|l]; reflexivity.
Qed.

Lemma close_only_last_session ms : close_only_last (session_ops ms).
Proof.
  unfold session_ops. induction ms as [|m ms IH]; cbn [map app close_only_last]; [exact I|].
  destruct m; exact IH.
Qed.

Lemma ends_flushed_session ms : ends_flushed (session_ops ms).
Proof. exists (map op_of_msg ms). left. reflexivity. Qed.

Lemma in_domain_session ms : Forall msg_ok ms -> Forall op_in_domain (session_ops ms).
Proof.
  intros H. unfold session_ops. apply Forall_app. split.
  - induction H as [|m ms Hm _ IH]; cbn [map]; constructor; [|exact IH].
    destruct m; cbn [op_of_msg op_in_domain msg_ok] in *; [exact Hm|exact I|exact I].
  - constructor; [exact I|constructor].
Qed.

(* session messages use none of the in-place reads of Conn (TRaw): always in the receive domain *)
Lemma ty_fits_session rcap ms : Forall msg_ok ms -> Forall (ty_fits rcap) (types_of (session_ops ms)).
Proof.
  intros H. rewrite types_of_session by exact H. apply Forall_forall. intros t Ht.
  apply in_map_iff in Ht. destruct Ht as (m & <- & _). destruct m; exact I.
Qed.

Lemma encode_val_of_msg m : encode (val_of_msg m) = enc_msg m.
Proof. destruct m; reflexivity. Qed.

(* C02 over C11: whatever the session sends arrives as the same typed values
   under every fragmentation, and the wire carries exactly enc_msgs. *)
Theorem session_msgs_over_conn (nbuf wcap rcap : N) (ms : list msg) (frags : list N) (eofdata : bool) :
  16 <= wcap -> 16 <= rcap -> Forall msg_ok ms ->
  let s := run_sender nbuf wcap (session_ops ms) in
  wire_bytes s = enc_msgs ms /\
  snd (recv_all rcap (map ty_of_msg ms) (r_init (mkT (wire_bytes s) frags eofdata 0)))
  = Some (map val_of_msg ms).
Proof.
  intros Hw Hr Hok s. split.
  - unfold s. rewrite (wire_is_concat nbuf wcap ltac:(lia) (session_ops ms)
                         (close_only_last_session ms) (ends_flushed_session ms)).
    rewrite values_of_session by exact Hok. unfold enc_msgs. rewrite map_map.
    f_equal. apply map_ext. intros m. apply encode_val_of_msg.
  - pose proof (roundtrip nbuf wcap rcap (session_ops ms) frags eofdata Hw Hr
                  (close_only_last_session ms) (ends_flushed_session ms)
                  (in_domain_session ms Hok) (ty_fits_session rcap ms Hok)) as RT.
    cbv zeta in RT. destruct RT as (RT & _).
    rewrite types_of_session in RT by exact Hok.
    rewrite values_of_session in RT by exact Hok. exact RT.
Qed.
