(* MeshWireProof.v — theorems about Proto/MeshWire.v (hello wire format, dial rule). *)
From Coq Require Import NArith ZArith Arith List Bool Lia Permutation.
From Mpc Require Import Gen.Consts Proto.MeshWire.
Import ListNotations.
Open Scope nat_scope.


(* ---- words and strings ---- *)

Lemma rd32_be32 : forall v rest, rd32 (be32 v ++ rest) = Some ((v mod 4294967296)%N, rest).
Proof.
  intros v rest. unfold be32, rd32. cbn [app].
  set (w := (v mod 4294967296)%N).
  assert (Hw : (w < 4294967296)%N) by (apply N.mod_lt; discriminate).
  f_equal. f_equal.
  replace (w / 65536)%N with (w / 256 / 256)%N by (rewrite N.div_div by discriminate; reflexivity).
  replace (w / 16777216)%N with (w / 256 / 256 / 256)%N by (rewrite !N.div_div by discriminate; reflexivity).
  set (a := (w / 256)%N). set (b := (a / 256)%N). set (d := (b / 256)%N).
  pose proof (N.div_mod w 256 ltac:(discriminate)) as E0. fold a in E0.
  pose proof (N.div_mod a 256 ltac:(discriminate)) as E1. fold b in E1.
  pose proof (N.div_mod b 256 ltac:(discriminate)) as E2. fold d in E2.
  pose proof (N.mod_lt w 256 ltac:(discriminate)) as B0.
  pose proof (N.mod_lt a 256 ltac:(discriminate)) as B1.
  pose proof (N.mod_lt b 256 ltac:(discriminate)) as B2.
  assert (Hd : (d < 256)%N) by (clearbody a b d; generalize dependent (w mod 256)%N; generalize dependent (a mod 256)%N; generalize dependent (b mod 256)%N; intros; lia).
  rewrite (N.mod_small d 256 Hd).
  clearbody a b d. generalize dependent (w mod 256)%N. generalize dependent (a mod 256)%N. generalize dependent (b mod 256)%N. intros. lia.
Qed.

Lemma firstn_len_app : forall (s r : list N), firstn (length s) (s ++ r) = s.
Proof. induction s as [|x s IH]; intros r; simpl; [destruct r|rewrite IH]; reflexivity. Qed.

Lemma skipn_len_app : forall (s r : list N), skipn (length s) (s ++ r) = r.
Proof. induction s as [|x s IH]; intros r; simpl; [|rewrite IH]; reflexivity. Qed.

Lemma rd_str_enc : forall s rest, (N.of_nat (length s) < 4294967296)%N ->
  rd_str (enc_str s ++ rest) = Some (s, rest).
Proof.
  intros s rest Hl. unfold rd_str, enc_str. rewrite <- app_assoc, rd32_be32.
  rewrite N.mod_small by exact Hl. rewrite Nat2N.id.
  assert (Hlt : (length (s ++ rest) <? length s) = false)
    by (apply Nat.ltb_ge; rewrite app_length; lia).
  rewrite Hlt, firstn_len_app, skipn_len_app. reflexivity.
Qed.

(* ---- the hello magic ---- *)

Lemma mod32_land : forall h, (h mod 4294967296)%N = N.land h (N.ones 32).
Proof. intros h. rewrite N.land_ones. reflexivity. Qed.

Lemma magic_mask : forall c,
  N.land (hello_magic c mod 4294967296)%N connMagicMask = connMagic.
Proof.
  intros c. rewrite mod32_land, <- N.land_assoc.
  change (N.land (N.ones 32) connMagicMask) with connMagicMask.
  unfold hello_magic. rewrite N.land_lor_distr_l.
  change (N.land connMagic connMagicMask) with connMagic.
  rewrite <- N.land_assoc. change (N.land 255 connMagicMask) with 0%N.
  rewrite N.land_0_r, N.lor_0_r. reflexivity.
Qed.

Lemma magic_low : forall c, c < 256 ->
  N.to_nat ((hello_magic c mod 4294967296) mod 256)%N = c.
Proof.
  intros c Hc. rewrite mod32_land.
  change 256%N with (2 ^ 8)%N. rewrite <- N.land_ones, <- N.land_assoc.
  change (N.land (N.ones 32) (N.ones 8)) with (N.ones 8).
  unfold hello_magic. rewrite N.land_lor_distr_l.
  change (N.land connMagic (N.ones 8)) with 0%N. rewrite N.lor_0_l.
  change 255%N with (N.ones 8). rewrite <- N.land_assoc, N.land_diag, N.land_ones.
  rewrite N.mod_small by (change (2 ^ 8)%N with 256%N; lia).
  apply Nat2N.id.
Qed.

(* ---- hello: round trip and rejection ---- *)

Lemma hello_roundtrip : forall k c id addr rest,
  c < k -> k <= 256 -> (N.of_nat id < 4294967296)%N -> (N.of_nat (length addr) < 4294967296)%N ->
  dec_hello k (enc_hello c id addr ++ rest) = HOk c id addr rest.
Proof.
  intros k c id addr rest Hc Hk Hid Hl. unfold dec_hello, enc_hello.
  rewrite <- !app_assoc, rd32_be32, rd32_be32, rd_str_enc by exact Hl.
  rewrite magic_mask, N.eqb_refl. cbn [negb].
  rewrite magic_low by lia.
  assert (Hle : (k <=? c) = false) by (apply Nat.leb_gt; exact Hc).
  rewrite Hle, N.mod_small by exact Hid. rewrite Nat2N.id. reflexivity.
Qed.

Lemma hello_bad_connid : forall k c id addr rest,
  k <= c -> c < 256 -> (N.of_nat id < 4294967296)%N -> (N.of_nat (length addr) < 4294967296)%N ->
  dec_hello k (enc_hello c id addr ++ rest) = HBadConnID c id.
Proof.
  intros k c id addr rest Hc Hk Hid Hl. unfold dec_hello, enc_hello.
  rewrite <- !app_assoc, rd32_be32, rd32_be32, rd_str_enc by exact Hl.
  rewrite magic_mask, N.eqb_refl. cbn [negb].
  rewrite magic_low by lia.
  assert (Hle : (k <=? c) = true) by (apply Nat.leb_le; exact Hc).
  rewrite Hle, N.mod_small by exact Hid. rewrite Nat2N.id. reflexivity.
Qed.

(* whatever bytes arrive: an accepted hello has the magic in its upper 24 bits
   and a connection id below numConns, which is the low byte of the first word *)
Lemma hello_accept_sound : forall k bs c id addr rest,
  dec_hello k bs = HOk c id addr rest ->
  c < k /\ exists magic r1, rd32 bs = Some (magic, r1) /\
                            N.land magic connMagicMask = connMagic /\
                            c = N.to_nat (magic mod 256)%N.
Proof.
  intros k bs c id addr rest H. unfold dec_hello in H.
  destruct (rd32 bs) as [[magic r1]|] eqn:E1; [|discriminate].
  destruct (rd32 r1) as [[i r2]|]; [|discriminate].
  destruct (rd_str r2) as [[a r3]|]; [|discriminate].
  destruct (N.eqb_spec (N.land magic connMagicMask) connMagic) as [Hm|Hm]; cbn [negb] in H; [|discriminate].
  destruct (Nat.leb_spec k (N.to_nat (magic mod 256)%N)) as [Hk|Hk]; [discriminate|].
  inversion H; subst. split; [exact Hk|]. exists magic, r1. auto.
Qed.

Lemma hello_wrong_magic_rejected : forall k m id addr rest c i a r,
  N.land (m mod 4294967296)%N connMagicMask <> connMagic ->
  dec_hello k (be32 m ++ be32 id ++ enc_str addr ++ rest) <> HOk c i a r.
Proof.
  intros k m id addr rest c i a r Hm H.
  apply hello_accept_sound in H. destruct H as [_ [magic [r1 [H1 [H2 _]]]]].
  rewrite rd32_be32 in H1. inversion H1; subst. contradiction.
Qed.

Example hello_wrong_magic_nonvacuous :
  N.land (1196250624 mod 4294967296)%N connMagicMask <> connMagic.   (* 0x474d5600 *)
Proof. discriminate. Qed.

Example hello_roundtrip_nonvacuous :
  dec_hello 4 (enc_hello 3 5 [49%N; 50%N] ++ [7%N]) = HOk 3 5 [49%N; 50%N] [7%N].
Proof. apply hello_roundtrip; cbn; lia. Qed.

(* ---- who dials whom ---- *)

Lemma in_all_dials : forall n i j c, i < n ->
  (In j (all_dials n i c) <-> j < n /\ i <> 0 /\ (j = 0 \/ i < j)).
Proof.
  intros n i j c Hi. unfold all_dials, join_dials, connect_dials. rewrite in_app_iff.
  destruct (Nat.eqb_spec i 0) as [Ei|Ei]; destruct (Nat.eqb_spec c 0) as [Ec|Ec]; cbn [negb andb];
    rewrite ?filter_In, ?in_seq; unfold dial_test;
    destruct (Nat.eqb_spec j 0) as [Ej|Ej];
    try (destruct (Nat.eqb_spec c 0) as [Ec'|Ec']; try contradiction);
    try (destruct (Nat.ltb_spec i j) as [Hl|Hl]); cbn [negb In];
    intuition (try lia; try congruence).
Qed.

Lemma dial_exactly_one : forall n i j c, i < n -> j < n -> i <> j ->
  (In j (all_dials n i c) <-> ~ In i (all_dials n j c)).
Proof.
  intros n i j c Hi Hj Hij. rewrite (in_all_dials n i j c Hi), (in_all_dials n j i c Hj). lia.
Qed.

Lemma all_dials_nodup : forall n i c, NoDup (all_dials n i c).
Proof.
  intros n i c. unfold all_dials, join_dials, connect_dials.
  destruct (Nat.eqb_spec i 0) as [Ei|Ei]; cbn [negb andb app]; [constructor|].
  assert (Hf : NoDup (filter (dial_test i c) (seq 0 n))) by (apply NoDup_filter, seq_NoDup).
  destruct (Nat.eqb_spec c 0) as [Ec|Ec]; cbn [app]; [|exact Hf].
  constructor; [|exact Hf]. rewrite filter_In. unfold dial_test. subst c. cbn. intros [_ H]. discriminate.
Qed.

Lemma in_dialers_spec : forall n j i c, j < n ->
  (In i (in_dialers n j) <-> i < n /\ In j (all_dials n i c)).
Proof.
  intros n j i c Hj. unfold in_dialers.
  destruct (Nat.eqb_spec j 0) as [Ej|Ej]; rewrite in_seq; split.
  - intros H. assert (Hi : i < n) by lia. split; [exact Hi|]. apply (in_all_dials n i j c Hi). lia.
  - intros [Hi H]. apply (in_all_dials n i j c Hi) in H. lia.
  - intros H. assert (Hi : i < n) by lia. split; [exact Hi|]. apply (in_all_dials n i j c Hi). lia.
  - intros [Hi H]. apply (in_all_dials n i j c Hi) in H. lia.
Qed.

Lemma need_counts_inbound : forall n j, j < n ->
  need_init n j = length (in_dialers n j) /\ NoDup (in_dialers n j).
Proof.
  intros n j Hj. unfold need_init, in_dialers.
  destruct (Nat.eqb_spec j 0) as [Ej|Ej].
  - rewrite seq_length. split; [reflexivity|apply seq_NoDup].
  - split; [|apply seq_NoDup]. apply Permutation_length, NoDup_Permutation.
    + apply NoDup_filter, NoDup_filter, seq_NoDup.
    + apply seq_NoDup.
    + intros x. rewrite !filter_In, !in_seq.
      destruct (Nat.eqb_spec x 0); destruct (Nat.eqb_spec x j); destruct (Nat.ltb_spec x j);
        cbn [negb andb]; intuition (try lia; try congruence).
Qed.

Example dial_nonvacuous : In 3 (all_dials 5 2 1) /\ ~ In 2 (all_dials 5 3 1) /\ In 0 (all_dials 5 2 1).
Proof. cbn. intuition (try lia; try congruence). Qed.
