(* SpanView.v — C16: GF(2)-linear combinations of the evaluator's view in the
   idealised symbolic execution of Circuit/GGarble.v (values are bitsets:
   bit 0 = permute bit, bit 1 = coefficient of R, bit n+2 = basis element n).
   The view is GGarble.sym_transcript: the active label of every input wire
   (circuit/garbler.go sends the garbler's own, the OT delivers the
   evaluator's) followed by every garbled row (Circuit.Garble, circuit/garble.go).
     span_xor sel tr   the combination selected by [sel]
     gf2_basis / gf2_rank / in_span_b   executable Gaussian elimination on
                        bitsets (pivot = highest bit, basis kept in descending
                        pivot order)
     span_report       what run_c16 prints for a span case (RunC16.v)
   No proofs here (Proto/SpanViewProof.v). *)
From Coq Require Import NArith List Bool Arith.
From Mpc Require Import Base.Label Circuit.Circuit Circuit.Garble Circuit.GGarble.
Import ListNotations.
Open Scope N_scope.

Fixpoint span_xor (sel : list bool) (tr : list N) : N :=
  match sel, tr with
  | s :: sel', v :: tr' => lxor (if s then v else 0) (span_xor sel' tr')
  | _, _ => 0
  end.

(* v is a GF(2)-combination of the values of tr *)
Definition in_span (v : N) (tr : list N) : Prop := exists sel, span_xor sel tr = v.

(* ---- executable elimination *)
Fixpoint reduce (bs : list N) (v : N) : N :=
  match bs with
  | [] => v
  | b :: bs' => reduce bs' (if N.testbit v (N.log2 b) then lxor v b else v)
  end.

Fixpoint insert_desc (b : N) (bs : list N) : list N :=
  match bs with
  | [] => [b]
  | c :: bs' => if N.log2 c <? N.log2 b then b :: bs else c :: insert_desc b bs'
  end.

Definition add_vec (bs : list N) (v : N) : list N :=
  let v' := reduce bs v in
  if N.eqb v' 0 then bs else insert_desc v' bs.

Definition gf2_basis (tr : list N) : list N := fold_left add_vec tr [].
Definition gf2_rank (tr : list N) : nat := length (gf2_basis tr).
Definition in_span_b (v : N) (tr : list N) : bool := N.eqb (reduce (gf2_basis tr) v) 0.

(* ---- the garbler's acceptance test in the symbolic execution
   (circuit/helpers.go BitFromLabel: the label must be L0 or L1 of the wire) *)
Definition sym_accepts (w : wire) (resp : N) : option bool :=
  if N.eqb resp (L0 w) then Some false
  else if N.eqb resp (L1 w) then Some true
  else None.

(* honest output labels of the symbolic garbling: label of the plain value *)
Definition sym_out_labels (perm : nat -> bool) (c : circuit) (x : list bool) : list N :=
  let gwf := fst (sym_garble perm c) in
  let vals := eval_plain_wires c x in
  map (fun o => pick (nth o gwf w0) (nth o vals false)) (output_wires c).

(* (number of view values, rank, R in span?, per output wire:
    (honest label in span?, honest xor R in span?)) *)
Definition span_report (perm : nat -> bool) (c : circuit) (x : list bool)
  : nat * nat * bool * list (bool * bool) :=
  let view := sym_transcript perm c x in
  (length view, gf2_rank view, in_span_b Rsym view,
   map (fun h => (in_span_b h view, in_span_b (lxor h Rsym) view)) (sym_out_labels perm c x)).
