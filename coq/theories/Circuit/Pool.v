(* Pool.v — executable small-step model of N client goroutines calling
   Garble | Release g | Eval g | Compute on ONE shared circuit
   (/repo/circuit/garble.go: Circuit.garbleScratchPool, Circuit.Garble,
   Garbled.Release; circuit/eval.go Circuit.Eval; circuit/computer.go
   Circuit.Compute; circuit/circuit.go Circuit.garblePool).  NO PROOFS here
   (see PoolProof.v).

   The circuit itself (Gates, NumWires, ...) is only read by every call and is
   not part of the state: the ONLY mutable state inside circuit.Circuit is
   garblePool.  This is an assumption about the Go source, checked on every run
   by the source inventory of harness c17 (c17scan.go: fields of Circuit;
   assignments to / address-takings of / method calls on receiver fields in
   Garble, Eval, Compute and the *Circuit methods they call) and exercised by
   concurrent sessions with different keys on one circuit.  Shared state:
     ptr       Circuit.garblePool, an atomic.Pointer[sync.Pool]: None | Some pool id
     pool p    contents of sync.Pool object p (a list of scratch ids; Get removes
               any element or returns a NEW scratch — sync.Pool may also drop
               elements at any time: schedule item [SDrop])
     contents  per scratch: which garbling its buffers (wires, slab, gates) hold,
               identified by the seed of the Garble call that wrote them (0 = fresh)
   Per goroutine: the program still to run, a program counter, the handles
   (pointers to Garbled) it created — h_scr/h_pool are Garbled.scratch/Garbled.pool, set
   to nil by Release — and the results of its finished calls.

   Atomic steps (every Go statement touching shared state is one step, the
   rest is goroutine-local and merged into the neighbouring step):
     Garble : Load ptr | build the pool object p with its New function | CAS(nil, p) | Load ptr (after a lost CAS) | pool.Get()
              | fill the scratch + return the handle (the buffers are written by
              many statements; they are written by the one goroutine holding the
              scratch, which is what C17_exclusive establishes); a FAILING Garble
              (OGarbleFail) takes the same steps and ends by putting the scratch back
     Release: g.pool == nil -> return | g.pool.Put(g.scratch) | clear the fields
     Eval   : first read of the tables | last read of the tables (a result is
              well-defined only if both see the same garbling)
     Compute: no shared state at all. *)
From Coq Require Import Arith List Bool PeanoNat.
Import ListNotations.

Inductive op :=
| OGarble (seed : nat)
| OGarbleFail (seed site : nat)  (* a Garble that fails at error site [site], see GFill below *)
| ORelease (hi : nat)          (* hi = index of the handle among those this goroutine created *)
| OEval (hi : nat)
| OCompute (x : nat).

Inductive res :=
| RGarble (seed : nat)         (* the garbling written under this seed was returned *)
| RGarbleErr                   (* Garble returned (nil, err) *)
| RPanic                       (* pool.Get() returned nil (a published pool without New): Garble panics *)
| RUnit
| REval (gid : nat)            (* evaluated the garbling gid from first to last read *)
| REvalTorn                    (* the tables changed during the evaluation *)
| RErr                         (* Eval on a released handle: Gates is nil *)
| RCompute (x : nat).

Record handle := mkHandle { h_scr : nat; h_pool : option nat; h_gid : nat }.

Inductive pc :=
| Idle
| GCas (seed p : nat)          (* built pool object p, about to CompareAndSwap(nil, p) *)
| GLoad (seed : nat)           (* CAS lost, about to Load *)
| GInit (seed p : nat)         (* regression variant only: CAS won with an EMPTY pool, about to set p.New *)
| GGet (seed p : nat)          (* about to p.Get() *)
| GFill (seed p s : nat)       (* holds scratch s, about to fill it and return *)
| RClear (hi : nat)            (* Put done, about to clear g.scratch / g.pool *)
| EEnd (hi v1 : nat).          (* first read saw garbling v1 *)

Record thread := mkThread {
  t_prog : list op;
  t_pc   : pc;
  t_nh   : nat;                (* number of handles created *)
  t_h    : nat -> handle;
  t_res  : list res            (* results, most recent first *)
}.

Record state := mkState {
  s_ptr      : option nat;
  s_npools   : nat;
  s_pool     : nat -> list nat;
  s_contents : nat -> nat;
  s_nscr     : nat;
  s_thr      : nat -> thread;
  s_dput     : bool             (* configuration, never changes: false = Garble as it is;
                                   true = the regression variant whose error returns inside
                                   the two loops Put the scratch twice *);
  s_newset   : nat -> bool;     (* pool object p has its New function set *)
  s_late     : bool             (* configuration, never changes: false = garbleScratchPool as it is
                                   (the pool is built WITH New, then published by CompareAndSwap);
                                   true = the regression variant that publishes an empty pool
                                   first and assigns New afterwards *)
}.

Definition upd {A} (f : nat -> A) (i : nat) (v : A) : nat -> A :=
  fun x => if x =? i then v else f x.

Fixpoint remove_nth (i : nat) (l : list nat) : list nat :=
  match l, i with
  | [], _ => []
  | _ :: r, O => r
  | a :: r, S i' => a :: remove_nth i' r
  end.

Definition set_thr (st : state) (t : nat) (th : thread) : state :=
  mkState (s_ptr st) (s_npools st) (s_pool st) (s_contents st) (s_nscr st) (upd (s_thr st) t th) (s_dput st) (s_newset st) (s_late st).

Definition th_pc (th : thread) (p : pc) : thread :=
  mkThread (t_prog th) p (t_nh th) (t_h th) (t_res th).
(* a call finished: drop it from the program, record its result *)
Definition th_ret (th : thread) (r : res) : thread :=
  mkThread (tl (t_prog th)) Idle (t_nh th) (t_h th) (r :: t_res th).

(* a handle is live when Release has not been called on it: its pool field is
   set and its owner is not inside Release past the Put *)
Definition live (th : thread) (hi : nat) : bool :=
  (hi <? t_nh th) &&
  (match h_pool (t_h th hi) with Some _ => true | None => false end) &&
  (match t_pc th with RClear hi' => negb (hi' =? hi) | _ => true end).

(* one step of goroutine t; [choice] resolves pool.Get(): an index into the
   pool's contents, anything else = the pool is (or pretends to be) empty and
   New() runs.  None = not enabled (program finished). *)
Definition step (t choice : nat) (st : state) : option state :=
  let th := s_thr st t in
  match t_pc th with
  | Idle =>
      match t_prog th with
      | [] => None
      | OGarble seed :: _ | OGarbleFail seed _ :: _ =>
          (* garbleScratchPool: c.garblePool.Load() *)
          match s_ptr st with
          | Some p => Some (set_thr st t (th_pc th (GGet seed p)))
          | None =>
              let p := s_npools st in
              (* walk the gates, build the pool object p — with its New function unless
                 this is the regression variant *)
              Some (mkState (s_ptr st) (S p) (s_pool st) (s_contents st) (s_nscr st)
                            (upd (s_thr st) t (th_pc th (GCas seed p))) (s_dput st)
                            (upd (s_newset st) p (negb (s_late st))) (s_late st))
          end
      | ORelease hi :: _ =>
          let h := t_h th hi in
          match h_pool h with
          | None => Some (set_thr st t (th_ret th RUnit))              (* g.pool == nil *)
          | Some p =>
              if hi <? t_nh th then
                (* g.pool.Put(g.scratch) *)
                Some (mkState (s_ptr st) (s_npools st) (upd (s_pool st) p (s_pool st p ++ [h_scr h]))
                              (s_contents st) (s_nscr st) (upd (s_thr st) t (th_pc th (RClear hi))) (s_dput st) (s_newset st) (s_late st))
              else Some (set_thr st t (th_ret th RUnit))                (* g == nil *)
          end
      | OEval hi :: _ =>
          let h := t_h th hi in
          match h_pool h with
          | None => Some (set_thr st t (th_ret th RErr))
          | Some _ =>
              if hi <? t_nh th then Some (set_thr st t (th_pc th (EEnd hi (s_contents st (h_scr h)))))
              else Some (set_thr st t (th_ret th RErr))
          end
      | OCompute x :: _ => Some (set_thr st t (th_ret th (RCompute x)))
      end
  | GCas seed p =>
      match s_ptr st with
      | None => Some (mkState (Some p) (s_npools st) (s_pool st) (s_contents st) (s_nscr st)
                              (upd (s_thr st) t (th_pc th (if s_late st then GInit seed p else GGet seed p)))
                              (s_dput st) (s_newset st) (s_late st))
      | Some _ => Some (set_thr st t (th_pc th (GLoad seed)))
      end
  | GLoad seed =>
      match s_ptr st with
      | Some p => Some (set_thr st t (th_pc th (GGet seed p)))
      | None => Some (set_thr st t (th_ret th RErr))                    (* nil pool: cannot happen *)
      end
  | GInit seed p =>
      (* p.New = func() any { ... } *)
      Some (mkState (s_ptr st) (s_npools st) (s_pool st) (s_contents st) (s_nscr st)
                    (upd (s_thr st) t (th_pc th (GGet seed p))) (s_dput st) (upd (s_newset st) p true) (s_late st))
  | GGet seed p =>
      let items := s_pool st p in
      if choice <? length items then
        let s := nth choice items 0 in
        Some (mkState (s_ptr st) (s_npools st) (upd (s_pool st) p (remove_nth choice items))
                      (s_contents st) (s_nscr st) (upd (s_thr st) t (th_pc th (GFill seed p s))) (s_dput st) (s_newset st) (s_late st))
      else if negb (s_newset st p) then
        (* New is nil: Get returns nil, the type assertion panics *)
        Some (set_thr st t (th_ret th RPanic))
      else
        let s := s_nscr st in
        Some (mkState (s_ptr st) (s_npools st) (s_pool st) (upd (s_contents st) s 0) (S s)
                      (upd (s_thr st) t (th_pc th (GFill seed p s))) (s_dput st) (s_newset st) (s_late st))
  | GFill seed p s =>
      match t_prog th with
      | OGarbleFail _ site :: _ =>
          (* Garble fails.  Error sites of Circuit.Garble, each "pool.Put(scratch); return nil, err":
             0 ot.NewLabel(rand) for R | 1 aes.NewCipher(key) | 2 makeLabels in the input-wire
             loop | 3 gate.garbleInto in the gate loop.  At sites 2 and 3 part of the buffers has
             been written.  The scratch goes back to the pool ONCE (twice at sites 2, 3 in the
             regression variant) and no handle is returned. *)
          let puts := if s_dput st && (2 <=? site) then [s; s] else [s] in
          Some (mkState (s_ptr st) (s_npools st) (upd (s_pool st) p (s_pool st p ++ puts))
                        (if 2 <=? site then upd (s_contents st) s seed else s_contents st) (s_nscr st)
                        (upd (s_thr st) t (th_ret th RGarbleErr)) (s_dput st) (s_newset st) (s_late st))
      | _ =>
          let h := mkHandle s (Some p) seed in
          let th' := mkThread (tl (t_prog th)) Idle (S (t_nh th)) (upd (t_h th) (t_nh th) h)
                              (RGarble seed :: t_res th) in
          Some (mkState (s_ptr st) (s_npools st) (s_pool st) (upd (s_contents st) s seed) (s_nscr st)
                        (upd (s_thr st) t th') (s_dput st) (s_newset st) (s_late st))
      end
  | RClear hi =>
      let h := t_h th hi in
      let th' := mkThread (tl (t_prog th)) Idle (t_nh th)
                          (upd (t_h th) hi (mkHandle (h_scr h) None (h_gid h))) (RUnit :: t_res th) in
      Some (set_thr st t th')
  | EEnd hi v1 =>
      let v2 := s_contents st (h_scr (t_h th hi)) in
      Some (set_thr st t (th_ret th (if v1 =? v2 then REval v1 else REvalTorn)))
  end.

Inductive sitem :=
| SThread (t choice : nat)
| SDrop (p i : nat).           (* sync.Pool drops the i-th element of pool p *)

Definition exec (st : state) (it : sitem) : state :=
  match it with
  | SThread t choice => match step t choice st with Some st' => st' | None => st end
  | SDrop p i =>
      mkState (s_ptr st) (s_npools st) (upd (s_pool st) p (remove_nth i (s_pool st p)))
              (s_contents st) (s_nscr st) (s_thr st) (s_dput st) (s_newset st) (s_late st)
  end.

Definition run_from (st : state) (sched : list sitem) : state := fold_left exec sched st.

Definition no_handle : handle := mkHandle 0 None 0.
Definition init_thread (prog : list op) : thread := mkThread prog Idle 0 (fun _ => no_handle) [].
Definition init_cfg (dput late : bool) (progs : list (list op)) : state :=
  mkState None 0 (fun _ => []) (fun _ => 0) 0 (fun t => init_thread (nth t progs [])) dput (fun _ => false) late.
Definition init (progs : list (list op)) : state := init_cfg false false progs.

(* ---- a program run alone: the results a goroutine's program produces when no
   other goroutine exists.  Handles: [nh] created so far, [hs hi] = (seed of the
   garbling, released?).  Garble returns the garbling of its own seed, Eval of
   an unreleased handle the garbling of that handle, Compute its input's value:
   every result depends only on the call's own (seed, handle, input). *)
Fixpoint solo (prog : list op) (nh : nat) (hs : nat -> nat * bool) : list res :=
  match prog with
  | [] => []
  | OGarble seed :: r => RGarble seed :: solo r (S nh) (upd hs nh (seed, false))
  | OGarbleFail _ _ :: r => RGarbleErr :: solo r nh hs
  | ORelease hi :: r =>
      RUnit :: solo r nh (if (hi <? nh) && negb (snd (hs hi)) then upd hs hi (fst (hs hi), true) else hs)
  | OEval hi :: r =>
      (if (hi <? nh) && negb (snd (hs hi)) then REval (fst (hs hi)) else RErr) :: solo r nh hs
  | OCompute x :: r => RCompute x :: solo r nh hs
  end.
Definition solo_run (prog : list op) : list res := solo prog 0 (fun _ => (0, true)).

(* ---- exclusivity as a decidable predicate on a state with N goroutines *)
Definition live_scrs (th : thread) : list nat :=
  flat_map (fun hi => if live th hi then [h_scr (t_h th hi)] else []) (seq 0 (t_nh th)).
Definition held_scrs (th : thread) : list nat :=
  match t_pc th with GFill _ _ s => [s] | _ => [] end.
Definition owners (N : nat) (st : state) : list nat :=
  flat_map (s_pool st) (seq 0 (s_npools st)) ++
  flat_map (fun t => held_scrs (s_thr st t) ++ live_scrs (s_thr st t)) (seq 0 N).

Fixpoint nodupb (l : list nat) : bool :=
  match l with
  | [] => true
  | a :: r => negb (existsb (Nat.eqb a) r) && nodupb r
  end.
Definition exclusive (N : nat) (st : state) : bool := nodupb (owners N st).

(* ---- replay of an observed history (harness c17): events in the order the
   harness logged them.
     EvGarble t s seed : goroutine t's Garble(seed) returned a handle on scratch s
                         (scratch ids numbered by first appearance)
     EvRelease t hi    : goroutine t is about to call Release on its hi-th handle
     EvEval t hi       : goroutine t evaluated its hi-th handle
   The model runs the corresponding steps with pool.Get() resolved to the
   observed scratch: accepted iff the model can produce exactly that scratch
   (it is in the pool, or it is the next fresh one) and every state on the way
   is exclusive. *)
Inductive event :=
| EvGarble (t s seed : nat)
| EvRelease (t hi : nat)
| EvEval (t hi : nat)
| EvGarbleFail (t site seed : nat).  (* goroutine t's Garble failed at error site [site] *)

Fixpoint index_of (x : nat) (l : list nat) : option nat :=
  match l with
  | [] => None
  | a :: r => if a =? x then Some 0 else option_map S (index_of x r)
  end.

(* run goroutine t until it is Idle again (at most [fuel] steps) *)
Fixpoint run_call (fuel t choice : nat) (st : state) : option state :=
  match fuel with
  | O => None
  | S f =>
      match step t choice st with
      | None => None
      | Some st' => match t_pc (s_thr st' t) with Idle => Some st' | _ => run_call f t choice st' end
      end
  end.

Definition set_prog (st : state) (t : nat) (o : op) : state :=
  let th := s_thr st t in
  set_thr st t (mkThread [o] (t_pc th) (t_nh th) (t_h th) (t_res th)).

Definition replay_event (N : nat) (st : state) (e : event) : option state :=
  match e with
  | EvGarble t s seed =>
      let st0 := set_prog st t (OGarble seed) in
      let choice :=
        match s_ptr st0 with
        | Some p => match index_of s (s_pool st0 p) with Some i => Some i | None => None end
        | None => None
        end in
      let ch := match choice with
                | Some i => i
                | None => length (match s_ptr st0 with Some p => s_pool st0 p | None => [] end)
                end in
      match choice, s =? s_nscr st0 with
      | None, false => None                  (* neither pooled nor fresh: the model cannot hand it out *)
      | _, _ =>
          match run_call 6 t ch st0 with
          | Some st1 =>
              let th := s_thr st1 t in
              if (h_scr (t_h th (t_nh th - 1)) =? s) && exclusive N st1 then Some st1 else None
          | None => None
          end
      end
  | EvRelease t hi =>
      match run_call 3 t 0 (set_prog st t (ORelease hi)) with
      | Some st1 => if exclusive N st1 then Some st1 else None
      | None => None
      end
  | EvGarbleFail t site seed =>
      (* which scratch the failed call had is not observable: the replay lets it create a new
         one (always possible), which then sits in the pool; the harness reserves a scratch
         number for it so that the numbering stays aligned *)
      let st0 := set_prog st t (OGarbleFail seed site) in
      let ch := length (match s_ptr st0 with Some p => s_pool st0 p | None => [] end) in
      match run_call 6 t ch st0 with
      | Some st1 => if exclusive N st1 then Some st1 else None
      | None => None
      end
  | EvEval t hi =>
      match run_call 3 t 0 (set_prog st t (OEval hi)) with
      | Some st1 =>
          match t_res (s_thr st1 t) with
          | REval g :: _ => if g =? h_gid (t_h (s_thr st1 t) hi) then Some st1 else None
          | _ => None
          end
      | None => None
      end
  end.

Fixpoint replay (N : nat) (st : state) (evs : list event) : option state :=
  match evs with
  | [] => Some st
  | e :: r => match replay_event N st e with Some st' => replay N st' r | None => None end
  end.
