(* Garble.v — executable model of circuit/garble.go (Gate.garbleInto,
   Circuit.Garble) and circuit/eval.go (Circuit.Eval), over an arbitrary
   block function [pi].  No proofs here (the model must still run when a
   proof breaks); see GarbleProof.v. *)
From Coq Require Import NArith List Bool Arith.
From Mpc Require Import Base.Label Circuit.Circuit.
Import ListNotations.
Open Scope N_scope.

(* circuit.idx / idxUnary *)
Definition idx (l0 l1 : label) : nat :=
  ((if sbit l0 then 2 else 0) + (if sbit l1 then 1 else 0))%nat.
Definition idxU (l0 : label) : nat := if sbit l0 then 1%nat else 0%nat.

Definition xor_if (c : bool) (a b : label) : label := if c then lxor a b else a.

Fixpoint mapi_from {A B} (f : nat -> A -> B) (i : nat) (l : list A) : list B :=
  match l with
  | [] => []
  | x :: t => f i x :: mapi_from f (S i) t
  end.
Definition mapi {A B} (f : nat -> A -> B) (l : list A) := mapi_from f 0 l.

Section G.
  Variable pi : N -> N.

  (* Gate.garbleInto: returns the new output wire, the new tweak counter and
     the transmitted rows (table[start:start+count]). *)
  Definition garble_gate (r : label) (gw : list wire) (id : N) (g : gate)
    : wire * N * list label :=
    let a := nth (gin0 g) gw w0 in
    let b := nth (gin1 g) gw w0 in
    match gop g with
    | XOR =>
        let l0 := lxor (L0 a) (L0 b) in
        (mkWire l0 (lxor l0 r), id, [])
    | XNOR =>
        let l0 := lxor (L0 a) (L0 b) in
        (mkWire (lxor l0 r) l0, id, [])
    | AND =>
        let pa := sbit (L0 a) in
        let pb := sbit (L0 b) in
        let j0 := id in
        let j1 := id + 1 in
        let tg := xor_if pb (lxor (half pi (L0 a) j0) (half pi (L1 a) j0)) r in
        let wg0 := xor_if pa (half pi (L0 a) j0) tg in
        let te := lxor (lxor (half pi (L0 b) j1) (half pi (L1 b) j1)) (L0 a) in
        let we0 := if pb then lxor (lxor (half pi (L0 b) j1) te) (L0 a)
                   else half pi (L0 b) j1 in
        let l0 := lxor wg0 we0 in
        (mkWire l0 (lxor l0 r), id + 2, [tg; te])
    | OR =>
        (* c is the zero Wire while the four rows are encrypted *)
        let t := [0; 0; 0; 0] in
        let t := upd t (idx (L0 a) (L0 b)) (enc pi (L0 a) (L0 b) 0 id) in
        let t := upd t (idx (L0 a) (L1 b)) (enc pi (L0 a) (L1 b) 0 id) in
        let t := upd t (idx (L1 a) (L0 b)) (enc pi (L1 a) (L0 b) 0 id) in
        let t := upd t (idx (L1 a) (L1 b)) (enc pi (L1 a) (L1 b) 0 id) in
        let l0i := idx (L0 a) (L0 b) in
        let cl := nth 0 t 0 in
        let c0 := if Nat.eqb l0i 0 then cl else lxor cl r in
        let c1 := if Nat.eqb l0i 0 then lxor cl r else cl in
        let t := mapi (fun i e => lxor e (if Nat.eqb i l0i then c0 else c1)) t in
        (mkWire c0 c1, id + 1, tl t)
    | INV =>
        let t := [0; 0] in
        let t := upd t (idxU (L0 a)) (enc pi (L0 a) 0 0 id) in
        let t := upd t (idxU (L1 a)) (enc pi (L1 a) 0 0 id) in
        let l0i := idxU (L0 a) in
        let cl := nth 0 t 0 in
        let c0 := if Nat.eqb l0i 0 then lxor cl r else cl in
        let c1 := if Nat.eqb l0i 0 then cl else lxor cl r in
        let t := mapi (fun i e => lxor e (if Nat.eqb i l0i then c1 else c0)) t in
        (mkWire c0 c1, id + 1, tl t)
    end.

  (* the gate loop of Circuit.Garble *)
  Fixpoint garble_gates (r : label) (gw : list wire) (id : N) (gs : list gate)
    : list wire * N * list (list label) :=
    match gs with
    | [] => (gw, id, [])
    | g :: gs' =>
        let '(c, id', row) := garble_gate r gw id g in
        let '(gwf, idf, rows) := garble_gates r (upd gw (gout g) c) id' gs' in
        (gwf, idf, row :: rows)
    end.

  Record garbled := mkGarbled { gR : label; gWires : list wire; gTables : list (list label) }.

  (* Circuit.Garble: rnd is the stream of 16-byte reads from the random
     source (rnd 0 -> R, rnd (1+i) -> input wire i).  [scratch] is the
     content of the reused wire buffer (arbitrary). *)
  Definition input_wires (r : label) (rnd : nat -> N) (n : nat) : list wire :=
    map (fun i => let l0 := rnd (S i) in mkWire l0 (lxor l0 r)) (seq 0 n).

  Definition garble (rnd : nat -> N) (scratch : list wire) (c : circuit) : garbled :=
    let r := setS (rnd 0%nat) in
    let gw := input_wires r rnd (ninputs c)
              ++ firstn (nwires c - ninputs c) (skipn (ninputs c) scratch
              ++ repeat w0 (nwires c)) in
    let '(gwf, _, rows) := garble_gates r gw 0 (gates c) in
    mkGarbled r gwf rows.

  (* one iteration of Circuit.Eval; None = the error returns *)
  Definition geval_gate (ew : list label) (id : N) (g : gate) (row : list label)
    : option (label * N) :=
    let a := nth (gin0 g) ew 0 in
    let b := nth (gin1 g) ew 0 in
    match gop g with
    | XOR | XNOR => Some (lxor a b, id)
    | AND =>
        match row with
        | [tg; te] =>
            let wg := xor_if (sbit a) (half pi a id) tg in
            let we := if sbit b then lxor (lxor (half pi b (id + 1)) te) a
                      else half pi b (id + 1) in
            Some (lxor wg we, id + 2)
        | _ => None
        end
    | OR =>
        let i := idx a b in
        match i with
        | O => Some (dec pi a b id 0, id + 1)
        | S j => match nth_error row j with
                 | Some c => Some (dec pi a b id c, id + 1)
                 | None => None
                 end
        end
    | INV =>
        let i := idxU a in
        match i with
        | O => Some (dec pi a 0 id 0, id + 1)
        | S j => match nth_error row j with
                 | Some c => Some (dec pi a 0 id c, id + 1)
                 | None => None
                 end
        end
    end.

  Fixpoint geval_gates (ew : list label) (id : N) (gs : list gate)
           (tbl : list (list label)) : option (list label) :=
    match gs with
    | [] => Some ew
    | g :: gs' =>
        match geval_gate ew id g (hd [] tbl) with
        | Some (o, id') => geval_gates (upd ew (gout g) o) id' gs' (tl tbl)
        | None => None
        end
    end.

  (* input labels the evaluator holds for input bits x *)
  Definition encode (g : garbled) (c : circuit) (x : list bool) : list label :=
    map (fun i => pick (nth i (gWires g) w0) (nth i x false)) (seq 0 (ninputs c))
    ++ repeat 0 (nwires c - ninputs c).

  Definition geval (c : circuit) (ew : list label) (tbl : list (list label)) :=
    geval_gates ew 0 (gates c) tbl.

  (* circuit.BitFromLabel *)
  Definition decode (w : wire) (l : label) : option bool :=
    if N.eqb l (L0 w) then Some false
    else if N.eqb l (L1 w) then Some true else None.
End G.
