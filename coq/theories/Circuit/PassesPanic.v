(* PassesPanic.v — no pass reaches one of the Go panics (the model's sticky
   error code [gerr]) on a well-formed graph.  (Property C09) *)
From Coq Require Import List Bool Arith Lia.
From Mpc Require Import Circuit.Circuit Circuit.Passes Circuit.PassesProof Circuit.PassesBFS
  Circuit.PassesIO Circuit.PassesTV Circuit.PassesInv Circuit.PassesPrune.
Import ListNotations.

(* ---- ShortCircuitXORZero has no panic site -------------------------- *)

Lemma gerr_scx_try G g z o : gerr (scx_try G g z o) = gerr G.
Proof.
  unfold scx_try. destruct (isZ _); auto. destruct (winp _); auto. destruct (Nat.eqb _ _); auto.
Qed.

Lemma gerr_scx_step G g : gerr (scx_step G g) = gerr G.
Proof. unfold scx_step. destruct (is_xor _); auto. now rewrite !gerr_scx_try. Qed.

Lemma gerr_scx G : gerr (short_circuit_xor_zero G) = gerr G.
Proof.
  unfold short_circuit_xor_zero. generalize (gorder G) as l. intros l. revert G.
  induction l as [|g l IH]; intros G; simpl; auto. now rewrite IH, gerr_scx_step.
Qed.

(* ---- Compile -------------------------------------------------------- *)

Lemma gerr_visit l st c : gerr (cg (visit l st c)) = gerr (cg st).
Proof. unfold visit. destruct (_ && _ && _); reflexivity. Qed.

Lemma gerr_fold_visit l cs : forall st, gerr (cg (fold_left (visit l) cs st)) = gerr (cg st).
Proof. induction cs as [|c cs IH]; intros st; simpl; auto. now rewrite IH, gerr_visit. Qed.

Lemma gerr_wire_assign st l w : gerr (cg (wire_assign st l w)) = gerr (cg st).
Proof.
  unfold wire_assign. destruct (wout _); auto. rewrite gerr_fold_visit.
  destruct (assigned _ _); reflexivity.
Qed.

Lemma gerr_gate_assign st g : gerr (cg (gate_assign st g)) = gerr (cg st).
Proof. unfold gate_assign. destruct (ndead _); auto. simpl. apply gerr_wire_assign. Qed.

Section CompilePanic.
  Variable G : graph.
  Hypothesis CW : cwf G.

  Lemma drain_gerr fuel : forall st,
    binv G st -> length (casg st) + fuel > gnn G ->
    gerr (cg (drain fuel st)) = gerr (cg st).
  Proof.
    induction fuel as [|f IH]; intros st B Hf; simpl.
    - destruct (cpend st) as [|g0 rest] eqn:Hp; [auto|].
      pose proof (binv_bound G CW st B) as Hb. rewrite app_length, Hp in Hb. simpl in Hb. lia.
    - destruct (cpend st) as [|g0 rest] eqn:Hp; [auto|].
      destruct (drain_step G CW st g0 rest B Hp) as (B1 & C1 & _).
      rewrite IH; auto.
      + apply (gerr_gate_assign (mkC (cg st) (cnext st) rest (casg st)) g0).
      + rewrite C1, app_length. simpl. lia.
  Qed.

  Lemma outputs_gerr todo : forall st,
    NoDup todo -> (forall o, In o todo -> ~ asg st o) ->
    gerr (cg (fold_left assign_output todo st)) = gerr (cg st).
  Proof.
    induction todo as [|o todo IH]; intros st ND NA; simpl; auto.
    inversion ND as [|? ? Hno ND']; subst.
    assert (Ho : assigned (cg st) o = false).
    { destruct (assigned (cg st) o) eqn:E; auto. exfalso. apply (NA o); [now left|exact E]. }
    assert (E1 : assign_output st o = mkC (set_w (cg st) o (w_set_id (gw (cg st) o) (Some (cnext st))))
                             (S (cnext st)) (cpend st) (casg st)).
    { unfold assign_output. now rewrite Ho. }
    rewrite IH; auto.
    - now rewrite E1.
    - intros o' Ho' Ha. rewrite E1 in Ha. unfold asg, assigned in Ha. simpl in Ha.
      unfold fupd in Ha. destruct (Nat.eqb_spec o' o); [subst; contradiction|].
      apply (NA o'); [now right|exact Ha].
  Qed.
End CompilePanic.

Theorem compile_gerr G : cwf G -> gerr (cg (compile_assign G)) = gerr G.
Proof.
  intros CW. unfold compile_assign.
  set (st0 := mkC G 0 [] []).
  assert (K0 : core G [] st0).
  { constructor; simpl.
    - apply cstable_refl.
    - auto.
    - intros g. rewrite (c_unvis _ CW g). split; [discriminate|intros []].
    - constructor.
    - intros w i. rewrite (c_fresh _ CW w). discriminate.
    - intros w1 w2 i. rewrite (c_fresh _ CW w1). discriminate.
    - intros w. unfold asg, assigned. simpl. rewrite (c_fresh _ CW w). discriminate.
    - intros g []. }
  assert (A0 : forall w, asg st0 w <-> In w []).
  { intros w. unfold asg, assigned. simpl. rewrite (c_fresh _ CW w). split; [discriminate|intros []]. }
  assert (Cl0 : closed G st0).
  { intros g Lg Hr. exfalso. assert (H : asg st0 (nA (gn G g))).
    { apply Hr. unfold inputs_of. destruct (is_inv _); now left. }
    apply A0 in H. exact H. }
  destruct (input_phase G CW (gins G) [] st0 eq_refl K0 eq_refl Cl0 A0 eq_refl)
    as (K1 & C1 & Cl1 & A1 & N1 & I1).
  { intros i Hi. simpl in Hi. lia. }
  assert (E1 : gerr (cg (fold_left (fun st w => wire_assign st 0 w) (gins G) st0)) = gerr G).
  { generalize (gins G) as l. intros l. change (gerr G) with (gerr (cg st0)).
    generalize st0 as st. induction l as [|w l IH]; intros st; simpl; auto.
    now rewrite IH, gerr_wire_assign. }
  set (st1 := fold_left (fun st w => wire_assign st 0 w) (gins G) st0) in *.
  assert (B1 : binv G st1).
  { constructor; auto.
    - intros w Hw. left. now apply A1.
    - rewrite C1. intros p [].
    - rewrite C1. intros l1 g l2 H. destruct l1; discriminate.
    - rewrite C1. intros g []. }
  destruct (drain_inv G CW (S (gnn G)) st1 B1) as (B2 & P2 & W2); [lia|].
  pose proof (drain_gerr G CW (S (gnn G)) st1 B1) as E2.
  set (st2 := drain (S (gnn G)) st1) in *.
  pose proof (b_core _ _ B2) as K2.
  assert (NA : forall o, In o (gouts G) -> ~ asg st2 o).
  { intros o Ho Ha. apply (k_noflag _ _ _ K2) in Ha. apply (c_outs_flag _ CW) in Ho. congruence. }
  rewrite (outputs_gerr (gouts G) st2 (c_outs_nodup _ CW) NA).
  rewrite E2; [exact E1|lia].
Qed.

(* ShortCircuitXORZero, Prune and Compile never panic on the graphs that
   ConstPropagate leaves behind *)
Theorem no_panic_after_cp (do_prune : bool) G :
  wfg G -> wfb G -> wfx G ->
  gerr (cg (compile_assign (optimize do_prune G))) = gerr (const_propagate G).
Proof.
  intros WF FB X.
  rewrite (compile_gerr _ (optimize_cwf do_prune G WF FB X)).
  destruct (fresh_SI G WF FB X) as (rank & SIG).
  pose proof (geval_sat G WF []) as I0.
  pose proof (fresh_TV G WF FB) as T0.
  destruct (const_propagate_SI rank [] _ G SIG I0) as ((B1 & S1) & F1).
  pose proof (tvs_TV _ _ (tvs_const_propagate G (Inv_consts _ _ _ I0)) T0) as T1.
  set (G1 := const_propagate G) in *.
  destruct (scx_fold_XI (gorder G1) G1 rank) as (_ & r & B2 & S2 & _ & V2); auto.
  - apply (bk_nodup _ B1).
  - now apply ST_ST0.
  - intros w p Hp. destruct (st_winp2 _ _ S1 w p Hp) as [a b]. split; auto.
  - unfold optimize. fold G1.
    pose proof (prune_gerr r _ B2 S2 (V2 T1)) as PG.
    change (fold_left scx_step (gorder G1) G1) with (short_circuit_xor_zero G1) in PG.
    destruct do_prune.
    + rewrite PG. apply gerr_scx.
    + apply gerr_scx.
Qed.

(* ---- why the sort key must be an unbounded (order preserving) level --- *)

(* [levels_ok]/[emission_ok_sorted] are about Gate.Level as a natural number.
   A level stored modulo 2^16 is not order preserving: two gates on one
   dependent chain, at BFS depth 65535 and 65536, get keys 65535 and 0, so the
   stable sort would emit the consumer before its producer.  (The harness
   builds such chains for the GMW target on every run.) *)
From Coq Require Import NArith.

Lemma level_wrap16_not_monotone :
  exists a b : N, (a < b)%N /\ ~ ((a mod 65536) < (b mod 65536))%N.
Proof. exists 65535%N, 65536%N. split; [reflexivity|]. vm_compute. intros H. discriminate H. Qed.
